/-
Helper lemmas for the library properties C12, C13, C14 (`RuschmProofs/C12.lean` …).
Vocabulary: `RuschmSpec/Lib.lean`.
-/
import RuschmSpec.Lib
import RuschmProofs.StoreLemmas

namespace Ruschm

/-! ## C12: facts about the spec -/

namespace S

theorem renameTarget_swap (a b n : String) : renameTarget [(a, b), (b, a)] n = swapName a b n := by
  unfold renameTarget swapName
  simp only [List.reverse_cons, List.reverse_nil, List.nil_append, List.cons_append,
    List.lookup_cons, List.lookup_nil]
  by_cases h1 : n = a <;> by_cases h2 : n = b
  · subst h1; subst h2; simp
  · subst h1
    have : (n == b) = false := by simpa using h2
    simp [this]
  · subst h2
    simp [h1]
  · have e1 : (n == a) = false := by simpa using h1
    have e2 : (n == b) = false := by simpa using h2
    simp [e1, e2, h1, h2]

theorem renameTarget_single (a b n : String) :
    renameTarget [(a, b)] n = if n = a then b else n := by
  unfold renameTarget
  simp only [List.reverse_cons, List.reverse_nil, List.nil_append, List.lookup_cons, List.lookup_nil]
  by_cases h1 : n = a
  · simp [h1]
  · have e1 : (n == a) = false := by simpa using h1
    simp [e1, h1]

theorem denote_rename {s : ImportSet} {ex bs} (pairs) (h : denote s ex = some bs) :
    denote (.rename s pairs) ex = some (bs.map fun p => (renameTarget pairs p.1, p.2)) := by
  simp [denote, h]

theorem denote_only {s : ImportSet} {ex bs} (ids) (h : denote s ex = some bs) :
    denote (.only s ids) ex = some (bs.filter fun p => ids.contains p.1) := by
  simp [denote, h]

end S

namespace Interp
open Ruschm

/-! ## association lists keyed by library name -/

theorem libLookup_libInsert_self {α} (l : List (LibName × α)) (k : LibName) (v : α) :
    libLookup (libInsert l k v) k = some v := by
  induction l with
  | nil => simp [libInsert, libLookup]
  | cons p rest ih =>
    obtain ⟨k', v'⟩ := p
    by_cases h : k' = k
    · simp [libInsert, libLookup, h]
    · simp [libInsert, libLookup, h, ih]

theorem libLookup_libInsert_ne {α} (l : List (LibName × α)) {k k' : LibName} (v : α) (hne : k' ≠ k) :
    libLookup (libInsert l k v) k' = libLookup l k' := by
  induction l with
  | nil => simp [libInsert, libLookup, Ne.symm hne]
  | cons p rest ih =>
    obtain ⟨k'', v''⟩ := p
    by_cases h : k'' = k
    · subst h; simp [libInsert, libLookup, Ne.symm hne]
    · by_cases h2 : k'' = k'
      · subst h2; simp [libInsert, libLookup, h]
      · simp [libInsert, libLookup, h, h2, ih]

/-- inserting never disturbs an entry that is already there, unless it is for the same key -/
theorem libLookup_libInsert_of_some {α} (l : List (LibName × α)) {k n : LibName} {v d : α}
    (hk : libLookup l k = none) (hn : libLookup l n = some d) :
    libLookup (libInsert l k v) n = some d := by
  have : n ≠ k := by rintro rfl; simp [hk] at hn
  rw [libLookup_libInsert_ne _ _ this, hn]

/-! ## C12: import sets over libraries that need no evaluation -/

theorem direct_cached {fuel : Nat} {st : State} {name : LibName} {loc : Loc} {defs : S.Bindings}
    (hip : name ∉ st.inProgress) (hc : libLookup st.instances name = some defs) :
    evalImportSet (fuel + 2) st (.direct name loc) = (.ok defs, st) := by
  rw [evalImportSet]
  have : st.inProgress.contains name = false := by simpa using hip
  simp only [this]
  rw [getLibrary]
  simp [hc]

theorem direct_native {fuel : Nat} {st : State} {name : LibName} {loc : Loc} {defs : S.Bindings}
    (hip : name ∉ st.inProgress) (hc : libLookup st.instances name = none)
    (hf : libLookup st.factories name = some (.native defs)) :
    evalImportSet (fuel + 2) st (.direct name loc) =
      (.ok defs, { st with instances := libInsert st.instances name defs }) := by
  rw [evalImportSet]
  have : st.inProgress.contains name = false := by simpa using hip
  simp only [this]
  rw [getLibrary]
  simp [hc, hf]

theorem exportsOf_cache_native {st : State} {name : LibName} {defs : S.Bindings}
    (hc : libLookup st.instances name = none)
    (hf : libLookup st.factories name = some (.native defs)) (n : LibName) :
    exportsOf { st with instances := libInsert st.instances name defs } n = exportsOf st n := by
  unfold exportsOf
  by_cases h : n = name
  · subst h; simp [libLookup_libInsert_self, hc, hf]
  · simp [libLookup_libInsert_ne _ _ h]

/-- the conclusion of `importSet_eq_spec` -/
structure ImportSetSpec (fuel : Nat) (st : State) (s : ImportSet) (bs : S.Bindings) (st' : State) : Prop where
  eval : evalImportSet fuel st s = (.ok bs, st')
  same : SameButInstances st st'
  exports : ∀ n, exportsOf st' n = exportsOf st n
  cached : (libLookup st.instances (S.leaf s)).isSome → st' = st
  grow : ∀ n d, libLookup st.instances n = some d → libLookup st'.instances n = some d

theorem importSet_spec (s : ImportSet) : ∀ (fuel : Nat) (st : State) (bs : S.Bindings),
    S.fuelNeeded s ≤ fuel → S.leaf s ∉ st.inProgress → S.denote s (exportsOf st) = some bs →
    ∃ st', ImportSetSpec fuel st s bs st' := by
  induction s with
  | direct name loc =>
    intro fuel st bs hf hip hd
    obtain ⟨fuel, rfl⟩ : ∃ k, fuel = k + 2 := ⟨fuel - 2, by simp [S.fuelNeeded] at hf; omega⟩
    simp only [S.denote, exportsOf] at hd
    simp only [S.leaf] at hip
    cases hc : libLookup st.instances name with
    | some d =>
      simp [hc] at hd; subst hd
      exact ⟨st, direct_cached hip hc, rfl, fun _ => rfl, fun _ => rfl, fun _ _ h => h⟩
    | none =>
      simp only [hc] at hd
      cases hfac : libLookup st.factories name with
      | none => simp [hfac] at hd
      | some f =>
        cases f with
        | ast _ => simp [hfac] at hd
        | native d =>
          simp [hfac] at hd; subst hd
          refine ⟨_, direct_native hip hc hfac, rfl, exportsOf_cache_native hc hfac, ?_, ?_⟩
          · simp [S.leaf, hc]
          · intro n d' h; exact libLookup_libInsert_of_some _ hc h
  | only sub ids ih =>
    intro fuel st bs hf hip hd
    obtain ⟨fuel, rfl⟩ : ∃ k, fuel = k + 1 := ⟨fuel - 1, by simp [S.fuelNeeded] at hf; omega⟩
    simp only [S.denote, Option.map_eq_some_iff] at hd
    obtain ⟨bs0, hd0, rfl⟩ := hd
    obtain ⟨st', h⟩ := ih fuel st bs0 (by simp [S.fuelNeeded] at hf; omega) hip hd0
    exact ⟨st', by rw [evalImportSet, h.eval], h.same, h.exports, h.cached, h.grow⟩
  | except sub ids ih =>
    intro fuel st bs hf hip hd
    obtain ⟨fuel, rfl⟩ : ∃ k, fuel = k + 1 := ⟨fuel - 1, by simp [S.fuelNeeded] at hf; omega⟩
    simp only [S.denote, Option.map_eq_some_iff] at hd
    obtain ⟨bs0, hd0, rfl⟩ := hd
    obtain ⟨st', h⟩ := ih fuel st bs0 (by simp [S.fuelNeeded] at hf; omega) hip hd0
    exact ⟨st', by rw [evalImportSet, h.eval], h.same, h.exports, h.cached, h.grow⟩
  | «prefix» sub p ih =>
    intro fuel st bs hf hip hd
    obtain ⟨fuel, rfl⟩ : ∃ k, fuel = k + 1 := ⟨fuel - 1, by simp [S.fuelNeeded] at hf; omega⟩
    simp only [S.denote, Option.map_eq_some_iff] at hd
    obtain ⟨bs0, hd0, rfl⟩ := hd
    obtain ⟨st', h⟩ := ih fuel st bs0 (by simp [S.fuelNeeded] at hf; omega) hip hd0
    exact ⟨st', by rw [evalImportSet, h.eval], h.same, h.exports, h.cached, h.grow⟩
  | rename sub pairs ih =>
    intro fuel st bs hf hip hd
    obtain ⟨fuel, rfl⟩ : ∃ k, fuel = k + 1 := ⟨fuel - 1, by simp [S.fuelNeeded] at hf; omega⟩
    simp only [S.denote, Option.map_eq_some_iff] at hd
    obtain ⟨bs0, hd0, rfl⟩ := hd
    obtain ⟨st', h⟩ := ih fuel st bs0 (by simp [S.fuelNeeded] at hf; omega) hip hd0
    refine ⟨st', ?_, h.same, h.exports, h.cached, h.grow⟩
    rw [evalImportSet, h.eval]
    simp only [S.renameTarget]
    congr 2
    apply List.map_congr_left
    intro b _
    cases pairs.reverse.lookup b.1 <;> rfl

/-! ## an invariant of every step of the interpreter (one induction on fuel for all of the mutual block) -/

/-- What every step of the interpreter preserves, relative to a preorder `R` on stores that the
evaluator respects. -/
structure Inv (R : Store → Store → Prop) (st st' : State) : Prop where
  inProgress : st'.inProgress = st.inProgress
  instances : ∀ n d, libLookup st.instances n = some d → libLookup st'.instances n = some d
  factories : ∀ n f, libLookup st.factories n = some f → libLookup st'.factories n = some f
  files : st'.files = st.files
  env : st'.env = st.env
  syn : st'.syn = st.syn
  importEnd : st'.importEnd = st.importEnd
  store : R st.store st'.store
  dir : st'.dir = st.dir

/-- the hypotheses on `R` -/
structure StoreRel (R : Store → Store → Prop) : Prop where
  refl : ∀ σ, R σ σ
  trans : ∀ {a b c}, R a b → R b c → R a c
  expr : ∀ {fuel σ ρ e r σ'}, Eval.evalExpr fuel σ ρ e = (r, σ') → R σ σ'
  define : ∀ σ ρ k v, R σ (σ.define ρ k v)
  newFrame : ∀ σ p, R σ (σ.newFrame p).2

variable {R : Store → Store → Prop}

theorem Inv.refl (hR : StoreRel R) (st : State) : Inv R st st :=
  ⟨rfl, fun _ _ h => h, fun _ _ h => h, rfl, rfl, rfl, rfl, hR.refl _, rfl⟩

theorem Inv.trans (hR : StoreRel R) {a b c : State} (h1 : Inv R a b) (h2 : Inv R b c) : Inv R a c :=
  ⟨h2.inProgress.trans h1.inProgress, fun n d h => h2.instances n d (h1.instances n d h),
   fun n f h => h2.factories n f (h1.factories n f h), h2.files.trans h1.files,
   h2.env.trans h1.env, h2.syn.trans h1.syn, h2.importEnd.trans h1.importEnd,
   hR.trans h1.store h2.store, h2.dir.trans h1.dir⟩

theorem Inv.store_step (st : State) {σ' : Store} (h : R st.store σ') :
    Inv R st { st with store := σ' } :=
  ⟨rfl, fun _ _ h => h, fun _ _ h => h, rfl, rfl, rfl, rfl, h, rfl⟩

theorem foldl_define_rel (hR : StoreRel R) (ρ : Nat) (defs : List (String × Value)) (σ : Store) :
    R σ (defs.foldl (fun σ p => σ.define ρ p.1 p.2) σ) := by
  induction defs generalizing σ with
  | nil => exact hR.refl _
  | cons p rest ih => exact hR.trans (hR.define σ ρ p.1 p.2) (ih _)

theorem evalExprOrDef_inv (hR : StoreRel R) {fuel st s ρ r st'}
    (h : evalExprOrDef fuel st s ρ = (r, st')) : Inv R st st' := by
  unfold evalExprOrDef at h
  split at h
  · split at h <;> (rename_i he; cases h; exact Inv.store_step _ (hR.expr he))
  · split at h <;> rename_i he <;> cases h
    · exact Inv.store_step _ (hR.trans (hR.expr he) (hR.define _ _ _ _))
    · exact Inv.store_step _ (hR.expr he)
  · cases h; exact Inv.store_step _ (hR.define _ _ _ _)
  · cases h; exact Inv.refl hR _

/-- the invariant for all functions of the mutual block at one amount of fuel -/
structure InvAt (R : Store → Store → Prop) (fuel : Nat) : Prop where
  importSet : ∀ {st s r st'}, evalImportSet fuel st s = (r, st') → Inv R st st'
  getLibrary : ∀ {st name loc r st'}, getLibrary fuel st name loc = (r, st') → Inv R st st'
  import_ : ∀ {st sets ρ r st'}, evalImport fuel st sets ρ = (r, st') → Inv R st st'
  importSets : ∀ {st sets acc r st'}, evalImportSets fuel st sets acc = (r, st') → Inv R st st'
  libraryDef : ∀ {st decls r st'}, evalLibraryDef fuel st decls = (r, st') → Inv R st st'
  libDecls : ∀ {st ρ decls acc r st'}, evalLibDecls fuel st ρ decls acc = (r, st') → Inv R st st'
  statements : ∀ {st ρ ss r st'}, evalStatements fuel st ρ ss = (r, st') → Inv R st st'

theorem invAt_zero (hR : StoreRel R) : InvAt R 0 := by
  constructor <;> intros <;> rename_i h
  · rw [evalImportSet] at h; cases h; exact Inv.refl hR _
  · rw [Interp.getLibrary] at h; cases h; exact Inv.refl hR _
  · rw [evalImport] at h; cases h; exact Inv.refl hR _
  · rw [evalImportSets] at h; cases h; exact Inv.refl hR _
  · rw [evalLibraryDef] at h; cases h; exact Inv.refl hR _
  · rw [evalLibDecls] at h; cases h; exact Inv.refl hR _
  · rw [evalStatements] at h; cases h; exact Inv.refl hR _


theorem importSet_succ (hR : StoreRel R) {fuel} (ih : InvAt R fuel) {st s r st'}
    (h : evalImportSet (fuel + 1) st s = (r, st')) : Inv R st st' := by
  cases s with
  | direct name loc =>
    rw [evalImportSet] at h
    split at h
    · cases h; exact Inv.refl hR _
    · cases h
      have i := ih.getLibrary (st := { st with inProgress := name :: st.inProgress }) (name := name)
        (loc := loc) (r := _) (st' := _) rfl
      exact ⟨by simp [i.inProgress], i.instances, i.factories, i.files, i.env, i.syn, i.importEnd, i.store, i.dir⟩
  | _ =>
    rw [evalImportSet] at h
    split at h <;> rename_i he <;> cases h <;> exact ih.importSet he

/-- the factory `get_library` finds for a name that has no instance yet: the registered one, or
one made from the library file (which is then registered) -/
def findFactory (st : State) (name : LibName) (loc : Loc) : Except SErr Factory × State :=
  match libLookup st.factories name with
  | some f => (.ok f, st)
  | none =>
    match st.files.lookup (fileKey st.dir (libPath name)) with
    | none => (.error (.libNotFound, loc), st)
    | some .unreadable => (.error (.io, none), st)
    | some (.text t) =>
      match factoryOfText name t with
      | .ok f => (.ok f, { st with factories := libInsert st.factories name f })
      | .error e => (.error e, st)

/-- `new_library` -/
def newLibrary (fuel : Nat) (st : State) (f : Factory) : Except SErr (List (String × Value)) × State :=
  match f with
  | .native defs => (.ok defs, st)
  | .ast decls => evalLibraryDef fuel st decls

/-- the insertion into the instance cache after a successful instantiation -/
def cacheInstance (name : LibName) (res : Except SErr (List (String × Value)) × State) :
    Except SErr (List (String × Value)) × State :=
  match res.1 with
  | .ok defs => (.ok defs, { res.2 with instances := libInsert res.2.instances name defs })
  | .error e => (.error e, res.2)

def instantiate (fuel : Nat) (st : State) (f : Factory) (name : LibName) :
    Except SErr (List (String × Value)) × State :=
  cacheInstance name (newLibrary fuel st f)

theorem getLibrary_succ_eq (fuel : Nat) (st : State) (name : LibName) (loc : Loc) :
    Interp.getLibrary (fuel + 1) st name loc =
      match libLookup st.instances name with
      | some defs => (.ok defs, st)
      | none =>
        match findFactory st name loc with
        | (.error e, st) => (.error e, st)
        | (.ok f, st) => instantiate fuel st f name := by
  rw [Interp.getLibrary]
  rfl

theorem findFactory_inv (hR : StoreRel R) {st name loc r st'} (hnone : libLookup st.instances name = none)
    (h : findFactory st name loc = (r, st')) : Inv R st st' ∧ libLookup st'.instances name = none := by
  unfold findFactory at h
  split at h
  · cases h; exact ⟨Inv.refl hR _, hnone⟩
  · rename_i hf
    split at h
    · cases h; exact ⟨Inv.refl hR _, hnone⟩
    · cases h; exact ⟨Inv.refl hR _, hnone⟩
    · split at h
      · cases h
        refine ⟨⟨rfl, fun _ _ h => h, ?_, rfl, rfl, rfl, rfl, hR.refl _, rfl⟩, hnone⟩
        intro n f' h'
        exact libLookup_libInsert_of_some _ hf h'
      · cases h; exact ⟨Inv.refl hR _, hnone⟩

theorem cacheInstance_inv {st name res r st'}
    (hnone : libLookup st.instances name = none) (i : Inv R st res.2)
    (h : cacheInstance name res = (r, st')) : Inv R st st' := by
  unfold cacheInstance at h
  split at h
  · cases h
    refine ⟨i.inProgress, ?_, i.factories, i.files, i.env, i.syn, i.importEnd, i.store, i.dir⟩
    intro n d hn
    have hne : n ≠ name := by rintro rfl; simp [hnone] at hn
    simpa [libLookup_libInsert_ne _ _ hne] using i.instances n d hn
  · cases h; exact i

theorem newLibrary_inv (hR : StoreRel R) {fuel} (ih : InvAt R fuel) (st f) :
    Inv R st (newLibrary fuel st f).2 := by
  unfold newLibrary
  cases f with
  | native defs => exact Inv.refl hR _
  | ast decls => exact ih.libraryDef (r := _) (st' := _) rfl

theorem instantiate_inv (hR : StoreRel R) {fuel} (ih : InvAt R fuel) {st f name r st'}
    (hnone : libLookup st.instances name = none)
    (h : instantiate fuel st f name = (r, st')) : Inv R st st' :=
  cacheInstance_inv hnone (newLibrary_inv hR ih st f) h

theorem getLibrary_succ (hR : StoreRel R) {fuel} (ih : InvAt R fuel) {st name loc r st'}
    (h : Interp.getLibrary (fuel + 1) st name loc = (r, st')) : Inv R st st' := by
  rw [getLibrary_succ_eq] at h
  split at h
  · cases h; exact Inv.refl hR _
  · rename_i hnone
    split at h
    · rename_i hf; cases h; exact (findFactory_inv hR hnone hf).1
    · rename_i hf
      have ⟨i1, hn⟩ := findFactory_inv hR hnone hf
      exact Inv.trans hR i1 (instantiate_inv hR ih hn h)


theorem import_succ (hR : StoreRel R) {fuel} (ih : InvAt R fuel) {st sets ρ r st'}
    (h : evalImport (fuel + 1) st sets ρ = (r, st')) : Inv R st st' := by
  rw [evalImport] at h
  split at h <;> rename_i he <;> cases h
  · exact ih.importSets he
  · exact Inv.trans hR (ih.importSets he) (Inv.store_step _ (foldl_define_rel hR _ _ _))

theorem importSets_succ (hR : StoreRel R) {fuel} (ih : InvAt R fuel) {st sets acc r st'}
    (h : evalImportSets (fuel + 1) st sets acc = (r, st')) : Inv R st st' := by
  cases sets with
  | nil => rw [evalImportSets] at h; cases h; exact Inv.refl hR _
  | cons s rest =>
    rw [evalImportSets] at h
    split at h <;> rename_i he
    · cases h; exact ih.importSet he
    · split at h
      · cases h; exact ih.importSet he
      · exact Inv.trans hR (ih.importSet he) (ih.importSets h)

theorem libraryDef_succ (hR : StoreRel R) {fuel} (ih : InvAt R fuel) {st decls r st'}
    (h : evalLibraryDef (fuel + 1) st decls = (r, st')) : Inv R st st' := by
  rw [evalLibraryDef] at h
  simp only [Store.newFrame] at h
  split at h <;> rename_i he <;> cases h <;>
    exact Inv.trans hR (Inv.store_step _ (hR.newFrame st.store none)) (ih.libDecls he)

theorem libDecls_succ (hR : StoreRel R) {fuel} (ih : InvAt R fuel) {st ρ decls acc r st'}
    (h : evalLibDecls (fuel + 1) st ρ decls acc = (r, st')) : Inv R st st' := by
  cases decls with
  | nil => rw [evalLibDecls] at h; cases h; exact Inv.refl hR _
  | cons d ds =>
    cases d <;> rw [evalLibDecls] at h
    · split at h <;> rename_i he
      · cases h; exact ih.import_ he
      · exact Inv.trans hR (ih.import_ he) (ih.libDecls h)
    · exact ih.libDecls h
    · split at h <;> rename_i he
      · cases h; exact ih.statements he
      · exact Inv.trans hR (ih.statements he) (ih.libDecls h)

theorem statements_succ (hR : StoreRel R) {fuel} (ih : InvAt R fuel) {st ρ ss r st'}
    (h : evalStatements (fuel + 1) st ρ ss = (r, st')) : Inv R st st' := by
  cases ss with
  | nil => rw [evalStatements] at h; cases h; exact Inv.refl hR _
  | cons s rest =>
    rw [evalStatements] at h
    split at h <;> rename_i he
    · cases h; exact evalExprOrDef_inv hR he
    · exact Inv.trans hR (evalExprOrDef_inv hR he) (ih.statements h)

theorem invAt (hR : StoreRel R) : ∀ fuel, InvAt R fuel
  | 0 => invAt_zero hR
  | fuel + 1 =>
    have ih := invAt hR fuel
    ⟨importSet_succ hR ih, getLibrary_succ hR ih, import_succ hR ih, importSets_succ hR ih,
     libraryDef_succ hR ih, libDecls_succ hR ih, statements_succ hR ih⟩

/-- the trivial store relation: enough for everything that does not concern the store -/
theorem storeRel_true : StoreRel (fun _ _ => True) :=
  ⟨fun _ => trivial, fun _ _ => trivial, fun _ => trivial, fun _ _ _ _ => trivial, fun _ _ => trivial⟩

theorem getLibrary_ok_cached {fuel : Nat} {st st' : State} {name : LibName} {loc : Loc} {defs : S.Bindings}
    (h : Interp.getLibrary fuel st name loc = (.ok defs, st')) :
    libLookup st'.instances name = some defs := by
  cases fuel with
  | zero => rw [Interp.getLibrary] at h; cases h
  | succ fuel =>
    rw [getLibrary_succ_eq] at h
    split at h
    · rename_i hc; cases h; exact hc
    · split at h
      · cases h
      · unfold instantiate cacheInstance at h
        split at h
        · cases h; exact libLookup_libInsert_self _ _ _
        · cases h

theorem evalAst_inv (hR : StoreRel R) {fuel st s r st'}
    (h : evalAst fuel st s = (r, st')) :
    ∃ st1, (st1 = st ∨ st1 = { st with importEnd := true }) ∧ Inv R st1 st' := by
  unfold evalAst at h
  generalize hres : (if (!st.importEnd) = true then _ else _ : Except SErr (Option Value) × State) = res at h
  have key : ∃ st1, (st1 = st ∨ st1 = { st with importEnd := true }) ∧ Inv R st1 res.2 := by
    subst hres
    split
    · split
      · split <;> rename_i he
        · exact ⟨st, .inl rfl, (invAt hR fuel).import_ he⟩
        · exact ⟨st, .inl rfl, (invAt hR fuel).import_ he⟩
      · exact ⟨st, .inl rfl, Inv.refl hR _⟩
      · exact ⟨_, .inr rfl, evalExprOrDef_inv hR (r := _) (st' := _) rfl⟩
    · exact ⟨st, .inl rfl, evalExprOrDef_inv hR (r := _) (st' := _) rfl⟩
  obtain ⟨r0, st0⟩ := res
  obtain ⟨st1, h1, i⟩ := key
  refine ⟨st1, h1, ?_⟩
  simp only at h i
  split at h <;> cases h <;> exact i
end Interp
namespace Loader

/-! ## C14: the abstract loader as a depth-first traversal with an explicit path -/

/-- `loadDeps` over caches only -/
def dfsDeps (f : List Name → Name → Outcome × List Name) (c : List Name) : List Name → Outcome × List Name
  | [] => (.ok, c)
  | d :: ds =>
    match f c d with
    | (.ok, c') => dfsDeps f c' ds
    | (e, c') => (e, c')

def finishHealthy (x : Name) : Outcome × List Name → Outcome × List Name
  | (.ok, c') => (.ok, x :: c')
  | (e, c') => (e, c')

def finishFaulty : Outcome × List Name → Outcome × List Name
  | (.ok, c') => (.fault, c')
  | (e, c') => (e, c')

/-- `load` with the in-progress list as a parameter that is passed down (and so restored by
construction); `load_eq_dfs` shows that this is what `load` computes -/
def dfs : Nat → Graph → List Name → List Name → Name → Outcome × List Name
  | 0, _, c, _, _ => (.fuel, c)
  | fuel + 1, g, c, path, x =>
    if path.contains x then (.cyclic, c) else
    if c.contains x then (.ok, c) else
    match g.node x with
    | .missing => (.notFound, c)
    | .unreadable => (.io, c)
    | .malformed => (.syntax, c)
    | .healthy deps =>
      finishHealthy x (dfsDeps (fun c d => dfs fuel g c (x :: path) d) c deps)
    | .faulty deps =>
      finishFaulty (dfsDeps (fun c d => dfs fuel g c (x :: path) d) c deps)

theorem loadDeps_eq_dfsDeps (ld : LState → Name → Outcome × LState) (f : List Name → Name → Outcome × List Name)
    (ip : List Name) (deps : List Name)
    (h : ∀ c d, d ∈ deps → ld ⟨c, ip⟩ d = ((f c d).1, ⟨(f c d).2, ip⟩)) (c : List Name) :
    loadDeps ld ⟨c, ip⟩ deps = ((dfsDeps f c deps).1, ⟨(dfsDeps f c deps).2, ip⟩) := by
  induction deps generalizing c with
  | nil => rfl
  | cons d ds ih =>
    rw [loadDeps, dfsDeps, h c d (by simp)]
    cases hr : (f c d).1 <;> simp only [] <;> rw [show f c d = ((f c d).1, (f c d).2) from rfl, hr]
    · exact ih (fun c d hd => h c d (by simp [hd])) _

theorem load_eq_dfs (g : Graph) : ∀ (fuel : Nat) (c ip : List Name) (x : Name),
    load fuel g ⟨c, ip⟩ x = ((dfs fuel g c ip x).1, ⟨(dfs fuel g c ip x).2, ip⟩) := by
  intro fuel
  induction fuel with
  | zero => intros; rfl
  | succ fuel ih =>
    intro c ip x
    rw [load, dfs]
    by_cases hx : x ∈ ip
    · rw [if_pos (by simpa using hx), if_pos (by simpa using hx)]
    · rw [if_neg (by simpa using hx), if_neg (by simpa using hx)]
      by_cases hc : x ∈ c
      · simp [hc]
      · have hd := fun deps => loadDeps_eq_dfsDeps (load fuel g) (fun c d => dfs fuel g c (x :: ip) d)
          (x :: ip) deps (fun c d _ => ih c (x :: ip) d) c
        simp only [List.contains_iff_mem, hc, if_false]
        cases hn : g.node x with
        | missing => simp
        | unreadable => simp
        | malformed => simp
        | healthy deps =>
          simp only [hd deps]
          generalize dfsDeps (fun c d => dfs fuel g c (x :: ip) d) c deps = res
          obtain ⟨r, c'⟩ := res
          cases r <;> simp [finishHealthy]
        | faulty deps =>
          simp only [hd deps]
          generalize dfsDeps (fun c d => dfs fuel g c (x :: ip) d) c deps = res
          obtain ⟨r, c'⟩ := res
          cases r <;> simp [finishFaulty]


theorem dfs_cyclic {fuel g c path x} (h : x ∈ path) : dfs (fuel + 1) g c path x = (.cyclic, c) := by
  rw [dfs, if_pos (by simpa using h)]

theorem dfs_cached {fuel g c path x} (h : x ∉ path) (hc : x ∈ c) : dfs (fuel + 1) g c path x = (.ok, c) := by
  rw [dfs, if_neg (by simpa using h), if_pos (by simpa using hc)]

theorem dfs_node {fuel g c path x} (h : x ∉ path) (hc : x ∉ c) : dfs (fuel + 1) g c path x =
    match g.node x with
    | .missing => (.notFound, c)
    | .unreadable => (.io, c)
    | .malformed => (.syntax, c)
    | .healthy deps => finishHealthy x (dfsDeps (fun c d => dfs fuel g c (x :: path) d) c deps)
    | .faulty deps => finishFaulty (dfsDeps (fun c d => dfs fuel g c (x :: path) d) c deps) := by
  rw [dfs, if_neg (by simpa using h), if_neg (by simpa using hc)]

theorem finishHealthy_fst_ne_fuel {x r} (h : r.1 ≠ .fuel) : (finishHealthy x r).1 ≠ .fuel := by
  obtain ⟨o, c⟩ := r; cases o <;> simp_all [finishHealthy]

theorem finishFaulty_fst_ne_fuel {r} (h : r.1 ≠ .fuel) : (finishFaulty r).1 ≠ .fuel := by
  obtain ⟨o, c⟩ := r; cases o <;> simp_all [finishFaulty]

/-! ### termination: `|g| + 1` fuel always suffices -/

/-- the nodes of the graph that are not in progress: the measure that decreases along the path -/
def free (g : Graph) (path : List Name) : Nat := ((g.map Prod.fst).filter (fun y => !path.contains y)).length

theorem free_le (g : Graph) (path : List Name) : free g path ≤ g.length := by
  unfold free
  exact Nat.le_trans (List.length_filter_le _ _) (by simp)

theorem filter_len_le {l : List Name} {p q : Name → Bool} (hqp : ∀ y, q y = true → p y = true) :
    (l.filter q).length ≤ (l.filter p).length := by
  induction l with
  | nil => simp
  | cons a l ih =>
    simp only [List.filter_cons]
    cases hq : q a
    · cases hp : p a <;> simp <;> omega
    · simp [hqp a hq, ih]

theorem filter_len_lt {l : List Name} {p q : Name → Bool} (hqp : ∀ y, q y = true → p y = true)
    {x : Name} (hx : x ∈ l) (hpx : p x = true) (hqx : q x = false) :
    (l.filter q).length < (l.filter p).length := by
  induction l with
  | nil => cases hx
  | cons a l ih =>
    simp only [List.filter_cons]
    by_cases hax : a = x
    · subst hax
      have := filter_len_le (l := l) hqp
      simp [hpx, hqx]; omega
    · have hx' : x ∈ l := by simpa [Ne.symm hax] using hx
      have := ih hx'
      cases hq : q a
      · cases hp : p a <;> simp <;> omega
      · simp [hqp a hq, this]

theorem free_lt {g : Graph} {path : List Name} {x : Name} (hx : x ∈ g.map Prod.fst) (hp : x ∉ path) :
    free g (x :: path) < free g path := by
  unfold free
  apply filter_len_lt (x := x) _ hx
  · simpa using hp
  · simp
  · intro y; simp

theorem mem_keys_of_node {g : Graph} {x : Name} (h : g.node x ≠ .missing) : x ∈ g.map Prod.fst := by
  unfold Graph.node at h
  cases hl : g.lookup x with
  | none => simp [hl] at h
  | some n =>
    clear h
    induction g with
    | nil => simp at hl
    | cons p g ih =>
      obtain ⟨k, v⟩ := p
      by_cases hk : x = k
      · simp [hk]
      · have : (x == k) = false := by simpa using hk
        simp only [List.lookup_cons, this] at hl
        simp [ih hl]


theorem dfsDeps_ne_fuel {f : List Name → Name → Outcome × List Name} {deps : List Name}
    (h : ∀ c d, d ∈ deps → (f c d).1 ≠ .fuel) (c : List Name) : (dfsDeps f c deps).1 ≠ .fuel := by
  induction deps generalizing c with
  | nil => simp [dfsDeps]
  | cons d ds ih =>
    rw [dfsDeps]
    have hd := h c d (by simp)
    generalize f c d = res at hd
    obtain ⟨r, c'⟩ := res
    cases r <;> simp_all

theorem dfs_ne_fuel (g : Graph) : ∀ (fuel : Nat) (c path : List Name) (x : Name),
    free g path < fuel → (dfs fuel g c path x).1 ≠ .fuel := by
  intro fuel
  induction fuel with
  | zero => intro c path x h; omega
  | succ fuel ih =>
    intro c path x hlt
    by_cases hx : x ∈ path
    · simp [dfs_cyclic hx]
    · by_cases hc : x ∈ c
      · simp [dfs_cached hx hc]
      · rw [dfs_node hx hc]
        have key : ∀ deps, g.node x ≠ .missing →
            (dfsDeps (fun c d => dfs fuel g c (x :: path) d) c deps).1 ≠ .fuel := by
          intro deps hn
          apply dfsDeps_ne_fuel
          intro c d _
          apply ih
          have := free_lt (mem_keys_of_node hn) hx
          omega
        cases hn : g.node x with
        | missing => simp
        | unreadable => simp
        | malformed => simp
        | healthy deps => exact finishHealthy_fst_ne_fuel (key deps (by simp [hn]))
        | faulty deps => exact finishFaulty_fst_ne_fuel (key deps (by simp [hn]))


/-! ### the cache invariant -/

/-- `CacheOK` over a cache and a path -/
structure COK (g : Graph) (c path : List Name) : Prop where
  loadable : ∀ y ∈ c, Loadable g y
  closed : ∀ y ∈ c, ∀ d ∈ (g.node y).deps, d ∈ c
  disjoint : ∀ y ∈ c, y ∉ path

structure Post (g : Graph) (c path : List Name) (res : Outcome × List Name) : Prop where
  cok : COK g res.2 path
  mono : ∀ y ∈ c, y ∈ res.2

theorem dfsDeps_post {g : Graph} {path : List Name} {f : List Name → Name → Outcome × List Name}
    {deps : List Name}
    (h : ∀ c d, d ∈ deps → COK g c path → Post g c path (f c d) ∧ ((f c d).1 = .ok → d ∈ (f c d).2))
    (c : List Name) (hc : COK g c path) :
    Post g c path (dfsDeps f c deps) ∧ ((dfsDeps f c deps).1 = .ok → ∀ d ∈ deps, d ∈ (dfsDeps f c deps).2) := by
  induction deps generalizing c with
  | nil => exact ⟨⟨hc, fun _ h => h⟩, fun _ _ h => by cases h⟩
  | cons d ds ih =>
    rw [dfsDeps]
    have hd := h c d (by simp) hc
    generalize f c d = res at hd
    obtain ⟨r, c'⟩ := res
    obtain ⟨⟨hcok, hmono⟩, hok⟩ := hd
    have hrest := ih (fun c d hd => h c d (by simp [hd])) c' hcok
    cases r
    case ok =>
      simp only
      refine ⟨⟨hrest.1.cok, fun y hy => hrest.1.mono _ (hmono y hy)⟩, fun hr e he => ?_⟩
      rcases List.mem_cons.1 he with rfl | he
      · exact hrest.1.mono _ (hok rfl)
      · exact hrest.2 hr e he
    all_goals exact ⟨⟨hcok, hmono⟩, fun h => by cases h⟩

theorem COK.push {g c path x} (h : COK g c path) (hx : x ∉ c) : COK g c (x :: path) :=
  ⟨h.loadable, h.closed, fun y hy => by
    intro hm
    rcases List.mem_cons.1 hm with rfl | hm
    · exact hx hy
    · exact h.disjoint y hy hm⟩

theorem dfs_post (g : Graph) : ∀ (fuel : Nat) (c path : List Name) (x : Name), COK g c path →
    Post g c path (dfs fuel g c path x) ∧ ((dfs fuel g c path x).1 = .ok → x ∈ (dfs fuel g c path x).2) := by
  intro fuel
  induction fuel with
  | zero => intro c path x h; exact ⟨⟨h, fun _ h => h⟩, fun h => by cases h⟩
  | succ fuel ih =>
    intro c path x hcok
    by_cases hx : x ∈ path
    · rw [dfs_cyclic hx]; exact ⟨⟨hcok, fun _ h => h⟩, fun h => by cases h⟩
    · by_cases hc : x ∈ c
      · rw [dfs_cached hx hc]; exact ⟨⟨hcok, fun _ h => h⟩, fun _ => hc⟩
      · rw [dfs_node hx hc]
        have key := fun deps => dfsDeps_post (g := g) (path := x :: path)
          (f := fun c d => dfs fuel g c (x :: path) d) (deps := deps)
          (fun c d _ h => ih c (x :: path) d h) c (hcok.push hc)
        cases hn : g.node x with
        | missing => exact ⟨⟨hcok, fun _ h => h⟩, fun h => by cases h⟩
        | unreadable => exact ⟨⟨hcok, fun _ h => h⟩, fun h => by cases h⟩
        | malformed => exact ⟨⟨hcok, fun _ h => h⟩, fun h => by cases h⟩
        | healthy deps =>
          have k := key deps
          simp only []
          generalize dfsDeps (fun c d => dfs fuel g c (x :: path) d) c deps = res at k ⊢
          obtain ⟨r, c'⟩ := res
          obtain ⟨⟨kc, km⟩, kd⟩ := k
          have base : COK g c' path := ⟨kc.loadable, kc.closed, fun y hy hm => kc.disjoint y hy (by simp [hm])⟩
          cases r
          case ok =>
            simp only [finishHealthy]
            have hdeps := kd rfl
            refine ⟨⟨⟨?_, ?_, ?_⟩, fun y hy => by simp [km y hy]⟩, fun _ => by simp⟩
            · intro y hy
              rcases List.mem_cons.1 hy with rfl | hy
              · exact .mk hn (fun d hd => kc.loadable d (hdeps d hd))
              · exact kc.loadable y hy
            · intro y hy d hd
              rcases List.mem_cons.1 hy with rfl | hy
              · rw [hn] at hd; simp [hdeps d hd]
              · simp [kc.closed y hy d hd]
            · intro y hy
              rcases List.mem_cons.1 hy with rfl | hy
              · exact hx
              · exact base.disjoint y hy
          all_goals simp only [finishHealthy]; exact ⟨⟨base, km⟩, fun h => by cases h⟩
        | faulty deps =>
          have k := key deps
          simp only []
          generalize dfsDeps (fun c d => dfs fuel g c (x :: path) d) c deps = res at k ⊢
          obtain ⟨r, c'⟩ := res
          obtain ⟨⟨kc, km⟩, kd⟩ := k
          have base : COK g c' path := ⟨kc.loadable, kc.closed, fun y hy hm => kc.disjoint y hy (by simp [hm])⟩
          cases r <;> simp only [finishFaulty] <;> exact ⟨⟨base, km⟩, fun h => by cases h⟩


/-! ### the graph -/

theorem Reachable.trans {g : Graph} {x y z : Name} (h1 : Reachable g x y) (h2 : Reachable g y z) :
    Reachable g x z := by
  induction h1 with
  | refl => exact h2
  | step hd _ ih => exact .step hd (ih h2)

theorem Reachable.single {g : Graph} {x y : Name} (h : y ∈ (g.node x).deps) : Reachable g x y :=
  .step h (.refl _)

theorem Loadable.no_back {g : Graph} {x : Name} (h : Loadable g x) :
    ∀ d ∈ (g.node x).deps, ¬ Reachable g d x := by
  induction h with
  | @mk x deps hn _ ih =>
    intro d hd hr
    rw [hn] at hd
    cases hr with
    | refl => exact ih x hd x (by rw [hn]; exact hd) (.refl _)
    | @step _ d' _ hd' hr' =>
      exact ih d hd d' hd' (hr'.trans (.single (by rw [hn]; exact hd)))

theorem Loadable.of_reachable {g : Graph} {x y : Name} (h : Loadable g x) (hr : Reachable g x y) :
    Loadable g y := by
  induction hr with
  | refl => exact h
  | step hd _ ih =>
    apply ih
    cases h with
    | mk hn hall => rw [hn] at hd; exact hall _ hd

theorem dfsDeps_ok_or_fuel {f : List Name → Name → Outcome × List Name} {deps : List Name}
    (h : ∀ c d, d ∈ deps → (f c d).1 = .ok ∨ (f c d).1 = .fuel) (c : List Name) :
    (dfsDeps f c deps).1 = .ok ∨ (dfsDeps f c deps).1 = .fuel := by
  induction deps generalizing c with
  | nil => simp [dfsDeps]
  | cons d ds ih =>
    rw [dfsDeps]
    have hd := h c d (by simp)
    generalize f c d = res at hd
    obtain ⟨r, c'⟩ := res
    rcases hd with hd | hd <;> simp only at hd <;> subst hd
    · exact ih (fun c d hd => h c d (by simp [hd])) c'
    · simp

/-- a loadable node none of whose descendants is in progress loads (unless fuel runs out) -/
theorem dfs_loadable {g : Graph} {x : Name} (h : Loadable g x) : ∀ (fuel : Nat) (c path : List Name),
    (∀ y, Reachable g x y → y ∉ path) →
    (dfs fuel g c path x).1 = .ok ∨ (dfs fuel g c path x).1 = .fuel := by
  induction h with
  | @mk x deps hn hall ih =>
    intro fuel c path hp
    cases fuel with
    | zero => right; rfl
    | succ fuel =>
      have hx : x ∉ path := hp x (.refl _)
      by_cases hc : x ∈ c
      · rw [dfs_cached hx hc]; left; rfl
      · rw [dfs_node hx hc, hn]
        simp only []
        have hback := Loadable.no_back (.mk hn hall)
        have key := dfsDeps_ok_or_fuel (f := fun c d => dfs fuel g c (x :: path) d) (deps := deps)
          (fun c d hd => ih d hd fuel c (x :: path) (fun y hy hm => by
            rcases List.mem_cons.1 hm with rfl | hm
            · exact hback d (by rw [hn]; exact hd) hy
            · exact hp y (.step (by rw [hn]; exact hd) hy) hm)) c
        generalize dfsDeps (fun c d => dfs fuel g c (x :: path) d) c deps = res at key
        obtain ⟨r, c'⟩ := res
        rcases key with k | k <;> simp only at k <;> subst k <;> simp [finishHealthy]


/-! ### the outcome does not depend on the cache -/

theorem COK.reach_mem {g : Graph} {c path : List Name} {x y : Name} (h : COK g c path) (hx : x ∈ c)
    (hr : Reachable g x y) : y ∈ c := by
  induction hr with
  | refl => exact hx
  | step hd _ ih => exact ih (h.closed _ hx _ hd)

theorem dfsDeps_indep {g : Graph} {path : List Name} {f : List Name → Name → Outcome × List Name}
    {deps : List Name}
    (hpost : ∀ c d, d ∈ deps → COK g c path → COK g (f c d).2 path)
    (heq : ∀ c₁ c₂ d, d ∈ deps → COK g c₁ path → COK g c₂ path → (f c₁ d).1 = (f c₂ d).1)
    (c₁ c₂ : List Name) (h1 : COK g c₁ path) (h2 : COK g c₂ path) :
    (dfsDeps f c₁ deps).1 = (dfsDeps f c₂ deps).1 := by
  induction deps generalizing c₁ c₂ with
  | nil => rfl
  | cons d ds ih =>
    rw [dfsDeps, dfsDeps]
    have e := heq c₁ c₂ d (by simp) h1 h2
    have p1 := hpost c₁ d (by simp) h1
    have p2 := hpost c₂ d (by simp) h2
    generalize f c₁ d = res1 at e p1
    generalize f c₂ d = res2 at e p2
    obtain ⟨r1, c1'⟩ := res1
    obtain ⟨r2, c2'⟩ := res2
    simp only at e p1 p2
    subst e
    cases r1
    case ok =>
      exact ih (fun c d hd => hpost c d (by simp [hd])) (fun a b d hd => heq a b d (by simp [hd])) c1' c2' p1 p2
    all_goals rfl

theorem finishHealthy_fst_congr {x : Name} {r1 r2 : Outcome × List Name} (h : r1.1 = r2.1) :
    (finishHealthy x r1).1 = (finishHealthy x r2).1 := by
  obtain ⟨a, _⟩ := r1; obtain ⟨b, _⟩ := r2; simp only at h; subst h; cases a <;> rfl

theorem finishFaulty_fst_congr {r1 r2 : Outcome × List Name} (h : r1.1 = r2.1) :
    (finishFaulty r1).1 = (finishFaulty r2).1 := by
  obtain ⟨a, _⟩ := r1; obtain ⟨b, _⟩ := r2; simp only at h; subst h; cases a <;> rfl

/-- a cached node would load anyway -/
theorem dfs_of_cached {g : Graph} {c c' path : List Name} {x : Name} {fuel : Nat} (h : COK g c path)
    (hx : x ∈ c) (hfuel : free g path < fuel) : (dfs fuel g c' path x).1 = .ok := by
  have := dfs_loadable (h.loadable x hx) fuel c' path (fun y hy => h.disjoint y (h.reach_mem hx hy))
  rcases this with h | h
  · exact h
  · exact absurd h (dfs_ne_fuel g fuel c' path x hfuel)

theorem dfs_indep (g : Graph) : ∀ (fuel : Nat) (c₁ c₂ path : List Name) (x : Name),
    COK g c₁ path → COK g c₂ path → free g path < fuel →
    (dfs fuel g c₁ path x).1 = (dfs fuel g c₂ path x).1 := by
  intro fuel
  induction fuel with
  | zero => intros; omega
  | succ fuel ih =>
    intro c₁ c₂ path x h1 h2 hfuel
    by_cases hx : x ∈ path
    · rw [dfs_cyclic hx, dfs_cyclic hx]
    · by_cases hc1 : x ∈ c₁
      · rw [dfs_cached hx hc1]
        exact (dfs_of_cached h1 hc1 hfuel).symm
      · by_cases hc2 : x ∈ c₂
        · rw [dfs_cached hx hc2]
          exact dfs_of_cached h2 hc2 hfuel
        · rw [dfs_node hx hc1, dfs_node hx hc2]
          have key : ∀ deps, g.node x ≠ .missing →
              (dfsDeps (fun c d => dfs fuel g c (x :: path) d) c₁ deps).1 =
              (dfsDeps (fun c d => dfs fuel g c (x :: path) d) c₂ deps).1 := by
            intro deps hn
            have hlt : free g (x :: path) < fuel := by
              have := free_lt (mem_keys_of_node hn) hx; omega
            exact dfsDeps_indep (g := g) (path := x :: path)
              (fun c d _ hc => (dfs_post g fuel c (x :: path) d hc).1.cok)
              (fun a b d _ ha hb => ih a b (x :: path) d ha hb hlt) c₁ c₂ (h1.push hc1) (h2.push hc2)
          cases hn : g.node x with
          | missing => rfl
          | unreadable => rfl
          | malformed => rfl
          | healthy deps => exact finishHealthy_fst_congr (key deps (by simp [hn]))
          | faulty deps => exact finishFaulty_fst_congr (key deps (by simp [hn]))


/-! ### every error points at a reachable fault -/

/-- what the outcome `r` of visiting `x` with `path` in progress says about the graph -/
def Blame (g : Graph) (path : List Name) (x : Name) : Outcome → Prop
  | .ok => True
  | .fuel => True
  | .cyclic => (∃ y ∈ path, Reachable g x y) ∨ HasCycleFrom g x
  | .notFound => ∃ y, Reachable g x y ∧ g.node y = .missing
  | .io => ∃ y, Reachable g x y ∧ g.node y = .unreadable
  | .syntax => ∃ y, Reachable g x y ∧ g.node y = .malformed
  | .fault => ∃ y deps, Reachable g x y ∧ g.node y = .faulty deps

theorem HasCycleFrom.lift {g : Graph} {x d : Name} (hd : d ∈ (g.node x).deps) (h : HasCycleFrom g d) :
    HasCycleFrom g x := by
  obtain ⟨y, z, h1, h2, h3⟩ := h
  exact ⟨y, z, .step hd h1, h2, h3⟩

theorem Blame.lift {g : Graph} {path : List Name} {x d : Name} {r : Outcome}
    (hd : d ∈ (g.node x).deps) (h : Blame g (x :: path) d r) (hr : r ≠ .ok) : Blame g path x r := by
  cases r with
  | ok => exact absurd rfl hr
  | fuel => trivial
  | cyclic =>
    rcases h with ⟨y, hy, hreach⟩ | h
    · rcases List.mem_cons.1 hy with rfl | hy
      · exact .inr ⟨y, d, .refl _, hd, hreach⟩
      · exact .inl ⟨y, hy, .step hd hreach⟩
    · exact .inr (h.lift hd)
  | notFound => obtain ⟨y, h1, h2⟩ := h; exact ⟨y, .step hd h1, h2⟩
  | io => obtain ⟨y, h1, h2⟩ := h; exact ⟨y, .step hd h1, h2⟩
  | «syntax» => obtain ⟨y, h1, h2⟩ := h; exact ⟨y, .step hd h1, h2⟩
  | fault => obtain ⟨y, ds, h1, h2⟩ := h; exact ⟨y, ds, .step hd h1, h2⟩

theorem dfsDeps_blame {g : Graph} {path : List Name} {f : List Name → Name → Outcome × List Name}
    {deps : List Name} (h : ∀ c d, d ∈ deps → Blame g path d (f c d).1) (c : List Name) :
    (dfsDeps f c deps).1 = .ok ∨ ∃ d ∈ deps, Blame g path d (dfsDeps f c deps).1 := by
  induction deps generalizing c with
  | nil => left; rfl
  | cons d ds ih =>
    rw [dfsDeps]
    have hd := h c d (by simp)
    generalize f c d = res at hd
    obtain ⟨r, c'⟩ := res
    cases r
    case ok =>
      rcases ih (fun c d hd => h c d (by simp [hd])) c' with h | ⟨e, he, hb⟩
      · exact .inl h
      · exact .inr ⟨e, by simp [he], hb⟩
    all_goals exact .inr ⟨d, by simp, hd⟩

theorem dfs_blame (g : Graph) : ∀ (fuel : Nat) (c path : List Name) (x : Name),
    Blame g path x (dfs fuel g c path x).1 := by
  intro fuel
  induction fuel with
  | zero => intros; trivial
  | succ fuel ih =>
    intro c path x
    by_cases hx : x ∈ path
    · rw [dfs_cyclic hx]; exact .inl ⟨x, hx, .refl _⟩
    · by_cases hc : x ∈ c
      · rw [dfs_cached hx hc]; trivial
      · rw [dfs_node hx hc]
        have key := fun deps => dfsDeps_blame (g := g) (path := x :: path)
          (f := fun c d => dfs fuel g c (x :: path) d) (deps := deps) (fun c d _ => ih c (x :: path) d) c
        cases hn : g.node x with
        | missing => exact ⟨x, .refl _, hn⟩
        | unreadable => exact ⟨x, .refl _, hn⟩
        | malformed => exact ⟨x, .refl _, hn⟩
        | healthy deps =>
          simp only []
          have k := key deps
          generalize dfsDeps (fun c d => dfs fuel g c (x :: path) d) c deps = res at k ⊢
          obtain ⟨r, c'⟩ := res
          rcases k with k | ⟨d, hd, hb⟩
          · simp only at k; subst k; trivial
          · cases r
            case ok => trivial
            all_goals (simp only [finishHealthy]; exact hb.lift (by rw [hn]; exact hd) (by simp))
        | faulty deps =>
          simp only []
          have k := key deps
          generalize dfsDeps (fun c d => dfs fuel g c (x :: path) d) c deps = res at k ⊢
          obtain ⟨r, c'⟩ := res
          rcases k with k | ⟨d, hd, hb⟩
          · simp only at k; subst k; exact ⟨x, deps, .refl _, hn⟩
          · cases r
            case ok => exact ⟨x, deps, .refl _, hn⟩
            all_goals (simp only [finishFaulty]; exact hb.lift (by rw [hn]; exact hd) (by simp))

theorem Loadable.healthy_acyclic {g : Graph} {x : Name} (h : Loadable g x) :
    (∀ y, Reachable g x y → ∃ deps, g.node y = .healthy deps) ∧ ¬ HasCycleFrom g x := by
  constructor
  · intro y hy
    cases h.of_reachable hy with
    | mk hn _ => exact ⟨_, hn⟩
  · rintro ⟨y, z, h1, h2, h3⟩
    exact (h.of_reachable h1).no_back z h2 h3

/-- all reachable nodes healthy and no reachable cycle: the outcome is `ok` -/
theorem dfs_ok_of_healthy_acyclic {g : Graph} {x : Name} {fuel : Nat} {c : List Name}
    (hh : ∀ y, Reachable g x y → ∃ deps, g.node y = .healthy deps) (hc : ¬ HasCycleFrom g x)
    (hfuel : g.length + 1 ≤ fuel) : (dfs fuel g c [] x).1 = .ok := by
  have hb := dfs_blame g fuel c [] x
  have hne := dfs_ne_fuel g fuel c [] x (by have := free_le g []; omega)
  generalize (dfs fuel g c [] x).1 = r at hb hne
  cases r with
  | ok => rfl
  | fuel => exact absurd rfl hne
  | cyclic =>
    rcases hb with ⟨y, hy, _⟩ | hb
    · cases hy
    · exact absurd hb hc
  | notFound => obtain ⟨y, h1, h2⟩ := hb; obtain ⟨ds, h3⟩ := hh y h1; rw [h2] at h3; cases h3
  | io => obtain ⟨y, h1, h2⟩ := hb; obtain ⟨ds, h3⟩ := hh y h1; rw [h2] at h3; cases h3
  | «syntax» => obtain ⟨y, h1, h2⟩ := hb; obtain ⟨ds, h3⟩ := hh y h1; rw [h2] at h3; cases h3
  | fault => obtain ⟨y, ds', h1, h2⟩ := hb; obtain ⟨ds, h3⟩ := hh y h1; rw [h2] at h3; cases h3


/-! ### the loader is the depth-first traversal `Dfs` -/

theorem finishHealthy_err {x : Name} {e : Outcome} {c : List Name} (h : e ≠ .ok) :
    finishHealthy x (e, c) = (e, c) := by cases e <;> simp_all [finishHealthy]

theorem finishFaulty_err {e : Outcome} {c : List Name} (h : e ≠ .ok) :
    finishFaulty (e, c) = (e, c) := by cases e <;> simp_all [finishFaulty]

theorem dfsDeps_sound {g : Graph} {path : List Name} {f : List Name → Name → Outcome × List Name}
    {deps : List Name}
    (h : ∀ c d r c', d ∈ deps → f c d = (r, c') → r ≠ .fuel → Dfs g c path d r c') :
    ∀ (c : List Name) (r : Outcome) (c' : List Name), dfsDeps f c deps = (r, c') → r ≠ .fuel →
      DfsList g c path deps r c' := by
  induction deps with
  | nil => intro c r c' he _; rw [dfsDeps] at he; cases he; exact .nil
  | cons d ds ih =>
    intro c r c' he hr
    rw [dfsDeps] at he
    have hd := h c d (f c d).1 (f c d).2 (by simp) rfl
    generalize f c d = res at hd he
    obtain ⟨r1, c1⟩ := res
    cases r1
    case ok =>
      exact .cons (hd (by simp)) (ih (fun c d r c' hm => h c d r c' (by simp [hm])) c1 r c' he hr)
    all_goals (cases he; exact .stop (hd hr) (by simp))

theorem dfs_sound (g : Graph) : ∀ (fuel : Nat) (c path : List Name) (x : Name) (r : Outcome) (c' : List Name),
    dfs fuel g c path x = (r, c') → r ≠ .fuel → Dfs g c path x r c' := by
  intro fuel
  induction fuel with
  | zero => intro c path x r c' h hr; rw [dfs] at h; cases h; exact absurd rfl hr
  | succ fuel ih =>
    intro c path x r c' h hr
    by_cases hx : x ∈ path
    · rw [dfs_cyclic hx] at h; cases h; exact .cyclic hx
    · by_cases hc : x ∈ c
      · rw [dfs_cached hx hc] at h; cases h; exact .cached hx hc
      · rw [dfs_node hx hc] at h
        have key := fun deps => dfsDeps_sound (g := g) (path := x :: path)
          (f := fun c d => dfs fuel g c (x :: path) d) (deps := deps)
          (fun c d r c' _ he hr => ih c (x :: path) d r c' he hr) c
        cases hn : g.node x with
        | missing => rw [hn] at h; cases h; exact .missing hx hc hn
        | unreadable => rw [hn] at h; cases h; exact .unreadable hx hc hn
        | malformed => rw [hn] at h; cases h; exact .malformed hx hc hn
        | healthy deps =>
          rw [hn] at h
          simp only [] at h
          have k := key deps
          generalize dfsDeps (fun c d => dfs fuel g c (x :: path) d) c deps = res at k h
          obtain ⟨r1, c1⟩ := res
          cases r1
          case ok => cases h; exact .healthy hx hc hn (k _ _ rfl (by simp))
          all_goals (simp only [finishHealthy] at h; cases h; exact .healthyErr hx hc hn (k _ _ rfl hr) (by simp))
        | faulty deps =>
          rw [hn] at h
          simp only [] at h
          have k := key deps
          generalize dfsDeps (fun c d => dfs fuel g c (x :: path) d) c deps = res at k h
          obtain ⟨r1, c1⟩ := res
          cases r1
          case ok => cases h; exact .faulty hx hc hn (k _ _ rfl (by simp))
          all_goals (simp only [finishFaulty] at h; cases h; exact .faultyErr hx hc hn (k _ _ rfl hr) (by simp))

mutual
theorem Dfs.complete {g : Graph} : ∀ {c p x r c'}, Dfs g c p x r c' →
    ∃ n, ∀ fuel, n ≤ fuel → dfs fuel g c p x = (r, c')
  | _, _, _, _, _, .cyclic h => ⟨1, fun fuel hf => by
      obtain ⟨k, rfl⟩ : ∃ k, fuel = k + 1 := ⟨fuel - 1, by omega⟩
      exact dfs_cyclic h⟩
  | _, _, _, _, _, .cached h hc => ⟨1, fun fuel hf => by
      obtain ⟨k, rfl⟩ : ∃ k, fuel = k + 1 := ⟨fuel - 1, by omega⟩
      exact dfs_cached h hc⟩
  | _, _, _, _, _, .missing h hc hn => ⟨1, fun fuel hf => by
      obtain ⟨k, rfl⟩ : ∃ k, fuel = k + 1 := ⟨fuel - 1, by omega⟩
      rw [dfs_node h hc, hn]⟩
  | _, _, _, _, _, .unreadable h hc hn => ⟨1, fun fuel hf => by
      obtain ⟨k, rfl⟩ : ∃ k, fuel = k + 1 := ⟨fuel - 1, by omega⟩
      rw [dfs_node h hc, hn]⟩
  | _, _, _, _, _, .malformed h hc hn => ⟨1, fun fuel hf => by
      obtain ⟨k, rfl⟩ : ∃ k, fuel = k + 1 := ⟨fuel - 1, by omega⟩
      rw [dfs_node h hc, hn]⟩
  | _, _, _, _, _, .healthy h hc hn hl => by
      obtain ⟨n, hn'⟩ := DfsList.complete hl
      refine ⟨n + 1, fun fuel hf => ?_⟩
      obtain ⟨k, rfl⟩ : ∃ k, fuel = k + 1 := ⟨fuel - 1, by omega⟩
      rw [dfs_node h hc, hn]
      simp only []
      rw [hn' k (by omega)]
      rfl
  | _, _, _, _, _, .healthyErr h hc hn hl he => by
      obtain ⟨n, hn'⟩ := DfsList.complete hl
      refine ⟨n + 1, fun fuel hf => ?_⟩
      obtain ⟨k, rfl⟩ : ∃ k, fuel = k + 1 := ⟨fuel - 1, by omega⟩
      rw [dfs_node h hc, hn]
      simp only []
      rw [hn' k (by omega), finishHealthy_err he]
  | _, _, _, _, _, .faulty h hc hn hl => by
      obtain ⟨n, hn'⟩ := DfsList.complete hl
      refine ⟨n + 1, fun fuel hf => ?_⟩
      obtain ⟨k, rfl⟩ : ∃ k, fuel = k + 1 := ⟨fuel - 1, by omega⟩
      rw [dfs_node h hc, hn]
      simp only []
      rw [hn' k (by omega)]
      rfl
  | _, _, _, _, _, .faultyErr h hc hn hl he => by
      obtain ⟨n, hn'⟩ := DfsList.complete hl
      refine ⟨n + 1, fun fuel hf => ?_⟩
      obtain ⟨k, rfl⟩ : ∃ k, fuel = k + 1 := ⟨fuel - 1, by omega⟩
      rw [dfs_node h hc, hn]
      simp only []
      rw [hn' k (by omega), finishFaulty_err he]
theorem DfsList.complete {g : Graph} : ∀ {c p ds r c'}, DfsList g c p ds r c' →
    ∃ n, ∀ fuel, n ≤ fuel → dfsDeps (fun c d => dfs fuel g c p d) c ds = (r, c')
  | _, _, _, _, _, .nil => ⟨0, fun _ _ => rfl⟩
  | _, _, _, _, _, .cons h1 h2 => by
      obtain ⟨n1, h1'⟩ := Dfs.complete h1
      obtain ⟨n2, h2'⟩ := DfsList.complete h2
      refine ⟨max n1 n2, fun fuel hf => ?_⟩
      rw [dfsDeps]
      simp only [h1' fuel (by omega)]
      exact h2' fuel (by omega)
  | _, _, _, _, _, .stop h he => by
      obtain ⟨n1, h1'⟩ := Dfs.complete h
      refine ⟨n1, fun fuel hf => ?_⟩
      rw [dfsDeps]
      simp only [h1' fuel hf]
end

/-- with enough fuel, the loader's result is THE result of the traversal -/
theorem dfs_iff_Dfs (g : Graph) (fuel : Nat) (c path : List Name) (x : Name) (r : Outcome) (c' : List Name)
    (hfuel : g.length + 1 ≤ fuel) : dfs fuel g c path x = (r, c') ↔ Dfs g c path x r c' := by
  have hne := dfs_ne_fuel g fuel c path x (by have := free_le g path; omega)
  constructor
  · intro h; exact dfs_sound g fuel c path x r c' h (by rw [h] at hne; exact hne)
  · intro h
    obtain ⟨n, hn⟩ := h.complete
    obtain ⟨n0, hn0⟩ := (dfs_sound g fuel c path x _ _ rfl hne).complete
    have e1 := hn (max n n0) (by omega)
    have e2 := hn0 (max n n0) (by omega)
    rw [e1] at e2
    exact e2.symm

/-! ### back to `load` -/

theorem cacheOK_iff {g : Graph} {st : LState} : CacheOK g st ↔ COK g st.cache st.inProgress :=
  ⟨fun h => ⟨h.loadable, h.closed, h.disjoint⟩, fun h => ⟨h.loadable, h.closed, h.disjoint⟩⟩

theorem load_eq_dfs' (g : Graph) (fuel : Nat) (st : LState) (x : Name) :
    load fuel g st x = ((dfs fuel g st.cache st.inProgress x).1,
      ⟨(dfs fuel g st.cache st.inProgress x).2, st.inProgress⟩) :=
  load_eq_dfs g fuel st.cache st.inProgress x

theorem attempts_ok (g : Graph) (hist : List (Nat × Name)) (st : LState) (h : CacheOK g st) :
    CacheOK g (attempts g st hist) ∧ (attempts g st hist).inProgress = st.inProgress := by
  induction hist generalizing st with
  | nil => exact ⟨h, rfl⟩
  | cons p rest ih =>
    obtain ⟨fuel, x⟩ := p
    rw [attempts]
    have hp := (dfs_post g fuel st.cache st.inProgress x (cacheOK_iff.1 h)).1.cok
    have := ih (load fuel g st x).2 (by rw [load_eq_dfs']; exact cacheOK_iff.2 hp)
    refine ⟨this.1, this.2.trans ?_⟩
    rw [load_eq_dfs']

end Loader
namespace Interp

/-! ## C13: the export list -/

theorem lookup_assocInsert {α} (l : List (String × α)) (k : String) (v : α) (y : String) :
    (assocInsert l k v).lookup y = if y = k then some v else l.lookup y := by
  induction l with
  | nil =>
    by_cases h : y = k
    · subst h; simp [assocInsert]
    · have : (y == k) = false := by simpa using h
      simp [assocInsert, List.lookup_cons, this, h]
  | cons p rest ih =>
    obtain ⟨k', v'⟩ := p
    simp only [assocInsert]
    by_cases hk : k' = k
    · subst hk
      by_cases hy : y = k'
      · subst hy; simp
      · have : (y == k') = false := by simpa using hy
        simp [List.lookup_cons, this, hy]
    · simp only [hk, if_false, List.lookup_cons, ih]
      by_cases hy : y = k'
      · subst hy; simp [hk]
      · have : (y == k') = false := by simpa using hy
        simp [this]

theorem names_assocInsert {α} (l : List (String × α)) (k : String) (v : α) :
    (assocInsert l k v).map Prod.fst = if k ∈ l.map Prod.fst then l.map Prod.fst else l.map Prod.fst ++ [k] := by
  induction l with
  | nil => simp [assocInsert]
  | cons p rest ih =>
    obtain ⟨k', v'⟩ := p
    simp only [assocInsert]
    by_cases hk : k' = k
    · subst hk; simp
    · simp only [hk, if_false, List.map_cons, ih, List.mem_cons, Ne.symm hk, false_or]
      split <;> simp

theorem nodup_assocInsert {α} (l : List (String × α)) (k : String) (v : α)
    (h : (l.map Prod.fst).Nodup) : ((assocInsert l k v).map Prod.fst).Nodup := by
  rw [names_assocInsert]
  split
  · exact h
  · rename_i hk
    rw [List.nodup_append]
    exact ⟨h, by simp, by intro a ha b hb; simp at hb; subst hb; rintro rfl; exact hk ha⟩

theorem lookup_isSome_iff {α} (l : List (String × α)) (x : String) :
    (l.lookup x).isSome ↔ x ∈ l.map Prod.fst := by
  induction l with
  | nil => simp
  | cons p rest ih =>
    obtain ⟨k, v⟩ := p
    by_cases h : x = k
    · subst h; simp
    · have : (x == k) = false := by simpa using h
      simp [List.lookup_cons, this, ih, h]

/-- one step of the export loop of `evalLibraryDef` -/
def exportStep (look : String → Option Value) (acc : List (String × Value)) (ex : ExportSpec) :
    Except SErr (List (String × Value)) :=
  match look ex.internal with
  | some v => .ok (assocInsert acc ex.external v)
  | none => .error (.unbound, match ex with | .direct _ l => l | .rename _ _ l => l)

theorem exportFold_spec (look : String → Option Value) :
    ∀ (specs : List ExportSpec) (acc defs : List (String × Value)),
    specs.foldlM (exportStep look) acc = .ok defs →
    (∀ x, defs.lookup x = match S.exportFor specs x with
      | some sp => look sp.internal
      | none => acc.lookup x) ∧
    (∀ sp ∈ specs, (look sp.internal).isSome) ∧
    ((acc.map Prod.fst).Nodup → (defs.map Prod.fst).Nodup) := by
  intro specs
  induction specs with
  | nil =>
    intro acc defs h
    simp only [List.foldlM_nil, pure, Except.pure, Except.ok.injEq] at h
    subst h
    exact ⟨fun x => by simp [S.exportFor], by simp, id⟩
  | cons sp rest ih =>
    intro acc defs h
    rw [List.foldlM_cons] at h
    cases hl : look sp.internal with
    | none => simp [exportStep, hl, bind, Except.bind] at h
    | some v =>
      simp only [exportStep, hl, bind, Except.bind] at h
      obtain ⟨h1, h2, h3⟩ := ih _ _ h
      refine ⟨fun x => ?_, ?_, fun hn => h3 (nodup_assocInsert _ _ _ hn)⟩
      · rw [h1 x]
        simp only [S.exportFor, List.reverse_cons, List.find?_append]
        cases hf : List.find? (fun sp => sp.external == x) rest.reverse with
        | some sp' => simp
        | none =>
          simp only [Option.none_or, lookup_assocInsert, List.find?_cons, List.find?_nil]
          by_cases hx : sp.external = x
          · simp [hx, hl]
          · have : (sp.external == x) = false := by simpa using hx
            simp [this, Ne.symm hx]
      · intro sp' hsp'
        rcases List.mem_cons.1 hsp' with rfl | hm
        · simp [hl]
        · exact h2 sp' hm


theorem evalLibraryDef_succ_eq (fuel : Nat) (st : State) (decls : List LibDecl) :
    evalLibraryDef (fuel + 1) st decls =
      match evalLibDecls fuel { st with store := (st.store.newFrame none).2 } st.store.frames.size decls [] with
      | (.error e, st') => (.error e, st')
      | (.ok exports, st') =>
        (exports.foldlM (exportStep (st'.store.lookup st.store.frames.size)) [], st') := by
  rw [evalLibraryDef]
  simp only [Store.newFrame]
  generalize evalLibDecls fuel _ _ decls [] = res
  obtain ⟨r, st'⟩ := res
  cases r with
  | error e => rfl
  | ok exports =>
    simp only
    congr 2
    funext acc ex
    cases ex <;> simp only [exportStep, ExportSpec.internal, ExportSpec.external] <;> split <;> simp_all

theorem evalLibDecls_exports : ∀ (decls : List LibDecl) (fuel : Nat) (st : State) (ρ : Nat)
    (acc exports : List ExportSpec) (st' : State),
    evalLibDecls fuel st ρ decls acc = (.ok exports, st') → exports = acc ++ S.exportSpecs decls := by
  intro decls
  induction decls with
  | nil =>
    intro fuel st ρ acc exports st' h
    cases fuel with
    | zero => rw [evalLibDecls] at h; cases h
    | succ fuel => rw [evalLibDecls] at h; cases h; simp [S.exportSpecs]
  | cons d ds ih =>
    intro fuel st ρ acc exports st' h
    cases fuel with
    | zero => rw [evalLibDecls] at h; cases h
    | succ fuel =>
      cases d <;> rw [evalLibDecls] at h
      · split at h
        · cases h
        · simpa [S.exportSpecs] using ih _ _ _ _ _ _ h
      · simpa [S.exportSpecs] using ih _ _ _ _ _ _ h
      · split at h
        · cases h
        · simpa [S.exportSpecs] using ih _ _ _ _ _ _ h

end Interp

namespace Lib

/-! ## C13: lookups only see the frames of their chain -/

theorem find?_congr' {α} {l : List α} {p q : α → Bool} (h : ∀ a ∈ l, p a = q a) :
    l.find? p = l.find? q := by
  induction l with
  | nil => rfl
  | cons a l ih =>
    simp only [List.find?_cons, h a (by simp)]
    rw [ih (fun b hb => h b (by simp [hb]))]

theorem lookup_congr_chain {σ σ' : Store} {ρ : Nat} {x : String} (hc : σ'.chain ρ = σ.chain ρ)
    (hb : ∀ i ∈ σ.chain ρ, σ'.binding i x = σ.binding i x) : σ'.lookup ρ x = σ.lookup ρ x := by
  rw [Store.lookup_eq_bind, Store.lookup_eq_bind, Store.resolve_eq_find, Store.resolve_eq_find, hc]
  have hfind : (σ.chain ρ).find? (fun r => σ'.definesAt r x) = (σ.chain ρ).find? (fun r => σ.definesAt r x) := by
    apply find?_congr'
    intro i hi
    simp only [Store.definesAt, hb i hi]
  rw [hfind]
  cases hf : (σ.chain ρ).find? (fun r => σ.definesAt r x) with
  | none => rfl
  | some r => exact hb r (List.mem_of_find?_eq_some hf)

theorem lookup_define_off_chain (σ : Store) {r ρ : Nat} (k : String) (v : Value) (x : String)
    (h : r ∉ σ.chain ρ) : (σ.define r k v).lookup ρ x = σ.lookup ρ x := by
  apply lookup_congr_chain (Store.chain_define σ r k v ρ)
  intro i hi
  rw [Store.binding_define]
  have : i ≠ r := by rintro rfl; exact h hi
  simp [this]

theorem resolve_mem_chain {σ : Store} {ρ r : Nat} {k : String} (h : σ.resolve ρ k = some r) :
    r ∈ σ.chain ρ := by
  rw [Store.resolve_eq_find] at h
  exact List.mem_of_find?_eq_some h

theorem self_mem_chain {σ : Store} {ρ : Nat} (h : ρ < σ.frames.size) : ρ ∈ σ.chain ρ := by
  unfold Store.chain Store.chainAux
  have : σ.frames[ρ]? = some σ.frames[ρ] := by simp [h]
  simp [this]

end Lib

namespace Interp

theorem storeRel_grows : StoreRel Store.Grows where
  refl := Store.Grows.refl
  trans := Store.Grows.trans
  expr := by
    intro fuel σ ρ e r σ' h
    have := Eval.evalExpr_grows fuel σ ρ e
    rw [h] at this
    exact this
  define := Store.grows_define
  newFrame := Store.grows_newFrame

end Interp
namespace Lib
open Interp

/-! ## C12: binding lists as finite maps -/

theorem lookup_append' {α} (y : String) (l₁ l₂ : List (String × α)) :
    (l₁ ++ l₂).lookup y = match l₁.lookup y with | some a => some a | none => l₂.lookup y := by
  induction l₁ with
  | nil => simp
  | cons p l ih =>
    obtain ⟨k, b⟩ := p
    simp only [List.cons_append, List.lookup_cons]
    cases y == k <;> simp [ih]

theorem lookup_single {α} (y k : String) (v : α) : [(k, v)].lookup y = if y = k then some v else none := by
  by_cases h : y = k
  · subst h; simp
  · have : (y == k) = false := by simpa using h
    simp [List.lookup_cons, this, h]

theorem asMap_cons (p : String × Value) (rest : S.Bindings) (x : String) :
    S.asMap (p :: rest) x = match S.asMap rest x with
      | some v => some v
      | none => if x = p.1 then some p.2 else none := by
  unfold S.asMap
  rw [List.reverse_cons, lookup_append', lookup_single]
  cases List.lookup x (List.reverse rest) <;> rfl

theorem asMap_append (a b : S.Bindings) (x : String) :
    S.asMap (a ++ b) x = match S.asMap b x with
      | some v => some v
      | none => S.asMap a x := by
  unfold S.asMap
  rw [List.reverse_append, lookup_append']
  cases List.lookup x (List.reverse b) <;> rfl

/-- pouring a binding list into an association map: the last binding of a name wins -/
theorem foldl_assocInsert_lookup (bs : S.Bindings) (acc : List (String × Value)) (x : String) :
    (bs.foldl (fun a p => assocInsert a p.1 p.2) acc).lookup x =
      match S.asMap bs x with
      | some v => some v
      | none => acc.lookup x := by
  induction bs generalizing acc with
  | nil => simp [S.asMap]
  | cons p rest ih =>
    rw [List.foldl_cons, ih, asMap_cons, lookup_assocInsert]
    cases S.asMap rest x <;> simp
    split <;> rfl

theorem foldl_assocInsert_nodup (bs : S.Bindings) (acc : List (String × Value))
    (h : (acc.map Prod.fst).Nodup) :
    ((bs.foldl (fun a p => assocInsert a p.1 p.2) acc).map Prod.fst).Nodup := by
  induction bs generalizing acc with
  | nil => exact h
  | cons p rest ih => exact ih _ (nodup_assocInsert _ _ _ h)

theorem lookup_eq_none_of_not_mem {α} {l : List (String × α)} {x : String} (h : x ∉ l.map Prod.fst) :
    l.lookup x = none := by
  cases hl : l.lookup x with
  | none => rfl
  | some v =>
    have := (lookup_isSome_iff l x).1 (by simp [hl])
    exact absurd this h

/-- with no name bound twice, the last binding of a name is also the first -/
theorem asMap_eq_lookup {bs : S.Bindings} (h : S.Admissible bs) (x : String) :
    S.asMap bs x = bs.lookup x := by
  induction bs with
  | nil => rfl
  | cons p rest ih =>
    obtain ⟨k, v⟩ := p
    have hn : k ∉ rest.map Prod.fst ∧ (rest.map Prod.fst).Nodup := by
      simpa [S.Admissible] using h
    rw [asMap_cons, ih hn.2]
    by_cases hx : x = k
    · subst hx
      rw [lookup_eq_none_of_not_mem hn.1]
      simp
    · have : (x == k) = false := by simpa using hx
      simp only [List.lookup_cons, this, hx, if_false]
      cases List.lookup x rest <;> rfl

theorem lookup_eq_some_iff_mem {bs : S.Bindings} (h : S.Admissible bs) (x : String) (v : Value) :
    bs.lookup x = some v ↔ (x, v) ∈ bs := by
  induction bs with
  | nil => simp
  | cons p rest ih =>
    obtain ⟨k, w⟩ := p
    have hn : k ∉ rest.map Prod.fst ∧ (rest.map Prod.fst).Nodup := by
      simpa [S.Admissible] using h
    by_cases hx : x = k
    · subst hx
      simp only [List.lookup_cons, beq_self_eq_true, Option.some.injEq, List.mem_cons, Prod.mk.injEq,
        true_and]
      constructor
      · intro e; exact .inl e.symm
      · rintro (e | hm)
        · exact e.symm
        · exact absurd (List.mem_map.2 ⟨(x, v), hm, rfl⟩) hn.1
    · have : (x == k) = false := by simpa using hx
      simp only [List.lookup_cons, this, ih hn.2, List.mem_cons, Prod.mk.injEq, hx, false_and, false_or]

/-- an admissible binding list is the same finite map in every order -/
theorem asMap_perm {a b : S.Bindings} (h : a.Perm b) (ha : S.Admissible a) (x : String) :
    S.asMap a x = S.asMap b x := by
  have hb : S.Admissible b := (h.map Prod.fst).nodup_iff.1 ha
  rw [asMap_eq_lookup ha, asMap_eq_lookup hb]
  cases hl : a.lookup x with
  | some v =>
    exact ((lookup_eq_some_iff_mem hb x v).2 (h.mem_iff.1 ((lookup_eq_some_iff_mem ha x v).1 hl))).symm
  | none =>
    cases hl' : b.lookup x with
    | none => rfl
    | some v =>
      have := (lookup_eq_some_iff_mem ha x v).2 (h.mem_iff.2 ((lookup_eq_some_iff_mem hb x v).1 hl'))
      rw [hl] at this; cases this


/-- what defining a list of bindings in frame `ρ` does to the store -/
structure DefinedIn (σ σ' : Store) (ρ : Nat) (m : String → Option Value) : Prop where
  other_frames : ∀ i, i ≠ ρ → σ'.frames[i]? = σ.frames[i]?
  parent : ∀ i : Nat, σ'.frames[i]?.map Frame.parent = σ.frames[i]?.map Frame.parent
  size : σ'.frames.size = σ.frames.size
  vecs : σ'.vecs = σ.vecs
  out : σ'.out = σ.out
  ticks : σ'.ticks = σ.ticks
  bindings : ρ < σ.frames.size → ∀ x, σ'.binding ρ x = S.override m (σ.binding ρ) x

theorem foldl_define_spec (ρ : Nat) (defs : S.Bindings) (σ : Store) :
    DefinedIn σ (defs.foldl (fun σ p => σ.define ρ p.1 p.2) σ) ρ (S.asMap defs) := by
  induction defs generalizing σ with
  | nil => exact ⟨fun _ _ => rfl, fun _ => rfl, rfl, rfl, rfl, rfl, fun _ x => by simp [S.override, S.asMap]⟩
  | cons p rest ih =>
    rw [List.foldl_cons]
    have h := ih (σ.define ρ p.1 p.2)
    have hd := Store.sameExceptBinding_define σ ρ p.1 p.2
    refine ⟨fun i hi => (h.other_frames i hi).trans (hd.other_frames i hi),
      fun i => (h.parent i).trans (Store.define_parent_map σ ρ p.1 p.2 i),
      h.size.trans hd.frames_size, h.vecs.trans hd.vecs, h.out.trans hd.out, h.ticks.trans hd.ticks, ?_⟩
    intro hρ x
    rw [h.bindings (by rw [hd.frames_size]; exact hρ) x]
    simp only [S.override, asMap_cons, Store.binding_define]
    cases S.asMap rest x <;> simp [hρ]
    split <;> rfl

end Lib

namespace Interp

/-- fuel for a list of import sets -/
def fuelNeededAll : List ImportSet → Nat
  | [] => 1
  | s :: rest => max (S.fuelNeeded s) (fuelNeededAll rest) + 1

theorem denote_congr {ex ex' : LibName → Option S.Bindings} (h : ∀ n, ex' n = ex n) (s : ImportSet) :
    S.denote s ex' = S.denote s ex := by
  induction s with
  | direct name loc => exact h name
  | only sub ids ih => simp [S.denote, ih]
  | except sub ids ih => simp [S.denote, ih]
  | «prefix» sub p ih => simp [S.denote, ih]
  | rename sub pairs ih => simp [S.denote, ih]

theorem denoteAll_congr {ex ex' : LibName → Option S.Bindings} (h : ∀ n, ex' n = ex n) (sets : List ImportSet) :
    S.denoteAll sets ex' = S.denoteAll sets ex := by
  induction sets with
  | nil => rfl
  | cons s rest ih => simp only [S.denoteAll, denote_congr h s, ih]

/-- the conclusion for a list of sets -/
structure ImportSetsSpec (st st' : State) : Prop where
  same : SameButInstances st st'
  exports : ∀ n, exportsOf st' n = exportsOf st n
  grow : ∀ n d, libLookup st.instances n = some d → libLookup st'.instances n = some d

end Interp

namespace Lib
open Interp

/-! ## C12: one name, two different bindings -/

/-- `m` updated at `x` -/
def upd (m : String → Option Value) (x : String) (w : Value) : String → Option Value :=
  fun y => if y = x then some w else m y

/-- `S.Clash` relative to what is bound already (`m`), as a recursive test -/
def clashB (eq : Value → Value → Bool) : (String → Option Value) → S.Bindings → Bool
  | _, [] => false
  | m, p :: rest =>
    (match m p.1 with
     | some v => !eq v p.2
     | none => false) || clashB eq (upd m p.1 p.2) rest

theorem override_nil (m : String → Option Value) : S.override (S.asMap []) m = m := by
  funext x; simp [S.override, S.asMap]

theorem override_cons (m : String → Option Value) (p : String × Value) (a : S.Bindings) :
    S.override (S.asMap (p :: a)) m = S.override (S.asMap a) (upd m p.1 p.2) := by
  funext x
  simp only [S.override, asMap_cons, upd]
  cases S.asMap a x with
  | some v => rfl
  | none => by_cases h : x = p.1 <;> simp [h]

theorem override_none (a : S.Bindings) : S.override (S.asMap a) (fun _ => none) = S.asMap a := by
  funext x; simp only [S.override]; cases S.asMap a x <;> rfl

theorem clashB_append (eq : Value → Value → Bool) (a b : S.Bindings) (m : String → Option Value) :
    clashB eq m (a ++ b) = (clashB eq m a || clashB eq (S.override (S.asMap a) m) b) := by
  induction a generalizing m with
  | nil => simp [clashB, override_nil]
  | cons p a ih => simp only [List.cons_append, clashB, ih, override_cons, Bool.or_assoc]

theorem clashB_iff (eq : Value → Value → Bool) (bs : S.Bindings) (m : String → Option Value) :
    clashB eq m bs = true ↔ ∃ pre x w post v, bs = pre ++ (x, w) :: post ∧
      S.override (S.asMap pre) m x = some v ∧ eq v w = false := by
  constructor
  · induction bs generalizing m with
    | nil => simp [clashB]
    | cons p rest ih =>
      intro h
      simp only [clashB, Bool.or_eq_true] at h
      rcases h with h | h
      · cases hm : m p.1 with
        | none => simp [hm] at h
        | some v =>
          simp only [hm, Bool.not_eq_true'] at h
          exact ⟨[], p.1, p.2, rest, v, rfl, by rw [override_nil]; exact hm, h⟩
      · obtain ⟨pre, x, w, post, v, e, hv, he⟩ := ih _ h
        exact ⟨p :: pre, x, w, post, v, by rw [e]; rfl, by rw [override_cons]; exact hv, he⟩
  · rintro ⟨pre, x, w, post, v, e, hv, he⟩
    subst e
    rw [clashB_append]
    simp only [clashB, Bool.or_eq_true]
    right; left
    simp only [hv, he, Bool.not_false]

theorem clash_iff (eq : Value → Value → Bool) (bs : S.Bindings) :
    S.Clash eq bs ↔ clashB eq (fun _ => none) bs = true := by
  rw [clashB_iff]
  simp only [override_none, S.Clash]

theorem asMap_some_mem {bs : S.Bindings} {x : String} {v : Value} (h : S.asMap bs x = some v) :
    (x, v) ∈ bs := by
  induction bs with
  | nil => simp [S.asMap] at h
  | cons p rest ih =>
    rw [asMap_cons] at h
    cases hr : S.asMap rest x with
    | some v' => rw [hr] at h; cases h; exact List.mem_cons_of_mem _ (ih hr)
    | none =>
      rw [hr] at h
      by_cases hx : x = p.1
      · simp only [hx, if_true, Option.some.injEq] at h
        subst h; subst hx; simp
      · simp [hx] at h

theorem not_clash_of_compatible {eq : Value → Value → Bool} {bs : S.Bindings} (h : S.Compatible eq bs) :
    ¬ S.Clash eq bs := by
  rintro ⟨pre, x, w, post, v, e, hv, he⟩
  subst e
  have hp := List.pairwise_append.1 h
  have := hp.2.2 (x, v) (asMap_some_mem hv) (x, w) (by simp) rfl
  simp only at this
  rw [this] at he; cases he

theorem compatible_of_admissible {eq : Value → Value → Bool} {bs : S.Bindings} (h : S.Admissible bs) :
    S.Compatible eq bs := by
  unfold S.Admissible List.Nodup at h
  rw [List.pairwise_map] at h
  exact h.imp (fun hne he => absurd he hne)

/-- the step of the fold in `evalImportSets` -/
def mergeStep (eq : Value → Value → Bool) (a : List (String × Value)) (p : String × Value) :
    Except SErr (List (String × Value)) :=
  match a.lookup p.1 with
  | some prev => if eq prev p.2 then .ok (assocInsert a p.1 p.2) else .error (.other, none)
  | none => .ok (assocInsert a p.1 p.2)

theorem lookup_fun_assocInsert (acc : List (String × Value)) (k : String) (v : Value) :
    (fun y => (assocInsert acc k v).lookup y) = upd (fun y => acc.lookup y) k v := by
  funext y; simp [lookup_assocInsert, upd]

theorem foldlM_merge (eq : Value → Value → Bool) : ∀ (defs : S.Bindings) (acc : List (String × Value)),
    (clashB eq (fun y => acc.lookup y) defs = true ∧
      defs.foldlM (mergeStep eq) acc = .error (.other, none)) ∨
    (clashB eq (fun y => acc.lookup y) defs = false ∧
      defs.foldlM (mergeStep eq) acc = .ok (defs.foldl (fun a p => assocInsert a p.1 p.2) acc)) := by
  intro defs
  induction defs with
  | nil => intro acc; right; exact ⟨rfl, rfl⟩
  | cons p rest ih =>
    intro acc
    rw [List.foldlM_cons, List.foldl_cons]
    simp only [clashB]
    have hrest := ih (assocInsert acc p.1 p.2)
    rw [lookup_fun_assocInsert] at hrest
    cases hl : acc.lookup p.1 with
    | none =>
      simp only [mergeStep, hl, bind, Except.bind, Bool.false_or]
      exact hrest
    | some prev =>
      cases he : eq prev p.2 with
      | false =>
        left
        simp [mergeStep, hl, he, bind, Except.bind]
      | true =>
        simp only [mergeStep, hl, he, bind, Except.bind, if_true, Bool.not_true, Bool.false_or]
        exact hrest

end Lib


namespace Interp
open Lib

theorem evalImportSets_cons_eq (fuel : Nat) (st : State) (s : ImportSet) (rest : List ImportSet)
    (acc : List (String × Value)) :
    evalImportSets (fuel + 1) st (s :: rest) acc =
      match evalImportSet fuel st s with
      | (.error e, st) => (.error e, st)
      | (.ok defs, st) =>
        match defs.foldlM (mergeStep (importEq st)) acc with
        | .error e => (.error e, st)
        | .ok acc' => evalImportSets fuel st rest acc' := by
  rw [evalImportSets]
  rfl

/-- several ready sets: an error exactly when the concatenated denotations clash with what is
accumulated already; otherwise the accumulated map extended by them -/
theorem importSets_spec : ∀ (sets : List ImportSet) (fuel : Nat) (st : State) (acc : List (String × Value))
    (bs : S.Bindings), fuelNeededAll sets ≤ fuel → (∀ s ∈ sets, S.leaf s ∉ st.inProgress) →
    S.denoteAll sets (exportsOf st) = some bs →
    ∃ st', ImportSetsSpec st st' ∧
      ((clashB (importEq st) (fun y => acc.lookup y) bs = true ∧
          evalImportSets fuel st sets acc = (.error (.other, none), st')) ∨
       (clashB (importEq st) (fun y => acc.lookup y) bs = false ∧
          evalImportSets fuel st sets acc =
            (.ok (bs.foldl (fun a p => assocInsert a p.1 p.2) acc), st'))) := by
  intro sets
  induction sets with
  | nil =>
    intro fuel st acc bs hf _ hd
    obtain ⟨fuel, rfl⟩ : ∃ k, fuel = k + 1 := ⟨fuel - 1, by simp [fuelNeededAll] at hf; omega⟩
    simp only [S.denoteAll, Option.some.injEq] at hd
    subst hd
    exact ⟨st, ⟨rfl, fun _ => rfl, fun _ _ h => h⟩, .inr ⟨rfl, by rw [evalImportSets]; rfl⟩⟩
  | cons s rest ih =>
    intro fuel st acc bs hf hip hd
    obtain ⟨fuel, rfl⟩ : ∃ k, fuel = k + 1 := ⟨fuel - 1, by simp [fuelNeededAll] at hf; omega⟩
    have hf1 : S.fuelNeeded s ≤ fuel := by simp [fuelNeededAll] at hf; omega
    have hf2 : fuelNeededAll rest ≤ fuel := by simp [fuelNeededAll] at hf; omega
    simp only [S.denoteAll] at hd
    cases hds : S.denote s (exportsOf st) with
    | none => simp [hds] at hd
    | some a =>
      cases hdr : S.denoteAll rest (exportsOf st) with
      | none => simp [hds, hdr] at hd
      | some b =>
        simp only [hds, hdr, Option.some.injEq] at hd
        subst hd
        obtain ⟨st1, h1⟩ := importSet_spec s fuel st a hf1 (hip s (by simp)) hds
        have hsame : st1 = { st with instances := st1.instances } := h1.same
        have heq : importEq st1 = importEq st := by
          funext v w; unfold importEq; rw [hsame]
        have sp1 : ImportSetsSpec st st1 := ⟨h1.same, h1.exports, h1.grow⟩
        rw [evalImportSets_cons_eq, h1.eval, clashB_append]
        simp only [heq]
        rcases foldlM_merge (importEq st) a acc with ⟨hc, hm⟩ | ⟨hc, hm⟩
        · exact ⟨st1, sp1, .inl ⟨by simp [hc], by rw [hm]⟩⟩
        · have hip1 : ∀ s' ∈ rest, S.leaf s' ∉ st1.inProgress := by
            intro s' hs'
            have : st1.inProgress = st.inProgress := by rw [hsame]
            rw [this]; exact hip s' (by simp [hs'])
          obtain ⟨st2, sp2, h2⟩ := ih fuel st1 (a.foldl (fun a p => assocInsert a p.1 p.2) acc) b hf2 hip1
            (by rw [denoteAll_congr h1.exports]; exact hdr)
          have hlook : (fun y => (a.foldl (fun a p => assocInsert a p.1 p.2) acc).lookup y) =
              S.override (S.asMap a) (fun y => acc.lookup y) := by
            funext y; rw [foldl_assocInsert_lookup]; rfl
          rw [hlook, heq] at h2
          have sp : ImportSetsSpec st st2 := by
            refine ⟨?_, fun n => (sp2.exports n).trans (h1.exports n),
              fun n d h => sp2.grow n d (h1.grow n d h)⟩
            have e2 := sp2.same
            unfold SameButInstances at *
            rw [e2, hsame]
          rw [hm, hc]
          simp only [Bool.false_or, List.foldl_append]
          exact ⟨st2, sp, h2⟩


theorem permOpt_map {a b : Option S.Bindings} (h : S.PermOpt a b) (f : S.Bindings → S.Bindings)
    (hf : ∀ x y : S.Bindings, x.Perm y → (f x).Perm (f y)) : S.PermOpt (a.map f) (b.map f) := by
  cases a <;> cases b <;> simp_all [S.PermOpt]

theorem denote_perm {ex ex' : LibName → Option S.Bindings} (h : S.PermExports ex ex') (s : ImportSet) :
    S.PermOpt (S.denote s ex) (S.denote s ex') := by
  induction s with
  | direct name loc => exact h name
  | only sub ids ih => exact permOpt_map ih _ (fun _ _ hp => hp.filter _)
  | except sub ids ih => exact permOpt_map ih _ (fun _ _ hp => hp.filter _)
  | «prefix» sub p ih => exact permOpt_map ih _ (fun _ _ hp => hp.map _)
  | rename sub pairs ih => exact permOpt_map ih _ (fun _ _ hp => hp.map _)

/-- the union map of an admissible declaration does not depend on the order of the export lists -/
theorem denoteAll_perm {ex ex' : LibName → Option S.Bindings} (h : S.PermExports ex ex') :
    ∀ (sets : List ImportSet), S.AdmissibleAll sets ex →
    match S.denoteAll sets ex, S.denoteAll sets ex' with
    | some a, some b => ∀ x, S.asMap a x = S.asMap b x
    | none, none => True
    | _, _ => False := by
  intro sets
  induction sets with
  | nil => intro _; simp [S.denoteAll]
  | cons s rest ih =>
    intro hadm
    have ih' := ih (fun s' hs' => hadm s' (by simp [hs']))
    have hs := denote_perm h s
    have hadm_s := hadm s (by simp)
    simp only [S.denoteAll]
    cases h1 : S.denote s ex with
    | none =>
      cases h2 : S.denote s ex' with
      | none => simp
      | some b => simp [h1, h2, S.PermOpt] at hs
    | some a =>
      cases h2 : S.denote s ex' with
      | none => simp [h1, h2, S.PermOpt] at hs
      | some b =>
        rw [h1, h2] at hs
        cases h3 : S.denoteAll rest ex with
        | none =>
          cases h4 : S.denoteAll rest ex' with
          | none => simp
          | some d => simp [h3, h4] at ih'
        | some c =>
          cases h4 : S.denoteAll rest ex' with
          | none => simp [h3, h4] at ih'
          | some d =>
            simp only [h3, h4] at ih'
            intro x
            simp only [Lib.asMap_append, ih' x, Lib.asMap_perm hs (hadm_s a h1) x]

theorem evalAst_instances (fuel : Nat) (st : State) (s : Statement) (n : LibName) (d : S.Bindings)
    (h : libLookup st.instances n = some d) : libLookup (evalAst fuel st s).2.instances n = some d := by
  obtain ⟨st1, h1, i⟩ := evalAst_inv storeRel_true (fuel := fuel) (st := st) (s := s) (r := _) (st' := _) rfl
  apply i.instances n d
  rcases h1 with rfl | rfl <;> exact h

theorem evalText_go_instances (fuel : Nat) (n : LibName) (d : S.Bindings) :
    ∀ (k : Nat) (s : Read.PState) (st : State) (last : Option Value),
    libLookup st.instances n = some d →
    libLookup (evalText.go fuel k s st last).2.instances n = some d := by
  intro k
  induction k with
  | zero => intro s st last h; rw [evalText.go]; exact h
  | succ k ih =>
    intro s st last h
    rw [evalText.go]
    split
    · exact h
    · exact h
    · split
      · exact h
      · rename_i stmt syn hx
        have h2 := evalAst_instances fuel { st with syn := syn } stmt n d h
        split
        · rename_i he; rw [he] at h2; exact h2
        · rename_i he; rw [he] at h2; exact ih _ _ _ h2

theorem evalText_instances (fuel : Nat) (st : State) (text : List Char) (n : LibName) (d : S.Bindings)
    (h : libLookup st.instances n = some d) : libLookup (evalText fuel st text).2.instances n = some d := by
  unfold evalText
  exact evalText_go_instances fuel n d _ _ _ _ h

theorem denote_eq_transform (s : ImportSet) (ex : LibName → Option S.Bindings) :
    S.denote s ex = (ex (S.leaf s)).map (S.transform s) := by
  induction s with
  | direct name loc => simp [S.denote, S.leaf, S.transform]
  | only sub ids ih => simp [S.denote, S.leaf, S.transform, ih, Function.comp_def]
  | except sub ids ih => simp [S.denote, S.leaf, S.transform, ih, Function.comp_def]
  | «prefix» sub p ih => simp [S.denote, S.leaf, S.transform, ih, Function.comp_def]
  | rename sub pairs ih => simp [S.denote, S.leaf, S.transform, ih, Function.comp_def]

/-- the operators commute with the loading of the library, whatever that involves -/
theorem importSet_factors (s : ImportSet) (k : Nat) (st : State) :
    evalImportSet (k + S.depth s) st s =
      match evalImportSet k st (.direct (S.leaf s) (S.leafLoc s)) with
      | (.ok defs, st') => (.ok (S.transform s defs), st')
      | (.error e, st') => (.error e, st') := by
  induction s with
  | direct name loc =>
    simp only [S.depth, S.leaf, S.leafLoc, S.transform, Nat.add_zero]
    generalize evalImportSet k st (.direct name loc) = res
    obtain ⟨r, st'⟩ := res
    cases r <;> rfl
  | only sub ids ih =>
    simp only [S.depth, S.leaf, S.leafLoc, S.transform, ← Nat.add_assoc]
    rw [evalImportSet, ih]
    generalize evalImportSet k st (.direct (S.leaf sub) (S.leafLoc sub)) = res
    obtain ⟨r, st'⟩ := res
    cases r <;> rfl
  | except sub ids ih =>
    simp only [S.depth, S.leaf, S.leafLoc, S.transform, ← Nat.add_assoc]
    rw [evalImportSet, ih]
    generalize evalImportSet k st (.direct (S.leaf sub) (S.leafLoc sub)) = res
    obtain ⟨r, st'⟩ := res
    cases r <;> rfl
  | «prefix» sub p ih =>
    simp only [S.depth, S.leaf, S.leafLoc, S.transform, ← Nat.add_assoc]
    rw [evalImportSet, ih]
    generalize evalImportSet k st (.direct (S.leaf sub) (S.leafLoc sub)) = res
    obtain ⟨r, st'⟩ := res
    cases r <;> rfl
  | rename sub pairs ih =>
    simp only [S.depth, S.leaf, S.leafLoc, S.transform, ← Nat.add_assoc]
    rw [evalImportSet, ih]
    generalize evalImportSet k st (.direct (S.leaf sub) (S.leafLoc sub)) = res
    obtain ⟨r, st'⟩ := res
    cases r with
    | error e => rfl
    | ok defs =>
      simp only [S.renameTarget]
      congr 2
      apply List.map_congr_left
      intro b _
      cases pairs.reverse.lookup b.1 <;> rfl

end Interp
namespace Lib
open Interp

/-! ## C12: clashes and the order of the export lists -/

theorem any_congr_mem {α} {l : List α} {p q : α → Bool} (h : ∀ a ∈ l, p a = q a) : l.any p = l.any q := by
  induction l with
  | nil => rfl
  | cons a l ih =>
    rw [List.any_cons, List.any_cons, h a (by simp), ih (fun b hb => h b (by simp [hb]))]

/-- in an admissible list every binding is tested against what was bound BEFORE the list -/
theorem clashB_admissible (eq : Value → Value → Bool) {a : S.Bindings} (h : S.Admissible a)
    (m : String → Option Value) :
    clashB eq m a = a.any (fun p => match m p.1 with | some v => !eq v p.2 | none => false) := by
  induction a generalizing m with
  | nil => rfl
  | cons p rest ih =>
    have hn : p.1 ∉ rest.map Prod.fst ∧ (rest.map Prod.fst).Nodup := by
      simpa [S.Admissible] using h
    rw [clashB, ih hn.2, List.any_cons]
    congr 1
    apply any_congr_mem
    intro q hq
    have : q.1 ≠ p.1 := by
      rintro e; exact hn.1 (e ▸ List.mem_map.2 ⟨q, hq, rfl⟩)
    simp [upd, this]

theorem clashB_perm (eq : Value → Value → Bool) {a b : S.Bindings} (hp : a.Perm b)
    (ha : S.Admissible a) (m : String → Option Value) : clashB eq m a = clashB eq m b := by
  have hb : S.Admissible b := (hp.map Prod.fst).nodup_iff.1 ha
  rw [clashB_admissible eq ha, clashB_admissible eq hb, hp.any_eq]

theorem override_perm {a b : S.Bindings} (hp : a.Perm b) (ha : S.Admissible a)
    (m : String → Option Value) : S.override (S.asMap a) m = S.override (S.asMap b) m := by
  funext x; simp only [S.override, asMap_perm hp ha x]

theorem override_append (a c : S.Bindings) (m : String → Option Value) :
    S.override (S.asMap (a ++ c)) m = S.override (S.asMap c) (S.override (S.asMap a) m) := by
  funext x
  simp only [S.override, asMap_append]
  cases S.asMap c x <;> rfl

/-- if `eq` is transitive on the values involved, "no binding differs from the one before it"
means "any two bindings of one name are equal" -/
theorem compatible_of_not_clashB {eq : Value → Value → Bool} {P : Value → Prop}
    (htrans : ∀ u v w, P u → P v → P w → eq u v = true → eq v w = true → eq u w = true) :
    ∀ (bs : S.Bindings) (m : String → Option Value), (∀ p ∈ bs, P p.2) → (∀ x v, m x = some v → P v) →
    clashB eq m bs = false →
    (∀ p ∈ bs, ∀ v, m p.1 = some v → eq v p.2 = true) ∧ S.Compatible eq bs := by
  intro bs
  induction bs with
  | nil => intro m _ _ _; exact ⟨by simp, List.Pairwise.nil⟩
  | cons p rest ih =>
    intro m hP hm hc
    simp only [clashB, Bool.or_eq_false_iff] at hc
    obtain ⟨hhead, htail⟩ := hc
    have hhead' : ∀ v, m p.1 = some v → eq v p.2 = true := by
      intro v hv; simpa [hv] using hhead
    have hPp : P p.2 := hP p (by simp)
    obtain ⟨h1, h2⟩ := ih (upd m p.1 p.2) (fun q hq => hP q (by simp [hq]))
      (fun x v hx => by
        simp only [upd] at hx
        split at hx
        · cases hx; exact hPp
        · exact hm x v hx) htail
    constructor
    · intro q hq v hv
      rcases List.mem_cons.1 hq with rfl | hq
      · exact hhead' v hv
      · by_cases hx : q.1 = p.1
        · have e1 := h1 q hq p.2 (by simp [upd, hx])
          have e2 := hhead' v (hx ▸ hv)
          exact htrans v p.2 q.2 (hm _ _ hv) hPp (hP q (by simp [hq])) e2 e1
        · exact h1 q hq v (by simp [upd, hx, hv])
    · refine List.Pairwise.cons (fun q hq hpq => ?_) h2
      exact h1 q hq p.2 (by simp [upd, hpq])

theorem compatible_perm {eq : Value → Value → Bool} {a b : S.Bindings} (hp : a.Perm b)
    (hsymm : ∀ p ∈ a, ∀ q ∈ a, eq p.2 q.2 = true → eq q.2 p.2 = true) (h : S.Compatible eq a) :
    S.Compatible eq b := by
  let R : String × Value → String × Value → Prop :=
    fun p q => p ∈ a → q ∈ a → p.1 = q.1 → eq p.2 q.2 = true
  have hR : ∀ {x y}, R x y → R y x := fun {x y} hxy hy hx e => hsymm x hx y hy (hxy hx hy e.symm)
  have h1 : a.Pairwise R := h.imp (fun hpq _ _ e => hpq e)
  have h2 : b.Pairwise R := (hp.pairwise_iff hR).1 h1
  exact h2.imp_of_mem (fun hx hy hxy => hxy (hp.mem_iff.2 hx) (hp.mem_iff.2 hy))

theorem pairwise_or {α} {R : α → α → Prop} {l : List α} (h : l.Pairwise R) {x y : α} (hx : x ∈ l)
    (hy : y ∈ l) (hne : x ≠ y) : R x y ∨ R y x := by
  induction h with
  | nil => cases hx
  | @cons a l ha _ ih =>
    rcases List.mem_cons.1 hx with rfl | hx' <;> rcases List.mem_cons.1 hy with rfl | hy'
    · exact absurd rfl hne
    · exact .inl (ha _ hy')
    · exact .inr (ha _ hx')
    · exact ih hx' hy'

theorem asMap_eq_none_iff (bs : S.Bindings) (x : String) : S.asMap bs x = none ↔ x ∉ bs.map Prod.fst := by
  have := lookup_isSome_iff bs.reverse x
  simp only [List.map_reverse, List.mem_reverse] at this
  rw [← this]
  unfold S.asMap
  cases List.lookup x bs.reverse <;> simp

/-- compatible binding lists that are permutations of each other are the same map up to `eq` -/
theorem asMap_perm_compatible {eq : Value → Value → Bool} {a b : S.Bindings} (hp : a.Perm b)
    (hsymm : ∀ p ∈ a, ∀ q ∈ a, eq p.2 q.2 = true → eq q.2 p.2 = true) (h : S.Compatible eq a) (x : String) :
    S.asMap a x = S.asMap b x ∨ ∃ v w, S.asMap a x = some v ∧ S.asMap b x = some w ∧ eq v w = true := by
  cases ha : S.asMap a x with
  | none =>
    left
    have := (asMap_eq_none_iff a x).1 ha
    exact ((asMap_eq_none_iff b x).2 (fun hm => this ((hp.map Prod.fst).mem_iff.2 hm))).symm
  | some v =>
    cases hb : S.asMap b x with
    | none =>
      have hv := asMap_some_mem ha
      have := (asMap_eq_none_iff b x).1 hb
      exact absurd ((hp.map Prod.fst).mem_iff.1 (List.mem_map.2 ⟨(x, v), hv, rfl⟩)) this
    | some w =>
      have hv := asMap_some_mem ha
      have hw := hp.mem_iff.2 (asMap_some_mem hb)
      by_cases he : (x, v) = (x, w)
      · left; cases he; rfl
      · right
        refine ⟨v, w, rfl, rfl, ?_⟩
        rcases pairwise_or h hv hw he with h1 | h1
        · exact h1 rfl
        · exact hsymm _ hw _ hv (h1 rfl)

end Lib

namespace Interp
open Lib

/-- permuted export lists, every set admissible: the same union map AND the same clashes -/
theorem denoteAll_perm_clash {ex ex' : LibName → Option S.Bindings} (h : S.PermExports ex ex')
    (eq : Value → Value → Bool) :
    ∀ (sets : List ImportSet), S.AdmissibleAll sets ex →
    match S.denoteAll sets ex, S.denoteAll sets ex' with
    | some a, some b => (∀ m, S.override (S.asMap a) m = S.override (S.asMap b) m) ∧
        (∀ m, clashB eq m a = clashB eq m b)
    | none, none => True
    | _, _ => False := by
  intro sets
  induction sets with
  | nil => intro _; simp [S.denoteAll]
  | cons s rest ih =>
    intro hadm
    have ih' := ih (fun s' hs' => hadm s' (by simp [hs']))
    have hs := denote_perm h s
    have hadm_s := hadm s (by simp)
    simp only [S.denoteAll]
    cases h1 : S.denote s ex with
    | none =>
      cases h2 : S.denote s ex' with
      | none => simp
      | some b => simp [h1, h2, S.PermOpt] at hs
    | some a =>
      cases h2 : S.denote s ex' with
      | none => simp [h1, h2, S.PermOpt] at hs
      | some b =>
        rw [h1, h2] at hs
        cases h3 : S.denoteAll rest ex with
        | none =>
          cases h4 : S.denoteAll rest ex' with
          | none => simp
          | some d => simp [h3, h4] at ih'
        | some c =>
          cases h4 : S.denoteAll rest ex' with
          | none => simp [h3, h4] at ih'
          | some d =>
            simp only [h3, h4] at ih'
            have hov := override_perm hs (hadm_s a h1)
            have hcl := clashB_perm eq hs (hadm_s a h1)
            refine ⟨fun m => ?_, fun m => ?_⟩
            · rw [override_append, override_append, ih'.1, hov m]
            · rw [clashB_append, clashB_append, hcl m, hov m, ih'.2]

theorem denoteAll_permFlat {ex ex' : LibName → Option S.Bindings} (h : S.PermExports ex ex') :
    ∀ (sets : List ImportSet), S.PermOpt (S.denoteAll sets ex) (S.denoteAll sets ex') := by
  intro sets
  induction sets with
  | nil => simp [S.denoteAll, S.PermOpt]
  | cons s rest ih =>
    have hs := denote_perm h s
    simp only [S.denoteAll]
    cases h1 : S.denote s ex <;> cases h2 : S.denote s ex' <;> rw [h1, h2] at hs <;>
      cases h3 : S.denoteAll rest ex <;> cases h4 : S.denoteAll rest ex' <;> rw [h3, h4] at ih <;>
      simp_all [S.PermOpt]
    exact hs.append ih

end Interp
end Ruschm

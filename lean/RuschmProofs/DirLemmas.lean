/-
Helper lemmas for C14Dir: the lookup directory (`State.dir`, the model of `program_directory` /
the working directory) and the file map keyed by directory-qualified paths.

* `fileKey` facts; `evalText` / `evalAst` never change `dir` or `files`;
* NON-INTERFERENCE: every function of the interpreter's mutual block (`getLibrary`,
  `evalImportSet(s)`, `evalImport`, `evalLibraryDef`, …), `evalAst` and `evalText` read `files`
  only at keys `fileKey st.dir (libPath n)`: replacing the file map by another one that has the same
  entries at all those keys changes nothing but the file map itself (`irrAt`, `evalAst_irr`,
  `evalText_irr`).
-/
import RuschmProofs.LibRefine
import RuschmProofs.ProgramTextLemmas

namespace Ruschm.Interp
open Ruschm

/-! ## `fileKey` -/

@[simp] theorem fileKey_empty (p : String) : fileKey "" p = p := by simp [fileKey]

theorem fileKey_ne {d : String} (h : d ≠ "") (p : String) : fileKey d p = d ++ "/" ++ p := by
  simp [fileKey, h]

/-! ## what `evalText` never touches: the lookup directory -/

theorem evalAst_dir_files {fuel st s r st'} (h : evalAst fuel st s = (r, st')) :
    st'.dir = st.dir ∧ st'.files = st.files := by
  obtain ⟨st0, h0, i⟩ := evalAst_inv storeRel_true h
  rcases h0 with rfl | rfl
  · exact ⟨i.dir, i.files⟩
  · exact ⟨i.dir, i.files⟩

theorem evalAst_inProgress {fuel st s r st'} (h : evalAst fuel st s = (r, st')) :
    st'.inProgress = st.inProgress := by
  obtain ⟨st0, h0, i⟩ := evalAst_inv storeRel_true h
  rcases h0 with rfl | rfl
  · exact i.inProgress
  · exact i.inProgress

theorem evalText_go_dir (fuel : Nat) : ∀ (n : Nat) (s : Read.PState) (st : State) (last : Option Value),
    (evalText.go fuel n s st last).2.dir = st.dir ∧ (evalText.go fuel n s st last).2.files = st.files ∧
    (evalText.go fuel n s st last).2.inProgress = st.inProgress
  | 0, s, st, last => by rw [evalText.go]; exact ⟨rfl, rfl, rfl⟩
  | n + 1, s, st, last => by
    rw [evalText.go]
    split
    · exact ⟨rfl, rfl, rfl⟩
    · exact ⟨rfl, rfl, rfl⟩
    · rename_i d s' hn
      split
      · exact ⟨rfl, rfl, rfl⟩
      · rename_i stmt syn hx
        split
        · rename_i e st1 he; exact ⟨(evalAst_dir_files he).1, (evalAst_dir_files he).2, (evalAst_inProgress he :)⟩
        · rename_i v st1 he
          have k := evalText_go_dir fuel n s' st1 v
          exact ⟨k.1.trans (evalAst_dir_files he).1, k.2.1.trans (evalAst_dir_files he).2,
            k.2.2.trans (evalAst_inProgress he :)⟩

/-- `Interpreter::eval` never changes the lookup directory, the files, the in-progress set -/
theorem evalText_dir (fuel : Nat) (st : State) (text : List Char) :
    (evalText fuel st text).2.dir = st.dir ∧ (evalText fuel st text).2.files = st.files ∧
    (evalText fuel st text).2.inProgress = st.inProgress := by
  unfold evalText
  exact evalText_go_dir fuel _ _ st none

/-- the empty program text: no form, no value, nothing changes -/
theorem evalText_empty (fuel : Nat) (st : State) : evalText fuel st [] = (.ok none, st) := by
  simp [evalText, evalText.go, Read.ofText, Lex.all, Lex.allAux, Lex.next, Lex.token,
    Lex.skipAtmosphere, Read.nextDatum, Read.advance, Read.fuelFor, Read.currentDatum, bind, Except.bind]

/-! ## non-interference: `files` is read only at the library paths of the current directory -/

/-- the state with another file map -/
@[reducible] def withFiles (fs : List (String × FileEntry)) (st : State) : State := { st with files := fs }

/-- the file map `fs` shows the same entry as the state's own at every library path of the
state's lookup directory -/
def SameView (st : State) (fs : List (String × FileEntry)) : Prop :=
  ∀ n : LibName, fs.lookup (fileKey st.dir (libPath n)) = st.files.lookup (fileKey st.dir (libPath n))

theorem SameView.congr {st st' : State} {fs} (h : SameView st fs) (hf : st'.files = st.files)
    (hd : st'.dir = st.dir) : SameView st' fs := by
  intro n; rw [hf, hd]; exact h n

theorem SameView.inv {R} {st st' : State} {fs} (h : SameView st fs) (i : Inv R st st') : SameView st' fs :=
  h.congr i.files i.dir

/-- non-interference for all functions of the mutual block at one amount of fuel -/
structure IrrAt (fs : List (String × FileEntry)) (fuel : Nat) : Prop where
  importSet : ∀ {st s r st'}, evalImportSet fuel st s = (r, st') → SameView st fs →
    evalImportSet fuel (withFiles fs st) s = (r, withFiles fs st')
  getLibrary : ∀ {st name loc r st'}, getLibrary fuel st name loc = (r, st') → SameView st fs →
    Interp.getLibrary fuel (withFiles fs st) name loc = (r, withFiles fs st')
  import_ : ∀ {st sets ρ r st'}, evalImport fuel st sets ρ = (r, st') → SameView st fs →
    evalImport fuel (withFiles fs st) sets ρ = (r, withFiles fs st')
  importSets : ∀ {st sets acc r st'}, evalImportSets fuel st sets acc = (r, st') → SameView st fs →
    evalImportSets fuel (withFiles fs st) sets acc = (r, withFiles fs st')
  libraryDef : ∀ {st decls r st'}, evalLibraryDef fuel st decls = (r, st') → SameView st fs →
    evalLibraryDef fuel (withFiles fs st) decls = (r, withFiles fs st')
  libDecls : ∀ {st ρ decls acc r st'}, evalLibDecls fuel st ρ decls acc = (r, st') → SameView st fs →
    evalLibDecls fuel (withFiles fs st) ρ decls acc = (r, withFiles fs st')
  statements : ∀ {st ρ ss r st'}, evalStatements fuel st ρ ss = (r, st') → SameView st fs →
    evalStatements fuel (withFiles fs st) ρ ss = (r, withFiles fs st')

theorem irrAt_zero (fs) : IrrAt fs 0 := by
  constructor <;> intros <;> rename_i h _
  · rw [evalImportSet] at h ⊢; cases h; rfl
  · rw [Interp.getLibrary] at h ⊢; cases h; rfl
  · rw [evalImport] at h ⊢; cases h; rfl
  · rw [evalImportSets] at h ⊢; cases h; rfl
  · rw [evalLibraryDef] at h ⊢; cases h; rfl
  · rw [evalLibDecls] at h ⊢; cases h; rfl
  · rw [evalStatements] at h ⊢; cases h; rfl

theorem evalExprOrDef_irr (fs) {fuel st s ρ r st'} (h : evalExprOrDef fuel st s ρ = (r, st')) :
    evalExprOrDef fuel (withFiles fs st) s ρ = (r, withFiles fs st') := by
  unfold evalExprOrDef at h ⊢
  split at h
  · split at h <;> (rename_i he; cases h; simp only [he])
  · split at h <;> (rename_i he; cases h; simp only [he])
  · cases h; rfl
  · cases h; rfl


variable {fs : List (String × FileEntry)}

theorem irr_importSet_succ {fuel} (ih : IrrAt fs fuel) {st s r st'}
    (h : evalImportSet (fuel + 1) st s = (r, st')) (hv : SameView st fs) :
    evalImportSet (fuel + 1) (withFiles fs st) s = (r, withFiles fs st') := by
  cases s with
  | direct name loc =>
    rw [evalImportSet] at h ⊢
    split at h
    · rename_i hc; cases h; rw [if_pos hc]
    · rename_i hc
      cases h
      have hg := ih.getLibrary (st := { st with inProgress := name :: st.inProgress }) (name := name)
        (loc := loc) (r := _) (st' := _) rfl (hv.congr rfl rfl)
      rw [if_neg hc]
      show (match Interp.getLibrary fuel (withFiles fs { st with inProgress := name :: st.inProgress }) name loc with
        | (r, st) => (r, { st with inProgress := st.inProgress.erase name })) = _
      rw [hg]
  | only sub ids =>
    rw [evalImportSet] at h ⊢
    split at h <;> rename_i he <;> cases h <;> rw [ih.importSet he hv]
  | except sub ids =>
    rw [evalImportSet] at h ⊢
    split at h <;> rename_i he <;> cases h <;> rw [ih.importSet he hv]
  | «prefix» sub p =>
    rw [evalImportSet] at h ⊢
    split at h <;> rename_i he <;> cases h <;> rw [ih.importSet he hv]
  | rename sub pairs =>
    rw [evalImportSet] at h ⊢
    split at h <;> rename_i he <;> cases h <;> rw [ih.importSet he hv]

theorem findFactory_irr {st name loc r st'} (h : findFactory st name loc = (r, st')) (hv : SameView st fs) :
    findFactory (withFiles fs st) name loc = (r, withFiles fs st') := by
  unfold findFactory at h ⊢
  show (match libLookup st.factories name with
    | some f => (Except.ok f, withFiles fs st)
    | none =>
      match fs.lookup (fileKey st.dir (libPath name)) with
      | none => (Except.error (Err.libNotFound, loc), withFiles fs st)
      | some .unreadable => (Except.error (Err.io, none), withFiles fs st)
      | some (.text t) =>
        match factoryOfText name t with
        | .ok f => (.ok f, { withFiles fs st with factories := libInsert st.factories name f })
        | .error e => (.error e, withFiles fs st)) = _
  rw [hv name]
  cases h1 : libLookup st.factories name with
  | some f => rw [h1] at h; cases h; rfl
  | none =>
    rw [h1] at h
    simp only at h ⊢
    cases h2 : st.files.lookup (fileKey st.dir (libPath name)) with
    | none => rw [h2] at h; cases h; rfl
    | some fe =>
      rw [h2] at h
      cases fe with
      | unreadable => cases h; rfl
      | text t =>
        simp only at h ⊢
        cases h3 : factoryOfText name t with
        | ok f => rw [h3] at h; cases h; rfl
        | error e => rw [h3] at h; cases h; rfl

theorem irr_getLibrary_succ {fuel} (ih : IrrAt fs fuel) {st name loc r st'}
    (h : Interp.getLibrary (fuel + 1) st name loc = (r, st')) (hv : SameView st fs) :
    Interp.getLibrary (fuel + 1) (withFiles fs st) name loc = (r, withFiles fs st') := by
  rw [getLibrary_succ_eq] at h ⊢
  show (match libLookup st.instances name with
    | some defs => (Except.ok defs, withFiles fs st)
    | none =>
      match findFactory (withFiles fs st) name loc with
      | (.error e, st) => (.error e, st)
      | (.ok f, st) => instantiate fuel st f name) = _
  cases hi : libLookup st.instances name with
  | some defs => rw [hi] at h; cases h; rfl
  | none =>
    rw [hi] at h
    simp only at h ⊢
    generalize hff : findFactory st name loc = x at h
    obtain ⟨rf, st1⟩ := x
    rw [findFactory_irr hff hv]
    have hv1 : SameView st1 fs := hv.inv (findFactory_inv storeRel_true hi hff).1
    cases rf with
    | error e => cases h; rfl
    | ok f =>
      simp only at h ⊢
      unfold instantiate newLibrary at h ⊢
      cases f with
      | native defs => cases h; rfl
      | ast decls =>
        simp only at h ⊢
        generalize hx : evalLibraryDef fuel st1 decls = x at h
        obtain ⟨r1, st2⟩ := x
        rw [ih.libraryDef hx hv1]
        cases r1 <;> (cases h; rfl)

theorem irr_import_succ {fuel} (ih : IrrAt fs fuel) {st sets ρ r st'}
    (h : evalImport (fuel + 1) st sets ρ = (r, st')) (hv : SameView st fs) :
    evalImport (fuel + 1) (withFiles fs st) sets ρ = (r, withFiles fs st') := by
  rw [evalImport] at h ⊢
  split at h <;> rename_i he <;> cases h <;> rw [ih.importSets he hv]

theorem irr_importSets_succ {fuel} (ih : IrrAt fs fuel) {st sets acc r st'}
    (h : evalImportSets (fuel + 1) st sets acc = (r, st')) (hv : SameView st fs) :
    evalImportSets (fuel + 1) (withFiles fs st) sets acc = (r, withFiles fs st') := by
  cases sets with
  | nil => rw [evalImportSets] at h ⊢; cases h; rfl
  | cons s rest =>
    rw [evalImportSets] at h ⊢
    split at h <;> rename_i he
    · cases h; rw [ih.importSet he hv]
    · rename_i defs st1
      have hv1 : SameView st1 fs := hv.inv ((invAt storeRel_true fuel).importSet he)
      rw [ih.importSet he hv]
      simp only
      split at h
      · rename_i hm
        show (match List.foldlM _ acc defs with
          | Except.error e => (Except.error e, withFiles fs st1)
          | Except.ok acc' => evalImportSets fuel (withFiles fs st1) rest acc') = _
        rw [hm]
        cases h; rfl
      · rename_i hm
        show (match List.foldlM _ acc defs with
          | Except.error e => (Except.error e, withFiles fs st1)
          | Except.ok acc' => evalImportSets fuel (withFiles fs st1) rest acc') = _
        rw [hm]
        exact ih.importSets h hv1

theorem irr_libraryDef_succ {fuel} (ih : IrrAt fs fuel) {st decls r st'}
    (h : evalLibraryDef (fuel + 1) st decls = (r, st')) (hv : SameView st fs) :
    evalLibraryDef (fuel + 1) (withFiles fs st) decls = (r, withFiles fs st') := by
  rw [evalLibraryDef] at h ⊢
  simp only [Store.newFrame] at h ⊢
  split at h <;> rename_i he <;> cases h
  · have := ih.libDecls he (hv.congr rfl rfl)
    simp only [withFiles] at this ⊢
    rw [this]
  · have := ih.libDecls he (hv.congr rfl rfl)
    simp only [withFiles] at this ⊢
    rw [this]

theorem irr_libDecls_succ {fuel} (ih : IrrAt fs fuel) {st ρ decls acc r st'}
    (h : evalLibDecls (fuel + 1) st ρ decls acc = (r, st')) (hv : SameView st fs) :
    evalLibDecls (fuel + 1) (withFiles fs st) ρ decls acc = (r, withFiles fs st') := by
  cases decls with
  | nil => rw [evalLibDecls] at h ⊢; cases h; rfl
  | cons d ds =>
    cases d <;> rw [evalLibDecls] at h ⊢
    · split at h <;> rename_i he
      · cases h; rw [ih.import_ he hv]
      · rw [ih.import_ he hv]
        exact ih.libDecls h (hv.inv ((invAt storeRel_true fuel).import_ he))
    · exact ih.libDecls h hv
    · split at h <;> rename_i he
      · cases h; rw [ih.statements he hv]
      · rw [ih.statements he hv]
        exact ih.libDecls h (hv.inv ((invAt storeRel_true fuel).statements he))

theorem irr_statements_succ {fuel} (ih : IrrAt fs fuel) {st ρ ss r st'}
    (h : evalStatements (fuel + 1) st ρ ss = (r, st')) (hv : SameView st fs) :
    evalStatements (fuel + 1) (withFiles fs st) ρ ss = (r, withFiles fs st') := by
  cases ss with
  | nil => rw [evalStatements] at h ⊢; cases h; rfl
  | cons s rest =>
    rw [evalStatements] at h ⊢
    split at h <;> rename_i he
    · cases h; rw [evalExprOrDef_irr fs he]
    · rw [evalExprOrDef_irr fs he]
      exact ih.statements h (hv.inv (evalExprOrDef_inv storeRel_true he))

/-- NON-INTERFERENCE, every amount of fuel -/
theorem irrAt (fs : List (String × FileEntry)) : ∀ fuel, IrrAt fs fuel
  | 0 => irrAt_zero fs
  | fuel + 1 =>
    have ih := irrAt fs fuel
    ⟨irr_importSet_succ ih, irr_getLibrary_succ ih, irr_import_succ ih, irr_importSets_succ ih,
     irr_libraryDef_succ ih, irr_libDecls_succ ih, irr_statements_succ ih⟩

open Ruschm.ProgramText in
theorem astInner_irr {fuel st s r st'} (h : astInner fuel st s = (r, st')) (hv : SameView st fs) :
    astInner fuel (withFiles fs st) s = (r, withFiles fs st') := by
  unfold astInner at h ⊢
  show (if (!st.importEnd) = true then _ else _) = _
  cases hb : st.importEnd with
  | true =>
    rw [hb] at h
    simp only [Bool.not_true, Bool.false_eq_true, if_false] at h ⊢
    exact evalExprOrDef_irr fs h
  | false =>
    rw [hb] at h
    simp only [Bool.not_false, if_true] at h ⊢
    cases s with
    | importDecl sets l =>
      simp only at h ⊢
      generalize hx : evalImport fuel st sets st.env = x at h
      obtain ⟨r1, st1⟩ := x
      have := (irrAt fs fuel).import_ hx hv
      simp only [withFiles] at this ⊢
      rw [this]
      cases r1 <;> (cases h; rfl)
    | libraryDef n d l => cases h; rfl
    | definition d => exact evalExprOrDef_irr fs h
    | syntaxDef n rules l => exact evalExprOrDef_irr fs h
    | expr e => exact evalExprOrDef_irr fs h

open Ruschm.ProgramText in
/-- `eval_ast` reads the file map only at the library paths of the current directory -/
theorem evalAst_irr {fuel st s r st'} (h : evalAst fuel st s = (r, st')) (hv : SameView st fs) :
    evalAst fuel (withFiles fs st) s = (r, withFiles fs st') := by
  rw [evalAst_eq] at h ⊢
  generalize hx : astInner fuel st s = x at h
  obtain ⟨r1, st1⟩ := x
  rw [astInner_irr hx hv]
  unfold astPost at h ⊢
  cases r1 <;> (cases h; rfl)

theorem evalText_go_irr (fuel : Nat) : ∀ (n : Nat) (s : Read.PState) (st : State) (last : Option Value)
    (r : Except SErr (Option Value)) (st' : State), evalText.go fuel n s st last = (r, st') → SameView st fs →
    evalText.go fuel n s (withFiles fs st) last = (r, withFiles fs st')
  | 0, s, st, last, r, st', h, _ => by rw [evalText.go] at h ⊢; cases h; rfl
  | n + 1, s, st, last, r, st', h, hv => by
    rw [evalText.go] at h ⊢
    cases hn : Read.nextDatum s with
    | error e => rw [hn] at h; cases h; rfl
    | ok p =>
      obtain ⟨od, s'⟩ := p
      rw [hn] at h
      cases od with
      | none => cases h; rfl
      | some d =>
        simp only at h ⊢
        generalize hx : Xform.toStatement (Xform.xformFuel d) d st.syn = x at h
        obtain ⟨rs, syn⟩ := x
        cases rs with
        | error e => cases h; rfl
        | ok stmt =>
          simp only at h ⊢
          generalize he : evalAst fuel { st with syn := syn } stmt = y at h
          obtain ⟨r1, st1⟩ := y
          have hv0 : SameView { st with syn := syn } fs := hv.congr rfl rfl
          have := evalAst_irr he hv0
          simp only [withFiles] at this ⊢
          rw [this]
          cases r1 with
          | error e => cases h; rfl
          | ok v =>
            simp only at h ⊢
            have hd := evalAst_dir_files he
            exact evalText_go_irr fuel n s' st1 v r st' h (hv0.congr hd.2 hd.1)

/-- `Interpreter::eval` reads the file map only at the library paths of the current directory -/
theorem evalText_irr {fuel st text r st'} (h : evalText fuel st text = (r, st')) (hv : SameView st fs) :
    evalText fuel (withFiles fs st) text = (r, withFiles fs st') := by
  unfold evalText at h ⊢
  exact evalText_go_irr fuel _ _ st none r st' h hv

end Ruschm.Interp

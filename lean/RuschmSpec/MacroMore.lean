/-
More specification vocabulary for C04:

* `SupportedRule'`: the supported class with ellipsis sub-templates over SEVERAL ellipsis variables
  of the pattern (e.g. `((a b) ...)` for the pattern `((a ...) (b ...))`);
* `specInstR7`: the R7RS instantiation — an ellipsis sub-template is repeated once per item of the
  runs its variables matched, which R7RS requires to have one common length (`EqualRuns`);
* `ruleOf` / `MapOk` / `tmplElems`: the declarative reading of a `syntax-rules` form, for the
  theorems about `toRules`, `toPat`, `toTmpl`.
-/
import RuschmSpec.Macro

namespace Ruschm.Macro

/-! ## Ellipsis sub-templates over several ellipsis variables -/

/-- an ellipsis sub-template: no nested ellipsis, at least one pattern variable, and ALL its pattern
variables are ellipsis variables of the pattern (of whichever ellipses) -/
def Tmpl.ellOk' (pv : List String) (groups : List (List String)) (t : Tmpl) : Bool :=
  t.flagFree && !(t.boundVars pv).isEmpty &&
    (t.boundVars pv).all fun v => groups.any fun g => g.contains v

mutual
def Tmpl.ok' (pv : List String) (groups : List (List String)) : Tmpl → Bool
  | .ident v => !(groups.any fun g => g.contains v)
  | .prim _ => true
  | .list es => Tmpl.okElems' pv groups es
  | .vec es => Tmpl.okElems' pv groups es
def Tmpl.okElems' (pv : List String) (groups : List (List String)) : List (Tmpl × Bool) → Bool
  | [] => true
  | (t, false) :: rest => t.ok' pv groups && Tmpl.okElems' pv groups rest
  | (t, true) :: rest => t.ellOk' pv groups && Tmpl.okElems' pv groups rest
end

/-- the wider class of templates: ellipsis sub-templates mention only ellipsis variables (and at
least one), plain elements mention none -/
def SupportedTmpl' (lits : List String) (p : Pat) (t : Tmpl) : Bool :=
  t.ok' (p.vars lits) (p.ellGroups lits)

def SupportedRule' (lits : List String) (r : Pat × Tmpl) : Bool :=
  Supported lits r.1 && SupportedTmpl' lits r.1 r.2

def SupportedRules' (r : Rules) : Bool := r.rules.all (SupportedRule' r.literals)

/-! ## The R7RS instantiation -/

/-- the common length of the runs an ellipsis sub-template mentions: the length of the first one
(R7RS: "it is an error" unless they all have this length; `0` if there is none) -/
def copiesR7 (β : Bindings) (t : Tmpl) : Nat := (seqLens β t).headD 0

mutual
/-- the template with every variable replaced by the `i`-th item it matched; an element followed by
an ellipsis is repeated once per item of its runs -/
def specInstR7At (β : Bindings) (loc : Loc) (i : Nat) : Tmpl → Datum
  | .ident v =>
    match β.lookup v with
    | some ms => ms.getD i (.sym v loc)
    | none => .sym v loc
  | .prim p => .prim p loc
  | .list es => Datum.ofList loc (specElemsR7At β loc i es)
  | .vec es => .vec (specElemsR7At β loc i es) loc
def specElemsR7At (β : Bindings) (loc : Loc) (i : Nat) : List (Tmpl × Bool) → List Datum
  | [] => []
  | (t, false) :: rest => specInstR7At β loc i t :: specElemsR7At β loc i rest
  | (t, true) :: rest =>
    (List.range (copiesR7 β t)).map (fun j => specInstR7At β loc j t) ++ specElemsR7At β loc i rest
end

/-- **R7RS template instantiation** -/
def specInstR7 (t : Tmpl) (β : Bindings) (loc : Loc) : Datum := specInstR7At β loc 0 t

mutual
/-- every ellipsis sub-template mentions runs of ONE common length (what R7RS requires) -/
def EqualRuns (β : Bindings) : Tmpl → Bool
  | .ident _ => true
  | .prim _ => true
  | .list es => EqualRunsElems β es
  | .vec es => EqualRunsElems β es
def EqualRunsElems (β : Bindings) : List (Tmpl × Bool) → Bool
  | [] => true
  | (t, false) :: rest => EqualRuns β t && EqualRunsElems β rest
  | (t, true) :: rest =>
    (seqLens β t).all (fun l => l == copiesR7 β t) && EqualRuns β t && EqualRunsElems β rest
end

/-- the R7RS expander: the first matching rule's template, instantiated the R7RS way -/
def specTransformR7 (lits : List String) : List (Pat × Tmpl) → Datum → Except SErr Datum
  | [], _ => .error (.syntax, none)
  | (p, t) :: rest, use =>
    match specMatch lits p use with
    | some β => .ok (specInstR7 t β use.loc)
    | none => specTransformR7 lits rest use

/-! ## Reading a `syntax-rules` form -/

/-- `f` succeeds on every element of `xs`, with results `ys`, position by position -/
inductive MapOk {α β ε : Type} (f : α → Except ε β) : List α → List β → Prop
  | nil : MapOk f [] []
  | cons {x xs y ys} : f x = .ok y → MapOk f xs ys → MapOk f (x :: xs) (y :: ys)

/-- the symbol `...` -/
def isEllSym : Datum → Bool
  | .sym s _ => s == "..."
  | _ => false

/-- the elements of a list or vector template, read left to right: an element followed by `...`
is flagged (and the `...` consumed); a `...` that follows nothing is a syntax error located at
it -/
def tmplElems : List Datum → Except SErr (List (Tmpl × Bool))
  | [] => .ok []
  | x :: rest =>
    if isEllSym x then .error (.syntax, x.loc) else
    match toTmpl x with
    | .error e => .error e
    | .ok t =>
      match rest with
      | e :: rest' =>
        if isEllSym e then (tmplElems rest').map ((t, true) :: ·)
        else (tmplElems (e :: rest')).map ((t, false) :: ·)
      | [] => .ok [(t, false)]

/-- a rule as written: `((kw . pattern) template more…)`, the pattern's head being the symbol `kw`
itself and the rest of the pattern a list -/
def ruleOf (kw : String) (d : Datum) : Option (Datum × Datum) :=
  match d with
  | .pair _ _ _ =>
    match d.elems with
    | .pair (.sym k _) patRest _ :: td :: _ =>
      if k = kw then
        match patRest with
        | .pair _ _ _ => some (patRest, td)
        | .nil _ => some (patRest, td)
        | _ => none
      else none
    | _ => none
  | _ => none

/-- the elements of a list form (a dotted tail counts as a last element, as for the Rust
iterator); `none` for an atom or a vector -/
def listElems? (d : Datum) : Option (List Datum) :=
  match d with
  | .pair _ _ _ => some d.elems
  | .nil _ => some []
  | _ => none

/-- the parts of `(syntax-rules (literal…) rule…)` or `(syntax-rules ellipsis (literal…) rule…)`
(the custom ellipsis identifier is read and ignored, as the Rust code does; the head of the form is
not looked at: the caller dispatched on it): the written literals and the written rules -/
def synRulesParts (d : Datum) : Option (List Datum × List Datum) :=
  (listElems? d).bind fun es =>
    match es.drop 1 with
    | first :: rest =>
      match first with
      | .sym _ _ =>
        match rest with
        | ld :: rest' => (listElems? ld).map (·, rest')
        | [] => none
      | _ => (listElems? first).map (·, rest)
    | [] => none

end Ruschm.Macro

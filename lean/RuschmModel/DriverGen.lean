import RuschmModel.Read
import RuschmGen
namespace Ruschm.Driver
open Proto

/-- does the model's reader read `text` as exactly `data` (locations erased)? -/
def selfcheckOne (name : String) (text : String) (data : List Datum) : String :=
  let (ds, e) := Read.all text.toList
  if e.isSome then name ++ ":reader-error"
  else if Datum.beqList (Datum.stripList ds) data && ds.length == data.length then name ++ ":ok"
  else name ++ ":MISMATCH"

/-- `gen-selfcheck`: the generated constants agree with the model's own reading of the texts -/
def genSelfcheck (_ : List String) : List String :=
  [selfcheckOne "grammar" Gen.grammarText Gen.grammarData,
   selfcheckOne "baseLib" Gen.baseLibText Gen.baseLibData,
   selfcheckOne "writeLib" Gen.writeLibText Gen.writeLibData]

/-- `gen-text`: the generated text constants, so that the check can compare them byte for byte
with the files in /repo and feed them to the real reader -/
def genText (fields : List String) : List String :=
  match fields with
  | ["grammar"] => [esc Gen.grammarText]
  | ["baseLib"] => [esc Gen.baseLibText]
  | ["writeLib"] => [esc Gen.writeLibText]
  | _ => ["X bad-fields"]

/-- `gen-data`: canonical text of the generated data -/
def genData (fields : List String) : List String :=
  match fields with
  | ["grammar"] => Gen.grammarData.map canonDatum
  | ["baseLib"] => Gen.baseLibData.map canonDatum
  | ["writeLib"] => Gen.writeLibData.map canonDatum
  | _ => ["X bad-fields"]

end Ruschm.Driver

"""An INDEPENDENT reference evaluator, in Python, for the programs the generators write: the core forms
(lambda with fixed and rest parameters, define, set!, if, quote, application) after the derived forms
have been rewritten by the R7RS definitions (checks/sexp.py), over exact integers, booleans, symbols,
pairs and vectors, with the procedures the generators use. It shares nothing with the Rust code or
the Lean model: it is the oracle "the value and the order of evaluation R7RS assigns".
Anything outside its range (a procedure it does not know, an integer leaving i32, an error) raises
OutOfModel and the program is simply not judged by this oracle."""
import sys
from . import sexp

sys.setrecursionlimit(20000)


class OutOfModel(Exception):
    pass


class Void:
    pass
VOID = Void()


class Sym(str):
    pass


class Pair:
    __slots__ = ("car", "cdr")
    def __init__(self, a, d):
        self.car, self.cdr = a, d


class Nil:
    pass
NIL = Nil()


class Vec:
    def __init__(self, items, mutable):
        self.items, self.mutable = items, mutable


class Closure:
    def __init__(self, params, rest, body, env):
        self.params, self.rest, self.body, self.env = params, rest, body, env


class Builtin:
    def __init__(self, name, fn):
        self.name, self.fn = name, fn


class Env:
    def __init__(self, parent=None):
        self.vars, self.parent = {}, parent
    def find(self, name):
        e = self
        while e is not None:
            if name in e.vars:
                return e
            e = e.parent
        return None


def from_list(xs, tail=NIL):
    out = tail
    for x in reversed(xs):
        out = Pair(x, out)
    return out


def to_list(v):
    out = []
    while isinstance(v, Pair):
        out.append(v.car); v = v.cdr
    if v is not NIL:
        raise OutOfModel("improper list")
    return out


def datum(x, mutable=False):
    """a quoted datum"""
    if isinstance(x, list):
        if len(x) >= 3 and x[-2] is sexp.DOT:
            return from_list([datum(y) for y in x[:-2]], datum(x[-1]))
        if any(y is sexp.DOT for y in x):
            raise OutOfModel("dot")
        return from_list([datum(y) for y in x])
    if isinstance(x, tuple):
        return Vec([datum(y) for y in x[1]], False)
    return atom(x, quoted=True)


def atom(t, quoted=False):
    if t == "#t": return True
    if t == "#f": return False
    try:
        return check(int(t))
    except ValueError:
        pass
    if t.startswith('"') or t.startswith("#\\") or "." in t and t[0].isdigit() or "/" in t and t[0].isdigit():
        raise OutOfModel("literal " + t)
    if quoted:
        return Sym(t)
    return None


def check(n):
    if not (-2**31 <= n < 2**31):
        raise OutOfModel("integer leaves the exact range")
    return n


def canon(v):
    if v is True: return "#t"
    if v is False: return "#f"
    if isinstance(v, int): return "i:%d" % v
    if isinstance(v, Sym): return "y:" + v
    if v is NIL: return "()"
    if v is VOID: return "<void>"
    if isinstance(v, (Closure, Builtin)): return "<proc>"
    if isinstance(v, Vec):
        return ("#m(" if v.mutable else "#i(") + " ".join(canon(x) for x in v.items) + ")"
    if isinstance(v, Pair):
        parts = []
        while isinstance(v, Pair):
            parts.append(canon(v.car)); v = v.cdr
        return "(" + " ".join(parts) + ("" if v is NIL else " . " + canon(v)) + ")"
    raise OutOfModel("value")


def eqv(a, b):
    if isinstance(a, bool) or isinstance(b, bool): return a is b
    if isinstance(a, int) and isinstance(b, int): return a == b
    if isinstance(a, Sym) and isinstance(b, Sym): return a == b
    if a is NIL and b is NIL: return True
    if isinstance(a, Pair) or isinstance(b, Pair):
        raise OutOfModel("eqv? on pairs")            # the implementation's answer there is its own business
    return a is b


def ints(args):
    for a in args:
        if isinstance(a, bool) or not isinstance(a, int):
            raise OutOfModel("non-integer operand")
    return args


class Machine:
    def __init__(self):
        self.ticks = []
        self.glob = Env()
        g = self.glob.vars
        def b(name, fn): g[name] = Builtin(name, fn)
        b("+", lambda a: check(sum(ints(a))))
        b("*", lambda a: self.prod(ints(a)))
        b("-", lambda a: check(-a[0]) if len(ints(a)) == 1 else self.fold_sub(a))
        b("max", lambda a: max(ints(a)))
        b("min", lambda a: min(ints(a)))
        for name, op in (("=", lambda x, y: x == y), ("<", lambda x, y: x < y), (">", lambda x, y: x > y),
                         ("<=", lambda x, y: x <= y), (">=", lambda x, y: x >= y)):
            b(name, (lambda op: lambda a: all(op(x, y) for x, y in zip(ints(a), a[1:])))(op))
        b("eqv?", lambda a: eqv(a[0], a[1]))
        b("pair?", lambda a: isinstance(a[0], Pair))
        b("null?", lambda a: a[0] is NIL)
        b("not", lambda a: a[0] is False)
        b("car", lambda a: self.pair(a[0]).car)
        b("cdr", lambda a: self.pair(a[0]).cdr)
        b("cons", lambda a: Pair(a[0], a[1]))
        b("list", lambda a: from_list(a))
        b("append", lambda a: self.append(a))
        b("make-list", lambda a: from_list([a[1]] * ints([a[0]])[0]))
        b("vector", lambda a: Vec(list(a), True))
        b("vector-ref", lambda a: self.vec(a[0]).items[self.index(a[0], a[1])])
        b("vector-length", lambda a: len(self.vec(a[0]).items))
        b("vector-set!", lambda a: self.vset(a))
        b("tick", lambda a: self.tick(a))
        b("map", lambda a: from_list([self.apply(a[0], [x]) for x in to_list(a[1])]) if len(a) == 2 else self.oom())
        b("for-each", lambda a: ([self.apply(a[0], [x]) for x in to_list(a[1])], VOID)[1] if len(a) == 2 else self.oom())
        b("fold-left", lambda a: self.fold_left(a))
        b("apply", lambda a: self.apply(a[0], list(a[1:-1]) + to_list(a[-1])))

    def oom(self):
        raise OutOfModel("arity")

    def prod(self, a):
        r = 1
        for x in a:
            r = check(r * x)
        return r

    def fold_sub(self, a):
        r = a[0]
        for x in a[1:]:
            r = check(r - x)
        return r

    def pair(self, v):
        if not isinstance(v, Pair):
            raise OutOfModel("car/cdr of a non-pair")
        return v

    def vec(self, v):
        if not isinstance(v, Vec):
            raise OutOfModel("not a vector")
        return v

    def index(self, v, i):
        if isinstance(i, bool) or not isinstance(i, int) or not (0 <= i < len(v.items)):
            raise OutOfModel("index")
        return i

    def vset(self, a):
        v = self.vec(a[0])
        if not v.mutable:
            raise OutOfModel("immutable")
        v.items[self.index(v, a[1])] = a[2]
        return VOID

    def append(self, a):
        if not a:
            return NIL
        out = a[-1]
        for l in reversed(a[:-1]):
            out = from_list(to_list(l), out)
        return out

    def tick(self, a):
        self.ticks.append(canon(a[0]))
        return VOID

    def fold_left(self, a):
        acc = a[1]
        for x in to_list(a[2]):
            acc = self.apply(a[0], [acc, x])
        return acc

    # ---- evaluation of core forms
    def eval(self, x, env):
        while True:
            if isinstance(x, str):
                v = atom(x)
                if v is not None:
                    return v
                e = env.find(x)
                if e is None:
                    raise OutOfModel("unbound " + x)
                return e.vars[x]
            if isinstance(x, tuple):
                return Vec([datum(y) for y in x[1]], False)
            if not x:
                raise OutOfModel("()")
            h = x[0]
            if h == "quote":
                return datum(x[1])
            if h == "if":
                t = self.eval(x[1], env)
                if t is not False:
                    x = x[2]; continue
                if len(x) > 3:
                    x = x[3]; continue
                return VOID
            if h == "lambda":
                return self.closure(x[1], x[2:], env)
            if h == "define":
                raise OutOfModel("definition in expression position")
            if h == "set!":
                e = env.find(x[1])
                if e is None:
                    raise OutOfModel("set! unbound")
                e.vars[x[1]] = self.eval(x[2], env)
                return VOID
            if isinstance(h, str) and h in ("begin", "let", "let*", "cond", "case", "and", "or", "when", "unless", "define-syntax", "import"):
                raise OutOfModel("derived form left in core program: " + h)
            f = self.eval(h, env)
            args = [self.eval(a, env) for a in x[1:]]
            if isinstance(f, Closure):
                env = self.bind(f, args)
                x = self.body(f.body, env)
                continue
            return self.apply(f, args)

    def closure(self, formals, body, env):
        if isinstance(formals, str):
            return Closure([], formals, body, env)
        if len(formals) >= 2 and formals[-2] is sexp.DOT:
            return Closure(formals[:-2], formals[-1], body, env)
        return Closure(list(formals), None, body, env)

    def bind(self, f, args):
        if len(args) < len(f.params) or (f.rest is None and len(args) != len(f.params)):
            raise OutOfModel("arity")
        env = Env(f.env)
        for p, a in zip(f.params, args):
            env.vars[p] = a
        if f.rest is not None:
            env.vars[f.rest] = from_list(args[len(f.params):])
        return env

    def body(self, forms, env):
        """evaluates all but the last form of a body (definitions in order, in this frame); returns the last"""
        if not forms:
            raise OutOfModel("empty body")
        for s in forms[:-1]:
            self.statement(s, env)
        last = forms[-1]
        if isinstance(last, list) and last and last[0] == "define":
            raise OutOfModel("body ends with a definition")
        return last

    def statement(self, s, env):
        if isinstance(s, list) and s and s[0] == "define":
            if isinstance(s[1], list):
                name = s[1][0]
                rest = s[1][1:]
                env.vars[name] = self.closure(rest, s[2:], env)
            else:
                env.vars[s[1]] = self.eval(s[2], env)
            return None
        return self.eval(s, env)

    def apply(self, f, args):
        if isinstance(f, Builtin):
            try:
                return f.fn(args)
            except (IndexError, TypeError, ValueError):
                raise OutOfModel("builtin misuse")
        if isinstance(f, Closure):
            env = self.bind(f, args)
            return self.eval(self.body(f.body, env), env)
        raise OutOfModel("not a procedure")

    def toplevel(self, s):
        """-> canonical result of one top-level form ('N' for a definition)"""
        if isinstance(s, list) and s and s[0] == "define":
            self.statement(s, self.glob)
            return "N"
        if isinstance(s, list) and s and s[0] == "import":
            return "N"
        return "V " + canon(self.eval(s, self.glob))


def run_program(forms):
    """forms: program texts (one top-level form each, derived forms allowed). -> (results, ticks) or None when the program
    is outside the reference evaluator's range"""
    m = Machine()
    out = []
    try:
        for text in forms:
            core = sexp.parse_all(sexp.desugar_text(text))
            for s in core:
                r = m.toplevel(s)
            out.append(r)
        return out, list(m.ticks)
    except (OutOfModel, RecursionError, IndexError, KeyError):
        return None

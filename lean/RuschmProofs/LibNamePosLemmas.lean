/-
Helper lemmas for `RuschmProofs/C15More.lean` (`error_position_within_failing_form`): THE STATE NEVER
HOLDS A POSITION IN THE ROLE OF A LIBRARY NAME.

* `evalImport_unloc` … — the state an import declaration leaves does not depend on the positions written
  in its import sets (they are only ever copied into the error `get_library` / `eval_import_set`
  report); the outcome is the same up to the position of the error (`SameUpToLoc`);
* `Expr.noLib` … — no position of an expression (a procedure body, a definition) has the role
  `Role.libname`;
* `evalAst_noLib` — `eval_ast`, on ANY statement, keeps "no position of the state has the role
  `libname`" (`NoLib st.rlocs`): for an expression or a definition by `InterpLoc.evalAst_in` and the role
  lemma; for an import declaration by `InterpLoc.evalAst_in` on the declaration with its import sets
  stripped of their positions, which leaves the same state; a library definition leaves the code of the
  state as it is (`eval_ast` refuses it).
-/
import RuschmProofs.LocLemmas
import RuschmSpec.Unloc

set_option linter.unusedSimpArgs false
set_option linter.unusedVariables false

namespace Ruschm.LibNamePos
open Ruschm Ruschm.Interp

/-! ## outcomes equal up to the position of the error -/

/-- the same value, or errors of the same kind -/
def SameUpToLoc {α} (r r' : Except SErr α) : Prop :=
  match r, r' with
  | .ok a, .ok b => a = b
  | .error e, .error e' => e.1 = e'.1
  | _, _ => False

/-- same state, same outcome up to the position of the error -/
def Rel {α} (x y : Except SErr α × State) : Prop := x.2 = y.2 ∧ SameUpToLoc x.1 y.1

theorem Rel.refl {α} (x : Except SErr α × State) : Rel x x := by
  obtain ⟨r, s⟩ := x
  cases r <;> simp [Rel, SameUpToLoc]

theorem rel_of_eq {α} {x y : Except SErr α × State} (h : x = y) : Rel x y := h ▸ Rel.refl x

/-- closes `Rel (match x with …) (match y with …)` from `h : Rel x y`, where both sides post-process a
successful outcome in the same way -/
local macro "rel_post " h:ident : tactic => `(tactic| (
  generalize evalImportSet _ _ (ImportSet.unloc _) = x at $h:ident
  generalize evalImportSet _ _ _ = y at $h:ident
  obtain ⟨rx, sx⟩ := x
  obtain ⟨ry, sy⟩ := y
  obtain ⟨h1, h2⟩ := $h:ident
  simp only at h1
  subst h1
  cases rx <;> cases ry <;> simp_all [Rel, SameUpToLoc]))

/-! ## `get_library`, `eval_import_set`, `eval_import`: the positions of the import sets do not matter -/

theorem findFactory_loc (st : State) (name : LibName) (loc loc' : Loc) :
    InterpLoc.findFactory st name loc = InterpLoc.findFactory st name loc' ∨
    (InterpLoc.findFactory st name loc = (.error (.libNotFound, loc), st) ∧
     InterpLoc.findFactory st name loc' = (.error (.libNotFound, loc'), st)) := by
  unfold InterpLoc.findFactory
  cases libLookup st.factories name with
  | some f => exact Or.inl rfl
  | none =>
    cases st.files.lookup (fileKey st.dir (libPath name)) with
    | none => exact Or.inr ⟨rfl, rfl⟩
    | some fe => cases fe <;> exact Or.inl rfl

theorem getLibrary_loc (fuel : Nat) (st : State) (name : LibName) (loc loc' : Loc) :
    Rel (getLibrary fuel st name loc) (getLibrary fuel st name loc') := by
  cases fuel with
  | zero => rw [getLibrary, getLibrary]; exact ⟨rfl, rfl⟩
  | succ fuel =>
    rw [InterpLoc.getLibrary_succ_eq, InterpLoc.getLibrary_succ_eq]
    cases libLookup st.instances name with
    | some defs => exact Rel.refl _
    | none =>
      rcases findFactory_loc st name loc loc' with h | ⟨h1, h2⟩
      · simp only [h]; exact Rel.refl _
      · simp only [h1, h2]; exact ⟨rfl, rfl⟩

theorem evalImportSet_unloc : ∀ (s : ImportSet) (fuel : Nat) (st : State),
    Rel (evalImportSet fuel st s.unloc) (evalImportSet fuel st s)
  | .direct name loc, 0, st => by rw [ImportSet.unloc, evalImportSet, evalImportSet]; exact ⟨rfl, rfl⟩
  | .only sub ids, 0, st => by rw [ImportSet.unloc, evalImportSet, evalImportSet]; exact ⟨rfl, rfl⟩
  | .except sub ids, 0, st => by rw [ImportSet.unloc, evalImportSet, evalImportSet]; exact ⟨rfl, rfl⟩
  | .prefix sub p, 0, st => by rw [ImportSet.unloc, evalImportSet, evalImportSet]; exact ⟨rfl, rfl⟩
  | .rename sub ps, 0, st => by rw [ImportSet.unloc, evalImportSet, evalImportSet]; exact ⟨rfl, rfl⟩
  | .direct name loc, fuel + 1, st => by
    rw [ImportSet.unloc, evalImportSet, evalImportSet]
    by_cases hc : st.inProgress.contains name = true
    · simp only [hc, if_true]; exact ⟨rfl, rfl⟩
    · simp only [hc, if_false]
      have h := getLibrary_loc fuel { st with inProgress := name :: st.inProgress } name none loc
      generalize getLibrary fuel { st with inProgress := name :: st.inProgress } name none = x at h
      generalize getLibrary fuel { st with inProgress := name :: st.inProgress } name loc = y at h
      obtain ⟨rx, sx⟩ := x
      obtain ⟨ry, sy⟩ := y
      obtain ⟨h1, h2⟩ := h
      simp only at h1
      subst h1
      exact ⟨rfl, h2⟩
  | .only sub ids, fuel + 1, st => by
    rw [ImportSet.unloc, evalImportSet, evalImportSet]
    have h := evalImportSet_unloc sub fuel st
    rel_post h
  | .except sub ids, fuel + 1, st => by
    rw [ImportSet.unloc, evalImportSet, evalImportSet]
    have h := evalImportSet_unloc sub fuel st
    rel_post h
  | .prefix sub p, fuel + 1, st => by
    rw [ImportSet.unloc, evalImportSet, evalImportSet]
    have h := evalImportSet_unloc sub fuel st
    rel_post h
  | .rename sub ps, fuel + 1, st => by
    rw [ImportSet.unloc, evalImportSet, evalImportSet]
    have h := evalImportSet_unloc sub fuel st
    rel_post h

theorem evalImportSets_unloc : ∀ (sets : List ImportSet) (fuel : Nat) (st : State) (acc : List (String × Value)),
    Rel (evalImportSets fuel st (sets.map ImportSet.unloc) acc) (evalImportSets fuel st sets acc)
  | [], fuel, st, acc => Rel.refl _
  | s :: rest, 0, st, acc => by rw [List.map_cons, evalImportSets, evalImportSets]; exact ⟨rfl, rfl⟩
  | s :: rest, fuel + 1, st, acc => by
    rw [List.map_cons, evalImportSets, evalImportSets]
    have h := evalImportSet_unloc s fuel st
    generalize evalImportSet fuel st s.unloc = x at h
    generalize evalImportSet fuel st s = y at h
    obtain ⟨rx, sx⟩ := x
    obtain ⟨ry, sy⟩ := y
    obtain ⟨h1, h2⟩ := h
    simp only at h1
    subst h1
    cases rx with
    | error e =>
      cases ry with
      | error e' => exact ⟨rfl, h2⟩
      | ok b => exact h2.elim
    | ok a =>
      cases ry with
      | error e' => exact h2.elim
      | ok b =>
        have : a = b := h2
        subst this
        simp only
        split
        · exact Rel.refl _
        · exact evalImportSets_unloc rest fuel sx _

theorem evalImport_unloc (fuel : Nat) (st : State) (sets : List ImportSet) (ρ : Nat) :
    Rel (evalImport fuel st (sets.map ImportSet.unloc) ρ) (evalImport fuel st sets ρ) := by
  cases fuel with
  | zero => rw [evalImport, evalImport]; exact ⟨rfl, rfl⟩
  | succ fuel =>
    rw [evalImport, evalImport]
    have h := evalImportSets_unloc sets fuel st []
    generalize evalImportSets fuel st (sets.map ImportSet.unloc) [] = x at h
    generalize evalImportSets fuel st sets [] = y at h
    obtain ⟨rx, sx⟩ := x
    obtain ⟨ry, sy⟩ := y
    obtain ⟨h1, h2⟩ := h
    simp only at h1
    subst h1
    cases rx <;> cases ry <;> simp_all [Rel, SameUpToLoc]

/-- THE STATE AN IMPORT DECLARATION LEAVES DOES NOT DEPEND ON THE POSITIONS IN ITS IMPORT SETS -/
theorem evalAst_import_unloc (fuel : Nat) (st : State) (sets : List ImportSet) (l : Loc) :
    (evalAst fuel st (.importDecl (sets.map ImportSet.unloc) l)).2 = (evalAst fuel st (.importDecl sets l)).2 := by
  unfold evalAst
  by_cases hi : st.importEnd = true
  · simp only [hi, Bool.not_true, Bool.false_eq_true, if_false, evalExprOrDef]
  · simp only [hi, Bool.not_false, if_true]
    have h := evalImport_unloc fuel st sets st.env
    generalize evalImport fuel st (sets.map ImportSet.unloc) st.env = x at h
    generalize evalImport fuel st sets st.env = y at h
    obtain ⟨rx, sx⟩ := x
    obtain ⟨ry, sy⟩ := y
    obtain ⟨h1, h2⟩ := h
    simp only at h1
    subst h1
    cases rx with
    | error e =>
      cases ry with
      | error e' => obtain ⟨k, p⟩ := e; obtain ⟨k', p'⟩ := e'; rfl
      | ok b => exact h2.elim
    | ok a =>
      cases ry with
      | error e' => exact h2.elim
      | ok b => rfl

/-! ## no position in the role of a library name -/

/-- no position of the list has the role `libname` -/
def NoLib (L : List RPos) : Prop := ∀ x ∈ L, x.1 ≠ Role.libname

theorem noLib_nil : NoLib [] := by simp [NoLib]

theorem noLib_append {a b : List RPos} : NoLib (a ++ b) ↔ NoLib a ∧ NoLib b := by
  simp only [NoLib, List.mem_append]
  exact ⟨fun h => ⟨fun x hx => h x (Or.inl hx), fun x hx => h x (Or.inr hx)⟩,
    fun h x hx => hx.elim (h.1 x) (h.2 x)⟩

theorem noLib_as {r : Role} (hr : r ≠ .libname) (l : Loc) : NoLib (l.as r) := by
  intro x hx
  simp only [Loc.as, List.mem_map] at hx
  obtain ⟨p, -, rfl⟩ := hx
  exact hr

theorem noLib_node (ps : List Pos) : NoLib (ps.map (fun p => (Role.node, p))) := by
  intro x hx
  simp only [List.mem_map] at hx
  obtain ⟨p, -, rfl⟩ := hx
  simp

theorem NoLib.subset {a b : List RPos} (hb : NoLib b) (h : a ⊆ b) : NoLib a := fun x hx => hb x (h hx)

mutual
theorem Expr.noLib : ∀ e : Expr, NoLib e.rlocs
  | .sym _ l => by
    rw [Expr.rlocs]; exact noLib_append.2 ⟨noLib_as (by simp) l, noLib_as (by simp) l⟩
  | .prim _ l => by rw [Expr.rlocs]; exact noLib_as (by simp) l
  | .assign _ e l => by
    rw [Expr.rlocs]
    exact noLib_append.2 ⟨noLib_as (by simp) l, noLib_append.2 ⟨noLib_as (by simp) l, Expr.noLib e⟩⟩
  | .lambda lam l => by rw [Expr.rlocs]; exact noLib_append.2 ⟨noLib_as (by simp) l, Lambda.noLib lam⟩
  | .call f args l => by
    rw [Expr.rlocs]
    exact noLib_append.2 ⟨noLib_as (by simp) l, noLib_append.2 ⟨noLib_as (by simp) _,
      noLib_append.2 ⟨Expr.noLib f, Expr.noLibList args⟩⟩⟩
  | .cond t c a l => by
    rw [Expr.rlocs]
    exact noLib_append.2 ⟨noLib_as (by simp) l, noLib_append.2 ⟨Expr.noLib t,
      noLib_append.2 ⟨Expr.noLib c, Expr.noLibOpt a⟩⟩⟩
  | .quote d l => by rw [Expr.rlocs]; exact noLib_append.2 ⟨noLib_as (by simp) l, noLib_node _⟩
  | .datum d l => by rw [Expr.rlocs]; exact noLib_append.2 ⟨noLib_as (by simp) l, noLib_node _⟩
theorem Expr.noLibOpt : ∀ e : Option Expr, NoLib (Expr.rlocsOpt e)
  | none => by rw [Expr.rlocsOpt]; exact noLib_nil
  | some e => by rw [Expr.rlocsOpt]; exact Expr.noLib e
theorem Expr.noLibList : ∀ es : List Expr, NoLib (Expr.rlocsList es)
  | [] => by rw [Expr.rlocsList]; exact noLib_nil
  | e :: es => by rw [Expr.rlocsList]; exact noLib_append.2 ⟨Expr.noLib e, Expr.noLibList es⟩
theorem Lambda.noLib : ∀ lam : Lambda, NoLib lam.rlocs
  | .mk _ defs body => by
    rw [Lambda.rlocs]; exact noLib_append.2 ⟨Def.noLibList defs, Expr.noLibList body⟩
theorem Def.noLib : ∀ d : Def, NoLib d.rlocs
  | .mk _ e l => by rw [Def.rlocs]; exact noLib_append.2 ⟨noLib_as (by simp) l, Expr.noLib e⟩
theorem Def.noLibList : ∀ ds : List Def, NoLib (Def.rlocsList ds)
  | [] => by rw [Def.rlocsList]; exact noLib_nil
  | d :: ds => by rw [Def.rlocsList]; exact noLib_append.2 ⟨Def.noLib d, Def.noLibList ds⟩
end

theorem ImportSet.unloc_locs : ∀ s : ImportSet, s.unloc.locs = []
  | .direct _ _ => rfl
  | .only s _ => by rw [ImportSet.unloc, ImportSet.locs]; exact ImportSet.unloc_locs s
  | .except s _ => by rw [ImportSet.unloc, ImportSet.locs]; exact ImportSet.unloc_locs s
  | .prefix s _ => by rw [ImportSet.unloc, ImportSet.locs]; exact ImportSet.unloc_locs s
  | .rename s _ => by rw [ImportSet.unloc, ImportSet.locs]; exact ImportSet.unloc_locs s

theorem rlocsList_unloc (sets : List ImportSet) : ImportSet.rlocsList (sets.map ImportSet.unloc) = [] := by
  unfold ImportSet.rlocsList
  rw [List.map_eq_nil_iff, List.flatMap_eq_nil_iff]
  intro s hs
  obtain ⟨t, -, rfl⟩ := List.mem_map.1 hs
  exact ImportSet.unloc_locs t

/-- `eval_ast` keeps the invariant: NO POSITION OF THE STATE HAS THE ROLE OF A LIBRARY NAME -/
theorem evalAst_noLib {fuel : Nat} {st st' : State} {s : Statement} {r : Except SErr (Option Value)}
    (h : evalAst fuel st s = (r, st')) (hst : NoLib st.rlocs) : NoLib st'.rlocs := by
  -- the general step: a statement without library-name positions
  have step : ∀ (s₀ : Statement) (r₀ : Except SErr (Option Value)), evalAst fuel st s₀ = (r₀, st') →
      NoLib s₀.rlocs → NoLib st'.rlocs := by
    intro s₀ r₀ h₀ hs₀
    have i := InterpLoc.evalAst_in (T := st.rlocs ++ s₀.rlocs) InterpLoc.factoryOfText_clean h₀
      (InterpLoc.stIn_iff.2 (List.subset_append_left _ _)) (List.subset_append_right _ _)
    exact (noLib_append.2 ⟨hst, hs₀⟩).subset (InterpLoc.stIn_iff.1 i.1)
  cases s with
  | expr e => exact step _ r h (by rw [Statement.rlocs]; exact Expr.noLib e)
  | definition d => exact step _ r h (by rw [Statement.rlocs]; exact Def.noLib d)
  | syntaxDef n rules l => exact step _ r h (by rw [Statement.rlocs]; exact noLib_as (by simp) l)
  | importDecl sets l =>
    have h2 := evalAst_import_unloc fuel st sets l
    rw [h] at h2
    refine step (.importDecl (sets.map ImportSet.unloc) l) (evalAst fuel st (.importDecl (sets.map ImportSet.unloc) l)).1
      (Prod.ext rfl h2) ?_
    rw [Statement.rlocs, rlocsList_unloc, List.append_nil]
    exact noLib_as (by simp) l
  | libraryDef n decls l =>
    have : st'.rlocs = st.rlocs := by
      unfold evalAst at h
      by_cases hi : st.importEnd = true
      · simp only [hi, Bool.not_true, Bool.false_eq_true, if_false, evalExprOrDef, Prod.mk.injEq] at h
        rw [← h.2]
      · simp only [hi, Bool.not_false, if_true, Prod.mk.injEq] at h
        rw [← h.2]
    rw [this]; exact hst

end Ruschm.LibNamePos

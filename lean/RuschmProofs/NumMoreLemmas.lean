/-
Helper lemmas for `C09More.lean` and `C10More.lean`: folds whose accumulator has become inexact, the
split of a fold at an inexact operand, `max`/`min` steps as the binary32 `fmax`/`fmin`, the meaning
`Cmp` of one comparison, and the native procedures on argument lists that are all numbers.
-/
import RuschmProofs.NumLemmas
import RuschmProofs.ErrLemmas
import RuschmSpec.NumMore

namespace Ruschm
namespace Num

/-! ### folds of a binary operation that dispatches on inexactness -/

/-- `op` is the binary32 operation `fop` on the converted operands as soon as one operand is inexact -/
def Contagious (op : Num → Num → Except Err Num) (fop : Float32 → Float32 → Float32) : Prop :=
  ∀ a y, a.isExact = false ∨ y.isExact = false → op a y = .ok (.real (fop a.toReal y.toReal))

theorem contagious_add : Contagious add (· + ·) := fun _ _ h => add_real h
theorem contagious_sub : Contagious sub (· - ·) := fun _ _ h => sub_real h
theorem contagious_mul : Contagious mul (· * ·) := fun _ _ h => mul_real h
theorem contagious_div : Contagious div (· / ·) := fun _ _ h => div_real h

/-- once the accumulator is inexact the rest of the fold is the pure binary32 fold; no error -/
theorem foldlM_real_acc {op : Num → Num → Except Err Num} {fop : Float32 → Float32 → Float32}
    (h : Contagious op fop) :
    ∀ (ys : List Num) (g : Float32), ys.foldlM op (.real g) = .ok (.real (realFold fop g ys))
  | [], _ => rfl
  | y :: ys, g => by
    rw [List.foldlM_cons, h (.real g) y (Or.inl rfl)]
    exact foldlM_real_acc h ys _

/-- the fold split at an inexact operand -/
theorem foldlM_split {op : Num → Num → Except Err Num} {fop : Float32 → Float32 → Float32}
    (h : Contagious op fop) (pre : List Num) {z : Num} (post : List Num) (init : Num)
    (hz : z.isExact = false) :
    (pre ++ z :: post).foldlM op init =
      (pre.foldlM op init >>= fun a => .ok (.real (realFold fop (fop a.toReal z.toReal) post))) := by
  rw [List.foldlM_append]
  congr 1; funext a
  rw [List.foldlM_cons, h a z (Or.inr hz)]
  exact foldlM_real_acc h post _

theorem foldlM_split_inexact_result {op : Num → Num → Except Err Num} {fop : Float32 → Float32 → Float32}
    (h : Contagious op fop) {xs : List Num} {init r : Num}
    (hx : init.isExact = false ∨ ∃ x ∈ xs, x.isExact = false) (hr : xs.foldlM op init = .ok r) :
    r.isExact = false := by
  rcases hx with hi | ⟨z, hz, ez⟩
  · cases init with
    | real g => rw [foldlM_real_acc h] at hr; cases hr; rfl
    | int i => cases hi
    | rat n d => cases hi
  · obtain ⟨pre, post, rfl⟩ := List.append_of_mem hz
    rw [foldlM_split h pre post init ez] at hr
    cases hp : pre.foldlM op init with
    | error e => rw [hp] at hr; cases hr
    | ok a => rw [hp] at hr; cases hr; rfl

theorem exists_split_of_inexact {xs : List Num} (h : ∃ x ∈ xs, x.isExact = false) :
    ∃ pre z post, xs = pre ++ z :: post ∧ z.isExact = false := by
  obtain ⟨z, hz, ez⟩ := h
  obtain ⟨pre, post, rfl⟩ := List.append_of_mem hz
  exact ⟨pre, z, post, rfl, ez⟩

theorem realFold_nil (op : Float32 → Float32 → Float32) (g : Float32) : realFold op g [] = g := rfl

theorem realFold_cons (op : Float32 → Float32 → Float32) (g : Float32) (y : Num) (ys : List Num) :
    realFold op g (y :: ys) = realFold op (op g y.toReal) ys := rfl

/-! ### `divAll`: the zero check on a list whose first inexact operand is known -/

theorem takeWhile_notReal_split {pre : List Num} {z : Num} (post : List Num)
    (hpre : ∀ y ∈ pre, y.isExact = true) (hz : z.isExact = false) :
    (pre ++ z :: post).takeWhile notReal = pre := by
  induction pre with
  | nil =>
    rw [List.nil_append, List.takeWhile_cons, notReal_eq_isExact, hz]; rfl
  | cons p pre ih =>
    rw [List.cons_append, List.takeWhile_cons, notReal_eq_isExact, hpre p (List.mem_cons_self ..)]
    simp only [if_true]
    rw [ih (fun y hy => hpre y (List.mem_cons_of_mem _ hy))]

/-- the divisors the zero check looks at, when `z` is the first inexact operand -/
theorem exactDivisors_split {x : Num} {pre : List Num} {z : Num} (post : List Num)
    (ex : x.isExact = true) (hpre : ∀ y ∈ pre, y.isExact = true) (hz : z.isExact = false) :
    exactDivisors (x :: (pre ++ z :: post)) = pre := by
  have hne : pre ++ z :: post ≠ [] := by simp
  rw [exactDivisors_cons hne]
  rw [notReal_eq_isExact, ex, takeWhile_notReal_split post hpre hz]; rfl

theorem exactDivisors_real_first (f : Float32) (ys : List Num) :
    (exactDivisors (.real f :: ys)).any isExactZero = false := by
  cases ys with
  | nil => rfl
  | cons y ys => rfl

/-- the fold of `/` over operands with positive denominators none of which is an exact zero returns -/
theorem foldlM_div_ok : ∀ (pre : List Num) (acc : Num), acc.PosDen → (∀ y ∈ pre, y.PosDen) →
    pre.any isExactZero = false → ∃ a, pre.foldlM div acc = .ok a
  | [], acc, _, _, _ => ⟨acc, rfl⟩
  | y :: pre, acc, ha, hp, hz => by
    rw [List.any_cons, Bool.or_eq_false_iff] at hz
    have hy := hp y (List.mem_cons_self ..)
    rcases div_cases ha hy with ⟨_, ey, n0, _⟩ | ⟨_, r, hr⟩
    · rw [isExactZero_iff.mpr ⟨ey, n0⟩] at hz; exact absurd hz.1 (by simp)
    · obtain ⟨a, h⟩ := foldlM_div_ok pre r (div_wf hr).posDen
        (fun m hm => hp m (List.mem_cons_of_mem _ hm)) hz.2
      exact ⟨a, by rw [List.foldlM_cons, hr]; exact h⟩

/-! ### `max` / `min` steps as binary32 `fmax` / `fmin` -/

theorem maxStep_fmax {a b : Num} (h : a.isExact = false ∨ b.isExact = false) :
    maxStep a b = .real (fmax a.toReal b.toReal) := by
  rw [maxStep_real h, gt_real h]; unfold fmax
  by_cases c : a.toReal > b.toReal <;> simp [c]

theorem minStep_fmin {a b : Num} (h : a.isExact = false ∨ b.isExact = false) :
    minStep a b = .real (fmin a.toReal b.toReal) := by
  rw [minStep_real h, lt_real h]; unfold fmin
  by_cases c : a.toReal < b.toReal <;> simp [c]

theorem foldl_real_acc {step : Num → Num → Num} {fop : Float32 → Float32 → Float32}
    (h : ∀ a b, a.isExact = false ∨ b.isExact = false → step a b = .real (fop a.toReal b.toReal)) :
    ∀ (ys : List Num) (g : Float32), ys.foldl step (.real g) = .real (realFold fop g ys)
  | [], _ => rfl
  | y :: ys, g => by
    rw [List.foldl_cons, h (.real g) y (Or.inl rfl)]
    exact foldl_real_acc h ys _

theorem foldl_split {step : Num → Num → Num} {fop : Float32 → Float32 → Float32}
    (h : ∀ a b, a.isExact = false ∨ b.isExact = false → step a b = .real (fop a.toReal b.toReal))
    (pre : List Num) {z : Num} (post : List Num) (init : Num) (hz : z.isExact = false) :
    (pre ++ z :: post).foldl step init =
      .real (realFold fop (fop (pre.foldl step init).toReal z.toReal) post) := by
  rw [List.foldl_append, List.foldl_cons, h _ z (Or.inr hz)]
  exact foldl_real_acc h post _

/-! ### the meaning of one comparison -/

theorem cmp_of {op : Num → Num → Bool} {R : Rat → Rat → Prop} {F : Float32 → Float32 → Prop}
    [∀ x y, Decidable (F x y)]
    (hex : ∀ {a b : Num} {x y : Rat}, a.PosDen → b.PosDen → a.val = some x → b.val = some y →
      (op a b = true ↔ R x y))
    (hre : ∀ {a b : Num}, a.isExact = false ∨ b.isExact = false →
      op a b = decide (F a.toReal b.toReal))
    {a b : Num} (pa : a.PosDen) (pb : b.PosDen) : op a b = true ↔ Cmp R F a b := by
  by_cases he : a.isExact = true ∧ b.isExact = true
  · obtain ⟨x, hx⟩ := isExact_val he.1
    obtain ⟨y, hy⟩ := isExact_val he.2
    have : Cmp R F a b = R x y := by unfold Cmp; rw [hx, hy]
    rw [this]; exact hex pa pb hx hy
  · have h : a.isExact = false ∨ b.isExact = false := by
      rcases Bool.eq_false_or_eq_true a.isExact with h1 | h1
      · rcases Bool.eq_false_or_eq_true b.isExact with h2 | h2
        · exact absurd ⟨h1, h2⟩ he
        · exact Or.inr h2
      · exact Or.inl h1
    have : Cmp R F a b = F a.toReal b.toReal := by
      cases a <;> cases b <;> first | rfl | (rcases h with h | h <;> cases h)
    rw [this, hre h]; exact decide_eq_true_iff

theorem cmpChain_cmp {op : Num → Num → Bool} {P : Num → Num → Prop}
    (hop : ∀ a b, a.PosDen → b.PosDen → (op a b = true ↔ P a b)) (xs : List Num)
    (hxs : ∀ x ∈ xs, x.PosDen) :
    cmpChain op xs = true ↔
      ∀ (i : Nat) (h : i + 1 < xs.length), P (xs[i]'(by omega)) (xs[i + 1]'h) := by
  rw [cmpChain_iff, adjacent_iff_index]
  constructor
  · intro H i h
    exact (hop _ _ (hxs _ (List.getElem_mem _)) (hxs _ (List.getElem_mem _))).mp (H i h)
  · intro H i h
    exact (hop _ _ (hxs _ (List.getElem_mem _)) (hxs _ (List.getElem_mem _))).mpr (H i h)

end Num

/-! ### the native procedures on argument lists that are all numbers -/

namespace Prim

theorem asReal_eq_toReal (n : Num) : asReal n = n.toReal := by cases n <;> rfl

theorem foldNum_nums (f : Num → Num → Except Err Num) : ∀ (ns : List Num) (init : Num),
    foldNum f init (ns.map Value.num) = ns.foldlM f init
  | [], _ => rfl
  | n :: ns, init => by
    show foldNum f init (.num n :: ns.map Value.num) = _
    have : foldNum f init (.num n :: ns.map Value.num) =
        (f init n >>= fun r => foldNum f r (ns.map Value.num)) := by
      simp only [foldNum, List.foldlM_cons, expectNumber]; rfl
    rw [this, List.foldlM_cons]
    congr 1; funext r
    exact foldNum_nums f ns r

theorem subDiv_nums (f : Num → Num → Except Err Num) (unit x : Num) (ys : List Num) :
    subDiv f unit ((x :: ys).map Value.num) =
      match ys with
      | [] => f unit x
      | y :: more => (f x y >>= fun i => more.foldlM f i) := by
  cases ys with
  | nil => rfl
  | cons y more =>
    show subDiv f unit (.num x :: .num y :: more.map Value.num) = _
    simp only [subDiv, expectNumber]
    show (f x y >>= fun init => foldNum f init (more.map Value.num)) = _
    congr 1; funext i
    exact foldNum_nums f more i

theorem exactPrefix_map_num : ∀ (pre : List Num),
    exactPrefix (pre.map Value.num) = pre.takeWhile Num.notReal
  | [] => rfl
  | n :: pre => by
    show exactPrefix (.num n :: pre.map Value.num) = _
    rw [exactPrefix, List.takeWhile_cons]
    cases n.notReal
    · rfl
    · simp only [if_true]; rw [exactPrefix_map_num pre]

theorem extremum_nums (step : Num → Num → Num) (x : Num) (ys : List Num) :
    extremum step ((x :: ys).map Value.num) = .ok (ys.foldl step x) := by
  show extremum step (.num x :: ys.map Value.num) = _
  simp only [extremum, expectNumber]
  show (ys.map Value.num).foldlM (fun a v => do let b ← expectNumber v; pure (step a b)) x = _
  induction ys generalizing x with
  | nil => rfl
  | cons y ys ih =>
    show (Value.num y :: ys.map Value.num).foldlM _ x = _
    simp only [List.foldlM_cons, expectNumber]
    exact ih (step x y)

end Prim
end Ruschm

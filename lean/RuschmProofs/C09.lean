/-
Property C09 — exact arithmetic is exact, inexactness is contagious.

"On exact operands (integers and ratios) +, -, *, / and abs return the mathematically exact result
as an exact number, division by exact zero is an error, and floor, ceiling, floor-quotient and
floor-remainder satisfy n = d*q + r with q the greatest integer not above n/d. An operation with
an inexact operand returns the binary32 result of the IEEE operation on the converted operands,
and an exact result that cannot be represented is never replaced by a different exact number."

Only property theorems live here (each is audited with `#print axioms`); every helper lemma is in
`RuschmProofs/NumLemmas.lean`. Vocabulary (`val`, `WF`, `DenPos`, `PosDen`, `Below`, `redNum`,
`redDen`, `toReal`, `IsOk`, `NoPanic`) is defined in `RuschmSpec/Num.lean`.

Hypotheses are the weakest under which the statement was proved:
* the soundness theorems need NO well-formedness hypothesis at all (a zero denominator makes
  `exactRatio` fail, so an `ok` result already implies non-zero denominators);
* "no panic" needs only positive denominators (`PosDen`);
* `floor_spec`/`ceiling_spec` need `DenPos` (positive denominator and `i32` components) so that
  the integer result is representable.
-/
import RuschmProofs.NumLemmas

namespace Ruschm.C09
open Ruschm

/-! ## 1. `exactRatio`, the only constructor of exact results -/

/-- An exact result of `exactRatio n d` has the value `n / d`. (`d ≠ 0` is not needed as a
hypothesis: it follows from the result being `ok`.) -/
theorem exactRatio_sound {n d : Int} {r : Num} (h : Num.exactRatio n d = .ok r)
    (hr : r.isExact = true) : r.val = some ((n : Rat) / (d : Rat)) :=
  Num.exactRatio_sound' h hr

example : Num.exactRatio 6 (-4) = .ok (.rat (-3) 2) ∧ (Num.rat (-3) 2).isExact = true :=
  ⟨rfl, rfl⟩

/-- Every result of `exactRatio` satisfies the representation invariant. -/
theorem exactRatio_wf {n d : Int} {r : Num} (h : Num.exactRatio n d = .ok r) : r.WF :=
  Num.exactRatio_wf' h

example : Num.exactRatio 6 (-4) = .ok (.rat (-3) 2) := rfl

/-- With a non-zero denominator `exactRatio` returns (it is the Rust division by
`gcd * signum(denominator)` that would panic). -/
theorem exactRatio_no_panic {n d : Int} (hd : d ≠ 0) : ∃ r, Num.exactRatio n d = .ok r :=
  Num.exactRatio_isOk hd

example : (-4 : Int) ≠ 0 := by decide

/-- ... and a zero denominator is the only way to reach the panic. -/
theorem exactRatio_panic_iff {n d : Int} :
    (∃ s, Num.exactRatio n d = .error (.panic s)) ↔ d = 0 := by
  constructor
  · rintro ⟨s, h⟩
    apply Classical.byContradiction; intro hd
    obtain ⟨r, hr⟩ := Num.exactRatio_isOk (n := n) hd
    rw [hr] at h; cases h
  · rintro rfl; exact ⟨_, Num.exactRatio_zero n⟩

example : Num.exactRatio 5 0 = .error (.panic "exact_ratio: zero denominator") := rfl

/-- Meaning of `redNum`/`redDen`: the representation of `n / d` in lowest terms with a positive
denominator. -/
theorem red_spec {n d : Int} (hd : d ≠ 0) :
    0 < Num.redDen n d ∧ Int.gcd (Num.redNum n d) (Num.redDen n d) = 1 ∧
      (Num.redNum n d : Rat) / (Num.redDen n d : Rat) = (n : Rat) / (d : Rat) :=
  ⟨Num.redDen_pos hd, Num.red_coprime hd, Num.red_val hd⟩

example : Num.redNum 6 (-4) = -3 ∧ Num.redDen 6 (-4) = 2 := ⟨rfl, rfl⟩

/-- The result is inexact exactly when the reduced numerator or denominator does not fit `i32`;
otherwise it is the integer (denominator 1) or the ratio in lowest terms. -/
theorem exactRatio_inexact_only_on_overflow {n d : Int} (hd : d ≠ 0) :
    ((∃ f, Num.exactRatio n d = .ok (.real f)) ↔
      ¬ (fitsI32 (Num.redNum n d) = true ∧ fitsI32 (Num.redDen n d) = true)) ∧
    (fitsI32 (Num.redNum n d) = true → fitsI32 (Num.redDen n d) = true →
      Num.exactRatio n d =
        .ok (if Num.redDen n d = 1 then .int (Num.redNum n d)
             else .rat (Num.redNum n d) (Num.redDen n d))) := by
  obtain ⟨r, hr⟩ := Num.exactRatio_isOk (n := n) hd
  obtain ⟨_, ⟨h1, h2, rfl⟩ | ⟨hn, rfl⟩⟩ := Num.exactRatio_cases hr
  · refine ⟨⟨?_, fun h => absurd ⟨h1, h2⟩ h⟩, fun _ _ => hr⟩
    rintro ⟨f, hf⟩
    rw [hr] at hf
    have := Num.mkExact_isExact (Num.redNum n d) (Num.redDen n d)
    injection hf with hf; rw [hf] at this; cases this
  · exact ⟨⟨fun _ => hn, fun _ => ⟨_, hr⟩⟩, fun h1 h2 => absurd ⟨h1, h2⟩ hn⟩

example : Num.exactRatio 2147483648 1 = .ok (.real (Num.ratToReal 2147483648 1)) := rfl

/-- Equivalent form: whenever the true quotient `n / d` *is* representable (some well-formed exact
`x` has that value), `exactRatio n d` returns exactly `x` — the inexact fallback is taken only
when no exact representation exists. -/
theorem exactRatio_complete {n d : Int} (hd : d ≠ 0) {x : Num} (hx : x.WF)
    (vx : x.val = some ((n : Rat) / (d : Rat))) : Num.exactRatio n d = .ok x :=
  Num.exactRatio_complete' hd hx vx

example : (Num.rat (-3) 2).WF ∧ (Num.rat (-3) 2).val = some (((6 : Int) : Rat) / ((-4 : Int) : Rat)) :=
  ⟨by decide, by norm_num [Num.val]⟩

/-- Well-formed exact numbers are canonical: equal value, equal representation. -/
theorem wf_canonical {x y : Num} (hx : x.WF) (hy : y.WF) {v : Rat}
    (vx : x.val = some v) (vy : y.val = some v) : x = y :=
  Num.wf_val_inj hx hy vx vy

example : (Num.rat 1 2).WF ∧ (Num.rat 1 2).val = some (1 / 2) :=
  ⟨by decide, by norm_num [Num.val]⟩

/-! ## 2. soundness: an exact result is the true result ("never a wrong exact number") -/

theorem add_sound {a b r : Num} {x y : Rat} (ha : a.val = some x) (hb : b.val = some y)
    (h : Num.add a b = .ok r) (hr : r.isExact = true) : r.val = some (x + y) :=
  Num.add_sound ha hb h hr

example : (Num.rat 1 2).val = some (1 / 2) ∧ (Num.rat 1 3).val = some (1 / 3) ∧
    Num.add (.rat 1 2) (.rat 1 3) = .ok (.rat 5 6) ∧ (Num.rat 5 6).isExact = true :=
  ⟨by norm_num [Num.val], by norm_num [Num.val], rfl, rfl⟩

theorem sub_sound {a b r : Num} {x y : Rat} (ha : a.val = some x) (hb : b.val = some y)
    (h : Num.sub a b = .ok r) (hr : r.isExact = true) : r.val = some (x - y) :=
  Num.sub_sound ha hb h hr

example : (Num.int 1).val = some 1 ∧ (Num.rat 1 3).val = some (1 / 3) ∧
    Num.sub (.int 1) (.rat 1 3) = .ok (.rat 2 3) ∧ (Num.rat 2 3).isExact = true :=
  ⟨by norm_num [Num.val], by norm_num [Num.val], rfl, rfl⟩

theorem mul_sound {a b r : Num} {x y : Rat} (ha : a.val = some x) (hb : b.val = some y)
    (h : Num.mul a b = .ok r) (hr : r.isExact = true) : r.val = some (x * y) :=
  Num.mul_sound ha hb h hr

example : (Num.rat 2 3).val = some (2 / 3) ∧ (Num.rat 3 2).val = some (3 / 2) ∧
    Num.mul (.rat 2 3) (.rat 3 2) = .ok (.int 1) ∧ (Num.int 1).isExact = true :=
  ⟨by norm_num [Num.val], by norm_num [Num.val], rfl, rfl⟩

theorem div_sound {a b r : Num} {x y : Rat} (ha : a.val = some x) (hb : b.val = some y)
    (h : Num.div a b = .ok r) (hr : r.isExact = true) : r.val = some (x / y) :=
  Num.div_sound ha hb h hr

example : (Num.int 1).val = some 1 ∧ (Num.int (-2)).val = some (-2) ∧
    Num.div (.int 1) (.int (-2)) = .ok (.rat (-1) 2) ∧ (Num.rat (-1) 2).isExact = true :=
  ⟨by norm_num [Num.val], by norm_num [Num.val], rfl, rfl⟩

theorem abs_sound {a r : Num} {x : Rat} (ha : a.val = some x)
    (h : Num.abs a = .ok r) (hr : r.isExact = true) : r.val = some |x| :=
  Num.abs_sound ha h hr

example : (Num.rat (-1) 2).val = some (-1 / 2) ∧
    Num.abs (.rat (-1) 2) = .ok (.rat 1 2) ∧ (Num.rat 1 2).isExact = true :=
  ⟨by norm_num [Num.val], rfl, rfl⟩

/-- An exact result can only come from exact operands (an inexact operand is contagious). -/
theorem exact_result_exact_operands {a b r : Num} (hr : r.isExact = true) :
    (Num.add a b = .ok r → a.isExact = true ∧ b.isExact = true) ∧
    (Num.sub a b = .ok r → a.isExact = true ∧ b.isExact = true) ∧
    (Num.mul a b = .ok r → a.isExact = true ∧ b.isExact = true) ∧
    (Num.div a b = .ok r → a.isExact = true ∧ b.isExact = true) :=
  ⟨fun h => Num.add_exact_inv h hr, fun h => Num.sub_exact_inv h hr,
   fun h => Num.mul_exact_inv h hr, fun h => Num.div_exact_inv h hr⟩

example : (Num.rat 5 6).isExact = true ∧ Num.add (.rat 1 2) (.rat 1 3) = .ok (.rat 5 6) :=
  ⟨rfl, rfl⟩

/-- The representation invariant holds for every result of every operation, whatever the operands
(`floor`/`ceiling` return an integer operand unchanged, so they need it of the operand). Hence
`WF` is an invariant of any sequence of operations. -/
theorem ops_wf {a b r : Num} :
    (Num.add a b = .ok r → r.WF) ∧ (Num.sub a b = .ok r → r.WF) ∧
    (Num.mul a b = .ok r → r.WF) ∧ (Num.div a b = .ok r → r.WF) ∧
    (Num.abs a = .ok r → r.WF) ∧
    (a.WF → Num.floor a = .ok r → r.WF) ∧ (a.WF → Num.ceiling a = .ok r → r.WF) ∧
    (Num.floorQuotient a b = .ok r → r.WF) ∧ (Num.floorRemainder a b = .ok r → r.WF) :=
  ⟨Num.add_wf, Num.sub_wf, Num.mul_wf, Num.div_wf, Num.abs_wf, Num.floor_wf, Num.ceiling_wf,
   Num.floorQuotient_wf, Num.floorRemainder_wf⟩

example : Num.add (.int 2147483647) (.int 1) = .ok (.real (Num.ratToReal 2147483648 1)) ∧
    Num.div (.int 6) (.int 4) = .ok (.rat 3 2) := ⟨rfl, rfl⟩

/-- n-ary `+`: the result is well-formed (no hypothesis on the arguments). -/
theorem addAll_wf {xs : List Num} {r : Num} (h : Num.addAll xs = .ok r) : r.WF :=
  Num.foldlM_wf (fun _ _ _ => Num.add_wf) xs (.int 0) r (by decide) h

example : Num.addAll [.rat 1 2, .rat 1 3, .rat 1 6] = .ok (.int 1) := rfl

/-- n-ary `*`. -/
theorem mulAll_wf {xs : List Num} {r : Num} (h : Num.mulAll xs = .ok r) : r.WF :=
  Num.foldlM_wf (fun _ _ _ => Num.mul_wf) xs (.int 1) r (by decide) h

example : Num.mulAll [.rat 1 2, .int 4, .rat 1 6] = .ok (.rat 1 3) := rfl

/-- n-ary `-` and `/` (the `/` of `base.rs`, i.e. `divAll` with its check for an exact zero divisor among
exact operands: a result it returns is a result of the plain fold, so it is well-formed). -/
theorem subAll_divAll_wf {xs : List Num} {r : Num} :
    (Num.subAll xs = .ok r → r.WF) ∧ (Num.divAll xs = .ok r → r.WF) := by
  constructor
  · intro h
    match xs, h with
    | [x], h => exact Num.sub_wf h
    | x :: y :: rest, h =>
      have h' : (Num.sub x y >>= fun i => rest.foldlM Num.sub i) = .ok r := h
      cases hs : Num.sub x y with
      | error e => rw [hs] at h'; cases h'
      | ok i =>
        rw [hs] at h'
        exact Num.foldlM_wf (fun _ _ _ => Num.sub_wf) rest i r (Num.sub_wf hs) h'
  · intro h
    unfold Num.divAll at h
    split at h
    · cases h
    · exact Num.divFold_wf h

example : Num.subAll [.rat 1 2, .rat 1 3, .rat 1 6] = .ok (.int 0) ∧
    Num.divAll [.int 1, .int 2, .int 3] = .ok (.rat 1 6) ∧
    (∃ f, Num.divAll [.int 2147483647, .rat 1 2, .real 0] = .ok (.real f)) := ⟨rfl, rfl, _, rfl⟩

/-- n-ary `+` and `*` on arguments with positive denominators always return. -/
theorem addAll_mulAll_ok {xs : List Num} (hxs : ∀ x ∈ xs, x.PosDen) :
    (∃ r, Num.addAll xs = .ok r ∧ r.WF) ∧ (∃ r, Num.mulAll xs = .ok r ∧ r.WF) := by
  obtain ⟨r, hr⟩ := Num.foldlM_isOk (fun _ _ _ => Num.add_wf) (fun _ _ => Num.add_isOk)
    xs (.int 0) trivial hxs
  obtain ⟨s, hs⟩ := Num.foldlM_isOk (fun _ _ _ => Num.mul_wf) (fun _ _ => Num.mul_isOk)
    xs (.int 1) trivial hxs
  exact ⟨⟨r, hr, addAll_wf hr⟩, ⟨s, hs, mulAll_wf hs⟩⟩

example : ∀ x ∈ [Num.rat 1 2, .int 4, .real 0], x.PosDen := by
  simp [Num.PosDen]

/-- An exact result of n-ary `+` is the sum of the values of the arguments (which then were all
exact); likewise for `*`. -/
theorem addAll_mulAll_sound {xs : List Num} {r : Num} (hr : r.isExact = true) :
    (Num.addAll xs = .ok r →
      (∀ x ∈ xs, x.isExact = true) ∧
        r.val = some (xs.foldl (fun acc x => acc + x.valD) 0)) ∧
    (Num.mulAll xs = .ok r →
      (∀ x ∈ xs, x.isExact = true) ∧
        r.val = some (xs.foldl (fun acc x => acc * x.valD) 1)) := by
  constructor
  · intro h
    obtain ⟨_, h1, h2⟩ := Num.foldlM_add_sound xs (.int 0) r h hr
    refine ⟨h1, ?_⟩
    rw [h2]; simp [Num.valD, Num.val]
  · intro h
    obtain ⟨_, h1, h2⟩ := Num.foldlM_mul_sound xs (.int 1) r h hr
    refine ⟨h1, ?_⟩
    rw [h2]; simp [Num.valD, Num.val]

example : Num.addAll [.rat 1 2, .rat 1 3, .rat 1 6] = .ok (.int 1) ∧ (Num.int 1).isExact = true :=
  ⟨rfl, rfl⟩

/-- On operands with positive denominators no operation panics: `+ - * abs floor ceiling` return,
`/`, floor-quotient and floor-remainder return or report `divZero`. -/
theorem ops_no_panic {a b : Num} (pa : a.PosDen) (pb : b.PosDen) :
    Num.IsOk (Num.add a b) ∧ Num.IsOk (Num.sub a b) ∧ Num.IsOk (Num.mul a b) ∧
    Num.IsOk (Num.abs a) ∧ Num.IsOk (Num.floor a) ∧ Num.IsOk (Num.ceiling a) ∧
    (Num.IsOk (Num.div a b) ∨ Num.div a b = .error .divZero) ∧
    (Num.IsOk (Num.floorQuotient a b) ∨ Num.floorQuotient a b = .error .divZero) ∧
    (Num.IsOk (Num.floorRemainder a b) ∨ Num.floorRemainder a b = .error .divZero) := by
  refine ⟨Num.add_isOk pa pb, Num.sub_isOk pa pb, Num.mul_isOk pa pb, Num.abs_isOk pa,
    Num.floor_isOk pa, Num.ceiling_isOk pa, ?_, Num.floorQuotient_cases pa pb,
    Num.floorRemainder_cases pa pb⟩
  rcases Num.div_cases pa pb with ⟨_, _, _, h⟩ | ⟨_, h⟩
  · exact Or.inr h
  · exact Or.inl h

example : (Num.rat (-7) 2).PosDen ∧ (Num.int 0).PosDen := ⟨by decide, trivial⟩

/-! ## 3. completeness below 2^15 (no overflow fallback) -/

/-- For exact operands with positive denominators whose components are all below `2^15` in absolute
value, `+ - *` (and `/` for a non-zero divisor) return an EXACT result — by the soundness theorems
the true value. (Products are below `2^30`, sums of two products below `2^31`.) -/
theorem exact_ops_complete {a b : Num} (ea : a.isExact = true) (eb : b.isExact = true)
    (pa : a.PosDen) (pb : b.PosDen) (ba : a.Below 32768) (bb : b.Below 32768) :
    (∃ r, Num.add a b = .ok r ∧ r.isExact = true) ∧
    (∃ r, Num.sub a b = .ok r ∧ r.isExact = true) ∧
    (∃ r, Num.mul a b = .ok r ∧ r.isExact = true) ∧
    (b.num ≠ 0 → ∃ r, Num.div a b = .ok r ∧ r.isExact = true) :=
  ⟨Num.add_complete ea eb pa pb ba bb, Num.sub_complete ea eb pa pb ba bb,
   Num.mul_complete ea eb pa pb (ba.mono (by decide)) (bb.mono (by decide)),
   Num.div_complete ea eb pa pb (ba.mono (by decide)) (bb.mono (by decide))⟩

example : (Num.rat 32767 32766).isExact = true ∧ (Num.rat 32767 32766).PosDen ∧
    (Num.rat 32767 32766).Below 32768 ∧ (Num.rat 32767 32766).num ≠ 0 :=
  ⟨rfl, by decide, by decide, by decide⟩

/-- For `*` and `/` the bound can be raised to `46341` (`46340² ≤ 2^31 - 1 < 46341²`). -/
theorem mul_div_complete_46340 {a b : Num} (ea : a.isExact = true) (eb : b.isExact = true)
    (pa : a.PosDen) (pb : b.PosDen) (ba : a.Below 46341) (bb : b.Below 46341) :
    (∃ r, Num.mul a b = .ok r ∧ r.isExact = true) ∧
    (b.num ≠ 0 → ∃ r, Num.div a b = .ok r ∧ r.isExact = true) :=
  ⟨Num.mul_complete ea eb pa pb ba bb, Num.div_complete ea eb pa pb ba bb⟩

example : (Num.int 46340).Below 46341 ∧ (Num.int 46340).PosDen := ⟨by decide, trivial⟩

/-- Some bound is necessary, and `46341` is sharp for `*`: beyond it the result overflows into an
inexact number (never into a wrong exact one). For `+` on reduced ratios the threshold lies
slightly above `2^15` (`32768² + 32767² < 2^31`), so `2^15` is sufficient but not sharp. -/
theorem complete_bounds_witness :
    (∃ f, Num.mul (.int 46341) (.int 46341) = .ok (.real f)) ∧
    (∃ f, Num.add (.rat 46341 46340) (.rat 46341 46339) = .ok (.real f)) :=
  ⟨⟨_, rfl⟩, ⟨_, rfl⟩⟩

/-- The sharpest form of completeness: whenever the true result IS representable (some well-formed
exact `x` has that value) the operation returns exactly `x`. Together with the soundness theorems:
the result is exact iff the true result is representable, and then it is the canonical
representation of the true result; the inexact fallback is taken only for unrepresentable
results. -/
theorem exact_ops_complete_repr {a b x : Num} {va vb : Rat} (pa : a.PosDen) (pb : b.PosDen)
    (ha : a.val = some va) (hb : b.val = some vb) (hx : x.WF) :
    (x.val = some (va + vb) → Num.add a b = .ok x) ∧
    (x.val = some (va - vb) → Num.sub a b = .ok x) ∧
    (x.val = some (va * vb) → Num.mul a b = .ok x) ∧
    (vb ≠ 0 → x.val = some (va / vb) → Num.div a b = .ok x) ∧
    (x.val = some |va| → Num.abs a = .ok x) :=
  ⟨Num.add_repr pa pb ha hb hx, Num.sub_repr pa pb ha hb hx, Num.mul_repr pa pb ha hb hx,
   fun h0 => Num.div_repr pa pb ha hb h0 hx, Num.abs_repr pa ha hx⟩

example : (Num.int 2147483647).PosDen ∧ (Num.rat 1 2147483647).PosDen ∧
    (Num.int 1).WF ∧ Num.mul (.int 2147483647) (.rat 1 2147483647) = .ok (.int 1) :=
  ⟨by decide, by decide, by decide, rfl⟩

/-! ## 4. division by an exact zero -/

/-- Division of an exact number by an exact zero is `divZero` (any representation of zero, integer
or ratio branch), including the one-argument form `(/ x)`. -/
theorem div_exact_zero {a b : Num} (ea : a.isExact = true) (hb : b.val = some 0) :
    Num.div a b = .error .divZero ∧ Num.divAll [b] = .error .divZero := by
  refine ⟨Num.div_exact_zero ea hb, ?_⟩
  unfold Num.divAll
  split
  · rfl
  · exact Num.div_exact_zero (a := .int 1) rfl hb

example : (Num.rat 1 2).isExact = true ∧ (Num.int 0).val = some 0 :=
  ⟨rfl, by norm_num [Num.val]⟩

/-- The n-ary `/`, an exact zero divisor AT ANY POSITION: if every operand is exact and some divisor (an operand
after the first, or the single operand of `(/ z)`) is an exact zero - an integer or a ratio with numerator 0 -, the
result is `divZero`. There is NO bound on the magnitudes: the running quotient may have left the `i32` range and be
carried on as a real (where the plain fold `divFold` would go on to return an infinity or a NaN). -/
theorem div_exact_zero_any_position {xs : List Num} (hxs : ∀ x ∈ xs, x.isExact = true)
    (hz : (∃ z ∈ xs.tail, z.num = 0) ∨ (∃ z, xs = [z] ∧ z.num = 0)) :
    Num.divAll xs = .error .divZero := by
  apply Num.divAll_of_guard
  rw [Num.guard_iff]
  rcases hz with ⟨z, hz, nz⟩ | ⟨z, rfl, nz⟩
  · right
    match xs, hz with
    | x :: ys, hz =>
      obtain ⟨pre, post, rfl⟩ := List.append_of_mem (show z ∈ ys from hz)
      exact ⟨x, pre, z, post, rfl, hxs x (by simp), fun y hy => hxs y (by simp [hy]), hxs z (by simp), nz⟩
  · exact Or.inl ⟨z, rfl, hxs z (by simp), nz⟩

example : (∀ x ∈ [Num.int 2147483647, .rat 1 2, .int 0], x.isExact = true) ∧
    (∃ z ∈ [Num.int 2147483647, .rat 1 2, .int 0].tail, z.num = 0) ∧
    Num.divAll [.int 2147483647, .rat 1 2, .int 0] = .error .divZero ∧
    (∃ f, Num.divFold [.int 2147483647, .rat 1 2, .int 0] = .ok (.real f)) :=
  ⟨by simp [Num.isExact], ⟨.int 0, by simp, rfl⟩, rfl, _, rfl⟩

/-- The same with the weakest hypothesis: only the operands BEFORE the zero divisor need be exact; what follows it
is arbitrary (also inexact). -/
theorem div_exact_zero_after_exact_prefix {x z : Num} {pre : List Num} (post : List Num) (ex : x.isExact = true)
    (epre : ∀ y ∈ pre, y.isExact = true) (ez : z.isExact = true) (nz : z.num = 0) :
    Num.divAll (x :: (pre ++ z :: post)) = .error .divZero :=
  Num.divAll_of_guard ((Num.guard_iff _).mpr (Or.inr ⟨x, pre, z, post, rfl, ex, epre, ez, nz⟩))

example : Num.divAll [.int 2147483647, .rat 1 2, .rat 0 7, .real 1.5] = .error .divZero := rfl

/-- Meaning of the check `divAll` makes before folding (`exactDivisors`, `isExactZero`): it fires exactly when the
single operand of `(/ z)` is an exact zero, or an operand after the first is an exact zero and every operand before
it is exact. (An inexact operand ends the check: from there on every quotient is a real by contagion.) -/
theorem exact_zero_divisor_iff (xs : List Num) :
    (Num.exactDivisors xs).any Num.isExactZero = true ↔
      (∃ z, xs = [z] ∧ z.isExact = true ∧ z.num = 0) ∨
      (∃ x pre z post, xs = x :: (pre ++ z :: post) ∧ x.isExact = true ∧ (∀ y ∈ pre, y.isExact = true) ∧
        z.isExact = true ∧ z.num = 0) :=
  Num.guard_iff xs

example : (Num.exactDivisors [.int 1, .real 2, .int 0]).any Num.isExactZero = false ∧
    (Num.exactDivisors [.int 0, .int 2]).any Num.isExactZero = false ∧
    (Num.exactDivisors [.int 1, .int 2, .rat 0 3, .real 2]).any Num.isExactZero = true := ⟨rfl, rfl, rfl⟩

/-- Conversely `divZero` is reported only then: with positive denominators `/` returns unless both
operands are exact and the divisor is zero. -/
theorem div_no_error {a b : Num} (pa : a.PosDen) (pb : b.PosDen) (hb : b.val ≠ some 0) :
    ∃ r, Num.div a b = .ok r := by
  rcases Num.div_cases pa pb with ⟨_, eb, h0, _⟩ | ⟨_, h⟩
  · exact absurd ((Num.val_zero_iff pb eb).mpr h0) hb
  · exact h

example : (Num.int 3).PosDen ∧ (Num.rat (-1) 2).PosDen ∧ (Num.rat (-1) 2).val ≠ some 0 :=
  ⟨trivial, by decide, by norm_num [Num.val]⟩

/-! ## 5. floor, ceiling, floor-quotient, floor-remainder -/

/-- `floor` of an exact number (positive denominator, `i32` components) is the integer `q` with
`q ≤ x < q + 1`, i.e. `q = ⌊x⌋`, the greatest integer not above `x`; it is always representable,
so never inexact. -/
theorem floor_spec {x : Num} {v : Rat} (hx : x.DenPos) (hv : x.val = some v) :
    ∃ q : Int, Num.floor x = .ok (.int q) ∧ fitsI32 q = true ∧
      (q : Rat) ≤ v ∧ v < (q : Rat) + 1 ∧ q = ⌊v⌋ ∧ ∀ m : Int, (m : Rat) ≤ v → m ≤ q := by
  obtain ⟨q, h1, h2, h3, h4⟩ := Num.floor_spec hx hv
  exact ⟨q, h1, h2, h3, h4, (Int.floor_eq_iff.mpr ⟨h3, h4⟩).symm,
    fun m hm => Num.int_le_of_lt_add_one hm h4⟩

example : (Num.rat (-1) 2).DenPos ∧ (Num.rat (-1) 2).val = some (-1 / 2) ∧
    Num.floor (.rat (-1) 2) = .ok (.int (-1)) :=
  ⟨by decide, by norm_num [Num.val], rfl⟩

/-- `ceiling`: the integer `q` with `q - 1 < x ≤ q`, i.e. `q = ⌈x⌉`. -/
theorem ceiling_spec {x : Num} {v : Rat} (hx : x.DenPos) (hv : x.val = some v) :
    ∃ q : Int, Num.ceiling x = .ok (.int q) ∧ fitsI32 q = true ∧
      (q : Rat) - 1 < v ∧ v ≤ (q : Rat) ∧ q = ⌈v⌉ := by
  obtain ⟨q, h1, h2, h3, h4⟩ := Num.ceiling_spec hx hv
  exact ⟨q, h1, h2, h3, h4, (Int.ceil_eq_iff.mpr ⟨h3, h4⟩).symm⟩

example : (Num.rat 1 2).DenPos ∧ (Num.rat 1 2).val = some (1 / 2) ∧
    Num.ceiling (.rat 1 2) = .ok (.int 1) :=
  ⟨by decide, by norm_num [Num.val], rfl⟩

/-- Exact floor-quotient `q` and floor-remainder `r` of exact `n`, `d`: `q` is an integer `k`,
`n = d·k + r`, `k = ⌊n / d⌋` is the greatest integer not above `n / d`, and the remainder has the
sign of the divisor and is smaller in magnitude. (No well-formedness hypothesis: `d ≠ 0` follows
from the quotient being `ok`.) -/
theorem floorq_floorr {n d q r : Num} {vn vd : Rat} (hn : n.val = some vn) (hd : d.val = some vd)
    (hq : Num.floorQuotient n d = .ok q) (hr : Num.floorRemainder n d = .ok r)
    (eq : q.isExact = true) (er : r.isExact = true) :
    ∃ (k : Int) (vr : Rat), q = .int k ∧ r.val = some vr ∧ vd ≠ 0 ∧
      vn = vd * (k : Rat) + vr ∧ (k : Rat) ≤ vn / vd ∧ vn / vd < (k : Rat) + 1 ∧
      k = ⌊vn / vd⌋ ∧ (∀ m : Int, (m : Rat) ≤ vn / vd → m ≤ k) ∧
      (0 < vd → 0 ≤ vr ∧ vr < vd) ∧ (vd < 0 → vd < vr ∧ vr ≤ 0) := by
  obtain ⟨k, vr, h1, h2, h3, h4, h5, h6, h7⟩ := Num.floorq_floorr hn hd hq hr eq er
  obtain ⟨r1, r2⟩ := Num.rem_range h4 h5 h6
  exact ⟨k, vr, h1, h2, h3, h4, h5, h6, (Int.floor_eq_iff.mpr ⟨h5, h6⟩).symm, h7, r1, r2⟩

example : (Num.rat (-7) 2).val = some (-7 / 2) ∧ (Num.rat 2 3).val = some (2 / 3) ∧
    Num.floorQuotient (.rat (-7) 2) (.rat 2 3) = .ok (.int (-6)) ∧
    Num.floorRemainder (.rat (-7) 2) (.rat 2 3) = .ok (.rat 1 2) :=
  ⟨by norm_num [Num.val], by norm_num [Num.val], rfl, rfl⟩

/-- The integer case (`floor/`, `floor-quotient`, `floor-remainder`, `modulo`): for `|n|, |d| < 2^30`
and `d ≠ 0` both results ARE exact integers, `⌊n/d⌋` and `n - d·⌊n/d⌋`. (Near the `i32` limits the
intermediate product `q·d` may overflow, e.g. `n = 2^31-1`, `d = -2^31`, and the remainder becomes
inexact — never a wrong exact number, by `floorq_floorr`.) -/
theorem floorq_floorr_int {n d : Int} (hn : n.natAbs < 1073741824) (hd : d.natAbs < 1073741824)
    (d0 : d ≠ 0) :
    Num.floorQuotient (.int n) (.int d) = .ok (.int ⌊(n : Rat) / (d : Rat)⌋) ∧
    Num.floorRemainder (.int n) (.int d) = .ok (.int (n - d * ⌊(n : Rat) / (d : Rat)⌋)) :=
  Num.floorq_floorr_int (by omega) (by omega) d0

example : Num.floorQuotient (.int (-7)) (.int 2) = .ok (.int (-4)) ∧
    Num.floorRemainder (.int (-7)) (.int 2) = .ok (.int 1) ∧
    Num.floorRemainder (.int 7) (.int (-2)) = .ok (.int (-1)) := ⟨rfl, rfl, rfl⟩

/-- Witness for the remark above: at the `i32` limits the remainder overflows into an inexact
number. -/
theorem floorr_overflow_witness :
    ∃ f, Num.floorRemainder (.int 2147483647) (.int (-2147483648)) = .ok (.real f) := ⟨_, rfl⟩

/-! ## 6. inexact contagion -/

/-- If either operand is inexact the result is the binary32 operation on the converted operands
(`Float32.ofInt i`, `ofInt n / ofInt d`, identity) — for whatever the host's IEEE arithmetic is. -/
theorem inexact_contagion {a b : Num} (h : a.isExact = false ∨ b.isExact = false) :
    Num.add a b = .ok (.real (a.toReal + b.toReal)) ∧
    Num.sub a b = .ok (.real (a.toReal - b.toReal)) ∧
    Num.mul a b = .ok (.real (a.toReal * b.toReal)) ∧
    Num.div a b = .ok (.real (a.toReal / b.toReal)) :=
  ⟨Num.add_real h, Num.sub_real h, Num.mul_real h, Num.div_real h⟩

example : (Num.rat 1 2).isExact = false ∨ (Num.real 0.5).isExact = false := Or.inr rfl

/-- Unary operations on an inexact number are the binary32 operations. -/
theorem inexact_unary (f : Float32) :
    Num.abs (.real f) = .ok (.real f.abs) ∧ Num.floor (.real f) = .ok (.real f.floor) ∧
    Num.ceiling (.real f) = .ok (.real f.ceil) :=
  ⟨rfl, rfl, rfl⟩

/-! ## 7. the n-ary builtins are left folds of the binary operations -/

theorem addAll_eq_fold (xs : List Num) : Num.addAll xs = xs.foldlM Num.add (.int 0) := rfl

theorem mulAll_eq_fold (xs : List Num) : Num.mulAll xs = xs.foldlM Num.mul (.int 1) := rfl

/-- `(- x)` is `0 - x`; `(- x y z ...)` folds from `x`. -/
theorem subAll_eq_fold (x : Num) (ys : List Num) :
    Num.subAll [x] = Num.sub (.int 0) x ∧
    (ys ≠ [] → Num.subAll (x :: ys) = ys.foldlM Num.sub x) := by
  refine ⟨rfl, fun h => ?_⟩
  cases ys with
  | nil => exact absurd rfl h
  | cons y rest => rw [List.foldlM_cons]; rfl

/-- The plain fold of `/`: `(/ x)` is `1 / x`; `(/ x y z ...)` folds from `x`. -/
theorem divFold_eq_fold (x : Num) (ys : List Num) :
    Num.divFold [x] = Num.div (.int 1) x ∧
    (ys ≠ [] → Num.divFold (x :: ys) = ys.foldlM Num.div x) :=
  ⟨rfl, Num.divFold_cons x⟩

/-- The builtin `/` is that fold unless the check for an exact zero divisor among exact operands fires (see
`exact_zero_divisor_iff` for its meaning), and `divZero` when it fires. Conversely it agrees with the fold exactly
when the check does not fire or the fold is `divZero` itself, and it is `divZero` exactly when the check fires or the
fold is `divZero`. -/
theorem divAll_eq_fold (xs : List Num) :
    ((Num.exactDivisors xs).any Num.isExactZero = false → Num.divAll xs = Num.divFold xs) ∧
    ((Num.exactDivisors xs).any Num.isExactZero = true → Num.divAll xs = .error .divZero) ∧
    (Num.divAll xs = Num.divFold xs ↔
      ((Num.exactDivisors xs).any Num.isExactZero = false ∨ Num.divFold xs = .error .divZero)) ∧
    (Num.divAll xs = .error .divZero ↔
      ((Num.exactDivisors xs).any Num.isExactZero = true ∨ Num.divFold xs = .error .divZero)) := by
  refine ⟨Num.divAll_of_not_guard, Num.divAll_of_guard, ?_, ?_⟩
  · cases hg : (Num.exactDivisors xs).any Num.isExactZero with
    | false => simp [Num.divAll_of_not_guard hg]
    | true =>
      rw [Num.divAll_of_guard hg]
      constructor
      · intro h; exact Or.inr h.symm
      · rintro (h | h)
        · cases h
        · exact h.symm
  · cases hg : (Num.exactDivisors xs).any Num.isExactZero with
    | false => simp [Num.divAll_of_not_guard hg]
    | true => simp [Num.divAll_of_guard hg]

example : Num.subAll [.int 10, .int 3, .rat 1 2] = .ok (.rat 13 2) ∧
    Num.divAll [.int 2] = .ok (.rat 1 2) ∧ Num.divFold [.int 2] = .ok (.rat 1 2) ∧
    (Num.exactDivisors [.int 2147483647, .rat 1 2, .int 0]).any Num.isExactZero = true ∧
    Num.divAll [.int 2147483647, .rat 1 2, .int 0] = .error .divZero ∧
    (Num.exactDivisors [.real 1, .int 0]).any Num.isExactZero = false ∧
    (∃ f, Num.divAll [.real 1, .int 0] = .ok (.real f)) := ⟨rfl, rfl, rfl, rfl, rfl, rfl, _, rfl⟩

/-- The two differ only after an overflow: when the builtin `/` is not the plain fold, the fold carried a quotient
that had left the exact range on to an exact zero divisor and returned a real, and the builtin reports `divZero`.
(`div` never panics, its only error is `divZero`.) -/
theorem divAll_differs_only_on_overflow {xs : List Num} (h : Num.divAll xs ≠ Num.divFold xs) :
    Num.divAll xs = .error .divZero ∧ ∃ f, Num.divFold xs = .ok (.real f) :=
  Num.divAll_ne_divFold h

example : Num.divAll [.int 2147483647, .rat 1 2, .int 0] ≠ Num.divFold [.int 2147483647, .rat 1 2, .int 0] := by
  intro h; cases h

end Ruschm.C09

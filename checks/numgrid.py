"""Operand grid and oracles shared by C09 (arithmetic) and C10 (comparison)."""
from fractions import Fraction
import itertools, math
from . import common as C

INTS = ["0", "1", "-1", "2", "-2", "3", "7", "-7", "10", "100", "32767", "-32768", "32768", "46340", "46341",
        "-46341", "65536", "641", "6700417", "16777216", "16777217", "-16777217", "2147483646", "2147483647", "-2147483647", "-2147483648"]
RATS = ["1/2", "-1/2", "1/3", "2/3", "-2/3", "3/2", "-7/3", "22/7", "1/32767", "32767/32768", "1/65536",
        "65537/65536", "2147483647/2", "1/2147483647", "-2147483648/3", "1/641", "1/6700417", "4/2", "6/4", "0/5",
        "16666667/50000000", "2/4294967294", "1/4294967295", "1/2147483648", "7/13", "31/7", "-13/11", "15/19", "(/ 1 -2)", "(+ 1/2 1/2)", "(/ 6 4)", "(- 1/2 1/2)", "(* 2/3 3/2)", "(/ -3 -6)"]
REALS = ["0.0", "-0.0", "1.0", "-1.0", "0.5", "1.5", "-1.5", "2.5", "-2.5", "0.1", "1e10", "1e-10", "3.4e38", "1e39",
         "-1e39", "(/ 0. 0.)", "16777216.0", "-16777216.0", "0.25", "0.33333334", "16777217.0", "2147483648.0", "-2147483648.0", "2147483520.0",
         "-2147483904.0", "1e-45", "3.5", "-3.5", "1e2",
         # the binary32 quotients of fractions of the grid: equal to those fractions once they are converted
         "(/ 7. 13)", "(/ 31. 7)", "(/ -13. 11)", "(/ 15. 19)"]
OPERANDS = INTS + RATS + REALS
SMALL = ["0", "1", "-1", "2", "-7", "32768", "2147483647", "-2147483648", "1/2", "-1/2", "2/3", "(/ 1 -2)", "(+ 1/2 1/2)",
         "22/7", "0.0", "-0.0", "1.5", "-2.5", "(/ 0. 0.)", "1e39"]

# operands whose order changes (or collapses) under rounding to binary32: all triples of these run in every tier, so that
# an exact operand carried along an n-ary chain/fold in converted form is seen
ROUND = ["16777216.0", "16777217", "16777216", "-16777217", "-16777216.0", "2147483646", "2147483647", "2147483648.0",
         "1/3", "16666667/50000000", "0.33333334", "0.25", "1.0", "1"]
assert all(x in OPERANDS for x in ROUND)

I32_MIN, I32_MAX = -2**31, 2**31 - 1


def fits(x):
    return I32_MIN <= x <= I32_MAX


def exact_of(canon):
    """canonical number -> Fraction, or None for a real / non-number"""
    if canon.startswith("i:"):
        return Fraction(int(canon[2:]))
    if canon.startswith("q:"):
        n, d = canon[2:].split("/")
        if int(d) == 0:
            return None
        return Fraction(int(n), int(d))
    return None


def is_wf_exact(canon):
    """the representation invariant of exact results: in range, positive reduced denominator != 1"""
    if canon.startswith("i:"):
        return fits(int(canon[2:]))
    if canon.startswith("q:"):
        n, d = map(int, canon[2:].split("/"))
        return fits(n) and fits(d) and d > 1 and math.gcd(n, d) == 1
    return True


def representable(fr):
    return fits(fr.numerator) and fits(fr.denominator)


class Inexact(Exception):
    """an exact intermediate value left the i32/i32 range: from there on the result is inexact"""


def _rep(x):
    if not representable(x):
        raise Inexact()
    return x


def spec_arith(op, xs):
    """exact-rational spec of an operation on exact operands, following the left fold of the
    n-ary builtins step by step: ('val', Fraction) | ('err', 'divZero') | ('inexact',)"""
    import operator
    f = {"+": operator.add, "-": operator.sub, "*": operator.mul, "/": operator.truediv}
    try:
        if op in f:
            if op == "/" and any(x == 0 for x in (xs[1:] if len(xs) > 1 else xs)):
                # all operands are exact here: an exact zero divisor is an error wherever it stands, also after an
                # intermediate quotient has left the representable range
                return ("err", "divZero")
            if len(xs) == 0:
                return ("val", Fraction(0 if op == "+" else 1))
            if len(xs) == 1 and op in "-/":
                xs = [Fraction(0 if op == "-" else 1)] + list(xs)
            elif op in "+*":
                xs = [Fraction(0 if op == "+" else 1)] + list(xs)
            acc = xs[0]
            for x in xs[1:]:
                acc = _rep(f[op](acc, x))
            return ("val", acc)
        if op == "abs": return ("val", _rep(abs(xs[0])))
        if op == "floor": return ("val", _rep(Fraction(math.floor(xs[0]))))
        if op == "ceiling": return ("val", _rep(Fraction(math.ceil(xs[0]))))
        if op == "exact": return ("val", xs[0])
        if op == "floor-quotient":
            return ("val", _rep(Fraction(math.floor(_rep(xs[0] / xs[1])))))
        if op == "floor-remainder":
            q = _rep(Fraction(math.floor(_rep(xs[0] / xs[1]))))
            return ("val", _rep(xs[0] - _rep(q * xs[1])))
    except ZeroDivisionError:
        return ("err", "divZero")
    except Inexact:
        return ("inexact",)
    return None


CMP_OPS = ("=", "<", ">", "<=", ">=")


def spec_cmp(op, xs):
    f = {"=": lambda a, b: a == b, "<": lambda a, b: a < b, ">": lambda a, b: a > b,
         "<=": lambda a, b: a <= b, ">=": lambda a, b: a >= b}[op]
    return all(f(a, b) for a, b in zip(xs, xs[1:]))


def _r32(x):
    import struct
    try:
        return struct.unpack(">f", struct.pack(">f", x))[0]
    except OverflowError:
        return float("inf") if x > 0 else float("-inf")


def _to_f32(fr):
    """an exact operand converted for an inexact operation: an integer by one rounding, a ratio as f32(n) / f32(d)"""
    if fr.denominator == 1:
        return _r32(float(fr.numerator))
    return _r32(_r32(float(fr.numerator)) / _r32(float(fr.denominator)))


def spec_mixed(op, operand_canon):
    """+ - * / on operands of which at least one is inexact, following the left fold step by step: while both sides are exact
    the step is exact; from the first inexact operand on, the exact side is converted and the step is the binary32 operation
    (binary64 then one rounding: innocuous for these four operations). -> canonical result, or None when not predicted
    (an exact intermediate leaving the representable range, a zero divisor)."""
    import struct
    if op not in ("+", "-", "*", "/") or not any(c.startswith("r:") for c in operand_canon):
        return None
    vals = []
    for c in operand_canon:
        if c == "r:nan":
            vals.append(float("nan"))
        elif c.startswith("r:"):
            vals.append(f32_of(c))
        else:
            e = exact_of(c)
            if e is None:
                return None
            vals.append(e)
    if op in "+*":
        vals = [Fraction(0 if op == "+" else 1)] + vals
    elif len(vals) == 1:
        vals = [Fraction(0 if op == "-" else 1)] + vals
    acc = vals[0]
    for x in vals[1:]:
        if isinstance(acc, Fraction) and isinstance(x, Fraction):
            if op == "/" and x == 0:
                return None
            acc = {"+": acc + x, "-": acc - x, "*": acc * x, "/": acc / x if x != 0 else None}[op]
            if not representable(acc):
                return None
            continue
        a = _to_f32(acc) if isinstance(acc, Fraction) else acc
        b = _to_f32(x) if isinstance(x, Fraction) else x
        if op == "/" and b == 0:
            if a != a or a == 0:
                acc = float("nan")
            else:
                neg = (math.copysign(1.0, a) < 0) != (math.copysign(1.0, b) < 0)
                acc = float("-inf") if neg else float("inf")
            continue
        try:
            acc = _r32({"+": a + b, "-": a - b, "*": a * b, "/": a / b if b != 0 else 0.0}[op])
        except OverflowError:
            return None
    if isinstance(acc, Fraction):
        return None
    if acc != acc:
        return "r:nan"
    return "r:%d" % struct.unpack(">I", struct.pack(">f", acc))[0]


def check_arith_oracle(op, operand_canon, result):
    """property oracle on the implementation alone (exact operands only). None if fine, else a
    description. `result` is the harness's field, e.g. 'V i:3' or 'E divZero -'."""
    xs = [exact_of(c) for c in operand_canon]
    if len(operand_canon) == 1 and operand_canon[0].startswith("r:") and op in ("abs", "floor", "ceiling") and result.startswith("V r:"):
        # an inexact operand: the IEEE operation (sign bit cleared; rounding towards -inf / +inf), bit for bit
        import struct
        x = f32_of(operand_canon[0])
        if x == x and x not in (float("inf"), float("-inf")):
            want = abs(x) if op == "abs" else float(math.floor(x)) if op == "floor" else float(math.ceil(x))
            if op != "abs" and want == 0.0:
                want = math.copysign(0.0, x)          # a zero result keeps the operand's sign (IEEE roundToIntegral)
            wb = struct.unpack(">I", struct.pack(">f", want))[0]
            if result[2:] != "r:%d" % wb:
                return "expected the binary32 %s of the operand, bits %d, got %s" % (op, wb, result[2:])
        return None
    if any(x is None for x in xs):
        want = spec_mixed(op, operand_canon)
        if want is not None and result.startswith("V ") and result[2:] != want:
            return ("an operand is inexact: expected the binary32 result of the operation on the converted operands, %s, got %s"
                    % (want, result[2:]))
        return None
    sp = spec_arith(op, xs)
    if sp is None:
        return None
    if result.startswith("P "):
        return "panic"
    if sp[0] == "err":
        return None if result.startswith("E divZero") else "expected a division-by-zero error, got " + result
    if not result.startswith("V ") or result[2:3] not in "iqr":
        return "expected a number, got " + result
    c = result[2:]
    if sp[0] == "inexact":
        return None if c.startswith("r:") else \
            "an intermediate exact value is not representable, yet the result is the exact number " + c
    true = sp[1]
    if c.startswith("r:"):
        return "inexact result %s although every intermediate exact value is representable (true value %s)" % (c, true)
    v = exact_of(c)
    if v != true:
        return "wrong exact result %s, true value %s" % (c, true)
    if not is_wf_exact(c):
        return "exact result not normalised: " + c
    return None


def f32_of(canon):
    """a canonical operand as the binary32 value a mixed comparison uses: a real is itself; an exact INTEGER is converted by
    one correctly rounded int->binary32 conversion (python: int -> double is exact below 2^53, double -> binary32 rounds once).
    None for non-numbers."""
    import struct
    if canon.startswith("r:"):
        if canon == "r:nan":
            return float("nan")
        return struct.unpack(">f", int(canon[2:]).to_bytes(4, "big"))[0]
    if canon.startswith("i:"):
        return struct.unpack(">f", struct.pack(">f", float(int(canon[2:]))))[0]
    if canon.startswith("q:"):
        # a ratio is converted as binary32(numerator) / binary32(denominator), the quotient rounded to binary32
        fr = exact_of(canon)
        return _to_f32(fr) if fr is not None else None
    return None


def pair_holds(op, a, b):
    """one adjacent pair of a comparison as the property defines it: both exact -> the order in Q; one exact and one
    inexact -> the exact one converted to binary32 first; None when not predicted"""
    f = {"=": lambda x, y: x == y, "<": lambda x, y: x < y, ">": lambda x, y: x > y,
         "<=": lambda x, y: x <= y, ">=": lambda x, y: x >= y}[op]
    ea, eb = exact_of(a), exact_of(b)
    if ea is not None and eb is not None:
        return f(ea, eb)
    fa, fb = f32_of(a), f32_of(b)
    if fa is None or fb is None:
        return None
    return f(fa, fb)


def check_cmp_oracle(op, operand_canon, result):
    xs = [exact_of(c) for c in operand_canon]
    if op == "eqv?" and len(operand_canon) == 2 and any(x is None for x in xs):
        return check_eqv_mixed(operand_canon, result)
    if any(x is None for x in xs) and op in ("max", "min") and result.startswith("V "):
        # some argument is inexact: the result is inexact, and it is the extreme of the arguments after the exact INTEGERS among
        # them are converted to binary32 (ratios: not predicted)
        fs = [f32_of(c) for c in operand_canon]
        if all(f is not None for f in fs) and any(c.startswith("r:") for c in operand_canon) and not any(f != f for f in fs):
            if not result[2:].startswith("r:"):
                return "an argument is inexact, yet the result %s is exact" % result[2:]
            got = f32_of(result[2:])
            want = max(fs) if op == "max" else min(fs)
            if got != want:
                return "expected the %s of the converted arguments, %r, got %r" % (op, want, got)
        return None
    if any(x is None for x in xs):
        if op in CMP_OPS and len(operand_canon) >= 2 and (result in ("V #t", "V #f")):
            pairs = [pair_holds(op, a, b) for a, b in zip(operand_canon, operand_canon[1:])]
            if all(p is not None for p in pairs):
                want = "V #t" if all(pairs) else "V #f"
                if result != want:
                    return "expected %s (an exact operand next to an inexact one is converted to binary32 first), got %s" % (want, result)
        return None
    if result.startswith("P "):
        return "panic"
    if op in ("=", "<", ">", "<=", ">="):
        want = "V #t" if spec_cmp(op, xs) else "V #f"
        return None if result == want else "expected %s, got %s" % (want, result)
    if op in ("max", "min"):
        want = max(xs) if op == "max" else min(xs)
        if not result.startswith("V ") or exact_of(result[2:]) is None:
            return "expected an exact number, got " + result
        if exact_of(result[2:]) != want:
            return "expected %s, got %s" % (want, result)
        return None if is_wf_exact(result[2:]) else "exact result not normalised: " + result
    if op == "eqv?":
        want = "V #t" if xs[0] == xs[1] else "V #f"
        return None if result == want else "expected %s, got %s" % (want, result)
    return None


def check_eqv_mixed(operand_canon, result):
    """eqv? on an exact and an inexact number is #f whatever their values"""
    a, b = operand_canon
    if (a.startswith("r:")) != (b.startswith("r:")) and result != "V #f":
        return "the operands differ in exactness, yet eqv? answers %s" % result
    if a.startswith("r:") and b.startswith("r:"):
        # both inexact: eqv? exactly when numerically equal (0.0 and -0.0 are; not-a-number equals nothing)
        fa, fb = f32_of(a), f32_of(b)
        want = "V #t" if fa == fb else "V #f"
        if result != want:
            return "both operands are inexact and %s, yet eqv? answers %s" % ("numerically equal" if fa == fb else "not numerically equal", result)
    return None

/-
Property C16 — what `display` prints can be read back.

"The text display produces for a value built from booleans, exact integers and ratios, finite
reals, characters, plain symbols, proper and improper lists and vectors is valid source text that,
quoted and read back, yields an equal value of the same exactness. Lists print with single spaces
and a dotted tail only when improper, nested structure is preserved, and distinct values print
differently."

Only property theorems live here (each is audited with `#print axioms`); helper lemmas are in
`RuschmProofs/PrintLemmas.lean`. The vocabulary (`Readable`, `datumOf`, `showDatum`,
`printerLayout`, `EqualV`, `Enough`, `consTail`, …) is defined in `RuschmSpec/Print.lean`; the
model of the Rust code is `Prim.display` (`Display for Value`, `RuschmModel/Prim.lean`), `Read.all`
(`RuschmModel/Read.lean`) and `Eval.readLiteral` (`RuschmModel/Eval.lean`).

REALS ARE NOT COVERED: the model prints a placeholder for them (`{:?}` of `f32` is not modelled),
so `Readable` excludes them; the correspondence check validates reals against the real code by
round trip.
-/
import RuschmProofs.PrintLemmas
import RuschmProofs.C06

namespace Ruschm.C16
open Ruschm Ruschm.Text Ruschm.Print Ruschm.Print.Samples

/-! ## 1. The shape of printed lists (all values, readable or not) -/

/-- A proper list prints as `(` its elements separated by single spaces `)`: no dot, no other
blanks. For *all* values `xs`; `f` is any fuel that is enough for each element. -/
theorem list_format_proper (σ : Store) (f : Nat) (x : Value) (xs : List Value)
    (hx : ∀ y ∈ x :: xs, Enough σ f y) (F : Nat) (hF : f + (x :: xs).length < F) :
    Prim.display σ F (Value.ofList (x :: xs))
      = "(" ++ " ".intercalate ((x :: xs).map (Prim.display σ f)) ++ ")" := by
  have h := display_consTail σ f x xs .nil hx (Or.inl rfl) F hF
  have e : ∀ ys : List Value, consTail ys .nil = Value.ofList ys := by
    intro ys; induction ys with
    | nil => rfl
    | cons y ys ih => simp only [consTail, List.foldr_cons, Value.ofList] at ih ⊢; rw [ih]
  rw [e] at h
  simpa [endText] using h

/-- An improper list `(x₁ … xₙ . t)` (`t` neither a pair nor `()`) prints as `(` its elements
separated by single spaces, then ` . `, then the tail, then `)`. -/
theorem list_format_dotted (σ : Store) (f : Nat) (x : Value) (xs : List Value) (t : Value)
    (hx : ∀ y ∈ x :: xs, Enough σ f y) (ht : isAtomic t = true) (ht' : Enough σ f t)
    (F : Nat) (hF : f + (x :: xs).length < F) :
    Prim.display σ F (consTail (x :: xs) t)
      = "(" ++ " ".intercalate ((x :: xs).map (Prim.display σ f)) ++ " . "
          ++ Prim.display σ f t ++ ")" := by
  have h := display_consTail σ f x xs t hx (Or.inr ⟨ht, ht'⟩) F hF
  have : endText σ f t = " . " ++ Prim.display σ f t := by
    cases t <;> first | rfl | simp [isAtomic] at ht
  rw [this] at h
  simpa [String.append_assoc] using h

/-- The defining equations behind the two theorems above, with the exact fuel of every call:
the empty list, a last element, a middle element, a dotted tail. -/
theorem list_format (σ : Store) (f : Nat) (a d : Value) :
    Prim.display σ (f + 1) .nil = "()" ∧
      Prim.display σ (f + 1) (.pair a d)
        = "(" ++ Prim.display σ f a ++ Prim.displayTail σ f d ++ ")" ∧
      Prim.displayTail σ (f + 1) .nil = "" ∧
      Prim.displayTail σ (f + 1) (.pair a d)
        = " " ++ Prim.display σ f a ++ Prim.displayTail σ f d ∧
      (isAtomic d = true → Prim.displayTail σ (f + 1) d = " . " ++ Prim.display σ f d) :=
  ⟨rfl, rfl, rfl, rfl, displayTail_atomic σ f d⟩

/-- `(a b . c)` prints as `(` a ` ` b ` . ` c `)` -/
example (σ : Store) (f : Nat) (a b c : Value) (hc : isAtomic c = true) :
    Prim.display σ (f + 3) (.pair a (.pair b c))
      = "(" ++ Prim.display σ (f + 2) a ++ (" " ++ Prim.display σ (f + 1) b
          ++ (" . " ++ Prim.display σ f c)) ++ ")" := by
  rw [(list_format σ (f + 2) a (.pair b c)).2.1, (list_format σ (f + 1) b c).2.2.2.1,
    (list_format σ f b c).2.2.2.2 hc]

/-- the sample `(1 -1/2 #\\a (x . y) #(#t ()))` is its five elements, single spaces between -/
example : Prim.display store 100000 value
    = "(" ++ " ".intercalate ([.num (.int 1), .num (.rat (-1) 2), .char 'a',
        .pair (.sym "x") (.sym "y"), .vec 1].map (Prim.display store 15)) ++ ")" := by
  refine list_format_proper store 15 _ _ (fun y hy => ?_) 100000 (by decide)
  have hr : Readable store y ∧ (datumOf store y).size ≤ 15 := by
    simp only [List.mem_cons, List.not_mem_nil, or_false] at hy
    rcases hy with rfl | rfl | rfl | rfl | rfl <;> exact ⟨by decide, by decide⟩
  exact (enough_of_readableN store _ y hr.1).mono hr.2

/-- `(x y . z)`: the dot appears exactly because the tail `z` is not a list -/
example : Prim.display store 10 (consTail [.sym "x", .sym "y"] (.sym "z"))
    = "(" ++ " ".intercalate [Prim.display store 1 (.sym "x"), Prim.display store 1 (.sym "y")]
        ++ " . " ++ Prim.display store 1 (.sym "z") ++ ")" := by
  have en : ∀ s, Enough store 1 (.sym s) := by
    intro s f' hf'
    obtain ⟨g, rfl⟩ : ∃ g, f' = g + 1 := ⟨f' - 1, by omega⟩
    rfl
  refine list_format_dotted store 1 _ _ _ (fun y hy => ?_) rfl (en _) 10 (by decide)
  simp only [List.mem_cons, List.not_mem_nil, or_false] at hy
  rcases hy with rfl | rfl <;> exact en _

/-! ## 2. `display` writes the datum of the value, under the printer's layout -/

/-- DISPLAY_IS_RENDER. For a readable value and enough fuel (at least the number of nodes of its
datum), the text `display` prints is the canonical written form of the datum `datumOf σ v` under
the printer's layout — no blank after `(` / `#(` and before `)`, one space between any other two
tokens (so ` . ` before an improper tail) —, that layout is valid and all atoms of the datum are
supported tokens: the output of `display` is one of the texts the theorems of C06 cover. -/
theorem display_is_render (σ : Store) (v : Value) (fuel : Nat) (hv : Readable σ v)
    (hf : (datumOf σ v).size ≤ fuel) :
    (Prim.display σ fuel v).toList = renderDatum (datumOf σ v) (printerLayout (datumOf σ v)) ∧
      ValidLayout (Syn.ofDatum (datumOf σ v)).toks (printerLayout (datumOf σ v)) ∧
      SupportedD (datumOf σ v) := by
  have hs := supportedD_datumN σ _ v hv
  exact ⟨by rw [renderDatum_printerLayout]; exact display_datumN σ _ v fuel hv hf,
    validLayout_printerLayout _ hs, hs⟩

/-- The same without the vocabulary of C06: `display` prints what the specification's printer
`showDatum` writes for the datum. -/
theorem display_is_show (σ : Store) (v : Value) (fuel : Nat) (hv : Readable σ v)
    (hf : (datumOf σ v).size ≤ fuel) :
    Prim.display σ fuel v = String.ofList (showDatum (datumOf σ v)) := by
  apply String.toList_injective
  rw [String.toList_ofList]
  exact display_datumN σ _ v fuel hv hf

/-- More fuel than the size of the datum prints the same text: the fuel `100000` the `display`
procedure and the REPL use is enough for every value with fewer nodes. -/
theorem display_fuel_enough (σ : Store) (v : Value) (hv : Readable σ v) :
    Enough σ (datumOf σ v).size v :=
  enough_of_readableN σ _ v hv

/-- `Readable` — defined by a computation that descends at most `σ.vecs.size` levels into
vectors — is exactly the inductive predicate `ReadableI` (finite derivations: vectors nest to any
depth, but not cyclically): by the pigeonhole principle, a chain of nested vectors longer than
the number of cells contains a cycle. Likewise the datum does not depend on the level. -/
theorem readable_iff_inductive (σ : Store) (v : Value) :
    (Readable σ v ↔ ReadableI σ v) ∧
      (∀ n, readableN σ n v = true → Readable σ v ∧ datumN σ n v = datumOf σ v) :=
  ⟨readable_iff_readableI σ v, fun n h => ⟨readableN_size σ n v h, datumOf_eq_datumN σ n v h⟩⟩

/-- a store whose only cell contains itself: its vector prints forever, and is not readable -/
example : ¬ Readable { vecs := #[{ mutable := true, items := [.vec 0] }] } (.vec 0) := by decide

section Example
/- `Samples.value` = `(1 -1/2 #\a (x . y) #(#t ()))`, the vector in cell 1 of `Samples.store` -/
example : Readable store value := by decide
example : datumOf store value = datum := rfl
example : (datumOf store value).size = 15 := by decide
example : printerLayout datum
    = [[], [], [' '], [' '], [' '], [], [' '], [' '], [], [' '], [], [' '], [], [], [], []] := by
  decide

example : Prim.display store 100000 value = text := by
  have h := display_is_show store value 100000 (by decide) (by decide)
  rw [h]; decide
end Example

/-! ## 3. The printed text is valid source text: it reads back as one datum -/

/-- DISPLAY_READ_ROUNDTRIP. The text `display` prints for a readable value is read by the reader
without error as exactly one datum, and that datum is — up to source locations — `datumOf σ v`.
(By `C06.read_render_datum` applied to `display_is_render`.) -/
theorem display_read_roundtrip (σ : Store) (v : Value) (fuel : Nat) (hv : Readable σ v)
    (hf : (datumOf σ v).size ≤ fuel) :
    ∃ d, Read.all (Prim.display σ fuel v).toList = ([d], none) ∧
      d.strip = (datumOf σ v).strip := by
  obtain ⟨ht, hl, hs⟩ := display_is_render σ v fuel hv hf
  have h := C06.read_render_datum (datumOf σ v) hs _ hl
  rw [← ht] at h
  rcases hr : Read.all (Prim.display σ fuel v).toList with ⟨ds, e⟩
  rw [hr] at h
  obtain ⟨h1, h2⟩ := h
  simp only at h1 h2
  subst h2
  cases ds with
  | nil => simp at h1
  | cons d ds =>
    cases ds with
    | nil =>
      simp only [List.map_cons, List.map_nil, List.cons.injEq, and_true] at h1
      exact ⟨d, rfl, h1⟩
    | cons d' ds => simp at h1

/-- The datum of a value carries no source locations, so "up to locations" can be dropped on
that side. -/
theorem datumOf_strip (σ : Store) (v : Value) : (datumOf σ v).strip = datumOf σ v :=
  strip_datumN σ _ v

/-- the sample text reads back as one datum, the sample datum -/
example : ∃ d, Read.all text.toList = ([d], none) ∧ d.strip = datum := by
  have h := display_read_roundtrip store value 100000 (by decide) (by decide)
  have e : Prim.display store 100000 value = text := by
    rw [display_is_show store value 100000 (by decide) (by decide)]; decide
  rw [e, datumOf_strip] at h
  exact h

/-! ## 4. Read back, the datum becomes an equal value of the same exactness -/

/-- READ_BACK_EQUAL. `read_literal` (what evaluating `(quote d)` does) turns any datum `d` that
is, up to locations, the datum of a readable value `v` into a value `w` structurally equal to
`v`, in *any* store `τ` — the one `v` lives in or another: integers come back as the same
integers; a ratio `n/d` comes back through `exact_ratio n d`, which returns the same ratio
because `n/d` is in lowest terms (`Num.WF`), so exactness and value are preserved; characters,
booleans, symbols and `()` are identical; pairs are equal component-wise; every vector is a fresh
(immutable) cell whose items are equal item-wise. No error, and `τ` only grows. -/
theorem read_back_equal (σ : Store) (v : Value) (hv : Readable σ v) (d : Datum)
    (hd : d.strip = (datumOf σ v).strip) (τ : Store) :
    ∃ w τ', Eval.readLiteral τ d = (.ok w, τ') ∧ Extends τ τ' ∧ equalV σ v τ' w := by
  have h := readsBack_datumN σ _ v hv τ
  rw [← readLiteral_strip d τ, hd, datumOf_strip]
  exact h

/-- The usual case: `v` lives in the store `σ` in which its text is read back. Then both values
live in the final store. -/
theorem read_back_equal_same_store (σ : Store) (v : Value) (hv : Readable σ v) (d : Datum)
    (hd : d.strip = (datumOf σ v).strip) :
    ∃ w σ', Eval.readLiteral σ d = (.ok w, σ') ∧ Extends σ σ' ∧ equalV σ' v σ' w := by
  obtain ⟨w, σ', h1, h2, h3⟩ := read_back_equal σ v hv d hd σ
  exact ⟨w, σ', h1, h2, h3.mono_left h2⟩

/-- The exactness part spelled out: the value read back for a printed number is *the same*
number (same representation, in particular the same exactness). -/
theorem read_back_number (σ : Store) (x : Num) (hv : Readable σ (.num x)) (d : Datum)
    (hd : d.strip = (datumOf σ (.num x)).strip) (τ : Store) :
    Eval.readLiteral τ d = (.ok (.num x), τ) := by
  obtain ⟨w, τ', h1, -, h3⟩ := read_back_equal σ (.num x) hv d hd τ
  cases h3
  have hp : ∃ p, (datumOf σ (.num x)).strip = .prim p none := by
    unfold Readable at hv; unfold datumOf
    generalize σ.vecs.size = n at hv ⊢
    cases n <;> cases x <;> first | exact ⟨_, rfl⟩ | (simp [readableN, readableStep] at hv)
  obtain ⟨p, hp⟩ := hp
  have hs : (Eval.readLiteral τ d).2 = τ := readLiteral_prim_store τ d p (hd.trans hp)
  rw [h1] at hs
  simp only at hs
  rw [h1, hs]

/-- `-1/2`, wherever it was written, comes back as the exact ratio `-1/2` -/
example (τ : Store) : Eval.readLiteral τ (.prim (.rat (-1) 2) (some (3, 4)))
    = (.ok (.num (.rat (-1) 2)), τ) :=
  read_back_number store (.rat (-1) 2) (by decide) (.prim (.rat (-1) 2) (some (3, 4))) rfl τ

/-- DISPLAY_QUOTE_READ_EQUAL (2 and 3 combined). The text `display` prints for a readable value
is read as one datum `d`, and evaluating the expression `(quote d)` — in any store, environment
and with any non-zero fuel — yields, without error, a value structurally equal to the one that
was printed. -/
theorem display_quote_read_equal (σ : Store) (v : Value) (fuel : Nat) (hv : Readable σ v)
    (hf : (datumOf σ v).size ≤ fuel) (τ : Store) (ρ k : Nat) (loc : Loc) :
    ∃ d w τ', Read.all (Prim.display σ fuel v).toList = ([d], none) ∧
      Eval.readLiteral τ d = (.ok w, τ') ∧
      Eval.evalExpr (k + 1) τ ρ (.quote d loc) = (.ok w, τ') ∧
      Extends τ τ' ∧ equalV σ v τ' w := by
  obtain ⟨d, h1, h2⟩ := display_read_roundtrip σ v fuel hv hf
  obtain ⟨w, τ', h3, h4, h5⟩ := read_back_equal σ v hv d h2 τ
  exact ⟨d, w, τ', h1, h3, by simp only [Eval.evalExpr, h3], h4, h5⟩

section Example
/-- the sample, read back into the store it came from: the new vector is a fresh cell (2) -/
example : ∃ d, Read.all (Prim.display store 100000 value).toList = ([d], none) ∧
    Eval.readLiteral store d
      = (.ok (Value.ofList [.num (.int 1), .num (.rat (-1) 2), .char 'a',
          .pair (.sym "x") (.sym "y"), .vec 2]),
         { store with vecs := store.vecs.push { mutable := false, items := [.bool true, .nil] } })
    := by
  obtain ⟨d, h1, h2⟩ := display_read_roundtrip store value 100000 (by decide) (by decide)
  refine ⟨d, h1, ?_⟩
  rw [← readLiteral_strip d store, h2, datumOf_strip]
  rfl

example : ∃ d w τ', Read.all (Prim.display store 100000 value).toList = ([d], none) ∧
    Eval.readLiteral store d = (.ok w, τ') ∧ equalV store value τ' w := by
  obtain ⟨d, w, τ', h1, h2, -, -, h3⟩ :=
    display_quote_read_equal store value 100000 (by decide) (by decide) store 0 0 none
  exact ⟨d, w, τ', h1, h2, h3⟩
end Example

/-! ## 5. Distinct values print differently -/

/-- DISPLAY_INJECTIVE. If two readable values — in the same store or in two different ones, with
whatever (sufficient) fuel — print the same text, they are structurally equal: same atoms, same
numbers of the same exactness, equal components, equal vector items. Contrapositive: distinct
values print differently. (Reading is a function: both data are what the common text reads as.) -/
theorem display_injective (σ₁ σ₂ : Store) (v₁ v₂ : Value) (f₁ f₂ : Nat)
    (h₁ : Readable σ₁ v₁) (h₂ : Readable σ₂ v₂)
    (hf₁ : (datumOf σ₁ v₁).size ≤ f₁) (hf₂ : (datumOf σ₂ v₂).size ≤ f₂)
    (h : Prim.display σ₁ f₁ v₁ = Prim.display σ₂ f₂ v₂) : equalV σ₁ v₁ σ₂ v₂ := by
  obtain ⟨d₁, r₁, e₁⟩ := display_read_roundtrip σ₁ v₁ f₁ h₁ hf₁
  obtain ⟨d₂, r₂, e₂⟩ := display_read_roundtrip σ₂ v₂ f₂ h₂ hf₂
  rw [h, r₂] at r₁
  simp only [Prod.mk.injEq, List.cons.injEq, and_true] at r₁
  subst r₁
  rw [e₂, datumOf_strip, datumOf_strip] at e₁
  exact equalV_of_datumN σ₁ σ₂ _ _ v₁ v₂ h₁ h₂ e₁.symm

/-- In particular for atoms: readable numbers, booleans, characters and symbols that print the
same are the same. -/
theorem display_injective_atoms (σ : Store) (v₁ v₂ : Value) (f₁ f₂ : Nat)
    (h₁ : Readable σ v₁) (h₂ : Readable σ v₂)
    (hf₁ : (datumOf σ v₁).size ≤ f₁) (hf₂ : (datumOf σ v₂).size ≤ f₂)
    (ha : isAtomic v₁ = true) (hn : ∀ id, v₁ ≠ .vec id)
    (h : Prim.display σ f₁ v₁ = Prim.display σ f₂ v₂) : v₁ = v₂ := by
  have := display_injective σ σ v₁ v₂ f₁ f₂ h₁ h₂ hf₁ hf₂ h
  cases this with
  | vec => exact absurd rfl (hn _)
  | pair => simp [isAtomic] at ha
  | _ => rfl

section Example
/-- `1/2` and `-1/2`, `(x . y)` and `(x y)` print differently -/
example : Prim.display store 10 (.num (.rat 1 2)) ≠ Prim.display store 10 (.num (.rat (-1) 2)) := by
  intro h
  have := display_injective_atoms store _ _ 10 10 (by decide) (by decide) (by decide) (by decide)
    rfl (by simp) h
  simp at this

example : ¬ equalV store (.pair (.sym "x") (.sym "y")) store (Value.ofList [.sym "x", .sym "y"]) := by
  intro h
  cases h with
  | pair _ h2 => cases h2
end Example

/-- EQUAL_VALUES_PRINT_THE_SAME (the converse). A value structurally equal to a readable one is
readable, has the same datum and prints the same text. -/
theorem equal_values_print_same (σ₁ σ₂ : Store) (v₁ v₂ : Value) (he : equalV σ₁ v₁ σ₂ v₂)
    (h₁ : Readable σ₁ v₁) (f₁ f₂ : Nat) (hf₁ : (datumOf σ₁ v₁).size ≤ f₁)
    (hf₂ : (datumOf σ₁ v₁).size ≤ f₂) :
    Readable σ₂ v₂ ∧ datumOf σ₂ v₂ = datumOf σ₁ v₁ ∧
      Prim.display σ₁ f₁ v₁ = Prim.display σ₂ f₂ v₂ := by
  obtain ⟨h₂, e⟩ := equal_datumOf σ₁ σ₂ v₁ v₂ he h₁
  refine ⟨h₂, e, ?_⟩
  rw [display_is_show σ₁ v₁ f₁ h₁ hf₁, display_is_show σ₂ v₂ f₂ h₂ (by rw [e]; exact hf₂), e]

/-- Both directions: readable values print the same text exactly when they are structurally
equal. -/
theorem display_eq_iff_equalV (σ₁ σ₂ : Store) (v₁ v₂ : Value) (h₁ : Readable σ₁ v₁)
    (h₂ : Readable σ₂ v₂) (f₁ f₂ : Nat) (hf₁ : (datumOf σ₁ v₁).size ≤ f₁)
    (hf₂ : (datumOf σ₂ v₂).size ≤ f₂) :
    Prim.display σ₁ f₁ v₁ = Prim.display σ₂ f₂ v₂ ↔ equalV σ₁ v₁ σ₂ v₂ := by
  constructor
  · exact display_injective σ₁ σ₂ v₁ v₂ f₁ f₂ h₁ h₂ hf₁ hf₂
  · intro he
    have e := (equal_datumOf σ₁ σ₂ v₁ v₂ he h₁).2
    exact (equal_values_print_same σ₁ σ₂ v₁ v₂ he h₁ f₁ f₂ hf₁ (by rw [← e]; exact hf₂)).2.2

section Example
/-- the sample and the copy obtained by reading it back (its vector in the fresh cell 2) print
the same text -/
example : Prim.display store 100000 value = Prim.display store2 100000 value2 :=
  (equal_values_print_same store store2 value value2 value_equal_value2 (by decide) 100000 100000
    (by decide) (by decide)).2.2

example : Prim.display store 100000 value = Prim.display store2 100000 value2 ↔
    equalV store value store2 value2 :=
  display_eq_iff_equalV store store2 value value2 (by decide) (by decide) 100000 100000
    (by decide) (by decide)
end Example

/-! ## 6. Nested structure is preserved -/

/-- NESTED_STRUCTURE_PRESERVED. `datumOf` maps pairs to pairs, lists to lists of the same length
(improper tails to improper tails) and vectors to vectors of the same length, element by
element, to any depth; and a pair / list / vector is readable exactly when its components are
(for a vector: and its cell exists). So the text printed for a compound value is the written
form of a datum of exactly the same shape, which (`display_quote_read_equal`) reads back as a
value of that shape again. -/
theorem nested_structure_preserved (σ : Store) :
    (∀ a d, datumOf σ (.pair a d) = .pair (datumOf σ a) (datumOf σ d) none ∧
      (Readable σ (.pair a d) ↔ Readable σ a ∧ Readable σ d)) ∧
    (∀ xs t, datumOf σ (consTail xs t)
        = (xs.map (datumOf σ)).foldr (fun x acc => .pair x acc none) (datumOf σ t) ∧
      (Readable σ (consTail xs t) ↔ (∀ x ∈ xs, Readable σ x) ∧ Readable σ t)) ∧
    (∀ xs, datumOf σ (Value.ofList xs) = Datum.ofList none (xs.map (datumOf σ)) ∧
      (Datum.ofList none (xs.map (datumOf σ))).elems.length = xs.length) ∧
    (∀ id, Readable σ (.vec id) →
      ∃ cell, σ.vecs[id]? = some cell ∧ (∀ x ∈ cell.items, Readable σ x) ∧
        datumOf σ (.vec id) = .vec (cell.items.map (datumOf σ)) none ∧
        (cell.items.map (datumOf σ)).length = cell.items.length ∧
        ∀ i (h : i < cell.items.length),
          (cell.items.map (datumOf σ))[i]'(by simpa using h) = datumOf σ cell.items[i]) := by
  have hp : ∀ a d, datumOf σ (.pair a d) = .pair (datumOf σ a) (datumOf σ d) none ∧
      (Readable σ (.pair a d) ↔ Readable σ a ∧ Readable σ d) := by
    intro a d
    refine ⟨datumN_pair σ _ a d, ?_⟩
    simp only [Readable, readableN_pair, Bool.and_eq_true]
  have hc : ∀ xs t, datumOf σ (consTail xs t)
        = (xs.map (datumOf σ)).foldr (fun x acc => .pair x acc none) (datumOf σ t) ∧
      (Readable σ (consTail xs t) ↔ (∀ x ∈ xs, Readable σ x) ∧ Readable σ t) := by
    intro xs t
    induction xs with
    | nil => simp [consTail]
    | cons x xs ih =>
      simp only [consTail, List.foldr_cons, List.map_cons] at ih ⊢
      rw [(hp x _).1, (hp x _).2, ih.1, ih.2]
      simp [and_assoc]
  refine ⟨hp, hc, ?_, ?_⟩
  · intro xs
    induction xs with
    | nil =>
      refine ⟨?_, rfl⟩
      unfold datumOf; cases σ.vecs.size <;> rfl
    | cons x xs ih =>
      simp only [Value.ofList, List.map_cons, Datum.ofList, (hp x _).1, ih.1, true_and]
      have := ih.2
      simp only [Datum.elems, Datum.spine] at this ⊢
      revert this
      rcases Datum.spine (Datum.ofList none (xs.map (datumOf σ))) with ⟨ys, _ | t⟩ <;>
        simp
  · intro id hv
    obtain ⟨cell, h1, h2, h3⟩ := readableN_vec σ _ id hv
    exact ⟨cell, h1, h2, h3, by simp, fun i h => by simp⟩

section Example
/-- the sample: a list of five elements, the fourth a pair, the fifth a vector of two items -/
example : (datumOf store value).elems.length = 5 := by
  have h := ((nested_structure_preserved store).2.2.1
    [.num (.int 1), .num (.rat (-1) 2), .char 'a', .pair (.sym "x") (.sym "y"), .vec 1])
  have e : value = Value.ofList
    [.num (.int 1), .num (.rat (-1) 2), .char 'a', .pair (.sym "x") (.sym "y"), .vec 1] := rfl
  rw [e, h.1]; exact h.2

example : datumOf store (.vec 1) = .vec [datumOf store (.bool true), datumOf store .nil] none := by
  obtain ⟨cell, h1, -, h3, -⟩ := (nested_structure_preserved store).2.2.2 1 (by decide)
  have : cell = { mutable := true, items := [.bool true, .nil] } := by
    have : store.vecs[1]? = some { mutable := true, items := [.bool true, .nil] } := rfl
    rw [this] at h1; exact (Option.some.inj h1).symm
  subst this
  exact h3
end Example

/-! ## 7. End to end: evaluating the quoted text -/

/-- QUOTED_TEXT_EVALUATES_EQUAL. Take the text `display` prints for a readable value `v` (of a
store `σ`), put a quote mark in front of it and hand it to the interpreter (`Interpreter::eval`,
in any state `st`, with any non-zero fuel): the lexer, the reader, `transform_to_statement` and
the evaluator together deliver — without error — a value structurally equal to `v`, of the same
exactness; the only effect on the interpreter is that its store has grown (by the cells of the
vectors read back). -/
theorem quoted_text_evaluates_equal (σ : Store) (v : Value) (fuel : Nat) (hv : Readable σ v)
    (hf : (datumOf σ v).size ≤ fuel) (st : Interp.State) (k : Nat) :
    ∃ w st', Interp.evalText (k + 1) st ('\'' :: (Prim.display σ fuel v).toList)
        = (.ok (some w), st') ∧
      Extends st.store st'.store ∧ st'.env = st.env ∧ equalV σ v st'.store w := by
  obtain ⟨ht, -, hs⟩ := display_is_render σ v fuel hv hf
  obtain ⟨w, τ', h1, h2, h3⟩ := readsBack_datumN σ _ v hv st.store
  obtain ⟨st', e1, e2, e3⟩ := evalText_quote k st (datumOf σ v) hs (datumOf_strip σ v) w τ' h1
  rw [← ht] at e1
  exact ⟨w, st', e1, e2 ▸ h2, e3, e2 ▸ h3⟩

/-- The usual case: the value is printed and read back by the same interpreter. -/
theorem quoted_text_evaluates_equal_same (st : Interp.State) (v : Value) (fuel : Nat)
    (hv : Readable st.store v) (hf : (datumOf st.store v).size ≤ fuel) (k : Nat) :
    ∃ w st', Interp.evalText (k + 1) st ('\'' :: (Prim.display st.store fuel v).toList)
        = (.ok (some w), st') ∧
      Extends st.store st'.store ∧ equalV st'.store v st'.store w := by
  obtain ⟨w, st', h1, h2, -, h3⟩ := quoted_text_evaluates_equal st.store v fuel hv hf st k
  exact ⟨w, st', h1, h2, h3.mono_left h2⟩

section Example
/-- `'(1 -1/2 #\a (x . y) #(#t ()))` evaluates to a value equal to the sample -/
example : ∃ w st', Interp.evalText 1 { store := store } ('\'' :: text.toList) = (.ok (some w), st')
    ∧ equalV store value st'.store w := by
  obtain ⟨w, st', h1, -, -, h3⟩ :=
    quoted_text_evaluates_equal store value 100000 (by decide) (by decide) { store := store } 0
  have e : Prim.display store 100000 value = text := by
    rw [display_is_show store value 100000 (by decide) (by decide)]; decide
  rw [e] at h1
  exact ⟨w, st', h1, h3⟩
end Example

/-! ## Where a fuller statement fails -/

/-- FULL symbol coverage: the round trip for *every* symbol, whatever its spelling. -/
def display_read_roundtrip_full : Prop :=
  ∀ (σ : Store) (s : String) (fuel : Nat), 0 < fuel →
    ∃ d, Read.all (Prim.display σ fuel (.sym s)).toList = ([d], none) ∧ d.strip = .sym s none

/-- It fails: `display` writes a symbol's spelling as it is (no bars, no escapes), so the symbol
with the empty spelling prints as nothing at all — and, likewise, `a b` (which `'|a b|`
evaluates to) prints as the two symbols `a` and `b`, `1` as a number. Hence "plain symbols" in the
property and `isPlainIdent` in `Readable`. -/
theorem display_read_roundtrip_full_fails : ¬ display_read_roundtrip_full := by
  intro h
  obtain ⟨d, h1, -⟩ := h {} "" 1 (by decide)
  have h2 : Read.all (Prim.display {} 1 (.sym "")).toList = ([], none) := by
    have : Prim.display {} 1 (.sym "") = "" := rfl
    rw [this]
    simp [Read.all, Read.ofText, Lex.all, Lex.allAux, Lex.next, Lex.skipAtmosphere, Lex.token,
      Read.allAux, Read.nextDatum, Read.advance, Read.currentDatum, Read.fuelFor, bind,
      Except.bind]
  rw [h2] at h1
  cases h1

/-- a second witness: the symbol `a b` is printed as `a b`, which reads as two data -/
example : (Read.all (Prim.display {} 1 (.sym "a b")).toList).1.map Datum.strip
    = [.sym "a" none, .sym "b" none] := by
  have h := (C06.read_render_many [.atom (.ident "a"), .atom (.ident "b")]
    ⟨⟨rfl, Or.inl (by decide)⟩, ⟨rfl, Or.inl (by decide)⟩, trivial⟩ [[], [' '], []] (by decide)).1
  exact h

/-- the partial version: `display_read_roundtrip` (plain symbols) -/
theorem display_read_roundtrip_partial (σ : Store) (s : String) (fuel : Nat) (hf : 0 < fuel)
    (hs : isPlainIdent s.toList = true) :
    ∃ d, Read.all (Prim.display σ fuel (.sym s)).toList = ([d], none) ∧ d.strip = .sym s none := by
  have hv : Readable σ (.sym s) := by
    unfold Readable; cases σ.vecs.size <;> exact hs
  have e : datumOf σ (.sym s) = .sym s none := by
    unfold datumOf; cases σ.vecs.size <;> rfl
  have h := display_read_roundtrip σ (.sym s) fuel hv (by rw [e]; exact hf)
  rw [e] at h
  exact h

example : ∃ d, Read.all (Prim.display store 1 (.sym "list->vector")).toList = ([d], none) ∧
    d.strip = .sym "list->vector" none :=
  display_read_roundtrip_partial store "list->vector" 1 (by decide) (by decide)

/-- Strings are outside the property for the same reason: `display` writes the characters of a
string without quotes, so the text does not read back as a string (`x y` reads as two symbols). -/
theorem string_display_unquoted (σ : Store) (f : Nat) (s : String) :
    Prim.display σ (f + 1) (.str s) = s := rfl

example : Prim.display store 7 (.str "x y") = "x y" := string_display_unquoted store 6 "x y"

end Ruschm.C16

/-
Property C18 (bracket part) — "Text entered at the REPL is evaluated as soon as the lines entered
so far close every list they opened, and not before".

The REPL decides whether the text entered so far is complete with a private character-level
counter (`check_bracket_closed`, modelled by `Bracket.closed`). The theorem below says that this
counter sees exactly the brackets the lexer sees: whenever the text tokenises without error, the
count it arrives at is the number of opening tokens `(`, `#(`, `#u8(` minus the number of closing
tokens `)` — parentheses inside strings, `|quoted|` identifiers, character literals and comments
are not counted, by either. Only property theorems live here; helper lemmas are in
`RuschmProofs/BracketLemmas.lean` (one lemma per scanner in `LexLemmas.lean`).
-/
import RuschmProofs.BracketLemmas
import RuschmProofs.TextLemmas
import RuschmProofs.TextSamples

namespace Ruschm.C18
open Ruschm Ruschm.Lex Ruschm.Text Ruschm.Text.Samples

/-- The counter's final count is the nesting depth of the token stream. No side condition beyond
"the text tokenises": a `,` as very last character (dropped by the lexer) and a comment that
reaches the end of the text (which leaves the counter in comment mode) do not change the count. -/
theorem bracket_count_is_depth (cs : List Char) (ts : List LToken)
    (h : Lex.all cs = (ts, none)) : (Bracket.run cs).2 = depth (ts.map (·.tok)) :=
  bracket_run_eq cs ts h

/-- `check_bracket_closed` answers "closed" exactly when the tokens read so far contain at least
as many `)` as `(`, `#(` and `#u8(`. -/
theorem bracket_agrees_with_reader (cs : List Char) (ts : List LToken)
    (h : Lex.all cs = (ts, none)) :
    Bracket.closed cs = decide (depth (ts.map (·.tok)) ≤ 0) :=
  bracket_closed_eq cs ts h

/-- the same, without naming the token list -/
theorem bracket_agrees_with_reader' (cs : List Char) (h : (Lex.all cs).2 = none) :
    Bracket.closed cs = decide (depth ((Lex.all cs).1.map (·.tok)) ≤ 0) :=
  bracket_closed_eq cs _ (Prod.ext rfl h)

/-- End to end on written token sequences: for supported tokens under any valid layout the
counter answers "closed" iff the sequence has at least as many `)` as opening tokens — whatever
parentheses occur inside its strings, characters, quoted identifiers and comments. -/
theorem bracket_of_rendered (ts : List Token) (layout : List (List Char))
    (hs : ∀ t ∈ ts, SupportedTok t) (hl : ValidLayout ts layout) :
    Bracket.closed (interleave ts layout) = decide (depth ts ≤ 0) := by
  obtain ⟨h1, h2⟩ := all_render ts layout hs hl
  rw [bracket_agrees_with_reader' _ h2, h1]

section Example
/-- `(f #\( "a)" |b)| ;)` + newline + `#(1`: two lists are open; the parentheses in the character
literal, the string, the quoted identifier and the comment count for neither side. -/
example : interleave toksB layoutToksB = "(f #\\( \"a)\" |b)| ;)\n#(1".toList := by decide

example : (Lex.all "(f #\\( \"a)\" |b)| ;)\n#(1".toList).1.map (·.tok) = toksB ∧
    (Lex.all "(f #\\( \"a)\" |b)| ;)\n#(1".toList).2 = none := by
  have h := all_render toksB layoutToksB toksB_supported (by decide)
  exact h

example : depth toksB = 2 := by decide

example : Bracket.closed "(f #\\( \"a)\" |b)| ;)\n#(1".toList = false := by
  have h := bracket_of_rendered toksB layoutToksB toksB_supported (by decide)
  exact h

/-- … and the counter computes the same answer by itself -/
example : Bracket.closed "(f #\\( \"a)\" |b)| ;)\n#(1".toList = false := by decide

/-- closing both lists closes the text -/
example : Bracket.closed "(f #\\( \"a)\" |b)| ;)\n#(1))".toList = true := by decide
end Example

end Ruschm.C18

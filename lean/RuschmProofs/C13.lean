/-
Property C13 — libraries are encapsulated and instantiated once per interpreter.

"A library exposes exactly the bindings it exports, under their external names, and evaluates its
body in an environment made only of its own imports and definitions: the importer cannot see
unexported definitions, the library cannot see the importer's definitions, and redefining an
imported name in the importer does not change what the library's own procedures do. All imports of
a library within one program refer to one instance, so state kept inside the library is shared by
everything that imports it."

Only property theorems live here (each is audited with `#print axioms`); helper lemmas are in
`RuschmProofs/LibLemmas.lean`, vocabulary in `RuschmSpec/Lib.lean`.
-/
import RuschmProofs.LibLemmas

namespace Ruschm.C13
open Ruschm Ruschm.Interp

/-! ## what a library exposes -/

/-- When a library definition evaluates to the export list `defs`: the names of `defs` are exactly
the external names of the export specs (each once); the value under an external name is what the
library's own frame `ρlib` — the frame allocated for this library, number `st.store.frames.size`
— binds to the INTERNAL name of the (last) export spec with that external name; and every
exported internal name is bound there. Nothing else of the library frame is in `defs`. -/
theorem exports_exact {fuel : Nat} {st st' : State} {decls : List LibDecl} {defs : S.Bindings}
    (h : evalLibraryDef fuel st decls = (.ok defs, st')) :
    (∀ x, x ∈ defs.map Prod.fst ↔ ∃ sp ∈ S.exportSpecs decls, sp.external = x) ∧
    (defs.map Prod.fst).Nodup ∧
    (∀ x, defs.lookup x =
      (S.exportFor (S.exportSpecs decls) x).bind
        (fun sp => st'.store.lookup st.store.frames.size sp.internal)) ∧
    (∀ sp ∈ S.exportSpecs decls, (st'.store.lookup st.store.frames.size sp.internal).isSome) := by
  cases fuel with
  | zero => rw [evalLibraryDef] at h; cases h
  | succ fuel =>
    rw [evalLibraryDef_succ_eq] at h
    split at h
    · cases h
    · rename_i exports st2 hdecls
      have hex := evalLibDecls_exports _ _ _ _ _ _ _ hdecls
      simp only [List.nil_append] at hex
      subst hex
      have hst : st2 = st' := congrArg Prod.snd h
      subst hst
      have hfold : List.foldlM (exportStep (st2.store.lookup st.store.frames.size)) []
          (S.exportSpecs decls) = .ok defs := congrArg Prod.fst h
      obtain ⟨h1, h2, h3⟩ := exportFold_spec _ _ _ _ hfold
      have hlook : ∀ x, defs.lookup x = (S.exportFor (S.exportSpecs decls) x).bind
          (fun sp => st2.store.lookup st.store.frames.size sp.internal) := by
        intro x; rw [h1 x]; cases S.exportFor (S.exportSpecs decls) x <;> simp
      refine ⟨fun x => ?_, h3 (by simp), hlook, h2⟩
      rw [← lookup_isSome_iff, hlook x]
      constructor
      · intro hs
        cases hf : S.exportFor (S.exportSpecs decls) x with
        | none => simp [hf] at hs
        | some sp =>
          have := List.find?_some hf
          exact ⟨sp, List.mem_reverse.1 (List.mem_of_find?_eq_some hf), by simpa using this⟩
      · rintro ⟨sp, hsp, rfl⟩
        cases hf : S.exportFor (S.exportSpecs decls) sp.external with
        | none =>
          have := List.find?_eq_none.1 hf sp (List.mem_reverse.2 hsp)
          simp at this
        | some sp' =>
          exact h2 sp' (List.mem_reverse.1 (List.mem_of_find?_eq_some hf))

/-- a library with a hidden helper: `(define-library .. (export (rename inc up)) (begin (define hidden 1) (define inc 2)))` -/
def demoDecls : List LibDecl :=
  [.export [.rename "inc" "up" none],
   .begin_ [.definition (.mk "hidden" (.prim (.int 1) none) none),
            .definition (.mk "inc" (.prim (.int 2) none) none)]]

example : (evalLibraryDef 6 {} demoDecls).1 = .ok [("up", .num (.int 2))] := by
  simp [evalLibraryDef, demoDecls, evalLibDecls, evalStatements, evalExprOrDef, Eval.evalExpr,
    Eval.evalPrim, Store.newFrame, Store.define, Store.defsInsert, Store.lookup, Store.lookupAux,
    assocInsert, List.lookup]

/-- The library's frame `ρlib = st.store.frames.size` is newly allocated (no frame had that
number before), the declarations are evaluated in it, and — whatever the outcome — it is a root:
it has no parent, so its chain is `[ρlib]` (the library sees NO definition of any other frame,
the importer's in particular), and it lies on the chain of no frame that existed before (lookups
from the importer's frames never reach a library-internal name). -/
theorem lib_env_is_fresh_root (fuel : Nat) (st : State) (decls : List LibDecl) :
    let ρlib := st.store.frames.size
    let res := evalLibraryDef (fuel + 1) st decls
    (∃ r, evalLibDecls fuel { st with store := (st.store.newFrame none).2 } ρlib decls [] = (r, res.2)) ∧
    st.store.frames[ρlib]? = none ∧
    res.2.store.parentOf ρlib = none ∧ ρlib < res.2.store.frames.size ∧
    res.2.store.chain ρlib = [ρlib] ∧
    (∀ ρ', ρ' < ρlib → ρlib ∉ res.2.store.chain ρ') := by
  intro ρlib res
  have hdecls : ∃ r, evalLibDecls fuel { st with store := (st.store.newFrame none).2 } ρlib decls [] = (r, res.2) := by
    simp only [res, evalLibraryDef_succ_eq]
    generalize evalLibDecls fuel _ _ decls [] = out
    obtain ⟨r, st2⟩ := out
    cases r <;> exact ⟨_, rfl⟩
  obtain ⟨r, hr⟩ := hdecls
  have inv := (invAt storeRel_grows fuel).libDecls hr
  have hnew : (st.store.newFrame none).2.frames[ρlib]? = some { parent := none, defs := [] } := by
    simp [Store.newFrame, ρlib]
  obtain ⟨f', hf', hpar, -⟩ := inv.store.frame ρlib _ hnew
  have hlt : ρlib < res.2.store.frames.size := Store.getElem?_some_lt hf'
  refine ⟨⟨r, hr⟩, by simp [ρlib], ?_, hlt, ?_, ?_⟩
  · simp [Store.parentOf, hf', hpar]
  · simp [Store.chain, Store.chainAux, hf', hpar]
  · intro ρ' hρ' hmem
    have := (Store.mem_chainAux hmem).1
    omega

example : (evalLibraryDef 6 {} demoDecls).2.store.chain 0 = [0] :=
  (lib_env_is_fresh_root 5 {} demoDecls).2.2.2.2.1

/-- `define` or `set!` executed in a frame `ρimp` whose chain is disjoint from the chain of `ρ'`
(`ρ'` a frame of the library: the library frame itself, or a frame of one of its closures) leaves
every lookup from `ρ'` unchanged: the library's procedures keep seeing their own bindings. -/
theorem importer_redefinition_harmless (σ : Store) (ρimp ρ' : Nat) (k : String) (v : Value)
    (hdisj : ∀ i ∈ σ.chain ρ', i ∉ σ.chain ρimp) (x : String) :
    (σ.define ρimp k v).lookup ρ' x = σ.lookup ρ' x ∧
    (σ.set ρimp k v).2.lookup ρ' x = σ.lookup ρ' x := by
  constructor
  · by_cases hlt : ρimp < σ.frames.size
    · exact Lib.lookup_define_off_chain σ k v x (fun hm => hdisj _ hm (Lib.self_mem_chain hlt))
    · rw [Store.define_of_not_lt σ k v hlt]
  · rw [Store.set_eq]
    cases hr : σ.resolve ρimp k with
    | none => rfl
    | some r =>
      exact Lib.lookup_define_off_chain σ k v x (fun hm => hdisj _ hm (Lib.resolve_mem_chain hr))

/-- importer frame 0 and library frame 1, both roots, both defining `f`: redefining `f` in the
importer does not change what the library sees -/
example : ((⟨#[⟨none, [("f", .num (.int 1))]⟩, ⟨none, [("f", .num (.int 2))]⟩], #[], [], [], 0, 0⟩ : Store).set 0 "f"
    (.num (.int 9))).2.lookup 1 "f" =
    (⟨#[⟨none, [("f", .num (.int 1))]⟩, ⟨none, [("f", .num (.int 2))]⟩], #[], [], [], 0, 0⟩ : Store).lookup 1 "f" :=
  (importer_redefinition_harmless _ 0 1 "f" _ (by decide) "f").2

/-! ## one instance per interpreter -/

/-- Once `getLibrary` has returned the export list `defs` for `name`, the instance cache maps
`name` to `defs`; and on ANY state whose cache does so, `getLibrary` — hence an import
`(.direct name)` — returns those same `defs` (the same values: closures over the SAME frames)
without evaluating anything: the state is returned unchanged. -/
theorem single_instance {fuel : Nat} {st st' : State} {name : LibName} {loc : Loc} {defs : S.Bindings}
    (h : getLibrary fuel st name loc = (.ok defs, st')) :
    libLookup st'.instances name = some defs ∧
    (∀ (fuel' : Nat) (st'' : State) (loc' : Loc), libLookup st''.instances name = some defs →
      getLibrary (fuel' + 1) st'' name loc' = (.ok defs, st'') ∧
      (name ∉ st''.inProgress → evalImportSet (fuel' + 2) st'' (.direct name loc') = (.ok defs, st''))) := by
  refine ⟨getLibrary_ok_cached h, fun fuel' st'' loc' hc => ⟨?_, fun hip => direct_cached hip hc⟩⟩
  rw [getLibrary_succ_eq, hc]

/-- a native library `(m)` -/
def demoLib : LibName := [.ident "m"]
def demoState : State := { factories := [(demoLib, .native [("a", .num (.int 1))])] }

/-- the hypothesis is satisfiable: the first `getLibrary` instantiates the library -/
example : getLibrary 1 demoState demoLib none = (.ok [("a", .num (.int 1))],
    { demoState with instances := [(demoLib, [("a", .num (.int 1))])] }) := by
  rw [getLibrary_succ_eq]
  simp [demoState, demoLib, libLookup, findFactory, instantiate, cacheInstance, newLibrary, libInsert]

/-- Evaluator and import steps never remove or change an entry of the instance cache. -/
theorem instances_only_grow (fuel : Nat) (st : State) (n : LibName) (d : S.Bindings)
    (h : libLookup st.instances n = some d) :
    (∀ s, libLookup (evalImportSet fuel st s).2.instances n = some d) ∧
    (∀ name loc, libLookup (getLibrary fuel st name loc).2.instances n = some d) ∧
    (∀ sets ρ, libLookup (evalImport fuel st sets ρ).2.instances n = some d) ∧
    (∀ decls, libLookup (evalLibraryDef fuel st decls).2.instances n = some d) ∧
    (∀ ρ ss, libLookup (evalStatements fuel st ρ ss).2.instances n = some d) ∧
    (∀ s, libLookup (evalAst fuel st s).2.instances n = some d) ∧
    (∀ text, libLookup (evalText fuel st text).2.instances n = some d) := by
  have I := invAt storeRel_true fuel
  refine ⟨fun s => ?_, fun name loc => ?_, fun sets ρ => ?_, fun decls => ?_, fun ρ ss => ?_, fun s => ?_,
    fun text => evalText_instances fuel st text n d h⟩
  · exact (I.importSet (r := _) (st' := _) rfl).instances n d h
  · exact (I.getLibrary (r := _) (st' := _) rfl).instances n d h
  · exact (I.import_ (r := _) (st' := _) rfl).instances n d h
  · exact (I.libraryDef (r := _) (st' := _) rfl).instances n d h
  · exact (I.statements (r := _) (st' := _) rfl).instances n d h
  · exact evalAst_instances fuel st s n d h

example : libLookup (evalImport 3 { demoState with instances := [([.ident "k"], [])] }
    [.direct demoLib none] 0).2.instances [.ident "k"] = some [] :=
  (instances_only_grow 3 _ [.ident "k"] [] (by simp [libLookup])).2.2.1 _ _

end Ruschm.C13

/-
Helper lemmas for property C08 (run-time errors): data-level facts about the store
(`lookup`/`resolve`/`set`), the native procedures (`applyPure` never changes the store when it
fails; which arguments make which error), `spreadApply`, literals, exact division, and the
trampoline (`Reaches`: the applications one run of `applyLoop` performs).
-/
import RuschmProofs.EvalLemmas
import RuschmModel.Interp
namespace Ruschm

/-! ## unbound names: `lookup`, `resolve`, `set` walk the same chain -/

namespace Store

theorem resolveAux_isSome (σ : Store) (k : String) : ∀ fuel ρ,
    (σ.resolveAux fuel ρ k).isSome = (σ.lookupAux fuel ρ k).isSome := by
  intro fuel
  induction fuel with
  | zero => intro ρ; rfl
  | succ n ih =>
    intro ρ
    simp only [resolveAux, lookupAux]
    cases hf : σ.frames[ρ]? with
    | none => rfl
    | some f =>
      simp only
      cases hl : f.defs.lookup k with
      | some v => simp
      | none =>
        simp only [Option.isSome_none, Bool.false_eq_true, if_false]
        cases hp : f.parent with
        | none => rfl
        | some p =>
          simp only
          by_cases hlt : p < ρ
          · simp only [hlt, if_true]; exact ih p
          · simp only [hlt, if_false]; rfl

/-- a name `lookup` does not find is a name `resolve` (hence `set!`) does not find -/
theorem resolve_none_of_lookup_none {σ : Store} {ρ : Nat} {k : String} (h : σ.lookup ρ k = none) :
    σ.resolve ρ k = none := by
  have := resolveAux_isSome σ k (ρ + 1) ρ
  unfold lookup at h; unfold resolve
  rw [h] at this
  cases hr : σ.resolveAux (ρ + 1) ρ k with
  | none => rfl
  | some r => rw [hr] at this; cases this

theorem lookup_none_of_resolve_none {σ : Store} {ρ : Nat} {k : String} (h : σ.resolve ρ k = none) :
    σ.lookup ρ k = none := by
  have := resolveAux_isSome σ k (ρ + 1) ρ
  unfold resolve at h; unfold lookup
  rw [h] at this
  cases hr : σ.lookupAux (ρ + 1) ρ k with
  | none => rfl
  | some r => rw [hr] at this; cases this

/-- `set!` of an unbound name fails and leaves the store as it is -/
theorem set_unbound {σ : Store} {ρ : Nat} {k : String} (v : Value) (h : σ.lookup ρ k = none) :
    σ.set ρ k v = (false, σ) := by
  unfold set; rw [resolve_none_of_lookup_none h]

/-- `set!` fails only for an unbound name, and then the store is unchanged -/
theorem set_false {σ σ' : Store} {ρ : Nat} {k : String} {v : Value} (h : σ.set ρ k v = (false, σ')) :
    σ.lookup ρ k = none ∧ σ' = σ := by
  unfold set at h
  cases hr : σ.resolve ρ k with
  | none => rw [hr] at h; cases h; exact ⟨lookup_none_of_resolve_none hr, rfl⟩
  | some r => rw [hr] at h; cases h

/-- a frame without parent (a root frame) that does not define `k`: `k` is unbound there -/
theorem lookup_root_none {σ : Store} {ρ : Nat} {f : Frame} {k : String} (hf : σ.frames[ρ]? = some f)
    (hp : f.parent = none) (hk : f.defs.lookup k = none) : σ.lookup ρ k = none := by
  simp [lookup, lookupAux, hf, hp, hk]

end Store

namespace Prim
open Eval

/-! ## native procedures: a failing call leaves the store unchanged -/

theorem lift_err {α} {σ σ' : Store} {r : Except Err α} {k : α → Value} {e} (h : lift σ r k = (.error e, σ')) :
    σ' = σ := by
  unfold lift at h; split at h <;> simp [ok, err] at h <;> exact h.2.symm

theorem num1_err {σ σ' : Store} {args b f e} (h : num1 σ args b f = (.error e, σ')) : σ' = σ := by
  unfold num1 at h
  repeat' split at h
  all_goals simp [ok, err, missing] at h
  all_goals exact h.2.symm

theorem num2_err {σ σ' : Store} {args b f e} (h : num2 σ args b f = (.error e, σ')) : σ' = σ := by
  unfold num2 at h
  repeat' split at h
  all_goals simp [ok, err, missing] at h
  all_goals exact h.2.symm

/-- THE STORE IS UNCHANGED BY A FAILING NATIVE PROCEDURE, whatever the procedure, the arguments
and the error -/
theorem applyPure_error_store {σ σ' : Store} {b : Builtin} {args : List Value} {e : SErr}
    (h : applyPure σ b args = (.error e, σ')) : σ' = σ := by
  cases b
  all_goals simp only [applyPure, realFn, realFn2] at h
  all_goals first
    | exact lift_err h
    | exact num1_err h
    | exact num2_err h
    | (repeat' split at h
       all_goals simp [ok, err, missing, Store.allocVec] at h
       all_goals exact h.2.symm)

/-! ## wrong-typed arguments -/

/-- "is a number" -/
def IsNum : Value → Prop
  | .num _ => True
  | _ => False

theorem expectNumber_err {v : Value} (h : ¬ IsNum v) : expectNumber v = .error .type := by
  cases v <;> simp_all [IsNum, expectNumber]

/-- the fold of `+`/`*` (and the tail of `-`/`/`) stops with a type error at the first argument
that is not a number, if the arithmetic on the numbers before it succeeded -/
theorem foldNum_type {f : Num → Num → Except Err Num} {init acc : Num} {pre post : List Value} {x : Value}
    (hpre : foldNum f init pre = .ok acc) (hx : ¬ IsNum x) :
    foldNum f init (pre ++ x :: post) = .error .type := by
  unfold foldNum at *
  rw [List.foldlM_append, hpre]
  simp only [List.foldlM_cons, expectNumber_err hx]; rfl

theorem cmpNum_go_type {op : Num → Num → Bool} : ∀ {ns : List Num} {last : Num} {acc : Bool} {x : Value}
    {post : List Value}, ¬ IsNum x →
    cmpNum.go op last acc (ns.map Value.num ++ x :: post) = .error .type
  | [], last, acc, x, post, hx => by
    show cmpNum.go op last acc (x :: post) = _
    rw [cmpNum.go, expectNumber_err hx]; rfl
  | n :: ns, last, acc, x, post, hx => by
    show cmpNum.go op last acc (.num n :: (ns.map Value.num ++ x :: post)) = _
    rw [cmpNum.go]
    show cmpNum.go op n (acc && op last n) _ = _
    exact cmpNum_go_type hx

/-- a comparison chain stops with a type error at the first argument that is not a number, whether
or not the adjacent pairs of numbers before it were in order: every argument is type-checked -/
theorem cmpNum_type {op : Num → Num → Bool} {ns : List Num} {x : Value} {post : List Value}
    (hx : ¬ IsNum x) :
    cmpNum op (ns.map Value.num ++ x :: post) = .error .type := by
  cases ns with
  | nil =>
    show cmpNum op (x :: post) = _
    rw [cmpNum, expectNumber_err hx]; rfl
  | cons n ns =>
    show cmpNum op (.num n :: (ns.map Value.num ++ x :: post)) = _
    rw [cmpNum]
    exact cmpNum_go_type hx

theorem cmpNum_go_nums {op : Num → Num → Bool} : ∀ (ns : List Num) (last : Num) (acc : Bool),
    cmpNum.go op last acc (ns.map Value.num) = .ok (acc && Num.cmpChain op (last :: ns))
  | [], last, acc => by simp [cmpNum.go, Num.cmpChain]
  | n :: ns, last, acc => by
    show cmpNum.go op last acc (.num n :: ns.map Value.num) = _
    rw [cmpNum.go]
    show cmpNum.go op n (acc && op last n) _ = _
    rw [cmpNum_go_nums ns n, Num.cmpChain]
    cases acc <;> cases op last n <;> simp

/-- on numbers only the chain is still the conjunction of the adjacent pairs -/
theorem cmpNum_nums {op : Num → Num → Bool} (ns : List Num) :
    cmpNum op (ns.map Value.num) = .ok (Num.cmpChain op ns) := by
  cases ns with
  | nil => rfl
  | cons n ns =>
    show cmpNum op (.num n :: ns.map Value.num) = _
    rw [cmpNum]
    show cmpNum.go op n true _ = _
    rw [cmpNum_go_nums]; simp

end Prim

namespace Eval
open Prim

/-! ## `apply` -/

/-- "is a list head": a pair or the empty list -/
def IsListHead : Value → Prop
  | .pair _ _ | .nil => True
  | _ => False

theorem spreadApply_nonproc {f : Value} {rest : List Value} (h : procArity f = none) :
    spreadApply (f :: rest) = .error .nonProcedure := by
  simp [spreadApply, h]

theorem spreadApply_type {f : Value} {rest : List Value} {last : Value} (hf : (procArity f).isSome)
    (hl : rest.getLast? = some last) (hx : ¬ IsListHead last) :
    spreadApply (f :: rest) = .error .type := by
  obtain ⟨a, ha⟩ := Option.isSome_iff_exists.mp hf
  simp only [spreadApply, ha, hl]
  cases last <;> simp_all [IsListHead]

theorem spreadApply_ne_fuel {args : List Value} {e} (h : spreadApply args = .error e) : e ≠ .fuel := by
  unfold spreadApply at h
  repeat' split at h
  all_goals cases h
  all_goals simp

/-! ## literals: every cell a literal allocates is immutable -/

/-- `σ'` is `σ` with immutable vector cells appended (nothing else differs) -/
def LitExt (σ σ' : Store) : Prop :=
  ∃ cells : List VecCell, σ' = { σ with vecs := σ.vecs ++ cells.toArray } ∧ ∀ c ∈ cells, c.mutable = false

theorem LitExt.refl (σ : Store) : LitExt σ σ := ⟨[], by simp, by simp⟩
theorem LitExt.trans {σ₁ σ₂ σ₃ : Store} (h₁ : LitExt σ₁ σ₂) (h₂ : LitExt σ₂ σ₃) : LitExt σ₁ σ₃ := by
  obtain ⟨c₁, rfl, hc₁⟩ := h₁
  obtain ⟨c₂, rfl, hc₂⟩ := h₂
  refine ⟨c₁ ++ c₂, by simp [Array.append_assoc], fun c hc => ?_⟩
  rcases List.mem_append.1 hc with h | h
  · exact hc₁ c h
  · exact hc₂ c h
theorem LitExt.alloc (σ : Store) (items : List Value) : LitExt σ (σ.allocVec false items).2 :=
  ⟨[{ mutable := false, items := items }], by simp [Store.allocVec], by simp⟩

mutual
theorem readLiteral_litExt : ∀ (d : Datum) (σ : Store), LitExt σ (readLiteral σ d).2
  | .prim p _, σ => by rw [readLiteral]; split <;> exact LitExt.refl σ
  | .sym _ _, σ => by rw [readLiteral]; exact LitExt.refl σ
  | .nil _, σ => by rw [readLiteral]; exact LitExt.refl σ
  | .pair a d _, σ => by
    rw [readLiteral]
    have h₁ := readLiteral_litExt a σ
    split
    · rename_i heq; rw [heq] at h₁; exact h₁
    · rename_i va σ₁ heq; rw [heq] at h₁
      have h₂ := readLiteral_litExt d σ₁
      split
      · rename_i heq₂; rw [heq₂] at h₂; exact h₁.trans h₂
      · rename_i heq₂; rw [heq₂] at h₂; exact h₁.trans h₂
  | .vec xs _, σ => by
    rw [readLiteral]
    have h₁ := readLiterals_litExt xs σ
    split
    · rename_i heq; rw [heq] at h₁; exact h₁
    · rename_i vs σ₁ heq; rw [heq] at h₁
      exact h₁.trans (LitExt.alloc σ₁ vs)
theorem readLiterals_litExt : ∀ (ds : List Datum) (σ : Store), LitExt σ (readLiterals σ ds).2
  | [], σ => by rw [readLiterals]; exact LitExt.refl σ
  | x :: xs, σ => by
    rw [readLiterals]
    have h₁ := readLiteral_litExt x σ
    split
    · rename_i heq; rw [heq] at h₁; exact h₁
    · rename_i va σ₁ heq; rw [heq] at h₁
      have h₂ := readLiterals_litExt xs σ₁
      split
      · rename_i heq₂; rw [heq₂] at h₂; exact h₁.trans h₂
      · rename_i heq₂; rw [heq₂] at h₂; exact h₁.trans h₂
end

theorem LitExt.old_cells {σ σ' : Store} (h : LitExt σ σ') {i : Nat} (hi : i < σ.vecs.size) :
    σ'.vecs[i]? = σ.vecs[i]? := by
  obtain ⟨cells, rfl, _⟩ := h
  simp only
  rw [Array.getElem?_append_left hi]

theorem LitExt.new_cells {σ σ' : Store} (h : LitExt σ σ') {i : Nat} {c : VecCell}
    (hc : σ'.vecs[i]? = some c) (hi : σ.vecs.size ≤ i) : c.mutable = false := by
  obtain ⟨cells, rfl, him⟩ := h
  simp only at hc
  rw [Array.getElem?_append_right hi] at hc
  exact him c (by
    have := Array.mem_of_getElem? hc
    simpa using this)

theorem LitExt.rest {σ σ' : Store} (h : LitExt σ σ') :
    σ'.frames = σ.frames ∧ σ'.out = σ.out ∧ σ'.ticks = σ.ticks ∧ σ'.depth = σ.depth ∧ σ'.maxDepth = σ.maxDepth := by
  obtain ⟨cells, rfl, _⟩ := h; exact ⟨rfl, rfl, rfl, rfl, rfl⟩

mutual
theorem readLiteral_ne_fuel : ∀ (d : Datum) (σ : Store), NotFuel (readLiteral σ d).1
  | .prim p _, σ => by
    rw [readLiteral]; split
    · simp
    · rename_i h; exact .error_of (evalPrim_ne_fuel h)
  | .sym _ _, σ => by rw [readLiteral]; simp
  | .nil _, σ => by rw [readLiteral]; simp
  | .pair a d _, σ => by
    rw [readLiteral]
    have h₁ := readLiteral_ne_fuel a σ
    split
    · rename_i heq; rw [heq] at h₁; exact h₁
    · rename_i va σ₁ heq
      have h₂ := readLiteral_ne_fuel d σ₁
      split
      · rename_i heq₂; rw [heq₂] at h₂; exact h₂
      · simp
  | .vec xs _, σ => by
    rw [readLiteral]
    have h₁ := readLiterals_ne_fuel xs σ
    split
    · rename_i heq; rw [heq] at h₁; exact h₁.cast
    · simp
theorem readLiterals_ne_fuel : ∀ (ds : List Datum) (σ : Store), NotFuel (readLiterals σ ds).1
  | [], σ => by rw [readLiterals]; simp
  | x :: xs, σ => by
    rw [readLiterals]
    have h₁ := readLiteral_ne_fuel x σ
    split
    · rename_i heq; rw [heq] at h₁; exact h₁.cast
    · rename_i va σ₁ heq
      have h₂ := readLiterals_ne_fuel xs σ₁
      split
      · rename_i heq₂; rw [heq₂] at h₂; exact h₂
      · simp
end

end Eval

/-! ## division by an exact zero -/

namespace Num

/-- exact numbers: integers and ratios -/
def Exact : Num → Prop
  | .real _ => False
  | _ => True

/-- an exact zero, in either representation (`0`, or a ratio with numerator `0`) -/
def ExactZero : Num → Prop
  | .int i => i = 0
  | .rat n _ => n = 0
  | .real _ => False

/-- `/` with an exact dividend and an exact zero divisor: every branch of `upcast` -/
theorem div_exactZero {a b : Num} (ha : a.Exact) (hb : b.ExactZero) : div a b = .error .divZero := by
  cases a <;> cases b <;> simp_all [Exact, ExactZero, div, upcast]

theorem floorQuotient_exactZero {a b : Num} (ha : a.Exact) (hb : b.ExactZero) :
    floorQuotient a b = .error .divZero := by
  unfold floorQuotient; rw [div_exactZero ha hb]; rfl

theorem floorRemainder_exactZero {a b : Num} (ha : a.Exact) (hb : b.ExactZero) :
    floorRemainder a b = .error .divZero := by
  unfold floorRemainder; rw [floorQuotient_exactZero ha hb]; rfl

end Num

namespace Prim

theorem foldNum_div_zero {init acc b : Num} {pre post : List Value}
    (hpre : foldNum Num.div init pre = .ok acc) (ha : acc.Exact) (hb : b.ExactZero) :
    foldNum Num.div init (pre ++ .num b :: post) = .error .divZero := by
  unfold foldNum at *
  rw [List.foldlM_append, hpre]
  simp only [List.foldlM_cons, expectNumber]
  show (Num.div acc b >>= _) = _
  rw [Num.div_exactZero ha hb]; rfl

/-! ### `divArgs`: the check for an exact zero divisor among exact operands -/

theorem notReal_of_exact {x : Num} (h : x.Exact) : x.notReal = true := by
  cases x <;> first | rfl | exact absurd h id

theorem exact_of_exactZero {b : Num} (h : b.ExactZero) : b.Exact := by
  cases b <;> first | trivial | exact absurd h id

theorem isExactZero_of_exactZero {b : Num} (h : b.ExactZero) : b.isExactZero = true := by
  cases b with
  | int i => cases (show i = 0 from h); rfl
  | rat n d => cases (show n = 0 from h); rfl
  | real r => exact absurd h id

/-- the exact prefix of exact numbers followed by anything -/
theorem exactPrefix_map_append : ∀ {pre : List Num}, (∀ x ∈ pre, x.Exact) → ∀ (rest : List Value),
    exactPrefix (pre.map Value.num ++ rest) = pre ++ exactPrefix rest
  | [], _, _ => rfl
  | x :: pre, h, rest => by
    show exactPrefix (.num x :: (pre.map Value.num ++ rest)) = _
    rw [exactPrefix, if_pos (notReal_of_exact (h x (List.mem_cons_self ..))),
      exactPrefix_map_append (fun y hy => h y (List.mem_cons_of_mem _ hy))]
    rfl

theorem divArgs_singleton (v : Value) :
    divArgs [v] = if (exactPrefix [v]).any Num.isExactZero then .error .divZero else subDiv Num.div (.int 1) [v] := rfl

theorem divArgs_cons_cons (x y : Value) (rest : List Value) :
    divArgs (x :: y :: rest) =
      if ((exactPrefix (x :: y :: rest)).drop 1).any Num.isExactZero then .error .divZero
      else subDiv Num.div (.int 1) (x :: y :: rest) := rfl

/-- a first argument that is not a number: the check does not fire -/
theorem divArgs_first_nonnum {x : Value} {rest : List Value} (hx : ¬ IsNum x) :
    divArgs (x :: rest) = subDiv Num.div (.int 1) (x :: rest) := by
  have : ∀ l, exactPrefix (x :: l) = [] := by
    intro l; cases x <;> first | rfl | exact absurd trivial hx
  cases rest with
  | nil => rw [divArgs_singleton, this]; rfl
  | cons y more => rw [divArgs_cons_cons, this]; rfl

/-- a second argument that is not a number: the check does not fire -/
theorem divArgs_second_nonnum {a : Num} {x : Value} {rest : List Value} (hx : ¬ IsNum x) :
    divArgs (.num a :: x :: rest) = subDiv Num.div (.int 1) (.num a :: x :: rest) := by
  have : exactPrefix (x :: rest) = [] := by
    cases x <;> first | rfl | exact absurd trivial hx
  rw [divArgs_cons_cons, exactPrefix, this]
  split <;> rfl

/-- THE CHECK FIRES: the operands before position `j = pre.length` are exact numbers, the operand at `j` is an exact
zero, and it is a divisor (`j ≥ 1`, or the single operand of the one-argument form). Nothing is assumed about the
running quotient, and nothing about what follows (also non-numbers). -/
theorem divArgs_exact_zero {pre : List Num} {b : Num} {post : List Value} (hpre : ∀ x ∈ pre, x.Exact)
    (hb : b.ExactZero) (hj : pre ≠ [] ∨ post = []) :
    divArgs (pre.map Value.num ++ .num b :: post) = .error .divZero := by
  have hp : exactPrefix (pre.map Value.num ++ .num b :: post) = pre ++ b :: exactPrefix post := by
    rw [exactPrefix_map_append hpre, exactPrefix, if_pos (notReal_of_exact (exact_of_exactZero hb))]
  have hz := isExactZero_of_exactZero hb
  cases pre with
  | nil =>
    rcases hj with hj | rfl
    · exact absurd rfl hj
    · show divArgs [.num b] = _
      rw [divArgs_singleton, if_pos]
      rw [show exactPrefix [Value.num b] = [] ++ b :: exactPrefix [] from hp]
      simp [hz]
  | cons x pre =>
    obtain ⟨y, more, hy⟩ : ∃ y more, pre.map Value.num ++ .num b :: post = y :: more := by
      cases pre with
      | nil => exact ⟨_, _, rfl⟩
      | cons p pre => exact ⟨_, _, rfl⟩
    have he : (x :: pre).map Value.num ++ .num b :: post = .num x :: y :: more := by
      rw [← hy]; rfl
    rw [he] at hp ⊢
    rw [divArgs_cons_cons, if_pos]
    rw [hp]
    simp [hz]

end Prim

/-! ## the applications performed by one run of the trampoline -/

namespace Eval
open Prim

/-- `Reaches env σ p args σq q qargs`: the loop `applyLoop` started in store `σ` with procedure `p`
and arguments `args` arrives, in store `σq`, at the head of an iteration with procedure `q` and
arguments `qargs` — through `apply` (whose spread arguments become the next iteration) and through
pending tail calls of user procedures (operator and operands evaluated, procedure test passed).
Every procedure the loop applies is reached this way. -/
inductive Reaches (env : Nat) : Store → Value → List Value → Store → Value → List Value → Prop
  | refl {σ p args} : Reaches env σ p args σ p args
  | apply {σ args f args' σq q qargs} (ha : 1 ≤ args.length) (hs : spreadApply args = .ok (f, args'))
      (h : Reaches env σ f args' σq q qargs) : Reaches env σ (.builtin .apply) args σq q qargs
  | tail {σ lam cenv args f targs tenv σ₁ fv σ₂ vs σ₃ σq q qargs}
      (ha : arityOk lam.formals.fixed.length lam.formals.rest.isSome args.length = true)
      (hs : AppliesScheme σ lam cenv args (.ok (.tailCall f targs tenv)) σ₁)
      (hf : Evals σ₁ tenv f (.ok fv) σ₂) (hargs : EvalsArgs σ₂ tenv targs (.ok vs) σ₃)
      (hp : (procArity fv).isSome) (h : Reaches env σ₃ fv vs σq q qargs) :
      Reaches env σ (.closure lam cenv) args σq q qargs

/-- the outcome of the loop is the outcome of the loop continued from any iteration it reaches -/
theorem Reaches.applies {env σ p args σq q qargs r σ'} (h : Reaches env σ p args σq q qargs)
    (hq : Applies σq q qargs env r σ') : Applies σ p args env r σ' := by
  induction h with
  | refl => exact hq
  | apply ha hs _ ih => exact Applies.apply ha hs (ih hq)
  | tail ha hs hf hargs hp _ ih => exact Applies.closure_tail ha hs hf hargs hp (ih hq)

theorem Reaches.trans {env σ p args σ₁ p₁ args₁ σ₂ p₂ args₂} (h : Reaches env σ p args σ₁ p₁ args₁)
    (h₂ : Reaches env σ₁ p₁ args₁ σ₂ p₂ args₂) : Reaches env σ p args σ₂ p₂ args₂ := by
  induction h with
  | refl => exact h₂
  | apply ha hs _ ih => exact .apply ha hs (ih h₂)
  | tail ha hs hf hargs hp _ ih => exact .tail ha hs hf hargs hp (ih h₂)

/-! ### one unfolding of the loop, case by case: the arity gate, then the step -/

/-- THE ARITY GATE: whatever the procedure, an argument count its parameter list does not accept
ends the iteration before anything else happens -/
theorem applyLoop_arity_gate (n : Nat) (σ : Store) {p : Value} {args : List Value} (env : Nat) {fixed variadic}
    (hp : procArity p = some (fixed, variadic)) (ha : arityOk fixed variadic args.length = false) :
    applyLoop (n+1) σ p args env = (.error (.arity, none), σ) := by
  unfold applyLoop; simp only [hp, ha]; simp

theorem applyLoop_not_proc (n : Nat) (σ : Store) {p : Value} (args : List Value) (env : Nat)
    (hp : procArity p = none) :
    applyLoop (n+1) σ p args env = (.error (.panic "apply_procedure: not a procedure", none), σ) := by
  unfold applyLoop; simp only [hp]

theorem applyLoop_builtin_step (n : Nat) (σ : Store) {b : Builtin} {args : List Value} (env : Nat)
    (hb : b ≠ .apply) (ha : arityOk b.arity.1 b.arity.2 args.length = true) :
    applyLoop (n+1) σ (.builtin b) args env = applyPure σ b args := by
  rw [applyLoop]
  · simp only [procArity, ha]; simp
  · exact fun h => hb h

/-- `apply`: after the gate the loop continues — a new iteration, with a new gate — with the
procedure it was handed and the spread arguments -/
theorem applyLoop_apply_step (n : Nat) (σ : Store) {args : List Value} (env : Nat) {f args'}
    (ha : 1 ≤ args.length) (hs : spreadApply args = .ok (f, args')) :
    applyLoop (n+1) σ (.builtin .apply) args env = applyLoop n σ f args' env := by
  rw [applyLoop]
  have : arityOk 1 true args.length = true := by
    have : ¬ args.length < 1 := by omega
    simp [arityOk, this]
  simp only [procArity, Builtin.arity, this, hs]; simp

theorem applyLoop_apply_err (n : Nat) (σ : Store) {args : List Value} (env : Nat) {er}
    (ha : 1 ≤ args.length) (hs : spreadApply args = .error er) :
    applyLoop (n+1) σ (.builtin .apply) args env = (.error (er, none), σ) := by
  rw [applyLoop]
  have : arityOk 1 true args.length = true := by
    have : ¬ args.length < 1 := by omega
    simp [arityOk, this]
  simp only [procArity, Builtin.arity, this, hs]; simp

/-- a user procedure whose body ends in a pending tail call: operator and operands are evaluated and
the loop continues — a new iteration, with a new gate — with the callee -/
theorem applyLoop_tail_step (n : Nat) {σ : Store} {lam : Lambda} {cenv : Nat} {args : List Value} (env : Nat)
    {f targs tenv σ₁ fv σ₂ vs σ₃}
    (ha : arityOk lam.formals.fixed.length lam.formals.rest.isSome args.length = true)
    (hs : applyScheme n σ lam cenv args = (.ok (.tailCall f targs tenv), σ₁))
    (hf : evalExpr n σ₁ tenv f = (.ok fv, σ₂)) (hargs : evalArgs n σ₂ tenv targs = (.ok vs, σ₃))
    (hp : (procArity fv).isSome) :
    applyLoop (n+1) σ (.closure lam cenv) args env = applyLoop n σ₃ fv vs env := by
  obtain ⟨a, hpa⟩ := Option.isSome_iff_exists.mp hp
  rw [applyLoop]; simp only [procArity, ha, hs, hf, hargs]
  simp only [procArity] at hpa
  simp [hpa]

theorem applyLoop_value_step (n : Nat) {σ : Store} {lam : Lambda} {cenv : Nat} {args : List Value} (env : Nat)
    {v σ₁} (ha : arityOk lam.formals.fixed.length lam.formals.rest.isSome args.length = true)
    (hs : applyScheme n σ lam cenv args = (.ok (.value v), σ₁)) :
    applyLoop (n+1) σ (.closure lam cenv) args env = (.ok v, σ₁) := by
  rw [applyLoop]; simp only [procArity, ha, hs]; simp

/-! ## sequences: operands, bodies, definitions -/

/-- the expressions `es` evaluate in order, each to some value (which is dropped), from `σ` to `σ'` -/
inductive EvalsSeq (ρ : Nat) : Store → List Expr → Store → Prop
  | nil {σ} : EvalsSeq ρ σ [] σ
  | cons {σ e v σ₁ es σ'} (h : Evals σ ρ e (.ok v) σ₁) (ht : EvalsSeq ρ σ₁ es σ') : EvalsSeq ρ σ (e :: es) σ'

/-- the body of a procedure: everything before the last expression is evaluated for effect, the
last expression as a tail expression -/
theorem EvalsBody.seq_last {ρ σ es σ₁ last r σ'} (hs : EvalsSeq ρ σ es σ₁) (ht : EvalsTail σ₁ ρ last r σ') :
    EvalsBody σ ρ (es ++ [last]) r σ' := by
  induction hs with
  | nil => exact EvalsBody.last ht
  | @cons σ e v σ₁ es σ₂ h _ ih =>
    have := ih ht
    cases es with
    | nil => exact EvalsBody.cons h this
    | cons e' es' => exact EvalsBody.cons h this


/-- an error among the operands: the operands before it have been evaluated, the operands after it
are not looked at (`post` is arbitrary), the store is the one the failing operand left -/
theorem EvalsArgs.append_err {ρ post a er} : ∀ {pre σ vs σ₁ σ₂}, EvalsArgs σ ρ pre (.ok vs) σ₁ →
    Evals σ₁ ρ a (.error er) σ₂ → EvalsArgs σ ρ (pre ++ a :: post) (.error er) σ₂
  | [], σ, vs, σ₁, σ₂, hp, ha => by
    obtain ⟨_, rfl⟩ := hp.nil_inv
    exact EvalsArgs.cons_err ha
  | p :: pre, σ, vs, σ₁, σ₂, hp, ha => by
    rcases hp.cons_inv with ⟨er', _, h⟩ | ⟨v, σ', hv, ⟨er', _, h⟩ | ⟨vs', hvs, _⟩⟩
    · cases h
    · cases h
    · exact EvalsArgs.cons_tail_err hv (EvalsArgs.append_err hvs ha)

/-- the operands as a sequence -/
theorem EvalsArgs.of_seq {ρ σ es σ'} (h : EvalsSeq ρ σ es σ') : ∃ vs, EvalsArgs σ ρ es (.ok vs) σ' := by
  induction h with
  | nil => exact ⟨[], EvalsArgs.nil⟩
  | cons h _ ih => obtain ⟨vs, hvs⟩ := ih; exact ⟨_, EvalsArgs.cons h hvs⟩

/-- an error in a body expression that is not the last one: the expressions before it have been
evaluated, the rest of the body is not looked at -/
theorem EvalsBody.seq_err {ρ σ es σ₁ e er σ₂ e' post} (hs : EvalsSeq ρ σ es σ₁)
    (he : Evals σ₁ ρ e (.error er) σ₂) : EvalsBody σ ρ (es ++ e :: e' :: post) (.error er) σ₂ := by
  induction hs with
  | nil => exact EvalsBody.cons_err he
  | @cons σ x v σ₁ es σ₃ h _ ih =>
    have := ih he
    cases es with
    | nil => exact EvalsBody.cons h this
    | cons _ _ => exact EvalsBody.cons h this

/-- the definitions `ds` are evaluated and bound in frame `ρ` in order, from `σ` to `σ'` -/
inductive EvalsDefSeq (ρ : Nat) : Store → List Def → Store → Prop
  | nil {σ} : EvalsDefSeq ρ σ [] σ
  | cons {σ x e l v σ₁ ds σ'} (h : Evals σ ρ e (.ok v) σ₁) (ht : EvalsDefSeq ρ (σ₁.define ρ x v) ds σ') :
      EvalsDefSeq ρ σ (.mk x e l :: ds) σ'

theorem EvalsDefs.seq_then {ρ σ ds σ₁ rest r σ'} (hs : EvalsDefSeq ρ σ ds σ₁) (ht : EvalsDefs σ₁ ρ rest r σ') :
    EvalsDefs σ ρ (ds ++ rest) r σ' := by
  induction hs with
  | nil => exact ht
  | cons h _ ih => exact EvalsDefs.cons h (ih ht)

/-- an error in an internal definition: the definitions before it are bound, the ones after it and
the body are not looked at -/
theorem EvalsDefs.seq_err {ρ σ ds σ₁ x e l er σ₂ post} (hs : EvalsDefSeq ρ σ ds σ₁)
    (he : Evals σ₁ ρ e (.error er) σ₂) : EvalsDefs σ ρ (ds ++ .mk x e l :: post) (.error er) σ₂ :=
  EvalsDefs.seq_then hs (EvalsDefs.cons_err he)

/-! ## inversion of one iteration of the loop on a user procedure -/

/-- everything a settled iteration of the loop on a user procedure can consist of -/
theorem Applies.closure_inv {σ lam cenv args env r σ'} (h : Applies σ (.closure lam cenv) args env r σ') :
    (arityOk lam.formals.fixed.length lam.formals.rest.isSome args.length = false ∧
      r = .error (.arity, none) ∧ σ' = σ) ∨
    (arityOk lam.formals.fixed.length lam.formals.rest.isSome args.length = true ∧
      ((∃ er, AppliesScheme σ lam cenv args (.error er) σ' ∧ r = .error er) ∨
       (∃ v, AppliesScheme σ lam cenv args (.ok (.value v)) σ' ∧ r = .ok v) ∨
       (∃ f targs tenv σ₁, AppliesScheme σ lam cenv args (.ok (.tailCall f targs tenv)) σ₁ ∧
          ((∃ er, Evals σ₁ tenv f (.error er) σ' ∧ r = .error er) ∨
           (∃ fv σ₂, Evals σ₁ tenv f (.ok fv) σ₂ ∧
              ((∃ er, EvalsArgs σ₂ tenv targs (.error er) σ' ∧ r = .error er) ∨
               (∃ vs σ₃, EvalsArgs σ₂ tenv targs (.ok vs) σ₃ ∧
                  ((procArity fv = none ∧ r = .error (.nonProcedure, f.loc) ∧ σ' = σ₃) ∨
                   ((procArity fv).isSome ∧ Applies σ₃ fv vs env r σ'))))))))) := by
  obtain ⟨hr, N, hN⟩ := h.out
  clear h
  have h := hN (N+1) (by omega)
  clear hN
  cases ha : arityOk lam.formals.fixed.length lam.formals.rest.isSome args.length with
  | false =>
    rw [applyLoop_arity_gate N σ env (p := .closure lam cenv) rfl ha] at h
    cases h; exact .inl ⟨rfl, rfl, rfl⟩
  | true =>
    refine .inr ⟨rfl, ?_⟩
    rw [applyLoop] at h
    simp only [procArity, ha, Bool.not_true, Bool.false_eq_true, if_false] at h
    split at h
    next er σ₁ heq => cases h; exact .inl ⟨er, AppliesScheme.intro heq hr.cast, rfl⟩
    next v σ₁ heq => cases h; exact .inr (.inl ⟨v, AppliesScheme.intro heq (by simp), rfl⟩)
    next f targs tenv σ₁ heq =>
      refine .inr (.inr ⟨f, targs, tenv, σ₁, AppliesScheme.intro heq (by simp), ?_⟩)
      split at h
      next er σ₂ heq₂ => cases h; exact .inl ⟨er, Evals.intro heq₂ hr, rfl⟩
      next fv σ₂ heq₂ =>
        refine .inr ⟨fv, σ₂, Evals.intro heq₂ (by simp), ?_⟩
        split at h
        next er σ₃ heq₃ => cases h; exact .inl ⟨er, EvalsArgs.intro heq₃ hr.cast, rfl⟩
        next vs σ₃ heq₃ =>
          refine .inr ⟨vs, σ₃, EvalsArgs.intro heq₃ (by simp), ?_⟩
          split at h
          next hpa => cases h; exact .inl ⟨hpa, rfl, rfl⟩
          next a hpa => exact .inr ⟨by simp [procArity, hpa], Applies.intro h hr⟩

/-! ### a failing native procedure, in every way it can be invoked -/

/-- the native procedure `b` applied to `args` in store `σ` is stopped with an error of kind `k`,
THE STORE UNCHANGED: as a plain run of the native code (`pure`), as an iteration of the trampoline,
whatever the calling frame (`loop`), and as a whole activation (`proc`; `leave (enter σ)` is `σ`
with the activation counted in `maxDepth`) -/
structure BuiltinFault (σ : Store) (b : Builtin) (args : List Value) (k : Err) : Prop where
  pure : applyPure σ b args = (.error (k, none), σ)
  loop : ∀ env, Applies σ (.builtin b) args env (.error (k, none)) σ
  proc : ∀ env, AppliesProc σ (.builtin b) args env (.error (k, none)) (leave (enter σ))

theorem BuiltinFault.intro {σ b args k} (hb : b ≠ .apply) (ha : arityOk b.arity.1 b.arity.2 args.length = true)
    (hk : k ≠ .fuel) (h : applyPure σ b args = (.error (k, none), σ))
    (h' : applyPure (enter σ) b args = (.error (k, none), enter σ)) : BuiltinFault σ b args k :=
  ⟨h, fun _ => Applies.builtin hb ha h (.error_of hk),
   fun _ => AppliesProc.of_loop (Applies.builtin hb ha h' (.error_of hk))⟩

@[simp] theorem vecs_enter (σ : Store) : (enter σ).vecs = σ.vecs := rfl
@[simp] theorem frames_enter (σ : Store) : (enter σ).frames = σ.frames := rfl

end Eval

/-! ## the interpreter around the evaluator -/

namespace Interp
open Eval

/-- `eval_expression_or_definition` changes nothing but the store -/
theorem evalExprOrDef_state (fuel : Nat) (st : State) (s : Statement) (ρ : Nat) :
    ∃ σ', (evalExprOrDef fuel st s ρ).2 = { st with store := σ' } := by
  unfold evalExprOrDef
  repeat' split
  all_goals first | exact ⟨_, rfl⟩ | exact ⟨st.store, rfl⟩

/-- what `eval_ast` returns for an expression: the evaluator's outcome (a missing error location
replaced by the expression's) and the evaluator's store, in the state otherwise as given -/
theorem evalAst_expr (fuel : Nat) (st : State) (e : Expr) :
    evalAst fuel st (.expr e) =
      ((match (evalExpr fuel st.store st.env e).1 with
        | .ok v => .ok (some v)
        | .error (k, loc) => .error (k, loc.orElse (fun _ => e.loc))),
       { st with store := (evalExpr fuel st.store st.env e).2, importEnd := true }) := by
  unfold evalAst
  cases hi : st.importEnd
  · simp only [Bool.not_false, if_true, evalExprOrDef]
    generalize evalExpr fuel st.store st.env e = x
    obtain ⟨r, σ₁⟩ := x
    cases r with
    | error er => obtain ⟨k, l⟩ := er; rfl
    | ok v => rfl
  · simp only [Bool.not_true, Bool.false_eq_true, if_false, evalExprOrDef]
    generalize evalExpr fuel st.store st.env e = x
    obtain ⟨r, σ₁⟩ := x
    cases st
    simp only at hi
    subst hi
    cases r with
    | error er => obtain ⟨k, l⟩ := er; rfl
    | ok v => rfl

/-- what `eval_ast` returns for a definition: the name is bound only if the expression evaluated -/
theorem evalAst_definition (fuel : Nat) (st : State) (x : String) (e : Expr) (l : Loc) :
    evalAst fuel st (.definition (.mk x e l)) =
      (match evalExpr fuel st.store st.env e with
       | (.ok v, σ) => (.ok none, { st with store := σ.define st.env x v, importEnd := true })
       | (.error (k, loc), σ) =>
         (.error (k, loc.orElse (fun _ => l)), { st with store := σ, importEnd := true })) := by
  unfold evalAst
  cases hi : st.importEnd
  · simp only [Bool.not_false, if_true, evalExprOrDef]
    generalize evalExpr fuel st.store st.env e = x
    obtain ⟨r, σ₁⟩ := x
    cases r with
    | error er => obtain ⟨k, l⟩ := er; rfl
    | ok v => rfl
  · simp only [Bool.not_true, Bool.false_eq_true, if_false, evalExprOrDef]
    generalize evalExpr fuel st.store st.env e = x
    obtain ⟨r, σ₁⟩ := x
    cases st
    simp only at hi
    subst hi
    cases r with
    | error er => obtain ⟨k, l⟩ := er; rfl
    | ok v => rfl

/-- one step of `Interpreter::eval`: the next datum is transformed in the current syntax scope,
evaluated by `eval_ast`, and the REST OF THE TEXT is evaluated from the state `eval_ast` returned;
an error stops the text and returns that state -/
theorem evalText_go_step (fuel n : Nat) (s s' : Read.PState) (st : State) (last : Option Value) (d : Datum)
    (stmt : Statement) (syn : Xform.SynEnv) (hd : Read.nextDatum s = .ok (some d, s'))
    (hx : Xform.toStatement (Xform.xformFuel d) d st.syn = (.ok stmt, syn)) :
    evalText.go fuel (n+1) s st last =
      match evalAst fuel { st with syn := syn } stmt with
      | (.error e, st') => (.error e, st')
      | (.ok v, st') => evalText.go fuel n s' st' v := by
  rw [evalText.go]
  simp only [hd, hx]
  generalize evalAst fuel _ stmt = x
  obtain ⟨r, st'⟩ := x
  cases r <;> rfl

end Interp
end Ruschm

/-
Property C11 — the list library computes what its specification says.

"car, cdr, cons, the twelve c[ad]{2,3}r compositions, list, make-list, null?, pair?, list?, append,
map, for-each, fold-left, fold-right, list-tail, list-ref, last-pair, memq, memv, equal? and apply
return, for every argument in their domain, the result their R7RS (or, for the folds, minischeme)
definition gives, call their procedure argument once per element in list order, and raise an error
rather than return a value when a list is too short for the request."

Only property theorems live here (each audited with `#print axioms`). Vocabulary:

* the SPEC functions (`carS … cdddrS`, `listTailS`, `memS`, `equalS`, …) are plain Lean functions
  on values in `RuschmSpec/ListLib.lean`, with lemmas relating them to `List.drop`, `xs[k]`, …;
* `libProc name b` is the closure over frame `b` of the lambda that the MODEL's transformer makes
  of the definition of `name` in the GENERATED datum of `base.sld` (`RuschmProofs/ListLibLemmas`):
  the theorems are about that code, not about a copy;
* `LibFrame σ b`: frame `b` of `σ` is an instance of `(scheme base)` (every defined name bound to
  its `libProc`, every native bound to its builtin);
* `Applies σ p args env r σ'`: the trampoline loop of `apply_procedure` started with procedure `p`
  and arguments `args` (from a caller in frame `env`) ends with outcome `r` — a value or a
  non-fuel error — in store `σ'` (`RuschmProofs/EvalLemmas`);
* `σ.Ext σ'`: `σ'` is `σ` with frames appended — no existing frame, no vector, no output changed,
  same activation depth. In particular `LibFrame σ' b` still holds (`libFrame_ext`).
-/
import RuschmProofs.ListLibLemmas

namespace Ruschm.C11
open Ruschm Ruschm.Eval Ruschm.ListSpec Ruschm.ListLib

/-! ## sample data for the non-vacuity examples -/

def num (i : Int) : Value := .num (.int i)
/-- `(1 2 3)` -/
def l123 : Value := Value.ofList [num 1, num 2, num 3]

/-- library frames exist: `libStore` is a store whose frame 0 holds exactly the bindings of
`(scheme base)` -/
example : LibFrame libStore 0 := libFrame_libStore

/-- … and they are what the interpreter builds: in a state whose registered `(ruschm base)` is the
native library, `Interp.evalLibraryDef` on the declarations generated from `base.sld` succeeds and
its fresh root frame (here frame 1) is a library frame (`libFrame_of_evalLibraryDef`, for every such
state) -/
example : ∃ exports st', Interp.evalLibraryDef 40
      { store := (({} : Store).newFrame none).2, factories := [(Interp.libRuschmBase, .native Interp.nativeBase)] }
      libDecls = (.ok exports, st') ∧ LibFrame st'.store 1 := by
  obtain ⟨exports, st', h, hl, _⟩ := libFrame_of_evalLibraryDef
    { store := (({} : Store).newFrame none).2, factories := [(Interp.libRuschmBase, .native Interp.nativeBase)] }
    40 (Nat.le_refl _) rfl rfl rfl
  exact ⟨exports, st', h, hl⟩

/-- appending frames keeps the library frame -/
theorem libFrame_ext {σ σ' : Store} {b : Nat} (h : LibFrame σ b) (he : σ.Ext σ') : LibFrame σ' b :=
  h.ext he.framesExt

example : LibFrame (callFrame libStore 0 ⟨["x"], none⟩ [num 1]) 0 :=
  libFrame_ext libFrame_libStore (callFrame_ext _ _ _ _)

/-! ## the natives -/

/-- `car` returns the first component of a pair; on `()` and on any other non-pair it is a type
error; the store is untouched -/
theorem car_spec (σ : Store) (v : Value) (env : Nat) : Applies σ (.builtin .car) [v] env (carS v) σ :=
  Applies.builtin (by decide) (by rfl) (applyPure_car σ v) (notFuel_carS v)

example : carS (.pair (num 1) (num 2)) = .ok (num 1) ∧ carS .nil = .error typeErr ∧
    carS (num 5) = .error typeErr := ⟨rfl, rfl, rfl⟩

theorem cdr_spec (σ : Store) (v : Value) (env : Nat) : Applies σ (.builtin .cdr) [v] env (cdrS v) σ :=
  Applies.builtin (by decide) (by rfl) (applyPure_cdr σ v) (notFuel_cdrS v)

example : cdrS l123 = .ok (Value.ofList [num 2, num 3]) ∧ cdrS .nil = .error typeErr := ⟨rfl, rfl⟩

theorem cons_spec (σ : Store) (a d : Value) (env : Nat) :
    Applies σ (.builtin .cons) [a, d] env (.ok (.pair a d)) σ :=
  Applies.builtin (by decide) (by rfl) (applyPure_cons σ a d) (by simp)

example : Applies libStore (.builtin .cons) [num 1, .nil] 0 (.ok (Value.ofList [num 1])) libStore :=
  cons_spec _ _ _ _

theorem pair_spec (σ : Store) (v : Value) (env : Nat) :
    Applies σ (.builtin .isPair) [v] env (.ok (.bool (isPair v))) σ :=
  Applies.builtin (by decide) (by rfl) (applyPure_isPair σ v) (by simp)

example : isPair l123 = true ∧ isPair .nil = false := ⟨rfl, rfl⟩

/-- `(apply f a … lst)` continues the loop with `f` applied to `a …` followed by the elements of
`lst`, which must be a pair or `()`. DEVIATION from R7RS: an improper `lst` is accepted and its
final tail becomes a last argument (`Value.elems`). -/
theorem apply_spec {σ : Store} {f : Value} {init : List Value} {last : Value} {env : Nat}
    {r : Except SErr Value} {σ' : Store} (hf : (procArity f).isSome) (hl : isPair last = true ∨ last = .nil)
    (h : Applies σ f (init ++ last.elems) env r σ') :
    Applies σ (.builtin .apply) (f :: (init ++ [last])) env r σ' := by
  refine Applies.apply (by simp) ?_ h
  obtain ⟨a, ha⟩ := Option.isSome_iff_exists.mp hf
  simp only [spreadApply, ha, List.getLast?_append, List.getLast?_singleton,
    List.dropLast_concat]
  rcases hl with hl | rfl
  · cases last <;> simp_all [isPair]
  · rfl

/-- `(apply f)` applies `f` to no argument; a last argument that is not a list is a type error,
an operator that is not a procedure a non-procedure error -/
theorem apply_spec_edge {σ : Store} {f : Value} {env : Nat} :
    (∀ {r σ'}, (procArity f).isSome → Applies σ f [] env r σ' → Applies σ (.builtin .apply) [f] env r σ') ∧
    (∀ init last, (procArity f).isSome → isPair last = false → last ≠ .nil →
      Applies σ (.builtin .apply) (f :: (init ++ [last])) env (.error typeErr) σ) ∧
    (∀ rest, procArity f = none →
      Applies σ (.builtin .apply) (f :: rest) env (.error (.nonProcedure, none)) σ) := by
  refine ⟨fun hf h => ?_, fun init last hf hp hn => ?_, fun rest hf => ?_⟩
  · refine Applies.apply (by simp) ?_ h
    obtain ⟨a, ha⟩ := Option.isSome_iff_exists.mp hf
    simp [spreadApply, ha]
  · refine Applies.apply_err (by simp) ?_ (by simp)
    obtain ⟨a, ha⟩ := Option.isSome_iff_exists.mp hf
    simp only [spreadApply, ha, List.getLast?_append, List.getLast?_singleton]
    cases last <;> simp_all [isPair]
  · exact Applies.apply_err (by simp) (by simp [spreadApply, hf]) (by simp)

/-- `(apply cons 1 '(2))` is `(cons 1 2)` -/
example : Applies libStore (.builtin .apply) [.builtin .cons, num 1, Value.ofList [num 2]] 0
    (.ok (.pair (num 1) (num 2))) libStore :=
  apply_spec (init := [num 1]) (by rfl) (.inl rfl) (cons_spec _ _ _ _)

/-! ## procedures written in Scheme in `base.sld`

Each theorem: in every store with the library frame, whoever the caller, the procedure applied to
the arguments has the outcome the spec function gives — the error included when the list is too
short — and the store is only extended by frames. -/

section lib
variable {σ : Store} {b : Nat}

/-- `(null? x)` is `(eqv? x '())`: true exactly for the empty list -/
theorem null_spec (h : LibFrame σ b) (x : Value) (env : Nat) :
    ∃ σ', Applies σ (libProc "null?" b) [x] env (.ok (.bool (isNil x))) σ' ∧ σ.Ext σ' :=
  papp_null b x σ env h rfl

example : ∃ σ', Applies libStore (libProc "null?" 0) [.nil] 0 (.ok (.bool true)) σ' ∧ libStore.Ext σ' :=
  null_spec libFrame_libStore .nil 0

theorem caar_spec (h : LibFrame σ b) (x : Value) (env : Nat) :
    ∃ σ', Applies σ (libProc "caar" b) [x] env (caarS x) σ' ∧ σ.Ext σ' := papp_caar b x σ env h rfl
theorem cadr_spec (h : LibFrame σ b) (x : Value) (env : Nat) :
    ∃ σ', Applies σ (libProc "cadr" b) [x] env (cadrS x) σ' ∧ σ.Ext σ' := papp_cadr b x σ env h rfl
theorem cdar_spec (h : LibFrame σ b) (x : Value) (env : Nat) :
    ∃ σ', Applies σ (libProc "cdar" b) [x] env (cdarS x) σ' ∧ σ.Ext σ' := papp_cdar b x σ env h rfl
theorem cddr_spec (h : LibFrame σ b) (x : Value) (env : Nat) :
    ∃ σ', Applies σ (libProc "cddr" b) [x] env (cddrS x) σ' ∧ σ.Ext σ' := papp_cddr b x σ env h rfl
theorem caaar_spec (h : LibFrame σ b) (x : Value) (env : Nat) :
    ∃ σ', Applies σ (libProc "caaar" b) [x] env (caaarS x) σ' ∧ σ.Ext σ' := papp_caaar b x σ env h rfl
theorem caadr_spec (h : LibFrame σ b) (x : Value) (env : Nat) :
    ∃ σ', Applies σ (libProc "caadr" b) [x] env (caadrS x) σ' ∧ σ.Ext σ' := papp_caadr b x σ env h rfl
theorem cadar_spec (h : LibFrame σ b) (x : Value) (env : Nat) :
    ∃ σ', Applies σ (libProc "cadar" b) [x] env (cadarS x) σ' ∧ σ.Ext σ' := papp_cadar b x σ env h rfl
theorem caddr_spec (h : LibFrame σ b) (x : Value) (env : Nat) :
    ∃ σ', Applies σ (libProc "caddr" b) [x] env (caddrS x) σ' ∧ σ.Ext σ' := papp_caddr b x σ env h rfl
theorem cdaar_spec (h : LibFrame σ b) (x : Value) (env : Nat) :
    ∃ σ', Applies σ (libProc "cdaar" b) [x] env (cdaarS x) σ' ∧ σ.Ext σ' := papp_cdaar b x σ env h rfl
theorem cdadr_spec (h : LibFrame σ b) (x : Value) (env : Nat) :
    ∃ σ', Applies σ (libProc "cdadr" b) [x] env (cdadrS x) σ' ∧ σ.Ext σ' := papp_cdadr b x σ env h rfl
theorem cddar_spec (h : LibFrame σ b) (x : Value) (env : Nat) :
    ∃ σ', Applies σ (libProc "cddar" b) [x] env (cddarS x) σ' ∧ σ.Ext σ' := papp_cddar b x σ env h rfl
theorem cdddr_spec (h : LibFrame σ b) (x : Value) (env : Nat) :
    ∃ σ', Applies σ (libProc "cdddr" b) [x] env (cdddrS x) σ' ∧ σ.Ext σ' := papp_cdddr b x σ env h rfl

/-- what the compositions select from a structure that is long enough, and the error when it is
too short -/
example (a b c d e f g : Value) :
    caarS (.pair (.pair a b) c) = .ok a ∧ cadrS (.pair a (.pair b c)) = .ok b ∧
    cdarS (.pair (.pair a b) c) = .ok b ∧ cddrS (.pair a (.pair b c)) = .ok c ∧
    caaarS (.pair (.pair (.pair a b) c) d) = .ok a ∧ caadrS (.pair a (.pair (.pair b c) d)) = .ok b ∧
    cadarS (.pair (.pair a (.pair b c)) d) = .ok b ∧ caddrS (.pair a (.pair b (.pair c d))) = .ok c ∧
    cdaarS (.pair (.pair (.pair a b) c) d) = .ok b ∧ cdadrS (.pair a (.pair (.pair b c) d)) = .ok c ∧
    cddarS (.pair (.pair a (.pair b c)) d) = .ok c ∧ cdddrS (.pair a (.pair b (.pair c d))) = .ok d ∧
    caddrS (Value.ofList [e, f]) = .error typeErr ∧ cdddrS (Value.ofList [e, f]) = .error typeErr ∧
    caarS (Value.ofList [num 1]) = .error typeErr ∧ cadrS (Value.ofList [g]) = .error typeErr :=
  ⟨rfl, rfl, rfl, rfl, rfl, rfl, rfl, rfl, rfl, rfl, rfl, rfl, rfl, rfl, rfl, rfl⟩

example : ∃ σ', Applies libStore (libProc "caddr" 0) [l123] 0 (.ok (num 3)) σ' ∧ libStore.Ext σ' :=
  caddr_spec libFrame_libStore l123 0
example : ∃ σ', Applies libStore (libProc "cdddr" 0) [Value.ofList [num 1, num 2]] 0 (.error typeErr) σ' ∧
    libStore.Ext σ' :=
  cdddr_spec libFrame_libStore _ 0

/-- `(list a …)` returns the list of its arguments -/
theorem list_spec (h : LibFrame σ b) (args : List Value) (env : Nat) :
    ∃ σ', Applies σ (libProc "list" b) args env (.ok (Value.ofList args)) σ' ∧ σ.Ext σ' :=
  papp_list b args σ env h rfl

example : ∃ σ', Applies libStore (libProc "list" 0) [num 1, num 2, num 3] 0 (.ok l123) σ' ∧ libStore.Ext σ' :=
  list_spec libFrame_libStore _ 0

/-- `(list-tail x k)` for an index `0 ≤ k` (in the `i32` range of the interpreter's integers): `k`
times `cdr` — for a proper list `List.drop k` (`listTailS_ofList`) — and the `cdr` type error when
the list has fewer than `k` elements (`listTailS_short`).
DEVIATION: a negative or non-integer `k` never satisfies `(= k 0)`; the recursion then runs down
the whole list and ends in the `cdr` error (not proved here: outside the domain). -/
theorem list_tail_spec (h : LibFrame σ b) (x : Value) (k : Nat) (hk : (k : Int) ≤ 2147483647) (env : Nat) :
    ∃ σ', Applies σ (libProc "list-tail" b) [x, .num (.int k)] env (listTailS x k) σ' ∧ σ.Ext σ' :=
  papp_list_tail b k x hk σ env h rfl

example : ∃ σ', Applies libStore (libProc "list-tail" 0) [l123, num 2] 0 (.ok (Value.ofList [num 3])) σ' ∧
    libStore.Ext σ' :=
  list_tail_spec libFrame_libStore l123 2 (by decide) 0
/-- too short: an error, not a value -/
example : ∃ σ', Applies libStore (libProc "list-tail" 0) [l123, num 4] 0 (.error typeErr) σ' ∧
    libStore.Ext σ' :=
  list_tail_spec libFrame_libStore l123 4 (by decide) 0

/-- `(list-ref x k)`: the `k`-th element (`listRefS_ofList`), an error when `k` is not below the
length (`listRefS_short`) -/
theorem list_ref_spec (h : LibFrame σ b) (x : Value) (k : Nat) (hk : (k : Int) ≤ 2147483647) (env : Nat) :
    ∃ σ', Applies σ (libProc "list-ref" b) [x, .num (.int k)] env (listRefS x k) σ' ∧ σ.Ext σ' :=
  papp_list_ref b k x hk σ env h rfl

example : ∃ σ', Applies libStore (libProc "list-ref" 0) [l123, num 1] 0 (.ok (num 2)) σ' ∧ libStore.Ext σ' :=
  list_ref_spec libFrame_libStore l123 1 (by decide) 0
example : ∃ σ', Applies libStore (libProc "list-ref" 0) [l123, num 3] 0 (.error typeErr) σ' ∧ libStore.Ext σ' :=
  list_ref_spec libFrame_libStore l123 3 (by decide) 0

/-- `(last-pair x)`: the last pair of the spine of a non-empty (proper or improper) list
(`lastPairS_ofList`); an error on `()` and on any other non-pair -/
theorem last_pair_spec (h : LibFrame σ b) (x : Value) (env : Nat) :
    ∃ σ', Applies σ (libProc "last-pair" b) [x] env (lastPairS x) σ' ∧ σ.Ext σ' :=
  papp_last_pair b x σ env h rfl

example : ∃ σ', Applies libStore (libProc "last-pair" 0) [l123] 0 (.ok (Value.ofList [num 3])) σ' ∧ libStore.Ext σ' :=
  last_pair_spec libFrame_libStore l123 0
example : lastPairS .nil = .error typeErr ∧ lastPairS (.pair (num 1) (num 2)) = .ok (.pair (num 1) (num 2)) :=
  ⟨rfl, rfl⟩

/-- `(memq obj lst)`: the first sublist whose `car` is `eq?` to `obj` (`eq?` is the native `eqv?`
here), `#f` if the proper list has none (`memS_ofList`); if `lst` is improper and no element
before its tail matches, the `car` type error -/
theorem memq_spec (h : LibFrame σ b) (obj lst : Value) (env : Nat) :
    ∃ σ', Applies σ (libProc "memq" b) [obj, lst] env (memS obj lst) σ' ∧ σ.Ext σ' :=
  papp_memq b obj lst σ env h rfl

theorem memv_spec (h : LibFrame σ b) (obj lst : Value) (env : Nat) :
    ∃ σ', Applies σ (libProc "memv" b) [obj, lst] env (memS obj lst) σ' ∧ σ.Ext σ' :=
  papp_memv b obj lst σ env h rfl

example : ∃ σ', Applies libStore (libProc "memv" 0) [num 2, l123] 0 (.ok (Value.ofList [num 2, num 3])) σ' ∧
    libStore.Ext σ' :=
  memv_spec libFrame_libStore (num 2) l123 0
example : ∃ σ', Applies libStore (libProc "memq" 0) [num 7, l123] 0 (.ok (.bool false)) σ' ∧ libStore.Ext σ' :=
  memq_spec libFrame_libStore (num 7) l123 0
example : memS (num 7) (.pair (num 1) (num 2)) = .error typeErr := rfl

/-- `(list? x)`: `#t` exactly for the proper lists (`isProperList_iff`) -/
theorem list_pred_spec (h : LibFrame σ b) (x : Value) (env : Nat) :
    ∃ σ', Applies σ (libProc "list?" b) [x] env (.ok (.bool (isProperList x))) σ' ∧ σ.Ext σ' :=
  papp_list_pred b x σ env h rfl

example : ∃ σ', Applies libStore (libProc "list?" 0) [l123] 0 (.ok (.bool true)) σ' ∧ libStore.Ext σ' :=
  list_pred_spec libFrame_libStore l123 0
example : isProperList (.pair (num 1) (num 2)) = false := rfl

/-- `(equal? x y)`: structural equality on pairs AND vectors — two vectors are `equal?` when their
cells in the store have the same length and pairwise `equal?` items, read from the store
(mutability ignored) — with `eqv?` at the other leaves. Pairs may contain vectors and vectors
pairs, to any depth.
RESTRICTION: vectors are store cells and can be cyclic, and the comparison of cyclic structures
does not terminate; the theorem is about the comparisons that are finite: `equalS σ n x y = some r`
says that the comparison, followed to nesting depth `n`, has the outcome `r` (for data without
vectors `n` = the depth of `x` suffices; `equalS` is `none` beyond the bound and for a dangling
vector reference). Vector lengths are assumed to be in the `i32` range of the interpreter's
integers (the index arithmetic of the helper `vector-equal-from?`). -/
theorem equal_spec (h : LibFrame σ b)
    (hfit : ∀ (i : Nat) (c : VecCell), σ.vecs[i]? = some c → (c.items.length : Int) ≤ 2147483647)
    (x y : Value) (n : Nat) (r : Bool) (hr : equalS σ n x y = some r) (env : Nat) :
    ∃ σ', Applies σ (libProc "equal?" b) [x, y] env (.ok (.bool r)) σ' ∧ σ.Ext σ' :=
  papp_equal b σ hfit n x y r hr σ env h rfl

example : ∃ σ', Applies libStore (libProc "equal?" 0) [l123, l123] 0 (.ok (.bool true)) σ' ∧ libStore.Ext σ' :=
  equal_spec libFrame_libStore (fun i c h => by simp [libStore] at h) l123 l123 4 true (by decide) 0
example : equalS libStore 4 l123 (Value.ofList [num 1, num 2]) = some false ∧
    equalS libStore 1 (.str "a") (.str "a") = some true ∧ equalS libStore 2 l123 l123 = none :=
  ⟨by decide, by decide, by decide⟩

/-- a store with three vectors: `#(1 2)` (mutable), `#(1 2)` (a literal, immutable), `#(1 (3))` -/
def vecStore : Store :=
  { libStore with vecs := #[⟨true, [num 1, num 2]⟩, ⟨false, [num 1, num 2]⟩,
      ⟨true, [num 1, Value.ofList [num 3]]⟩] }

/-- `(equal? (list v0 v2) (list v1 v2))` is `#t`: vectors inside lists, a list inside a vector,
mutability ignored; `(equal? v0 v2)` is `#f` -/
example : (∃ σ', Applies vecStore (libProc "equal?" 0) [Value.ofList [.vec 0, .vec 2], Value.ofList [.vec 1, .vec 2]] 0
      (.ok (.bool true)) σ' ∧ vecStore.Ext σ') ∧
    (∃ σ', Applies vecStore (libProc "equal?" 0) [.vec 0, .vec 2] 0 (.ok (.bool false)) σ' ∧ vecStore.Ext σ') := by
  have hl : LibFrame vecStore 0 := LibFrame.of_defs rfl
  have hfit : ∀ (i : Nat) (c : VecCell), vecStore.vecs[i]? = some c → (c.items.length : Int) ≤ 2147483647 := by
    intro i c h
    have hm := Array.mem_of_getElem? h
    simp only [vecStore, List.mem_toArray, List.mem_cons, List.not_mem_nil, or_false] at hm
    rcases hm with rfl | rfl | rfl <;> decide
  exact ⟨equal_spec hl hfit _ _ 6 true (by decide) 0, equal_spec hl hfit _ _ 3 false (by decide) 0⟩

/-- `(make-list k fill)` for an integer `k` (`i32`): `k` copies of `fill`; none when `k ≤ 0`
(`makeListS_nonpos`) -/
theorem make_list_spec (h : LibFrame σ b) (k : Int) (hk : k ≤ 2147483647) (fill : Value) (env : Nat) :
    ∃ σ', Applies σ (libProc "make-list" b) [.num (.int k), fill] env (.ok (makeListS k fill)) σ' ∧ σ.Ext σ' :=
  papp_make_list b fill k.toNat k rfl hk σ env h rfl

example : ∃ σ', Applies libStore (libProc "make-list" 0) [num 2, num 7] 0 (.ok (Value.ofList [num 7, num 7])) σ' ∧
    libStore.Ext σ' :=
  make_list_spec libFrame_libStore 2 (by decide) (num 7) 0
example : ∃ σ', Applies libStore (libProc "make-list" 0) [num (-3), num 7] 0 (.ok .nil) σ' ∧ libStore.Ext σ' :=
  make_list_spec libFrame_libStore (-3) (by decide) (num 7) 0

/-- `(append l₁ … lₙ)` on ALL argument lists: `()` for none; the last argument (any value) behind
the elements of the others (`appendE_eq`: `appendS` when every argument but the last is a proper
list); the `car` type error when an argument other than the last is not a proper list. The
procedure recurses through the native `apply`. -/
theorem append_spec (h : LibFrame σ b) (args : List Value) (env : Nat) :
    ∃ σ', Applies σ (libProc "append" b) args env (appendE args) σ' ∧ σ.Ext σ' := by
  cases args with
  | nil => exact papp_append_nil b σ env h rfl
  | cons l rest => exact papp_append b rest l σ env h rfl

example : ∃ σ', Applies libStore (libProc "append" 0) [] 0 (.ok .nil) σ' ∧ libStore.Ext σ' :=
  append_spec libFrame_libStore [] 0
/-- `(append '(1 2 3) '() '(1 2 3) 7)` is `(1 2 3 1 2 3 . 7)` -/
example : ∃ σ', Applies libStore (libProc "append" 0) [l123, .nil, l123, num 7] 0
    (.ok (withTail [num 1, num 2, num 3, num 1, num 2, num 3] (num 7))) σ' ∧ libStore.Ext σ' :=
  append_spec libFrame_libStore _ 0
example : appendE [num 5, l123] = .error typeErr ∧ appendE [.pair (num 1) (num 2), l123] = .error typeErr :=
  ⟨rfl, rfl⟩
example (xs ys : List Value) : appendE [Value.ofList xs, Value.ofList ys] = .ok (Value.ofList (xs ++ ys)) := by
  have hd : appendDomain [Value.ofList xs, Value.ofList ys] := ⟨(isProperList_iff _).mpr ⟨xs, rfl⟩, trivial⟩
  rw [appendE_eq _ hd, appendS_ofList]

/-! ### the higher-order procedures

`f` is an arbitrary procedure value that satisfies `ProcArg b N K f dom`: on the argument lists in
`dom`, in every store satisfying the caller's invariant `K` (an invariant that appending frames
cannot break), applying `f` has an outcome, keeps the library frame and the frames the running
library procedure has allocated (numbers `≥ N`, unreachable for `f`), and re-establishes `K` when
it returns normally. The conclusion gives the outcome of the library procedure together with the
exact chain of applications of `f` (`MapM`/`FoldLM`/`FoldRM` in `RuschmSpec/ListLib.lean`): once
per element, in list order, each in the store the previous one left (up to frames appended by the
library, `Store.DExt`); the first error ends the traversal and is the outcome. -/

/-- `(map f l)` for EVERY value `l` (elements `xs`, final tail `t`): `f` is applied to each element
in list order; the result is the list of the results, on the same tail.
DEVIATION from R7RS: an improper list (or a non-list) is accepted, its tail is returned as the
tail of the result. -/
theorem map_spec {K : Store → Prop} {f : Value} (h : LibFrame σ b) (hK : K σ) (l : Value)
    (hf : ProcArg b σ.frames.size K f (fun args => ∃ x ∈ (spine l).1, args = [x])) (env : Nat) :
    ∃ r σ', Applies σ (libProc "map" b) [f, l] env (r.map (withTail · (spine l).2)) σ' ∧
      MapM (AppOf f) Store.DExt σ (spine l).1 r σ' ∧ (∀ vs, r = .ok vs → K σ') := by
  have := map_run (spine l).2 (spine_tail_not_pair l) (spine l).1 σ h hK (Nat.le_refl _) hf env
  rwa [spine_withTail] at this

/-- `(for-each f l)`: as `map`, the results being dropped; the value is unspecified (`Void`).
DEVIATION: an improper tail ends the traversal silently. -/
theorem for_each_spec {K : Store → Prop} {f : Value} (h : LibFrame σ b) (hK : K σ) (l : Value)
    (hf : ProcArg b σ.frames.size K f (fun args => ∃ x ∈ (spine l).1, args = [x])) (env : Nat) :
    ∃ r σ', Applies σ (libProc "for-each" b) [f, l] env (r.map fun _ => Value.void) σ' ∧
      MapM (AppOf f) Store.DExt σ (spine l).1 r σ' ∧ (∀ vs, r = .ok vs → K σ') := by
  have := for_each_run (spine l).2 (spine_tail_not_pair l) (spine l).1 σ h hK (Nat.le_refl _) hf env
  rwa [spine_withTail] at this

/-- `(fold-left f init l)` as minischeme defines it: `(f elem acc)` for each element in list order
(NOT the `(f acc elem)` of SRFI 1 / R6RS), the result being the next accumulator; on a proper list
the last accumulator is returned, on an improper one the `car` type error is raised after the last
element (`foldEnd`). -/
theorem fold_left_spec {K : Store → Prop} {f : Value} (h : LibFrame σ b) (hK : K σ) (init l : Value)
    (hf : ProcArg b σ.frames.size K f (fun args => ∃ x ∈ (spine l).1, ∃ a, args = [x, a])) (env : Nat) :
    ∃ r σ', Applies σ (libProc "fold-left" b) [f, init, l] env (r.bind (foldEnd (spine l).2)) σ' ∧
      FoldLM (AppOf f) Store.DExt σ init (spine l).1 r σ' ∧ (∀ v, r = .ok v → K σ') := by
  have := fold_left_run (spine l).2 (spine_tail_not_pair l) (spine l).1 σ init h hK (Nat.le_refl _) hf env
  rwa [spine_withTail] at this

/-- `(fold-right f init l)` on a proper list: `(f elem (fold-right f init rest))` — the applications
happen on the way back, last element first, the outermost one as a tail call. -/
theorem fold_right_spec {K : Store → Prop} {f : Value} (h : LibFrame σ b) (hK : K σ) (init : Value)
    (xs : List Value) (hf : ProcArg b σ.frames.size K f (fun args => ∃ x ∈ xs, ∃ a, args = [x, a])) (env : Nat) :
    ∃ r σ', Applies σ (libProc "fold-right" b) [f, init, Value.ofList xs] env r σ' ∧
      FoldRM (AppOf f) Store.DExt σ init xs r σ' ∧ (∀ v, r = .ok v → K σ') := by
  obtain ⟨r, σ', h₁, h₂, h₃, _⟩ := fold_right_run xs σ init h hK (Nat.le_refl _) hf env
  exact ⟨r, σ', h₁, h₂, h₃⟩

/-! non-vacuity: the host procedure `tick` (returns its argument and records it on the trace) is a
procedure argument in every store; mapping it over `(1 2 3)` returns `(1 2 3)` and leaves the
trace `3 2 1` (most recent first): one application per element, in list order -/
example : ∃ σ', Applies libStore (libProc "map" 0) [.builtin .tick, l123] 0 (.ok l123) σ' ∧
    σ'.ticks = ["i:3", "i:2", "i:1"] := by
  obtain ⟨r, σ', h₁, h₂, _⟩ := map_spec (K := fun _ => True) libFrame_libStore trivial l123
    (procArg_tick 0 _ _ fun args ⟨x, _, e⟩ => e ▸ rfl) 0
  obtain ⟨rfl, ht, _⟩ := mapM_tick h₂
  exact ⟨σ', h₁, ht⟩

example : ∃ σ', Applies libStore (libProc "for-each" 0) [.builtin .tick, l123] 0 (.ok .void) σ' ∧
    σ'.ticks = ["i:3", "i:2", "i:1"] := by
  obtain ⟨r, σ', h₁, h₂, _⟩ := for_each_spec (K := fun _ => True) libFrame_libStore trivial l123
    (procArg_tick 0 _ _ fun args ⟨x, _, e⟩ => e ▸ rfl) 0
  obtain ⟨rfl, ht, _⟩ := mapM_tick h₂
  exact ⟨σ', h₁, ht⟩

/-- with a PURE procedure argument (here the native `car`; any library procedure would do,
`ProcArg.of_papp`) `map` computes `List.mapM`: `(map car '((1) (2)))` is `(1 2)`, and mapping `car`
over `(1 2 3)` is the type error of the first application -/
example : ∃ σ', Applies libStore (libProc "map" 0) [.builtin .car, Value.ofList [Value.ofList [num 1], Value.ofList [num 2]]]
    0 (.ok (Value.ofList [num 1, num 2])) σ' ∧ libStore.DExt σ' := by
  obtain ⟨r, σ', h₁, h₂, _⟩ := map_spec (K := fun σ => LibFrame σ 0) (f := .builtin .car) libFrame_libStore
    libFrame_libStore (Value.ofList [Value.ofList [num 1], Value.ofList [num 2]])
    (ProcArg.of_papp (g := fun args => carS (args.headD .nil)) rfl
      fun V args h => by obtain ⟨x, _, rfl⟩ := h; exact PApp.car) 0
  obtain ⟨rfl, e⟩ := mapM_of_papp (g := carS) (fun V x => PApp.car) h₂ libFrame_libStore
  exact ⟨σ', h₁, e⟩
example : ∃ σ', Applies libStore (libProc "map" 0) [.builtin .car, l123] 0 (.error typeErr) σ' := by
  obtain ⟨r, σ', h₁, h₂, _⟩ := map_spec (K := fun σ => LibFrame σ 0) (f := .builtin .car) libFrame_libStore
    libFrame_libStore l123
    (ProcArg.of_papp (g := fun args => carS (args.headD .nil)) rfl
      fun V args h => by obtain ⟨x, _, rfl⟩ := h; exact PApp.car) 0
  obtain ⟨rfl, e⟩ := mapM_of_papp (g := carS) (fun V x => PApp.car) h₂ libFrame_libStore
  exact ⟨σ', h₁⟩

/-- `(fold-right cons '() '(1 2 3))` is `(1 2 3)`; `(fold-left cons '() '(1 2 3))` is `(3 2 1)` -/
example : ∃ σ', Applies libStore (libProc "fold-right" 0) [.builtin .cons, .nil, l123] 0 (.ok l123) σ' := by
  obtain ⟨r, σ', h₁, h₂, _⟩ := fold_right_spec (K := fun _ => True) libFrame_libStore trivial .nil
    [num 1, num 2, num 3] (procArg_cons 0 _ _ fun args ⟨x, _, a, e⟩ => e ▸ rfl) 0
  refine ⟨σ', ?_⟩
  have hcons : ∀ {σ a d r σ'}, AppOf (.builtin .cons) σ [a, d] r σ' → r = .ok (.pair a d) := fun h =>
    (Applies.unique (h 0) (cons_spec _ _ _ 0)).1
  cases h₂ with
  | cons_err _ h₂ _ =>
    cases h₂ with
    | cons_err _ h₂ _ =>
      cases h₂ with
      | cons_err _ h₂ _ => cases h₂
      | cons _ _ _ h => cases hcons h
    | cons _ _ _ h => cases hcons h
  | cons _ h₂ _ h =>
    cases h₂ with
    | cons _ h₂ _ h' =>
      cases h₂ with
      | cons _ h₂ _ h'' =>
        cases h₂
        cases hcons h''; cases hcons h'; cases hcons h
        exact h₁

end lib

end Ruschm.C11

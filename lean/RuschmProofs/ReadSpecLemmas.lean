/-
Helper lemmas for `RuschmProofs/C06Read.lean`: the model reader (`RuschmModel/Read.lean`) and the
token grammar `ReadSpec.Parses` (`RuschmSpec/ReadSpec.lean`) define the same relation.
-/
import RuschmSpec.ReadSpec
import RuschmProofs.ReadLemmas
namespace Ruschm.ReadSpec
open Ruschm Ruschm.Read Ruschm.Text

/-! ## one-step unfoldings of the reader, in `match`/`if` form -/
/-- the list loop never looks at `cur` -/
theorem listLoop_cur (f : Nat) (s : PState) (c : Option LToken) (loc : Loc) (acc : Datum)
    (dot : Bool) : listLoop f { s with cur := c } loc acc dot = listLoop f s loc acc dot := by
  cases f with
  | zero => simp [listLoop]
  | succ f =>
    rw [listLoop, listLoop]
    have : advanceUnwrap { s with cur := c } = advanceUnwrap s := by
      simp only [advanceUnwrap, advance]
    rw [this]

theorem repeatDatum_cur (f : Nat) (s : PState) (c : Option LToken) (acc : List Datum) :
    repeatDatum f { s with cur := c } acc = repeatDatum f s acc := by
  cases f with
  | zero => simp [repeatDatum]
  | succ f =>
    rw [repeatDatum, repeatDatum]
    have h1 : peek { s with cur := c } = peek s := by simp only [peek]
    have h2 : advance { s with cur := c } = advance s := by simp only [advance]
    rw [h1, h2]

/-- `datum` and `current_datum` read the same data (up to locations) from the same tokens -/
theorem datum_current (f : Nat) (s : PState) (t : LToken) (hc : s.cur = some t) :
    match currentDatum f s with
    | .ok (some d, s') => ∃ d2 c, datum f s = .ok (d2, { s' with cur := c }) ∧ d2.strip = d.strip
    | .ok (none, _) => False
    | .error (e, _) => ∃ l, datum f s = .error (e, l) := by
  cases f with
  | zero => simp [currentDatum, datum]
  | succ f =>
    rw [currentDatum, datum]
    simp only [hc]
    cases htok : t.tok <;> simp only [] 
    · exact ⟨.sym _ s.loc, some t, by rw [← hc], rfl⟩
    · exact ⟨.prim _ s.loc, some t, by rw [← hc], rfl⟩
    · simp only [listOrPair, listLoop_cur, bind, Except.bind]
      cases listLoop f s s.loc (.nil none) false with
      | error e => exact ⟨_, rfl⟩
      | ok r => exact ⟨_, r.2.cur, rfl, rfl⟩
    · exact ⟨_, rfl⟩
    · simp only [repeatDatum_cur, bind, Except.bind]
      cases repeatDatum f s [] with
      | error e => exact ⟨_, rfl⟩
      | ok r => exact ⟨_, r.2.cur, rfl, rfl⟩
    · exact ⟨_, rfl⟩
    · have : advance { s with cur := none } = advance s := rfl
      simp only [this, bind, Except.bind]
      cases advance s with
      | error e => exact ⟨_, rfl⟩
      | ok s1 =>
        simp only []
        cases parseQuoted f s1 with
        | error e => exact ⟨_, rfl⟩
        | ok r => exact ⟨_, r.2.cur, rfl, rfl⟩
    all_goals exact ⟨_, rfl⟩
def isPair : Datum → Bool
  | .pair _ _ _ => true
  | _ => false

theorem listLoop_succ (f : Nat) (s : PState) (loc : Loc) (acc : Datum) (dot : Bool) :
    listLoop (f + 1) s loc acc dot =
      match advanceUnwrap s with
      | .error e => .error e
      | .ok (t, s1) =>
        if t.tok = .period then
          (if dot then .error (.syntax, t.loc) else listLoop f s1 loc acc true)
        else if t.tok = .rparen then .ok (acc.withLoc loc, s1)
        else
          match currentDatum f s1 with
          | .error e => .error e
          | .ok (none, _) => .error (.syntax, none)
          | .ok (some e, s2) =>
            if isPair acc && dot then
              match advanceUnwrap s2 with
              | .error e => .error e
              | .ok (t2, s3) =>
                if t2.tok = .rparen then .ok ((setTail acc e).withLoc loc, s3)
                else .error (.syntax, s3.loc)
            else listLoop f s2 loc (snoc acc e) dot := by
  rw [listLoop]
  simp only [bind, Except.bind]
  cases advanceUnwrap s with
  | error e => rfl
  | ok r =>
    obtain ⟨t, s1⟩ := r
    simp only []
    cases htok : t.tok <;> simp only [reduceCtorEq, if_false, if_true] <;>
      (cases currentDatum f s1 with
       | error e => rfl
       | ok r =>
         obtain ⟨od, s2⟩ := r
         cases od with
         | none => rfl
         | some e =>
           cases acc <;> cases dot <;> simp only [isPair, snoc, pure, Except.pure, Bool.and_true,
             Bool.and_false, Bool.false_eq_true, if_false, if_true] <;>
             (cases advanceUnwrap s2 <;> rfl))

theorem repeatDatum_succ (f : Nat) (s : PState) (acc : List Datum) :
    repeatDatum (f + 1) s acc =
      match peek s with
      | .error e => .error e
      | .ok none => .error (.syntax, s.loc)
      | .ok (some t) =>
        match advance s with
        | .error e => .error e
        | .ok s1 =>
          if t.tok = .rparen then .ok (acc.reverse, s1)
          else
            match datum f s1 with
            | .error e => .error e
            | .ok (d, s2) => repeatDatum f s2 (d :: acc) := by
  rw [repeatDatum]
  simp only [bind, Except.bind]
  cases peek s with
  | error e => rfl
  | ok o =>
    cases o with
    | none => rfl
    | some t =>
      simp only []
      cases advance s with
      | error e => by_cases h : t.tok = .rparen <;> simp [h]
      | ok s1 =>
        by_cases h : t.tok = .rparen <;> simp [h, pure, Except.pure]
        cases datum f s1 with
        | error e => rfl
        | ok r => rfl

theorem cur_succ (f : Nat) (s : PState) (t : LToken) (hc : s.cur = some t) :
    currentDatum (f + 1) s =
      match t.tok with
      | .prim p => .ok (some (.prim p t.loc), { s with cur := none })
      | .ident a => .ok (some (.sym a t.loc), { s with cur := none })
      | .lparen =>
        match listLoop f s s.loc (.nil none) false with
        | .error e => .error e
        | .ok (d, s') => .ok (some d, s')
      | .vecIntro =>
        match repeatDatum f s [] with
        | .error e => .error e
        | .ok (xs, s') => .ok (some (.vec xs s'.loc), s')
      | .quote =>
        match advance s with
        | .error e => .error e
        | .ok s1 =>
          match parseQuoted f s1 with
          | .error e => .error e
          | .ok (d, s') => .ok (some d, s')
      | _ => .error (.syntax, t.loc) := by
  rw [currentDatum]
  simp only [hc]
  cases htok : t.tok <;> simp only []
  · simp only [listOrPair, listLoop_cur, bind, Except.bind]
    cases listLoop f s s.loc (.nil none) false <;> rfl
  · simp only [repeatDatum_cur, bind, Except.bind]
    cases repeatDatum f s [] <;> rfl
  · have : advance { s with cur := none } = advance s := rfl
    simp only [this, bind, Except.bind]
    cases advance s with
    | error e => rfl
    | ok s1 => simp only []; cases parseQuoted f s1 <;> rfl

theorem parseQuoted_succ (f : Nat) (s : PState) :
    parseQuoted (f + 1) s =
      match datum f s with
      | .error e => .error e
      | .ok (d, s') => .ok (mkQuote s.loc d, s') := by
  rw [parseQuoted]
  simp only [bind, Except.bind]
  cases datum f s <;> rfl

/-! ## single steps of the list loop on a known next token -/

theorem start_ne {t : Token} (h : Syn.isStartTok t = true) : t ≠ .period ∧ t ≠ .rparen := by
  constructor <;> (rintro rfl; cases h)

theorem loop_close_step {f : Nat} {s : PState} {lrp : LToken} {rest0 : List LToken} (loc : Loc)
    (acc : Datum) (dot : Bool) (hs : s.toks = lrp :: rest0) (hrp : lrp.tok = .rparen) :
    listLoop (f + 1) s loc acc dot
      = .ok (acc.withLoc loc, { s with toks := rest0, cur := some lrp, loc := lrp.loc }) := by
  rw [listLoop_succ, advanceUnwrap_cons hs]
  simp [hrp]

theorem loop_period_step {f : Nat} {s : PState} {lp : LToken} {rest0 : List LToken} (loc : Loc)
    (acc : Datum) (hs : s.toks = lp :: rest0) (hp : lp.tok = .period) :
    listLoop (f + 1) s loc acc false
      = listLoop f { s with toks := rest0, cur := some lp, loc := lp.loc } loc acc true := by
  rw [listLoop_succ, advanceUnwrap_cons hs]
  simp [hp]

theorem loop_elem_step {f : Nat} {s s2 : PState} {lt0 : LToken} {rest0 : List LToken} (loc : Loc)
    (acc : Datum) (dot : Bool) {e : Datum} (hs : s.toks = lt0 :: rest0)
    (hst : Syn.isStartTok lt0.tok = true)
    (hc : currentDatum f { s with toks := rest0, cur := some lt0, loc := lt0.loc }
      = .ok (some e, s2)) :
    listLoop (f + 1) s loc acc dot =
      if isPair acc && dot then
        match advanceUnwrap s2 with
        | .error e => .error e
        | .ok (t2, s3) =>
          if t2.tok = .rparen then .ok ((setTail acc e).withLoc loc, s3)
          else .error (.syntax, s3.loc)
      else listLoop f s2 loc (snoc acc e) dot := by
  rw [listLoop_succ, advanceUnwrap_cons hs]
  simp only [(start_ne hst).1, (start_ne hst).2, if_false, hc]

/-! ## lists as data -/

theorem snoc_proper (es : List Datum) (d : Datum) : snoc (proper es) d = proper (es ++ [d]) := by
  induction es with
  | nil => rfl
  | cons x es ih => simp only [proper, improper, snoc, List.cons_append] at ih ⊢; rw [ih]

theorem setTail_proper (es : List Datum) (d : Datum) : setTail (proper es) d = improper es d := by
  induction es with
  | nil => rfl
  | cons x es ih => simp only [proper, improper, setTail] at ih ⊢; rw [ih]

theorem isPair_of_strip {acc : Datum} {es : List Datum} (h : acc.strip = proper es) :
    isPair acc = !es.isEmpty := by
  cases es <;> cases acc <;> simp_all [proper, improper, Datum.strip, isPair]

theorem strip_snoc_proper {acc e : Datum} {es : List Datum} (h : acc.strip = proper es) :
    (snoc acc e).strip = proper (es ++ [e.strip]) := by
  rw [strip_snoc, h, snoc_proper]

/-! ## completeness: every derivation is read -/

/-- `current_datum` reads the tokens `ts` (the first one being the current token) as `d` -/
def CurOK (ts : List Token) (d : Datum) : Prop :=
  ∀ (fuel : Nat) (s : PState) (lt0 : LToken) (lmore lrest : List LToken),
    2 * ts.length ≤ fuel → (lt0 :: lmore).map (·.tok) = ts → s.cur = some lt0 →
    s.toks = lmore ++ lrest →
    ∃ d' s', currentDatum fuel s = .ok (some d', s') ∧ d'.strip = d ∧ Leaves s s' lrest

/-- the same for `datum` -/
def DatOK (ts : List Token) (d : Datum) : Prop :=
  ∀ (fuel : Nat) (s : PState) (lt0 : LToken) (lmore lrest : List LToken),
    2 * ts.length ≤ fuel → (lt0 :: lmore).map (·.tok) = ts → s.cur = some lt0 →
    s.toks = lmore ++ lrest →
    ∃ d' s', datum fuel s = .ok (d', s') ∧ d'.strip = d ∧ Leaves s s' lrest

theorem datOK_of_curOK {ts : List Token} {d : Datum} (h : CurOK ts d) : DatOK ts d := by
  intro fuel s lt0 lmore lrest hf hm hc hs
  obtain ⟨d', s', h1, h2, h3⟩ := h fuel s lt0 lmore lrest hf hm hc hs
  have := datum_current fuel s lt0 hc
  rw [h1] at this
  obtain ⟨d2, c, g1, g2⟩ := this
  exact ⟨d2, _, g1, g2.trans h2, h3⟩

/-- the list loop reads the elements `ds` written as `ts` and continues behind them with at least
`G` fuel left -/
def LoopOK (ts : List Token) (ds : List Datum) : Prop :=
  ∀ (G fuel : Nat) (s : PState) (lts lrest : List LToken) (loc : Loc) (acc : Datum)
    (es : List Datum),
    1 ≤ G → 2 * ts.length + G ≤ fuel → lts.map (·.tok) = ts → s.toks = lts ++ lrest →
    acc.strip = proper es →
    ∃ fuel' acc' s2, G ≤ fuel' ∧
      listLoop fuel s loc acc false = listLoop fuel' s2 loc acc' false ∧
      acc'.strip = proper (es ++ ds) ∧ Leaves s s2 lrest

/-- the same for the loop that reads the elements of a vector -/
def RepOK (ts : List Token) (ds : List Datum) : Prop :=
  ∀ (G fuel : Nat) (s : PState) (lts lrest : List LToken) (acc : List Datum),
    1 ≤ G → 2 * ts.length + G ≤ fuel → lts.map (·.tok) = ts → s.toks = lts ++ lrest →
    ∃ (fuel' : Nat) (ds' : List Datum) (s2 : PState), G ≤ fuel' ∧
      repeatDatum fuel s acc = repeatDatum fuel' s2 (ds'.reverse ++ acc) ∧
      ds'.map Datum.strip = ds ∧ Leaves s s2 lrest

theorem loopOK_nil : LoopOK [] [] := by
  intro G fuel s lts lrest loc acc es hG hf hl hs hacc
  simp only [List.map_eq_nil_iff] at hl; subst hl
  exact ⟨fuel, acc, s, by simp at hf; omega, rfl, by simpa using hacc, by simpa using hs, rfl⟩

theorem repOK_nil : RepOK [] [] := by
  intro G fuel s lts lrest acc hG hf hl hs
  simp only [List.map_eq_nil_iff] at hl; subst hl
  exact ⟨fuel, [], s, by simp at hf; omega, rfl, rfl, by simpa using hs, rfl⟩

theorem loopOK_cons {t ts : List Token} {d : Datum} {ds : List Datum}
    (hstart : ∃ t0 more, t = t0 :: more ∧ Syn.isStartTok t0 = true)
    (h1 : CurOK t d) (h2 : LoopOK ts ds) : LoopOK (t ++ ts) (d :: ds) := by
  intro G fuel s lts lrest loc acc es hG hf hl hs hacc
  obtain ⟨lx, lr, rfl, hlx, hlr⟩ := map_tok_append hl
  obtain ⟨t0, more, rfl, hst⟩ := hstart
  obtain ⟨lt0, lmore, rfl, h0, hmore⟩ := map_tok_cons hlx
  simp only [List.length_append, List.length_cons] at hf
  obtain ⟨f, rfl⟩ : ∃ f, fuel = f + 1 := ⟨fuel - 1, by omega⟩
  have hs1 : s.toks = lt0 :: (lmore ++ (lr ++ lrest)) := by simp [hs]
  obtain ⟨e, s2, hc, he, hl2, hl2'⟩ := h1 f
    { s with toks := lmore ++ (lr ++ lrest), cur := some lt0, loc := lt0.loc }
    lt0 lmore (lr ++ lrest) (by simp only [List.length_cons]; omega) (by simp [h0, hmore]) rfl rfl
  have step := loop_elem_step loc acc false hs1 (by rw [h0]; exact hst) hc
  simp only [Bool.and_false, Bool.false_eq_true, if_false] at step
  obtain ⟨fuel', acc', s3, g1, g2, g3, g4, g5⟩ := h2 G f s2 lr lrest loc (snoc acc e) (es ++ [d])
    hG (by omega) hlr hl2 (by rw [strip_snoc_proper hacc, he])
  exact ⟨fuel', acc', s3, g1, step.trans g2, by simpa using g3, g4, g5.trans hl2'⟩

theorem repOK_cons {t ts : List Token} {d : Datum} {ds : List Datum}
    (hstart : ∃ t0 more, t = t0 :: more ∧ Syn.isStartTok t0 = true)
    (h1 : DatOK t d) (h2 : RepOK ts ds) : RepOK (t ++ ts) (d :: ds) := by
  intro G fuel s lts lrest acc hG hf hl hs
  obtain ⟨lx, lr, rfl, hlx, hlr⟩ := map_tok_append hl
  obtain ⟨t0, more, rfl, hst⟩ := hstart
  obtain ⟨lt0, lmore, rfl, h0, hmore⟩ := map_tok_cons hlx
  simp only [List.length_append, List.length_cons] at hf
  obtain ⟨f, rfl⟩ : ∃ f, fuel = f + 1 := ⟨fuel - 1, by omega⟩
  have hs1 : s.toks = lt0 :: (lmore ++ (lr ++ lrest)) := by simp [hs]
  obtain ⟨e, s2, hc, he, hl2, hl2'⟩ := h1 f
    { s with toks := lmore ++ (lr ++ lrest), cur := some lt0, loc := lt0.loc }
    lt0 lmore (lr ++ lrest) (by simp only [List.length_cons]; omega) (by simp [h0, hmore]) rfl rfl
  have step : repeatDatum (f + 1) s acc = repeatDatum f s2 (e :: acc) := by
    rw [repeatDatum_succ, peek_cons hs1, advance_cons hs1]
    have : lt0.tok ≠ .rparen := by rw [h0]; exact (start_ne hst).2
    simp only [this, if_false, hc]
  obtain ⟨fuel', ds', s3, g1, g2, g3, g4, g5⟩ := h2 G f s2 lr lrest (e :: acc) hG (by omega) hlr hl2
  exact ⟨fuel', e :: ds', s3, g1, by rw [step, g2]; simp, by simp [he, g3], g4, g5.trans hl2'⟩

theorem parses_head {ts : List Token} {d : Datum} {rest : List Token} (h : Parses ts d rest) :
    ∃ t more, ts = t :: more ∧ Syn.isStartTok t = true := by
  cases h <;> exact ⟨_, _, rfl, rfl⟩

theorem curOK_prim (p : Prim) : CurOK [.prim p] (.prim p none) := by
  intro fuel s lt0 lmore lrest hf hm hc hs
  simp only [List.map_cons, List.cons.injEq, List.map_eq_nil_iff] at hm
  obtain ⟨h0, rfl⟩ := hm
  obtain ⟨f, rfl⟩ : ∃ f, fuel = f + 1 := ⟨fuel - 1, by simp at hf; omega⟩
  rw [cur_succ f s lt0 hc]
  simp only [h0]
  exact ⟨_, _, rfl, rfl, by simpa using hs, rfl⟩

theorem curOK_ident (a : String) : CurOK [.ident a] (.sym a none) := by
  intro fuel s lt0 lmore lrest hf hm hc hs
  simp only [List.map_cons, List.cons.injEq, List.map_eq_nil_iff] at hm
  obtain ⟨h0, rfl⟩ := hm
  obtain ⟨f, rfl⟩ : ∃ f, fuel = f + 1 := ⟨fuel - 1, by simp at hf; omega⟩
  rw [cur_succ f s lt0 hc]
  simp only [h0]
  exact ⟨_, _, rfl, rfl, by simpa using hs, rfl⟩

/-- `( ts )` and `( ts . )`: the elements, then what `tailToks` stands for -/
theorem curOK_list {ts : List Token} {ds : List Datum} (h : LoopOK ts ds) :
    CurOK (.lparen :: (ts ++ [.rparen])) (proper ds) := by
  intro fuel s lt0 lmore lrest hf hm hc hs
  simp only [List.map_cons, List.cons.injEq] at hm
  obtain ⟨h0, hm⟩ := hm
  obtain ⟨lts, lb, rfl, hlts, hlb⟩ := map_tok_append hm
  obtain ⟨lrp, lb', rfl, hrp, hnil⟩ := map_tok_cons hlb
  simp only [List.map_eq_nil_iff] at hnil; subst hnil
  simp only [List.length_cons, List.length_append, List.length_nil] at hf
  obtain ⟨f, rfl⟩ : ∃ f, fuel = f + 1 := ⟨fuel - 1, by omega⟩
  rw [cur_succ f s lt0 hc]
  simp only [h0]
  obtain ⟨fuel', acc', s2, g1, g2, g3, g4, g5⟩ := h 1 f s lts (lrp :: lrest) s.loc (.nil none) []
    (by omega) (by omega) hlts (by simp [hs]) rfl
  obtain ⟨f', rfl⟩ : ∃ f', fuel' = f' + 1 := ⟨fuel' - 1, by omega⟩
  rw [g2, loop_close_step s.loc acc' false g4 hrp]
  exact ⟨_, _, rfl, by rw [strip_withLoc, g3]; rfl, rfl, g5⟩

theorem curOK_dotClose {ts : List Token} {ds : List Datum} (h : LoopOK ts ds) :
    CurOK (.lparen :: (ts ++ [.period, .rparen])) (proper ds) := by
  intro fuel s lt0 lmore lrest hf hm hc hs
  simp only [List.map_cons, List.cons.injEq] at hm
  obtain ⟨h0, hm⟩ := hm
  obtain ⟨lts, lb, rfl, hlts, hlb⟩ := map_tok_append hm
  obtain ⟨lp, lb', rfl, hp, hlb'⟩ := map_tok_cons hlb
  obtain ⟨lrp, lb'', rfl, hrp, hnil⟩ := map_tok_cons hlb'
  simp only [List.map_eq_nil_iff] at hnil; subst hnil
  simp only [List.length_cons, List.length_append, List.length_nil] at hf
  obtain ⟨f, rfl⟩ : ∃ f, fuel = f + 1 := ⟨fuel - 1, by omega⟩
  rw [cur_succ f s lt0 hc]
  simp only [h0]
  obtain ⟨fuel', acc', s2, g1, g2, g3, g4, g5⟩ := h 2 f s lts (lp :: lrp :: lrest) s.loc
    (.nil none) [] (by omega) (by omega) hlts (by simp [hs]) rfl
  obtain ⟨f', rfl⟩ : ∃ f', fuel' = f' + 2 := ⟨fuel' - 2, by omega⟩
  rw [g2, loop_period_step s.loc acc' g4 hp, loop_close_step s.loc acc' true rfl hrp]
  exact ⟨_, _, rfl, by rw [strip_withLoc, g3]; rfl, rfl, g5⟩

theorem curOK_dotted {ts tt : List Token} {ds : List Datum} {tl : Datum} (h : LoopOK ts ds)
    (hne : ds ≠ []) (htl : CurOK tt tl)
    (hstart : ∃ t0 more, tt = t0 :: more ∧ Syn.isStartTok t0 = true) :
    CurOK (.lparen :: (ts ++ .period :: (tt ++ [.rparen]))) (improper ds tl) := by
  intro fuel s lt0 lmore lrest hf hm hc hs
  simp only [List.map_cons, List.cons.injEq] at hm
  obtain ⟨h0, hm⟩ := hm
  obtain ⟨lts, lb, rfl, hlts, hlb⟩ := map_tok_append hm
  obtain ⟨lp, lb', rfl, hp, hlb'⟩ := map_tok_cons hlb
  obtain ⟨ltt, lb'', rfl, hltt, hlb''⟩ := map_tok_append hlb'
  obtain ⟨lrp, lb3, rfl, hrp, hnil⟩ := map_tok_cons hlb''
  simp only [List.map_eq_nil_iff] at hnil; subst hnil
  obtain ⟨t0, more, rfl, hst⟩ := hstart
  obtain ⟨lt1, lmore1, rfl, h1, hmore1⟩ := map_tok_cons hltt
  simp only [List.length_cons, List.length_append, List.length_nil] at hf
  obtain ⟨f, rfl⟩ : ∃ f, fuel = f + 1 := ⟨fuel - 1, by omega⟩
  rw [cur_succ f s lt0 hc]
  simp only [h0]
  obtain ⟨fuel', acc', s2, g1, g2, g3, g4, g5⟩ := h (2 * (more.length + 1) + 2) f s lts
    (lp :: (lt1 :: lmore1 ++ lrp :: lrest)) s.loc (.nil none) [] (by omega) (by omega) hlts
    (by simp [hs]) rfl
  obtain ⟨f', rfl⟩ : ∃ f', fuel' = f' + 2 := ⟨fuel' - 2, by omega⟩
  rw [g2, loop_period_step s.loc acc' g4 hp]
  obtain ⟨e, s3, k1, k2, k3, k4⟩ := htl f'
    { s2 with toks := lmore1 ++ lrp :: lrest, cur := some lt1, loc := lt1.loc } lt1 lmore1
    (lrp :: lrest) (by simp only [List.length_cons]; omega) (by simp [h1, hmore1]) rfl rfl
  rw [loop_elem_step (s := { s2 with toks := lt1 :: lmore1 ++ lrp :: lrest, cur := some lp, loc := lp.loc }) s.loc acc' true rfl (by rw [h1]; exact hst) k1]
  have hp' : isPair acc' = true := by
    rw [isPair_of_strip g3]; cases ds <;> simp_all
  simp only [hp', Bool.and_true, if_true, advanceUnwrap_cons k3, hrp]
  refine ⟨_, _, rfl, ?_, rfl, k4.trans g5⟩
  rw [strip_withLoc, strip_setTail, g3, k2]
  exact setTail_proper ds tl

theorem curOK_leadingDot {t1 : List Token} {d1 : Datum} (h1 : CurOK t1 d1)
    (hstart : ∃ t0 more, t1 = t0 :: more ∧ Syn.isStartTok t0 = true) :
    CurOK (.lparen :: .period :: (t1 ++ [.rparen])) (proper [d1]) := by
  intro fuel s lt0 lmore lrest hf hm hc hs
  simp only [List.map_cons, List.cons.injEq] at hm
  obtain ⟨h0, hm⟩ := hm
  obtain ⟨lp, lb', rfl, hp, hlb'⟩ := map_tok_cons hm
  obtain ⟨ltt, lb'', rfl, hltt, hlb''⟩ := map_tok_append hlb'
  obtain ⟨lrp, lb3, rfl, hrp, hnil⟩ := map_tok_cons hlb''
  simp only [List.map_eq_nil_iff] at hnil; subst hnil
  obtain ⟨t0, more, rfl, hst⟩ := hstart
  obtain ⟨lt1, lmore1, rfl, h1', hmore1⟩ := map_tok_cons hltt
  simp only [List.length_cons, List.length_append, List.length_nil] at hf
  obtain ⟨f, rfl⟩ : ∃ f, fuel = f + 4 := ⟨fuel - 4, by omega⟩
  rw [cur_succ (f + 3) s lt0 hc]
  simp only [h0]
  have hs1 : s.toks = lp :: (lt1 :: lmore1 ++ lrp :: lrest) := by simp [hs]
  rw [loop_period_step s.loc (.nil none) hs1 hp]
  obtain ⟨e, s3, k1, k2, k3, k4⟩ := h1 (f + 1)
    { s with toks := lmore1 ++ lrp :: lrest, cur := some lt1, loc := lt1.loc } lt1 lmore1
    (lrp :: lrest) (by simp only [List.length_cons]; omega) (by simp [h1', hmore1]) rfl rfl
  rw [loop_elem_step (s := { s with toks := lt1 :: lmore1 ++ lrp :: lrest, cur := some lp, loc := lp.loc }) s.loc (.nil none) true rfl (by rw [h1']; exact hst) k1]
  simp only [isPair, Bool.false_and, Bool.false_eq_true, if_false]
  rw [loop_close_step s.loc _ true k3 hrp]
  refine ⟨_, _, rfl, ?_, rfl, k4⟩
  rw [strip_withLoc]
  simp [snoc, Datum.strip, k2, proper, improper]

theorem curOK_leadingDotPair {t1 t2 : List Token} {d1 d2 : Datum} (h1 : CurOK t1 d1)
    (h2 : CurOK t2 d2)
    (hstart1 : ∃ t0 more, t1 = t0 :: more ∧ Syn.isStartTok t0 = true)
    (hstart2 : ∃ t0 more, t2 = t0 :: more ∧ Syn.isStartTok t0 = true) :
    CurOK (.lparen :: .period :: (t1 ++ (t2 ++ [.rparen]))) (improper [d1] d2) := by
  intro fuel s lt0 lmore lrest hf hm hc hs
  simp only [List.map_cons, List.cons.injEq] at hm
  obtain ⟨h0, hm⟩ := hm
  obtain ⟨lp, lb', rfl, hp, hlb'⟩ := map_tok_cons hm
  obtain ⟨ltt, lb'', rfl, hltt, hlb''⟩ := map_tok_append hlb'
  obtain ⟨ltt2, lb4, rfl, hltt2, hlb4⟩ := map_tok_append hlb''
  obtain ⟨lrp, lb3, rfl, hrp, hnil⟩ := map_tok_cons hlb4
  simp only [List.map_eq_nil_iff] at hnil; subst hnil
  obtain ⟨t0, more, rfl, hst⟩ := hstart1
  obtain ⟨t0', more', rfl, hst'⟩ := hstart2
  obtain ⟨lt1, lmore1, rfl, h1', hmore1⟩ := map_tok_cons hltt
  obtain ⟨lt2, lmore2, rfl, h2', hmore2⟩ := map_tok_cons hltt2
  simp only [List.length_cons, List.length_append, List.length_nil] at hf
  obtain ⟨f, rfl⟩ : ∃ f, fuel = f + 4 := ⟨fuel - 4, by omega⟩
  rw [cur_succ (f + 3) s lt0 hc]
  simp only [h0]
  have hs1 : s.toks = lp :: (lt1 :: lmore1 ++ (lt2 :: lmore2 ++ lrp :: lrest)) := by simp [hs]
  rw [loop_period_step s.loc (.nil none) hs1 hp]
  obtain ⟨e, s3, k1, k2, k3, k4⟩ := h1 (f + 1)
    { s with toks := lmore1 ++ (lt2 :: lmore2 ++ lrp :: lrest), cur := some lt1, loc := lt1.loc }
    lt1 lmore1 (lt2 :: lmore2 ++ lrp :: lrest) (by simp only [List.length_cons]; omega)
    (by simp [h1', hmore1]) rfl rfl
  rw [loop_elem_step (s := { s with toks := lt1 :: lmore1 ++ (lt2 :: lmore2 ++ lrp :: lrest), cur := some lp, loc := lp.loc }) s.loc (.nil none) true rfl (by rw [h1']; exact hst) k1]
  simp only [isPair, Bool.false_and, Bool.false_eq_true, if_false]
  obtain ⟨e2, s4, m1, m2, m3, m4⟩ := h2 f
    { s3 with toks := lmore2 ++ lrp :: lrest, cur := some lt2, loc := lt2.loc }
    lt2 lmore2 (lrp :: lrest) (by simp only [List.length_cons]; omega)
    (by simp [h2', hmore2]) rfl rfl
  rw [loop_elem_step s.loc _ true k3 (by rw [h2']; exact hst') m1]
  simp only [snoc, isPair, Bool.and_true, if_true, advanceUnwrap_cons m3, hrp]
  refine ⟨_, _, rfl, ?_, rfl, m4.trans k4⟩
  rw [strip_withLoc]
  simp [setTail, Datum.strip, k2, m2, improper]

theorem curOK_vec {ts : List Token} {ds : List Datum} (h : RepOK ts ds) :
    CurOK (.vecIntro :: (ts ++ [.rparen])) (.vec ds none) := by
  intro fuel s lt0 lmore lrest hf hm hc hs
  simp only [List.map_cons, List.cons.injEq] at hm
  obtain ⟨h0, hm⟩ := hm
  obtain ⟨lts, lb, rfl, hlts, hlb⟩ := map_tok_append hm
  obtain ⟨lrp, lb', rfl, hrp, hnil⟩ := map_tok_cons hlb
  simp only [List.map_eq_nil_iff] at hnil; subst hnil
  simp only [List.length_cons, List.length_append, List.length_nil] at hf
  obtain ⟨f, rfl⟩ : ∃ f, fuel = f + 1 := ⟨fuel - 1, by omega⟩
  rw [cur_succ f s lt0 hc]
  simp only [h0]
  obtain ⟨fuel', ds', s2, g1, g2, g3, g4, g5⟩ := h 1 f s lts (lrp :: lrest) []
    (by omega) (by omega) hlts (by simp [hs])
  obtain ⟨f', rfl⟩ : ∃ f', fuel' = f' + 1 := ⟨fuel' - 1, by omega⟩
  rw [g2, repeatDatum_succ, peek_cons g4, advance_cons g4]
  simp only [hrp, if_true]
  refine ⟨_, _, rfl, ?_, rfl, g5⟩
  simp [Datum.strip, stripList_eq_map, g3]

theorem curOK_quote {ts : List Token} {d : Datum} (h : DatOK ts d)
    (hstart : ∃ t0 more, ts = t0 :: more ∧ Syn.isStartTok t0 = true) :
    CurOK (.quote :: ts) (quoteForm d) := by
  intro fuel s lt0 lmore lrest hf hm hc hs
  simp only [List.map_cons, List.cons.injEq] at hm
  obtain ⟨h0, hm⟩ := hm
  obtain ⟨t0, more, rfl, hst⟩ := hstart
  obtain ⟨lt1, lmore1, rfl, h1', hmore1⟩ := map_tok_cons hm
  simp only [List.length_cons] at hf
  obtain ⟨f, rfl⟩ : ∃ f, fuel = f + 2 := ⟨fuel - 2, by omega⟩
  rw [cur_succ (f + 1) s lt0 hc]
  simp only [h0]
  have hs1 : s.toks = lt1 :: (lmore1 ++ lrest) := by simp [hs]
  rw [advance_cons hs1]
  simp only [parseQuoted_succ]
  obtain ⟨e, s3, k1, k2, k3, k4⟩ := h f
    { s with toks := lmore1 ++ lrest, cur := some lt1, loc := lt1.loc } lt1 lmore1 lrest
    (by simp only [List.length_cons]; omega) (by simp [h1', hmore1]) rfl rfl
  rw [k1]
  exact ⟨_, _, rfl, by simp [mkQuote, Datum.strip, k2, quoteForm], k3, k4⟩

mutual
/-- COMPLETENESS, for `current_datum` with explicit fuel -/
theorem curOK_of_parses : ∀ {ts : List Token} {d : Datum} {rest : List Token},
    Parses ts d rest → CurOK ts d
  | _, _, _, .prim p _ => curOK_prim p
  | _, _, _, .ident a _ => curOK_ident a
  | _, _, _, .list h => curOK_list (loopOK_of_seq h).1
  | _, _, _, .dotted h hne ht =>
    curOK_dotted (loopOK_of_seq h).1 hne (curOK_of_parses ht) (parses_head ht)
  | _, _, _, .vec h => curOK_vec (loopOK_of_seq h).2
  | _, _, _, .quote h => curOK_quote (datOK_of_curOK (curOK_of_parses h)) (parses_head h)
  | _, _, _, .quirkDotClose h => curOK_dotClose (loopOK_of_seq h).1
  | _, _, _, .quirkLeadingDot h => curOK_leadingDot (curOK_of_parses h) (parses_head h)
  | _, _, _, .quirkLeadingDotPair h1 h2 =>
    curOK_leadingDotPair (curOK_of_parses h1) (curOK_of_parses h2) (parses_head h1)
      (parses_head h2)
theorem loopOK_of_seq : ∀ {ts : List Token} {ds : List Datum} {rest : List Token},
    ParsesSeq ts ds rest → LoopOK ts ds ∧ RepOK ts ds
  | _, _, _, .nil _ => ⟨loopOK_nil, repOK_nil⟩
  | _, _, _, .cons h hs =>
    ⟨loopOK_cons (parses_head h) (curOK_of_parses h) (loopOK_of_seq hs).1,
      repOK_cons (parses_head h) (datOK_of_curOK (curOK_of_parses h)) (loopOK_of_seq hs).2⟩
end

/-! ## soundness: whatever is read has a derivation -/

theorem seq_snoc : ∀ {ts : List Token} {ds : List Datum} {R : List Token}, ParsesSeq ts ds R →
    ∀ (t : List Token) (d : Datum) (r : List Token), R = t ++ r → Parses t d r →
    ParsesSeq (ts ++ t) (ds ++ [d]) r
  | _, _, _, .nil _, t, d, r, _, h => by
    simpa using ParsesSeq.cons (ts := []) (ds := []) (by simpa using h) (.nil r)
  | _, _, _, .cons (t := t0) (ts := ts0) h0 hs, t, d, r, e, h => by
    subst e
    have ih := seq_snoc hs t d r rfl h
    have := ParsesSeq.cons (t := t0) (by simpa using h0) ih
    simpa using this

theorem seq_nil_inv {ts : List Token} {r : List Token} (h : ParsesSeq ts [] r) : ts = [] := by
  cases h; rfl

theorem advanceUnwrap_ok {s s1 : PState} {t : LToken} (h : advanceUnwrap s = .ok (t, s1)) :
    ∃ rest0, s.toks = t :: rest0 ∧ s1 = { s with toks := rest0, cur := some t, loc := t.loc } := by
  simp only [advanceUnwrap, advance, bind, Except.bind] at h
  cases hs : s.toks with
  | nil =>
    rw [hs] at h
    cases he : s.lexErr <;> rw [he] at h <;> simp at h
  | cons t' rest0 =>
    rw [hs] at h
    simp only [pure, Except.pure, Except.ok.injEq, Prod.mk.injEq] at h
    obtain ⟨rfl, rfl⟩ := h
    exact ⟨rest0, rfl, rfl⟩

theorem peek_some {s : PState} {t : LToken} (h : peek s = .ok (some t)) :
    ∃ rest0, s.toks = t :: rest0 := by
  simp only [peek] at h
  cases hs : s.toks with
  | nil =>
    rw [hs] at h
    cases he : s.lexErr <;> rw [he] at h <;> simp at h
  | cons t' rest0 =>
    rw [hs] at h
    simp only [Except.ok.injEq, Option.some.injEq] at h
    subst h
    exact ⟨rest0, rfl⟩

/-- the state of the list loop, as a statement about the tokens `pfx` consumed since the opening
parenthesis: without a dot they are the elements read so far; with a dot, either the dot is the
last of them, or it was the very first and exactly one element followed -/
def St (pfx : List Token) (es : List Datum) (dot : Bool) (R : List Token) : Prop :=
  (dot = false ∧ ParsesSeq pfx es R) ∨
  (dot = true ∧ ∃ tsPre, pfx = tsPre ++ [.period] ∧ ParsesSeq tsPre es (.period :: R)) ∨
  (dot = true ∧ ∃ t1 d1, pfx = .period :: t1 ∧ es = [d1] ∧ Parses t1 d1 R)

def SndCur (f : Nat) : Prop :=
  ∀ (s : PState) (lt0 : LToken) (od : Option Datum) (s' : PState), s.cur = some lt0 →
    currentDatum f s = .ok (od, s') →
    ∃ d lpre, od = some d ∧ s.toks = lpre ++ s'.toks ∧ s'.lexErr = s.lexErr ∧
      Parses (lt0.tok :: lpre.map (·.tok)) d.strip (s'.toks.map (·.tok))

def SndDat (f : Nat) : Prop :=
  ∀ (s : PState) (d : Datum) (s' : PState), datum f s = .ok (d, s') →
    ∃ lt0 lpre, s.cur = some lt0 ∧ s.toks = lpre ++ s'.toks ∧ s'.lexErr = s.lexErr ∧
      Parses (lt0.tok :: lpre.map (·.tok)) d.strip (s'.toks.map (·.tok))

def SndQ (f : Nat) : Prop :=
  ∀ (s : PState) (d : Datum) (s' : PState), parseQuoted f s = .ok (d, s') →
    ∃ lt0 lpre d0, s.cur = some lt0 ∧ s.toks = lpre ++ s'.toks ∧ s'.lexErr = s.lexErr ∧
      d.strip = quoteForm d0 ∧ Parses (lt0.tok :: lpre.map (·.tok)) d0 (s'.toks.map (·.tok))

def SndLoop (f : Nat) : Prop :=
  ∀ (s : PState) (loc : Loc) (acc : Datum) (dot : Bool) (d : Datum) (s' : PState)
    (pfx : List Token) (es : List Datum),
    listLoop f s loc acc dot = .ok (d, s') → acc.strip = proper es →
    St pfx es dot (s.toks.map (·.tok)) →
    ∃ lbody, s.toks = lbody ++ s'.toks ∧ s'.lexErr = s.lexErr ∧
      Parses (.lparen :: (pfx ++ lbody.map (·.tok))) d.strip (s'.toks.map (·.tok))

def SndRep (f : Nat) : Prop :=
  ∀ (s : PState) (acc ds : List Datum) (s' : PState) (pfx : List Token),
    repeatDatum f s acc = .ok (ds, s') →
    ParsesSeq pfx (acc.reverse.map Datum.strip) (s.toks.map (·.tok)) →
    ∃ lbody, s.toks = lbody ++ s'.toks ∧ s'.lexErr = s.lexErr ∧
      Parses (.vecIntro :: (pfx ++ lbody.map (·.tok))) (.vec (ds.map Datum.strip) none)
        (s'.toks.map (·.tok))

theorem datum_cur_some {f : Nat} {s : PState} {d : Datum} {s' : PState}
    (h : datum f s = .ok (d, s')) : ∃ t, s.cur = some t := by
  cases f with
  | zero => simp [datum] at h
  | succ f =>
    rw [datum] at h
    cases hc : s.cur with
    | none => simp [hc] at h
    | some t => exact ⟨t, rfl⟩

theorem sndDat_of_sndCur {f : Nat} (h : SndCur f) : SndDat f := by
  intro s d s' hd
  obtain ⟨t, hc⟩ := datum_cur_some hd
  have := datum_current f s t hc
  cases hcd : currentDatum f s with
  | error e =>
    rw [hcd] at this
    obtain ⟨l, hl⟩ := this
    rw [hl] at hd; cases hd
  | ok r =>
    obtain ⟨od, s1⟩ := r
    obtain ⟨d1, lpre, rfl, g1, g2, g3⟩ := h s t od s1 hc hcd
    rw [hcd] at this
    obtain ⟨d2, c, k1, k2⟩ := this
    rw [k1] at hd
    simp only [Except.ok.injEq, Prod.mk.injEq] at hd
    obtain ⟨rfl, rfl⟩ := hd
    exact ⟨t, lpre, hc, g1, g2, by rw [k2]; exact g3⟩

theorem sndQ_succ {f : Nat} (h : SndDat f) : SndQ (f + 1) := by
  intro s d s' hq
  rw [parseQuoted_succ] at hq
  cases hd : datum f s with
  | error e => rw [hd] at hq; cases hq
  | ok r =>
    obtain ⟨d0, s1⟩ := r
    rw [hd] at hq
    simp only [Except.ok.injEq, Prod.mk.injEq] at hq
    obtain ⟨rfl, rfl⟩ := hq
    obtain ⟨lt0, lpre, g0, g1, g2, g3⟩ := h s d0 s1 hd
    exact ⟨lt0, lpre, d0.strip, g0, g1, g2, by simp [mkQuote, Datum.strip, quoteForm], g3⟩

theorem sndCur_succ {f : Nat} (hL : SndLoop f) (hR : SndRep f) (hQ : SndQ f) : SndCur (f + 1) := by
  intro s lt0 od s' hc h
  rw [cur_succ f s lt0 hc] at h
  cases htok : lt0.tok <;> simp only [htok] at h <;> try (cases h; done)
  · -- identifier
    simp only [Except.ok.injEq, Prod.mk.injEq] at h
    obtain ⟨rfl, rfl⟩ := h
    exact ⟨_, [], rfl, rfl, rfl, .ident _ _⟩
  · -- primitive
    simp only [Except.ok.injEq, Prod.mk.injEq] at h
    obtain ⟨rfl, rfl⟩ := h
    exact ⟨_, [], rfl, rfl, rfl, .prim _ _⟩
  · -- list
    cases hl : listLoop f s s.loc (.nil none) false with
    | error e => rw [hl] at h; cases h
    | ok r =>
      obtain ⟨d, s1⟩ := r
      rw [hl] at h
      simp only [Except.ok.injEq, Prod.mk.injEq] at h
      obtain ⟨rfl, rfl⟩ := h
      obtain ⟨lbody, g1, g2, g3⟩ := hL s s.loc (.nil none) false d s1 [] [] hl rfl
        (Or.inl ⟨rfl, .nil _⟩)
      exact ⟨d, lbody, rfl, g1, g2, by simpa using g3⟩
  · -- vector
    cases hl : repeatDatum f s [] with
    | error e => rw [hl] at h; cases h
    | ok r =>
      obtain ⟨xs, s1⟩ := r
      rw [hl] at h
      simp only [Except.ok.injEq, Prod.mk.injEq] at h
      obtain ⟨rfl, rfl⟩ := h
      obtain ⟨lbody, g1, g2, g3⟩ := hR s [] xs s1 [] hl (.nil _)
      refine ⟨_, lbody, rfl, g1, g2, ?_⟩
      simpa [Datum.strip, stripList_eq_map] using g3
  · -- quote
    cases ha : advance s with
    | error e => rw [ha] at h; cases h
    | ok s1 =>
      rw [ha] at h
      simp only [] at h
      cases hq : parseQuoted f s1 with
      | error e => rw [hq] at h; cases h
      | ok r =>
        obtain ⟨d, s2⟩ := r
        rw [hq] at h
        simp only [Except.ok.injEq, Prod.mk.injEq] at h
        obtain ⟨rfl, rfl⟩ := h
        obtain ⟨lt1, lpre, d0, g0, g1, g2, g3, g4⟩ := hQ s1 d s2 hq
        cases hs : s.toks with
        | nil =>
          simp only [advance, hs] at ha
          cases he : s.lexErr <;> rw [he] at ha <;> simp at ha
          subst ha
          simp at g0
        | cons t' rest0 =>
          rw [advance_cons hs] at ha
          simp only [Except.ok.injEq] at ha
          subst ha
          simp only [Option.some.injEq] at g0
          subst g0
          simp only at g1 g2
          refine ⟨d, t' :: lpre, rfl, by simp [g1], g2, ?_⟩
          rw [g3]
          exact .quote g4

theorem sndRep_succ {f : Nat} (hD : SndDat f) (hR : SndRep f) : SndRep (f + 1) := by
  intro s acc ds s' pfx h hseq
  rw [repeatDatum_succ] at h
  cases hp : peek s with
  | error e => rw [hp] at h; cases h
  | ok o =>
    rw [hp] at h
    cases o with
    | none => cases h
    | some t =>
      obtain ⟨rest0, hs⟩ := peek_some hp
      simp only [advance_cons hs] at h
      by_cases hrp : t.tok = .rparen
      · simp only [hrp, if_true, Except.ok.injEq, Prod.mk.injEq] at h
        obtain ⟨rfl, rfl⟩ := h
        refine ⟨[t], by simp [hs], rfl, ?_⟩
        simp only [hs, List.map_cons, hrp] at hseq
        simpa [hrp] using Parses.vec hseq
      · simp only [hrp, if_false] at h
        cases hd : datum f { s with toks := rest0, cur := some t, loc := t.loc } with
        | error e => rw [hd] at h; cases h
        | ok r =>
          obtain ⟨d, s2⟩ := r
          rw [hd] at h
          simp only [] at h
          obtain ⟨lt0, lpre, g0, g1, g2, g3⟩ := hD _ d s2 hd
          simp only [Option.some.injEq] at g0
          subst g0
          simp only at g1 g2
          have hseq' : ParsesSeq (pfx ++ (t.tok :: lpre.map (·.tok)))
              ((d :: acc).reverse.map Datum.strip) (s2.toks.map (·.tok)) := by
            have := seq_snoc hseq (t.tok :: lpre.map (·.tok)) d.strip (s2.toks.map (·.tok))
              (by simp [hs, g1]) g3
            simpa using this
          obtain ⟨lbody, k1, k2, k3⟩ := hR s2 (d :: acc) ds s' _ h hseq'
          refine ⟨t :: (lpre ++ lbody), by simp [hs, g1, k1], by rw [k2, g2], ?_⟩
          simpa using k3

theorem sndLoop_succ {f : Nat} (hC : SndCur f) (hL : SndLoop f) : SndLoop (f + 1) := by
  intro s loc acc dot d s' pfx es h hacc hst
  rw [listLoop_succ] at h
  cases ha : advanceUnwrap s with
  | error e => rw [ha] at h; cases h
  | ok r =>
    obtain ⟨t, s1⟩ := r
    rw [ha] at h
    simp only [] at h
    obtain ⟨rest0, hs, rfl⟩ := advanceUnwrap_ok ha
    simp only [hs, List.map_cons] at hst
    by_cases hp : t.tok = .period
    · -- the dot
      simp only [hp, if_true] at h
      cases dot with
      | true => cases h
      | false =>
        simp only [Bool.false_eq_true, if_false] at h
        rcases hst with ⟨-, hst⟩ | ⟨hf, -⟩ | ⟨hf, -⟩
        · obtain ⟨lbody, g1, g2, g3⟩ := hL _ loc acc true d s' (pfx ++ [.period]) es h hacc
            (Or.inr (Or.inl ⟨rfl, pfx, rfl, by simpa [hp] using hst⟩))
          exact ⟨t :: lbody, by simpa [hs] using g1, g2, by simpa [hp] using g3⟩
        · cases hf
        · cases hf
    · simp only [hp, if_false] at h
      by_cases hrp : t.tok = .rparen
      · -- the closing parenthesis
        simp only [hrp, if_true, Except.ok.injEq, Prod.mk.injEq] at h
        obtain ⟨rfl, rfl⟩ := h
        refine ⟨[t], by simp [hs], rfl, ?_⟩
        rw [strip_withLoc, hacc]
        simp only [hrp] at hst
        rcases hst with ⟨-, hst⟩ | ⟨-, tsPre, rfl, hst⟩ | ⟨-, t1, d1, rfl, rfl, hst⟩
        · simpa [hrp] using Parses.list hst
        · simpa [hrp] using Parses.quirkDotClose hst
        · simpa [hrp] using Parses.quirkLeadingDot hst
      · -- an element
        simp only [hrp, if_false] at h
        cases hcd : currentDatum f { s with toks := rest0, cur := some t, loc := t.loc } with
        | error e => rw [hcd] at h; cases h
        | ok r =>
          obtain ⟨od, s2⟩ := r
          obtain ⟨e, lpre, rfl, g1, g2, g3⟩ := hC _ t od s2 rfl hcd
          simp only at g1 g2
          rw [hcd] at h
          simp only [] at h
          have hR : t.tok :: rest0.map (·.tok)
              = (t.tok :: lpre.map (·.tok)) ++ s2.toks.map (·.tok) := by simp [g1]
          by_cases hpd : (isPair acc && dot) = true
          · -- the element after the dot: the tail
            simp only [hpd, if_true] at h
            simp only [Bool.and_eq_true] at hpd
            obtain ⟨hpa, rfl⟩ := hpd
            cases ha2 : advanceUnwrap s2 with
            | error e => rw [ha2] at h; cases h
            | ok r =>
              obtain ⟨t2, s3⟩ := r
              rw [ha2] at h
              simp only [] at h
              obtain ⟨rest2, hs2, rfl⟩ := advanceUnwrap_ok ha2
              by_cases hrp2 : t2.tok = .rparen
              · simp only [hrp2, if_true, Except.ok.injEq, Prod.mk.injEq] at h
                obtain ⟨rfl, rfl⟩ := h
                refine ⟨t :: (lpre ++ [t2]), by simp [hs, g1, hs2], g2, ?_⟩
                rw [strip_withLoc, strip_setTail, hacc, setTail_proper]
                simp only [hs2, List.map_cons, hrp2] at g3 hR
                have hne : es ≠ [] := by
                  have := isPair_of_strip hacc
                  rw [hpa] at this
                  intro e0; subst e0; simp at this
                rcases hst with ⟨hf, -⟩ | ⟨-, tsPre, rfl, hst⟩ | ⟨-, t1, d1, rfl, rfl, hst⟩
                · cases hf
                · rw [hR] at hst
                  simpa [hrp2] using Parses.dotted hst hne g3
                · rw [hR] at hst
                  simpa [hrp2] using Parses.quirkLeadingDotPair hst g3
              · simp only [hrp2, if_false] at h
                cases h
          · -- an ordinary element (or the first one after a leading dot)
            simp only [hpd] at h
            have hacc' := strip_snoc_proper (e := e) hacc
            rcases hst with ⟨rfl, hst⟩ | ⟨rfl, tsPre, rfl, hst⟩ | ⟨rfl, t1, d1, rfl, rfl, hst⟩
            · have hseq := seq_snoc hst _ e.strip _ hR g3
              obtain ⟨lbody, k1, k2, k3⟩ := hL s2 loc (snoc acc e) false d s' _ _ h hacc'
                (Or.inl ⟨rfl, hseq⟩)
              exact ⟨t :: (lpre ++ lbody), by simp [hs, g1, k1], by rw [k2, g2], by simpa using k3⟩
            · have hes : es = [] := by
                have := isPair_of_strip hacc
                cases es with
                | nil => rfl
                | cons x xs => simp [this] at hpd
              subst hes
              have := seq_nil_inv hst
              subst this
              obtain ⟨lbody, k1, k2, k3⟩ := hL s2 loc (snoc acc e) true d s'
                (.period :: (t.tok :: lpre.map (·.tok))) _ h hacc'
                (Or.inr (Or.inr ⟨rfl, _, _, rfl, rfl, g3⟩))
              exact ⟨t :: (lpre ++ lbody), by simp [hs, g1, k1], by rw [k2, g2], by simpa using k3⟩
            · have := isPair_of_strip hacc
              simp [this] at hpd

theorem snd_all : ∀ f : Nat, SndCur f ∧ SndDat f ∧ SndQ f ∧ SndLoop f ∧ SndRep f
  | 0 => by
    refine ⟨?_, ?_, ?_, ?_, ?_⟩
    · intro s lt0 od s' _ h; simp [currentDatum] at h
    · intro s d s' h; simp [datum] at h
    · intro s d s' h; simp [parseQuoted] at h
    · intro s loc acc dot d s' pfx es h; simp [listLoop] at h
    · intro s acc ds s' pfx h; simp [repeatDatum] at h
  | f + 1 => by
    obtain ⟨hC, hD, hQ, hL, hR⟩ := snd_all f
    have hC' := sndCur_succ hL hR hQ
    exact ⟨hC', sndDat_of_sndCur hC', sndQ_succ hD, sndLoop_succ hC hL, sndRep_succ hD hR⟩

/-! ## the fuel the model supplies always suffices; all errors are syntax errors -/

/-- an outcome that is a syntax error, or a result that leaves at most `n` tokens -/
def Good {α : Type} (n : Nat) : Except SErr (α × PState) → Prop
  | .error e => e.1 = .syntax
  | .ok p => p.2.toks.length ≤ n

theorem good_mono {α : Type} {n m : Nat} {r : Except SErr (α × PState)} (h : Good n r)
    (hnm : n ≤ m) : Good m r := by
  cases r with
  | error e => exact h
  | ok p => exact Nat.le_trans h hnm

def TotCur (f : Nat) : Prop :=
  ∀ s : PState, (s.cur.isSome = true → 2 * s.toks.length + 3 ≤ f) → 1 ≤ f →
    Good s.toks.length (currentDatum f s)
def TotDat (f : Nat) : Prop :=
  ∀ s : PState, (s.cur.isSome = true → 2 * s.toks.length + 3 ≤ f) → 1 ≤ f →
    Good s.toks.length (datum f s)
def TotQ (f : Nat) : Prop :=
  ∀ s : PState, (s.cur.isSome = true → 2 * s.toks.length + 4 ≤ f) → 2 ≤ f →
    Good s.toks.length (parseQuoted f s)
def TotLoop (f : Nat) : Prop :=
  ∀ (s : PState) (loc : Loc) (acc : Datum) (dot : Bool), 2 * s.toks.length + 2 ≤ f →
    Good s.toks.length (listLoop f s loc acc dot)
def TotRep (f : Nat) : Prop :=
  ∀ (s : PState) (acc : List Datum), 2 * s.toks.length + 2 ≤ f →
    Good s.toks.length (repeatDatum f s acc)

theorem advance_cases (s : PState) :
    (∃ t rest0, s.toks = t :: rest0 ∧
      advance s = .ok { s with toks := rest0, cur := some t, loc := t.loc }) ∨
    (s.toks = [] ∧ ∃ e, advance s = .error (.syntax, e)) ∨
    (s.toks = [] ∧ advance s = .ok { s with cur := none, loc := none }) := by
  cases hs : s.toks with
  | cons t rest0 => exact Or.inl ⟨t, rest0, rfl, advance_cons hs⟩
  | nil =>
    cases he : s.lexErr with
    | none => exact Or.inr (Or.inr ⟨rfl, by simp [advance, hs, he]⟩)
    | some e => exact Or.inr (Or.inl ⟨rfl, some e, by simp [advance, hs, he]⟩)

theorem advanceUnwrap_cases (s : PState) :
    (∃ t rest0, s.toks = t :: rest0 ∧
      advanceUnwrap s = .ok (t, { s with toks := rest0, cur := some t, loc := t.loc })) ∨
    (s.toks = [] ∧ ∃ e, advanceUnwrap s = .error (.syntax, e)) := by
  rcases advance_cases s with ⟨t, rest0, hs, -⟩ | ⟨hs, e, h⟩ | ⟨hs, h⟩
  · exact Or.inl ⟨t, rest0, hs, advanceUnwrap_cons hs⟩
  · exact Or.inr ⟨hs, e, by simp [advanceUnwrap, h, bind, Except.bind]⟩
  · exact Or.inr ⟨hs, s.loc, by simp [advanceUnwrap, h, bind, Except.bind]⟩

theorem totCur_succ {f : Nat} (hL : TotLoop f) (hR : TotRep f) (hQ : TotQ f) :
    TotCur (f + 1) := by
  intro s hb _
  cases hc : s.cur with
  | none => simp [currentDatum, hc, Good]
  | some t =>
    have hb := hb (by simp [hc])
    rw [cur_succ f s t hc]
    cases htok : t.tok <;> simp only [] <;> try (simp [Good]; done)
    · -- list
      have := hL s s.loc (.nil none) false (by omega)
      cases hl : listLoop f s s.loc (.nil none) false <;> rw [hl] at this <;> exact this
    · -- vector
      have := hR s [] (by omega)
      cases hl : repeatDatum f s [] <;> rw [hl] at this <;> exact this
    · -- quote
      rcases advance_cases s with ⟨t1, rest0, hs, ha⟩ | ⟨hs, e, ha⟩ | ⟨hs, ha⟩
      · rw [ha]
        simp only []
        have := hQ { s with toks := rest0, cur := some t1, loc := t1.loc }
          (by intro _; simp only [hs, List.length_cons] at hb ⊢; omega) (by omega)
        simp only [] at this
        cases hq : parseQuoted f { s with toks := rest0, cur := some t1, loc := t1.loc } with
        | error e => rw [hq] at this; exact this
        | ok r => rw [hq] at this; simp only [Good, hs, List.length_cons] at this ⊢; omega
      · rw [ha]; simp [Good]
      · rw [ha]
        simp only []
        have := hQ { s with cur := none, loc := none } (by simp) (by omega)
        cases hq : parseQuoted f { s with cur := none, loc := none } with
        | error e => rw [hq] at this; exact this
        | ok r => rw [hq] at this; exact this

theorem totDat_of_totCur {f : Nat} (h : TotCur (f + 1)) : TotDat (f + 1) := by
  intro s hb h1
  cases hc : s.cur with
  | none => simp [datum, hc, Good]
  | some t =>
    have h1 := h s hb h1
    have := datum_current (f + 1) s t hc
    cases hcd : currentDatum (f + 1) s with
    | error e =>
      rw [hcd] at this h1
      obtain ⟨l, hl⟩ := this
      rw [hl]; exact h1
    | ok r =>
      obtain ⟨od, s1⟩ := r
      rw [hcd] at this h1
      cases od with
      | none => exact this.elim
      | some d =>
        obtain ⟨d2, c, k1, -⟩ := this
        rw [k1]; exact h1

theorem totQ_succ {f : Nat} (h : TotDat f) : TotQ (f + 1) := by
  intro s hb h2
  rw [parseQuoted_succ]
  have := h s (fun hc => by have := hb hc; omega) (by omega)
  cases hd : datum f s with
  | error e => rw [hd] at this; exact this
  | ok r => rw [hd] at this; exact this

theorem totRep_succ {f : Nat} (hD : TotDat f) (hR : TotRep f) : TotRep (f + 1) := by
  intro s acc hb
  rw [repeatDatum_succ]
  cases hs : s.toks with
  | nil =>
    cases he : s.lexErr <;> simp [peek, hs, he, Good]
  | cons t rest0 =>
    rw [peek_cons hs, advance_cons hs]
    simp only [hs, List.length_cons] at hb
    simp only []
    by_cases hrp : t.tok = .rparen
    · simp [hrp, Good]
    · simp only [hrp, if_false]
      have h1 := hD { s with toks := rest0, cur := some t, loc := t.loc } (fun _ => by
        simp only []; omega) (by omega)
      cases hd : datum f { s with toks := rest0, cur := some t, loc := t.loc } with
      | error e => rw [hd] at h1; exact h1
      | ok r =>
        obtain ⟨d, s2⟩ := r
        rw [hd] at h1
        simp only [Good] at h1
        simp only []
        exact good_mono (hR s2 (d :: acc) (by omega)) (by simp only [List.length_cons]; omega)

theorem totLoop_succ {f : Nat} (hC : TotCur f) (hL : TotLoop f) : TotLoop (f + 1) := by
  intro s loc acc dot hb
  rw [listLoop_succ]
  rcases advanceUnwrap_cases s with ⟨t, rest0, hs, ha⟩ | ⟨hs, e, ha⟩
  · rw [ha]
    simp only [hs, List.length_cons] at hb ⊢
    by_cases hp : t.tok = .period
    · simp only [hp, if_true]
      cases dot with
      | true => simp [Good]
      | false =>
        simp only [Bool.false_eq_true, if_false]
        exact good_mono (hL { s with toks := rest0, cur := some t, loc := t.loc } loc acc true
          (by simp only []; omega)) (by simp)
    · simp only [hp, if_false]
      by_cases hrp : t.tok = .rparen
      · simp [hrp, Good]
      · simp only [hrp, if_false]
        have h1 := hC { s with toks := rest0, cur := some t, loc := t.loc } (fun _ => by
          simp only []; omega) (by omega)
        cases hcd : currentDatum f { s with toks := rest0, cur := some t, loc := t.loc } with
        | error e => rw [hcd] at h1; exact h1
        | ok r =>
          obtain ⟨od, s2⟩ := r
          rw [hcd] at h1
          simp only [Good] at h1
          cases od with
          | none => simp [Good]
          | some e =>
            simp only []
            by_cases hpd : (isPair acc && dot) = true
            · simp only [hpd, if_true]
              rcases advanceUnwrap_cases s2 with ⟨t2, rest2, hs2, ha2⟩ | ⟨hs2, e2, ha2⟩
              · rw [ha2]
                simp only []
                by_cases hrp2 : t2.tok = .rparen
                · simp only [hrp2, if_true, Good]
                  rw [hs2] at h1; simp only [List.length_cons] at h1; omega
                · simp [hrp2, Good]
              · rw [ha2]; simp [Good]
            · simp only [hpd]
              exact good_mono (hL s2 loc (snoc acc e) dot (by omega)) (by omega)
  · rw [ha]; simp [Good]

theorem tot_all : ∀ f : Nat, TotCur f ∧ TotDat f ∧ TotQ f ∧ TotLoop f ∧ TotRep f
  | 0 => by
    refine ⟨?_, ?_, ?_, ?_, ?_⟩
    · intro s _ h; omega
    · intro s _ h; omega
    · intro s _ h; omega
    · intro s _ _ _ h; omega
    · intro s _ h; omega
  | f + 1 => by
    obtain ⟨hC, hD, hQ, hL, hR⟩ := tot_all f
    have hC' := totCur_succ hL hR hQ
    exact ⟨hC', totDat_of_totCur hC', totQ_succ hD, totLoop_succ hC hL, totRep_succ hD hR⟩

/-! ## syntax trees: the quirk-free derivations, and their unique readability -/

theorem denoteL_improper (xs : List Syn) (tl : Datum) :
    Syn.denoteL xs tl = improper (Syn.denoteV xs) tl := by
  induction xs with
  | nil => rfl
  | cons x xs ih => simp [Syn.denoteL, Syn.denoteV, improper, ih]

mutual
theorem parses_of_syn : (x : Syn) → WellFormed x → ∀ rest, Parses x.toks x.denote rest
  | .atom t, h, rest => by
    cases t <;> simp [WellFormed, Syn.isAtomTok] at h
    · exact .ident _ _
    · exact .prim _ _
  | .list xs, h, rest => by
    have := Parses.list (seq_of_syns xs (by simpa [WellFormed] using h) (.rparen :: rest))
    simpa [Syn.toks, Syn.denote, denoteL_improper, proper] using this
  | .dotted xs t, h, rest => by
    simp only [WellFormed] at h
    have hne : Syn.denoteV xs ≠ [] := by
      cases xs with
      | nil => exact absurd rfl h.1
      | cons x xs => simp [Syn.denoteV]
    have := Parses.dotted (seq_of_syns xs h.2.1 _) hne (parses_of_syn t h.2.2 (.rparen :: rest))
    simpa [Syn.toks, Syn.denote, denoteL_improper] using this
  | .vec xs, h, rest => by
    have := Parses.vec (seq_of_syns xs (by simpa [WellFormed] using h) (.rparen :: rest))
    simpa [Syn.toks, Syn.denote] using this
  | .quote x, h, rest => by
    have := Parses.quote (parses_of_syn x (by simpa [WellFormed] using h) rest)
    simpa [Syn.toks, Syn.denote, quoteForm] using this
theorem seq_of_syns : (xs : List Syn) → WellFormedL xs → ∀ rest,
    ParsesSeq (Syn.toksL xs) (Syn.denoteV xs) rest
  | [], _, rest => .nil rest
  | x :: xs, h, rest => by
    simp only [WellFormedL] at h
    exact .cons (parses_of_syn x h.1 _) (seq_of_syns xs h.2 rest)
end

theorem wf_head : (x : Syn) → WellFormed x →
    ∃ t0 more, x.toks = t0 :: more ∧ Syn.isStartTok t0 = true
  | .atom t, h => by
    refine ⟨t, [], rfl, ?_⟩
    cases t <;> simp_all [WellFormed, Syn.isAtomTok, Syn.isStartTok]
  | .list xs, _ => ⟨_, _, rfl, rfl⟩
  | .dotted xs t, _ => ⟨_, _, rfl, rfl⟩
  | .vec xs, _ => ⟨_, _, rfl, rfl⟩
  | .quote x, _ => ⟨_, _, rfl, rfl⟩

mutual
theorem toks_unique : (x : Syn) → WellFormed x → ∀ y, WellFormed y → ∀ r r',
    x.toks ++ r = y.toks ++ r' → x = y ∧ r = r'
  | .atom t, hx, y, hy, r, r', h => by
    simp only [WellFormed] at hx
    cases y with
    | atom t' =>
      simp only [Syn.toks, List.cons_append, List.nil_append, List.cons.injEq] at h
      exact ⟨by rw [h.1], h.2⟩
    | list ys => simp [Syn.toks] at h; rw [h.1] at hx; cases hx
    | dotted ys t' => simp [Syn.toks] at h; rw [h.1] at hx; cases hx
    | vec ys => simp [Syn.toks] at h; rw [h.1] at hx; cases hx
    | quote y => simp [Syn.toks] at h; rw [h.1] at hx; cases hx
  | .list xs, hx, y, hy, r, r', h => by
    simp only [WellFormed] at hx
    cases y with
    | atom t' =>
      simp only [WellFormed] at hy
      simp [Syn.toks] at h; rw [← h.1] at hy; cases hy
    | list ys =>
      simp only [WellFormed] at hy
      simp only [Syn.toks, List.cons_append, List.append_assoc, List.nil_append,
        List.cons.injEq, true_and] at h
      obtain ⟨e1, -, e3⟩ := toksL_unique xs hx ys hy _ _ r r' rfl rfl h
      exact ⟨by rw [e1], e3⟩
    | dotted ys t' =>
      simp only [WellFormed] at hy
      simp only [Syn.toks, List.cons_append, List.append_assoc, List.nil_append,
        List.cons.injEq, true_and] at h
      obtain ⟨-, e2, -⟩ := toksL_unique xs hx ys hy.2.1 _ _ r _ rfl rfl h
      cases e2
    | vec ys => simp [Syn.toks] at h
    | quote y => simp [Syn.toks] at h
  | .dotted xs t, hx, y, hy, r, r', h => by
    simp only [WellFormed] at hx
    cases y with
    | atom t' =>
      simp only [WellFormed] at hy
      simp [Syn.toks] at h; rw [← h.1] at hy; cases hy
    | list ys =>
      simp only [WellFormed] at hy
      simp only [Syn.toks, List.cons_append, List.append_assoc, List.nil_append,
        List.cons.injEq, true_and] at h
      obtain ⟨-, e2, -⟩ := toksL_unique xs hx.2.1 ys hy _ _ _ r' rfl rfl h
      cases e2
    | dotted ys t' =>
      simp only [WellFormed] at hy
      simp only [Syn.toks, List.cons_append, List.append_assoc, List.nil_append,
        List.cons.injEq, true_and] at h
      obtain ⟨e1, -, e3⟩ := toksL_unique xs hx.2.1 ys hy.2.1 _ _ _ _ rfl rfl h
      obtain ⟨e4, e5⟩ := toks_unique t hx.2.2 t' hy.2.2 _ _ e3
      simp only [List.cons.injEq, true_and] at e5
      exact ⟨by rw [e1, e4], e5⟩
    | vec ys => simp [Syn.toks] at h
    | quote y => simp [Syn.toks] at h
  | .vec xs, hx, y, hy, r, r', h => by
    simp only [WellFormed] at hx
    cases y with
    | atom t' =>
      simp only [WellFormed] at hy
      simp [Syn.toks] at h; rw [← h.1] at hy; cases hy
    | vec ys =>
      simp only [WellFormed] at hy
      simp only [Syn.toks, List.cons_append, List.append_assoc, List.nil_append,
        List.cons.injEq, true_and] at h
      obtain ⟨e1, -, e3⟩ := toksL_unique xs hx ys hy _ _ r r' rfl rfl h
      exact ⟨by rw [e1], e3⟩
    | list ys => simp [Syn.toks] at h
    | dotted ys t' => simp [Syn.toks] at h
    | quote y => simp [Syn.toks] at h
  | .quote x, hx, y, hy, r, r', h => by
    simp only [WellFormed] at hx
    cases y with
    | atom t' =>
      simp only [WellFormed] at hy
      simp [Syn.toks] at h; rw [← h.1] at hy; cases hy
    | quote y =>
      simp only [WellFormed] at hy
      simp only [Syn.toks, List.cons_append, List.cons.injEq, true_and] at h
      obtain ⟨e1, e2⟩ := toks_unique x hx y hy r r' h
      exact ⟨by rw [e1], e2⟩
    | list ys => simp [Syn.toks] at h
    | dotted ys t' => simp [Syn.toks] at h
    | vec ys => simp [Syn.toks] at h
theorem toksL_unique : (xs : List Syn) → WellFormedL xs → ∀ ys, WellFormedL ys →
    ∀ (e e' : Token) (r r' : List Token), Syn.isStartTok e = false → Syn.isStartTok e' = false →
    Syn.toksL xs ++ e :: r = Syn.toksL ys ++ e' :: r' → xs = ys ∧ e = e' ∧ r = r'
  | [], _, ys, hy, e, e', r, r', he, he', h => by
    cases ys with
    | nil => simp only [Syn.toksL, List.nil_append, List.cons.injEq] at h; exact ⟨rfl, h.1, h.2⟩
    | cons y ys =>
      simp only [WellFormedL] at hy
      obtain ⟨t0, more, ht, hst⟩ := wf_head y hy.1
      simp only [Syn.toksL, ht, List.nil_append, List.cons_append, List.cons.injEq] at h
      rw [h.1, hst] at he; cases he
  | x :: xs, hx, ys, hy, e, e', r, r', he, he', h => by
    simp only [WellFormedL] at hx
    cases ys with
    | nil =>
      obtain ⟨t0, more, ht, hst⟩ := wf_head x hx.1
      simp only [Syn.toksL, ht, List.nil_append, List.cons_append, List.cons.injEq] at h
      rw [← h.1, hst] at he'; cases he'
    | cons y ys =>
      simp only [WellFormedL] at hy
      simp only [Syn.toksL, List.append_assoc] at h
      obtain ⟨e1, e2⟩ := toks_unique x hx.1 y hy.1 _ _ h
      obtain ⟨e3, e4, e5⟩ := toksL_unique xs hx.2 ys hy.2 e e' r r' he he' e2
      exact ⟨by rw [e1, e3], e4, e5⟩
end

mutual
theorem wf_of_supported : (x : Syn) → Syn.Supported x → WellFormed x
  | .atom t, h => h.1
  | .list xs, h => by
    simp only [WellFormed]; exact wfL_of_supported xs (by simpa [Syn.Supported] using h)
  | .dotted xs t, h => by
    simp only [Syn.Supported] at h
    simp only [WellFormed]
    exact ⟨h.1, wfL_of_supported xs h.2.1, wf_of_supported t h.2.2⟩
  | .vec xs, h => by
    simp only [WellFormed]; exact wfL_of_supported xs (by simpa [Syn.Supported] using h)
  | .quote x, h => by
    simp only [WellFormed]; exact wf_of_supported x (by simpa [Syn.Supported] using h)
theorem wfL_of_supported : (xs : List Syn) → Syn.SupportedL xs → WellFormedL xs
  | [], _ => trivial
  | x :: xs, h => by
    simp only [Syn.SupportedL] at h
    exact ⟨wf_of_supported x h.1, wfL_of_supported xs h.2⟩
end

/-! ## the entry point `nextDatum` -/

theorem nextDatum_cons {s : PState} {t : LToken} {rest0 : List LToken} (hs : s.toks = t :: rest0) :
    nextDatum s = currentDatum (4 * (rest0.length + 2))
      { s with toks := rest0, cur := some t, loc := t.loc } := by
  simp [nextDatum, advance_cons hs, bind, Except.bind, fuelFor]

theorem nextDatum_nil {s : PState} (hs : s.toks = []) :
    nextDatum s = match s.lexErr with
      | some e => .error (.syntax, some e)
      | none => .ok (none, { s with cur := none, loc := none }) := by
  cases he : s.lexErr <;>
    simp [nextDatum, advance, hs, he, bind, Except.bind, fuelFor, currentDatum]

/-! ## the context of a datum never matters -/

mutual
theorem parses_frame : ∀ {ts : List Token} {d : Datum} {rest : List Token}, Parses ts d rest →
    ∀ rest', Parses ts d rest'
  | _, _, _, .prim p _, r' => .prim p r'
  | _, _, _, .ident p _, r' => .ident p r'
  | _, _, _, .list h, _ => .list (seq_frame h _)
  | _, _, _, .dotted h hne ht, _ => .dotted (seq_frame h _) hne (parses_frame ht _)
  | _, _, _, .vec h, _ => .vec (seq_frame h _)
  | _, _, _, .quote h, _ => .quote (parses_frame h _)
  | _, _, _, .quirkDotClose h, _ => .quirkDotClose (seq_frame h _)
  | _, _, _, .quirkLeadingDot h, _ => .quirkLeadingDot (parses_frame h _)
  | _, _, _, .quirkLeadingDotPair h1 h2, _ =>
    .quirkLeadingDotPair (parses_frame h1 _) (parses_frame h2 _)
theorem seq_frame : ∀ {ts : List Token} {ds : List Datum} {rest : List Token},
    ParsesSeq ts ds rest → ∀ rest', ParsesSeq ts ds rest'
  | _, _, _, .nil _, r' => .nil r'
  | _, _, _, .cons h hs, _ => .cons (parses_frame h _) (seq_frame hs _)
end

end Ruschm.ReadSpec

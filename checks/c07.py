"""C07 — no input can crash the interpreter (partial: proved of the model; the real code is fuzzed).
Theorems: lean/RuschmProofs/C07.lean (the model never returns a `panic` outcome from well-formed
states; every Rust panic site has a counterpart in the model that is shown unreachable).
Tie: (1) every string of length <= 4 over a 20-character alphabet of structural characters (168 421
strings), each evaluated as source text and followed by a sanity form on the same interpreter;
(2) random token soup over the full vocabulary, balanced and unbalanced; (3) token-level mutations
of valid programs and of the bundled grammar.sld/base.sld; (4) random Unicode/control characters;
(5) program files that are not valid UTF-8 or are directories, through eval_file. Compared with the
model on the classification value | error kind | panic. Oracle on the implementation alone: no
panic, and the sanity form still evaluates to 42 after every input."""
import itertools, os, random
from . import common as C, proggen as P

PROP = "C07"
MODULES = ["RuschmProofs.C07", "RuschmProofs.BuiltinTable", "RuschmProofs.C07Files"]
ALPHA20 = list("()'.#\";|\\+-1ae/t,` ") + ["\n"]
SANITY = "((lambda (x) x) 42)"
VOCAB = ["(", ")", "(", ")", "'", "#(", ".", "define", "lambda", "if", "set!", "quote", "let", "let*", "cond", "case", "else", "=>",
         "and", "or", "when", "unless", "begin", "define-syntax", "syntax-rules", "...", "_", "import", "define-library", "export",
         "only", "except", "prefix", "rename", "scheme", "base", "x", "y", "f", "car", "cdr", "cons", "list", "vector", "apply",
         "map", "+", "-", "*", "/", "=", "<", "0", "1", "-1", "2147483647", "-2147483648", "99999999999", "1/2", "1/0", "1/",
         "1e", "1e5", "+.", ".5", "1.5", "#t", "#f", "#\\a", "#\\space", "#\\", "\"s\"", "\"", "\"\\x41;\"", "\"\\q\"", "|a b|",
         "|", ";c\n", "`", ",", ",@", "#u8(", "#", "#true", "vector-ref", "vector-set!", "vector-length", "#(1 2)", "'()", "()",
         "(1 . 2)", "(a . b)", "list-tail", "exact", "1e39", "floor", "sqrt", "append", "eqv?", "max"]


TOK8 = ["(", ")", ".", "'", "#(", "a", "1", "\"s\""]


def soup(rng, n):
    toks = [rng.choice(VOCAB) for _ in range(n)]
    if rng.random() < 0.5:
        # balance the parentheses
        depth, out = 0, []
        for t in toks:
            if t in ("(", "#(", "#u8("):
                depth += 1
            elif t == ")":
                if depth == 0:
                    continue
                depth -= 1
            out.append(t)
        toks = out + [")"] * depth
    return " ".join(toks)


def macro_soup(rng):
    """definitions and uses of macros whose expansions are themselves definitions, macro
    definitions, or uses of other macros, at top level and inside bodies"""
    names = ["m", "n", "k", "p"]
    tmpls = ["(define-syntax %(a)s (syntax-rules () ((%(a)s x) (define-syntax x (syntax-rules () ((x) 1))))))",
             "(define-syntax %(a)s (syntax-rules () ((%(a)s x v) (define x v))))",
             "(define-syntax %(a)s (syntax-rules () ((%(a)s x) (%(b)s x))))",
             "(define-syntax %(a)s (syntax-rules () ((%(a)s x ...) (begin (define-syntax x (syntax-rules () ((x) 2))) ...))))",
             "(define-syntax %(a)s (syntax-rules () ((%(a)s) (define-syntax %(a)s (syntax-rules () ((%(a)s) 3))))))",
             "(define-syntax %(a)s (syntax-rules () ((%(a)s x) (lambda () (define-syntax x (syntax-rules () ((x) 4))) (x)))))",
             "(define-syntax %(a)s (syntax-rules () ((%(a)s x) (let ((x 1)) (define-syntax %(b)s (syntax-rules () ((%(b)s) x))) (%(b)s)))))"]
    uses = ["(%(a)s %(b)s)", "(%(a)s)", "(%(b)s)", "(%(a)s %(b)s 5)", "%(b)s", "((%(a)s %(b)s))", "(%(a)s %(a)s)", "(%(a)s %(b)s %(c)s)"]
    out = []
    for _ in range(rng.randrange(2, 6)):
        t = rng.choice(tmpls + uses + uses)
        d = {"a": rng.choice(names), "b": rng.choice(names), "c": rng.choice(names)}
        if t in tmpls:
            # a macro only ever expands into uses of LATER names: no expansion cycles (an infinite
            # expansion does not terminate in any implementation; it is not what this stream is after)
            i = rng.randrange(0, len(names) - 1)
            d = {"a": names[i], "b": rng.choice(names[i + 1:]), "c": rng.choice(names)}
        out.append(t % d)
    return " ".join(out)


def ellipsis_soup(rng):
    """a macro whose pattern has several ellipsis variables (in different sub-lists, nested, in a vector) and whose template
    puts them under ellipses in every combination - also the ones R7RS calls errors (runs of different lengths under one
    ellipsis, a variable at the wrong depth, doubled ellipses) - used on forms whose runs have different lengths, one
    item, or none"""
    pats = ["(m (a ...) (b ...))", "(m (a b ...) ...)", "(m a ...)", "(m (a ...) b ...)", "(m #(a ...) (b c ...))",
            "(m (a ...) (b ...) (c ...))", "(m a (b ...) ...)", "(m (a b) ...)",
            # an ellipsis with NOTHING before it in its list (accepted at definition time; a use must be a reported error)
            "(m ...)", "(m (... a) b)", "(m #(... a))", "(... m)", "(m a (...))", "(m (... ...) a)"]
    def tmpl(d):
        k = rng.random()
        if d <= 0 or k < 0.35:
            return rng.choice(["a", "b", "c", "1", "'x", "list", "cons", "+"])
        items = [tmpl(d - 1) for _ in range(rng.randrange(1, 4))]
        out = []
        for it in items:
            out.append(it)
            if rng.random() < 0.45:
                out.append("...")
                if rng.random() < 0.1:
                    out.append("...")
        return ("(" if rng.random() < 0.9 else "#(") + " ".join(out) + ")"
    fixed = ["(list (cons a b) ...)", "'((a b ...) ...)", "(list a ... b ...)", "(list (list a b c) ...)", "'((a ...) ...)",
             "(list (+ a b) ... c ...)", "'(a ... ...)", "(quote #(a ... b ...))"]
    uses = ["(m (1 2 3) (4 5))", "(m (1) ())", "(m () ())", "(m (1 2) 3 4 5)", "(m (1 2 3) (4))", "(m #(1 2) (3 4 5))",
            "(m (1 2 3) (4 5))", "(m (t1 b1 c1) (t2 b2))", "(m 1 2 3)", "(m (1 2) (3 4) (5))", "(m 1 (2 3) (4))", "(m)", "(m (1 2) (3 4))",
            "(m 2)", "(m (1 2) 3)", "(m #(1 2))", "(m 1 ())"]
    t = rng.choice(fixed) if rng.random() < 0.5 else tmpl(3)
    text = "(define-syntax m (syntax-rules () (%s %s)))" % (rng.choice(pats), t)
    return text + " " + " ".join(rng.choice(uses) for _ in range(rng.randrange(1, 4)))


def long_value_errors(rng):
    """errors whose MESSAGE has to print a long value: strings, symbols and lists of 20-90 characters drawn from 1-, 2-, 3- and
    4-byte characters, so that any byte offset may fall inside a character; used as the wrong argument of accessors,
    arithmetic, apply, as a non-procedure operator and as an out-of-range / immutable vector"""
    alph = ["a", "b", "\u00e9", "\u00fc", "\u03bb", "\u4e2d", "\u6587", "\U0001f600", "x", " "]
    n = rng.randrange(20, 90)
    body = "".join(rng.choice(alph) for _ in range(n)).strip() or "a"
    k = rng.randrange(4)
    if k == 0:
        v = '"%s"' % body
    elif k == 1:
        v = "'|%s|" % body.replace("|", "")
    elif k == 2:
        v = "'(%s)" % " ".join('"%s"' % body[i:i + 7] for i in range(0, len(body), 7))
    else:
        v = "(vector %s)" % " ".join('"%s"' % body[i:i + 5] for i in range(0, len(body), 5))
    return rng.choice(["(car %s)", "(+ 1 %s)", "(%s 1)", "(apply car %s)", "(vector-ref %s 0)", "(vector-set! %s 0 0)", "(cdr (list %s))",
                       "(let ((f %s)) (f))", "(- %s)", "(vector-ref (vector 1) %s)", "(undefined-zz %s)"]) % v


def effects_through_procedures(rng):
    """user procedures that ASSIGN or DEFINE variables of the scope in which builtins and library procedures are bound, mutate
    vectors or define macros - called THROUGH apply, map, for-each, fold-left, fold-right, vector accessors, in operator, operand
    and tail positions (a builtin must not hold on to the interpreter's environments while it runs user code)"""
    setup = ["(define total 0)", "(define (add! n) (set! total (+ total n)) total)", "(define (def! n) (set! car cdr) (set! total n) n)",
             "(define v (vector 1 2 3))", "(define (poke! i) (vector-set! v 0 i) (set! v (vector i i)) i)",
             "(define (redefine! n) (set! add! (lambda (k) (set! total (- total k)) total)) n)",
             "(define (rec! n) (if (= n 0) total (begin (set! total (+ total 1)) (apply rec! (list (- n 1))))))"]
    f = rng.choice(["add!", "poke!", "redefine!", "add!", "rec!"])
    arg = rng.choice(["'(5)", "(list 1)", "'(2)"])
    uses = ["(apply %s %s)" % (f, arg), "(map %s '(1 2 3))" % f, "(for-each %s '(4 5))" % f, "(fold-left (lambda (a x) (%s x)) 0 '(1 2))" % f,
            "(fold-right (lambda (x a) (%s x)) 0 '(1 2))" % f, "(+ 1 (apply %s %s))" % (f, arg), "(list (apply %s %s) total)" % (f, arg),
            "((lambda () (apply %s %s)))" % (f, arg), "(apply apply (list %s %s))" % (f, arg), "(apply map (list %s '(1 2)))" % f,
            "(vector-ref (vector (apply %s %s)) 0)" % (f, arg), "(let ((r (apply %s %s))) (set! total (+ total r)) total)" % (f, arg)]
    return " ".join(rng.sample(setup, len(setup))[:rng.randrange(3, 8)] + setup[:2] + [rng.choice(uses) for _ in range(rng.randrange(1, 4))] + ["total"])


def import_soup(rng):
    libs = ["(scheme base)", "(scheme base)", "(scheme write)", "(ruschm base)", "(no such)", "(scheme)"]
    names = ["car", "cdr", "cons", "+", "list", "display", "map", "nope", "car", "x"]
    def iset(d):
        if d <= 0 or rng.random() < 0.3:
            return rng.choice(libs)
        k = rng.randrange(4)
        inner = iset(d - 1)
        ids = [rng.choice(names) for _ in range(rng.randrange(0, 4))]
        if ids and rng.random() < 0.4:
            ids.append(rng.choice(ids))                      # a repeated identifier
        if k == 0: return "(only %s %s)" % (inner, " ".join(ids))
        if k == 1: return "(except %s %s)" % (inner, " ".join(ids))
        if k == 2: return "(prefix %s %s)" % (inner, rng.choice(["p-", "car", ""]))
        pairs = ["(%s %s)" % (rng.choice(names), rng.choice(names + ["y", "z"])) for _ in range(rng.randrange(0, 3))]
        if pairs and rng.random() < 0.3:
            pairs.append(rng.choice(pairs))
        return "(rename %s %s)" % (inner, " ".join(pairs))
    return "(import %s)" % " ".join(iset(3) for _ in range(rng.randrange(1, 3)))


def mutate(rng, text):
    toks = text.replace("(", " ( ").replace(")", " ) ").split()
    for _ in range(rng.randrange(1, 4)):
        if not toks:
            break
        i = rng.randrange(len(toks))
        r = rng.random()
        if r < 0.3:
            del toks[i]
        elif r < 0.6:
            toks.insert(i, rng.choice(VOCAB))
        elif r < 0.8:
            toks[i] = rng.choice(VOCAB)
        else:
            j = rng.randrange(len(toks)); toks[i], toks[j] = toks[j], toks[i]
    return " ".join(toks)


def classify(r):
    if r.startswith("V ") or r == "N":
        return "value"
    if r.startswith("E "):
        return "E " + r.split(" ")[1]
    return r.split(" ")[0]


def run(rep, tier, rng):
    texts = []
    # the corpus of minimised past failures runs first
    corpus = os.path.join(C.ROOT, "corpus", "c07_corpus.txt")
    if os.path.exists(corpus):
        for line in open(corpus):
            if line.strip() and not line.startswith("#"):
                texts.append(("corpus", line.rstrip("\n")))
    # macro-defining macros and other expansion/definition interplay (a past panic)
    for _ in range(200 if tier == "quick" else 4000):
        texts.append(("macro-soup", macro_soup(rng)))
    for _ in range(400 if tier == "quick" else 8000):
        texts.append(("ellipsis-soup", ellipsis_soup(rng)))
    for _ in range(500 if tier == "quick" else 10000):
        texts.append(("long-value-error", long_value_errors(rng)))
    for _ in range(300 if tier == "quick" else 6000):
        texts.append(("effects-through-procedures", effects_through_procedures(rng)))
    maxlen = 4
    for L in range(1, maxlen + 1):
        for t in itertools.product(ALPHA20, repeat=L):
            texts.append(("short", "".join(t)))
    # every sequence of at most 5 (thorough: 6) TOKENS over the structural token alphabet, blank-separated: the reader's list, dot,
    # quote and vector handling on every small arrangement of brackets, dots and data (the character-level family above reaches
    # only arrangements that fit into four characters)
    toklen = 5 if tier == "quick" else 6
    for L in range(1, toklen + 1):
        for t in itertools.product(TOK8, repeat=L):
            texts.append(("short-tokens", " ".join(t)))
    # every numeric procedure on every pair of SPECIAL operands (not-a-number and the infinities can only be computed, there is no
    # literal for them), directly and through apply: a value or a reported error, never a panic
    specials = ["(sqrt -1)", "(exp 100)", "(- (exp 100))", "-0.0", "0", "1/2", "2147483647", "-2147483648", "1e38", "(- (exp 100) (exp 100))"]
    unary = ["abs", "floor", "ceiling", "exact", "sqrt", "exp", "ln", "sin", "cos", "tan", "asin", "acos", "atan", "-", "/", "max", "min", "+", "*"]
    binary = ["+", "-", "*", "/", "max", "min", "=", "<", ">", "<=", ">=", "log", "atan2", "floor-quotient", "floor-remainder", "eqv?"]
    for op in unary:
        for a in specials:
            texts.append(("numeric-specials", "(%s %s)" % (op, a)))
    for op in binary:
        for a in specials:
            for b in specials:
                texts.append(("numeric-specials", "(%s %s %s)" % (op, a, b)))
                if op in ("max", "min", "+", "*", "=", "<") and rng.random() < 0.3:
                    texts.append(("numeric-specials", "(apply %s (list %s %s %s))" % (op, b, rng.choice(specials), a)))
    # EVERY native procedure on every pair of argument KINDS (numbers of every exactness, not-a-number, booleans, characters, strings,
    # symbols, the empty list, proper and improper lists, mutable and literal vectors, native and user procedures, the unspecified
    # value), and on every single one: a value or a reported error
    kinds = ["5", "-1", "1/2", "1.5", "(sqrt -1)", "#t", "#\\a", '"s"', "'sym", "'()", "'(1 2)", "'(1 . 2)", "(vector 1 2)", "#(1)", "car",
             "(lambda (x) x)", "(if #f #f)"]
    for op in sorted(P.BUILTIN_ARITY):
        if op in ("display", "newline"):
            continue                      # they write to the process's standard output
        for a in kinds:
            texts.append(("builtin-kinds", "(%s %s)" % (op, a)))
            for b in kinds:
                texts.append(("builtin-kinds", "(%s %s %s)" % (op, a, b)))
    for a in kinds:
        for b in ("0", "5", "-1", "'sym"):
            texts.append(("builtin-kinds", "(vector-set! %s %s 9)" % (a, b)))
            texts.append(("builtin-kinds", "(make-vector %s %s)" % (b, a)))
    # character literals beginning with a character outside ASCII (2, 3, 4 bytes) followed by letters, digits, `x` + hex digits, other
    # non-ASCII characters; alone, in lists, in strings next to them
    for lead in ("\u00e9", "\u03bb", "\u4e2d", "\U0001f600", "\u00ff", "x\u00e9", "\u00e9x"):
        for rest in ("", "a", "1", "x41", "xe9", "\u00e9", "space", "newline", "ab12", "\U0001f600"):
            texts.append(("non-ascii-characters", "#\\" + lead + rest))
            texts.append(("non-ascii-characters", "'(#\\" + lead + rest + " 1)"))
            texts.append(("non-ascii-characters", "(list \"" + lead + rest + "\" '" + lead + rest + " '|" + lead + " " + rest + "|)"))
    n_soup = 3000 if tier == "quick" else 80000
    for _ in range(n_soup):
        texts.append(("soup", soup(rng, rng.randrange(1, 25))))
    sources = [open("/repo/src/parser/grammar.sld").read(), open("/repo/src/interpreter/library/include/scheme/base.sld").read()]
    n_mut = 1500 if tier == "quick" else 40000
    for _ in range(n_mut):
        if rng.random() < 0.15:
            texts.append(("mutated-bundled", mutate(rng, rng.choice(sources))))
        else:
            g = P.Gen(rng, ticks=False, loops=False)   # a mutated recursive procedure may simply never return
            texts.append(("mutated-program", mutate(rng, " ".join(g.toplevel(rng.randrange(1, 4))))))
    for _ in range(600 if tier == "quick" else 10000):
        s = "".join(rng.choice(["(", ")", " ", "a", "\u00e9", "\u4e2d", "\U0001F600", "\x00", "\x07", "\x7f", "\u200b", "\ufeff", "'", "\"", "#", "\\", "1", "\t", "\r"]) for _ in range(rng.randrange(1, 12)))
        texts.append(("unicode", s))
    CH = 250
    cases = []
    for i in range(0, len(texts), CH):
        forms = []
        for _, t in texts[i:i + CH]:
            forms += [t, SANITY]
        cases.append(("c%d" % (i // CH), "prog", ["std"] + forms))
    impl = C.run_hx(cases)
    # ONE-THREAD REPLAY of a sample of the chunks (each chunk has its own interpreter): all of them one after another on ONE thread
    # must end exactly as on fresh threads - nothing an interpreter leaves in thread-local storage may make a LATER interpreter
    # panic, fail or answer differently
    sample = [c for c in cases if c[0] in impl and not (impl[c[0]] and impl[c[0]][0].startswith(("T ", "X ", "P process")))]
    rng.shuffle(sample)
    sample = sample[:60 if tier == "quick" else 400]
    replay = C.run_hx_same_thread(sample, timeout=900)
    if replay is None:
        rep.extra["one_thread_replay"] = "the replay process did not finish (stack or memory exhaustion of a text is outside the claim)"
    else:
        nd = 0
        for c in sample:
            a, b = impl.get(c[0]), replay.get(c[0])
            if a != b and nd < 3:
                nd += 1
                k = next((k for k in range(min(len(a or []), len(b or []))) if a[k] != b[k]), None)
                rep.violation({"what": "a text evaluated by its own interpreter ends differently when other interpreters ran before it on the same thread "
                                       "(a panic, a failure or another answer caused by what an earlier interpreter left in thread-local state)",
                               "text": c[2][1 + k] if k is not None and 1 + k < len(c[2]) else None,
                               "on_a_fresh_thread": a[k] if k is not None else a, "after_other_interpreters_on_the_thread": b[k] if k is not None else b})
        rep.extra["one_thread_replay"] = {"chunks": len(sample), "texts": sum(len(c[2]) - 1 for c in sample) // 2}
    model = C.run_driver(cases)
    dist = {}
    bad_corr = 0
    for ci, (cid, _, fields) in enumerate(cases):
        a, b = impl.get(cid, []), model.get(cid, [])
        forms = fields[1:]
        if a and a[0].startswith("T timeout"):
            rep.extra["chunks_not_finished"] = rep.extra.get("chunks_not_finished", 0) + 1
            continue      # some text of this chunk does not terminate (e.g. an infinite tail loop): outside the claim
        if len(a) != len(forms):
            # the process died on this chunk: the shortest prefix of its texts (they share one interpreter) that kills it
            lo, hi = 0, len(forms) // 2
            while lo < hi:
                mid = (lo + hi) // 2
                rr = C.run_hx([("x", "prog", ["std"] + forms[:2 * (mid + 1)])], timeout=120).get("x", [])
                if len(rr) == 2 * (mid + 1):
                    lo = mid + 1
                else:
                    hi = mid
            whyl = C.run_hx([("x", "prog", ["std"] + forms[:2 * (lo + 1)])], timeout=120).get("x", ["?"])
            why = " ".join(whyl)
            if lo >= len(forms) // 2 and len(whyl) == len(forms):
                # the chunk dies only inside the long harness process (which has run thousands of texts before it), not when
                # its texts are evaluated again from a fresh process: accumulated memory, not something a text of this chunk
                # does. Its texts are judged on the results of the fresh run.
                rep.extra["chunks_that_died_only_in_the_long_process"] = rep.extra.get("chunks_that_died_only_in_the_long_process", 0) + 1
                a = whyl
            elif "overflowed its stack" in why or "memory allocation" in why or "T timeout" in why or "not-run" in why:
                # stack exhaustion by unbounded recursion / expansion, exhausted memory, non-termination: outside the claim
                rep.extra["texts_ending_in_stack_or_memory_exhaustion"] = rep.extra.get("texts_ending_in_stack_or_memory_exhaustion", 0) + 1
                continue
            else:
                rep.violation({"what": "the interpreter process died (abort) while evaluating a text", "death": why[-300:],
                               "text": forms[2 * lo] if 2 * lo < len(forms) else None,
                               "earlier_texts_on_the_same_interpreter": [forms[2 * j] for j in range(max(0, lo - 12), lo)],
                               "result": a}); continue
        for k in range(0, len(forms), 2):
            kind, text = texts[ci * CH + k // 2]
            rep.count()
            ca = classify(a[k])
            dist[(kind, ca.split(" ")[0] if ca.startswith("E") else ca)] = dist.get((kind, ca.split(" ")[0] if ca.startswith("E") else ca), 0) + 1
            if ca != "value" or kind not in ("short", "short-tokens"):
                rep.nontrivial((kind, text))
            if ca == "P":
                rep.violation({"what": "the interpreter panicked", "text": text, "class": kind, "implementation": a[k]})
                continue
            if a[k + 1] != "V i:42":
                rep.violation({"what": "after this input the same interpreter no longer evaluates the sanity form",
                               "text": text, "class": kind, "result": a[k], "sanity": a[k + 1]})
                continue
            if k < len(b):
                cb = classify(b[k])
                if cb == "E FUEL":
                    continue
                if ca != cb and bad_corr < 5:
                    bad_corr += 1
                    rep.violation({"broken": "correspondence (classification) model <-> implementation", "text": text, "class": kind,
                                   "implementation": a[k], "model": b[k]}, no_input=True)
        if len(rep.cov["samples"]) < 4:
            rep.sample({"text": forms[2 * (ci % 7)], "implementation": a[2 * (ci % 7)]})
    # import declarations, each on a FRESH interpreter (imports must come first): import sets of every kind, nested, with
    # repeated identifiers, identifiers the library does not export, renames onto existing names, unknown libraries
    icases, itexts = [], []
    for i in range(400 if tier == "quick" else 8000):
        t = import_soup(rng)
        itexts.append(t)
        icases.append(("i%d" % i, "prog", ["nostd", t, "42"]))
    ii, im = C.run_hx(icases), C.run_driver(icases)
    for (cid, _, f), t in zip(icases, itexts):
        rep.count()
        rep.nontrivial(("import", t))
        a, b = ii.get(cid, ["?", "?"]), im.get(cid, ["?", "?"])
        ca = classify(a[0])
        dist[("import", ca.split(" ")[0] if ca.startswith("E") else ca)] = dist.get(("import", ca.split(" ")[0] if ca.startswith("E") else ca), 0) + 1
        if len(a) != 2 or ca == "P" or a[0].startswith("P"):
            rep.violation({"what": "the interpreter panicked (or its process died) on an import declaration", "text": t, "implementation": a})
        elif a[1] != "V i:42":
            rep.violation({"what": "after this import declaration the same interpreter no longer evaluates the sanity form",
                           "text": t, "result": a[0], "sanity": a[1]})
        elif [classify(x) for x in a] != [classify(x) for x in b] and bad_corr < 8:
            bad_corr += 1
            rep.violation({"broken": "correspondence (classification) model <-> implementation", "text": t, "class": "import",
                           "implementation": a, "model": b}, no_input=True)
    # program files: not UTF-8, directory, missing
    os.makedirs(os.path.join(C.BUILD, "tmp"), exist_ok=True)
    fcases = []
    blobs = [b"\xff\xfe(+ 1 2)", b"(display \"\xc3\x28\")", b"(+ 1 2)\n\x80", b"", b"(+ 1 2)", b"\xef\xbb\xbf(+ 1 2)", b"(define x 1)\r\nx\r\n"]
    for i, blob in enumerate(blobs):
        fcases.append(("f%d" % i, "evalfile", ["std", blob.hex()]))
    fcases.append(("fd", "evalfile", ["std", "DIR"]))
    fcases.append(("fm", "evalfile", ["std", "MISSING"]))
    fi, fm = C.run_hx(fcases), C.run_driver(fcases)
    for cid, _, f in fcases:
        rep.count()
        rep.nontrivial(("file", f[1]))
        a, b = fi.get(cid, ["?"]), fm.get(cid, ["?"])
        if any(x.startswith("P") for x in a):
            rep.violation({"what": "the interpreter panicked on a program file", "file_bytes_hex": f[1], "implementation": a})
        elif [classify(x) for x in a] != [classify(x) for x in b]:
            rep.violation({"broken": "correspondence eval_file model <-> implementation", "file_bytes_hex": f[1], "implementation": a, "model": b}, no_input=True)
    rep.extra["distribution"] = {"%s/%s" % k: v for k, v in sorted(dist.items())}
    rep.extra["exhaustive_strings"] = {"alphabet": "".join(ALPHA20).replace("\n", "\\n"), "max_length": maxlen,
                                       "token_alphabet": TOK8, "max_tokens": toklen}


def main(tier, seed):
    rep = C.Report(PROP, tier, seed)
    rng = random.Random(seed)
    rep.cov["rule"] = ("every string of length 1-4 over a 20-character structural alphabet (exhaustive), every blank-separated sequence of 1-5 "
                       "(thorough 6) tokens over ( ) . ' #( a 1 \"s\" (exhaustive), every numeric procedure on every pair of special operands (NaN, infinities, -0.0, i32 edges), every native procedure on every single and every pair of 17 argument kinds, random token soup over a "
                       "100-token vocabulary (half with balanced parentheses), token-level mutations of generated programs and of the "
                       "bundled grammar.sld/base.sld, random Unicode/control strings, ill-formed program files; each followed by a "
                       "sanity form on the same interpreter; distinct non-trivial = inputs that are not a plain value of the "
                       "exhaustive family")
    rep.cov["exhaustive"] = True
    rep.assumptions = ["panic-freedom of the Rust code is not proved: it is proved of the model, whose panic sites mirror the Rust's, "
                       "and the real code is fuzzed; stack exhaustion and allocation failure are outside the property's claim"]
    ok = C.standard_proof_phase(rep, MODULES, directed_search=lambda r: run(r, tier, rng))
    if ok:
        run(rep, tier, rng)
    return rep.finish("cd lean && lake build RuschmProofs.C07 && lake env lean <#print axioms of every theorem in RuschmProofs/C07.lean>")

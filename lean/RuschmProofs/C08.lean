/-
Property C08 — run-time errors are detected, classified, and leave the interpreter usable.

"A program that calls a non-procedure, calls a procedure with a number of arguments its parameter
list does not accept, reads or assigns an unbound variable, passes an argument of the wrong type
to a builtin, indexes a vector out of range, mutates a literal vector or divides by exact zero is
stopped with an error of the corresponding kind in every calling context - direct call, tail call,
apply, call from a library procedure - and never continues with an invented value. After the error
the interpreter keeps exactly the effects completed before it and evaluates later forms normally."

Only property theorems live here (each is audited with `#print axioms`); helpers are in
`RuschmProofs/ErrLemmas.lean` and `RuschmProofs/EvalLemmas.lean` (the fuel-free judgements
`Evals`, `EvalsArgs`, `Applies` (= the trampoline loop `applyLoop`), `AppliesProc` (= one activation
`applyProcedure`), `AppliesScheme`, `EvalsDefs`, `EvalsBody`, `EvalsTail`).

Vocabulary: `BuiltinFault σ b args k` — the native procedure `b` on `args` in store `σ` is stopped
with `.error (k, none)` and the store unchanged, as a plain run of the native code, as an iteration
of the trampoline (any calling frame) and as a whole activation. `Reaches env σ p args σq q qargs` —
the trampoline started with `p`/`args` arrives at an iteration with `q`/`qargs` (through `apply` and
pending tail calls).
-/
import RuschmProofs.ErrLemmas

namespace Ruschm.C08
open Ruschm Ruschm.Eval Ruschm.Prim

/-! ## 1. each fault is detected, classified, and the failing operation changes nothing -/

/-! ### calling a non-procedure -/

/-- DIRECT CALL: the operator evaluates to a non-procedure, the operands evaluate (to values or to
an error — the Rust code evaluates them before the test): the call is `nonProcedure` at the
operator's location; the store is the one after the operands, nothing is applied. -/
theorem fault_nonprocedure_direct {σ ρ f args l fv σ₁ ra σ₂} (hf : Evals σ ρ f (.ok fv) σ₁)
    (ha : EvalsArgs σ₁ ρ args ra σ₂) (hp : procArity fv = none) :
    Evals σ ρ (.call f args l) (.error (.nonProcedure, f.loc)) σ₂ :=
  Evals.call_nonproc hf ha hp

example : ∃ σ', Evals {} 0 (.call (.prim (.int 5) (some (1, 2))) [.prim (.int 1) none] none)
    (.error (.nonProcedure, some (1, 2))) σ' :=
  ⟨_, fault_nonprocedure_direct (Evals.prim rfl) (EvalsArgs.cons (Evals.prim rfl) EvalsArgs.nil) rfl⟩

/-- TAIL CALL: a user procedure's body ended in a pending call whose operator evaluates to a
non-procedure: the trampoline stops with `nonProcedure` at the operator's location (as the direct
call does); the store is the one after operator and operands, the loop does not continue. -/
theorem fault_nonprocedure_tail {σ lam cenv args env f targs tenv σ₁ fv σ₂ vs σ₃}
    (ha : arityOk lam.formals.fixed.length lam.formals.rest.isSome args.length = true)
    (hs : AppliesScheme σ lam cenv args (.ok (.tailCall f targs tenv)) σ₁)
    (hf : Evals σ₁ tenv f (.ok fv) σ₂) (hargs : EvalsArgs σ₂ tenv targs (.ok vs) σ₃)
    (hp : procArity fv = none) :
    Applies σ (.closure lam cenv) args env (.error (.nonProcedure, f.loc)) σ₃ :=
  Applies.closure_tail_nonproc ha hs hf hargs hp

/-- APPLY: `(apply x …)` with a non-procedure `x`: `spread_apply_arguments` reports `nonProcedure`,
the trampoline stops, store unchanged. -/
theorem fault_nonprocedure_apply {σ : Store} {x : Value} {rest : List Value} (env : Nat)
    (hp : procArity x = none) :
    spreadApply (x :: rest) = .error .nonProcedure ∧
    Applies σ (.builtin .apply) (x :: rest) env (.error (.nonProcedure, none)) σ :=
  ⟨spreadApply_nonproc hp,
   Applies.apply_err (by simp) (spreadApply_nonproc hp) (by simp)⟩

example : procArity (.num (.int 5)) = none := rfl

/-! ### wrong number of arguments -/

/-- ANY procedure value — user procedure or native, reached directly, through the trampoline or
through `apply` (all of them are iterations of `applyLoop`) — given an argument count its parameter
list does not accept: `arity`, store unchanged, nothing evaluated; for every amount of fuel. -/
theorem fault_arity {σ : Store} {p : Value} {args : List Value} (env : Nat) {fixed variadic}
    (hp : procArity p = some (fixed, variadic)) (ha : arityOk fixed variadic args.length = false) :
    (∀ n, applyLoop (n+1) σ p args env = (.error (.arity, none), σ)) ∧
    Applies σ p args env (.error (.arity, none)) σ ∧
    AppliesProc σ p args env (.error (.arity, none)) (leave (enter σ)) :=
  ⟨fun n => applyLoop_arity_gate n σ env hp ha, Applies.arity_err hp ha,
   AppliesProc.of_loop (Applies.arity_err hp ha)⟩

example : procArity (.closure (.mk ⟨["x", "y"], none⟩ [] [.sym "x" none]) 0) = some (2, false) ∧
    arityOk 2 false [Value.nil].length = false ∧ arityOk 2 false [Value.nil, .nil, .nil].length = false ∧
    procArity (.builtin .car) = some (1, false) ∧ arityOk 1 false ([] : List Value).length = false :=
  ⟨rfl, rfl, rfl, rfl, rfl⟩

/-! ### unbound variables -/

/-- reading a name that no frame of the chain defines: `unbound` at the variable's location, store
unchanged -/
theorem fault_unbound_read {σ : Store} {ρ : Nat} {s : String} {l : Loc} (h : σ.lookup ρ s = none) :
    Evals σ ρ (.sym s l) (.error (.unbound, l)) σ :=
  Evals.sym_unbound h

example : ({ frames := #[{ parent := none, defs := [("x", .nil)] }] } : Store).lookup 0 "y" = none := by decide

/-- `set!` walks the same chain as a read: a name `lookup` does not find is a name `set!` cannot
assign, and conversely -/
theorem unbound_assign_iff_unbound_read {σ : Store} {ρ : Nat} {x : String} (v : Value) :
    (σ.set ρ x v).1 = false ↔ σ.lookup ρ x = none := by
  constructor
  · intro h
    cases hs : σ.set ρ x v with
    | mk b σ' => rw [hs] at h; cases h; exact (Store.set_false hs).1
  · intro h; rw [Store.set_unbound v h]

/-- assigning a name that no frame of the chain defines: the value expression HAS been evaluated;
`unbound` at the location the `set!` node carries, and the store is exactly the one after that
evaluation (nothing is defined) -/
theorem fault_unbound_assign {σ ρ x e l v σ₁} (he : Evals σ ρ e (.ok v) σ₁) (h : σ₁.lookup ρ x = none) :
    Evals σ ρ (.assign x e l) (.error (.unbound, l)) σ₁ :=
  Evals.assign_unbound he (Store.set_unbound v h)

example : Evals { frames := #[{ parent := none, defs := [("x", .nil)] }] } 0 (.assign "y" (.prim (.int 1) none) (some (3, 1)))
    (.error (.unbound, some (3, 1))) { frames := #[{ parent := none, defs := [("x", .nil)] }] } :=
  fault_unbound_assign (Evals.prim rfl) (by decide)

/-! ### wrong-typed arguments to native procedures -/

/-- `car` of anything but a pair -/
theorem fault_type_car {σ : Store} {x : Value} (hx : ∀ a d, x ≠ .pair a d) :
    BuiltinFault σ .car [x] .type := by
  refine .intro (by decide) rfl (by decide) ?_ ?_ <;>
  · cases x <;> simp_all [applyPure, err]

/-- `cdr` of anything but a pair -/
theorem fault_type_cdr {σ : Store} {x : Value} (hx : ∀ a d, x ≠ .pair a d) :
    BuiltinFault σ .cdr [x] .type := by
  refine .intro (by decide) rfl (by decide) ?_ ?_ <;>
  · cases x <;> simp_all [applyPure, err]

example : ∀ a d, Value.nil ≠ .pair a d := by intro a d h; cases h

/-- `+`: the first argument that is not a number (the sum of the numbers before it exists) -/
theorem fault_type_add {σ : Store} {pre post : List Value} {x : Value} {acc : Num}
    (hpre : foldNum Num.add (.int 0) pre = .ok acc) (hx : ¬ IsNum x) :
    BuiltinFault σ .add (pre ++ x :: post) .type := by
  refine .intro (by decide) (by simp [Builtin.arity, arityOk]) (by decide) ?_ ?_ <;>
  · simp only [applyPure, foldNum_type hpre hx]; rfl

example : foldNum Num.add (.int 0) [.num (.int 1), .num (.int 2)] = .ok (.int 3) ∧ ¬ IsNum (.str "a") :=
  ⟨rfl, fun h => h⟩

/-- `*` likewise -/
theorem fault_type_mul {σ : Store} {pre post : List Value} {x : Value} {acc : Num}
    (hpre : foldNum Num.mul (.int 1) pre = .ok acc) (hx : ¬ IsNum x) :
    BuiltinFault σ .mul (pre ++ x :: post) .type := by
  refine .intro (by decide) (by simp [Builtin.arity, arityOk]) (by decide) ?_ ?_ <;>
  · simp only [applyPure, foldNum_type hpre hx]; rfl

/-- `-` and `/`: a first argument that is not a number -/
theorem fault_type_sub_div_first {σ : Store} {x : Value} {rest : List Value} (hx : ¬ IsNum x) :
    BuiltinFault σ .sub (x :: rest) .type ∧ BuiltinFault σ .div (x :: rest) .type := by
  constructor <;>
  · refine .intro (by decide) (by simp [Builtin.arity, arityOk]) (by decide) ?_ ?_ <;>
    · simp only [applyPure, divArgs_first_nonnum hx, subDiv, expectNumber_err hx]; rfl

example : applyPure {} .div [.str "a", .num (.int 0)] = (.error (.type, none), {}) := rfl

/-- `-` and `/`: a second argument that is not a number -/
theorem fault_type_sub_div_second {σ : Store} {a : Num} {x : Value} {rest : List Value} (hx : ¬ IsNum x) :
    BuiltinFault σ .sub (.num a :: x :: rest) .type ∧ BuiltinFault σ .div (.num a :: x :: rest) .type := by
  constructor <;>
  · refine .intro (by decide) (by simp [Builtin.arity, arityOk]) (by decide) ?_ ?_ <;>
    · simp only [applyPure, divArgs_second_nonnum hx]
      cases x <;> first | exact absurd trivial hx | (simp only [subDiv, expectNumber]; rfl)

example : applyPure {} .div [.num (.int 1), .str "a", .num (.int 0)] = (.error (.type, none), {}) := rfl

/-- `= < <= > >=`: the first argument that is not a number, whether or not the adjacent pairs of
numbers before it are in order (every argument is type-checked, also after a pair out of order has
decided the result) -/
theorem fault_type_compare {σ : Store} {ns : List Num} {x : Value} {post : List Value} (hx : ¬ IsNum x) :
    BuiltinFault σ .numEq (ns.map .num ++ x :: post) .type ∧
    BuiltinFault σ .lt (ns.map .num ++ x :: post) .type ∧
    BuiltinFault σ .le (ns.map .num ++ x :: post) .type ∧
    BuiltinFault σ .gt (ns.map .num ++ x :: post) .type ∧
    BuiltinFault σ .ge (ns.map .num ++ x :: post) .type := by
  refine ⟨?_, ?_, ?_, ?_, ?_⟩ <;>
  · refine .intro (by decide) (by simp [Builtin.arity, arityOk]) (by decide) ?_ ?_ <;>
    · simp only [applyPure, cmpNum_type hx]; rfl

example : Num.cmpChain Num.lt [.int 2, .int 1] = false ∧ ¬ IsNum (.sym "a") := ⟨by decide, fun h => h⟩

/-- `vector-ref`: a first argument that is not a vector, or an index that is not an exact integer -/
theorem fault_type_vector_ref {σ : Store} {v k : Value}
    (h : (∀ id, v ≠ .vec id) ∨ (∀ n, k ≠ .num (.int n))) : BuiltinFault σ .vectorRef [v, k] .type := by
  refine .intro (by decide) rfl (by decide) ?_ ?_ <;>
  · simp only [applyPure]
    repeat' split
    all_goals simp_all [err]

/-- `vector-set!`: a first argument that is not a vector, or an index that is not an exact integer -/
theorem fault_type_vector_set {σ : Store} {v k obj : Value}
    (h : (∀ id, v ≠ .vec id) ∨ (∀ n, k ≠ .num (.int n))) : BuiltinFault σ .vectorSet [v, k, obj] .type := by
  refine .intro (by decide) rfl (by decide) ?_ ?_ <;>
  · simp only [applyPure]
    repeat' split
    all_goals simp_all [err]

/-- `make-vector`: a length that is not an exact integer -/
theorem fault_type_make_vector {σ : Store} {k fill : Value} (h : ∀ n, k ≠ .num (.int n)) :
    BuiltinFault σ .makeVector [k, fill] .type := by
  refine .intro (by decide) rfl (by decide) ?_ ?_ <;>
  · simp only [applyPure]
    repeat' split
    all_goals simp_all [err]

/-- `vector-length` of anything but a vector -/
theorem fault_type_vector_length {σ : Store} {v : Value} (h : ∀ id, v ≠ .vec id) :
    BuiltinFault σ .vectorLength [v] .type := by
  refine .intro (by decide) rfl (by decide) ?_ ?_ <;>
  · simp only [applyPure]
    repeat' split
    all_goals simp_all [err]

example : (∀ id, Value.num (.int 3) ≠ .vec id) ∧ (∀ n, Value.num (.real 1.5) ≠ .num (.int n)) :=
  ⟨fun _ h => (by cases h), fun _ h => (by cases h)⟩

/-- `apply`: a last argument that is neither a pair nor the empty list: `type`, the trampoline
stops, the procedure is not applied, store unchanged -/
theorem fault_type_apply_last {σ : Store} {f last : Value} {rest : List Value} (env : Nat)
    (hf : (procArity f).isSome) (hl : rest.getLast? = some last) (hx : ¬ IsListHead last) :
    spreadApply (f :: rest) = .error .type ∧
    Applies σ (.builtin .apply) (f :: rest) env (.error (.type, none)) σ :=
  ⟨spreadApply_type hf hl hx, Applies.apply_err (by simp) (spreadApply_type hf hl hx) (by simp)⟩

example : (procArity (.builtin .add)).isSome ∧ [Value.num (.int 1), .num (.int 2)].getLast? = some (.num (.int 2)) ∧
    ¬ IsListHead (.num (.int 2)) := ⟨rfl, rfl, fun h => h⟩

/-! ### vector index out of range -/

/-- `vector-ref` with a negative index or an index not below the length: `vectorIndex` -/
theorem fault_vector_index_ref {σ : Store} {id : Nat} {cell : VecCell} {n : Int}
    (hc : σ.vecs[id]? = some cell) (hn : n < 0 ∨ (cell.items.length : Int) ≤ n) :
    BuiltinFault σ .vectorRef [.vec id, .num (.int n)] .vectorIndex := by
  refine .intro (by decide) rfl (by decide) ?_ ?_ <;>
  · simp only [applyPure, vecs_enter, hc]
    split
    · rfl
    · rename_i hneg
      have : cell.items[n.toNat]? = none := by
        rw [List.getElem?_eq_none_iff]; omega
      rw [this]; rfl

/-- `vector-set!` on a mutable vector with a negative index or an index not below the length:
`vectorIndex`, and the vector is not changed -/
theorem fault_vector_index_set {σ : Store} {id : Nat} {cell : VecCell} {n : Int} {obj : Value}
    (hc : σ.vecs[id]? = some cell) (hm : cell.mutable = true) (hn : n < 0 ∨ (cell.items.length : Int) ≤ n) :
    BuiltinFault σ .vectorSet [.vec id, .num (.int n), obj] .vectorIndex := by
  have hls : ∀ (xs : List Value) (k : Nat), xs.length ≤ k → listSet xs k obj = none := by
    intro xs
    induction xs with
    | nil => intro k _; rfl
    | cons x xs ih =>
      intro k hk
      cases k with
      | zero => simp at hk
      | succ k => simp [listSet, ih k (by simpa using hk)]
  refine .intro (by decide) rfl (by decide) ?_ ?_ <;>
  · simp only [applyPure, vecs_enter, hc, hm]
    simp only [Bool.not_true, Bool.false_eq_true, if_false]
    split
    · rfl
    · rw [hls _ _ (by omega)]; rfl

example : ({ vecs := #[{ mutable := true, items := [.nil, .nil] }] } : Store).vecs[0]? =
    some { mutable := true, items := [.nil, .nil] } ∧ ((2 : Nat) : Int) ≤ 2 ∧ (-1 : Int) < 0 :=
  ⟨rfl, by decide, by decide⟩

/-- both together: out of range (or negative) is `vectorIndex` for reading and for writing -/
theorem fault_vector_index {σ : Store} {id : Nat} {cell : VecCell} {n : Int} (obj : Value)
    (hc : σ.vecs[id]? = some cell) (hn : n < 0 ∨ (cell.items.length : Int) ≤ n) :
    BuiltinFault σ .vectorRef [.vec id, .num (.int n)] .vectorIndex ∧
    (cell.mutable = true → BuiltinFault σ .vectorSet [.vec id, .num (.int n), obj] .vectorIndex) :=
  ⟨fault_vector_index_ref hc hn, fun hm => fault_vector_index_set hc hm hn⟩

/-! ### mutating a literal vector -/

/-- `vector-set!` on an immutable cell, whatever the index (in range or not) and the value:
`immutable`, and the vector is not changed -/
theorem fault_immutable {σ : Store} {id : Nat} {cell : VecCell} (n : Int) (obj : Value)
    (hc : σ.vecs[id]? = some cell) (hm : cell.mutable = false) :
    BuiltinFault σ .vectorSet [.vec id, .num (.int n), obj] .immutable := by
  refine .intro (by decide) rfl (by decide) ?_ ?_ <;>
  · simp only [applyPure, vecs_enter, hc, hm]; rfl

/-- every cell that evaluating a literal (`quote`d datum or self-evaluating vector) allocates is
IMMUTABLE; the cells that existed before are untouched and nothing else in the store changes -/
theorem literal_vectors_immutable (σ : Store) (d : Datum) :
    (∀ i c, (readLiteral σ d).2.vecs[i]? = some c → σ.vecs.size ≤ i → c.mutable = false) ∧
    (∀ i, i < σ.vecs.size → (readLiteral σ d).2.vecs[i]? = σ.vecs[i]?) ∧
    (readLiteral σ d).2.frames = σ.frames ∧ (readLiteral σ d).2.out = σ.out ∧
    (readLiteral σ d).2.ticks = σ.ticks :=
  have h := readLiteral_litExt d σ
  ⟨fun _ _ hc hi => h.new_cells hc hi, fun _ hi => h.old_cells hi, h.rest.1, h.rest.2.1, h.rest.2.2.1⟩

/-- hence: the value of a vector literal is a reference to a new immutable cell, and `vector-set!`
through it is `immutable` -/
theorem fault_immutable_literal {σ σ' : Store} {xs : List Datum} {l : Loc} {v : Value} (n : Int) (obj : Value)
    (h : readLiteral σ (.vec xs l) = (.ok v, σ')) :
    BuiltinFault σ' .vectorSet [v, .num (.int n), obj] .immutable := by
  have hext := readLiteral_litExt (.vec xs l) σ
  rw [readLiteral] at h
  split at h
  · cases h
  · rename_i vs σ₁ h₁
    simp only [Store.allocVec, Prod.mk.injEq, Except.ok.injEq] at h
    obtain ⟨rfl, rfl⟩ := h
    exact fault_immutable n obj (cell := { mutable := false, items := vs }) (by simp) rfl

example : ∃ v σ', readLiteral {} (.vec [.prim (.int 1) none] none) = (.ok v, σ') := ⟨_, _, rfl⟩

/-! ### division by an exact zero -/

/-- `Num.div`, `floor-quotient`, `floor-remainder` on an exact dividend and an exact zero divisor
(`0`, or a ratio with numerator `0`), every branch of the operand promotion: `divZero` -/
theorem fault_div_zero_num {a b : Num} (ha : a.Exact) (hb : b.ExactZero) :
    Num.div a b = .error .divZero ∧ Num.floorQuotient a b = .error .divZero ∧
    Num.floorRemainder a b = .error .divZero :=
  ⟨Num.div_exactZero ha hb, Num.floorQuotient_exactZero ha hb, Num.floorRemainder_exactZero ha hb⟩

example : (Num.rat 1 2).Exact ∧ (Num.int 0).ExactZero ∧ (Num.rat 0 5).ExactZero := ⟨trivial, rfl, rfl⟩

/-- `(/ a b …)`, `(/ b)`, `(floor-quotient a b)`, `(floor-remainder a b)` with an exact first OPERAND `a` and an
exact zero `b`: `divZero`, store unchanged. (`a` is an operand, not a running quotient: with an inexact `a` the
quotient `a / 0` is an infinity or a NaN, not an error. For a zero divisor further on see `fault_div_zero_later`,
which assumes nothing about the quotient so far.) -/
theorem fault_div_zero {σ : Store} {a b : Num} (rest : List Value) (ha : a.Exact) (hb : b.ExactZero) :
    BuiltinFault σ .div (.num a :: .num b :: rest) .divZero ∧
    BuiltinFault σ .div [.num b] .divZero ∧
    BuiltinFault σ .floorQuotient [.num a, .num b] .divZero ∧
    BuiltinFault σ .floorRemainder [.num a, .num b] .divZero := by
  have h2 : divArgs (.num a :: .num b :: rest) = .error .divZero :=
    divArgs_exact_zero (pre := [a]) (fun x hx => by rw [List.mem_singleton.mp hx]; exact ha) hb (.inl (by simp))
  have h1 : divArgs [.num b] = .error .divZero :=
    divArgs_exact_zero (pre := []) (fun x hx => by cases hx) hb (.inr rfl)
  refine ⟨?_, ?_, ?_, ?_⟩
  · refine .intro (by decide) (by simp [Builtin.arity, arityOk]) (by decide) ?_ ?_ <;>
    · simp only [applyPure, h2]; rfl
  · refine .intro (by decide) rfl (by decide) ?_ ?_ <;>
    · simp only [applyPure, h1]; rfl
  · refine .intro (by decide) rfl (by decide) ?_ ?_ <;>
    · simp only [applyPure, num2, expectNumber, Num.floorQuotient_exactZero ha hb]; rfl
  · refine .intro (by decide) rfl (by decide) ?_ ?_ <;>
    · simp only [applyPure, num2, expectNumber, Num.floorRemainder_exactZero ha hb]; rfl

example : applyPure {} .div [.num (.rat 1 2), .num (.rat 0 5), .str "a"] = (.error (.divZero, none), {}) ∧
    applyPure {} .div [.num (.int 0)] = (.error (.divZero, none), {}) := ⟨rfl, rfl⟩

/-- `(/ x₀ x₁ … b …)`: AN EXACT ZERO DIVISOR AT ANY POSITION. If the operands before position `j = pre.length` are
exact numbers and the operand at position `j` is an exact zero and a divisor (`j ≥ 1`, or `j = 0` in the one-argument
form `(/ b)`), the builtin `/` fails with `divZero` and the store is unchanged: for argument lists of any length,
WHATEVER THE INTERMEDIATE QUOTIENTS ARE - in particular when the running quotient has left the `i32` range and is
carried on as a real, where a plain fold of `Num.div` would return an infinity - and whatever follows position `j`
(also arguments that are not numbers: they are not reached). -/
theorem fault_div_zero_later {σ : Store} {pre : List Num} {b : Num} {post : List Value}
    (hpre : ∀ x ∈ pre, x.Exact) (hb : b.ExactZero) (hj : 1 ≤ pre.length ∨ post = []) :
    BuiltinFault σ .div (pre.map .num ++ .num b :: post) .divZero := by
  have h : divArgs (pre.map .num ++ .num b :: post) = .error .divZero :=
    divArgs_exact_zero hpre hb (hj.imp (fun h e => by rw [e] at h; simp at h) id)
  refine .intro (by decide) (by simp [Builtin.arity, arityOk]) (by decide) ?_ ?_ <;>
  · simp only [applyPure, h]; rfl

/-- the instance `(/ 2147483647 1/2 0)`: the quotient `2147483647 / (1/2)` does not fit `i32` and is a real, the
plain fold goes on to `+inf.0`; the builtin reports the division by zero -/
example : (∀ x ∈ [Num.int 2147483647, .rat 1 2], x.Exact) ∧ (Num.int 0).ExactZero ∧
    [Num.int 2147483647, .rat 1 2].map Value.num ++ .num (.int 0) :: [] =
      [.num (.int 2147483647), .num (.rat 1 2), .num (.int 0)] ∧
    applyPure {} .div [.num (.int 2147483647), .num (.rat 1 2), .num (.int 0)] = (.error (.divZero, none), {}) ∧
    (∃ f, Num.div (.int 2147483647) (.rat 1 2) = .ok (.real f)) ∧
    (∃ f, subDiv Num.div (.int 1) [.num (.int 2147483647), .num (.rat 1 2), .num (.int 0)] = .ok (.real f)) :=
  ⟨by simp [Num.Exact], rfl, rfl, rfl, ⟨_, rfl⟩, ⟨_, rfl⟩⟩

/-- ... with a non-number after the zero, and with the zero as a ratio `0/7`: still `divZero` -/
example : applyPure {} .div [.num (.int 2147483647), .num (.rat 1 2), .num (.rat 0 7), .str "a", .num (.real 1.5)] =
    (.error (.divZero, none), {}) := rfl

/-- the hypotheses cannot be dropped: an INEXACT operand before the zero ends the check (the quotient is then inexact
by contagion and `x / 0` is an infinity or a NaN), and a zero in the FIRST position of `(/ 0 x …)` is a dividend -/
example : (∃ f, applyPure {} .div [.num (.int 1), .num (.real 2), .num (.int 0)] = (.ok (.num (.real f)), {})) ∧
    applyPure {} .div [.num (.int 0), .num (.int 5)] = (.ok (.num (.int 0)), {}) := ⟨⟨_, rfl⟩, rfl⟩

/-- whatever native procedure fails, with whatever error: the store is the one it was given -/
theorem fault_builtin_store_unchanged {σ σ' : Store} {b : Builtin} {args : List Value} {e : SErr}
    (h : applyPure σ b args = (.error e, σ')) : σ' = σ :=
  applyPure_error_store h

example : applyPure {} .makeVector [.num (.int (-1)), .nil] = (.error (.negativeLength, none), {}) := rfl

/-! ## 2. the argument count is checked for every application the trampoline performs -/

/-- THE GATE. One iteration of the loop on ANY procedure value: unless the argument count is
accepted the outcome is `arity` and nothing has happened; conversely an outcome that is not this
error means the gate was passed. -/
theorem applyLoop_arity_gate {n : Nat} {σ σ' : Store} {p : Value} {args : List Value} {env : Nat} {r}
    {fixed variadic} (hp : procArity p = some (fixed, variadic)) (h : applyLoop (n+1) σ p args env = (r, σ')) :
    (arityOk fixed variadic args.length = false → r = .error (.arity, none) ∧ σ' = σ) ∧
    ((r, σ') ≠ (.error (.arity, none), σ) → arityOk fixed variadic args.length = true) := by
  constructor
  · intro ha
    rw [Eval.applyLoop_arity_gate n σ env hp ha] at h
    cases h; exact ⟨rfl, rfl⟩
  · intro hne
    cases ha : arityOk fixed variadic args.length with
    | true => rfl
    | false =>
      rw [Eval.applyLoop_arity_gate n σ env hp ha] at h
      exact absurd h.symm hne

/-- the continuation after `apply` is a new iteration of the same loop (so the gate is passed again,
for the procedure `apply` was handed and the spread arguments) -/
theorem applyLoop_apply_step {n : Nat} {σ : Store} {args : List Value} {env : Nat} {f args'}
    (ha : 1 ≤ args.length) (hs : spreadApply args = .ok (f, args')) :
    applyLoop (n+1) σ (.builtin .apply) args env = applyLoop n σ f args' env :=
  Eval.applyLoop_apply_step n σ env ha hs

/-- the continuation after a pending tail call is a new iteration of the same loop (so the gate is
passed again, for the callee and its evaluated operands) -/
theorem applyLoop_tail_step {n : Nat} {σ : Store} {lam : Lambda} {cenv : Nat} {args : List Value} {env : Nat}
    {f targs tenv σ₁ fv σ₂ vs σ₃}
    (ha : arityOk lam.formals.fixed.length lam.formals.rest.isSome args.length = true)
    (hs : applyScheme n σ lam cenv args = (.ok (.tailCall f targs tenv), σ₁))
    (hf : evalExpr n σ₁ tenv f = (.ok fv, σ₂)) (hargs : evalArgs n σ₂ tenv targs = (.ok vs, σ₃))
    (hp : (procArity fv).isSome) :
    applyLoop (n+1) σ (.closure lam cenv) args env = applyLoop n σ₃ fv vs env :=
  Eval.applyLoop_tail_step n env ha hs hf hargs hp

/-- ARITY IS CHECKED EVERYWHERE. Whatever iteration the trampoline reaches — the initial one, one
reached through any number of pending tail calls and `apply`s, for a user procedure or a native
one — if the argument count is not accepted there, the WHOLE run is the `arity` error, with the
store as it was when that iteration was reached: nothing of the procedure has run. -/
theorem arity_checked_everywhere {env σ p args σq q qargs fixed variadic}
    (h : Reaches env σ p args σq q qargs) (hq : procArity q = some (fixed, variadic))
    (ha : arityOk fixed variadic qargs.length = false) :
    Applies σ p args env (.error (.arity, none)) σq :=
  h.applies (Applies.arity_err hq ha)

/-- and when it is accepted there, the run is whatever the loop does from that iteration on -/
theorem reaches_outcome {env σ p args σq q qargs r σ'} (h : Reaches env σ p args σq q qargs)
    (hq : Applies σq q qargs env r σ') : Applies σ p args env r σ' :=
  h.applies hq

/-! ## 3. an error raised by a sub-evaluation IS the outcome of the enclosing evaluation

In every rule below the error `er` (kind AND location) and the store of the failing sub-evaluation
are returned unchanged by the enclosing evaluation. -/

/-- OPERATOR position of a call: the operands are not evaluated -/
theorem error_propagates_operator {σ ρ f args l er σ₁} (hf : Evals σ ρ f (.error er) σ₁) :
    Evals σ ρ (.call f args l) (.error er) σ₁ :=
  Evals.call_op_err hf

/-- OPERAND position of a call (the operator being a procedure): the operands before the failing one
have been evaluated, NO LATER OPERAND IS EVALUATED (`post` is arbitrary), nothing is applied -/
theorem error_propagates_operand {σ ρ f pre a post l fv σ₁ vs σ₂ er σ₃} (hf : Evals σ ρ f (.ok fv) σ₁)
    (hp : (procArity fv).isSome) (hpre : EvalsArgs σ₁ ρ pre (.ok vs) σ₂) (ha : Evals σ₂ ρ a (.error er) σ₃) :
    EvalsArgs σ₁ ρ (pre ++ a :: post) (.error er) σ₃ ∧
    Evals σ ρ (.call f (pre ++ a :: post) l) (.error er) σ₃ :=
  ⟨EvalsArgs.append_err hpre ha, Evals.call_arg_err hf (EvalsArgs.append_err hpre ha) hp⟩

/-- the TEST of an `if`, in ordinary and in tail position: no arm is evaluated -/
theorem error_propagates_if_test {σ ρ t c a l er σ₁} (ht : Evals σ ρ t (.error er) σ₁) :
    Evals σ ρ (.cond t c a l) (.error er) σ₁ ∧ EvalsTail σ ρ (.cond t c a l) (.error er) σ₁ :=
  ⟨Evals.cond_err ht, EvalsTail.cond_err ht⟩

/-- the chosen ARM of an `if`, in ordinary and in tail position -/
theorem error_propagates_if_arm {σ ρ t c alt l tv σ₁ er σ₂} (ht : Evals σ ρ t (.ok tv) σ₁) :
    (tv.truthy = true → Evals σ₁ ρ c (.error er) σ₂ → Evals σ ρ (.cond t c alt l) (.error er) σ₂) ∧
    (tv.truthy = true → EvalsTail σ₁ ρ c (.error er) σ₂ → EvalsTail σ ρ (.cond t c alt l) (.error er) σ₂) ∧
    (∀ a, alt = some a → tv.truthy = false → Evals σ₁ ρ a (.error er) σ₂ →
      Evals σ ρ (.cond t c alt l) (.error er) σ₂) ∧
    (∀ a, alt = some a → tv.truthy = false → EvalsTail σ₁ ρ a (.error er) σ₂ →
      EvalsTail σ ρ (.cond t c alt l) (.error er) σ₂) :=
  ⟨fun h hc => Evals.cond_true ht h hc, fun h hc => EvalsTail.cond_true ht h hc,
   fun _ ha h hc => ha ▸ Evals.cond_false ht h hc, fun _ ha h hc => ha ▸ EvalsTail.cond_false ht h hc⟩

/-- the VALUE expression of `set!`: nothing is assigned -/
theorem error_propagates_set {σ ρ x e l er σ₁} (he : Evals σ ρ e (.error er) σ₁) :
    Evals σ ρ (.assign x e l) (.error er) σ₁ :=
  Evals.assign_err he

/-- an INTERNAL DEFINITION of a procedure body: the definitions before it are bound, the ones after
it and the body are not looked at; the error is the outcome of the application, in the trampoline
and as an activation -/
theorem error_propagates_definition {σ lam cenv args env restArgs σ₁ pre x e l post σ₂ er σ₃}
    (ha : arityOk lam.formals.fixed.length lam.formals.rest.isSome args.length = true)
    (hb : bindFixed (σ.newFrame (some cenv)).2 (σ.newFrame (some cenv)).1 lam.formals.fixed args = (.ok restArgs, σ₁))
    (hdefs : lam.defs = pre ++ .mk x e l :: post)
    (hpre : EvalsDefSeq (σ.newFrame (some cenv)).1
      (Ref.bindRest σ₁ (σ.newFrame (some cenv)).1 lam.formals.rest restArgs) pre σ₂)
    (he : Evals σ₂ (σ.newFrame (some cenv)).1 e (.error er) σ₃) :
    AppliesScheme σ lam cenv args (.error er) σ₃ ∧ Applies σ (.closure lam cenv) args env (.error er) σ₃ := by
  have h : AppliesScheme σ lam cenv args (.error er) σ₃ :=
    AppliesScheme.defs_err hb (hdefs ▸ EvalsDefs.seq_err hpre he)
  exact ⟨h, Applies.closure_err ha h⟩

/-- a NON-LAST BODY expression: the expressions before it have been evaluated, the rest of the body
is not looked at -/
theorem error_propagates_body {ρ σ pre σ₁ e er σ₂ e' post} (hs : EvalsSeq ρ σ pre σ₁)
    (he : Evals σ₁ ρ e (.error er) σ₂) : EvalsBody σ ρ (pre ++ e :: e' :: post) (.error er) σ₂ :=
  EvalsBody.seq_err hs he

/-- the TAIL expression (the last of the body) when it is not a call: evaluated in place, its error
is the body's -/
theorem error_propagates_tail_expr {ρ σ pre σ₁ e er σ₂} (hs : EvalsSeq ρ σ pre σ₁)
    (hcall : ∀ f as l, e ≠ .call f as l) (hcond : ∀ t c a l, e ≠ .cond t c a l)
    (he : Evals σ₁ ρ e (.error er) σ₂) : EvalsBody σ ρ (pre ++ [e]) (.error er) σ₂ :=
  EvalsBody.seq_last hs (EvalsTail.other_err hcall hcond he)

/-- whatever makes the BODY fail makes the application fail, in the trampoline and as an activation,
and through the activation the call expression -/
theorem error_propagates_application {σ lam cenv args env er σ₁}
    (ha : arityOk lam.formals.fixed.length lam.formals.rest.isSome args.length = true)
    (hs : AppliesScheme σ lam cenv args (.error er) σ₁) :
    Applies σ (.closure lam cenv) args env (.error er) σ₁ :=
  Applies.closure_err ha hs

/-- TAIL CALL: the pending call's operator, an operand, or the callee itself (`hcallee`: the loop
continued with the callee) fails: that error is the outcome of the trampoline run -/
theorem error_propagates_tail_call {σ lam cenv args env f targs tenv σ₁}
    (ha : arityOk lam.formals.fixed.length lam.formals.rest.isSome args.length = true)
    (hs : AppliesScheme σ lam cenv args (.ok (.tailCall f targs tenv)) σ₁) :
    (∀ er σ₂, Evals σ₁ tenv f (.error er) σ₂ → Applies σ (.closure lam cenv) args env (.error er) σ₂) ∧
    (∀ fv σ₂ er σ₃, Evals σ₁ tenv f (.ok fv) σ₂ → EvalsArgs σ₂ tenv targs (.error er) σ₃ →
      Applies σ (.closure lam cenv) args env (.error er) σ₃) ∧
    (∀ fv σ₂ vs σ₃ er σ', Evals σ₁ tenv f (.ok fv) σ₂ → EvalsArgs σ₂ tenv targs (.ok vs) σ₃ →
      (procArity fv).isSome → Applies σ₃ fv vs env (.error er) σ' →
      Applies σ (.closure lam cenv) args env (.error er) σ') :=
  ⟨fun _ _ hf => Applies.closure_tail_op_err ha hs hf,
   fun _ _ _ _ hf hargs => Applies.closure_tail_arg_err ha hs hf hargs,
   fun _ _ _ _ _ _ hf hargs hp hl => Applies.closure_tail ha hs hf hargs hp hl⟩

/-- APPLY: the procedure handed to `apply` fails: that error is the outcome -/
theorem error_propagates_apply {σ args env f args' er σ'} (ha : 1 ≤ args.length)
    (hs : spreadApply args = .ok (f, args')) (h : Applies σ f args' env (.error er) σ') :
    Applies σ (.builtin .apply) args env (.error er) σ' :=
  Applies.apply ha hs h

/-- DIRECT CALL: the applied procedure fails: that error is the outcome of the activation and of
the call expression (the store: the loop's, with the activation closed) -/
theorem error_propagates_direct_call {σ ρ f args l fv σ₁ vs σ₂ er σ₃} (hf : Evals σ ρ f (.ok fv) σ₁)
    (hargs : EvalsArgs σ₁ ρ args (.ok vs) σ₂) (hp : (procArity fv).isSome)
    (hl : Applies (enter σ₂) fv vs ρ (.error er) σ₃) :
    AppliesProc σ₂ fv vs ρ (.error er) (leave σ₃) ∧ Evals σ ρ (.call f args l) (.error er) (leave σ₃) :=
  ⟨AppliesProc.of_loop hl, Evals.call hf hargs hp (AppliesProc.of_loop hl)⟩

/-- EVERY CALLING CONTEXT AT ONCE. A call expression whose procedure's trampoline run reaches —
through any number of pending tail calls (user procedures, library procedures: they are closures
like any other) and `apply`s — an iteration that fails with `er` (for instance one of the faults of
section 1): the call expression fails with exactly `er`. -/
theorem error_propagates {σ ρ f args l fv σ₁ vs σ₂ σq q qargs er σ₃} (hf : Evals σ ρ f (.ok fv) σ₁)
    (hargs : EvalsArgs σ₁ ρ args (.ok vs) σ₂) (hp : (procArity fv).isSome)
    (hreach : Reaches ρ (enter σ₂) fv vs σq q qargs) (hq : Applies σq q qargs ρ (.error er) σ₃) :
    Evals σ ρ (.call f args l) (.error er) (leave σ₃) :=
  (error_propagates_direct_call hf hargs hp (hreach.applies hq)).2

/-- example: `((lambda () (apply car 5 '())))` — a native type fault reached through a tail call and
`apply` is the outcome of the outermost call -/
example : ∃ σ', Evals { frames := #[{ parent := none, defs := [("apply", .builtin .apply), ("car", .builtin .car)] }] } 0
    (.call (.lambda (.mk ⟨[], none⟩ []
      [.call (.sym "apply" none) [.sym "car" none, .prim (.int 5) none, .quote (.nil none) none] none]) none) [] none)
    (.error (.type, none)) σ' := by
  apply Exists.intro
  apply error_propagates (q := .builtin .car) (qargs := [.num (.int 5)]) Evals.lambda EvalsArgs.nil rfl
  case hreach =>
    apply Reaches.tail rfl (AppliesScheme.intro_ok rfl EvalsDefs.nil (EvalsBody.last EvalsTail.call))
      (Evals.sym (v := .builtin .apply) rfl)
    case hargs =>
      exact EvalsArgs.cons (Evals.sym (v := .builtin .car) rfl)
        (EvalsArgs.cons (Evals.prim rfl) (EvalsArgs.cons (Evals.quote rfl (by simp)) EvalsArgs.nil))
    case hp => rfl
    case h => exact .apply (by simp) rfl .refl
  case hq => exact (fault_type_car (x := .num (.int 5)) (by intro a d h; cases h)).loop 0

/-- OBSERVATION (two faults in one call): when the operator is a non-procedure AND an operand fails,
the DIRECT call reports `nonProcedure` (the operands' outcome is looked at only for a procedure) while
the same call as a PENDING TAIL CALL reports the operand's error (`eval_procedure_call` propagates it
before the procedure test). Both are errors, neither invents a value; the kinds differ by context. The
property's quantifier (one fault per program) does not cover this case. -/
theorem two_faults_order {σ ρ f args l fv σ₁ er σ₂} (hf : Evals σ ρ f (.ok fv) σ₁)
    (ha : EvalsArgs σ₁ ρ args (.error er) σ₂) (hp : procArity fv = none) :
    Evals σ ρ (.call f args l) (.error (.nonProcedure, f.loc)) σ₂ ∧
    ∀ σ₀ lam cenv args' env,
      arityOk lam.formals.fixed.length lam.formals.rest.isSome args'.length = true →
      AppliesScheme σ₀ lam cenv args' (.ok (.tailCall f args ρ)) σ →
      Applies σ₀ (.closure lam cenv) args' env (.error er) σ₂ :=
  ⟨Evals.call_nonproc hf ha hp, fun _ _ _ _ _ hok hs => Applies.closure_tail_arg_err hok hs hf ha⟩

/-- `(5 zz)`: directly `nonProcedure`, in tail position `unbound` -/
example : Evals {} 0 (.call (.prim (.int 5) none) [.sym "zz" none] none) (.error (.nonProcedure, none)) {} ∧
    Applies {} (.closure (.mk ⟨[], none⟩ [] [.call (.prim (.int 5) none) [.sym "zz" none] none]) 0) [] 0
      (.error (.unbound, none)) (({} : Store).newFrame (some 0)).2 :=
  ⟨(two_faults_order (σ := {}) (ρ := 0) (Evals.prim rfl) (EvalsArgs.cons_err (Evals.sym_unbound rfl)) rfl).1,
   (two_faults_order (l := none) (Evals.prim rfl) (EvalsArgs.cons_err (Evals.sym_unbound rfl)) rfl).2 {} _ 0 [] 0 rfl
     (AppliesScheme.intro_ok rfl EvalsDefs.nil (EvalsBody.last EvalsTail.call))⟩

/-! ## 4. the effects completed before the error are kept, and later forms are evaluated normally -/

/-- OPERANDS: when operand `a` fails the returned store `σ₃` is the store reached by evaluating the
operands before it (`σ₂`, by `hpre`) and then the failing operand's own partial effects (`ha`) —
nothing of `post` has happened, nothing is rolled back -/
theorem effects_before_error_kept_operands {σ ρ pre a post vs σ₂ er σ₃} (hpre : EvalsArgs σ ρ pre (.ok vs) σ₂)
    (ha : Evals σ₂ ρ a (.error er) σ₃) (r σ') (h : EvalsArgs σ ρ (pre ++ a :: post) r σ') :
    r = .error er ∧ σ' = σ₃ :=
  EvalsArgs.unique h (EvalsArgs.append_err hpre ha)

/-- BODIES: when a body expression fails the returned store is the one reached by the expressions
before it and the failing expression's own partial effects -/
theorem effects_before_error_kept_body {ρ σ pre σ₁ e er σ₂ e' post} (hs : EvalsSeq ρ σ pre σ₁)
    (he : Evals σ₁ ρ e (.error er) σ₂) (r σ') (h : EvalsBody σ ρ (pre ++ e :: e' :: post) r σ') :
    r = .error er ∧ σ' = σ₂ :=
  Stable.unique h (EvalsBody.seq_err hs he)

/-- DEFINITIONS: when an internal definition fails the definitions before it stay bound -/
theorem effects_before_error_kept_definitions {ρ σ ds σ₁ x e l er σ₂ post} (hs : EvalsDefSeq ρ σ ds σ₁)
    (he : Evals σ₁ ρ e (.error er) σ₂) (r σ') (h : EvalsDefs σ ρ (ds ++ .mk x e l :: post) r σ') :
    r = .error er ∧ σ' = σ₂ :=
  Stable.unique h (EvalsDefs.seq_err hs he)

/-- all three: wherever a sequence (operands, body, internal definitions) fails, its outcome is that
error and its store the one reached at the failing element -/
theorem effects_before_error_kept {σ ρ σ₂ er σ₃} :
    (∀ pre a post vs, EvalsArgs σ ρ pre (.ok vs) σ₂ → Evals σ₂ ρ a (.error er) σ₃ →
      EvalsArgs σ ρ (pre ++ a :: post) (.error er) σ₃) ∧
    (∀ pre e e' post, EvalsSeq ρ σ pre σ₂ → Evals σ₂ ρ e (.error er) σ₃ →
      EvalsBody σ ρ (pre ++ e :: e' :: post) (.error er) σ₃) ∧
    (∀ ds x e l post, EvalsDefSeq ρ σ ds σ₂ → Evals σ₂ ρ e (.error er) σ₃ →
      EvalsDefs σ ρ (ds ++ .mk x e l :: post) (.error er) σ₃) :=
  ⟨fun _ _ _ _ hpre ha => EvalsArgs.append_err hpre ha, fun _ _ _ _ hs he => EvalsBody.seq_err hs he,
   fun _ _ _ _ _ hs he => EvalsDefs.seq_err hs he⟩

/-- `eval_expression_or_definition` changes NOTHING BUT THE STORE of the interpreter state, whatever
the statement and the outcome -/
theorem state_after_form (fuel : Nat) (st : Interp.State) (s : Statement) (ρ : Nat) :
    ∃ σ', (Interp.evalExprOrDef fuel st s ρ).2 = { st with store := σ' } :=
  Interp.evalExprOrDef_state fuel st s ρ

/-- TOP-LEVEL EXPRESSION: `eval_ast` returns the evaluator's outcome (a missing location filled in)
and a state that is the given one with the evaluator's store (and `import_end` set) — for an error
exactly as for a value -/
theorem state_after_expression (fuel : Nat) (st : Interp.State) (e : Expr) :
    Interp.evalAst fuel st (.expr e) =
      ((match (evalExpr fuel st.store st.env e).1 with
        | .ok v => .ok (some v)
        | .error (k, loc) => .error (k, loc.orElse (fun _ => e.loc))),
       { st with store := (evalExpr fuel st.store st.env e).2, importEnd := true }) :=
  Interp.evalAst_expr fuel st e

/-- TOP-LEVEL DEFINITION: the name is bound iff the expression evaluated; on an error the state is
the given one with the store the failing evaluation left -/
theorem state_after_definition (fuel : Nat) (st : Interp.State) (x : String) (e : Expr) (l : Loc) :
    Interp.evalAst fuel st (.definition (.mk x e l)) =
      (match evalExpr fuel st.store st.env e with
       | (.ok v, σ) => (.ok none, { st with store := σ.define st.env x v, importEnd := true })
       | (.error (k, loc), σ) =>
         (.error (k, loc.orElse (fun _ => l)), { st with store := σ, importEnd := true })) :=
  Interp.evalAst_definition fuel st x e l

/-- LATER FORMS ARE EVALUATED NORMALLY: after an expression form failed with `er` leaving store `σ₁`,
any later form `s₂` submitted to the same interpreter is evaluated by `eval_ast` from the state that
differs from the original one only in that store — exactly as if the effects had been produced by a
successful form. -/
theorem later_forms_normal (fuel : Nat) (st : Interp.State) (e₁ : Expr) (s₂ : Statement) {k loc σ₁}
    (h₁ : evalExpr fuel st.store st.env e₁ = (.error (k, loc), σ₁)) :
    (Interp.evalAst fuel st (.expr e₁)).1 = .error (k, loc.orElse (fun _ => e₁.loc)) ∧
    Interp.evalAst fuel (Interp.evalAst fuel st (.expr e₁)).2 s₂ =
      Interp.evalAst fuel { st with store := σ₁, importEnd := true } s₂ := by
  rw [Interp.evalAst_expr, h₁]; exact ⟨rfl, rfl⟩

/-- within one text: `Interpreter::eval` threads the state through the forms — the rest of the text
is evaluated from the state `eval_ast` returned, and an error returns that state to the caller -/
theorem text_threads_state (fuel n : Nat) (s s' : Read.PState) (st : Interp.State) (last : Option Value)
    (d : Datum) (stmt : Statement) (syn : Xform.SynEnv) (hd : Read.nextDatum s = .ok (some d, s'))
    (hx : Xform.toStatement (Xform.xformFuel d) d st.syn = (.ok stmt, syn)) :
    Interp.evalText.go fuel (n+1) s st last =
      match Interp.evalAst fuel { st with syn := syn } stmt with
      | (.error e, st') => (.error e, st')
      | (.ok v, st') => Interp.evalText.go fuel n s' st' v :=
  Interp.evalText_go_step fuel n s s' st last d stmt syn hd hx

/-! ## 5. no value is invented -/

/-- a call expression has a VALUE only if the operator, every operand and the application had one -/
theorem no_invented_value {σ ρ f args l v σ'} (h : Evals σ ρ (.call f args l) (.ok v) σ') :
    ∃ fv σ₁ vs σ₂, Evals σ ρ f (.ok fv) σ₁ ∧ EvalsArgs σ₁ ρ args (.ok vs) σ₂ ∧ (procArity fv).isSome ∧
      AppliesProc σ₂ fv vs ρ (.ok v) σ' := by
  rcases h.call_inv with ⟨er, _, h⟩ | ⟨fv, σ₁, ra, σ₂, hf, hargs, h⟩
  · cases h
  · rcases h with ⟨_, h, _⟩ | ⟨_, er, _, h, _⟩ | ⟨hp, vs, rfl, hap⟩
    · cases h
    · cases h
    · exact ⟨fv, σ₁, vs, σ₂, hf, hargs, hp, hap⟩

/-- the trampoline on a user procedure has a VALUE only if the body had one, or ended in a pending
call whose operator and operands had values, whose operator is a procedure, and the loop continued
with it had that value -/
theorem no_invented_value_loop {σ lam cenv args env v σ'} (h : Applies σ (.closure lam cenv) args env (.ok v) σ') :
    arityOk lam.formals.fixed.length lam.formals.rest.isSome args.length = true ∧
    (AppliesScheme σ lam cenv args (.ok (.value v)) σ' ∨
     ∃ f targs tenv σ₁ fv σ₂ vs σ₃, AppliesScheme σ lam cenv args (.ok (.tailCall f targs tenv)) σ₁ ∧
       Evals σ₁ tenv f (.ok fv) σ₂ ∧ EvalsArgs σ₂ tenv targs (.ok vs) σ₃ ∧ (procArity fv).isSome ∧
       Applies σ₃ fv vs env (.ok v) σ') := by
  rcases h.closure_inv with ⟨_, h, _⟩ | ⟨ha, h⟩
  · cases h
  · refine ⟨ha, ?_⟩
    rcases h with ⟨_, _, h⟩ | ⟨v', hs, h⟩ | ⟨f, targs, tenv, σ₁, hs, h⟩
    · cases h
    · cases h; exact .inl hs
    · rcases h with ⟨_, _, h⟩ | ⟨fv, σ₂, hf, h⟩
      · cases h
      · rcases h with ⟨_, _, h⟩ | ⟨vs, σ₃, hargs, h⟩
        · cases h
        · rcases h with ⟨_, h, _⟩ | ⟨hp, hl⟩
          · cases h
          · exact .inr ⟨f, targs, tenv, σ₁, fv, σ₂, vs, σ₃, hs, hf, hargs, hp, hl⟩

/-- conversely: if the operator, an operand, or the application of a call fails, the call's outcome
is THAT error — it is never a value and never another error -/
theorem no_value_after_error {σ ρ f args l r σ'} (h : Evals σ ρ (.call f args l) r σ') :
    (∀ er σ₁, Evals σ ρ f (.error er) σ₁ → r = .error er ∧ σ' = σ₁) ∧
    (∀ fv σ₁ er σ₂, Evals σ ρ f (.ok fv) σ₁ → (procArity fv).isSome → EvalsArgs σ₁ ρ args (.error er) σ₂ →
      r = .error er ∧ σ' = σ₂) ∧
    (∀ fv σ₁ vs σ₂ er σ₃, Evals σ ρ f (.ok fv) σ₁ → EvalsArgs σ₁ ρ args (.ok vs) σ₂ → (procArity fv).isSome →
      AppliesProc σ₂ fv vs ρ (.error er) σ₃ → r = .error er ∧ σ' = σ₃) :=
  ⟨fun _ _ hf => Evals.unique h (Evals.call_op_err hf),
   fun _ _ _ _ hf hp ha => Evals.unique h (Evals.call_arg_err hf ha hp),
   fun _ _ _ _ _ _ hf ha hp hap => Evals.unique h (Evals.call hf ha hp hap)⟩

/-! ## further non-vacuity examples (concrete instances of the theorems above) -/

section Examples

/-- `((lambda () (5)))` in the trampoline: the pending call `(5)` has a non-procedure operator -/
example : Applies {} (.closure (.mk ⟨[], none⟩ [] [.call (.prim (.int 5) (some (2, 3))) [] none]) 0) [] 0
    (.error (.nonProcedure, some (2, 3))) (({} : Store).newFrame (some 0)).2 :=
  fault_nonprocedure_tail rfl (AppliesScheme.intro_ok rfl EvalsDefs.nil (EvalsBody.last EvalsTail.call))
    (Evals.prim rfl) EvalsArgs.nil rfl

example : BuiltinFault {} .car [.num (.int 5)] .type := fault_type_car (by intro a d h; cases h)
example : BuiltinFault {} .mul [.num (.int 2), .str "a"] .type :=
  fault_type_mul (pre := [.num (.int 2)]) (post := []) (acc := .int 2) rfl (fun h => h)
example : BuiltinFault {} .sub [.str "a", .num (.int 1)] .type :=
  (fault_type_sub_div_first (x := .str "a") (fun h => h)).1
example : BuiltinFault {} .div [.num (.int 1), .str "a"] .type :=
  (fault_type_sub_div_second (x := .str "a") (fun h => h)).2
example : BuiltinFault {} .vectorRef [.num (.int 1), .num (.int 0)] .type :=
  fault_type_vector_ref (.inl (fun _ h => by cases h))
example : BuiltinFault {} .vectorSet [.vec 0, .str "k", .nil] .type :=
  fault_type_vector_set (.inr (fun _ h => by cases h))
example : BuiltinFault {} .makeVector [.str "k", .nil] .type := fault_type_make_vector (fun _ h => by cases h)

/-- a literal vector `#(())`: reading index 1 is out of range, writing index 0 is refused -/
example : BuiltinFault { vecs := #[{ mutable := false, items := [.nil] }] } .vectorRef [.vec 0, .num (.int 1)] .vectorIndex ∧
    BuiltinFault { vecs := #[{ mutable := false, items := [.nil] }] } .vectorSet [.vec 0, .num (.int 0), .nil] .immutable :=
  ⟨fault_vector_index_ref (cell := { mutable := false, items := [.nil] }) rfl (.inr (by decide)),
   fault_immutable 0 .nil (cell := { mutable := false, items := [.nil] }) rfl rfl⟩

example : BuiltinFault {} .div [.num (.rat 1 2), .num (.int 0)] .divZero :=
  (fault_div_zero (σ := {}) [] (a := .rat 1 2) (b := .int 0) trivial rfl).1

/-- `(apply car 1 '(2))`: the loop reaches `car` with two arguments through `apply`; the whole run is
the arity error -/
example : Applies {} (.builtin .apply) [.builtin .car, .num (.int 1), .pair (.num (.int 2)) .nil] 0
    (.error (.arity, none)) {} :=
  arity_checked_everywhere (q := .builtin .car) (qargs := [.num (.int 1), .num (.int 2)])
    (.apply (by simp) rfl .refl) rfl rfl

/-- `((lambda (x y z) 0) 1 zz never)`: the unbound `zz` stops the operands; `never` is not looked at -/
example : Evals {} 0 (.call (.lambda (.mk ⟨["x", "y", "z"], none⟩ [] [.prim (.int 0) none]) none)
      ([.prim (.int 1) none] ++ .sym "zz" (some (1, 9)) :: [.sym "never" none]) none)
    (.error (.unbound, some (1, 9))) {} :=
  (error_propagates_operand Evals.lambda rfl (EvalsArgs.cons (Evals.prim rfl) EvalsArgs.nil)
    (Evals.sym_unbound rfl)).2

/-- `(if zz 1 2)` and `(set! x zz)` -/
example : Evals {} 0 (.cond (.sym "zz" none) (.prim (.int 1) none) (some (.prim (.int 2) none)) none)
      (.error (.unbound, none)) {} ∧
    Evals {} 0 (.assign "x" (.sym "zz" none) none) (.error (.unbound, none)) {} :=
  ⟨(error_propagates_if_test (Evals.sym_unbound rfl)).1, error_propagates_set (Evals.sym_unbound rfl)⟩

/-- a body `(1 zz 2 3)`: the second expression fails, the rest is not evaluated -/
example : EvalsBody {} 0 ([.prim (.int 1) none] ++ .sym "zz" none :: .prim (.int 2) none :: [.prim (.int 3) none])
    (.error (.unbound, none)) {} :=
  error_propagates_body (.cons (Evals.prim rfl) .nil) (Evals.sym_unbound rfl)

/-- the value of `((lambda () 7))` comes from its parts -/
example : ∃ fv σ₁ vs σ₂, Evals {} 0 (.lambda (.mk ⟨[], none⟩ [] [.prim (.int 7) none]) none) (.ok fv) σ₁ ∧
    EvalsArgs σ₁ 0 [] (.ok vs) σ₂ ∧ (procArity fv).isSome ∧ ∃ σ', AppliesProc σ₂ fv vs 0 (.ok (.num (.int 7))) σ' := by
  have h : ∃ σ', Evals {} 0 (.call (.lambda (.mk ⟨[], none⟩ [] [.prim (.int 7) none]) none) [] none)
      (.ok (.num (.int 7))) σ' :=
    ⟨_, Evals.call Evals.lambda EvalsArgs.nil rfl (AppliesProc.of_loop (Applies.closure_value rfl
      (AppliesScheme.intro_ok rfl EvalsDefs.nil (EvalsBody.last (EvalsTail.other (by intros; exact Expr.noConfusion)
        (by intros; exact Expr.noConfusion) (Evals.prim rfl))))))⟩
  obtain ⟨σ', h⟩ := h
  obtain ⟨fv, σ₁, vs, σ₂, h₁, h₂, h₃, h₄⟩ := no_invented_value h
  exact ⟨fv, σ₁, vs, σ₂, h₁, h₂, h₃, σ', h₄⟩

/-- a failing top-level form: `zz`, then any later form is evaluated from the same state -/
example (s₂ : Statement) :
    (Interp.evalAst 1 {} (.expr (.sym "zz" (some (1, 1))))).1 = .error (.unbound, some (1, 1)) ∧
    Interp.evalAst 1 (Interp.evalAst 1 {} (.expr (.sym "zz" (some (1, 1))))).2 s₂ =
      Interp.evalAst 1 { ({} : Interp.State) with store := {}, importEnd := true } s₂ :=
  later_forms_normal 1 {} (.sym "zz" (some (1, 1))) s₂ (k := .unbound) (loc := some (1, 1)) (σ₁ := {}) (by
    simp [evalExpr, Store.lookup, Store.lookupAux])

end Examples

end Ruschm.C08

/-
The model's import path refines the abstract loader of `RuschmSpec/Lib.lean`, for libraries that
consist of imports only (helper file of `RuschmProofs/C14Model.lean`).
-/
import RuschmProofs.LibModelLemmas

namespace Ruschm
namespace Interp
open Loader

/-! ## the libraries that describe a graph -/

/-- the import sets `(import (d₁) (d₂) …)` -/
def depSets (nm : Name → LibName) (deps : List Name) : List ImportSet :=
  deps.map (fun d => .direct (nm d) none)

/-- a healthy node: `(define-library (x) (import (d₁) …) (export))` -/
def healthyDecls (nm : Name → LibName) (deps : List Name) : List LibDecl :=
  [.importDecl (depSets nm deps), .export []]

/-- the body `(1)`: calling a non-procedure -/
def faultyBody : List Statement := [.expr (.call (.prim (.int 1) none) [] none)]

/-- a node with a faulting body: `(define-library (x) (import (d₁) …) (begin (1)))` -/
def faultyDecls (nm : Name → LibName) (deps : List Name) : List LibDecl :=
  [.importDecl (depSets nm deps), .begin_ faultyBody]

/-- The registry and file system of `st` describe the graph `g` (library `nm x` for node `x`). -/
structure Describes (g : Graph) (nm : Name → LibName) (st : State) : Prop where
  inj : ∀ x y, nm x = nm y → x = y
  healthy : ∀ x deps, g.node x = .healthy deps → factoryFor st (nm x) = some (.ast (healthyDecls nm deps))
  faulty : ∀ x deps, g.node x = .faulty deps → factoryFor st (nm x) = some (.ast (faultyDecls nm deps))
  missing : ∀ x, g.node x = .missing →
    libLookup st.factories (nm x) = none ∧ st.files.lookup (fileKey st.dir (libPath (nm x))) = none
  unreadable : ∀ x, g.node x = .unreadable →
    libLookup st.factories (nm x) = none ∧ st.files.lookup (fileKey st.dir (libPath (nm x))) = some .unreadable
  malformed : ∀ x, g.node x = .malformed → libLookup st.factories (nm x) = none ∧
    ∃ t e, st.files.lookup (fileKey st.dir (libPath (nm x))) = some (.text t) ∧ factoryOfText (nm x) t = .error e

/-- loader state and interpreter state correspond -/
structure Corr (g : Graph) (nm : Name → LibName) (ls : LState) (st : State) : Prop where
  desc : Describes g nm st
  cache : ∀ x, x ∈ ls.cache ↔ ∃ d, libLookup st.instances (nm x) = some d
  empty : ∀ x d, libLookup st.instances (nm x) = some d → d = []
  ip : st.inProgress = ls.inProgress.map nm

/-- the error `e` of the model is the one the abstract outcome `o` stands for -/
def MatchErr (g : Graph) (nm : Name → LibName) (files : List (String × FileEntry)) (dir : String) (o : Outcome) (e : SErr) : Prop :=
  match o with
  | .ok => False
  | .fuel => True
  | .cyclic => e.1 = .cyclic
  | .notFound => e.1 = .libNotFound
  | .io => e = (.io, none)
  | .fault => e = (.nonProcedure, none)
  | .syntax => ∃ y t, g.node y = .malformed ∧ files.lookup (fileKey dir (libPath (nm y))) = some (.text t) ∧
      factoryOfText (nm y) t = .error e

/-- the result `r` of the model is what the abstract outcome `o` stands for -/
def Match (g : Graph) (nm : Name → LibName) (files : List (String × FileEntry)) (dir : String) (o : Outcome)
    (r : Except SErr (List (String × Value))) : Prop :=
  match o with
  | .ok => r = .ok []
  | o => ∃ e, r = .error e ∧ MatchErr g nm files dir o e

theorem Describes.step {g nm st st' roots} (h : Describes g nm st) (s : Step st st' roots) :
    Describes g nm st' := by
  have hff := s.factoryFor_eq
  have hfl := s.base.files
  have keep : ∀ n, libLookup st.factories n = none →
      (∀ t f, st.files.lookup (fileKey st.dir (libPath n)) = some (.text t) → factoryOfText n t ≠ .ok f) →
      libLookup st'.factories n = none := by
    intro n hn hno
    cases h' : libLookup st'.factories n with
    | none => rfl
    | some f =>
      obtain ⟨-, t, ht, hf⟩ := s.newFac n f h' hn
      exact absurd hf (hno t f ht)
  refine ⟨h.inj, fun x deps hx => by rw [hff]; exact h.healthy x deps hx,
    fun x deps hx => by rw [hff]; exact h.faulty x deps hx, ?_, ?_, ?_⟩
  · intro x hx
    obtain ⟨h1, h2⟩ := h.missing x hx
    exact ⟨keep _ h1 (fun t f ht => by rw [h2] at ht; cases ht), by rw [hfl, s.base.dir]; exact h2⟩
  · intro x hx
    obtain ⟨h1, h2⟩ := h.unreadable x hx
    exact ⟨keep _ h1 (fun t f ht => by rw [h2] at ht; cases ht), by rw [hfl, s.base.dir]; exact h2⟩
  · intro x hx
    obtain ⟨h1, t, e, h2, h3⟩ := h.malformed x hx
    refine ⟨keep _ h1 (fun t' f ht => ?_), t, e, by rw [hfl, s.base.dir]; exact h2, h3⟩
    rw [h2] at ht; cases ht
    rw [h3]; intro hc; cases hc

/-! ## the layers between two loads -/

theorem libraryDef_import_error {k : Nat} {st s : State} {sets : List ImportSet} {tail : List LibDecl} {e : SErr}
    (h : evalImportSets k { st with store := (st.store.newFrame none).2 } sets [] = (.error e, s)) :
    evalLibraryDef (k + 3) st (.importDecl sets :: tail) = (.error e, s) := by
  rw [evalLibraryDef]
  simp only [Store.newFrame] at h ⊢
  rw [evalLibDecls, evalImport, h]

theorem libraryDef_healthy {k : Nat} {st s : State} {sets : List ImportSet}
    (h : evalImportSets (k + 1) { st with store := (st.store.newFrame none).2 } sets [] = (.ok [], s)) :
    evalLibraryDef (k + 4) st [.importDecl sets, .export []] = (.ok [], s) := by
  rw [evalLibraryDef]
  simp only [Store.newFrame] at h ⊢
  rw [evalLibDecls, evalImport, h]
  simp only [List.foldl_nil]
  rw [evalLibDecls, evalLibDecls]
  rfl

theorem libraryDef_faulty {k : Nat} {st s : State} {sets : List ImportSet}
    (h : evalImportSets (k + 3) { st with store := (st.store.newFrame none).2 } sets [] = (.ok [], s)) :
    evalLibraryDef (k + 6) st [.importDecl sets, .begin_ faultyBody] = (.error (.nonProcedure, none), s) := by
  rw [evalLibraryDef]
  simp only [Store.newFrame] at h ⊢
  rw [evalLibDecls, evalImport, h]
  simp only [List.foldl_nil]
  rw [evalLibDecls]
  simp [faultyBody, evalStatements, evalExprOrDef, Eval.evalExpr, Eval.evalPrim, Eval.evalArgs,
    Eval.procArity, Expr.loc]

theorem getLibrary_of_factoryFor {k : Nat} {st : State} {n : LibName} {loc : Loc} {f : Factory}
    (hi : libLookup st.instances n = none) (hf : factoryFor st n = some f) :
    ∃ st1, Step st st1 [n] ∧ st1 = { st with factories := st1.factories } ∧
      factoryFor st1 n = some f ∧
      Interp.getLibrary (k + 1) st n loc = cacheInstance n (newLibrary k st1 f) := by
  have hfind : ∃ st1, findFactory st n loc = (.ok f, st1) ∧ st1 = { st with factories := st1.factories } := by
    unfold factoryFor at hf
    unfold findFactory
    cases h1 : libLookup st.factories n with
    | some f' => rw [h1] at hf; cases hf; exact ⟨st, rfl, rfl⟩
    | none =>
      rw [h1] at hf
      simp only at hf ⊢
      cases h2 : st.files.lookup (fileKey st.dir (libPath n)) with
      | none => rw [h2] at hf; cases hf
      | some fe =>
        rw [h2] at hf
        cases fe with
        | unreadable => cases hf
        | text t =>
          simp only at hf ⊢
          cases h3 : factoryOfText n t with
          | error e => rw [h3] at hf; cases hf
          | ok f' => rw [h3] at hf; cases hf; exact ⟨_, rfl, rfl⟩
  obtain ⟨st1, hfind, hsame⟩ := hfind
  obtain ⟨hs, -, hfac, -⟩ := findFactory_step hi hfind
  refine ⟨st1, hs, hsame, hfac f rfl, ?_⟩
  rw [getLibrary_succ_eq, hi]
  simp only [hfind]
  rfl

theorem getLibrary_no_factory {k : Nat} {st : State} {n : LibName} {loc : Loc}
    (hi : libLookup st.instances n = none) (hf : libLookup st.factories n = none) :
    (st.files.lookup (fileKey st.dir (libPath n)) = none →
      Interp.getLibrary (k + 1) st n loc = (.error (.libNotFound, loc), st)) ∧
    (st.files.lookup (fileKey st.dir (libPath n)) = some .unreadable →
      Interp.getLibrary (k + 1) st n loc = (.error (.io, none), st)) := by
  constructor <;> intro h <;> rw [getLibrary_succ_eq, hi] <;> simp [findFactory, hf, h]

/-! ## moving the correspondence along -/

theorem Describes.congr {g nm} {st st' : State} (h : Describes g nm st)
    (hf : st'.factories = st.factories) (hfl : st'.files = st.files)
    (hdr : st'.dir = st.dir := by rfl) : Describes g nm st' := by
  have hff : ∀ m, factoryFor st' m = factoryFor st m := factoryFor_congr hf hfl hdr
  exact ⟨h.inj, fun x d hx => by rw [hff]; exact h.healthy x d hx,
    fun x d hx => by rw [hff]; exact h.faulty x d hx,
    fun x hx => by rw [hf, hfl, hdr]; exact h.missing x hx,
    fun x hx => by rw [hf, hfl, hdr]; exact h.unreadable x hx,
    fun x hx => by rw [hf, hfl, hdr]; exact h.malformed x hx⟩

/-- entering the load of `x` -/
theorem Corr.push {g nm c path} {st : State} (h : Corr g nm ⟨c, path⟩ st) (x : Name) :
    Corr g nm ⟨c, x :: path⟩ { st with inProgress := nm x :: st.inProgress } :=
  ⟨h.desc.congr rfl rfl, h.cache, h.empty, by simp [h.ip]⟩

/-- after the load: the in-progress list is put back, the cache is what it is -/
theorem Corr.pop {g nm c c' path path'} {st s : State} (h : Corr g nm ⟨c', path'⟩ s)
    (h0 : Corr g nm ⟨c, path⟩ st) : Corr g nm ⟨c', path⟩ { s with inProgress := st.inProgress } :=
  ⟨h.desc.congr rfl rfl, h.cache, h.empty, h0.ip⟩

/-- the library of `x` was instantiated (to the empty export list) -/
theorem Corr.cached {g nm c' path'} {s : State} (h : Corr g nm ⟨c', path'⟩ s) (x : Name) :
    Corr g nm ⟨x :: c', path'⟩ { s with instances := libInsert s.instances (nm x) [] } := by
  refine ⟨h.desc.congr rfl rfl, fun y => ?_, fun y d hy => ?_, h.ip⟩
  · by_cases hy : y = x
    · subst hy; simp [libLookup_libInsert_self]
    · have hne : nm y ≠ nm x := fun e => hy (h.desc.inj _ _ e)
      simp only [List.mem_cons, hy, false_or, libLookup_libInsert_ne _ _ hne]
      exact h.cache y
  · by_cases hyx : y = x
    · subst hyx
      simp only [libLookup_libInsert_self, Option.some.injEq] at hy
      exact hy.symm
    · have hne : nm y ≠ nm x := fun e => hyx (h.desc.inj _ _ e)
      simp only [libLookup_libInsert_ne _ _ hne] at hy
      exact h.empty y d hy

/-- a step that changes neither instances nor the in-progress list -/
theorem Corr.step {g nm ls roots} {st st' : State} (h : Corr g nm ls st) (s : Step st st' roots)
    (hi : st'.instances = st.instances) : Corr g nm ls st' :=
  ⟨h.desc.step s, by rw [hi]; exact h.cache, by rw [hi]; exact h.empty, by rw [s.base.inProgress]; exact h.ip⟩

theorem Corr.store {g nm ls} {st : State} (h : Corr g nm ls st) (σ : Store) :
    Corr g nm ls { st with store := σ } :=
  ⟨h.desc.congr rfl rfl, h.cache, h.empty, h.ip⟩

theorem mem_ip_iff {g nm c path} {st : State} (h : Corr g nm ⟨c, path⟩ st) (x : Name) :
    nm x ∈ st.inProgress ↔ x ∈ path := by
  rw [h.ip]
  simp only [List.mem_map]
  constructor
  · rintro ⟨y, hy, e⟩; rw [← h.desc.inj _ _ e]; exact hy
  · intro hx; exact ⟨x, hx, rfl⟩

/-! ## the simulation -/

/-- model fuel that suffices for abstract fuel `fa` when no node has more than `D` dependencies -/
def modelFuel (D fa : Nat) : Nat := fa * (D + 10)

/-- one load with abstract fuel `fa` is simulated by the model with fuel `m` -/
def SimAt (g : Graph) (nm : Name → LibName) (files : List (String × FileEntry)) (dir : String) (fa m : Nat) : Prop :=
  ∀ (c path : List Name) (st : State) (x : Name) (loc : Loc), Corr g nm ⟨c, path⟩ st → st.files = files ∧ st.dir = dir →
    (dfs fa g c path x).1 ≠ .fuel →
    ∃ r st', evalImportSet m st (.direct (nm x) loc) = (r, st') ∧
      Match g nm files dir (dfs fa g c path x).1 r ∧ Corr g nm ⟨(dfs fa g c path x).2, path⟩ st' ∧
      st'.files = files ∧ st'.dir = dir

theorem match_ok_iff {g nm files dir o r} (h : Match g nm files dir o r) (ho : o = .ok) : r = .ok [] := by
  subst ho; exact h

theorem match_err {g nm files dir o r} (h : Match g nm files dir o r) (ho : o ≠ .ok) :
    ∃ e, r = .error e ∧ MatchErr g nm files dir o e := by
  cases o <;> first | exact absurd rfl ho | exact h

theorem match_of_err {g nm files dir o e} (h : MatchErr g nm files dir o e) (ho : o ≠ .ok) :
    Match g nm files dir o (.error e) := by
  cases o <;> first | exact absurd rfl ho | exact ⟨e, rfl, h⟩

theorem depsSim {g : Graph} {nm : Name → LibName} {files : List (String × FileEntry)} {dir : String} {fa M : Nat}
    (hS : ∀ m, M ≤ m → SimAt g nm files dir fa m) (path : List Name) :
    ∀ (deps : List Name) (k : Nat) (c : List Name) (st : State), M + deps.length + 1 ≤ k →
    Corr g nm ⟨c, path⟩ st → st.files = files ∧ st.dir = dir →
    (dfsDeps (fun c d => dfs fa g c path d) c deps).1 ≠ .fuel →
    ∃ r st', evalImportSets k st (depSets nm deps) [] = (r, st') ∧
      Match g nm files dir (dfsDeps (fun c d => dfs fa g c path d) c deps).1 r ∧
      Corr g nm ⟨(dfsDeps (fun c d => dfs fa g c path d) c deps).2, path⟩ st' ∧ st'.files = files ∧ st'.dir = dir := by
  intro deps
  induction deps with
  | nil =>
    intro k c st hk hc hf _
    obtain ⟨k, rfl⟩ : ∃ j, k = j + 1 := ⟨k - 1, by simp at hk; omega⟩
    exact ⟨.ok [], st, by simp [depSets, evalImportSets], rfl, hc, hf⟩
  | cons d ds ih =>
    intro k c st hk hc hf hne
    obtain ⟨k, rfl⟩ : ∃ j, k = j + 1 := ⟨k - 1, by simp at hk; omega⟩
    simp only [List.length_cons] at hk
    rw [dfsDeps] at hne ⊢
    have hd : (dfs fa g c path d).1 ≠ .fuel := by
      intro h
      generalize dfs fa g c path d = res at h hne
      obtain ⟨o, c1⟩ := res
      simp only at h; subst h
      exact hne rfl
    obtain ⟨r1, st1, e1, m1, c1, f1⟩ := hS k (by omega) c path st d none hc hf hd
    have hunf : evalImportSets (k + 1) st (depSets nm (d :: ds)) [] =
        match evalImportSet k st (.direct (nm d) none) with
        | (.error e, st) => (.error e, st)
        | (.ok defs, st) =>
          match defs.foldlM (Lib.mergeStep (importEq st)) [] with
          | .error e => (.error e, st)
          | .ok acc' => evalImportSets k st (depSets nm ds) acc' :=
      evalImportSets_cons_eq k st _ _ []
    rw [hunf, e1]
    generalize hres : dfs fa g c path d = res at m1 c1 hne
    obtain ⟨o, c'⟩ := res
    by_cases ho : o = .ok
    · subst ho
      have : r1 = .ok [] := m1
      subst this
      simp only [List.foldlM_nil, pure, Except.pure]
      exact ih k c' st1 (by omega) c1 f1 hne
    · obtain ⟨e, rfl, he⟩ := match_err m1 ho
      refine ⟨.error e, st1, rfl, ?_, ?_, f1⟩
      · cases o <;> first | exact absurd rfl ho | exact match_of_err he (by simp)
      · cases o <;> first | exact absurd rfl ho | exact c1

theorem finishHealthy_ok {x : Name} {c' : List Name} : finishHealthy x (.ok, c') = (.ok, x :: c') := rfl
theorem finishFaulty_ok {c' : List Name} : finishFaulty (.ok, c') = (.fault, c') := rfl

/-- what `evalLibraryDef` makes of the result of importing the dependencies, and what the abstract
loader makes of the outcome of loading them: the two node kinds with a source -/
structure SourceKind (nm : Name → LibName) (deps : List Name) (decls : List LibDecl)
    (finish : Outcome × List Name → Outcome × List Name) (x : Name) : Prop where
  model_err : ∀ (k : Nat) (st s : State) (e : SErr),
    evalImportSets (k + 3) { st with store := (st.store.newFrame none).2 } (depSets nm deps) [] = (.error e, s) →
    evalLibraryDef (k + 6) st decls = (.error e, s)
  finish_err : ∀ e c', e ≠ .ok → finish (e, c') = (e, c')
  cases : (decls = healthyDecls nm deps ∧ finish = finishHealthy x) ∨
    (decls = faultyDecls nm deps ∧ finish = finishFaulty)

theorem sourceKind_healthy (nm : Name → LibName) (deps : List Name) (x : Name) :
    SourceKind nm deps (healthyDecls nm deps) (finishHealthy x) x :=
  ⟨fun k _ _ _ h => libraryDef_import_error (k := k + 3) h,
   fun _ _ he => finishHealthy_err he, .inl ⟨rfl, rfl⟩⟩

theorem sourceKind_faulty (nm : Name → LibName) (deps : List Name) (x : Name) :
    SourceKind nm deps (faultyDecls nm deps) finishFaulty x :=
  ⟨fun k _ _ _ h => libraryDef_import_error (k := k + 3) h,
   fun _ _ he => finishFaulty_err he, .inr ⟨rfl, rfl⟩⟩

/-- a node with a source factory -/
theorem sim_source {g : Graph} {nm : Name → LibName} {files : List (String × FileEntry)} {dir : String} {fa D : Nat}
    (hS : ∀ m, modelFuel D fa ≤ m → SimAt g nm files dir fa m)
    {c path : List Name} {st : State} {x : Name} {loc : Loc} {deps : List Name} {decls : List LibDecl}
    {finish : Outcome × List Name → Outcome × List Name} (hk : SourceKind nm deps decls finish x)
    (hc : Corr g nm ⟨c, path⟩ st) (hf : st.files = files ∧ st.dir = dir) (hx : x ∉ path) (hxc : x ∉ c)
    (hlen : deps.length ≤ D) {m : Nat} (hm : modelFuel D fa + D + 10 ≤ m)
    (hfac : factoryFor st (nm x) = some (.ast decls))
    (hne : (finish (dfsDeps (fun c d => dfs fa g c (x :: path) d) c deps)).1 ≠ .fuel) :
    ∃ r st', evalImportSet m st (.direct (nm x) loc) = (r, st') ∧
      Match g nm files dir (finish (dfsDeps (fun c d => dfs fa g c (x :: path) d) c deps)).1 r ∧
      Corr g nm ⟨(finish (dfsDeps (fun c d => dfs fa g c (x :: path) d) c deps)).2, path⟩ st' ∧
      st'.files = files ∧ st'.dir = dir := by
  obtain ⟨j, rfl⟩ : ∃ j, m = j + 8 := ⟨m - 8, by omega⟩
  have hip : nm x ∉ st.inProgress := fun h => hx ((mem_ip_iff hc x).1 h)
  have hc1 := hc.push x
  have hi1 : libLookup ({ st with inProgress := nm x :: st.inProgress } : State).instances (nm x) = none := by
    show libLookup st.instances (nm x) = none
    cases h : libLookup st.instances (nm x) with
    | none => rfl
    | some d => exact absurd ((hc.cache x).2 ⟨d, h⟩) hxc
  obtain ⟨st1, hs1, hsame1, hfac1, hget⟩ := getLibrary_of_factoryFor (k := j + 6) (loc := loc) hi1
    (show factoryFor { st with inProgress := nm x :: st.inProgress } (nm x) = some (.ast decls) from hfac)
  have hc1' : Corr g nm ⟨c, x :: path⟩ st1 := hc1.step hs1 (by rw [hsame1])
  have hf1 : st1.files = files ∧ st1.dir = dir := ⟨by rw [hs1.base.files]; exact hf.1, by rw [hs1.base.dir]; exact hf.2⟩
  have hc0 := hc1'.store (st1.store.newFrame none).2
  -- the dependencies
  have hne' : (dfsDeps (fun c d => dfs fa g c (x :: path) d) c deps).1 ≠ .fuel := by
    intro h
    generalize dfsDeps (fun c d => dfs fa g c (x :: path) d) c deps = res at h hne
    obtain ⟨o, c'⟩ := res
    simp only at h; subst h
    exact hne (by rw [hk.finish_err _ _ (by simp)])
  obtain ⟨r, s', hev, hmatch, hcs', hfs'⟩ := depsSim hS (x :: path) deps (j + 3) c
    { st1 with store := (st1.store.newFrame none).2 } (by omega) hc0 hf1 hne'
  rw [evalImportSet_direct_eq hip, hget]
  simp only [newLibrary]
  generalize hres : dfsDeps (fun c d => dfs fa g c (x :: path) d) c deps = res at hmatch hcs' hne hne'
  obtain ⟨o, c'⟩ := res
  by_cases ho : o = .ok
  · subst ho
    have hr : r = .ok [] := hmatch
    subst hr
    rcases hk.cases with ⟨hd, hfin⟩ | ⟨hd, hfin⟩
    · subst hd; subst hfin
      have h6 : evalLibraryDef (j + 6) st1 (healthyDecls nm deps) = (.ok [], s') :=
        libraryDef_healthy (k := j + 2) hev
      rw [h6]
      refine ⟨_, _, rfl, ?_, ?_, ?_⟩
      · simp [cacheInstance, finishHealthy, Match]
      · simp only [cacheInstance, finishHealthy]
        exact (hcs'.cached x).pop hc
      · simpa [cacheInstance] using hfs'
    · subst hd; subst hfin
      have h6 : evalLibraryDef (j + 6) st1 (faultyDecls nm deps) = (.error (.nonProcedure, none), s') :=
        libraryDef_faulty (k := j) hev
      rw [h6]
      refine ⟨_, _, rfl, ?_, ?_, ?_⟩
      · simp [cacheInstance, finishFaulty, Match, MatchErr]
      · simp only [cacheInstance, finishFaulty]
        exact hcs'.pop hc
      · simpa [cacheInstance] using hfs'
  · obtain ⟨e, rfl, he⟩ := match_err hmatch ho
    rw [hk.model_err j st1 s' e hev, hk.finish_err o c' ho]
    refine ⟨_, _, rfl, ?_, ?_, ?_⟩
    · simp only [cacheInstance]; exact match_of_err he ho
    · simp only [cacheInstance]; exact hcs'.pop hc
    · simpa [cacheInstance] using hfs'

/-- THE SIMULATION: with `fa * (D + 10)` fuel or more the model's import of `(nm x)` has the
outcome the abstract traversal has with fuel `fa`, and the states correspond again afterwards. -/
theorem simAt {g : Graph} {nm : Name → LibName} {files : List (String × FileEntry)} {dir : String} {D : Nat}
    (hD : ∀ x, (g.node x).deps.length ≤ D) :
    ∀ (fa m : Nat), modelFuel D fa ≤ m → SimAt g nm files dir fa m := by
  intro fa
  induction fa with
  | zero => intro m _ c path st x loc _ _ hne; exact absurd rfl hne
  | succ fa ih =>
    intro m hm c path st x loc hc hf hne
    have hm' : modelFuel D fa + D + 10 ≤ m := by
      have : modelFuel D (fa + 1) = modelFuel D fa + (D + 10) := by
        simp only [modelFuel, Nat.succ_mul]
      omega
    obtain ⟨j, rfl⟩ : ∃ j, m = j + 2 := ⟨m - 2, by omega⟩
    by_cases hx : x ∈ path
    · rw [dfs_cyclic hx] at hne ⊢
      have hip : nm x ∈ st.inProgress := (mem_ip_iff hc x).2 hx
      refine ⟨.error (.cyclic, loc), st, ?_, ⟨_, rfl, rfl⟩, hc, hf⟩
      rw [evalImportSet]
      have : st.inProgress.contains (nm x) = true := by simpa using hip
      rw [if_pos this]
    · have hip : nm x ∉ st.inProgress := fun h => hx ((mem_ip_iff hc x).1 h)
      have hback : ({ ({ st with inProgress := nm x :: st.inProgress } : State) with inProgress := st.inProgress } : State) = st := rfl
      by_cases hxc : x ∈ c
      · rw [dfs_cached hx hxc] at hne ⊢
        obtain ⟨d, hd⟩ := (hc.cache x).1 hxc
        have hd0 := hc.empty x d hd
        subst hd0
        exact ⟨.ok [], st, direct_cached hip hd, rfl, hc, hf⟩
      · have hi0 : libLookup st.instances (nm x) = none := by
          cases h : libLookup st.instances (nm x) with
          | none => rfl
          | some d => exact absurd ((hc.cache x).2 ⟨d, h⟩) hxc
        rw [dfs_node hx hxc] at hne ⊢
        cases hn : g.node x with
        | missing =>
          obtain ⟨h1, h2⟩ := hc.desc.missing x hn
          refine ⟨.error (.libNotFound, loc), st, ?_, ⟨_, rfl, rfl⟩, hc, hf⟩
          rw [evalImportSet_direct_eq hip,
            (getLibrary_no_factory (st := { st with inProgress := nm x :: st.inProgress }) hi0 h1).1 h2]
        | unreadable =>
          obtain ⟨h1, h2⟩ := hc.desc.unreadable x hn
          refine ⟨.error (.io, none), st, ?_, ⟨_, rfl, rfl⟩, hc, hf⟩
          rw [evalImportSet_direct_eq hip,
            (getLibrary_no_factory (st := { st with inProgress := nm x :: st.inProgress }) hi0 h1).2 h2]
        | malformed =>
          obtain ⟨h1, t, e, h2, h3⟩ := hc.desc.malformed x hn
          refine ⟨.error e, st, ?_, ⟨_, rfl, x, t, hn, by rw [← hf.1, ← hf.2]; exact h2, h3⟩, hc, hf⟩
          rw [evalImportSet_direct_eq hip,
            getLibrary_file_error (st := { st with inProgress := nm x :: st.inProgress }) hi0 h1 h2 h3]
        | healthy deps =>
          rw [hn] at hne
          have hlen : deps.length ≤ D := by have := hD x; rw [hn] at this; exact this
          exact sim_source ih (sourceKind_healthy nm deps x) hc hf hx hxc hlen hm'
            (hc.desc.healthy x deps hn) hne
        | faulty deps =>
          rw [hn] at hne
          have hlen : deps.length ≤ D := by have := hD x; rw [hn] at this; exact this
          exact sim_source ih (sourceKind_faulty nm deps x) hc hf hx hxc hlen hm'
            (hc.desc.faulty x deps hn) hne

end Interp
end Ruschm

/-
Helper lemmas for `RuschmProofs/C11Errors.lean`: the ERROR side of property C11 (what the list
library does on lists that are too short, on indices outside the naturals, on improper lists).
Same machinery as `ListLibLemmas.lean` (`libProc`, `LibFrame`, the store-polymorphic rules
`PEval`/`PTail`/`PApp`); nothing here restates the library code.
-/
import RuschmProofs.ListLibLemmas
import RuschmProofs.NumLemmas

namespace Ruschm.ListLib
open Ruschm Ruschm.Eval Ruschm.ListSpec Ruschm.Store

/-! ## "raises": an error outcome, and never a value -/

/-- `p` applied to `args` in `σ` RAISES `e`: the loop ends with the error `e`, having only appended
frames; and (the evaluator being deterministic) no run of it returns a value -/
def Raises (σ : Store) (p : Value) (args : List Value) (env : Nat) (e : SErr) : Prop :=
  (∃ σ', Applies σ p args env (.error e) σ' ∧ σ.Ext σ') ∧ ∀ v σ'', ¬ Applies σ p args env (.ok v) σ''

theorem Raises.of_appliesE {σ p args env e} (h : AppliesE σ p args env (.error e)) : Raises σ p args env e := by
  obtain ⟨σ', h', e'⟩ := h
  exact ⟨⟨σ', h', e'⟩, fun v σ'' hv => by cases (Applies.unique hv h').1⟩

/-- an outcome that is an error, whichever -/
theorem not_value_of_error {σ p args env e σ'} (h : Applies σ p args env (.error e) σ') :
    ∀ v σ'', ¬ Applies σ p args env (.ok v) σ'' := fun v σ'' hv => by cases (Applies.unique hv h).1

section rules
variable {V : Array VecCell} {b ρ : Nat} {bs : List (String × Value)}

/-- in the trampoline an operand error is the outcome whatever the operator evaluated to (it need
not be a procedure) -/
theorem PTail.call_arg_err {f l args l' fv er} (hf : ∀ σ, Scope b ρ bs σ → σ.lookup ρ f = some fv)
    (ha : PArgs V b ρ bs args (.error er)) : PTail V b ρ bs (.call (.sym f l) args l') (.error er) := by
  intro σ env h hv
  obtain ⟨σ₂, h₂, e₂⟩ := ha σ h hv
  exact ⟨σ₂, TailRuns.call (.inr ⟨fv, σ, Evals.sym (hf σ h), .inl ⟨er, h₂, rfl⟩⟩), e₂⟩

/-- the first operand that fails ends the evaluation of the operands: the rest is not evaluated -/
theorem PArgs.cons_err {a as er} (ha : PEval V b ρ bs a (.error er)) : PArgs V b ρ bs (a :: as) (.error er) := by
  intro σ h hv
  obtain ⟨σ₁, h₁, e₁⟩ := ha σ h hv
  exact ⟨σ₁, EvalsArgs.cons_err h₁, e₁⟩

end rules

/-! ## spec lemmas: too short, improper -/

theorem cdrS_nonpair {t : Value} (ht : isPair t = false) : cdrS t = .error typeErr := by
  cases t <;> first | rfl | simp [isPair] at ht
theorem carS_nonpair {t : Value} (ht : isPair t = false) : carS t = .error typeErr := by
  cases t <;> first | rfl | simp [isPair] at ht

/-- `list-tail` on any list value (elements `xs`, final tail `t`): `List.drop` within the list … -/
theorem listTailS_withTail (xs : List Value) (t : Value) (k : Nat) (h : k ≤ xs.length) :
    listTailS (withTail xs t) k = .ok (withTail (xs.drop k) t) := by
  induction k generalizing xs with
  | zero => rfl
  | succ k ih =>
    cases xs with
    | nil => simp at h
    | cons x xs =>
      simp only [listTailS, withTail, cdrS, List.drop_succ_cons]
      exact ih xs (by simpa using h)

/-- … and the `cdr` error as soon as the walk reaches the non-pair tail -/
theorem listTailS_withTail_short (xs : List Value) (t : Value) (ht : isPair t = false) (k : Nat)
    (h : xs.length < k) : listTailS (withTail xs t) k = .error typeErr := by
  induction k generalizing xs with
  | zero => simp at h
  | succ k ih =>
    cases xs with
    | nil => simp only [listTailS, withTail, cdrS_nonpair ht]; rfl
    | cons x xs =>
      simp only [listTailS, withTail, cdrS]
      exact ih xs (by simpa using h)

theorem listRefS_withTail_short (xs : List Value) (t : Value) (ht : isPair t = false) (k : Nat)
    (h : xs.length ≤ k) : listRefS (withTail xs t) k = .error typeErr := by
  unfold listRefS
  rcases Nat.lt_or_ge xs.length k with h' | h'
  · rw [listTailS_withTail_short xs t ht k h']; rfl
  · have : k = xs.length := Nat.le_antisymm h' h
    subst this
    rw [listTailS_withTail xs t _ (Nat.le_refl _)]
    simp only [List.drop_length, withTail]
    exact carS_nonpair ht

theorem prependS_improper (l : Value) (h : isProperList l = false) (t : Except SErr Value) :
    prependS l t = .error typeErr := by
  induction l with
  | nil => simp [isProperList] at h
  | pair a d _ ihd => simp only [prependS, ihd (by simpa [isProperList] using h)]; rfl
  | _ => rfl

theorem prependS_error (l : Value) : prependS l (.error typeErr) = .error typeErr := by
  induction l with
  | nil => rfl
  | pair a d _ ihd => simp only [prependS, ihd]; rfl
  | _ => rfl

/-- `append` with an argument other than the last that is not a proper list: the type error -/
theorem appendE_improper : ∀ (args : List Value), ¬ appendDomain args → appendE args = .error typeErr
  | [], h => absurd trivial h
  | [_], h => absurd trivial h
  | l :: r :: rest, h => by
    simp only [appendE]
    by_cases hl : isProperList l = true
    · have hr : ¬ appendDomain (r :: rest) := fun hr => h ⟨hl, hr⟩
      rw [appendE_improper (r :: rest) hr, prependS_error]
    · exact prependS_improper l (by simpa using hl) _

/-- `memq`/`memv` on a list value whose elements before the tail do not match: `#f` on a proper
list, the `car` error on an improper one -/
theorem memS_withTail_none (obj : Value) (xs : List Value) (t : Value) (ht : isPair t = false)
    (hno : ∀ a ∈ xs, Prim.eqv obj a = false) :
    memS obj (withTail xs t) = if isNil t then .ok (.bool false) else .error typeErr := by
  induction xs with
  | nil => cases t <;> first | rfl | simp [isPair] at ht
  | cons a as ih =>
    simp only [withTail, memS, hno a (by simp), Bool.false_eq_true, if_false]
    exact ih fun x hx => hno x (by simp [hx])

/-- … and the sublist from the first match on, proper or not -/
theorem memS_withTail_found (obj : Value) (pre : List Value) (a : Value) (post : List Value) (t : Value)
    (hno : ∀ x ∈ pre, Prim.eqv obj x = false) (ha : Prim.eqv obj a = true) :
    memS obj (withTail (pre ++ a :: post) t) = .ok (withTail (a :: post) t) := by
  induction pre with
  | nil => simp [withTail, memS, ha]
  | cons x xs ih =>
    simp only [List.cons_append, withTail, memS, hno x (by simp), Bool.false_eq_true, if_false]
    exact ih fun y hy => hno y (by simp [hy])

theorem lastPairS_nonpair {x : Value} (h : isPair x = false) : lastPairS x = .error typeErr := by
  cases x <;> first | rfl | simp [isPair] at h

/-- on an improper non-empty list `last-pair` returns the last pair, dotted tail included -/
theorem lastPairS_withTail (xs : List Value) (x t : Value) (ht : isPair t = false) :
    lastPairS (withTail (xs ++ [x]) t) = .ok (.pair x t) := by
  induction xs with
  | nil => cases t <;> first | rfl | simp [isPair] at ht
  | cons y ys ih =>
    cases ys with
    | nil =>
      simp only [List.cons_append, List.nil_append, withTail] at ih ⊢
      rw [lastPairS]; exact ih
    | cons z zs =>
      simp only [List.cons_append, withTail] at ih ⊢
      rw [lastPairS]; exact ih

/-! ## `list-tail` with an arbitrary index value -/

section listTail
variable {V : Array VecCell} (b : Nat)

/-- one unfolding of `list-tail` when `(= k 0)` is false: `cdr`, the index minus one, again -/
theorem papp_list_tail_step {x kv kv' : Value} {r : Value → Except SErr Value}
    (hz : PApp V b (.builtin .numEq) [kv, .num (.int 0)] (.ok (.bool false)))
    (hs : PApp V b (.builtin .sub) [kv, .num (.int 1)] (.ok kv'))
    (ih : ∀ d, cdrS x = .ok d → PApp V b (libProc "list-tail" b) [d, kv'] (r d)) :
    PApp V b (libProc "list-tail" b) [x, kv] ((cdrS x).bind r) := by
  rw [libProc_list_tail]
  refine PApp.closure (by rfl) fun ρ => ?_
  refine PTail.cond (rt := .ok (.bool false))
    (PEval.call2 (k := fun _ _ => .ok (.bool false)) (lkB .numEq) (by rfl) (PEval.var (by rfl)) (PEval.prim (by rfl))
      fun v₁ v₂ h₁ h₂ => by cases h₁; cases h₂; exact hz)
    (fun tv h ht => by cases h; cases ht) (fun tv h _ => ?_) (fun er h => by cases h)
  refine PTail.congr (PTail.call2 (k := fun v₁ _ => r v₁) (lkP 21) (procArity_libProc (i := 21) rfl)
    (PEval.call1 (lkB .cdr) (by rfl) (PEval.var (by rfl)) fun _ _ => PApp.cdr)
    (PEval.call2 (k := fun _ _ => .ok kv') (lkB .sub) (by rfl) (PEval.var (by rfl)) (PEval.prim (by rfl))
      fun v₁ v₂ h₁ h₂ => by cases h₁; cases h₂; exact hs)
    fun v₁ v₂ h₁ h₂ => by cases h₂; exact ih v₁ h₁) ?_
  show (cdrS x).bind _ = (cdrS x).bind r
  cases cdrS x <;> rfl

/-- `list-tail` when `(= k 0)` is true: the list itself -/
theorem papp_list_tail_stop {x kv : Value}
    (hz : PApp V b (.builtin .numEq) [kv, .num (.int 0)] (.ok (.bool true))) :
    PApp V b (libProc "list-tail" b) [x, kv] (.ok x) := by
  rw [libProc_list_tail]
  refine PApp.closure (by rfl) fun ρ => ?_
  refine PTail.cond (rt := .ok (.bool true))
    (PEval.call2 (k := fun _ _ => .ok (.bool true)) (lkB .numEq) (by rfl) (PEval.var (by rfl)) (PEval.prim (by rfl))
      fun v₁ v₂ h₁ h₂ => by cases h₁; cases h₂; exact hz)
    (fun tv h _ => ?_) (fun tv h ht => by cases h; cases ht) (fun er h => by cases h)
  exact PTail.value (by intros; simp) (by intros; simp) (PEval.var (by rfl))

/-- a NEGATIVE integer index never satisfies `(= k 0)`: the walk goes down the whole list and ends
in the `cdr` type error at its final tail (proper or not). The index stays in the `i32` range as
long as `k - length - 1` does. -/
theorem papp_list_tail_neg (t : Value) (ht : isPair t = false) : ∀ (xs : List Value) (k : Int), k < 0 →
    -2147483648 ≤ k - xs.length - 1 →
    PApp V b (libProc "list-tail" b) [withTail xs t, .num (.int k)] (.error typeErr) := by
  intro xs
  induction xs with
  | nil =>
    intro k hk _
    refine (papp_list_tail_step (kv' := .num (.int (k - 1))) (r := fun _ => .error typeErr) b
      (PApp.numEq_int.congr (by have : (k == 0) = false := by simp; omega
                                rw [this]))
      (PApp.sub_int (by simp [fitsI32]; omega)) (fun d hd => ?_)).congr ?_
    · simp only [withTail, cdrS_nonpair ht] at hd; cases hd
    · simp only [withTail, cdrS_nonpair ht]; rfl
  | cons x xs ih =>
    intro k hk hb
    simp only [List.length_cons] at hb
    refine (papp_list_tail_step (kv' := .num (.int (k - 1))) (r := fun _ => .error typeErr) b
      (PApp.numEq_int.congr (by have : (k == 0) = false := by simp; omega
                                rw [this]))
      (PApp.sub_int (by simp [fitsI32]; omega)) (fun d hd => ?_)).congr rfl
    simp only [withTail, cdrS] at hd
    cases hd
    exact ih (k - 1) (by omega) (by omega)

theorem applyPure_numEq_rat (σ : Store) (n d : Int) :
    Prim.applyPure σ .numEq [.num (.rat n d), .num (.int 0)] = (.ok (.bool (n == 0)), σ) := by
  simp only [Prim.applyPure, Prim.cmpNum, Prim.expectNumber, Prim.cmpNum.go, Num.eq, Num.upcast, bind, Except.bind,
    Int.mul_one, Int.zero_mul, Bool.true_and]
  by_cases h : (n == 0) = true <;> simp [h, Prim.lift, Prim.ok]

theorem sub_rat_one {n d : Int} (hd : 0 < d) (hd1 : d ≠ 1) (hg : Int.gcd n d = 1) (hfd : fitsI32 d = true)
    (hf : fitsI32 (n - d) = true) : Num.sub (.rat n d) (.int 1) = .ok (.rat (n - d) d) := by
  simp only [Num.sub, Num.upcast, Int.mul_one]
  refine Num.exactRatio_complete' (by omega) (x := .rat (n - d) d) ⟨hf, hfd, hd, hd1, ?_⟩ ?_
  · simpa using hg
  · simp [Num.val]

theorem applyPure_sub_rat (σ : Store) {n d : Int} (hd : 0 < d) (hd1 : d ≠ 1) (hg : Int.gcd n d = 1)
    (hfd : fitsI32 d = true) (hf : fitsI32 (n - d) = true) :
    Prim.applyPure σ .sub [.num (.rat n d), .num (.int 1)] = (.ok (.num (.rat (n - d) d)), σ) := by
  simp only [Prim.applyPure, Prim.subDiv, Prim.expectNumber, bind, Except.bind, sub_rat_one hd hd1 hg hfd hf,
    Prim.foldNum, List.foldlM, pure, Except.pure, Prim.lift]
  rfl

/-- a NON-INTEGER exact ratio `n/d` (in lowest terms, `d > 1`) never satisfies `(= k 0)` either:
the index runs through `n/d - 1, n/d - 2, …` and the walk ends in the `cdr` type error -/
theorem papp_list_tail_rat (t : Value) (ht : isPair t = false) (d : Int) (hd : 0 < d) (hd1 : d ≠ 1)
    (hfd : fitsI32 d = true) : ∀ (xs : List Value) (n : Int), Int.gcd n d = 1 → n ≤ 2147483647 →
    -2147483648 ≤ n - (xs.length + 1) * d →
    PApp V b (libProc "list-tail" b) [withTail xs t, .num (.rat n d)] (.error typeErr) := by
  have hne : ∀ n : Int, Int.gcd n d = 1 → (n == 0) = false := by
    intro n hg
    by_cases h : n = 0
    · subst h
      simp only [Int.gcd_zero_left] at hg
      omega
    · simpa using h
  have hz : ∀ n : Int, Int.gcd n d = 1 →
      PApp V b (.builtin .numEq) [.num (.rat n d), .num (.int 0)] (.ok (.bool false)) := fun n hg =>
    (PApp.builtin (by decide) (by rfl) (fun σ _ => applyPure_numEq_rat σ n d) (by simp)).congr (by rw [hne n hg])
  intro xs
  induction xs with
  | nil =>
    intro n hg hn hb
    simp only [List.length_nil, Nat.cast_zero, Int.zero_add, Int.one_mul] at hb
    refine (papp_list_tail_step (kv' := .num (.rat (n - d) d)) (r := fun _ => .error typeErr) b (hz n hg)
      (PApp.builtin (by decide) (by rfl) (fun σ _ => applyPure_sub_rat σ hd hd1 hg hfd (by simp [fitsI32]; omega))
        (by simp)) (fun v hv => ?_)).congr ?_
    · simp only [withTail, cdrS_nonpair ht] at hv; cases hv
    · simp only [withTail, cdrS_nonpair ht]; rfl
  | cons x xs ih =>
    intro n hg hn hb
    have hb' : -2147483648 ≤ n - d - ((xs.length : Int) + 1) * d := by
      simp only [List.length_cons, Nat.cast_add, Nat.cast_one] at hb
      have : ((xs.length : Int) + 1 + 1) * d = d + ((xs.length : Int) + 1) * d := by
        rw [Int.add_mul, Int.one_mul, Int.add_comm]
      omega
    have hpos : 0 ≤ ((xs.length : Int) + 1) * d := Int.mul_nonneg (by omega) (by omega)
    refine (papp_list_tail_step (kv' := .num (.rat (n - d) d)) (r := fun _ => .error typeErr) b (hz n hg)
      (PApp.builtin (by decide) (by rfl) (fun σ _ => applyPure_sub_rat σ hd hd1 hg hfd (by simp [fitsI32]; omega))
        (by simp)) (fun v hv => ?_)).congr rfl
    simp only [withTail, cdrS] at hv
    cases hv
    exact ih (n - d) (by simpa using hg) (by omega) (by simpa using hb')

/-- what `list-tail` does with an INEXACT index `r`: the same walk with the binary32 tests
`r = 0`, `r - 1 = 0`, … — it returns the sublist reached when the test first succeeds (for `2.0`
after two steps: a value, out of the domain of R7RS) and ends in the `cdr` type error if the list is
exhausted first -/
def listTailRealS : Value → Float32 → Except SErr Value
  | .pair a d, r => if r == Float32.ofInt 0 then .ok (.pair a d) else listTailRealS d (r - Float32.ofInt 1)
  | t, r => if r == Float32.ofInt 0 then .ok t else .error typeErr

theorem applyPure_numEq_real (σ : Store) (r : Float32) :
    Prim.applyPure σ .numEq [.num (.real r), .num (.int 0)] = (.ok (.bool (r == Float32.ofInt 0)), σ) := by
  simp only [Prim.applyPure, Prim.cmpNum, Prim.expectNumber, Prim.cmpNum.go, Num.eq, Num.upcast, bind, Except.bind,
    Bool.true_and]
  rfl

theorem applyPure_sub_real (σ : Store) (r : Float32) :
    Prim.applyPure σ .sub [.num (.real r), .num (.int 1)] = (.ok (.num (.real (r - Float32.ofInt 1))), σ) := by
  simp only [Prim.applyPure, Prim.subDiv, Prim.expectNumber, bind, Except.bind, Num.sub, Num.upcast,
    Prim.foldNum, List.foldlM, pure, Except.pure, Prim.lift]
  rfl

theorem papp_list_tail_real (x : Value) : ∀ r : Float32,
    PApp V b (libProc "list-tail" b) [x, .num (.real r)] (listTailRealS x r) := by
  have hz : ∀ (r : Float32) (c : Bool), (r == Float32.ofInt 0) = c →
      PApp V b (.builtin .numEq) [.num (.real r), .num (.int 0)] (.ok (.bool c)) := fun r c hc =>
    (PApp.builtin (by decide) (by rfl) (fun σ _ => applyPure_numEq_real σ r) (by simp)).congr (by rw [hc])
  have hs : ∀ r : Float32, PApp V b (.builtin .sub) [.num (.real r), .num (.int 1)]
      (.ok (.num (.real (r - Float32.ofInt 1)))) := fun r =>
    PApp.builtin (by decide) (by rfl) (fun σ _ => applyPure_sub_real σ r) (by simp)
  have nonpair : ∀ (t : Value) (r : Float32), isPair t = false →
      PApp V b (libProc "list-tail" b) [t, .num (.real r)]
        (if r == Float32.ofInt 0 then .ok t else .error typeErr) := by
    intro t r ht
    cases hc : r == Float32.ofInt 0 with
    | true => exact papp_list_tail_stop b (hz r true hc)
    | false =>
      refine (papp_list_tail_step (r := fun _ => .error typeErr) b (hz r false hc) (hs r) (fun d hd => ?_)).congr ?_
      · rw [cdrS_nonpair ht] at hd; cases hd
      · rw [cdrS_nonpair ht]; rfl
  induction x with
  | pair a d _ ihd =>
    intro r
    rw [listTailRealS]
    cases hc : r == Float32.ofInt 0 with
    | true => exact papp_list_tail_stop b (hz r true hc)
    | false =>
      refine (papp_list_tail_step (r := fun d' => listTailRealS d' (r - Float32.ofInt 1)) b (hz r false hc) (hs r)
        (fun d' hd => ?_)).congr rfl
      simp only [cdrS] at hd
      cases hd
      exact ihd _
  | _ => intro r; exact (nonpair _ r rfl).congr rfl

/-- `(list-ref x k)` = `(car (list-tail x k))` for ANY index value, given what `list-tail` yields -/
theorem papp_list_ref_of_tail {x kv : Value} {rt : Except SErr Value}
    (h : PApp V b (libProc "list-tail" b) [x, kv] rt) :
    PApp V b (libProc "list-ref" b) [x, kv] (rt.bind carS) := by
  rw [libProc_list_ref]
  refine PApp.closure (by rfl) fun ρ => ?_
  exact PTail.call1 (lkB .car) (by rfl)
    (PEval.congr (PEval.call2 (k := fun _ _ => rt) (lkP 21) (procArity_libProc (i := 21) rfl)
      (PEval.var (by rfl)) (PEval.var (by rfl)) fun v₁ v₂ h₁ h₂ => by cases h₁; cases h₂; exact h) rfl)
    fun _ _ => PApp.car

end listTail

/-! ## `fold-right` on an improper list -/

section foldRight
variable {V : Array VecCell} (b : Nat)

/-- `fold-right` over a list whose final tail `t` is neither a pair nor `()`: the recursion reaches
`t`, `(car t)` fails among the operands of the pending call of `f`, and the error comes back
through every level — `f` (which need not even be a procedure) is never applied -/
theorem papp_fold_right_improper (f init t : Value) (ht : isPair t = false) (hn : isNil t = false) :
    ∀ xs : List Value, PApp V b (libProc "fold-right" b) [f, init, withTail xs t] (.error typeErr) := by
  have test : ∀ (l : Value) ρ, PEval V b ρ (paramDefs ⟨["f", "init", "seq"], none⟩ [f, init, l])
      (ca "null?" [sy "seq"]) (.ok (.bool (isNil l))) := fun l ρ =>
    PEval.congr (PEval.call1 (k := fun v => .ok (.bool (isNil v))) (lkP 14) (procArity_libProc (i := 14) rfl)
      (PEval.var (by rfl)) fun v _ => papp_null b v) rfl
  intro xs
  induction xs with
  | nil =>
    rw [libProc_fold_right]
    refine PApp.closure (by rfl) fun ρ => ?_
    refine PTail.cond (test t ρ) (fun tv h ht' => by cases h; simp [hn] at ht') (fun tv h _ => ?_)
      (fun er h => by cases h)
    refine PTail.call_arg_err (fun σ h => h.var (by rfl)) ?_
    exact PArgs.cons_err (PEval.congr (PEval.call1 (lkB .car) (by rfl) (PEval.var (by rfl)) fun _ _ => PApp.car) (by
      show (Except.ok t).bind carS = _
      simp only [Except.bind, carS_nonpair ht]))
  | cons x xs ih =>
    rw [libProc_fold_right]
    refine PApp.closure (by rfl) fun ρ => ?_
    refine PTail.cond (test (withTail (x :: xs) t) ρ) (fun tv h ht' => by cases h; simp [withTail, isNil] at ht')
      (fun tv h _ => ?_) (fun er h => by cases h)
    refine PTail.call_arg_err (fun σ h => h.var (by rfl)) ?_
    exact PArgs.congr (PArgs.cons (PEval.call1 (lkB .car) (by rfl) (PEval.var (by rfl)) fun _ _ => PApp.car)
      (PArgs.cons (PEval.call3 (k := fun _ _ _ => .error typeErr) (lkP 20) (procArity_libProc (i := 20) rfl)
        (PEval.var (by rfl)) (PEval.var (by rfl))
        (PEval.call1 (lkB .cdr) (by rfl) (PEval.var (by rfl)) fun _ _ => PApp.cdr)
        fun v₁ v₂ v₃ h₁ h₂ h₃ => by
          cases h₁; cases h₂
          simp only [withTail, Except.bind, cdrS] at h₃
          cases h₃
          exact ih) PArgs.nil)) rfl

end foldRight

end Ruschm.ListLib

/-
Specification vocabulary for the numeric tower (properties C09 and C10).

* `Num.val`     : the value in ℚ (core `Rat`) of an exact number, `none` for an inexact one;
* `Num.isExact` : exactness;
* `Num.toReal`  : the binary32 conversion the Rust code applies to an operand before an inexact
                  operation (`R::from(i)`, `R::from(n) / R::from(d)`, identity on reals);
* `Num.WF`      : the representation invariant of `Number::exact_ratio` results (components fit
                  `i32`, positive denominator, lowest terms, never denominator 1);
* `Num.DenPos`  : the weaker invariant "components fit `i32`, denominator positive";
* `Num.PosDen`  : the weakest one, "denominator positive" (all the order theorems need);
* `Num.Adjacent`: "every adjacent pair of the list is related", the meaning of an n-ary comparison.

Core Lean only (no Mathlib import) so that the statements can be read without any library.
-/
import RuschmModel.Num

namespace Ruschm
namespace Num

/-- Exactness: integers and ratios are exact, reals are not. -/
def isExact : Num → Bool
  | .int _ => true
  | .rat _ _ => true
  | .real _ => false

/-- Value in ℚ of an exact number (`none` for an inexact one). -/
def val : Num → Option Rat
  | .int i => some (i : Rat)
  | .rat n d => some ((n : Rat) / (d : Rat))
  | .real _ => none

/-- Value in ℚ with the default 0 for an inexact number (only used on exact numbers). -/
def valD (x : Num) : Rat := x.val.getD 0

/-- Conversion of an operand to binary32, as done by `upcast_oprands`. -/
def toReal : Num → Float32
  | .int i => Float32.ofInt i
  | .rat n d => ratToReal n d
  | .real r => r

/-- The representation invariant established by `Number::exact_ratio`. -/
def WF : Num → Prop
  | .int i => fitsI32 i = true
  | .rat n d => fitsI32 n = true ∧ fitsI32 d = true ∧ 0 < d ∧ d ≠ 1 ∧ Int.gcd n d = 1
  | .real _ => True

/-- Components fit `i32` and the denominator is positive (not necessarily reduced). -/
def DenPos : Num → Prop
  | .int i => fitsI32 i = true
  | .rat n d => fitsI32 n = true ∧ fitsI32 d = true ∧ 0 < d
  | .real _ => True

/-- The denominator is positive; no range condition. -/
def PosDen : Num → Prop
  | .int _ => True
  | .rat _ d => 0 < d
  | .real _ => True

/-- All numerators and denominators are below `B` in absolute value. -/
def Below (B : Int) : Num → Prop
  | .int i => -B < i ∧ i < B
  | .rat n d => -B < n ∧ n < B ∧ -B < d ∧ d < B
  | .real _ => True

/-- Numerator of `n / d` in lowest terms with a positive denominator (the division is exact). -/
def redNum (n d : Int) : Int := (n * d.sign) / (Int.gcd n d : Int)

/-- Denominator of `n / d` in lowest terms, positive when `d ≠ 0` (the division is exact). -/
def redDen (n d : Int) : Int := (d.natAbs : Int) / (Int.gcd n d : Int)

/-- Numerator of an exact number as `upcast_oprands` sees it (an integer `i` is `i/1`). -/
def num : Num → Int
  | .int i => i
  | .rat n _ => n
  | .real _ => 0

/-- Denominator of an exact number as `upcast_oprands` sees it (an integer `i` is `i/1`). -/
def den : Num → Int
  | .int _ => 1
  | .rat _ d => d
  | .real _ => 1

instance : DecidablePred WF := fun x => by cases x <;> unfold WF <;> infer_instance
instance : DecidablePred DenPos := fun x => by cases x <;> unfold DenPos <;> infer_instance
instance : DecidablePred PosDen := fun x => by cases x <;> unfold PosDen <;> infer_instance
instance (B : Int) : DecidablePred (Below B) := fun x => by
  cases x <;> unfold Below <;> infer_instance

/-- Every adjacent pair of the list satisfies `op`. -/
def Adjacent (op : Num → Num → Bool) : List Num → Prop
  | [] => True
  | [_] => True
  | a :: b :: rest => op a b = true ∧ Adjacent op (b :: rest)

/-- `r` is an `ok` result. -/
def IsOk (e : Except Err Num) : Prop := ∃ r, e = .ok r

/-- `e` is not a (model of a Rust) panic. -/
def NoPanic (e : Except Err Num) : Prop := ∀ s, e ≠ .error (.panic s)

end Num
end Ruschm

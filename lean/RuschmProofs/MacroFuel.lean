/-
Helper lemmas for C04 (5): for SUPPORTED patterns the fuel need depends on the datum only —
`2 * d.size + 2` units suffice, hence so does the model's `matchFuel d`.
-/
import RuschmProofs.MacroGroups

namespace Ruschm.Macro
open Ruschm

theorem match_fuel_supported_aux (lits : List String) : ∀ n,
    (∀ p d σ l, Pat.ok lits p = true → 2 * d.size + 2 ≤ n →
      matchDatum n lits p d σ ≠ .error (.fuel, l)) ∧
    (∀ ps ds mm σ l, Pat.okList lits ps = true → 2 * Datum.sizeList ds + 3 ≤ n →
      matchStream n lits ps ds mm σ ≠ .error (.fuel, l)) ∧
    (∀ q ds σ l, Pat.ok lits q = true → 2 * Datum.sizeList ds + 3 ≤ n →
      matchStream n lits [.ellipsis] ds (some q) σ ≠ .error (.fuel, l)) := by
  intro n
  induction n with
  | zero => exact ⟨fun _ _ _ _ _ h => by omega, fun _ _ _ _ _ _ h => by omega,
      fun _ _ _ _ _ h => by omega⟩
  | succ n ih =>
    obtain ⟨ihD, ihS, ihR⟩ := ih
    refine ⟨?_, ?_, ?_⟩
    · intro p d σ l hok hsz
      cases hl : p.isListy
      · cases p <;> simp [Pat.isListy] at hl
        · simp
        · simp
        · rw [matchDatum_vec]
          cases d <;> simp
          rename_i ps ds loc
          apply ihS _ _ _ _ _ (by simpa [Pat.ok] using hok)
          simp only [Datum.size] at hsz; omega
        · rw [matchDatum_ident]; split <;> simp
        · rw [matchDatum_prim]; simp
      · cases hd : d.isListy
        · rw [matchDatum_listy_atom hl hd]; simp
        · have hT := Pat.ok_okTail hok hl
          obtain ⟨hs2, hs1, -⟩ := Pat.okTail_spine p hT
          rw [matchDatum_listy hl hd, hs2]
          have h2 := d.spine_size
          simp only [hd, if_true] at h2
          intro h
          split at h
          · rename_i e he
            cases h
            exact ihS _ _ _ _ _ hs1 (by omega) he
          · cases h
          · split at h
            · rename_i hlp _; cases hlp
            · cases h
            · cases h
    · intro ps ds mm σ l hok hsz
      cases ps with
      | nil => cases ds <;> simp
      | cons p ps' =>
        simp only [Pat.okList] at hok
        have hpok : Pat.ok lits p = true := by
          split at hok <;> simp only [Bool.and_eq_true] at hok
          · exact hok.1.1
          · exact hok.1
        have hp := Pat.ok_not_ellipsis hpok
        cases ds with
        | nil => rw [matchStream_cons_nil_ne hp]; simp
        | cons d ds' =>
          have hd := d.size_pos
          simp only [Datum.sizeList] at hsz
          rw [matchStream_step_ne hp]
          intro h
          split at h
          · rename_i e he
            cases h
            exact ihD _ _ _ _ hpok (by omega) he
          · cases h
          · by_cases he : Pat.isEllOnly ps' = true
            · have := Pat.isEllOnly_iff.1 he
              subst this
              simp only [he, if_true, Bool.and_eq_true, Bool.not_eq_true'] at hok
              rw [nextMM_not_lit hok.2] at h
              exact ihR _ _ _ _ hpok (by omega) h
            · simp only [he, Bool.false_eq_true, if_false, Bool.and_eq_true] at hok
              exact ihS _ _ _ _ _ hok.2 (by omega) h
    · intro q ds σ l hq hsz
      cases ds with
      | nil =>
        rw [matchStream_ell_nil_some]
        cases n with
        | zero => omega
        | succ m => simp
      | cons d ds' =>
        have hd := d.size_pos
        simp only [Datum.sizeList] at hsz
        cases n with
        | zero => omega
        | succ m =>
          rw [matchStream_step_ell]
          intro h
          split at h
          · rename_i e he
            cases h
            exact ihD _ _ _ _ hq (by omega) he
          · cases h
          · split at h
            · cases h
            · split at h
              · rename_i e he
                cases h
                exact ihR _ _ _ _ hq (by omega) he
              · cases h
              · cases ds' with
                | nil => simp at h
                | cons _ _ => simp at h

/-- for SUPPORTED patterns `2 * d.size + 2` units of fuel suffice, whatever the pattern -/
theorem matchDatum_fuel_supported {lits n p d σ l} (hok : Pat.ok lits p = true)
    (h : 2 * d.size + 2 ≤ n) : matchDatum n lits p d σ ≠ .error (.fuel, l) :=
  (match_fuel_supported_aux lits n).1 p d σ l hok h

/-- the refinement with the fuel condition replaced by "did not run out of fuel" -/
theorem matchDatum_eq_spec_of_no_fuel {lits n p d} (hs : Supported lits p = true)
    (hnf : matchDatum n lits p d [] ≠ .error (.fuel, none)) :
    match specMatch lits p d with
    | some β => matchDatum n lits p d [] = .ok (true, β.toSubst)
    | none => ∃ σ', matchDatum n lits p d [] = .ok (false, σ') := by
  simp only [Supported, Bool.and_eq_true, decide_eq_true_eq] at hs
  have := (match_spec_aux lits n).1 p d [] hs.1 hs.2 (fun v _ => by simp)
  rcases this with h | h
  · exact absurd h hnf
  · cases hsp : specMatch lits p d with
    | none => simpa [hsp] using h
    | some β => simpa [hsp] using h

/-- the expander refines the declarative expander on supported rule sets with the model's own
`matchFuel use` (or more) -/
theorem transformRules_eq_spec_matchFuel {lits fuel use} (hf : matchFuel use ≤ fuel) :
    ∀ rules : List (Pat × Tmpl), (∀ r ∈ rules, SupportedRule lits r = true) →
      transformRules fuel lits rules use = specTransform lits rules use := by
  intro rules
  induction rules with
  | nil => intro _; rfl
  | cons r rules ih =>
    intro hs
    obtain ⟨p, t⟩ := r
    have hr := hs (p, t) (by simp)
    have hsp : Supported lits p = true := by
      simp only [SupportedRule, Bool.and_eq_true] at hr; exact hr.1
    have hok : Pat.ok lits p = true := by
      simp only [Supported, Bool.and_eq_true] at hsp; exact hsp.1
    unfold matchFuel at hf
    have := matchDatum_eq_spec_of_no_fuel (n := fuel) (d := use) hsp
      (matchDatum_fuel_supported hok (by omega))
    rw [transformRules_cons]
    simp only [specTransform]
    cases hm : specMatch lits p use with
    | some β =>
      simp only [hm] at this
      rw [this]
      simp only [fill_of_match hr hm (show use.size ≤ fuel by omega)]
    | none =>
      simp only [hm] at this
      obtain ⟨σ', h'⟩ := this
      rw [h']
      exact ih (fun r hr => hs r (by simp [hr]))

end Ruschm.Macro

/-
Helper lemmas for C04 (3): the model's template substitution refines the declarative
instantiation `specInst` on well-formed templates, with a fuel bound for the copy loop.
-/
import RuschmProofs.MacroMatch

namespace Ruschm.Macro
open Ruschm

/-! ## Structural induction on templates (nested through `List (Tmpl × Bool)`) -/

theorem Tmpl.ind {P : Tmpl → Prop} {Q : List (Tmpl × Bool) → Prop}
    (list : ∀ es, Q es → P (.list es)) (vec : ∀ es, Q es → P (.vec es))
    (ident : ∀ s, P (.ident s)) (prim : ∀ p, P (.prim p))
    (nil : Q []) (cons : ∀ t b rest, P t → Q rest → Q ((t, b) :: rest)) :
    (∀ t, P t) ∧ (∀ es, Q es) :=
  ⟨fun t => Tmpl.rec (motive_1 := P) (motive_2 := Q) (motive_3 := fun tb => P tb.1)
      list vec ident prim nil (fun hd tl h1 h2 => cons hd.1 hd.2 tl h1 h2) (fun _ _ h => h) t,
   fun es => Tmpl.rec_1 (motive_1 := P) (motive_2 := Q) (motive_3 := fun tb => P tb.1)
      list vec ident prim nil (fun hd tl h1 h2 => cons hd.1 hd.2 tl h1 h2) (fun _ _ h => h) es⟩

/-! ## The table as bindings -/

theorem Subst.lookup_toBindings (σ : Subst) (v : String) :
    σ.toBindings.lookup v = (σ.get? v).map fun x => x.1 :: x.2 := by
  induction σ with
  | nil => rfl
  | cons e σ ih =>
    obtain ⟨k, f, more⟩ := e
    simp only [Subst.toBindings, List.map_cons, List.lookup_cons, Subst.get?] at ih ⊢
    by_cases hk : k = v
    · subst hk; simp
    · have : (v == k) = false := by simp [beq_eq_false_iff_ne, Ne.symm hk]
      simp only [this, hk, if_false]
      exact ih

theorem Subst.get?_mem {σ : Subst} {v x} (h : σ.get? v = some x) : (v, x) ∈ σ := by
  induction σ with
  | nil => simp [Subst.get?] at h
  | cons e σ ih =>
    obtain ⟨k, y⟩ := e
    simp only [Subst.get?] at h
    split at h
    · rename_i hk; cases h; subst hk; simp
    · simp [ih h]

theorem Subst.get?_isSome_iff {σ : Subst} {v} : (σ.get? v).isSome = true ↔ v ∈ Subst.keys σ := by
  induction σ with
  | nil => simp [Subst.get?]
  | cons e σ ih =>
    obtain ⟨k, y⟩ := e
    simp only [Subst.get?, Subst.keys_cons, List.mem_cons]
    split
    · rename_i hk; simp [hk]
    · rename_i hk; rw [ih]; simp [Ne.symm hk]

/-! ## `minLen` -/

theorem lt_minLen_iff {ls : List Nat} (hne : ls ≠ []) (k : Nat) :
    k < minLen ls ↔ ∀ l ∈ ls, k < l := by
  induction ls with
  | nil => exact absurd rfl hne
  | cons x xs ih =>
    cases xs with
    | nil => simp [minLen]
    | cons y ys =>
      have := ih (by simp)
      simp only [minLen, Nat.lt_min, this]
      simp

theorem minLen_le_of_mem {ls : List Nat} {l} (h : l ∈ ls) : minLen ls ≤ l := by
  have hne : ls ≠ [] := by intro h'; subst h'; simp at h
  by_cases hl : minLen ls ≤ l
  · exact hl
  · have := (lt_minLen_iff hne l).1 (by omega) l h
    omega

/-! ## Well-formed templates

`t.wf bound`: every element followed by an ellipsis contains no nested ellipsis and mentions at
least one bound variable (otherwise the copy loop of the Rust code does not end). This is all the
substitution theorem needs; `Tmpl.ok` (the supported class) implies it. -/

mutual
def Tmpl.wf (bound : List String) : Tmpl → Bool
  | .ident _ => true
  | .prim _ => true
  | .list es => Tmpl.wfElems bound es
  | .vec es => Tmpl.wfElems bound es
def Tmpl.wfElems (bound : List String) : List (Tmpl × Bool) → Bool
  | [] => true
  | (t, false) :: rest => t.wf bound && Tmpl.wfElems bound rest
  | (t, true) :: rest => t.flagFree && t.vars.any bound.contains && Tmpl.wfElems bound rest
end

theorem Tmpl.ok_wf (pv : List String) (groups : List (List String)) :
    (∀ t, Tmpl.ok pv groups t = true → t.wf pv = true) ∧
    (∀ es, Tmpl.okElems pv groups es = true → Tmpl.wfElems pv es = true) := by
  apply Tmpl.ind
  · intro es ih h; simp only [Tmpl.ok] at h; simpa [Tmpl.wf] using ih h
  · intro es ih h; simp only [Tmpl.ok] at h; simpa [Tmpl.wf] using ih h
  · intro s _; rfl
  · intro p _; rfl
  · intro _; rfl
  · intro t b rest iht ihr h
    cases b with
    | false =>
      simp only [Tmpl.okElems, Bool.and_eq_true] at h
      simp [Tmpl.wfElems, iht h.1, ihr h.2]
    | true =>
      simp only [Tmpl.okElems, Tmpl.ellOk, Bool.and_eq_true] at h
      obtain ⟨⟨⟨h1, h2⟩, -⟩, h4⟩ := h
      simp only [Tmpl.wfElems, h1, ihr h4, Bool.and_true, Bool.true_and]
      simp only [Tmpl.boundVars, Bool.not_eq_true', List.isEmpty_eq_false_iff_exists_mem] at h2
      obtain ⟨v, hv⟩ := h2
      simp only [List.mem_filter] at hv
      simp only [List.any_eq_true]
      exact ⟨v, hv.1, hv.2⟩

/-! ## The copies of an ellipsis sub-template -/

/-- every bound variable among `vs` has an `i`-th further match -/
def Avail (σ : Subst) (vs : List String) (i : Nat) : Prop :=
  ∀ v ∈ vs, ∀ x, σ.get? v = some x → i < x.2.length

theorem Avail.append {σ vs ws i} : Avail σ (vs ++ ws) i ↔ Avail σ vs i ∧ Avail σ ws i := by
  simp only [Avail, List.mem_append]
  constructor
  · intro h; exact ⟨fun v hv => h v (.inl hv), fun v hv => h v (.inr hv)⟩
  · intro ⟨h1, h2⟩ v hv; rcases hv with hv | hv
    · exact h1 v hv
    · exact h2 v hv

/-- `substitude_ellipsis_item` on a sub-template without nested ellipsis: the `i`-th further copy
is the template with every variable replaced by its item number `i + 1`, and there is one iff
every bound variable has that item -/
theorem substItem_spec (σ : Subst) (loc : Loc) (i : Nat) :
    (∀ t, t.flagFree = true →
      (Avail σ t.vars i → substItem t σ i loc = some (specInstAt σ.toBindings loc (i+1) t)) ∧
      (¬ Avail σ t.vars i → substItem t σ i loc = none)) ∧
    (∀ es, Tmpl.flagFreeElems es = true →
      (Avail σ (Tmpl.varsElems es) i →
        substItems es σ i loc = some (specElemsAt σ.toBindings loc (i+1) es)) ∧
      (¬ Avail σ (Tmpl.varsElems es) i → substItems es σ i loc = none)) := by
  apply Tmpl.ind
  · intro es ih hf
    simp only [Tmpl.flagFree] at hf
    obtain ⟨h1, h2⟩ := ih hf
    simp only [Tmpl.vars, substItem, specInstAt]
    exact ⟨fun h => by rw [h1 h]; rfl, fun h => by rw [h2 h]; rfl⟩
  · intro es ih hf
    simp only [Tmpl.flagFree] at hf
    obtain ⟨h1, h2⟩ := ih hf
    simp only [Tmpl.vars, substItem, specInstAt]
    exact ⟨fun h => by rw [h1 h]; rfl, fun h => by rw [h2 h]; rfl⟩
  · intro v _
    simp only [Tmpl.vars, substItem, specInstAt, Subst.lookup_toBindings, Avail,
      List.mem_singleton, forall_eq]
    cases hg : σ.get? v with
    | none => simp
    | some x =>
      obtain ⟨f, more⟩ := x
      simp only [Option.some.injEq, forall_eq', Option.map_some, List.getD_cons_succ]
      constructor
      · intro h
        have : more.isEmpty = false := by cases more <;> simp_all
        simp [this, h]
      · intro h
        cases hm : more.isEmpty
        · simp only [Bool.false_eq_true, if_false, List.getElem?_eq_none_iff]; omega
        · simp
  · intro p _
    simp [Tmpl.vars, substItem, specInstAt, Avail]
  · intro _
    simp [Tmpl.varsElems, substItems, specElemsAt, Avail]
  · intro t b rest iht ihr hf
    simp only [Tmpl.flagFreeElems, Bool.and_eq_true, Bool.not_eq_true'] at hf
    obtain ⟨⟨hb, hft⟩, hfr⟩ := hf
    subst hb
    obtain ⟨t1, t2⟩ := iht hft
    obtain ⟨r1, r2⟩ := ihr hfr
    simp only [Tmpl.varsElems, substItems, specElemsAt, Avail.append]
    constructor
    · intro ⟨ha, hb⟩
      rw [t1 ha, r1 hb]; rfl
    · intro h
      by_cases ha : Avail σ t.vars i
      · have hb : ¬ Avail σ (Tmpl.varsElems rest) i := fun hb => h ⟨ha, hb⟩
        rw [t1 ha, r2 hb]; rfl
      · rw [t2 ha]

theorem mem_seqLens {σ : Subst} {t : Tmpl} {l : Nat} :
    l ∈ seqLens σ.toBindings t ↔ ∃ v ∈ t.vars, ∃ x, σ.get? v = some x ∧ l = x.2.length + 1 := by
  simp only [seqLens, List.mem_filterMap, Subst.lookup_toBindings, Option.map_map,
    Option.map_eq_some_iff, Function.comp, List.length_cons]
  constructor
  · rintro ⟨v, hv, x, hx, rfl⟩; exact ⟨v, hv, x, hx, rfl⟩
  · rintro ⟨v, hv, x, hx, rfl⟩; exact ⟨v, hv, x, hx, rfl⟩

theorem seqLens_ne_nil {σ : Subst} {t : Tmpl} (hb : ∃ v ∈ t.vars, v ∈ Subst.keys σ) :
    seqLens σ.toBindings t ≠ [] := by
  obtain ⟨v, hv, hk⟩ := hb
  have := Subst.get?_isSome_iff.2 hk
  cases hg : σ.get? v with
  | none => simp [hg] at this
  | some x =>
    intro h
    have : x.2.length + 1 ∈ seqLens σ.toBindings t := mem_seqLens.2 ⟨v, hv, x, hg, rfl⟩
    simp [h] at this

/-- there is an `i`-th further copy iff `i + 1` is below the number of copies -/
theorem avail_iff_copies {σ : Subst} {t : Tmpl} {i : Nat}
    (hb : ∃ v ∈ t.vars, v ∈ Subst.keys σ) :
    Avail σ t.vars i ↔ i + 1 < copies σ.toBindings t := by
  rw [copies, lt_minLen_iff (seqLens_ne_nil hb)]
  constructor
  · intro h l hl
    obtain ⟨v, hv, x, hx, rfl⟩ := mem_seqLens.1 hl
    have := h v hv x hx; omega
  · intro h v hv x hx
    have := h _ (mem_seqLens.2 ⟨v, hv, x, hx, rfl⟩); omega

theorem copies_pos {σ : Subst} {t : Tmpl} (hb : ∃ v ∈ t.vars, v ∈ Subst.keys σ) :
    0 < copies σ.toBindings t := by
  rw [copies, lt_minLen_iff (seqLens_ne_nil hb)]
  intro l hl
  obtain ⟨v, hv, x, hx, rfl⟩ := mem_seqLens.1 hl
  omega

/-- the number of copies is at most the length of the item sequence of any bound variable -/
theorem copies_le {σ : Subst} {t : Tmpl} {v x} (hv : v ∈ t.vars) (hx : σ.get? v = some x) :
    copies σ.toBindings t ≤ x.2.length + 1 :=
  minLen_le_of_mem (mem_seqLens.2 ⟨v, hv, x, hx, rfl⟩)

/-- the copy loop started at index `i`: the copies number `i + 1 … c - 1` -/
theorem substItemLoop_spec {σ : Subst} {t : Tmpl} {loc : Loc} (hf : t.flagFree = true)
    (hb : ∃ v ∈ t.vars, v ∈ Subst.keys σ) :
    ∀ k i fuel, i + 1 + k = copies σ.toBindings t → k < fuel →
      substItemLoop fuel t σ i loc =
        some ((List.range' (i+1) k).map fun j => specInstAt σ.toBindings loc j t) := by
  intro k
  induction k with
  | zero =>
    intro i fuel hc hfu
    obtain ⟨n, rfl⟩ : ∃ n, fuel = n + 1 := ⟨fuel - 1, by omega⟩
    have : ¬ Avail σ t.vars i := by rw [avail_iff_copies hb]; omega
    simp [substItemLoop, ((substItem_spec σ loc i).1 t hf).2 this]
  | succ k ih =>
    intro i fuel hc hfu
    obtain ⟨n, rfl⟩ : ∃ n, fuel = n + 1 := ⟨fuel - 1, by omega⟩
    have : Avail σ t.vars i := by rw [avail_iff_copies hb]; omega
    simp only [substItemLoop, ((substItem_spec σ loc i).1 t hf).1 this]
    rw [ih (i+1) n (by omega) (by omega)]
    simp [List.range'_succ]

/-- flag-free elements: one datum per element -/
theorem specElemsAt_flagFree (β : Bindings) (loc : Loc) (i : Nat) :
    ∀ es, Tmpl.flagFreeElems es = true →
      specElemsAt β loc i es = es.map fun e => specInstAt β loc i e.1 := by
  intro es
  induction es with
  | nil => intro _; rfl
  | cons e es ih =>
    obtain ⟨t, b⟩ := e
    intro h
    simp only [Tmpl.flagFreeElems, Bool.and_eq_true, Bool.not_eq_true'] at h
    obtain ⟨⟨rfl, -⟩, h3⟩ := h
    simp [specElemsAt, ih h3]

/-- **substitution refines instantiation**: on a well-formed template, with more fuel than the
longest sequence of further matches in the table, `subst` yields the declarative instantiation
under the bindings the table represents -/
theorem subst_spec (σ : Subst) (loc : Loc) (fuel : Nat)
    (hfu : ∀ e ∈ σ, e.2.2.length < fuel) :
    (∀ t, t.wf (Subst.keys σ) = true →
      subst fuel t σ loc = some (specInstAt σ.toBindings loc 0 t)) ∧
    (∀ es, Tmpl.wfElems (Subst.keys σ) es = true →
      substElems fuel es σ loc = some (specElemsAt σ.toBindings loc 0 es)) := by
  apply Tmpl.ind
  · intro es ih h
    simp only [Tmpl.wf] at h
    simp [subst, specInstAt, ih h]
  · intro es ih h
    simp only [Tmpl.wf] at h
    simp [subst, specInstAt, ih h]
  · intro v _
    simp only [subst, specInstAt, Subst.lookup_toBindings]
    cases σ.get? v <;> simp
  · intro p _; rfl
  · intro _; rfl
  · intro t b rest iht ihr h
    cases b with
    | false =>
      simp only [Tmpl.wfElems, Bool.and_eq_true] at h
      simp [substElems, specElemsAt, iht h.1, ihr h.2]
    | true =>
      simp only [Tmpl.wfElems, Bool.and_eq_true, List.any_eq_true, List.contains_iff_mem] at h
      obtain ⟨⟨hff, hb⟩, hr⟩ := h
      -- the first copy: a flag-free template is well-formed
      have hwf : ∀ bound, t.wf bound = true := by
        intro bound
        have := (Tmpl.ind (P := fun t => t.flagFree = true → t.wf bound = true)
          (Q := fun es => Tmpl.flagFreeElems es = true → Tmpl.wfElems bound es = true)
          (fun es ih h => by simp only [Tmpl.flagFree] at h; simpa [Tmpl.wf] using ih h)
          (fun es ih h => by simp only [Tmpl.flagFree] at h; simpa [Tmpl.wf] using ih h)
          (fun _ _ => rfl) (fun _ _ => rfl) (fun _ => rfl)
          (fun t b rest iht ihr h => by
            simp only [Tmpl.flagFreeElems, Bool.and_eq_true, Bool.not_eq_true'] at h
            obtain ⟨⟨rfl, h2⟩, h3⟩ := h
            simp [Tmpl.wfElems, iht h2, ihr h3])).1 t
        exact this hff
      obtain ⟨v, hv, hk⟩ := hb
      have hb' : ∃ v ∈ t.vars, v ∈ Subst.keys σ := ⟨v, hv, hk⟩
      have hpos := copies_pos hb'
      have hle : copies σ.toBindings t ≤ fuel := by
        have := Subst.get?_isSome_iff.2 hk
        cases hg : σ.get? v with
        | none => simp [hg] at this
        | some x =>
          have h1 := copies_le hv hg
          have h2 := hfu (v, x) (Subst.get?_mem hg)
          simp only at h2; omega
      have hloop := substItemLoop_spec (loc := loc) hff hb' (copies σ.toBindings t - 1) 0 fuel
        (by omega) (by omega)
      simp only [substElems, specElemsAt, iht (hwf _), hloop, ihr hr]
      have : List.range (copies σ.toBindings t) =
          0 :: List.range' 1 (copies σ.toBindings t - 1) := by
        rw [List.range_eq_range']
        obtain ⟨c, hc⟩ : ∃ c, copies σ.toBindings t = c + 1 := ⟨_, (Nat.succ_pred_eq_of_pos hpos).symm⟩
        rw [hc]; simp [List.range'_succ]
      rw [this]
      simp

/-! ## The item sequences are no longer than the datum is large -/

theorem zipB_len {β β' : Bindings} {N M : Nat} (h : ∀ e ∈ β, e.2.length ≤ N)
    (h' : ∀ e ∈ β', e.2.length ≤ M) : ∀ e ∈ zipB β β', e.2.length ≤ N + M := by
  intro e he
  simp only [zipB, List.mem_map] at he
  obtain ⟨e0, he0, rfl⟩ := he
  have h1 := h e0 he0
  simp only [List.length_append]
  cases hl : β'.lookup e0.1 with
  | none => simp only [Option.getD_none, List.length_nil]; omega
  | some ms =>
    have : (e0.1, ms) ∈ β' := by
      clear h'
      induction β' with
      | nil => simp at hl
      | cons x xs ih =>
        rw [List.lookup_cons] at hl
        split at hl
        · rename_i hk; cases hl
          have : e0.1 = x.1 := by simpa using hk
          simp [this]
        · simp [ih hl]
    have := h' _ this
    simp only [Option.getD_some] at this ⊢; omega

theorem foldl_zipB_len {m : Datum → Option Bindings}
    (ds : List Datum) (ih : ∀ d ∈ ds, ∀ β, m d = some β → ∀ e ∈ β, e.2.length ≤ d.size) :
    ∀ (βs : List Bindings) (acc : Bindings) (N : Nat), mapOpt m ds = some βs →
      (∀ e ∈ acc, e.2.length ≤ N) → ∀ e ∈ βs.foldl zipB acc, e.2.length ≤ N + Datum.sizeList ds := by
  induction ds with
  | nil =>
    intro βs acc N h hacc
    simp [mapOpt] at h; subst h
    simpa [Datum.sizeList] using hacc
  | cons d ds ihds =>
    intro βs acc N h hacc
    obtain ⟨β, βs', hβ, hβs, rfl⟩ := mapOpt_cons_some.1 h
    simp only [List.foldl_cons, Datum.sizeList]
    have := ihds (fun d' hd' => ih d' (by simp [hd'])) βs' (zipB acc β) (N + d.size) hβs
      (zipB_len hacc (ih d (by simp) β hβ))
    intro e he
    have := this e he
    omega

theorem specRun_len {m : Datum → Option Bindings} {ds β}
    (ih : ∀ d ∈ ds, ∀ β, m d = some β → ∀ e ∈ β, e.2.length ≤ d.size)
    (h : specRun m (some ds) = some β) : ∀ e ∈ β, e.2.length ≤ Datum.sizeList ds := by
  obtain ⟨d1, ds', β1, βs, rfl, h1, h2, rfl⟩ := specRun_some h
  have := foldl_zipB_len ds' (fun d hd => ih d (by simp [hd])) βs β1 d1.size h2
    (ih d1 (by simp) β1 h1)
  simpa [Datum.sizeList] using this

theorem _root_.Ruschm.Datum.sizeList_spine_le (d : Datum) : Datum.sizeList d.spine.1 ≤ d.size := by
  have := d.spine_size; omega

theorem specMatch_len_aux (lits : List String) :
    (∀ p, ∀ d β, specMatch lits p d = some β → ∀ e ∈ β, e.2.length ≤ d.size) ∧
    (∀ ps, ∀ ds β, specMatchList lits ps ds = some β → ∀ e ∈ β, e.2.length ≤ Datum.sizeList ds) := by
  apply Pat.ind
  · intro d β h; simp [specMatch] at h; subst h; simp
  · intro d β h; simp [specMatch] at h
  · intro a r iha ihr d β h
    simp only [specMatch] at h
    by_cases he : r.isEllTail = true
    · simp only [he, if_true] at h
      rw [properElems_eq_spine] at h
      cases hd : d.spine.2 with
      | some _ => simp [hd, specRun] at h
      | none =>
        simp only [hd] at h
        intro e hm
        have := specRun_len (fun d _ β hβ => iha d β hβ) h e hm
        have := d.sizeList_spine_le; omega
    · simp only [he, Bool.false_eq_true, if_false] at h
      cases d <;> simp at h
      rename_i x y l
      cases h1 : specMatch lits a x <;> cases h2 : specMatch lits r y <;> simp [h1, h2] at h
      subst h
      intro e hm
      simp only [Datum.size]
      rcases List.mem_append.1 hm with hm | hm
      · have := iha _ _ h1 e hm; omega
      · have := ihr _ _ h2 e hm; omega
  · intro d β h; cases d <;> simp [specMatch] at h; subst h; simp
  · intro xs ih d β h
    cases d <;> simp [specMatch] at h
    intro e hm
    have := ih _ _ h e hm
    simp only [Datum.size]; omega
  · intro v d β h
    simp only [specMatch] at h
    cases hv : lits.contains v
    · simp only [hv, Bool.false_eq_true, if_false, Option.some.injEq] at h; subst h
      intro e hm; simp at hm; subst hm
      have := d.size_pos; simp; omega
    · simp only [hv, if_true] at h
      have : β = [] := by
        cases d <;> simp at h
        exact h.2
      subst this; simp
  · intro q d β h
    have : β = [] := by
      cases d <;> simp [specMatch] at h
      exact h.2
    subst this; simp
  · intro ds β h
    cases ds <;> simp [specMatchList] at h
    subst h; simp
  · intro p ps ihp ihps ds β h
    simp only [specMatchList] at h
    by_cases he : Pat.isEllOnly ps = true
    · simp only [he, if_true] at h
      exact specRun_len (fun d _ β hβ => ihp d β hβ) h
    · simp only [he, Bool.false_eq_true, if_false] at h
      cases ds <;> simp at h
      rename_i x y
      cases h1 : specMatch lits p x <;> cases h2 : specMatchList lits ps y <;> simp [h1, h2] at h
      subst h
      intro e hm
      simp only [Datum.sizeList]
      rcases List.mem_append.1 hm with hm | hm
      · have := ihp _ _ h1 e hm; omega
      · have := ihps _ _ h2 e hm; omega

theorem specMatch_len {lits p d β} (h : specMatch lits p d = some β) :
    ∀ e ∈ β, e.2.length ≤ d.size := (specMatch_len_aux lits).1 p d β h

/-! ## The ellipsis test of `transform`, and termination of `subst` for all templates -/

/-- what `transform` does with the template of the rule that matched with table `σ`: a flagged
sub-template that mentions no pattern variable is a syntax error (`UnexpectedTemplate`), else the
template is filled -/
def fill (fuel : Nat) (t : Tmpl) (σ : Subst) (loc : Loc) : Except SErr Datum :=
  if ellipsisOk σ t then
    match subst fuel t σ loc with
    | some d => .ok d
    | none => .error (.fuel, none)
  else .error (.syntax, none)

/-- one step of `transformRules` -/
theorem transformRules_cons {fuel lits p t rest use} :
    transformRules fuel lits ((p, t) :: rest) use =
      match matchDatum fuel lits p use [] with
      | .error e => .error e
      | .ok (true, σ) => fill fuel t σ use.loc
      | .ok (false, _) => transformRules fuel lits rest use := by
  simp only [transformRules, bind, Except.bind, fill]
  cases matchDatum fuel lits p use [] with
  | error e => rfl
  | ok r =>
    obtain ⟨b, σ⟩ := r
    cases b
    · rfl
    · cases he : ellipsisOk σ t
      · simp [he]
      · simp only [he, if_true, Bool.not_true, Bool.false_eq_true, if_false]
        cases subst fuel t σ use.loc <;> rfl

theorem mentionsVar_iff (σ : Subst) :
    (∀ t, mentionsVar σ t = true ↔ ∃ v ∈ t.vars, v ∈ Subst.keys σ) ∧
    (∀ es, mentionsVarElems σ es = true ↔ ∃ v ∈ Tmpl.varsElems es, v ∈ Subst.keys σ) := by
  apply Tmpl.ind
  · intro es ih; simpa [mentionsVar, Tmpl.vars] using ih
  · intro es ih; simpa [mentionsVar, Tmpl.vars] using ih
  · intro v; simp [mentionsVar, Tmpl.vars, Subst.get?_isSome_iff]
  · intro p; simp [mentionsVar, Tmpl.vars]
  · simp [mentionsVarElems, Tmpl.varsElems]
  · intro t b rest iht ihr
    simp only [mentionsVarElems, Tmpl.varsElems, Bool.or_eq_true, iht, ihr, List.mem_append]
    constructor
    · rintro (⟨v, h1, h2⟩ | ⟨v, h1, h2⟩)
      · exact ⟨v, .inl h1, h2⟩
      · exact ⟨v, .inr h1, h2⟩
    · rintro ⟨v, h1 | h1, h2⟩
      · exact .inl ⟨v, h1, h2⟩
      · exact .inr ⟨v, h1, h2⟩

/-- a template without flagged element passes the ellipsis test -/
theorem ellipsisOk_of_flagFree (σ : Subst) :
    (∀ t, t.flagFree = true → ellipsisOk σ t = true) ∧
    (∀ es, Tmpl.flagFreeElems es = true → ellipsisOkElems σ es = true) := by
  apply Tmpl.ind
  · intro es ih h; simp only [Tmpl.flagFree] at h; simpa [ellipsisOk] using ih h
  · intro es ih h; simp only [Tmpl.flagFree] at h; simpa [ellipsisOk] using ih h
  · intro _ _; rfl
  · intro _ _; rfl
  · intro _; rfl
  · intro t b rest iht ihr h
    simp only [Tmpl.flagFreeElems, Bool.and_eq_true, Bool.not_eq_true'] at h
    obtain ⟨⟨rfl, h2⟩, h3⟩ := h
    simp [ellipsisOkElems, iht h2, ihr h3]

/-- a well-formed template passes the ellipsis test of `transform` -/
theorem ellipsisOk_of_wf (σ : Subst) :
    (∀ t, t.wf (Subst.keys σ) = true → ellipsisOk σ t = true) ∧
    (∀ es, Tmpl.wfElems (Subst.keys σ) es = true → ellipsisOkElems σ es = true) := by
  apply Tmpl.ind
  · intro es ih h; simp only [Tmpl.wf] at h; simpa [ellipsisOk] using ih h
  · intro es ih h; simp only [Tmpl.wf] at h; simpa [ellipsisOk] using ih h
  · intro _ _; rfl
  · intro _ _; rfl
  · intro _; rfl
  · intro t b rest iht ihr h
    cases b with
    | false =>
      simp only [Tmpl.wfElems, Bool.and_eq_true] at h
      simp [ellipsisOkElems, iht h.1, ihr h.2]
    | true =>
      simp only [Tmpl.wfElems, Bool.and_eq_true, List.any_eq_true, List.contains_iff_mem] at h
      obtain ⟨⟨hff, hb⟩, hr⟩ := h
      have hm : mentionsVar σ t = true := ((mentionsVar_iff σ).1 t).2 hb
      simp [ellipsisOkElems, hm, (ellipsisOk_of_flagFree σ).1 t hff, ihr hr]

/-- no `i`-th further copy when some bound variable has no `i`-th further match — for ALL
templates (the copies ignore nested ellipses) -/
theorem substItem_none (σ : Subst) (loc : Loc) (i : Nat) :
    (∀ t, ¬ Avail σ t.vars i → substItem t σ i loc = none) ∧
    (∀ es, ¬ Avail σ (Tmpl.varsElems es) i → substItems es σ i loc = none) := by
  apply Tmpl.ind
  · intro es ih h; simp only [Tmpl.vars] at h; simp [substItem, ih h]
  · intro es ih h; simp only [Tmpl.vars] at h; simp [substItem, ih h]
  · intro v h
    simp only [Tmpl.vars, Avail, List.mem_singleton, forall_eq] at h
    simp only [substItem]
    cases hg : σ.get? v with
    | none => simp [hg] at h
    | some x =>
      obtain ⟨f, more⟩ := x
      simp only [hg, Option.some.injEq, forall_eq'] at h
      simp only
      cases hm : more.isEmpty
      · simp only [Bool.false_eq_true, if_false, List.getElem?_eq_none_iff]; omega
      · simp
  · intro p h; exact absurd (fun v hv => by simp [Tmpl.vars] at hv) h
  · intro h; exact absurd (fun v hv => by simp [Tmpl.varsElems] at hv) h
  · intro t b rest iht ihr h
    simp only [Tmpl.varsElems, Avail.append] at h
    simp only [substItems]
    by_cases ha : Avail σ t.vars i
    · have hb : ¬ Avail σ (Tmpl.varsElems rest) i := fun hb => h ⟨ha, hb⟩
      rw [ihr hb]; cases substItem t σ i loc <;> rfl
    · rw [iht ha]

/-- the copy loop ends as soon as a bound variable runs out of further matches -/
theorem substItemLoop_isSome {σ : Subst} {t : Tmpl} {loc : Loc} {v x}
    (hv : v ∈ t.vars) (hx : σ.get? v = some x) :
    ∀ k i fuel, x.2.length ≤ i + k → k < fuel → (substItemLoop fuel t σ i loc).isSome = true := by
  intro k
  induction k with
  | zero =>
    intro i fuel hk hfu
    obtain ⟨n, rfl⟩ : ∃ n, fuel = n + 1 := ⟨fuel - 1, by omega⟩
    have : ¬ Avail σ t.vars i := fun h => by have := h v hv x hx; omega
    simp [substItemLoop, (substItem_none σ loc i).1 t this]
  | succ k ih =>
    intro i fuel hk hfu
    obtain ⟨n, rfl⟩ : ∃ n, fuel = n + 1 := ⟨fuel - 1, by omega⟩
    simp only [substItemLoop]
    cases substItem t σ i loc with
    | none => rfl
    | some d =>
      have := ih (i + 1) n (by omega) (by omega)
      cases hl : substItemLoop n t σ (i + 1) loc with
      | none => simp [hl] at this
      | some ds => rfl

/-- **`subst` terminates on every template that passes the ellipsis test**, with more fuel than
the longest sequence of further matches in the table — no class hypothesis -/
theorem subst_isSome (σ : Subst) (loc : Loc) (fuel : Nat)
    (hfu : ∀ e ∈ σ, e.2.2.length < fuel) :
    (∀ t, ellipsisOk σ t = true → (subst fuel t σ loc).isSome = true) ∧
    (∀ es, ellipsisOkElems σ es = true → (substElems fuel es σ loc).isSome = true) := by
  apply Tmpl.ind
  · intro es ih h
    simp only [ellipsisOk] at h
    have := ih h
    simp only [subst]
    cases hs : substElems fuel es σ loc
    · rw [hs] at this; cases this
    · rfl
  · intro es ih h
    simp only [ellipsisOk] at h
    have := ih h
    simp only [subst]
    cases hs : substElems fuel es σ loc
    · rw [hs] at this; cases this
    · rfl
  · intro v _; simp only [subst]; cases σ.get? v <;> rfl
  · intro p _; rfl
  · intro _; rfl
  · intro t b rest iht ihr h
    simp only [ellipsisOkElems, Bool.and_eq_true, Bool.or_eq_true, Bool.not_eq_true'] at h
    obtain ⟨⟨hflag, hok⟩, hrest⟩ := h
    have h1 := iht hok
    have h2 := ihr hrest
    cases b with
    | false =>
      simp only [substElems]
      cases hs : subst fuel t σ loc <;> cases hr : substElems fuel rest σ loc <;> simp_all
    | true =>
      have hm : mentionsVar σ t = true := by simpa using hflag
      obtain ⟨v, hv, hk⟩ := ((mentionsVar_iff σ).1 t).1 hm
      have hsome := Subst.get?_isSome_iff.2 hk
      cases hg : σ.get? v with
      | none => simp [hg] at hsome
      | some x =>
        have hlen := hfu (v, x) (Subst.get?_mem hg)
        have h3 := substItemLoop_isSome (loc := loc) hv hg x.2.length 0 fuel (by omega) hlen
        simp only [substElems]
        cases hs : subst fuel t σ loc <;> cases hl : substItemLoop fuel t σ 0 loc <;>
          cases hr : substElems fuel rest σ loc <;> simp_all

/-! ## A supported rule: match, then fill -/

/-- the table of a successful match of a supported rule's pattern fills the rule's template as
the declarative instantiation says -/
theorem subst_of_match {lits p t d β fuel loc} (hr : SupportedRule lits (p, t) = true)
    (hm : specMatch lits p d = some β) (hfu : d.size ≤ fuel) :
    subst fuel t β.toSubst loc = some (specInst t β loc) := by
  simp only [SupportedRule, SupportedTmpl, Bool.and_eq_true] at hr
  have hwf := (Tmpl.ok_wf _ _).1 t hr.2
  have hk : Subst.keys β.toSubst = p.vars lits := by
    rw [Bindings.keys_toSubst, specMatch_keys hm]
  have hne := specMatch_nonEmpty hm
  have hlen := specMatch_len hm
  have := (subst_spec β.toSubst loc fuel (by
    intro e he
    simp only [Bindings.toSubst, List.mem_map] at he
    obtain ⟨e0, he0, rfl⟩ := he
    have h1 := hlen e0 he0
    have h2 := hne e0 he0
    simp only [List.length_tail]
    have : 0 < e0.2.length := List.length_pos_iff.2 h2
    omega)).1 t (hk ▸ hwf)
  rw [this, Bindings.toBindings_toSubst hne, specInst]

/-- after a successful match of a supported rule's pattern, the template passes the ellipsis
test of `transform`: every ellipsis sub-template has a pattern variable, a key of the table -/
theorem ellipsisOk_of_match {lits p t d β} (hr : SupportedRule lits (p, t) = true)
    (hm : specMatch lits p d = some β) : ellipsisOk β.toSubst t = true := by
  simp only [SupportedRule, SupportedTmpl, Bool.and_eq_true] at hr
  have hwf := (Tmpl.ok_wf _ _).1 t hr.2
  have hk : Subst.keys β.toSubst = p.vars lits := by
    rw [Bindings.keys_toSubst, specMatch_keys hm]
  exact (ellipsisOk_of_wf β.toSubst).1 t (hk ▸ hwf)

/-- filling the template of a supported rule after a successful match -/
theorem fill_of_match {lits p t d β fuel loc} (hr : SupportedRule lits (p, t) = true)
    (hm : specMatch lits p d = some β) (hfu : d.size ≤ fuel) :
    fill fuel t β.toSubst loc = .ok (specInst t β loc) := by
  simp [fill, ellipsisOk_of_match hr hm, subst_of_match hr hm hfu]

/-- **the expander refines the declarative expander** on supported rule sets -/
theorem transformRules_eq_spec {lits fuel use} :
    ∀ rules : List (Pat × Tmpl), (∀ r ∈ rules, SupportedRule lits r = true) →
      (∀ r ∈ rules, r.1.size + use.size ≤ fuel) →
      transformRules fuel lits rules use = specTransform lits rules use := by
  intro rules
  induction rules with
  | nil => intro _ _; rfl
  | cons r rules ih =>
    intro hs hf
    obtain ⟨p, t⟩ := r
    have hr := hs (p, t) (by simp)
    have hfr := hf (p, t) (by simp)
    have hsp : Supported lits p = true := by
      simp only [SupportedRule, Bool.and_eq_true] at hr; exact hr.1
    have := matchDatum_eq_spec (n := fuel) (d := use) hsp hfr
    rw [transformRules_cons]
    simp only [specTransform]
    cases hm : specMatch lits p use with
    | some β =>
      simp only [hm] at this
      have hp := p.size_pos
      simp only at hfr
      rw [this]
      simp only [fill_of_match hr hm (show use.size ≤ fuel by omega)]
    | none =>
      simp only [hm] at this
      obtain ⟨σ', h'⟩ := this
      rw [h']
      exact ih (fun r hr => hs r (by simp [hr])) (fun r hr => hf r (by simp [hr]))

/-- the declarative expander yields the instantiation of the first matching rule, or the syntax
error when no rule matches — nothing else -/
theorem specTransform_cases (lits : List String) (rules : List (Pat × Tmpl)) (use : Datum) :
    (∃ pre p t post β, rules = pre ++ (p, t) :: post ∧
      (∀ q ∈ pre, specMatch lits q.1 use = none) ∧ specMatch lits p use = some β ∧
      specTransform lits rules use = .ok (specInst t β use.loc)) ∨
    ((∀ q ∈ rules, specMatch lits q.1 use = none) ∧
      specTransform lits rules use = .error (.syntax, none)) := by
  induction rules with
  | nil => exact .inr ⟨fun _ h => (by cases h), rfl⟩
  | cons r rules ih =>
    obtain ⟨p, t⟩ := r
    cases hm : specMatch lits p use with
    | some β =>
      exact .inl ⟨[], p, t, rules, β, rfl, fun _ h => (by cases h), hm, by simp [specTransform, hm]⟩
    | none =>
      rcases ih with ⟨pre, p', t', post, β, h1, h2, h3, h4⟩ | ⟨h1, h2⟩
      · refine .inl ⟨(p, t) :: pre, p', t', post, β, by simp [h1], ?_, h3, by simp [specTransform, hm, h4]⟩
        intro q hq
        simp only [List.mem_cons] at hq
        rcases hq with rfl | hq
        · exact hm
        · exact h2 q hq
      · refine .inr ⟨?_, by simp [specTransform, hm, h2]⟩
        intro q hq
        simp only [List.mem_cons] at hq
        rcases hq with rfl | hq
        · exact hm
        · exact h1 q hq

/-- a sub-template without variable makes the copy loop run until the fuel is gone -/
theorem substItemLoop_prim (q : Prim) (loc : Loc) :
    ∀ fuel i, substItemLoop fuel (.prim q) [] i loc = none := by
  intro fuel
  induction fuel with
  | zero => intro i; rfl
  | succ n ih => intro i; simp [substItemLoop, substItem, ih]

end Ruschm.Macro

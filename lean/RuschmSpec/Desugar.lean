/-
The SURFACE SYNTAX with the nine bundled derived forms, and its structural DESUGARING into the core
abstract syntax (`Expr`, `RuschmModel/Ast.lean`), written from the R7RS definitions of the derived
forms (R7RS 4.2, 7.3) AS `/repo/src/parser/grammar.sld` IMPLEMENTS THEM:

    (begin e₁ …)                    ((lambda () e₁ …))
    (let ((x v) …) b₁ …)            ((lambda (x …) b₁ …) v …)
    (let* () b₁ …)                  (let () b₁ …)
    (let* ((x v)) b₁ …)             (let ((x v)) b₁ …)
    (let* ((x v) (y w) …) b₁ …)     (let ((x v)) (let* ((y w) …) b₁ …))
    (and)  (and a)  (and a b …)     #t   a   (if a (and b …) #f)
    (or)   (or a)   (or a b …)      #f   a   (let ((x a)) (if x x (or b …)))        -- binds `x`
    (when t e₁ …)                   (if t (begin e₁ …))
    (unless t e₁ …)                 (if (not t) (begin e₁ …))
    (cond (else e₁ …))              (begin e₁ …)
    (cond (t => r) c …)             (let ((temp t)) (if temp (r temp) (cond c …)))  -- binds `temp`
    (cond (t) c …)                  (let ((temp t)) (if temp temp (cond c …)))      -- (cond (t)) is t
    (cond (t e₁ …) c …)             (if t (begin e₁ …) (cond c …))
    (case (f a …) c …)              (let ((atom-key (f a …))) (case atom-key c …))  -- binds `atom-key`
    (case k (else => r))            (r k)
    (case k (else e₁ …))            (begin e₁ …)
    (case k ((d …) => r))           (if (not (null? (memv k '(d …)))) (r k))        -- calls `not`, `null?`, `memv`
    (case k ((d …) e₁ …))           (if (memv k '(d …)) (begin e₁ …))
    (case k ((d …) => r) c …)       (if (memv k '(d …)) (r k) (case k c …))
    (case k ((d …) e₁ …) c …)       (if (memv k '(d …)) (begin e₁ …) (case k c …))

(the alternative of the last `if` is absent when there is no further clause).  The expander is NOT
hygienic (a documented open finding): the templates' `x`, `temp`, `atom-key` capture the user's
variables of the same name, and `not`, `null?`, `memv`, `lambda`, `if` … are looked up where the
form is used.  The desugaring below therefore uses exactly these names.

This file imports the abstract syntax and the printer of the core forms only; it does not mention
the transformer or the macro expander.  `RuschmProofs/C05Nesting.lean` proves that the parser's
transformer, re-expanding until no macro use is left, turns the printed form of EVERY `Surf` into
its desugaring.
-/
import RuschmSpec.CoreSyntax
namespace Ruschm.Desugar
open Ruschm Ruschm.CoreSyntax

mutual
/-- expressions of the surface language: the core forms and the nine derived forms, each sub-form
position again a surface expression -/
inductive Surf where
  /-- a variable -/
  | var (x : String)
  /-- a self-evaluating literal: number, string, character, boolean -/
  | lit (p : Prim)
  /-- a vector literal `#(d …)` -/
  | vec (xs : List Datum)
  /-- `(quote d)` -/
  | quote (d : Datum)
  /-- `(if t c)` -/
  | if2 (t c : Surf)
  /-- `(if t c a)` -/
  | if3 (t c a : Surf)
  /-- `(lambda <formals> b₁ …)` -/
  | lambda (fixed : List String) (rest : Option String) (body : List Surf)
  /-- `(set! x e)` -/
  | set (x : String) (e : Surf)
  /-- `(f a …)` -/
  | call (f : Surf) (args : List Surf)
  /-- `(begin e₁ …)` -/
  | begin_ (body : List Surf)
  /-- `(let ((x v) …) b₁ …)` -/
  | let_ (bs : List Bind) (body : List Surf)
  /-- `(let* ((x v) …) b₁ …)` -/
  | letstar (bs : List Bind) (body : List Surf)
  /-- `(and e …)` -/
  | and_ (es : List Surf)
  /-- `(or e …)` -/
  | or_ (es : List Surf)
  /-- `(when t e₁ …)` -/
  | when_ (t : Surf) (body : List Surf)
  /-- `(unless t e₁ …)` -/
  | unless_ (t : Surf) (body : List Surf)
  /-- `(cond clause₁ …)` -/
  | cond_ (cs : List CondClause)
  /-- `(case key clause₁ …)` -/
  | case_ (key : Surf) (cs : List CaseClause)
/-- a binding `(x v)` of `let` / `let*` -/
inductive Bind where
  | mk (x : String) (v : Surf)
/-- the clauses of `cond` -/
inductive CondClause where
  /-- `(t)` -/
  | test (t : Surf)
  /-- `(t => r)` -/
  | arrow (t r : Surf)
  /-- `(t e₁ …)` -/
  | normal (t : Surf) (body : List Surf)
  /-- `(else e₁ …)` -/
  | else_ (body : List Surf)
/-- the clauses of `case` -/
inductive CaseClause where
  /-- `((d …) e₁ …)` -/
  | normal (atoms : List Datum) (body : List Surf)
  /-- `((d …) => r)` -/
  | arrow (atoms : List Datum) (r : Surf)
  /-- `(else e₁ …)` -/
  | else_ (body : List Surf)
  /-- `(else => r)` -/
  | elseArrow (r : Surf)
end

/-! ## the printer: the datum a programmer writes (no source locations) -/

mutual
/-- the datum one writes for the surface expression `s` -/
def print : Surf → Datum
  | .var x => ident x
  | .lit p => .prim p none
  | .vec xs => .vec xs none
  | .quote d => lst [ident "quote", d]
  | .if2 t c => lst [ident "if", print t, print c]
  | .if3 t c a => lst [ident "if", print t, print c, print a]
  | .lambda fixed rest body => lst (ident "lambda" :: formalsD fixed rest :: printList body)
  | .set x e => lst [ident "set!", ident x, print e]
  | .call f args => lst (print f :: printList args)
  | .begin_ body => lst (ident "begin" :: printList body)
  | .let_ bs body => lst (ident "let" :: lst (printBinds bs) :: printList body)
  | .letstar bs body => lst (ident "let*" :: lst (printBinds bs) :: printList body)
  | .and_ es => lst (ident "and" :: printList es)
  | .or_ es => lst (ident "or" :: printList es)
  | .when_ t body => lst (ident "when" :: print t :: printList body)
  | .unless_ t body => lst (ident "unless" :: print t :: printList body)
  | .cond_ cs => lst (ident "cond" :: printCondClauses cs)
  | .case_ k cs => lst (ident "case" :: print k :: printCaseClauses cs)
/-- operands, body forms: one after the other -/
def printList : List Surf → List Datum
  | [] => []
  | s :: ss => print s :: printList ss
/-- `(x v)` -/
def printBind : Bind → Datum
  | .mk x v => lst [ident x, print v]
def printBinds : List Bind → List Datum
  | [] => []
  | b :: bs => printBind b :: printBinds bs
def printCondClause : CondClause → Datum
  | .test t => lst [print t]
  | .arrow t r => lst [print t, ident "=>", print r]
  | .normal t body => lst (print t :: printList body)
  | .else_ body => lst (ident "else" :: printList body)
def printCondClauses : List CondClause → List Datum
  | [] => []
  | c :: cs => printCondClause c :: printCondClauses cs
def printCaseClause : CaseClause → Datum
  | .normal atoms body => lst (lst atoms :: printList body)
  | .arrow atoms r => lst [lst atoms, ident "=>", print r]
  | .else_ body => lst (ident "else" :: printList body)
  | .elseArrow r => lst [ident "else", ident "=>", print r]
def printCaseClauses : List CaseClause → List Datum
  | [] => []
  | c :: cs => printCaseClause c :: printCaseClauses cs
end

/-! ## the core trees the derived forms stand for (all locations `none`) -/

/-- the variable `x` -/
def varE (x : String) : Expr := .sym x none
/-- `(f a …)` -/
def callE (f : Expr) (args : List Expr) : Expr := .call f args none
/-- `(lambda (x …) b₁ …)`, no internal definitions -/
def lamE (names : List String) (body : List Expr) : Expr := .lambda (.mk ⟨names, none⟩ [] body) none
/-- `(if t c)` -/
def if2E (t c : Expr) : Expr := .cond t c none none
/-- `(if t c a)` -/
def if3E (t c a : Expr) : Expr := .cond t c (some a) none
/-- `(let ((x v) …) b₁ …)` = `((lambda (x …) b₁ …) v …)` -/
def letE (names : List String) (vals : List Expr) (body : List Expr) : Expr := callE (lamE names body) vals
/-- `(begin e₁ …)` = `((lambda () e₁ …))`: a call of a procedure without parameters -/
def beginE (body : List Expr) : Expr := letE [] [] body
/-- the boolean literal -/
def boolE (b : Bool) : Expr := .prim (.bool b) none

/-- `(and e …)` -/
def andE : List Expr → Expr
  | [] => boolE true
  | a :: rest => match rest with
    | [] => a
    | _ :: _ => if3E a (andE rest) (boolE false)

/-- `(or e …)`; binds `x` around the remaining operands -/
def orE : List Expr → Expr
  | [] => boolE false
  | a :: rest => match rest with
    | [] => a
    | _ :: _ => letE ["x"] [a] [if3E (varE "x") (varE "x") (orE rest)]

/-- `(let* ((x v) …) b₁ …)`: one nested `let` per binding -/
def letStarE : List (String × Expr) → List Expr → Expr
  | [], body => letE [] [] body
  | (x, a) :: rest, body => match rest with
    | [] => letE [x] [a] body
    | _ :: _ => letE [x] [a] [letStarE rest body]

/-- `(memv k '(d …))` -/
def memvE (key : Expr) (atoms : List Datum) : Expr :=
  callE (varE "memv") [key, .quote (lst atoms) none]

/-- the key of a `case` that the grammar uses as it is: a variable or a literal (every other
expression is a non-empty list, which the first rule of `case` binds to `atom-key`) -/
def atomic : Surf → Bool
  | .var _ | .lit _ | .vec _ => true
  | _ => false

mutual
/-- THE DESUGARING: the core tree the surface expression stands for -/
def desugar : Surf → Expr
  | .var x => varE x
  | .lit p => .prim p none
  | .vec xs => .datum (.vec xs none) none
  | .quote d => .quote d none
  | .if2 t c => if2E (desugar t) (desugar c)
  | .if3 t c a => if3E (desugar t) (desugar c) (desugar a)
  | .lambda fixed rest body => .lambda (.mk ⟨fixed, rest⟩ [] (desugarList body)) none
  | .set x e => .assign x (desugar e) none
  | .call f args => callE (desugar f) (desugarList args)
  | .begin_ body => beginE (desugarList body)
  | .let_ bs body => letE ((desugarBinds bs).map (·.1)) ((desugarBinds bs).map (·.2)) (desugarList body)
  | .letstar bs body => letStarE (desugarBinds bs) (desugarList body)
  | .and_ es => andE (desugarList es)
  | .or_ es => orE (desugarList es)
  | .when_ t body => if2E (desugar t) (beginE (desugarList body))
  | .unless_ t body => if2E (callE (varE "not") [desugar t]) (beginE (desugarList body))
  | .cond_ cs => desugarCond cs
  | .case_ k cs =>
    if atomic k then desugarCase (desugar k) cs
    else letE ["atom-key"] [desugar k] [desugarCase (varE "atom-key") cs]
def desugarList : List Surf → List Expr
  | [] => []
  | s :: ss => desugar s :: desugarList ss
/-- the bindings: names and desugared right-hand sides -/
def desugarBinds : List Bind → List (String × Expr)
  | [] => []
  | .mk x v :: bs => (x, desugar v) :: desugarBinds bs
/-- `(cond clause₁ …)`; `temp` is bound around the receiver and the remaining clauses.  (`(cond)` is
not a form: `Surf.ok` excludes it.) -/
def desugarCond : List CondClause → Expr
  | [] => boolE false
  | .else_ body :: _ => beginE (desugarList body)
  | .test t :: rest => match rest with
    | [] => desugar t
    | _ :: _ => letE ["temp"] [desugar t] [if3E (varE "temp") (varE "temp") (desugarCond rest)]
  | .arrow t r :: rest => match rest with
    | [] => letE ["temp"] [desugar t] [if2E (varE "temp") (callE (desugar r) [varE "temp"])]
    | _ :: _ =>
      letE ["temp"] [desugar t] [if3E (varE "temp") (callE (desugar r) [varE "temp"]) (desugarCond rest)]
  | .normal t body :: rest => match rest with
    | [] => if2E (desugar t) (beginE (desugarList body))
    | _ :: _ => if3E (desugar t) (beginE (desugarList body)) (desugarCond rest)
/-- the clauses of a `case` whose key expression is `key` (a variable or a literal).  A last
`=>` clause tests `(not (null? (memv …)))`, the others `(memv …)`.  (`(case k)` is not a form.) -/
def desugarCase (key : Expr) : List CaseClause → Expr
  | [] => boolE false
  | .elseArrow r :: _ => callE (desugar r) [key]
  | .else_ body :: _ => beginE (desugarList body)
  | .arrow atoms r :: rest => match rest with
    | [] => if2E (callE (varE "not") [callE (varE "null?") [memvE key atoms]]) (callE (desugar r) [key])
    | _ :: _ => if3E (memvE key atoms) (callE (desugar r) [key]) (desugarCase key rest)
  | .normal atoms body :: rest => match rest with
    | [] => if2E (memvE key atoms) (beginE (desugarList body))
    | _ :: _ => if3E (memvE key atoms) (beginE (desugarList body)) (desugarCase key rest)
end

/-! ## which surface expressions are programs of this grammar

The side condition of the nesting theorem, a decidable predicate. -/

/-- the keywords of the nine bundled derived forms -/
def derivedKeywords : List String := ["begin", "let", "let*", "cond", "case", "and", "or", "when", "unless"]

/-- an expression in operator position is not a VARIABLE spelled like a special form or a derived
form (`(if x)` written as a call of the variable `if` would be read as a conditional) -/
def headOk : Surf → Bool
  | .var x => !keywords.contains x && !derivedKeywords.contains x
  | _ => true

/-- `s` is the variable `name` -/
def isVar (name : String) : Surf → Bool
  | .var x => x == name
  | _ => false

/-- a clause body is not of the shape `=> r` (it would be read as a receiver clause) -/
def arrowFree : List Surf → Bool
  | [a, _] => !isVar "=>" a
  | _ => true

def isElseCond : CondClause → Bool
  | .else_ _ => true
  | _ => false

def isElseCase : CaseClause → Bool
  | .else_ _ | .elseArrow _ => true
  | _ => false

mutual
/-- the surface expression is a program of this grammar:
* operators of calls and the receivers of `=>` clauses are not variables named like a special form
  or a derived form (`headOk`); variables anywhere else are not restricted,
* every body (of `lambda`, `let`, `let*`, `begin`, `when`, `unless`, of a clause) has at least one
  expression (this expander's `x ...` needs at least one item),
* `cond` and `case` have at least one clause, an `else` clause is the last one, the datum list of a
  `case` clause is not empty, the test of a `(t => r)` / `(t e₁ …)` clause of `cond` is not the
  variable `else`, and a clause body is not of the shape `=> r`. -/
def ok : Surf → Bool
  | .var _ | .lit _ | .vec _ | .quote _ => true
  | .if2 t c => ok t && ok c
  | .if3 t c a => ok t && ok c && ok a
  | .lambda _ _ body => okList body && !body.isEmpty
  | .set _ e => ok e
  | .call f args => headOk f && ok f && okList args
  | .begin_ body => okList body && !body.isEmpty
  | .let_ bs body => okBinds bs && okList body && !body.isEmpty
  | .letstar bs body => okBinds bs && okList body && !body.isEmpty
  | .and_ es => okList es
  | .or_ es => okList es
  | .when_ t body => ok t && okList body && !body.isEmpty
  | .unless_ t body => ok t && okList body && !body.isEmpty
  | .cond_ cs => okCond cs && !cs.isEmpty
  | .case_ k cs => ok k && okCase cs && !cs.isEmpty
def okList : List Surf → Bool
  | [] => true
  | s :: ss => ok s && okList ss
def okBinds : List Bind → Bool
  | [] => true
  | .mk _ v :: bs => ok v && okBinds bs
def okCondClause : CondClause → Bool
  | .test t => ok t
  | .arrow t r => ok t && !isVar "else" t && headOk r && ok r
  | .normal t body => ok t && !isVar "else" t && okList body && !body.isEmpty && arrowFree body
  | .else_ body => okList body && !body.isEmpty
def okCond : List CondClause → Bool
  | [] => true
  | c :: cs => okCondClause c && (!isElseCond c || cs.isEmpty) && okCond cs
def okCaseClause : CaseClause → Bool
  | .normal atoms body => !atoms.isEmpty && okList body && !body.isEmpty && arrowFree body
  | .arrow atoms r => !atoms.isEmpty && headOk r && ok r
  | .else_ body => okList body && !body.isEmpty && arrowFree body
  | .elseArrow r => headOk r && ok r
def okCase : List CaseClause → Bool
  | [] => true
  | c :: cs => okCaseClause c && (!isElseCase c || cs.isEmpty) && okCase cs
end

/-! ## fuel

The transformer's fuel is a depth bound: one unit per nesting level of the datum and one per
expansion step on the way.  `cost s` is a (generous) bound for the printed form of `s`, linear in its
size. -/

mutual
def cost : Surf → Nat
  | .var _ | .lit _ | .vec _ | .quote _ => 1
  | .if2 t c => cost t + cost c + 2
  | .if3 t c a => cost t + cost c + cost a + 2
  | .lambda _ _ body => costList body + 3
  | .set _ e => cost e + 2
  | .call f args => cost f + costList args + 3
  | .begin_ body => costList body + 7
  | .let_ bs body => costBinds bs + costList body + 7
  | .letstar bs body => costBinds bs + costList body + 9
  | .and_ es => costList es + 2
  | .or_ es => costList es + 2
  | .when_ t body => cost t + costList body + 10
  | .unless_ t body => cost t + costList body + 16
  | .cond_ cs => costCond cs + 1
  | .case_ k cs => cost k + costCase cs + 12
/-- every item of a list adds its own cost and a constant that covers the steps of every form the
list can stand in (operands, bodies, the operands of `and` / `or`) -/
def costList : List Surf → Nat
  | [] => 0
  | s :: ss => cost s + costList ss + 15
def costBinds : List Bind → Nat
  | [] => 0
  | .mk _ v :: bs => cost v + costBinds bs + 15
def costCond : List CondClause → Nat
  | [] => 0
  | .test t :: cs => cost t + costCond cs + 15
  | .arrow t r :: cs => cost t + cost r + costCond cs + 20
  | .normal t body :: cs => cost t + costList body + costCond cs + 10
  | .else_ body :: cs => costList body + costCond cs + 8
def costCase : List CaseClause → Nat
  | [] => 0
  | .normal _ body :: cs => costList body + costCase cs + 20
  | .arrow _ r :: cs => cost r + costCase cs + 31
  | .else_ body :: cs => costList body + costCase cs + 8
  | .elseArrow r :: cs => cost r + costCase cs + 7
end

end Ruschm.Desugar

/-
Property C11, continued — the procedures of `base.sld` that `C11.lean` / `C11Errors.lean` leave out:
`head`, `atom?`, `vector-equal-from?`, `equal?` ON VECTORS (corollaries of `C11.equal_spec`, whose
spec function `equalS` already descends into vectors), and `filter`.

Vocabulary as in `C11.lean`: `libProc name b` is the closure over frame `b` of the lambda the MODEL's
transformer makes of the definition of `name` in the GENERATED datum of `base.sld`; `LibFrame σ b`;
`Applies σ p args env r σ'`; `σ.Ext σ'`; `Raises` (an error, and never a value); `ProcArg` (what a
higher-order library procedure needs from its procedure argument). Spec functions and the relation
`FilterM` are in `RuschmSpec/ListMore.lean`; helper lemmas in `RuschmProofs/ListMoreLemmas.lean`.

FINDING (see `filter_spec`, `filter_rejecting_raises`): the `else` clause of `filter` in `base.sld`
calls `filterb`, a name nothing defines. `(filter pred lst)` therefore returns only when `pred`
holds of EVERY element (the result is then `List.filter`, i.e. the list itself); at the first
element `pred` rejects it raises the unbound-variable error. (`filter` and `vector-equal-from?` are
also not in the export list of `(scheme base)`: a program importing the library cannot name them;
the theorems are about the closures in the library frame.)
-/
import RuschmProofs.C11
import RuschmProofs.ListMoreLemmas

namespace Ruschm.C11More
open Ruschm Ruschm.Eval Ruschm.ListSpec Ruschm.ListLib Ruschm.C11

section lib
variable {σ : Store} {b : Nat}

/-! ## `head`, `atom?` -/

/-- `(head x)` is `(car x)`: the first component of a pair; on `()` and on any other non-pair the
type error of `car` (`carS`); the store is only extended by frames -/
theorem head_spec (h : LibFrame σ b) (x : Value) (env : Nat) :
    ∃ σ', Applies σ (libProc "head" b) [x] env (carS x) σ' ∧ σ.Ext σ' :=
  papp_head b x σ env h rfl

example : ∃ σ', Applies libStore (libProc "head" 0) [l123] 0 (.ok (num 1)) σ' ∧ libStore.Ext σ' :=
  head_spec libFrame_libStore l123 0
/-- `(head '())`: an error, not a value -/
example : ∃ σ', Applies libStore (libProc "head" 0) [.nil] 0 (.error typeErr) σ' ∧ libStore.Ext σ' :=
  head_spec libFrame_libStore .nil 0

/-- the error side of `head`, explicitly: on a non-pair it raises the type error and never returns -/
theorem head_nonpair (h : LibFrame σ b) (x : Value) (hx : isPair x = false) (env : Nat) :
    Raises σ (libProc "head" b) [x] env typeErr := by
  have := papp_head b x σ env h rfl
  rw [carS_nonpair hx] at this
  exact .of_appliesE this

example : Raises libStore (libProc "head" 0) [num 5] 0 typeErr := head_nonpair libFrame_libStore _ rfl 0

/-- `(atom? x)` is `#t` exactly when `x` is neither a pair nor the empty list (`atomS`); it never
raises an error -/
theorem atom_spec (h : LibFrame σ b) (x : Value) (env : Nat) :
    ∃ σ', Applies σ (libProc "atom?" b) [x] env (.ok (.bool (atomS x))) σ' ∧ σ.Ext σ' :=
  papp_atom b x σ env h rfl

example : atomS (num 5) = true ∧ atomS (.str "a") = true ∧ atomS (.vec 0) = true ∧
    atomS .nil = false ∧ atomS l123 = false ∧ atomS (.pair (num 1) (num 2)) = false :=
  ⟨rfl, rfl, rfl, rfl, rfl, rfl⟩
example : ∃ σ', Applies libStore (libProc "atom?" 0) [l123] 0 (.ok (.bool false)) σ' ∧ libStore.Ext σ' :=
  atom_spec libFrame_libStore l123 0
example : ∃ σ', Applies libStore (libProc "atom?" 0) [.sym "a"] 0 (.ok (.bool true)) σ' ∧ libStore.Ext σ' :=
  atom_spec libFrame_libStore (.sym "a") 0

/-! ## `vector-equal-from?` -/

/-- a store with vectors holding lists and vectors: 0: `#(1 (1 2 3))`, 1: `#(1 (1 2 3))`,
2: `#(1 (1 2))`, 3: `#(1)`, 4: `#(#(1) (1 2 3))` (holds vector 3), 5: `#(#(1) (1 2 3))` -/
def nestStore : Store :=
  { libStore with vecs := #[⟨true, [num 1, l123]⟩, ⟨false, [num 1, l123]⟩,
      ⟨true, [num 1, Value.ofList [num 1, num 2]]⟩, ⟨true, [num 1]⟩,
      ⟨true, [.vec 3, l123]⟩, ⟨true, [.vec 3, l123]⟩] }


/-- `(vector-equal-from? x y i)` for two vectors (cells `c`, `c'` of the store) and an index `i`
within `x`: the items of `x` from `i` on are compared with those of `y` at the same indices by
`equal?`, in index order (`vecFromS`): `#t` when `x` is exhausted (items of a longer `y` are not
looked at), `#f` at the first pair that is not `equal?`, and — when `y` is shorter than `x` and
everything before its end was `equal?` — the index error of `(vector-ref y i)`.
As in `equal_spec`: `equalS σ n` is the comparison of two items followed to nesting depth `n`
(`vecFromS … = some r` says all the comparisons needed are finite), and vector lengths are assumed
to be in the `i32` range of the interpreter's integers.
Outside the domain (not proved): an index `i` beyond the length of `x` never satisfies
`(= i (vector-length x))`; the walk ends in the index error of `(vector-ref x i)`. -/
theorem vector_equal_from_spec (h : LibFrame σ b)
    (hfit : ∀ (i : Nat) (c : VecCell), σ.vecs[i]? = some c → (c.items.length : Int) ≤ 2147483647)
    {id id' : Nat} {c c' : VecCell} (hc : σ.vecs[id]? = some c) (hc' : σ.vecs[id']? = some c')
    (i : Nat) (hi : i ≤ c.items.length) (n : Nat) (r : Except SErr Bool)
    (hr : vecFromS (equalS σ n) (c.items.drop i) (c'.items.drop i) = some r) (env : Nat) :
    ∃ σ', Applies σ (libProc "vector-equal-from?" b) [.vec id, .vec id', .num (.int i)] env
      (r.map Value.bool) σ' ∧ σ.Ext σ' :=
  papp_vector_equal_from_gen b σ n (papp_equal b σ hfit n) hc hc' (hfit _ _ hc)
    (c.items.length - i) i (by omega) r hr σ env h rfl

/-- the case `equal?` uses it in: vectors of the same length — the outcome is `allEqS` of the item
lists (the function `equalS` is defined with), a boolean, never an error -/
theorem vector_equal_from_same_length (h : LibFrame σ b)
    (hfit : ∀ (i : Nat) (c : VecCell), σ.vecs[i]? = some c → (c.items.length : Int) ≤ 2147483647)
    {id id' : Nat} {c c' : VecCell} (hc : σ.vecs[id]? = some c) (hc' : σ.vecs[id']? = some c')
    (hlen : c.items.length = c'.items.length)
    (i : Nat) (hi : i ≤ c.items.length) (n : Nat) (r : Bool)
    (hr : allEqS (equalS σ n) (c.items.drop i) (c'.items.drop i) = some r) (env : Nat) :
    ∃ σ', Applies σ (libProc "vector-equal-from?" b) [.vec id, .vec id', .num (.int i)] env
      (.ok (.bool r)) σ' ∧ σ.Ext σ' :=
  vector_equal_from_spec h hfit hc hc' i hi n (.ok r)
    (by rw [vecFromS_of_allEqS _ _ _ (by simp [hlen]), hr]; rfl) env

/-- the error side: `y` has fewer items than `x` and all the items of `y` from `i` on are `equal?`
to those of `x`: the index error of `vector-ref`, and never a value -/
theorem vector_equal_from_short (h : LibFrame σ b)
    (hfit : ∀ (i : Nat) (c : VecCell), σ.vecs[i]? = some c → (c.items.length : Int) ≤ 2147483647)
    {id id' : Nat} {c c' : VecCell} (hc : σ.vecs[id]? = some c) (hc' : σ.vecs[id']? = some c')
    (hlen : c'.items.length < c.items.length) (i : Nat) (hi : i ≤ c'.items.length) (n : Nat)
    (hall : ∀ p ∈ (c.items.drop i).zip (c'.items.drop i), equalS σ n p.1 p.2 = some true) (env : Nat) :
    Raises σ (libProc "vector-equal-from?" b) [.vec id, .vec id', .num (.int i)] env indexErr :=
  .of_appliesE (vector_equal_from_spec h hfit hc hc' i (by omega) n (.error indexErr)
    (vecFromS_short _ _ _ (by simp; omega) hall) env)

/-- in `vecStore` (`#(1 2)`, `#(1 2)`, `#(1 (3))`): vectors 0 and 1 agree from index 0, vectors 0 and
2 differ at index 1 but agree from index 2 (nothing left to compare) -/
example : (∃ σ', Applies vecStore (libProc "vector-equal-from?" 0) [.vec 0, .vec 1, num 0] 0 (.ok (.bool true)) σ' ∧
      vecStore.Ext σ') ∧
    (∃ σ', Applies vecStore (libProc "vector-equal-from?" 0) [.vec 0, .vec 2, num 0] 0 (.ok (.bool false)) σ' ∧
      vecStore.Ext σ') ∧
    (∃ σ', Applies vecStore (libProc "vector-equal-from?" 0) [.vec 0, .vec 2, num 2] 0 (.ok (.bool true)) σ' ∧
      vecStore.Ext σ') := by
  have hl : LibFrame vecStore 0 := LibFrame.of_defs rfl
  have hfit : ∀ (i : Nat) (c : VecCell), vecStore.vecs[i]? = some c → (c.items.length : Int) ≤ 2147483647 := by
    intro i c h
    have hm := Array.mem_of_getElem? h
    simp only [vecStore, List.mem_toArray, List.mem_cons, List.not_mem_nil, or_false] at hm
    rcases hm with rfl | rfl | rfl <;> decide
  exact ⟨vector_equal_from_spec hl hfit (id := 0) (id' := 1) rfl rfl 0 (by decide) 2 (.ok true) (by decide) 0,
    vector_equal_from_spec hl hfit (id := 0) (id' := 2) rfl rfl 0 (by decide) 2 (.ok false) (by decide) 0,
    vector_equal_from_spec hl hfit (id := 0) (id' := 2) rfl rfl 2 (by decide) 2 (.ok true) (by decide) 0⟩

/-- in `nestStore`: `(vector-equal-from? #(1 (1 2 3)) #(1) 0)` — the first items are `equal?`, the
second vector has no item 1: the index error, not a value; and `#(1 (1 2 3))` agrees with its copy
from index 1 on -/
example : Raises nestStore (libProc "vector-equal-from?" 0) [.vec 0, .vec 3, num 0] 0 indexErr ∧
    (∃ σ', Applies nestStore (libProc "vector-equal-from?" 0) [.vec 0, .vec 1, num 1] 0 (.ok (.bool true)) σ' ∧
      nestStore.Ext σ') := by
  have hl : LibFrame nestStore 0 := LibFrame.of_defs rfl
  have hfit : ∀ (i : Nat) (c : VecCell), nestStore.vecs[i]? = some c → (c.items.length : Int) ≤ 2147483647 := by
    intro i c h
    have hm := Array.mem_of_getElem? h
    simp only [nestStore, List.mem_toArray, List.mem_cons, List.not_mem_nil, or_false] at hm
    rcases hm with rfl | rfl | rfl | rfl | rfl | rfl <;> decide
  exact ⟨vector_equal_from_short hl hfit (id := 0) (id' := 3) rfl rfl (by decide) 0 (by decide) 2 (by decide) 0,
    vector_equal_from_same_length hl hfit (id := 0) (id' := 1) rfl rfl rfl 1 (by decide) 5 true (by decide) 0⟩

/-! ## `equal?` on vectors

`C11.equal_spec` is stated with the spec function `equalS`, which already descends into vectors
(cell by cell, through `vector-equal-from?` in the code). The theorems below spell the vector
cases out. -/

/-- `(equal? x y)` for two vectors: `#f` when their lengths differ, else the item-wise comparison
(`allEqS`: `equal?` on the items in index order, the first difference decides); items may be
lists, vectors, anything (`equalS` at depth `n`). -/
theorem equal_vector_spec (h : LibFrame σ b)
    (hfit : ∀ (i : Nat) (c : VecCell), σ.vecs[i]? = some c → (c.items.length : Int) ≤ 2147483647)
    {i j : Nat} {c c' : VecCell} (hc : σ.vecs[i]? = some c) (hc' : σ.vecs[j]? = some c') (n : Nat) (r : Bool)
    (hr : (if c.items.length = c'.items.length then allEqS (equalS σ n) c.items c'.items else some false) = some r)
    (env : Nat) :
    ∃ σ', Applies σ (libProc "equal?" b) [.vec i, .vec j] env (.ok (.bool r)) σ' ∧ σ.Ext σ' :=
  equal_spec h hfit (.vec i) (.vec j) (n + 1) r (by rw [equalS_vec_vec σ n hc hc']; exact hr) env

/-- vectors of different lengths are not `equal?` (whatever their items: none is compared) -/
theorem equal_vector_length_mismatch (h : LibFrame σ b)
    (hfit : ∀ (i : Nat) (c : VecCell), σ.vecs[i]? = some c → (c.items.length : Int) ≤ 2147483647)
    {i j : Nat} {c c' : VecCell} (hc : σ.vecs[i]? = some c) (hc' : σ.vecs[j]? = some c')
    (hlen : c.items.length ≠ c'.items.length) (env : Nat) :
    ∃ σ', Applies σ (libProc "equal?" b) [.vec i, .vec j] env (.ok (.bool false)) σ' ∧ σ.Ext σ' :=
  equal_vector_spec h hfit hc hc' 0 false (by rw [if_neg hlen]) env

/-- vectors of the same length all of whose corresponding items are `equal?` are `equal?` -/
theorem equal_vector_all_items (h : LibFrame σ b)
    (hfit : ∀ (i : Nat) (c : VecCell), σ.vecs[i]? = some c → (c.items.length : Int) ≤ 2147483647)
    {i j : Nat} {c c' : VecCell} (hc : σ.vecs[i]? = some c) (hc' : σ.vecs[j]? = some c')
    (hlen : c.items.length = c'.items.length) (n : Nat)
    (hall : ∀ p ∈ c.items.zip c'.items, equalS σ n p.1 p.2 = some true) (env : Nat) :
    ∃ σ', Applies σ (libProc "equal?" b) [.vec i, .vec j] env (.ok (.bool true)) σ' ∧ σ.Ext σ' :=
  equal_vector_spec h hfit hc hc' n true (by rw [if_pos hlen]; exact allEqS_all_true _ _ _ hall) env

/-- vectors of the same length are not `equal?` when, at the first index where the items are not
`equal?` (all items before are), the comparison says `#f` -/
theorem equal_vector_first_difference (h : LibFrame σ b)
    (hfit : ∀ (i : Nat) (c : VecCell), σ.vecs[i]? = some c → (c.items.length : Int) ≤ 2147483647)
    {i j : Nat} {c c' : VecCell} (hc : σ.vecs[i]? = some c) (hc' : σ.vecs[j]? = some c')
    (pre pre' : List Value) (x y : Value) (post post' : List Value)
    (hitems : c.items = pre ++ x :: post) (hitems' : c'.items = pre' ++ y :: post')
    (hpre : pre.length = pre'.length) (hpost : post.length = post'.length) (n : Nat)
    (hall : ∀ p ∈ pre.zip pre', equalS σ n p.1 p.2 = some true) (hxy : equalS σ n x y = some false) (env : Nat) :
    ∃ σ', Applies σ (libProc "equal?" b) [.vec i, .vec j] env (.ok (.bool false)) σ' ∧ σ.Ext σ' :=
  equal_vector_spec h hfit hc hc' n false
    (by rw [if_pos (by simp [hitems, hitems', hpre, hpost]), hitems, hitems']
        exact allEqS_first_false _ _ _ _ _ _ _ hpre hall hxy) env

/-- mixed: a vector is not `equal?` to anything that is not a vector, in either argument order
(pairs, `()`, numbers, strings, … — nothing of the vector is looked at) -/
theorem equal_vector_nonvector (h : LibFrame σ b)
    (hfit : ∀ (i : Nat) (c : VecCell), σ.vecs[i]? = some c → (c.items.length : Int) ≤ 2147483647)
    (i : Nat) (y : Value) (hy : isVec y = false) (env : Nat) :
    (∃ σ', Applies σ (libProc "equal?" b) [.vec i, y] env (.ok (.bool false)) σ' ∧ σ.Ext σ') ∧
    (∃ σ', Applies σ (libProc "equal?" b) [y, .vec i] env (.ok (.bool false)) σ' ∧ σ.Ext σ') :=
  ⟨equal_spec h hfit (.vec i) y 1 false (equalS_vec_nonvec σ 0 i y hy) env,
   equal_spec h hfit y (.vec i) 1 false (equalS_nonvec_vec σ 0 i y hy) env⟩

/-- nested lists inside vectors and vectors inside vectors: `#(1 (1 2 3))` is `equal?` to its
copy and not to `#(1 (1 2))`; not to `#(1)` (lengths); `#(#(1) (1 2 3))` is `equal?` to its copy;
a vector is not `equal?` to the list of its items nor the list to the vector -/
example :
    (∃ σ', Applies nestStore (libProc "equal?" 0) [.vec 0, .vec 1] 0 (.ok (.bool true)) σ' ∧ nestStore.Ext σ') ∧
    (∃ σ', Applies nestStore (libProc "equal?" 0) [.vec 0, .vec 2] 0 (.ok (.bool false)) σ' ∧ nestStore.Ext σ') ∧
    (∃ σ', Applies nestStore (libProc "equal?" 0) [.vec 0, .vec 3] 0 (.ok (.bool false)) σ' ∧ nestStore.Ext σ') ∧
    (∃ σ', Applies nestStore (libProc "equal?" 0) [.vec 4, .vec 5] 0 (.ok (.bool true)) σ' ∧ nestStore.Ext σ') ∧
    (∃ σ', Applies nestStore (libProc "equal?" 0) [.vec 3, Value.ofList [num 1]] 0 (.ok (.bool false)) σ' ∧
      nestStore.Ext σ') ∧
    (∃ σ', Applies nestStore (libProc "equal?" 0) [Value.ofList [num 1], .vec 3] 0 (.ok (.bool false)) σ' ∧
      nestStore.Ext σ') := by
  have hl : LibFrame nestStore 0 := LibFrame.of_defs rfl
  have hfit : ∀ (i : Nat) (c : VecCell), nestStore.vecs[i]? = some c → (c.items.length : Int) ≤ 2147483647 := by
    intro i c h
    have hm := Array.mem_of_getElem? h
    simp only [nestStore, List.mem_toArray, List.mem_cons, List.not_mem_nil, or_false] at hm
    rcases hm with rfl | rfl | rfl | rfl | rfl | rfl <;> decide
  exact ⟨equal_vector_all_items hl hfit (i := 0) (j := 1) rfl rfl rfl 4 (by decide) 0,
    equal_vector_first_difference hl hfit (i := 0) (j := 2) rfl rfl [num 1] [num 1] l123
      (Value.ofList [num 1, num 2]) [] [] rfl rfl rfl rfl 4 (by decide) (by decide) 0,
    equal_vector_length_mismatch hl hfit (i := 0) (j := 3) rfl rfl (by decide) 0,
    equal_vector_spec hl hfit (i := 4) (j := 5) rfl rfl 5 true (by decide) 0,
    (equal_vector_nonvector hl hfit 3 (Value.ofList [num 1]) rfl 0).1,
    (equal_vector_nonvector hl hfit 3 (Value.ofList [num 1]) rfl 0).2⟩

/-! ## `filter`

As for `map`/`for-each` (`C11.map_spec`): `f` is an arbitrary procedure value satisfying
`ProcArg b N K f dom`, and the conclusion gives the outcome together with the exact chain of
applications of `f` — here `FilterM` (`RuschmSpec/ListMore.lean`), which describes the traversal
THE LIBRARY'S DEFINITION makes: once per element, in list order, each application in the store the
previous one left, ending at the first error of `f` — or at the first element `f` rejects.

Extra hypothesis `NoFilterb σ b`: the library frame does not bind the name `filterb`. It holds in
every frame that has exactly the library's bindings (`noFilterb_of_defs`); `LibFrame` alone does
not say so (it constrains the defined names only). -/

/-- `(filter f l)` for EVERY value `l` (elements `xs = (spine l).1`, final tail `t`): `f` is applied
to the elements in list order; an error of `f` is the outcome; while `f` returns true values the
elements are kept; AT THE FIRST ELEMENT FOR WHICH `f` RETURNS `#f` THE OUTCOME IS THE
UNBOUND-VARIABLE ERROR (the `else` clause calls the undefined `filterb`), no further element is
visited. If every element is kept (`r = .ok xs'`, and then `xs' = xs`: `filterM_ok`), the result is
the list of the kept elements when `t` is `()`, and the `car` type error when `l` is improper
(`filterEnd`). -/
theorem filter_spec {K : Store → Prop} {f : Value} (h : LibFrame σ b) (hnf : NoFilterb σ b) (hK : K σ) (l : Value)
    (hf : ProcArg b σ.frames.size K f (fun args => ∃ x ∈ (spine l).1, args = [x])) (env : Nat) :
    ∃ r σ', Applies σ (libProc "filter" b) [f, l] env (r.bind (filterEnd (spine l).2)) σ' ∧
      FilterM (AppOf f) Store.DExt σ (spine l).1 r σ' ∧ (∀ vs, r = .ok vs → K σ') := by
  have := filter_run (spine l).2 (spine_tail_not_pair l) (spine l).1 σ h hnf hK (Nat.le_refl _) hf env
  rwa [spine_withTail] at this

/-- what a traversal that ends normally has done: `f` was applied to every element, in order (the
chain `MapM` of `map`), every result was a true value, and the kept elements are all the elements —
which is `List.filter` by the truth of the results -/
theorem filterM_ok {app : Store → List Value → Except SErr Value → Store → Prop} {ext : Store → Store → Prop}
    {σ σ' : Store} {xs vs : List Value} (h : FilterM app ext σ xs (.ok vs) σ') :
    vs = xs ∧ ∃ rs, MapM app ext σ xs (.ok rs) σ' ∧ (∀ v ∈ rs, v.truthy = true) ∧
      vs = ((xs.zip rs).filter fun p => p.2.truthy).map (·.1) := by
  generalize hr : (Except.ok vs : Except SErr (List Value)) = r at h
  induction h generalizing vs with
  | nil e =>
    cases hr
    exact ⟨rfl, [], .nil e, by simp, rfl⟩
  | cons_err _ _ _ => cases hr
  | cons_drop _ _ _ _ => cases hr
  | @cons_keep σ σ₁ σ₂ σ₃ σ' x xs v r e₁ happ hv htr e₂ ih =>
    cases r with
    | error er => cases hr
    | ok vs' =>
      cases hr
      obtain ⟨rfl, rs, hm, hall, hz⟩ := ih rfl
      refine ⟨rfl, v :: rs, MapM.cons (r := .ok rs) e₁ happ hm e₂, ?_, ?_⟩
      · intro w hw
        rcases List.mem_cons.mp hw with rfl | hw
        · exact hv
        · exact hall w hw
      · simp only [List.zip_cons_cons, List.filter_cons, hv, if_true, List.map_cons]
        exact congrArg (x :: ·) hz

/-- the error side of `filter` on an improper list (final tail `t` neither a pair nor `()`): `f` is
applied along the elements as described by `FilterM`, and the outcome is ALWAYS an error, never a
value: the error of `f`, or the unbound-variable error at the first rejected element, or — when all
the elements were kept — the type error of `(car t)` -/
theorem filter_improper {K : Store → Prop} {f : Value} (h : LibFrame σ b) (hnf : NoFilterb σ b) (hK : K σ)
    (xs : List Value) (t : Value) (ht : isPair t = false) (hn : isNil t = false)
    (hf : ProcArg b σ.frames.size K f (fun args => ∃ x ∈ xs, args = [x])) (env : Nat) :
    ∃ r e σ', Applies σ (libProc "filter" b) [f, withTail xs t] env (.error e) σ' ∧
      FilterM (AppOf f) Store.DExt σ xs r σ' ∧
      (e = match r with | .ok _ => typeErr | .error e' => e') ∧
      ∀ v σ'', ¬ Applies σ (libProc "filter" b) [f, withTail xs t] env (.ok v) σ'' := by
  obtain ⟨r, σ', h₁, h₂, _⟩ := filter_run t ht xs σ h hnf hK (Nat.le_refl _) hf env
  cases r with
  | ok vs =>
    have h₁' : Applies σ (libProc "filter" b) [f, withTail xs t] env (.error typeErr) σ' := by
      simpa [Except.bind, filterEnd, hn] using h₁
    exact ⟨_, _, σ', h₁', h₂, rfl, not_value_of_error h₁'⟩
  | error e => exact ⟨_, e, σ', h₁, h₂, rfl, not_value_of_error h₁⟩

/-- `(filter f x)` for a non-list `x` (not a pair, not `()`): the type error, `f` is never applied
(`f` need only be a procedure) -/
theorem filter_nonlist (h : LibFrame σ b) (f x : Value) (hp : (procArity f).isSome) (hx : isPair x = false)
    (hn : isNil x = false) (env : Nat) : Raises σ (libProc "filter" b) [f, x] env typeErr := by
  have := papp_filter_end b f x hp hx σ env h rfl
  simp only [filterEnd, hn] at this
  exact .of_appliesE this

/-- `(filter f '())` is `()` -/
theorem filter_nil (h : LibFrame σ b) (f : Value) (hp : (procArity f).isSome) (env : Nat) :
    ∃ σ', Applies σ (libProc "filter" b) [f, .nil] env (.ok .nil) σ' ∧ σ.Ext σ' :=
  papp_filter_end b f .nil hp rfl σ env h rfl

/-- `filter` on a proper list with a PURE total predicate `f` (on the elements it returns `g x`
and only appends frames — every native and every first-order library procedure is such): the
outcome is `filterLibS`: the list (= `List.filter`, `filterLibS_ok`) when `f` holds of every
element, else the unbound-variable error -/
theorem filter_pure_spec {f : Value} {g : Value → Value} (h : LibFrame σ b) (hnf : NoFilterb σ b)
    (xs : List Value) (hp : (procArity f).isSome) (hpure : ∀ V x, x ∈ xs → PApp V b f [x] (.ok (g x))) (env : Nat) :
    ∃ σ', Applies σ (libProc "filter" b) [f, Value.ofList xs] env
      ((filterLibS (fun x => (g x).truthy) xs).map Value.ofList) σ' ∧ σ.DExt σ' := by
  have hf : ProcArg b σ.frames.size (fun σ => LibFrame σ b) f (fun args => ∃ x ∈ xs, args = [x]) :=
    ProcArg.of_papp (g := fun args => .ok (g (args.headD .nil))) hp
      fun V args ha => by obtain ⟨x, hx, rfl⟩ := ha; exact hpure V x hx
  obtain ⟨r, σ', h₁, h₂, _⟩ := filter_run .nil rfl xs σ h hnf h (Nat.le_refl _) hf env
  obtain ⟨rfl, e⟩ := filterM_of_papp h₂ hpure h
  rw [withTail_nil] at h₁
  refine ⟨σ', ?_, e⟩
  have : (filterLibS (fun x => (g x).truthy) xs).bind (filterEnd .nil) =
      (filterLibS (fun x => (g x).truthy) xs).map Value.ofList := by
    cases filterLibS (fun x => (g x).truthy) xs <;> rfl
  rwa [this] at h₁

/-- … in particular, when the predicate holds of every element the result is `List.filter` of the
list (nothing is removed) -/
theorem filter_all_kept {f : Value} {g : Value → Value} (h : LibFrame σ b) (hnf : NoFilterb σ b)
    (xs : List Value) (hp : (procArity f).isSome) (hpure : ∀ V x, x ∈ xs → PApp V b f [x] (.ok (g x)))
    (hall : ∀ x ∈ xs, (g x).truthy = true) (env : Nat) :
    ∃ σ', Applies σ (libProc "filter" b) [f, Value.ofList xs] env
      (.ok (Value.ofList (xs.filter fun x => (g x).truthy))) σ' ∧ σ.DExt σ' := by
  obtain ⟨σ', h₁, e⟩ := filter_pure_spec h hnf xs hp hpure env
  have hall' : xs.all (fun x => (g x).truthy) = true := by simpa using hall
  have hfl : xs.filter (fun x => (g x).truthy) = xs := List.filter_eq_self.mpr (by simpa using hall)
  rw [hfl]
  simp only [filterLibS, hall', if_true] at h₁
  exact ⟨σ', h₁, e⟩

/-- FINDING: … and when the predicate rejects some element, `filter` raises the unbound-variable
error instead of returning the shorter list, and never returns a value. `(filter pair? '((1) 2))`
in the real interpreter: `filterb` is not defined. -/
theorem filter_rejecting_raises {f : Value} {g : Value → Value} (h : LibFrame σ b) (hnf : NoFilterb σ b)
    (xs : List Value) (hp : (procArity f).isSome) (hpure : ∀ V x, x ∈ xs → PApp V b f [x] (.ok (g x)))
    (x : Value) (hx : x ∈ xs) (hrej : (g x).truthy = false) (env : Nat) :
    (∃ σ', Applies σ (libProc "filter" b) [f, Value.ofList xs] env (.error unboundErr) σ' ∧ σ.DExt σ') ∧
    ∀ v σ'', ¬ Applies σ (libProc "filter" b) [f, Value.ofList xs] env (.ok v) σ'' := by
  obtain ⟨σ', h₁, e⟩ := filter_pure_spec h hnf xs hp hpure env
  have hall' : xs.all (fun x => (g x).truthy) = false := by
    rw [Bool.eq_false_iff]
    intro hall
    have := List.all_eq_true.mp hall x hx
    rw [hrej] at this
    cases this
  simp only [filterLibS, hall'] at h₁
  exact ⟨⟨σ', h₁, e⟩, not_value_of_error h₁⟩

/-! non-vacuity -/

example : NoFilterb libStore 0 := noFilterb_libStore

/-- … and `NoFilterb` holds of the library frame the interpreter builds (here frame 1) -/
example : ∃ exports st', Interp.evalLibraryDef 40
      { store := (({} : Store).newFrame none).2, factories := [(Interp.libRuschmBase, .native Interp.nativeBase)] }
      libDecls = (.ok exports, st') ∧ LibFrame st'.store 1 ∧ NoFilterb st'.store 1 :=
  noFilterb_of_evalLibraryDef
    { store := (({} : Store).newFrame none).2, factories := [(Interp.libRuschmBase, .native Interp.nativeBase)] }
    40 (Nat.le_refl _) rfl rfl rfl

/-- `(filter pair? '((1) (2)))` is `((1) (2))` -/
example : ∃ σ', Applies libStore (libProc "filter" 0)
    [.builtin .isPair, Value.ofList [Value.ofList [num 1], Value.ofList [num 2]]] 0
    (.ok (Value.ofList [Value.ofList [num 1], Value.ofList [num 2]])) σ' ∧ libStore.DExt σ' :=
  filter_all_kept (g := fun v => .bool (isPair v)) libFrame_libStore noFilterb_libStore
    [Value.ofList [num 1], Value.ofList [num 2]] rfl (fun _ _ _ => PApp.isPair)
    (by intro x hx; simp only [List.mem_cons, List.not_mem_nil, or_false] at hx; rcases hx with rfl | rfl <;> rfl) 0

/-- FINDING: `(filter pair? '((1) 2))` is the unbound-variable error, not `((1))` -/
example : ∃ σ', Applies libStore (libProc "filter" 0)
    [.builtin .isPair, Value.ofList [Value.ofList [num 1], num 2]] 0 (.error unboundErr) σ' ∧ libStore.DExt σ' :=
  (filter_rejecting_raises (g := fun v => .bool (isPair v)) libFrame_libStore noFilterb_libStore
    [Value.ofList [num 1], num 2] rfl (fun _ _ _ => PApp.isPair) (num 2) (by simp) rfl 0).1

example : ∃ σ', Applies libStore (libProc "filter" 0) [.builtin .isPair, .nil] 0 (.ok .nil) σ' ∧ libStore.Ext σ' :=
  filter_nil libFrame_libStore _ rfl 0

/-- `filter_pure_spec` with `vector?` as the predicate on `(1)`: the outcome is `filterLibS` (here
the unbound-variable error: `1` is rejected) -/
example : ∃ σ', Applies libStore (libProc "filter" 0)
    [.builtin .isVector, Value.ofList [num 1]] 0
    ((filterLibS (fun x => (Value.bool (isVec x)).truthy) [num 1]).map Value.ofList) σ' ∧ libStore.DExt σ' :=
  filter_pure_spec (g := fun v => .bool (isVec v)) libFrame_libStore noFilterb_libStore [num 1] rfl
    (fun _ _ _ => PApp.isVector) 0

/-- `filterM_ok` on a one-element traversal -/
example : ([num 1] : List Value) = [num 1] ∧ ∃ rs, MapM (fun _ _ _ _ => True) (fun _ _ => True) libStore [num 1]
    (.ok rs) libStore ∧ (∀ v ∈ rs, v.truthy = true) ∧
    [num 1] = (([num 1].zip rs).filter fun p => p.2.truthy).map (·.1) :=
  filterM_ok (app := fun _ _ _ _ => True) (ext := fun _ _ => True)
    (FilterM.cons_keep (σ₁ := libStore) (σ₂ := libStore) (σ₃ := libStore) (v := num 1) (r := .ok []) trivial trivial rfl
      (.nil trivial) trivial)

/-- the host procedure `tick` (returns its argument, records it on the trace) is a procedure argument
in every store: `(filter tick '(1 2 3))` has an outcome described by `FilterM`; as `tick` returns
its (true) argument every element is kept and the result is `(1 2 3)` -/
example : ∃ σ', Applies libStore (libProc "filter" 0) [.builtin .tick, l123] 0 (.ok l123) σ' := by
  obtain ⟨r, σ', h₁, h₂, _⟩ := filter_spec (K := fun _ => True) libFrame_libStore noFilterb_libStore trivial l123
    (procArg_tick 0 _ _ fun args ⟨x, _, e⟩ => e ▸ rfl) 0
  refine ⟨σ', ?_⟩
  have hres : r = .ok [num 1, num 2, num 3] := by
    have htick : ∀ {σ x r σ'}, AppOf (.builtin .tick) σ [x] r σ' → r = .ok x := fun h =>
      (Applies.unique (h 0) (applies_tick _ _ 0)).1
    have hsp : (spine l123).1 = [num 1, num 2, num 3] := rfl
    rw [hsp] at h₂
    cases h₂ with
    | cons_err _ h _ => cases htick h
    | cons_drop _ h hv _ => cases htick h; cases hv
    | cons_keep _ h _ h₂ _ =>
      cases h₂ with
      | cons_err _ h _ => cases htick h
      | cons_drop _ h hv _ => cases htick h; cases hv
      | cons_keep _ h _ h₂ _ =>
        cases h₂ with
        | cons_err _ h _ => cases htick h
        | cons_drop _ h hv _ => cases htick h; cases hv
        | cons_keep _ h _ h₂ _ =>
          cases h₂
          rfl
  rw [hres] at h₁
  exact h₁

/-- `(filter tick '(1 2 . 3))`: an error (here the type error of `(car 3)`, after both elements) -/
example : ∃ e σ', Applies libStore (libProc "filter" 0) [.builtin .tick, withTail [num 1, num 2] (num 3)] 0
    (.error e) σ' := by
  obtain ⟨r, e, σ', h₁, _⟩ := filter_improper (K := fun _ => True) libFrame_libStore noFilterb_libStore trivial
    [num 1, num 2] (num 3) rfl rfl (procArg_tick 0 _ _ fun args ⟨x, _, e⟩ => e ▸ rfl) 0
  exact ⟨e, σ', h₁⟩

example : Raises libStore (libProc "filter" 0) [.builtin .isPair, num 5] 0 typeErr :=
  filter_nonlist libFrame_libStore _ _ rfl rfl rfl 0

end lib

end Ruschm.C11More

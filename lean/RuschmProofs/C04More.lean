/-
Property C04, continued — two gaps between `C04.lean` and the property's quantifier, closed:

(1) ellipsis sub-templates over SEVERAL ellipsis variables of the pattern (`((a b) ...)` for the
    pattern `((a ...) (b ...))`): the wider class `SupportedRule'`, the R7RS instantiation
    `specInstR7`, the refinement for runs of equal length, and exactly what the expander does
    when the lengths differ (it stops at the SHORTEST run, silently);
(2) the `define-syntax` front: how the written form becomes `Macro.Rules` (`toRules`, `toRule`,
    `toPat`, `toTmpl`), so that "first rule in textual order" is textual order of the source.

Only property theorems live here; vocabulary in `RuschmSpec/MacroMore.lean`, helper lemmas in
`RuschmProofs/MacroMoreLemmas.lean`.
-/
import RuschmProofs.MacroMoreLemmas
import RuschmProofs.C04

namespace Ruschm.C04More
open Ruschm Ruschm.Macro Ruschm.Macro.Ex

/-! ## 1. Sub-templates over several ellipsis variables -/

/-- the rule `((a ...) (b ...)) ⇒ ((a b) ...)` -/
def zipRule : Pat × Tmpl :=
  (plist [plist [.ident "a", .ellipsis], plist [.ident "b", .ellipsis]],
   .list [(.list [(.ident "a", false), (.ident "b", false)], true)])

/-- the wider class contains the class of `C04.lean` -/
theorem supportedRule_imp' {lits r} (h : SupportedRule lits r = true) :
    SupportedRule' lits r = true := by
  simp only [SupportedRule, SupportedRule', SupportedTmpl, SupportedTmpl', Bool.and_eq_true] at h ⊢
  exact ⟨h.1, (Tmpl.ok_ok' _ _).1 _ h.2⟩

example : SupportedRule' [] zipRule = true ∧ SupportedRule [] zipRule = false := ⟨rfl, rfl⟩

/-- **R7RS meaning of an ellipsis sub-template**: when all the runs it mentions have the same
length `n`, `(u ...)` yields `n` copies of `u`, the `j`-th with every variable replaced by its
`j`-th item, in order. -/
theorem equal_runs_repeat {β : Bindings} {u : Tmpl} {n : Nat} (loc : Loc) (i : Nat)
    (rest : List (Tmpl × Bool)) (hne : seqLens β u ≠ []) (h : ∀ l ∈ seqLens β u, l = n) :
    specElemsR7At β loc i ((u, true) :: rest) =
      (List.range n).map (fun j => specInstR7At β loc j u) ++ specElemsR7At β loc i rest := by
  have : copiesR7 β u = n := by
    unfold copiesR7
    cases hs : seqLens β u with
    | nil => exact absurd hs hne
    | cons x xs => exact h x (by simp [hs])
  simp [specElemsR7At, this]

example : specInstR7 zipRule.2 [("a", [num 1, num 2]), ("b", [num 3, num 4])] none =
    lst [lst [num 1, num 3], lst [num 2, num 4]] := rfl

/-- For a rule of the wider class and the bindings of a successful match, when every ellipsis
sub-template mentions runs of one common length (`EqualRuns`, what R7RS requires), `subst` is the
R7RS instantiation. -/
theorem subst_eq_spec' {lits p t d β fuel loc} (hr : SupportedRule' lits (p, t) = true)
    (hm : specMatch lits p d = some β) (heq : EqualRuns β t = true) (hfu : d.size ≤ fuel) :
    subst fuel t β.toSubst loc = some (specInstR7 t β loc) := by
  simp only [SupportedRule', SupportedTmpl', Bool.and_eq_true] at hr
  rw [subst_of_match_wf ((Tmpl.ok'_wf _ _).1 t hr.2) hm hfu, specInst_eq_r7 heq]

example : specMatch [] zipRule.1 (lst [lst [num 1, num 2], lst [num 3, num 4]]) =
      some [("a", [num 1, num 2]), ("b", [num 3, num 4])] ∧
    EqualRuns [("a", [num 1, num 2]), ("b", [num 3, num 4])] zipRule.2 = true ∧
    subst 20 zipRule.2 [("a", num 1, [num 2]), ("b", num 3, [num 4])] none =
      some (lst [lst [num 1, num 3], lst [num 2, num 4]]) := ⟨rfl, rfl, rfl⟩

/-- **What the expander does when the runs have DIFFERENT lengths**: no error — it silently stops
at the SHORTEST run. For every rule of the wider class (no condition on the lengths) `subst` is
`specInst`, whose number of copies `copies β u` of a sub-template `u` is the least of the lengths
of the runs `u` mentions: it is one of them and none is shorter. (Not the first variable's
length; not an error.) -/
theorem subst_unequal_runs {lits p t d β fuel loc} (hr : SupportedRule' lits (p, t) = true)
    (hm : specMatch lits p d = some β) (hfu : d.size ≤ fuel) :
    subst fuel t β.toSubst loc = some (specInst t β loc) ∧
    ∀ u : Tmpl, seqLens β u ≠ [] →
      copies β u ∈ seqLens β u ∧ ∀ l ∈ seqLens β u, copies β u ≤ l := by
  simp only [SupportedRule', SupportedTmpl', Bool.and_eq_true] at hr
  exact ⟨subst_of_match_wf ((Tmpl.ok'_wf _ _).1 t hr.2) hm hfu,
    fun u hne => ⟨minLen_mem hne, fun l hl => minLen_le_of_mem hl⟩⟩

/-- the first run longer: `(z (1 2 3) (4 5))` gives two items -/
example : transform 100 ⟨[], [zipRule]⟩ (lst [lst [num 1, num 2, num 3], lst [num 4, num 5]]) =
    .ok (lst [lst [num 1, num 4], lst [num 2, num 5]]) := rfl
/-- the first run shorter: `(z (1 2) (3 4 5))` gives two items as well (the SHORTEST, not the
first) -/
example : transform 100 ⟨[], [zipRule]⟩ (lst [lst [num 1, num 2], lst [num 3, num 4, num 5]]) =
    .ok (lst [lst [num 1, num 3], lst [num 2, num 4]]) := rfl
/-- a run of one item: one copy -/
example : transform 100 ⟨[], [zipRule]⟩ (lst [lst [num 1], lst [num 3, num 4, num 5]]) =
    .ok (lst [lst [num 1, num 3]]) := rfl
example : copies [("a", [num 1, num 2, num 3]), ("b", [num 4, num 5])]
      (.list [(.ident "a", false), (.ident "b", false)]) = 2 ∧
    EqualRuns [("a", [num 1, num 2, num 3]), ("b", [num 4, num 5])] zipRule.2 = false := ⟨rfl, rfl⟩

/-- In the class of `C04.lean` (all variables of a sub-template under ONE ellipsis of the pattern)
the runs always have equal length: there the R7RS instantiation is what `C04.subst_eq_spec`
states. -/
theorem equalRuns_of_supportedRule {lits p t d β} (hr : SupportedRule lits (p, t) = true)
    (hm : specMatch lits p d = some β) : EqualRuns β t = true := by
  simp only [SupportedRule, SupportedTmpl, Bool.and_eq_true] at hr
  obtain ⟨hs, ht⟩ := hr
  have hflag : (∀ u, u.flagFree = true → EqualRuns β u = true) ∧
      (∀ es, Tmpl.flagFreeElems es = true → EqualRunsElems β es = true) := by
    apply Tmpl.ind
    · intro es ih h; simp only [Tmpl.flagFree] at h; simpa [EqualRuns] using ih h
    · intro es ih h; simp only [Tmpl.flagFree] at h; simpa [EqualRuns] using ih h
    · intro _ _; rfl
    · intro _ _; rfl
    · intro _; rfl
    · intro u b rest ihu ihr h
      simp only [Tmpl.flagFreeElems, Bool.and_eq_true, Bool.not_eq_true'] at h
      obtain ⟨⟨rfl, h2⟩, h3⟩ := h
      simp [EqualRunsElems, ihu h2, ihr h3]
  have main : (∀ u, Tmpl.ok (p.vars lits) (p.ellGroups lits) u = true → EqualRuns β u = true) ∧
      (∀ es, Tmpl.okElems (p.vars lits) (p.ellGroups lits) es = true →
        EqualRunsElems β es = true) := by
    apply Tmpl.ind
    · intro es ih h; simp only [Tmpl.ok] at h; simpa [EqualRuns] using ih h
    · intro es ih h; simp only [Tmpl.ok] at h; simpa [EqualRuns] using ih h
    · intro _ _; rfl
    · intro _ _; rfl
    · intro _; rfl
    · intro u b rest ihu ihr h
      cases b with
      | false =>
        simp only [Tmpl.okElems, Bool.and_eq_true] at h
        simp [EqualRunsElems, ihu h.1, ihr h.2]
      | true =>
        simp only [Tmpl.okElems, Bool.and_eq_true] at h
        have hlen := copies_eq_length hs hm h.1
        have hff : u.flagFree = true := by
          have := h.1; simp only [Tmpl.ellOk, Bool.and_eq_true] at this; exact this.1.1
        have hall : ∀ l ∈ seqLens β u, l = copies β u := by
          intro l hl
          simp only [seqLens, List.mem_filterMap, Option.map_eq_some_iff] at hl
          obtain ⟨v, hv, ms, hms, rfl⟩ := hl
          exact hlen v hv ms hms
        have hc : copiesR7 β u = copies β u := by
          unfold copiesR7
          cases hsl : seqLens β u with
          | nil => simp [copies, hsl, minLen]
          | cons x xs => simpa using hall x (by simp [hsl])
        simp only [EqualRunsElems, Bool.and_eq_true, List.all_eq_true, beq_iff_eq]
        exact ⟨⟨fun l hl => by rw [hc]; exact hall l hl, hflag.1 u hff⟩, ihr h.2⟩
  exact main.1 t ht

example : SupportedRule [] (plist [plist [plist [.ident "n", .ident "v"], .ellipsis]],
    .list [(.list [(.ident "v", false), (.ident "n", false)], true)]) = true := rfl

/-- the wider class: the expander is the declarative expander `specTransform` (shortest-run
semantics), with the fuel it is actually run with -/
theorem transform_unequal_runs {fuel r use} (hs : SupportedRules' r = true)
    (hf : matchFuel use ≤ fuel) :
    transform fuel r use = specTransform r.literals r.rules use := by
  apply transformRules_eq_spec_wf hf
  intro rule hrule
  simp only [SupportedRules', List.all_eq_true] at hs
  have := hs rule hrule
  simp only [SupportedRule', SupportedTmpl', Bool.and_eq_true] at this
  exact ⟨this.1, (Tmpl.ok'_wf _ _).1 _ this.2⟩

example : SupportedRules' ⟨[], [zipRule]⟩ = true ∧
    specTransform [] [zipRule] (lst [lst [num 1, num 2, num 3], lst [num 4, num 5]]) =
      .ok (lst [lst [num 1, num 4], lst [num 2, num 5]]) := ⟨rfl, rfl⟩

/-- **the wider class, runs of equal length: the expander is the R7RS expander** — the first rule
in textual order whose pattern matches, its template instantiated the R7RS way -/
theorem transform_eq_spec' {fuel r use} (hs : SupportedRules' r = true)
    (heq : ∀ rule ∈ r.rules, ∀ β, specMatch r.literals rule.1 use = some β →
      EqualRuns β rule.2 = true)
    (hf : matchFuel use ≤ fuel) :
    transform fuel r use = specTransformR7 r.literals r.rules use := by
  rw [transform_unequal_runs hs hf]
  generalize r.rules = rules at heq
  induction rules with
  | nil => rfl
  | cons rule rules ih =>
    obtain ⟨p, t⟩ := rule
    simp only [specTransform, specTransformR7]
    cases hm : specMatch r.literals p use with
    | some β => simp only []; rw [specInst_eq_r7 (heq (p, t) (by simp) β hm)]
    | none => exact ih (fun rule hr => heq rule (by simp [hr]))

example : transform 100 ⟨[], [zipRule]⟩ (lst [lst [num 1, num 2], lst [num 3, num 4]]) =
      .ok (lst [lst [num 1, num 3], lst [num 2, num 4]]) ∧
    specTransformR7 [] [zipRule] (lst [lst [num 1, num 2], lst [num 3, num 4]]) =
      .ok (lst [lst [num 1, num 3], lst [num 2, num 4]]) := ⟨rfl, rfl⟩

/-! ## 2. From the written `syntax-rules` form to `Macro.Rules` -/

/-- the form `(syntax-rules (k) ((m k x) x) ((m x ...) '(x ...)))` used in the examples -/
def exSpec : Datum :=
  lst [sy "syntax-rules", lst [sy "k"],
    lst [lst [sy "m", sy "k", sy "x"], sy "x"],
    lst [lst [sy "m", sy "x", sy "..."], lst [sy "quote", lst [sy "x", sy "..."]]]]

/-! ### patterns -/

/-- `_` becomes the wildcard, `...` the ellipsis marker, any other identifier an identifier
pattern, a literal datum a literal-datum pattern, `()` the empty list pattern -/
theorem toPat_atoms (s : String) (q : Prim) (l : Loc) :
    toPat (.sym "_" l) = .underscore ∧ toPat (.sym "..." l) = .ellipsis ∧
    (s ≠ "_" → s ≠ "..." → toPat (.sym s l) = .ident s) ∧
    toPat (.prim q l) = .prim q ∧ toPat (.nil l) = .nil := by
  refine ⟨by simp [toPat_sym], by simp [toPat_sym], fun h1 h2 => by simp [toPat_sym, h1, h2],
    by rw [toPat], by rw [toPat]⟩

example : toPat (sy "_") = .underscore ∧ toPat (sy "...") = .ellipsis ∧ toPat (sy "x") = .ident "x" ∧
    toPat (num 5) = .prim (.int 5) := ⟨rfl, rfl, rfl, rfl⟩

/-- an identifier listed in the literals is a literal identifier of the pattern (it matches only
itself, `C04.literal_ident_matches_only_itself`), any other one is a pattern variable -/
theorem toPat_literal (lits : List String) (s : String) (l : Loc) (h1 : s ≠ "_") (h2 : s ≠ "...") :
    (toPat (.sym s l)).isLit lits = lits.contains s ∧
    (toPat (.sym s l)).vars lits = if lits.contains s then [] else [s] := by
  simp [toPat_sym, h1, h2, Pat.isLit, Pat.vars]

example : (toPat (sy "else")).isLit ["else", "=>"] = true ∧ (toPat (sy "x")).isLit ["else", "=>"] = false ∧
    (toPat (sy "x")).vars ["else", "=>"] = ["x"] := ⟨rfl, rfl, rfl⟩

/-- nested lists and vectors map element-wise (a pair maps car and cdr, so a dotted pattern stays
dotted) -/
theorem toPat_lists (a d : Datum) (es xs : List Datum) (u : Datum) (l : Loc) (hu : IsList u es) :
    toPat (.pair a d l) = .pair (toPat a) (toPat d) ∧
    toPat u = Pat.ofList (es.map toPat) ∧
    toPat (.vec xs l) = .vec (xs.map toPat) := by
  refine ⟨by rw [toPat], toPat_isList hu, by rw [toPat, toPats_eq_map]⟩

example : toPat (lst [sy "a", lst [sy "b", sy "..."], .vec [sy "_", num 1] none]) =
    plist [.ident "a", plist [.ident "b", .ellipsis], .vec [.underscore, .prim (.int 1)]] := rfl

/-! ### templates -/

/-- an identifier becomes an identifier template (whether it is a pattern variable is decided at
instantiation), a datum a literal datum, `()` the empty list template -/
theorem toTmpl_atoms (s : String) (q : Prim) (l : Loc) :
    toTmpl (.sym s l) = .ok (.ident s) ∧ toTmpl (.prim q l) = .ok (.prim q) ∧
    toTmpl (.nil l) = .ok (.list []) := by
  refine ⟨by rw [toTmpl], by rw [toTmpl], by rw [toTmpl]⟩

example : toTmpl (sy "x") = .ok (.ident "x") ∧ toTmpl (num 5) = .ok (.prim (.int 5)) := ⟨rfl, rfl⟩

/-- `collect_template_elements` reads the elements left to right: an element followed by `...` is
flagged and the `...` consumed; a `...` that follows nothing is a syntax error located at it
(`tmplElems` is this reading, without the accumulator of the Rust code) -/
theorem collectElems_eq_tmplElems (xs : List Datum) : collectElems xs none = tmplElems xs :=
  (collectElems_spec xs).1

example : tmplElems [sy "a", sy "...", sy "b"] = .ok [(.ident "a", true), (.ident "b", false)] ∧
    tmplElems [sy "a", sy "...", sy "..."] = .error (.syntax, none) ∧
    tmplElems [sy "..."] = .error (.syntax, none) := ⟨rfl, rfl, rfl⟩

/-- a list template is the reading of its elements (a dotted tail is flattened into the list,
the documented limit), a vector template likewise -/
theorem toTmpl_lists (a d : Datum) (xs : List Datum) (l : Loc) :
    toTmpl (.pair a d l) = (tmplElems (Datum.pair a d l).elems).map Tmpl.list ∧
    toTmpl (.vec xs l) = (tmplElems xs).map Tmpl.vec :=
  ⟨toTmpl_pair a d l, toTmpl_vec xs l⟩

example : toTmpl (lst [sy "if", sy "t", lst [sy "begin", sy "r", sy "..."]]) =
      .ok (.list [(.ident "if", false), (.ident "t", false),
        (.list [(.ident "begin", false), (.ident "r", true)], false)]) ∧
    toTmpl (.pair (sy "a") (sy "b") none) = .ok (.list [(.ident "a", false), (.ident "b", false)]) :=
  ⟨rfl, rfl⟩

/-! ### rules -/

/-- **a rule** is accepted exactly when it is written `((kw . pattern) template more…)` — the
pattern's FIRST element the identifier `kw` itself, the rest of the pattern a list — and the
template is well formed; the result is the `toPat` image of the pattern without its keyword and
the `toTmpl` image of the template (`ruleOf` is the declarative reading of the written rule) -/
theorem toRule_spec {kw : String} {d : Datum} {pt : Pat × Tmpl} :
    toRule kw d = .ok pt ↔
      ∃ patRest td t, ruleOf kw d = some (patRest, td) ∧ toTmpl td = .ok t ∧
        pt = (toPat patRest, t) :=
  toRule_ok_iff

example : ruleOf "m" (lst [lst [sy "m", sy "k", sy "x"], sy "x"]) = some (lst [sy "k", sy "x"], sy "x") ∧
    toRule "m" (lst [lst [sy "m", sy "k", sy "x"], sy "x"]) = .ok (plist [.ident "k", .ident "x"], .ident "x") :=
  ⟨rfl, rfl⟩

/-- **keyword mismatch**: a pattern whose first element is another identifier — `(_ x)`, or another
keyword — is rejected with a syntax error located at that identifier (the Rust code's
`MacroKeywordMissMatch`; the model's error kind is `.syntax`) -/
theorem toRule_keyword_mismatch {kw k : String} {lk la l : Loc} {patRest d' : Datum}
    (hp : patRest.isListy = true) (hk : k ≠ kw) :
    toRule kw (.pair (.pair (.sym k lk) patRest la) d' l) = .error (.syntax, lk) := by
  rw [toRule_pair hp, if_pos hk]

example : toRule "m" (lst [lst [.sym "_" (some (1, 2)), sy "x"], sy "x"]) = .error (.syntax, some (1, 2)) ∧
    toRule "m" (lst [lst [.sym "other" (some (3, 4)), sy "x"], sy "x"]) = .error (.syntax, some (3, 4)) :=
  ⟨rfl, rfl⟩

/-- **`toRules`** (`transform_transformer`) succeeds exactly when the form has the shape
`(syntax-rules (literal…) rule…)` (or `(syntax-rules ellipsis (literal…) rule…)`; `synRulesParts`
is this reading), every literal is an identifier and every rule is accepted with keyword `kw`; the
literals and rules of the result are the images of the written ones, position by position
(`MapOk`) -/
theorem toRules_spec (kw : String) (d : Datum) (r : Rules) :
    toRules kw d = .ok r ↔
      ∃ litDs ruleDs, synRulesParts d = some (litDs, ruleDs) ∧
        MapOk identOf litDs r.literals ∧ MapOk (toRule kw) ruleDs r.rules :=
  toRules_ok_iff kw d r

example : synRulesParts exSpec = some ([sy "k"],
      [lst [lst [sy "m", sy "k", sy "x"], sy "x"],
       lst [lst [sy "m", sy "x", sy "..."], lst [sy "quote", lst [sy "x", sy "..."]]]]) ∧
    toRules "m" exSpec = .ok ⟨["k"], [(plist [.ident "k", .ident "x"], .ident "x"),
      (plist [.ident "x", .ellipsis],
        .list [(.ident "quote", false), (.list [(.ident "x", true)], false)])]⟩ := ⟨rfl, rfl⟩

/-- **textual order**: the `i`-th rule of the result comes from the `i`-th written rule (and the
`i`-th literal is the `i`-th written literal), so that "the first rule, in textual order" of
`C04.transform_first_match` is the first rule of the source -/
theorem toRules_textual_order {kw : String} {d : Datum} {r : Rules} (h : toRules kw d = .ok r) :
    ∃ litDs ruleDs, synRulesParts d = some (litDs, ruleDs) ∧
      r.literals.length = litDs.length ∧ r.rules.length = ruleDs.length ∧
      (∀ (i : Nat) (h1 : i < litDs.length) (h2 : i < r.literals.length),
        ∃ l, litDs[i] = .sym r.literals[i] l) ∧
      (∀ (i : Nat) (h1 : i < ruleDs.length) (h2 : i < r.rules.length),
        ∃ patRest td t, ruleOf kw ruleDs[i] = some (patRest, td) ∧ toTmpl td = .ok t ∧
          r.rules[i] = (toPat patRest, t)) := by
  obtain ⟨litDs, ruleDs, hp, hl, hr⟩ := (toRules_spec kw d r).1 h
  refine ⟨litDs, ruleDs, hp, hl.length, hr.length, fun i h1 h2 => ?_, fun i h1 h2 => ?_⟩
  · have := hl.get i h1 h2
    cases hd : litDs[i] with
    | sym s l => rw [hd] at this; simp only [identOf, Except.ok.injEq] at this; exact ⟨l, by rw [this]⟩
    | prim _ _ | pair _ _ _ | nil _ | vec _ _ => rw [hd] at this; simp [identOf] at this
  · exact toRule_spec.1 (hr.get i h1 h2)

example : ∃ r, toRules "m" exSpec = .ok r ∧ r.rules.length = 2 ∧ r.literals = ["k"] := ⟨_, rfl, rfl, rfl⟩

/-- the first written rule that is not accepted decides the error: in particular a later rule with
the wrong keyword makes the whole `define-syntax` a syntax error located at that keyword -/
theorem toRules_keyword_mismatch {kw k : String} {d : Datum} {litDs pre post : List Datum}
    {lits : List String} {rs : List (Pat × Tmpl)} {lk la l : Loc} {patRest d' : Datum}
    (hparts : synRulesParts d = some (litDs, pre ++ .pair (.pair (.sym k lk) patRest la) d' l :: post))
    (hl : MapOk identOf litDs lits) (hpre : MapOk (toRule kw) pre rs)
    (hp : patRest.isListy = true) (hk : k ≠ kw) :
    toRules kw d = .error (.syntax, lk) := by
  rw [toRules_eq, (partsE_ok_iff d _).2 hparts]
  simp only [Except.bind, (mapM_ok_iff _ _ _).2 hl,
    mapM_first_error (toRule kw) hpre (toRule_keyword_mismatch (d' := d') (la := la) (l := l) hp hk)]

example : toRules "m" (lst [sy "syntax-rules", lst [],
      lst [lst [sy "m", sy "x"], sy "x"],
      lst [lst [.sym "_" (some (7, 8)), sy "x", sy "y"], sy "y"]]) = .error (.syntax, some (7, 8)) := rfl

/-- every way in which the front rejects a definition is a SYNTAX error: a malformed
`syntax-rules` form, a literal that is not an identifier, a malformed rule, a keyword mismatch, a
stray `...` in a template — never a panic, never another error kind -/
theorem front_errors_are_syntax {kw : String} {d : Datum} {e : SErr} :
    (toRules kw d = .error e → e.1 = .syntax) ∧ (toRule kw d = .error e → e.1 = .syntax) ∧
    (toTmpl d = .error e → e.1 = .syntax) :=
  ⟨toRules_error_syntax, toRule_error_syntax, toTmpl_error_syntax _ d (Nat.le_refl _) e⟩

example : toRules "m" (lst [sy "syntax-rules", lst [num 1]]) = .error (.syntax, none) ∧
    toRules "m" (sy "syntax-rules") = .error (.syntax, none) ∧
    toRules "m" (lst [sy "syntax-rules", lst [], lst [lst [sy "m"], lst [sy "..."]]]) =
      .error (.syntax, none) := ⟨rfl, rfl, rfl⟩

end Ruschm.C04More

/-
Helper lemmas for `C05Meaning.lean` (property C05, the MEANING of the bundled derived forms).

1. `Means σ ρ e v τ`: the model evaluates `e` (store `σ`, frame `ρ`) to the value `v`, leaving — up to
   the activation-depth instrumentation, `Store.erase` — the store `τ`. By `C01.model_iff_ref_value`
   this is the value judgement of the reference semantics `Ref.eval`; the evaluation rules below
   (`Means.cond_*`, `Means.call`, `Means.lambda_call`, …) are proved through it.
2. `XE env d e`: the parser's transformer turns the datum `d`, in the syntax environment `env`, into
   the expression `e`; inversion lemmas for the core shapes the templates build (`if`, lambda
   application, ordinary call, symbols, literals, `quote`) and for one expansion step.
-/
import RuschmProofs.C01
import RuschmProofs.TailLemmas

namespace Ruschm.Meaning
open Ruschm Ruschm.Eval Ruschm.Prim

/-! ## the value judgement -/

/-- the model evaluates `e` to the value `v`; `τ` is the final store with the depth counters erased -/
def Means (σ : Store) (ρ : Nat) (e : Expr) (v : Value) (τ : Store) : Prop :=
  ∃ n σ', evalExpr n σ ρ e = (.ok v, σ') ∧ σ'.erase = τ

/-- the model applies the procedure value `p` to `args` and gets the value `v` -/
def MeansApply (σ : Store) (p : Value) (args : List Value) (v : Value) (τ : Store) : Prop :=
  ∃ n σ' env, applyProcedure n σ p args env = (.ok v, σ') ∧ σ'.erase = τ

theorem means_iff_ref {σ ρ e v τ} : Means σ ρ e v τ ↔ ∃ m, Ref.eval m σ.erase ρ e = (.ok v, τ) :=
  C01.model_iff_ref_value

theorem meansApply_iff_ref {σ p args v τ} :
    MeansApply σ p args v τ ↔ ∃ m, Ref.apply m σ.erase p args = (.ok v, τ) := by
  constructor
  · rintro ⟨n, σ', env, h, rfl⟩
    obtain ⟨m, r', hm, ha⟩ := C01.applyProcedure_refines_ref h (by simp)
    cases r' with
    | ok v' => cases ha; exact ⟨m, hm⟩
    | error e => exact ha.elim
  · rintro ⟨m, h⟩
    obtain ⟨n, σ', hn, he⟩ := C01.ref_apply_refines_model h 0
    exact ⟨n, σ', 0, hn, he⟩

theorem Means.erased {σ ρ e v τ} (h : Means σ ρ e v τ) : τ.erase = τ := by
  obtain ⟨_, _, _, rfl⟩ := h; rfl

/-- only the erased start store matters -/
theorem means_erase {σ ρ e v τ} : Means σ.erase ρ e v τ ↔ Means σ ρ e v τ := by
  rw [means_iff_ref, means_iff_ref, Store.erase_erase]

theorem meansApply_erase {σ p args v τ} : MeansApply σ.erase p args v τ ↔ MeansApply σ p args v τ := by
  rw [meansApply_iff_ref, meansApply_iff_ref, Store.erase_erase]

theorem Means.of_evals {σ ρ e v σ'} (h : Evals σ ρ e (.ok v) σ') : Means σ ρ e v σ'.erase := by
  obtain ⟨_, n, hn⟩ := evals_iff.mp h
  exact ⟨n, σ', hn, rfl⟩

/-- the judgement is functional -/
theorem Means.unique {σ ρ e v₁ τ₁ v₂ τ₂} (h₁ : Means σ ρ e v₁ τ₁) (h₂ : Means σ ρ e v₂ τ₂) : v₁ = v₂ ∧ τ₁ = τ₂ := by
  obtain ⟨n₁, σ₁, h₁, rfl⟩ := h₁
  obtain ⟨n₂, σ₂, h₂, rfl⟩ := h₂
  have := (Evals.intro h₁ (by simp)).unique (Evals.intro h₂ (by simp))
  cases this.1; cases this.2; exact ⟨rfl, rfl⟩

/-! ## sequences -/

/-- operands: left to right, each exactly once -/
inductive MeansList (ρ : Nat) : Store → List Expr → List Value → Store → Prop
  | nil {σ} : MeansList ρ σ [] [] σ.erase
  | cons {σ e v σ₁ es vs τ} (h : Means σ ρ e v σ₁) (ht : MeansList ρ σ₁ es vs τ) : MeansList ρ σ (e :: es) (v :: vs) τ

/-- a body: every expression in order, the value of the last one -/
inductive MeansSeq (ρ : Nat) : Store → List Expr → Value → Store → Prop
  | one {σ e v τ} (h : Means σ ρ e v τ) : MeansSeq ρ σ [e] v τ
  | cons {σ e v₁ σ₁ e' es v τ} (h : Means σ ρ e v₁ σ₁) (ht : MeansSeq ρ σ₁ (e' :: es) v τ) :
      MeansSeq ρ σ (e :: e' :: es) v τ


theorem MeansList.erased {ρ σ es vs τ} (h : MeansList ρ σ es vs τ) : τ.erase = τ := by
  induction h with
  | nil => rfl
  | cons _ _ ih => exact ih

theorem MeansSeq.erased {ρ σ es v τ} (h : MeansSeq ρ σ es v τ) : τ.erase = τ := by
  induction h with
  | one h => exact h.erased
  | cons _ _ ih => exact ih

theorem MeansList.length {ρ σ es vs τ} (h : MeansList ρ σ es vs τ) : vs.length = es.length := by
  induction h with
  | nil => rfl
  | cons _ _ ih => simp [ih]

/-! ## through the reference semantics -/

theorem MeansList.ref {ρ σ es vs τ} (h : MeansList ρ σ es vs τ) : ∃ m, Ref.evalList m σ.erase ρ es = (.ok vs, τ) := by
  induction h with
  | nil => exact ⟨1, by rw [Ref.evalList]⟩
  | @cons σ e v σ₁ es vs τ h _ ih =>
    obtain ⟨m₁, h₁⟩ := means_iff_ref.mp h
    obtain ⟨m₂, h₂⟩ := ih
    rw [h.erased] at h₂
    refine ⟨max m₁ m₂ + 1, ?_⟩
    rw [Ref.evalList, Ref.eval_mono_le h₁ (by simp) (Nat.le_max_left _ _)]
    simp only
    rw [Ref.evalList_mono_le h₂ (by simp) (Nat.le_max_right _ _)]

theorem MeansSeq.ref {ρ σ es v τ} (h : MeansSeq ρ σ es v τ) : ∃ m, Ref.evalSeq m σ.erase ρ es = (.ok v, τ) := by
  induction h with
  | one h =>
    obtain ⟨m, hm⟩ := means_iff_ref.mp h
    exact ⟨m + 1, by rw [Ref.evalSeq]; exact hm⟩
  | @cons σ e v₁ σ₁ e' es v τ h _ ih =>
    obtain ⟨m₁, h₁⟩ := means_iff_ref.mp h
    obtain ⟨m₂, h₂⟩ := ih
    rw [h.erased] at h₂
    refine ⟨max m₁ m₂ + 1, ?_⟩
    rw [Ref.evalSeq]
    · rw [Ref.eval_mono_le h₁ (by simp) (Nat.le_max_left _ _)]
      simp only
      exact Ref.evalSeq_mono_le h₂ (by simp) (Nat.le_max_right _ _)
    · simp

theorem erase_pushFrame (σ : Store) (p : Nat) (D : List (String × Value)) :
    (σ.pushFrame p D).erase = σ.erase.pushFrame p D := rfl

/-! ## evaluation rules -/

theorem Means.prim {σ ρ p l v} (h : evalPrim p = .ok v) : Means σ ρ (.prim p l) v σ.erase :=
  .of_evals (Evals.prim h)
theorem Means.sym {σ ρ s l v} (h : σ.lookup ρ s = some v) : Means σ ρ (.sym s l) v σ.erase :=
  .of_evals (Evals.sym h)
theorem Means.lambda {σ ρ lam l} : Means σ ρ (.lambda lam l) (.closure lam ρ) σ.erase :=
  .of_evals Evals.lambda

theorem Means.quote {σ ρ d l v σ'} (h : readLiteral σ d = (.ok v, σ')) : Means σ ρ (.quote d l) v σ'.erase :=
  .of_evals (Evals.quote h (by simp))

theorem Means.cond_true {σ ρ t c a l tv σ₁ v τ} (ht : Means σ ρ t tv σ₁) (htv : tv.truthy = true)
    (hc : Means σ₁ ρ c v τ) : Means σ ρ (.cond t c a l) v τ := by
  obtain ⟨m₁, h₁⟩ := means_iff_ref.mp ht
  obtain ⟨m₂, h₂⟩ := means_iff_ref.mp hc
  rw [ht.erased] at h₂
  refine means_iff_ref.mpr ⟨max m₁ m₂ + 1, ?_⟩
  rw [Ref.eval, Ref.eval_mono_le h₁ (by simp) (Nat.le_max_left _ _)]
  simp only [htv, if_true]
  exact Ref.eval_mono_le h₂ (by simp) (Nat.le_max_right _ _)

theorem Means.cond_false {σ ρ t c alt l tv σ₁ v τ} (ht : Means σ ρ t tv σ₁) (htv : tv.truthy = false)
    (hc : Means σ₁ ρ alt v τ) : Means σ ρ (.cond t c (some alt) l) v τ := by
  obtain ⟨m₁, h₁⟩ := means_iff_ref.mp ht
  obtain ⟨m₂, h₂⟩ := means_iff_ref.mp hc
  rw [ht.erased] at h₂
  refine means_iff_ref.mpr ⟨max m₁ m₂ + 1, ?_⟩
  rw [Ref.eval, Ref.eval_mono_le h₁ (by simp) (Nat.le_max_left _ _)]
  simp only [htv]
  exact Ref.eval_mono_le h₂ (by simp) (Nat.le_max_right _ _)

/-- an `if` without alternative whose test is false: the model's value is `Void` -/
theorem Means.cond_void {σ ρ t c l tv σ₁} (ht : Means σ ρ t tv σ₁) (htv : tv.truthy = false) :
    Means σ ρ (.cond t c none l) .void σ₁ := by
  obtain ⟨m₁, h₁⟩ := means_iff_ref.mp ht
  refine means_iff_ref.mpr ⟨m₁ + 1, ?_⟩
  rw [Ref.eval, h₁]
  simp [htv]

/-- a procedure call: operator, operands left to right, application -/
theorem Means.call {σ ρ f args l fv σ₁ vs σ₂ v τ} (hf : Means σ ρ f fv σ₁) (hargs : MeansList ρ σ₁ args vs σ₂)
    (happ : MeansApply σ₂ fv vs v τ) : Means σ ρ (.call f args l) v τ := by
  obtain ⟨m₁, h₁⟩ := means_iff_ref.mp hf
  obtain ⟨m₂, h₂⟩ := hargs.ref
  obtain ⟨m₃, h₃⟩ := meansApply_iff_ref.mp happ
  rw [hf.erased] at h₂
  rw [hargs.erased] at h₃
  refine means_iff_ref.mpr ⟨max m₁ (max m₂ m₃) + 1, ?_⟩
  have hp : (procArity fv).isSome := by
    cases m₃ with
    | zero => rw [Ref.apply] at h₃; cases h₃
    | succ k =>
      unfold Ref.apply at h₃
      cases hpa : procArity fv with
      | none => simp only [hpa] at h₃; cases h₃
      | some a => rfl
  obtain ⟨a, ha⟩ := Option.isSome_iff_exists.mp hp
  rw [Ref.eval, Ref.eval_mono_le h₁ (by simp) (by omega)]
  simp only
  rw [Ref.evalList_mono_le h₂ (by simp) (by omega)]
  simp only [ha]
  exact Ref.apply_mono_le h₃ (by simp) (by omega)

/-- applying a user procedure without internal definitions and without rest parameter: a fresh frame,
child of the closure's frame, binds the parameters; the body runs there -/
theorem MeansApply.closure {σ names bes cenv vs v τ} (hlen : names.length = vs.length)
    (hbody : MeansSeq σ.frames.size (σ.pushFrame cenv (bindList [] names vs)) bes v τ) :
    MeansApply σ (.closure (.mk ⟨names, none⟩ [] bes) cenv) vs v τ := by
  obtain ⟨m, hm⟩ := hbody.ref
  refine meansApply_iff_ref.mpr ⟨m + 1, ?_⟩
  rw [Ref.apply]
  have hok : arityOk names.length false vs.length = true := by simp [arityOk, hlen]
  simp only [procArity, Lambda.formals, Option.isSome_none, hok, Bool.not_true, Bool.false_eq_true, if_false]
  have hb := bindFixed_pushFrame σ.erase cenv names vs [] (by omega)
  simp only [Store.newFrame_eq, Lambda.defs, Lambda.body]
  rw [show σ.erase.frames.size = σ.frames.size from rfl] at *
  rw [hb]
  simp only [Ref.bindRest]
  cases m with
  | zero => rw [Ref.evalSeq] at hm; cases hm
  | succ k =>
    rw [Ref.evalDefs]
    simp only
    rw [erase_pushFrame] at hm
    exact hm

/-- the application of a `lambda` expression in operator position — what `begin`, `let` expand to -/
theorem Means.lambda_call {σ ρ names bes vals l l' vs σ₁ v τ} (hvals : MeansList ρ σ vals vs σ₁)
    (hbody : MeansSeq σ₁.frames.size (σ₁.pushFrame ρ (bindList [] names vs)) bes v τ)
    (hlen : names.length = vals.length) :
    Means σ ρ (.call (.lambda (.mk ⟨names, none⟩ [] bes) l) vals l') v τ := by
  refine Means.call Means.lambda ?_ (MeansApply.closure (by rw [hlen, hvals.length]) hbody)
  exact (by
    have : ∀ {σ es vs τ}, MeansList ρ σ es vs τ → MeansList ρ σ.erase es vs τ := by
      intro σ es vs τ h
      cases h with
      | nil => exact .nil
      | cons h ht => exact .cons (means_erase.mpr h) ht
    exact this hvals)

theorem MeansSeq.of_erase {ρ σ es v τ} (h : MeansSeq ρ σ.erase es v τ) : MeansSeq ρ σ es v τ := by
  cases h with
  | one h => exact .one (means_erase.mp h)
  | cons h ht => exact .cons (means_erase.mp h) ht

theorem MeansSeq.to_erase {ρ σ es v τ} (h : MeansSeq ρ σ es v τ) : MeansSeq ρ σ.erase es v τ := by
  cases h with
  | one h => exact .one (means_erase.mpr h)
  | cons h ht => exact .cons (means_erase.mpr h) ht

/-- a native procedure other than `apply` -/
theorem MeansApply.builtin {σ b args v σ'} (hb : b ≠ .apply) (ha : arityOk b.arity.1 b.arity.2 args.length = true)
    (h : applyPure (enter σ) b args = (.ok v, σ')) : MeansApply σ (.builtin b) args v σ'.erase := by
  have := AppliesProc.of_loop (env := 0) (Applies.builtin hb ha h (by simp))
  obtain ⟨_, N, hN⟩ := this.out
  exact ⟨N, leave σ', 0, hN N (Nat.le_refl _), rfl⟩

/-- from a run of the trampoline -/
theorem MeansApply.of_applies {σ p args env v σ'} (h : Applies (enter σ) p args env (.ok v) σ') :
    MeansApply σ p args v σ'.erase := by
  obtain ⟨_, N, hN⟩ := (AppliesProc.of_loop h).out
  exact ⟨N, leave σ', env, hN N (Nat.le_refl _), rfl⟩

end Ruschm.Meaning

namespace Ruschm.Meaning
open Ruschm Ruschm.Xform Ruschm.Xform.Keep Ruschm.Macro

/-! ## what the transformer makes of a datum -/

/-- the lists correspond element by element -/
inductive All2 {α β} (R : α → β → Prop) : List α → List β → Prop
  | nil : All2 R [] []
  | cons {a b as bs} (h : R a b) (t : All2 R as bs) : All2 R (a :: as) (b :: bs)

theorem All2.length {α β} {R : α → β → Prop} {as bs} (h : All2 R as bs) : as.length = bs.length := by
  induction h with
  | nil => rfl
  | cons _ _ ih => simp [ih]

/-- the transformer turns `d`, in the syntax environment `env` (which it leaves unchanged), into the
expression `e` -/
def XE (env : SynEnv) (d : Datum) (e : Expr) : Prop := ∃ n, toStatement n d env = (.ok (.expr e), env)

theorem XE.of_run {n d env e env'} (h : toStatement n d env = (.ok (.expr e), env')) : XE env d e := by
  have := ((keepAll n).stmt d).keep env _ env' h trivial
  subst this; exact ⟨n, h⟩

theorem XE.of_toExpr {n d env e env'} (h : toExpr n d env = (.ok e, env')) : XE env d e := by
  obtain ⟨m, _, hm⟩ := toExpr_ok_inv h
  exact .of_run hm

theorem toExprs_inv : ∀ {ds : List Datum} {n env es env'}, toExprs n ds env = (.ok es, env') →
    env' = env ∧ All2 (XE env) ds es
  | [], n, env, es, env', h => by
    cases n with
    | zero => rw [toExprs] at h; cases h
    | succ n => rw [toExprs] at h; cases h; exact ⟨rfl, .nil⟩
  | d :: ds, n, env, es, env', h => by
    cases n with
    | zero => rw [toExprs] at h; cases h
    | succ n =>
      rw [toExprs] at h
      obtain ⟨e, env₁, h₁, h₂⟩ := bind_ok h
      have := ((keepAll n).expr d).keep env e env₁ h₁ trivial
      subst this
      obtain ⟨es', env₂, h₃, h₄⟩ := bind_ok h₂
      cases h₄
      obtain ⟨rfl, hf⟩ := toExprs_inv h₃
      exact ⟨rfl, .cons (.of_toExpr h₁) hf⟩

theorem toCall_inv {n f args loc env e env'} (h : toCall n f args loc env = (.ok e, env')) :
    ∃ fe aes, XE env f fe ∧ All2 (XE env) args aes ∧ e = .call fe aes loc := by
  cases n with
  | zero => rw [toCall] at h; cases h
  | succ m =>
    rw [toCall] at h
    obtain ⟨fe, env₁, h₁, h₂⟩ := bind_ok h
    have := ((keepAll m).expr f).keep env fe env₁ h₁ trivial
    subst this
    obtain ⟨as, env₂, h₃, h₄⟩ := bind_ok h₂
    cases h₄
    exact ⟨fe, as, .of_toExpr h₁, (toExprs_inv h₃).2, rfl⟩

/-- the eight keywords of the core forms -/
def coreKeywords : List String := ["define", "define-library", "lambda", "if", "import", "quote", "set!", "define-syntax"]

/-- `h` in operator position makes an ordinary procedure call: it is not the keyword of a core form
nor, in `env`, of a macro -/
def Ordinary (env : SynEnv) (h : Datum) : Prop :=
  ∀ s l, h = .sym s l → s ∉ coreKeywords ∧ env.get? s = none

theorem ordinary_of_list {env h x xs} (hl : IsList h (x :: xs)) : Ordinary env h := by
  intro s l hs; subst hs; simp [IsList, Datum.spine] at hl

/-- an ordinary call `(h arg…)` -/
theorem XE.call_inv {env d h args e} (hx : XE env d e) (hd : IsList d (h :: args)) (ho : Ordinary env h) :
    ∃ fe aes l, XE env h fe ∧ All2 (XE env) args aes ∧ e = .call fe aes l := by
  obtain ⟨n, hx⟩ := hx
  obtain ⟨dd, l, rfl, hdd⟩ := isList_cons_inv hd
  cases n with
  | zero => rw [toStatement] at hx; cases hx
  | succ n =>
    have hcall : toCall n h dd.elems l env = (.ok e, env) := by
      rw [toStatement] at hx
      have hpop : Macro.popProper (.pair h dd l) = .ok (some (h, dd)) := by
        cases dd <;> first | rfl | (simp [IsList, Datum.spine] at hdd)
      simp only [bind_run, lift, hpop, Datum.loc] at hx
      cases h with
      | sym s ls =>
        obtain ⟨hk, hg⟩ := ho s ls rfl
        simp only [coreKeywords, List.mem_cons, List.mem_nil_iff, or_false, not_or] at hk
        obtain ⟨h1, h2, h3, h4, h5, h6, h7, h8⟩ := hk
        simp only [h1, h2, h3, h4, h5, h6, h7, h8, if_false] at hx
        obtain ⟨envv, e₁, hg', hx₁⟩ := bind_ok hx
        cases hg'
        simp only [hg] at hx₁
        obtain ⟨c, env₁, hc, hp⟩ := bind_ok hx₁
        cases hp
        exact hc
      | _ =>
        simp only at hx
        obtain ⟨c, env₁, hc, hp⟩ := bind_ok hx
        cases hp
        exact hc
    rw [elems_of_isList hdd] at hcall
    obtain ⟨fe, aes, h₁, h₂, rfl⟩ := toCall_inv hcall
    exact ⟨fe, aes, l, h₁, h₂, rfl⟩


/-- `(if t c)` and `(if t c a)` -/
theorem XE.if_inv {env d i t c rest e} (hx : XE env d e) (hd : IsList d (i :: t :: c :: rest)) (hi : isSym "if" i = true) :
    ∃ te ce l, XE env t te ∧ XE env c ce ∧
      ((rest = [] ∧ e = .cond te ce none l) ∨ (∃ a rest' ae, rest = a :: rest' ∧ XE env a ae ∧ e = .cond te ce (some ae) l)) := by
  obtain ⟨n, hx⟩ := hx
  obtain ⟨m, te, ce, alt, l, rfl, ht, hc, rfl, ha⟩ := toStatement_if_inv hd hi hx
  refine ⟨te, ce, l, .of_toExpr ht, .of_toExpr hc, ?_⟩
  cases rest with
  | nil =>
    -- no alternative: the transformer produced `none`
    left
    refine ⟨rfl, ?_⟩
    cases alt with
    | none => rfl
    | some ae =>
      exfalso
      obtain ⟨dd, l₀, rfl, hdd⟩ := isList_cons_inv hd
      obtain ⟨dd', l', rfl, hdd'⟩ := isList_cons_inv hdd
      obtain ⟨dd'', l'', rfl, hdd''⟩ := isList_cons_inv hdd'
      obtain ⟨li, rfl⟩ := isSym_inv hi
      rw [toStatement] at hx
      simp (config := {decide := true}) only [bind_run, lift, Macro.popProper, if_true, if_false, Datum.loc,
        elems_of_isList hdd, List.head?_cons, List.drop_succ_cons, List.drop_zero, need, XM.pure_run, ht, hc,
        List.head?_nil] at hx
      cases hx
  | cons a rest' =>
    right
    obtain ⟨ae, rfl, ha'⟩ := ha a rest' rfl
    exact ⟨a, rest', ae, rfl, .of_toExpr ha', rfl⟩

theorem XE.sym_inv {env s l e} (hx : XE env (.sym s l) e) : e = .sym s l := by
  obtain ⟨n, hx⟩ := hx
  cases n with
  | zero => rw [toStatement] at hx; cases hx
  | succ n => rw [toStatement] at hx; cases hx; rfl

theorem XE.sym (env : SynEnv) (s : String) (l : Loc) : XE env (.sym s l) (.sym s l) := ⟨1, by rw [toStatement]; rfl⟩

theorem XE.prim_inv {env p l e} (hx : XE env (.prim p l) e) : e = .prim p l := by
  obtain ⟨n, hx⟩ := hx
  cases n with
  | zero => rw [toStatement] at hx; cases hx
  | succ n => rw [toStatement] at hx; cases hx; rfl

/-- `(quote x)` -/
theorem XE.quote_inv {env d q x e} (hx : XE env d e) (hd : IsList d [q, x]) (hq : isSym "quote" q = true) :
    ∃ l, e = .quote x l := by
  obtain ⟨n, hx⟩ := hx
  obtain ⟨dd, l, rfl, hdd⟩ := isList_cons_inv hd
  obtain ⟨dd', l', rfl, hdd'⟩ := isList_cons_inv hdd
  obtain ⟨lq, rfl⟩ := isSym_inv hq
  cases n with
  | zero => rw [toStatement] at hx; cases hx
  | succ n =>
    rw [toStatement] at hx
    simp (config := {decide := true}) only [bind_run, lift, Macro.popProper, if_true, if_false, Datum.loc,
      elems_of_isList hdd, List.head?_cons, need, XM.pure_run] at hx
    cases hx
    exact ⟨l, rfl⟩

/-- the name a formal parameter datum stands for -/
def symName : Datum → String
  | .sym s _ => s
  | _ => ""

theorem toFormals_list {d : Datum} {ds : List Datum} {env F env'} (h : toFormals d env = (.ok F, env'))
    (hd : IsList d ds) : F = ⟨ds.map symName, none⟩ := by
  have hsp : d.spine = (ds, none) := hd
  unfold toFormals at h
  cases d with
  | pair a b l =>
    simp only [hsp] at h
    generalize List.find? _ _ = x at h
    cases x with
    | some b => cases h
    | none =>
      cases h
      congr 1
  | nil l =>
    simp only [hsp] at h
    generalize List.find? _ _ = x at h
    cases x with
    | some b => cases h
    | none =>
      cases h
      congr 1
  | _ => simp [IsList, Datum.spine] at hd

/-- no form of `bs` is a definition (in `env`) -/
def NoDefs (env : SynEnv) (bs : List Datum) : Prop :=
  ∀ b ∈ bs, ∀ m df env', toStatement m b env ≠ (.ok (.definition df), env')

/-- a body all of whose forms are expressions -/
theorem toBody_nodefs {env : SynEnv} : ∀ (bs : List Datum) {m exprs0 D E env'},
    toBody m bs [] exprs0 env = (.ok (D, E), env') → NoDefs env bs →
    D = [] ∧ ∃ bes, E = exprs0.reverse ++ bes ∧ All2 (XE env) bs bes
  | [], m, exprs0, D, E, env', h, _ => by
    cases m with
    | zero => rw [toBody] at h; cases h
    | succ m =>
      rw [toBody] at h
      split at h
      · cases h
      · cases h; exact ⟨rfl, [], by simp, .nil⟩
  | b :: bs, m, exprs0, D, E, env', h, hnd => by
    cases m with
    | zero => rw [toBody] at h; cases h
    | succ m =>
      rw [toBody] at h
      obtain ⟨s, env₁, h₁, h₂⟩ := bind_ok h
      cases s with
      | expr e =>
        have := ((keepAll m).stmt b).keep env _ env₁ h₁ trivial
        subst this
        simp only at h₂
        obtain ⟨hD, bes, hE, hall⟩ := toBody_nodefs bs h₂ (fun b' hb' => hnd b' (List.mem_cons_of_mem _ hb'))
        exact ⟨hD, e :: bes, by simp [hE], .cons ⟨m, h₁⟩ hall⟩
      | definition df => exact absurd h₁ (hnd b (List.mem_cons_self ..) m df env₁)
      | _ => cases h₂

/-- a fresh empty child scope does not change what a datum is transformed into -/
theorem toStatement_child (n : Nat) (d : Datum) (env : SynEnv) :
    (toStatement n d ([] :: env)).1 = (toStatement n d env).1 := by
  cases env with
  | nil => exact (((relAll (R := BotRel) n).stmt d).rel 0 [[]] [] (.inl ⟨rfl, rfl⟩)).1
  | cons h t => exact (((relAll (R := SqRel t) n).stmt d).rel 0 ([] :: h :: t) (h :: t) (.here fun k => by simp)).1

theorem xe_child_iff {env d e} : XE ([] :: env) d e ↔ XE env d e := by
  constructor
  · rintro ⟨n, h⟩
    have := toStatement_child n d env
    rw [h] at this
    generalize hr : toStatement n d env = x at this
    obtain ⟨r, env'⟩ := x
    simp only at this
    subst this
    exact .of_run hr
  · rintro ⟨n, h⟩
    have := toStatement_child n d env
    rw [h] at this
    generalize hr : toStatement n d ([] :: env) = x at this
    obtain ⟨r, env'⟩ := x
    simp only at this
    subst this
    exact .of_run hr

theorem noDefs_child_iff {env bs} : NoDefs ([] :: env) bs ↔ NoDefs env bs := by
  constructor
  · intro h b hb m df env' hx
    have := toStatement_child m b env
    rw [hx] at this
    generalize hr : toStatement m b ([] :: env) = x at this
    obtain ⟨r, env''⟩ := x
    simp only at this
    subst this
    exact h b hb m df env'' hr
  · intro h b hb m df env' hx
    have := toStatement_child m b env
    rw [hx] at this
    generalize hr : toStatement m b env = x at this
    obtain ⟨r, env''⟩ := x
    simp only at this
    subst this
    exact h b hb m df env'' hr

theorem All2.imp {α β} {R S : α → β → Prop} (h : ∀ a b, R a b → S a b) {as bs} (hl : All2 R as bs) : All2 S as bs := by
  induction hl with
  | nil => exact .nil
  | cons hab _ ih => exact .cons (h _ _ hab) ih

/-- `(lambda formals body…)` whose body forms are expressions -/
theorem XE.lambda_inv {env lam k formals body e} (hx : XE env lam e) (hl : IsList lam (k :: formals :: body))
    (hk : isSym "lambda" k = true) (hnd : NoDefs env body) :
    ∃ F bes loc, toFormals formals env = (.ok F, env) ∧ All2 (XE env) body bes ∧
      e = .lambda (.mk F [] bes) loc := by
  replace hnd := noDefs_child_iff.mpr hnd
  obtain ⟨n, h⟩ := hx
  obtain ⟨dd, l, rfl, hdd⟩ := isList_cons_inv hl
  obtain ⟨dd', l', rfl, hdd'⟩ := isList_cons_inv hdd
  obtain ⟨lk, rfl⟩ := isSym_inv hk
  cases n with
  | zero => rw [toStatement] at h; cases h
  | succ m =>
    rw [toStatement] at h
    simp (config := {decide := true}) only [bind_run, lift, Macro.popProper, if_true, if_false, Datum.loc,
      elems_of_isList hdd] at h
    generalize hlam : toLambda m (formals :: body) env = x at h
    obtain ⟨r, s₁⟩ := x
    cases r with
    | error er => cases h
    | ok lamv =>
      simp only [XM.pure_run, Prod.mk.injEq, Except.ok.injEq, Statement.expr.injEq] at h
      cases m with
      | zero => rw [toLambda] at hlam; cases hlam
      | succ m' =>
        rw [toLambda] at hlam
        simp only [List.head?_cons, List.drop_succ_cons, List.drop_zero, need] at hlam
        obtain ⟨_, e₀, h₀, hlam₁⟩ := bind_ok hlam
        cases h₀
        clear hlam
        obtain ⟨F, env₁, hF, hlam₂⟩ := bind_ok hlam₁
        clear hlam₁
        have := (KeepIf.toFormals (Q' := Tt) formals).keep _ _ _ hF trivial
        subst this
        obtain ⟨bx, env₂, hb, hlam₃⟩ := bind_ok hlam₂
        cases hlam₃
        obtain ⟨defs, bodyE⟩ := bx
        simp only [inChild] at hb
        generalize hbody : toBody m' body [] [] ([] :: env₁) = y at hb
        obtain ⟨rb, sb⟩ := y
        have hrb : rb = .ok (defs, bodyE) := by
          cases sb <;> simp only [Prod.mk.injEq] at hb <;> exact hb.1
        subst hrb
        obtain ⟨rfl, bes, hE, hall⟩ := toBody_nodefs body hbody hnd
        simp only [List.reverse_nil, List.nil_append] at hE
        exact ⟨F, bodyE, l, hF, (hE ▸ hall).imp (fun _ _ => xe_child_iff.mp), h.1.symm⟩

/-- a body of exactly one form: that form is an expression -/
theorem toBody_single {env : SynEnv} {b : Datum} {m D E env'} (h : toBody m [b] [] [] env = (.ok (D, E), env')) :
    D = [] ∧ ∃ be, E = [be] ∧ XE env b be := by
  cases m with
  | zero => rw [toBody] at h; cases h
  | succ m =>
    rw [toBody] at h
    obtain ⟨s, env₁, h₁, h₂⟩ := bind_ok h
    cases s with
    | expr e =>
      have := ((keepAll m).stmt b).keep env _ env₁ h₁ trivial
      subst this
      simp only at h₂
      cases m with
      | zero => rw [toBody] at h₂; cases h₂
      | succ m' =>
        rw [toBody] at h₂
        simp only [List.isEmpty_cons, Bool.false_eq_true, if_false] at h₂
        cases h₂
        exact ⟨rfl, e, rfl, ⟨m' + 1, h₁⟩⟩
    | definition df =>
      simp only [List.isEmpty_nil, if_true] at h₂
      cases m with
      | zero => rw [toBody] at h₂; cases h₂
      | succ m' =>
        rw [toBody] at h₂
        simp only [List.isEmpty_nil, if_true] at h₂
        cases h₂
    | _ => cases h₂

/-- `(lambda formals form)` with a single body form -/
theorem XE.lambda_inv1 {env lam k formals b e} (hx : XE env lam e) (hl : IsList lam [k, formals, b])
    (hk : isSym "lambda" k = true) :
    ∃ F be loc, toFormals formals env = (.ok F, env) ∧ XE env b be ∧ e = .lambda (.mk F [] [be]) loc := by
  obtain ⟨n, h⟩ := hx
  obtain ⟨dd, l, rfl, hdd⟩ := isList_cons_inv hl
  obtain ⟨dd', l', rfl, hdd'⟩ := isList_cons_inv hdd
  obtain ⟨lk, rfl⟩ := isSym_inv hk
  cases n with
  | zero => rw [toStatement] at h; cases h
  | succ m =>
    rw [toStatement] at h
    simp (config := {decide := true}) only [bind_run, lift, Macro.popProper, if_true, if_false, Datum.loc,
      elems_of_isList hdd] at h
    generalize hlam : toLambda m [formals, b] env = x at h
    obtain ⟨r, s₁⟩ := x
    cases r with
    | error er => cases h
    | ok lamv =>
      simp only [XM.pure_run, Prod.mk.injEq, Except.ok.injEq, Statement.expr.injEq] at h
      cases m with
      | zero => rw [toLambda] at hlam; cases hlam
      | succ m' =>
        rw [toLambda] at hlam
        simp only [List.head?_cons, List.drop_succ_cons, List.drop_zero, need] at hlam
        obtain ⟨_, e₀, h₀, hlam₁⟩ := bind_ok hlam
        cases h₀
        clear hlam
        obtain ⟨F, env₁, hF, hlam₂⟩ := bind_ok hlam₁
        clear hlam₁
        have := (KeepIf.toFormals (Q' := Tt) formals).keep _ _ _ hF trivial
        subst this
        obtain ⟨bx, env₂, hb, hlam₃⟩ := bind_ok hlam₂
        cases hlam₃
        obtain ⟨defs, bodyE⟩ := bx
        simp only [inChild] at hb
        generalize hbody : toBody m' [b] [] [] ([] :: env₁) = y at hb
        obtain ⟨rb, sb⟩ := y
        have hrb : rb = .ok (defs, bodyE) := by
          cases sb <;> simp only [Prod.mk.injEq] at hb <;> exact hb.1
        subst hrb
        obtain ⟨rfl, be, rfl, hbe⟩ := toBody_single hbody
        exact ⟨F, be, l, hF, xe_child_iff.mp hbe, h.1.symm⟩

/-- `((lambda formals form) arg…)` with a single body form -/
theorem XE.lambda_call_inv1 {env d lam args k formals b e} (hx : XE env d e) (hd : IsList d (lam :: args))
    (hl : IsList lam [k, formals, b]) (hk : isSym "lambda" k = true) :
    ∃ F be aes l₁ l₂, toFormals formals env = (.ok F, env) ∧ XE env b be ∧
      All2 (XE env) args aes ∧ e = .call (.lambda (.mk F [] [be]) l₁) aes l₂ := by
  obtain ⟨fe, aes, l₂, hfe, haes, rfl⟩ := hx.call_inv hd (ordinary_of_list hl)
  obtain ⟨F, be, l₁, hF, hbe, rfl⟩ := hfe.lambda_inv1 hl hk
  exact ⟨F, be, aes, l₁, l₂, hF, hbe, haes, rfl⟩

/-- the application of a lambda expression `((lambda formals body…) arg…)` -/
theorem XE.lambda_call_inv {env d lam args k formals body e} (hx : XE env d e) (hd : IsList d (lam :: args))
    (hl : IsList lam (k :: formals :: body)) (hk : isSym "lambda" k = true) (hnd : NoDefs env body) :
    ∃ F bes aes l₁ l₂, toFormals formals env = (.ok F, env) ∧ All2 (XE env) body bes ∧
      All2 (XE env) args aes ∧ e = .call (.lambda (.mk F [] bes) l₁) aes l₂ := by
  obtain ⟨fe, aes, l₂, hfe, haes, rfl⟩ := hx.call_inv hd (ordinary_of_list hl)
  obtain ⟨F, bes, l₁, hF, hbes, rfl⟩ := hfe.lambda_inv hl hk hnd
  exact ⟨F, bes, aes, l₁, l₂, hF, hbes, haes, rfl⟩

/-- one expansion step of a bundled derived form -/
theorem XE.expand_inv {env kw l₁ rest l d' e} (hx : XE env (.pair (.sym kw l₁) rest l) e) (hstd : StdEnv env)
    (hkw : kw ∈ C05.keywords)
    (hxp : ∀ fuel, matchFuel (rest.withLoc l) ≤ fuel → expand1 fuel kw (rest.withLoc l) = .ok d') : XE env d' e := by
  obtain ⟨n, hx⟩ := hx
  have hget := hstd kw hkw
  cases hr : Macro.grammarRules kw with
  | none =>
    have := hxp (Macro.matchFuel (rest.withLoc l)) (Nat.le_refl _)
    simp only [Macro.expand1, hr] at this
    cases this
  | some rules =>
    rw [hr] at hget
    obtain ⟨m, expanded, rfl, ht, hx'⟩ := toStatement_macro_inv hkw hget hx
    have hfuel : Macro.matchFuel (rest.withLoc l) ≤ Macro.matchFuel (.pair (.sym kw l₁) rest l) + m := by
      simp only [Macro.matchFuel, size_withLoc, Datum.size]; omega
    have := hxp _ hfuel
    simp only [Macro.expand1, hr] at this
    rw [ht] at this
    cases this
    exact ⟨m, hx'⟩


/-- an ordinary call is transformed by `transform_procedure_call`, whatever the fuel -/
theorem toStatement_call_eq {env d h args} (hd : IsList d (h :: args)) (ho : Ordinary env h) (n : Nat) :
    ∃ l, toStatement (n+1) d env = (toCall n h args l >>= fun c => pure (Statement.expr c)) env := by
  obtain ⟨dd, l, rfl, hdd⟩ := isList_cons_inv hd
  refine ⟨l, ?_⟩
  rw [toStatement]
  have hpop : Macro.popProper (.pair h dd l) = .ok (some (h, dd)) := by
    cases dd <;> first | rfl | (simp [IsList, Datum.spine] at hdd)
  simp only [bind_run, lift, hpop, Datum.loc, elems_of_isList hdd]
  cases h with
  | sym s ls =>
    obtain ⟨hk, hg⟩ := ho s ls rfl
    simp only [coreKeywords, List.mem_cons, List.mem_nil_iff, or_false, not_or] at hk
    obtain ⟨h1, h2, h3, h4, h5, h6, h7, h8⟩ := hk
    simp only [h1, h2, h3, h4, h5, h6, h7, h8, if_false]
    rw [bind_run]
    simp only [getEnv, hg]
    rfl
  | _ => rfl

/-- … so it is never a definition -/
theorem not_def_call {env d h args} (hd : IsList d (h :: args)) (ho : Ordinary env h) (m : Nat) (df : Def) (env' : SynEnv) :
    toStatement m d env ≠ (.ok (.definition df), env') := by
  intro hx
  cases m with
  | zero => rw [toStatement] at hx; cases hx
  | succ n =>
    obtain ⟨l, heq⟩ := toStatement_call_eq hd ho n
    rw [heq] at hx
    obtain ⟨c, env₁, _, hp⟩ := bind_ok hx
    cases hp

theorem not_def_prim {env p l} (m : Nat) (df : Def) (env' : SynEnv) :
    toStatement m (.prim p l) env ≠ (.ok (.definition df), env') := by
  intro hx
  cases m with
  | zero => rw [toStatement] at hx; cases hx
  | succ n => rw [toStatement] at hx; cases hx

theorem not_def_sym {env s l} (m : Nat) (df : Def) (env' : SynEnv) :
    toStatement m (.sym s l) env ≠ (.ok (.definition df), env') := by
  intro hx
  cases m with
  | zero => rw [toStatement] at hx; cases hx
  | succ n => rw [toStatement] at hx; cases hx

theorem MeansList.one {ρ σ e v τ} (h : Means σ ρ e v τ) : MeansList ρ σ [e] [v] τ := by
  have := MeansList.cons h (.nil (ρ := ρ) (σ := τ))
  rwa [h.erased] at this

/-- `(not e)` where `not` is the native procedure: `#t` exactly when `e` evaluates to `#f` -/
theorem Means.not_call {σ ρ te tv σ₁ l l'} (hnot : σ.lookup ρ "not" = some (.builtin .not))
    (ht : Means σ ρ te tv σ₁) : Means σ ρ (.call (.sym "not" l) [te] l') (.bool (!tv.truthy)) σ₁ := by
  refine Means.call (Means.sym hnot) (MeansList.one (means_erase.mpr ht)) ?_
  have h : Prim.applyPure (Eval.enter σ₁) .not [tv] = (.ok (.bool (!tv.truthy)), Eval.enter σ₁) := by
    cases tv <;> try rfl
    rename_i b; cases b <;> rfl
  have := MeansApply.builtin (σ := σ₁) (b := .not) (by decide) rfl h
  rwa [show (Eval.enter σ₁).erase = σ₁.erase from rfl, ht.erased] at this

/-- a template-built `(let ((n t)) b)` with one binding and one body form: the application
`((lambda (n) b) t)` -/
theorem XE.let1_inv {env loc} {n t b : Datum} {e} (hstd : StdEnv env)
    (hx : XE env (C05.L loc [C05.S loc "let", C05.L loc [C05.L loc [n, t]], b]) e) :
    ∃ te be l₁ l₂, XE env t te ∧ XE env b be ∧ e = .call (.lambda (.mk ⟨[symName n], none⟩ [] [be]) l₁) [te] l₂ := by
  rw [built_eq] at hx
  have h₁ := hx.expand_inv hstd (by decide) (fun fuel hf => at_loc (C05.let_shape
    (bds := [C05.L loc [n, t]]) (nvs := [(n, t)]) (bodies := [b])
    (isList_withLoc loc (isList_ofList none _)) (isList_ofList _ _) (.cons (isList_ofList _ _) .nil)
    (by simp) (by simp) hf))
  obtain ⟨F, be, aes, l₁, l₂, hF, hbe, haes, rfl⟩ :=
    h₁.lambda_call_inv1 (isList_ofList _ _) (isList_ofList _ _) rfl
  have := toFormals_list hF (isList_ofList loc [n])
  subst this
  cases haes with
  | cons hte t' =>
    cases t'
    exact ⟨_, be, l₁, l₂, hte, hbe, rfl⟩

/-- … evaluates the initialiser in the current frame and the body in a fresh child frame binding `nm` -/
theorem Means.let1 {σ ρ nm te be l₁ l₂ tv σ₁ v τ} (ht : Means σ ρ te tv σ₁)
    (hb : Means (σ₁.pushFrame ρ [(nm, tv)]) σ₁.frames.size be v τ) :
    Means σ ρ (.call (.lambda (.mk ⟨[nm], none⟩ [] [be]) l₁) [te] l₂) v τ :=
  Means.lambda_call (MeansList.one ht) (.one hb) rfl

/-- literals and variable references -/
def isAtom : Datum → Bool
  | .prim _ _ | .sym _ _ => true
  | _ => false

theorem noDefs_atoms {env : SynEnv} {bs : List Datum} (h : bs.all isAtom = true) : NoDefs env bs := by
  intro b hb m df env'
  have := List.all_eq_true.mp h b hb
  cases b <;> first | exact not_def_prim m df env' | exact not_def_sym m df env' | cases this

/-- the syntax environment has the bundled derived forms, and the names the templates use as
procedures (`not`, `memv`, `null?`) are not keywords of macros -/
structure StdSyn (env : SynEnv) : Prop where
  std : StdEnv env
  not_ : env.get? "not" = none
  memv : env.get? "memv" = none
  null : env.get? "null?" = none

theorem StdSyn.child {env : SynEnv} (h : StdSyn env) : StdSyn ([] :: env) :=
  ⟨h.std.child, h.not_, h.memv, h.null⟩

set_option maxRecDepth 100000 in
/-- the interpreter's own syntax environment -/
theorem stdSyn_default : StdSyn [[], Interp.grammarScope] := ⟨stdEnv_default, by rfl, by rfl, by rfl⟩

end Ruschm.Meaning

/-
Helper lemmas for property C11 (the list library of `(scheme base)`).

1. THE TIE TO THE GENERATED SOURCE. `libDecls` is what the MODEL's `Xform.toStatement` makes of
   the one `define-library` form of `Gen.baseLibData` (regenerated from `base.sld` on every run)
   in the syntax scope `factoryOfText` uses (`[[], Interp.grammarScope]`): a closed computation.
   `libDecls_eq` (proved by `rfl`, i.e. by running the model's transformer, macro expansion of
   `cond`/`and` included, in the kernel) states the resulting declarations literally;
   `baseDefs` are the definitions of the `begin` body, `libProc name b` the closure of the
   definition of `name` over frame `b`, `libProc_*` its literal AST. Any edit of `base.sld` that
   changes a definition makes `libDecls_eq` (and the lemma of that procedure) fail.
2. `LibFrame σ b`, the library frame predicate; it is established by `evalLibraryDef` on
   `libDecls` (`libFrame_of_evalLibraryDef`) and preserved by every store change that keeps
   frame `b` (`LibFrame.ext`).
3. Store lemmas (`Store.Ext`, `callFrame`, lookups), the loop judgements `TailRuns`/`TrampCall`,
   and the store-polymorphic rules `PEval`/`PArgs`/`PTail`/`PApp` with which the first-order
   library procedures are run symbolically.
-/
import RuschmModel.Interp
import RuschmSpec.ListLib
import RuschmProofs.EvalLemmas

namespace Ruschm.ListLib
open Ruschm Ruschm.Eval Ruschm.ListSpec

/-! ## 1. the code of the library, from the generated datum -/

abbrev sy (s : String) : Expr := .sym s none
abbrev pr (p : Prim) : Expr := .prim p none
abbrev ca (f : String) (as : List Expr) : Expr := .call (.sym f none) as none
/-- what a `cond` clause body / `else` body expands to: `((lambda () e))` -/
abbrev thunk (e : Expr) : Expr := .call (.lambda (.mk ⟨[], none⟩ [] [e]) none) [] none
abbrev ite (t c a : Expr) : Expr := .cond t c (some a) none
abbrev q0 : Expr := .quote (.nil none) none

/-- the one top-level form of `base.sld` -/
def libDatum : Datum := Gen.baseLibData.headD (.nil none)

/-- the model's `transform_to_statement` on it, in the syntax scope of `factoryOfText` -/
def libStatement : Except SErr Statement :=
  (Xform.toStatement (Xform.xformFuel libDatum) libDatum [[], Interp.grammarScope]).1

/-- the declarations of the library (what `factoryOfText` puts in the `Factory.ast`) -/
def libDecls : List LibDecl :=
  match libStatement with
  | .ok (.libraryDef _ decls _) => decls
  | _ => []

/-- the statements of the `begin` declarations -/
def libBody : List Statement :=
  libDecls.flatMap fun d => match d with | .begin_ b => b | _ => []

/-- the definitions of the `begin` body: name and defining expression -/
def baseDefs : List (String × Expr) :=
  libBody.filterMap fun s => match s with | .definition (.mk n e _) => some (n, e) | _ => none

/-- the names exported by `base.sld`, in order -/
def exportNames : List String :=
  ["apply", "car", "cdr", "eqv?", "eq?", "cons", "boolean?", "char?", "number?", "string?", "symbol?", "pair?", "procedure?", "vector?", "boolean=?", "not", "+", "-", "*", "/", "=", "<", "<=", ">", ">=", "abs", "min", "max", "sqrt", "exp", "ln", "log", "sin", "cos", "tan", "asin", "acos", "atan", "atan2", "floor", "ceiling", "exact", "floor-quotient", "floor-remainder", "newline", "vector", "make-vector", "vector-length", "vector-ref", "vector-set!", "caar", "cadr", "cdar", "cddr", "caaar", "caadr", "cadar", "caddr", "cdaar", "cdadr", "cddar", "cdddr", "list", "make-list", "null?", "append", "memq", "memv", "map", "for-each", "fold-left", "fold-right", "list-tail", "list-ref", "last-pair", "head", "atom?", "equal?", "list?"]

/-- the definitions of `base.sld` as the model's transformer produces them (`cond` and `and`
expanded by the bundled grammar), written out -/
def expectedDefs : List (String × Expr) := [
  ("caar", .lambda (.mk ⟨["x"], none⟩ [] [ca "car" [ca "car" [sy "x"]]]) none),
  ("cadr", .lambda (.mk ⟨["x"], none⟩ [] [ca "car" [ca "cdr" [sy "x"]]]) none),
  ("cdar", .lambda (.mk ⟨["x"], none⟩ [] [ca "cdr" [ca "car" [sy "x"]]]) none),
  ("cddr", .lambda (.mk ⟨["x"], none⟩ [] [ca "cdr" [ca "cdr" [sy "x"]]]) none),
  ("caaar", .lambda (.mk ⟨["x"], none⟩ [] [ca "car" [ca "car" [ca "car" [sy "x"]]]]) none),
  ("caadr", .lambda (.mk ⟨["x"], none⟩ [] [ca "car" [ca "car" [ca "cdr" [sy "x"]]]]) none),
  ("cadar", .lambda (.mk ⟨["x"], none⟩ [] [ca "car" [ca "cdr" [ca "car" [sy "x"]]]]) none),
  ("caddr", .lambda (.mk ⟨["x"], none⟩ [] [ca "car" [ca "cdr" [ca "cdr" [sy "x"]]]]) none),
  ("cdaar", .lambda (.mk ⟨["x"], none⟩ [] [ca "cdr" [ca "car" [ca "car" [sy "x"]]]]) none),
  ("cdadr", .lambda (.mk ⟨["x"], none⟩ [] [ca "cdr" [ca "car" [ca "cdr" [sy "x"]]]]) none),
  ("cddar", .lambda (.mk ⟨["x"], none⟩ [] [ca "cdr" [ca "cdr" [ca "car" [sy "x"]]]]) none),
  ("cdddr", .lambda (.mk ⟨["x"], none⟩ [] [ca "cdr" [ca "cdr" [ca "cdr" [sy "x"]]]]) none),
  ("list", .lambda (.mk ⟨[], some "x"⟩ [] [sy "x"]) none),
  ("make-list", .lambda (.mk ⟨["k", "fill"], none⟩ [] [ite (ca ">" [sy "k", pr (.int 0)]) (ca "cons" [sy "fill", ca "make-list" [ca "-" [sy "k", pr (.int 1)], sy "fill"]]) (q0)]) none),
  ("null?", .lambda (.mk ⟨["x"], none⟩ [] [ca "eqv?" [sy "x", q0]]) none),
  ("append", .lambda (.mk ⟨[], some "lsts"⟩ [] [ite (ca "null?" [sy "lsts"]) (thunk (q0)) (ite (ca "null?" [ca "cdr" [sy "lsts"]]) (thunk (ca "car" [sy "lsts"])) (ite (ca "null?" [ca "car" [sy "lsts"]]) (thunk (ca "apply" [sy "append", ca "cdr" [sy "lsts"]])) (thunk (ca "cons" [ca "caar" [sy "lsts"], ca "apply" [sy "append", ca "cdar" [sy "lsts"], ca "cdr" [sy "lsts"]]]))))]) none),
  ("map", .lambda (.mk ⟨["proc", "list"], none⟩ [] [ite (ca "pair?" [sy "list"]) (ca "cons" [ca "proc" [ca "car" [sy "list"]], ca "map" [sy "proc", ca "cdr" [sy "list"]]]) (sy "list")]) none),
  ("filter", .lambda (.mk ⟨["pred", "lst"], none⟩ [] [ite (ca "null?" [sy "lst"]) (thunk (q0)) (ite (ca "pred" [ca "car" [sy "lst"]]) (thunk (ca "cons" [ca "car" [sy "lst"], ca "filter" [sy "pred", ca "cdr" [sy "lst"]]])) (thunk (ca "filterb" [sy "pred", ca "cdr" [sy "lst"]])))]) none),
  ("for-each", .lambda (.mk ⟨["proc", "list"], none⟩ [] [.cond (ca "pair?" [sy "list"]) (.call (.lambda (.mk ⟨[], none⟩ [] [ca "proc" [ca "car" [sy "list"]], ca "for-each" [sy "proc", ca "cdr" [sy "list"]]]) none) [] none) (none) none]) none),
  ("fold-left", .lambda (.mk ⟨["f", "init", "seq"], none⟩ [] [ite (ca "null?" [sy "seq"]) (sy "init") (ca "fold-left" [sy "f", ca "f" [ca "car" [sy "seq"], sy "init"], ca "cdr" [sy "seq"]])]) none),
  ("fold-right", .lambda (.mk ⟨["f", "init", "seq"], none⟩ [] [ite (ca "null?" [sy "seq"]) (sy "init") (ca "f" [ca "car" [sy "seq"], ca "fold-right" [sy "f", sy "init", ca "cdr" [sy "seq"]]])]) none),
  ("list-tail", .lambda (.mk ⟨["x", "k"], none⟩ [] [ite (ca "=" [sy "k", pr (.int 0)]) (sy "x") (ca "list-tail" [ca "cdr" [sy "x"], ca "-" [sy "k", pr (.int 1)]])]) none),
  ("list-ref", .lambda (.mk ⟨["x", "k"], none⟩ [] [ca "car" [ca "list-tail" [sy "x", sy "k"]]]) none),
  ("last-pair", .lambda (.mk ⟨["x"], none⟩ [] [ite (ca "pair?" [ca "cdr" [sy "x"]]) (ca "last-pair" [ca "cdr" [sy "x"]]) (sy "x")]) none),
  ("head", .lambda (.mk ⟨["stream"], none⟩ [] [ca "car" [sy "stream"]]) none),
  ("atom?", .lambda (.mk ⟨["x"], none⟩ [] [ite (ca "not" [ca "pair?" [sy "x"]]) (ca "not" [ca "null?" [sy "x"]]) (pr (.bool false))]) none),
  ("memq", .lambda (.mk ⟨["obj", "lst"], none⟩ [] [ite (ca "null?" [sy "lst"]) (thunk (pr (.bool false))) (ite (ca "eq?" [sy "obj", ca "car" [sy "lst"]]) (thunk (sy "lst")) (thunk (ca "memq" [sy "obj", ca "cdr" [sy "lst"]])))]) none),
  ("memv", .lambda (.mk ⟨["obj", "lst"], none⟩ [] [ite (ca "null?" [sy "lst"]) (thunk (pr (.bool false))) (ite (ca "eqv?" [sy "obj", ca "car" [sy "lst"]]) (thunk (sy "lst")) (thunk (ca "memv" [sy "obj", ca "cdr" [sy "lst"]])))]) none),
  ("equal?", .lambda (.mk ⟨["x", "y"], none⟩ [] [ite (ca "pair?" [sy "x"]) (ite (ca "pair?" [sy "y"]) (ite (ca "equal?" [ca "car" [sy "x"], ca "car" [sy "y"]]) (ca "equal?" [ca "cdr" [sy "x"], ca "cdr" [sy "y"]]) (pr (.bool false))) (pr (.bool false))) (ite (ca "vector?" [sy "x"]) (ite (ca "vector?" [sy "y"]) (ite (ca "=" [ca "vector-length" [sy "x"], ca "vector-length" [sy "y"]]) (ca "vector-equal-from?" [sy "x", sy "y", pr (.int 0)]) (pr (.bool false))) (pr (.bool false))) (ite (ca "not" [ca "pair?" [sy "y"]]) (ca "eqv?" [sy "x", sy "y"]) (pr (.bool false))))]) none),
  ("vector-equal-from?", .lambda (.mk ⟨["x", "y", "i"], none⟩ [] [ite (ca "=" [sy "i", ca "vector-length" [sy "x"]]) (pr (.bool true)) (ite (ca "equal?" [ca "vector-ref" [sy "x", sy "i"], ca "vector-ref" [sy "y", sy "i"]]) (ca "vector-equal-from?" [sy "x", sy "y", ca "+" [sy "i", pr (.int 1)]]) (pr (.bool false)))]) none),
  ("list?", .lambda (.mk ⟨["x"], none⟩ [] [ite (ca "eq?" [sy "x", q0]) (pr (.bool true)) (ite (ca "pair?" [sy "x"]) (ite (ca "list?" [ca "cdr" [sy "x"]]) (pr (.bool true)) (pr (.bool false))) (pr (.bool false)))]) none)]

/-- the declarations of `base.sld` as the model's transformer produces them -/
def expectedDecls : List LibDecl :=
  [.importDecl [.direct Interp.libRuschmBase none],
   .export (exportNames.map (ExportSpec.direct · none)),
   .begin_ (expectedDefs.map fun p => .definition (.mk p.1 p.2 none))]

set_option maxRecDepth 100000 in
/-- running the model's transformer on the generated datum gives exactly these declarations
(proved by evaluation: the transformer, macro expansion included, runs in the kernel) -/
theorem libStatement_eq :
    libStatement = .ok (.libraryDef Interp.libSchemeBase expectedDecls none) := by
  rfl

theorem libDatum_eq : Gen.baseLibData = [libDatum] := by rfl

theorem libDecls_eq : libDecls = expectedDecls := by
  unfold libDecls; rw [libStatement_eq]

theorem libBody_eq : libBody = expectedDefs.map fun p => .definition (.mk p.1 p.2 none) := by
  unfold libBody; rw [libDecls_eq]; rfl

theorem baseDefs_eq : baseDefs = expectedDefs := by
  unfold baseDefs; rw [libBody_eq]; rfl

/-- the lambda `name` is defined as in `base.sld` -/
def procLambda (name : String) : Option Lambda :=
  match baseDefs.lookup name with
  | some (.lambda lam _) => some lam
  | _ => none

/-- the value `name` is bound to in the library frame `b`: the closure of its lambda over `b` -/
def libProc (name : String) (b : Nat) : Value :=
  match procLambda name with
  | some lam => .closure lam b
  | none => .void

/-- every definition of the library is a `lambda` (so that defining it cannot fail) and the
defined names are distinct from each other and from the native names -/
theorem baseDefs_shape :
    (baseDefs.all fun p => match p.2 with | .lambda _ _ => true | _ => false) = true ∧
    (baseDefs.map (·.1)).Nodup ∧
    (∀ n ∈ baseDefs.map (·.1), n ∉ Builtin.baseList.map Builtin.name) := by
  rw [baseDefs_eq]; refine ⟨by rfl, by decide, by decide⟩


theorem lookup_of_getElem? {β} : ∀ {l : List (String × β)} {i : Nat} {n : String} {e : β},
    (l.map (·.1)).Nodup → l[i]? = some (n, e) → l.lookup n = some e
  | [], i, n, e, _, h => by simp at h
  | (k, v) :: t, 0, n, e, _, h => by
    simp only [List.getElem?_cons_zero, Option.some.injEq, Prod.mk.injEq] at h
    obtain ⟨rfl, rfl⟩ := h
    simp [List.lookup]
  | (k, v) :: t, i + 1, n, e, hnd, h => by
    simp only [List.getElem?_cons_succ] at h
    simp only [List.map_cons, List.nodup_cons] at hnd
    have hmem : n ∈ t.map (·.1) := List.mem_map.mpr ⟨(n, e), List.mem_of_getElem? h, rfl⟩
    have hne : n ≠ k := fun hh => hnd.1 (hh ▸ hmem)
    have : (n == k) = false := by simpa using hne
    rw [List.lookup, this]
    exact lookup_of_getElem? hnd.2 h

/-- the `i`-th definition of the library is the lambda `lam`: its closure is what `libProc` names -/
theorem libProc_of_index {i : Nat} {n : String} {lam : Lambda}
    (h : expectedDefs[i]? = some (n, .lambda lam none)) (b : Nat) : libProc n b = .closure lam b := by
  have := lookup_of_getElem? (baseDefs_eq ▸ baseDefs_shape.2.1) h
  unfold libProc procLambda; rw [baseDefs_eq, this]


theorem libProc_caar (b : Nat) : libProc "caar" b =
    .closure (.mk ⟨["x"], none⟩ [] [ca "car" [ca "car" [sy "x"]]]) b :=
  libProc_of_index (i := 0) rfl b

theorem libProc_cadr (b : Nat) : libProc "cadr" b =
    .closure (.mk ⟨["x"], none⟩ [] [ca "car" [ca "cdr" [sy "x"]]]) b :=
  libProc_of_index (i := 1) rfl b

theorem libProc_cdar (b : Nat) : libProc "cdar" b =
    .closure (.mk ⟨["x"], none⟩ [] [ca "cdr" [ca "car" [sy "x"]]]) b :=
  libProc_of_index (i := 2) rfl b

theorem libProc_cddr (b : Nat) : libProc "cddr" b =
    .closure (.mk ⟨["x"], none⟩ [] [ca "cdr" [ca "cdr" [sy "x"]]]) b :=
  libProc_of_index (i := 3) rfl b

theorem libProc_caaar (b : Nat) : libProc "caaar" b =
    .closure (.mk ⟨["x"], none⟩ [] [ca "car" [ca "car" [ca "car" [sy "x"]]]]) b :=
  libProc_of_index (i := 4) rfl b

theorem libProc_caadr (b : Nat) : libProc "caadr" b =
    .closure (.mk ⟨["x"], none⟩ [] [ca "car" [ca "car" [ca "cdr" [sy "x"]]]]) b :=
  libProc_of_index (i := 5) rfl b

theorem libProc_cadar (b : Nat) : libProc "cadar" b =
    .closure (.mk ⟨["x"], none⟩ [] [ca "car" [ca "cdr" [ca "car" [sy "x"]]]]) b :=
  libProc_of_index (i := 6) rfl b

theorem libProc_caddr (b : Nat) : libProc "caddr" b =
    .closure (.mk ⟨["x"], none⟩ [] [ca "car" [ca "cdr" [ca "cdr" [sy "x"]]]]) b :=
  libProc_of_index (i := 7) rfl b

theorem libProc_cdaar (b : Nat) : libProc "cdaar" b =
    .closure (.mk ⟨["x"], none⟩ [] [ca "cdr" [ca "car" [ca "car" [sy "x"]]]]) b :=
  libProc_of_index (i := 8) rfl b

theorem libProc_cdadr (b : Nat) : libProc "cdadr" b =
    .closure (.mk ⟨["x"], none⟩ [] [ca "cdr" [ca "car" [ca "cdr" [sy "x"]]]]) b :=
  libProc_of_index (i := 9) rfl b

theorem libProc_cddar (b : Nat) : libProc "cddar" b =
    .closure (.mk ⟨["x"], none⟩ [] [ca "cdr" [ca "cdr" [ca "car" [sy "x"]]]]) b :=
  libProc_of_index (i := 10) rfl b

theorem libProc_cdddr (b : Nat) : libProc "cdddr" b =
    .closure (.mk ⟨["x"], none⟩ [] [ca "cdr" [ca "cdr" [ca "cdr" [sy "x"]]]]) b :=
  libProc_of_index (i := 11) rfl b

theorem libProc_list (b : Nat) : libProc "list" b =
    .closure (.mk ⟨[], some "x"⟩ [] [sy "x"]) b :=
  libProc_of_index (i := 12) rfl b

theorem libProc_make_list (b : Nat) : libProc "make-list" b =
    .closure (.mk ⟨["k", "fill"], none⟩ [] [ite (ca ">" [sy "k", pr (.int 0)]) (ca "cons" [sy "fill", ca "make-list" [ca "-" [sy "k", pr (.int 1)], sy "fill"]]) (q0)]) b :=
  libProc_of_index (i := 13) rfl b

theorem libProc_null_pred (b : Nat) : libProc "null?" b =
    .closure (.mk ⟨["x"], none⟩ [] [ca "eqv?" [sy "x", q0]]) b :=
  libProc_of_index (i := 14) rfl b

theorem libProc_append (b : Nat) : libProc "append" b =
    .closure (.mk ⟨[], some "lsts"⟩ [] [ite (ca "null?" [sy "lsts"]) (thunk (q0)) (ite (ca "null?" [ca "cdr" [sy "lsts"]]) (thunk (ca "car" [sy "lsts"])) (ite (ca "null?" [ca "car" [sy "lsts"]]) (thunk (ca "apply" [sy "append", ca "cdr" [sy "lsts"]])) (thunk (ca "cons" [ca "caar" [sy "lsts"], ca "apply" [sy "append", ca "cdar" [sy "lsts"], ca "cdr" [sy "lsts"]]]))))]) b :=
  libProc_of_index (i := 15) rfl b

theorem libProc_map (b : Nat) : libProc "map" b =
    .closure (.mk ⟨["proc", "list"], none⟩ [] [ite (ca "pair?" [sy "list"]) (ca "cons" [ca "proc" [ca "car" [sy "list"]], ca "map" [sy "proc", ca "cdr" [sy "list"]]]) (sy "list")]) b :=
  libProc_of_index (i := 16) rfl b

theorem libProc_filter (b : Nat) : libProc "filter" b =
    .closure (.mk ⟨["pred", "lst"], none⟩ [] [ite (ca "null?" [sy "lst"]) (thunk (q0)) (ite (ca "pred" [ca "car" [sy "lst"]]) (thunk (ca "cons" [ca "car" [sy "lst"], ca "filter" [sy "pred", ca "cdr" [sy "lst"]]])) (thunk (ca "filterb" [sy "pred", ca "cdr" [sy "lst"]])))]) b :=
  libProc_of_index (i := 17) rfl b

theorem libProc_for_each (b : Nat) : libProc "for-each" b =
    .closure (.mk ⟨["proc", "list"], none⟩ [] [.cond (ca "pair?" [sy "list"]) (.call (.lambda (.mk ⟨[], none⟩ [] [ca "proc" [ca "car" [sy "list"]], ca "for-each" [sy "proc", ca "cdr" [sy "list"]]]) none) [] none) (none) none]) b :=
  libProc_of_index (i := 18) rfl b

theorem libProc_fold_left (b : Nat) : libProc "fold-left" b =
    .closure (.mk ⟨["f", "init", "seq"], none⟩ [] [ite (ca "null?" [sy "seq"]) (sy "init") (ca "fold-left" [sy "f", ca "f" [ca "car" [sy "seq"], sy "init"], ca "cdr" [sy "seq"]])]) b :=
  libProc_of_index (i := 19) rfl b

theorem libProc_fold_right (b : Nat) : libProc "fold-right" b =
    .closure (.mk ⟨["f", "init", "seq"], none⟩ [] [ite (ca "null?" [sy "seq"]) (sy "init") (ca "f" [ca "car" [sy "seq"], ca "fold-right" [sy "f", sy "init", ca "cdr" [sy "seq"]]])]) b :=
  libProc_of_index (i := 20) rfl b

theorem libProc_list_tail (b : Nat) : libProc "list-tail" b =
    .closure (.mk ⟨["x", "k"], none⟩ [] [ite (ca "=" [sy "k", pr (.int 0)]) (sy "x") (ca "list-tail" [ca "cdr" [sy "x"], ca "-" [sy "k", pr (.int 1)]])]) b :=
  libProc_of_index (i := 21) rfl b

theorem libProc_list_ref (b : Nat) : libProc "list-ref" b =
    .closure (.mk ⟨["x", "k"], none⟩ [] [ca "car" [ca "list-tail" [sy "x", sy "k"]]]) b :=
  libProc_of_index (i := 22) rfl b

theorem libProc_last_pair (b : Nat) : libProc "last-pair" b =
    .closure (.mk ⟨["x"], none⟩ [] [ite (ca "pair?" [ca "cdr" [sy "x"]]) (ca "last-pair" [ca "cdr" [sy "x"]]) (sy "x")]) b :=
  libProc_of_index (i := 23) rfl b

theorem libProc_head (b : Nat) : libProc "head" b =
    .closure (.mk ⟨["stream"], none⟩ [] [ca "car" [sy "stream"]]) b :=
  libProc_of_index (i := 24) rfl b

theorem libProc_atom_pred (b : Nat) : libProc "atom?" b =
    .closure (.mk ⟨["x"], none⟩ [] [ite (ca "not" [ca "pair?" [sy "x"]]) (ca "not" [ca "null?" [sy "x"]]) (pr (.bool false))]) b :=
  libProc_of_index (i := 25) rfl b

theorem libProc_memq (b : Nat) : libProc "memq" b =
    .closure (.mk ⟨["obj", "lst"], none⟩ [] [ite (ca "null?" [sy "lst"]) (thunk (pr (.bool false))) (ite (ca "eq?" [sy "obj", ca "car" [sy "lst"]]) (thunk (sy "lst")) (thunk (ca "memq" [sy "obj", ca "cdr" [sy "lst"]])))]) b :=
  libProc_of_index (i := 26) rfl b

theorem libProc_memv (b : Nat) : libProc "memv" b =
    .closure (.mk ⟨["obj", "lst"], none⟩ [] [ite (ca "null?" [sy "lst"]) (thunk (pr (.bool false))) (ite (ca "eqv?" [sy "obj", ca "car" [sy "lst"]]) (thunk (sy "lst")) (thunk (ca "memv" [sy "obj", ca "cdr" [sy "lst"]])))]) b :=
  libProc_of_index (i := 27) rfl b

theorem libProc_equal_pred (b : Nat) : libProc "equal?" b =
    .closure (.mk ⟨["x", "y"], none⟩ [] [ite (ca "pair?" [sy "x"]) (ite (ca "pair?" [sy "y"]) (ite (ca "equal?" [ca "car" [sy "x"], ca "car" [sy "y"]]) (ca "equal?" [ca "cdr" [sy "x"], ca "cdr" [sy "y"]]) (pr (.bool false))) (pr (.bool false))) (ite (ca "vector?" [sy "x"]) (ite (ca "vector?" [sy "y"]) (ite (ca "=" [ca "vector-length" [sy "x"], ca "vector-length" [sy "y"]]) (ca "vector-equal-from?" [sy "x", sy "y", pr (.int 0)]) (pr (.bool false))) (pr (.bool false))) (ite (ca "not" [ca "pair?" [sy "y"]]) (ca "eqv?" [sy "x", sy "y"]) (pr (.bool false))))]) b :=
  libProc_of_index (i := 28) rfl b

theorem libProc_vector_equal_from (b : Nat) : libProc "vector-equal-from?" b =
    .closure (.mk ⟨["x", "y", "i"], none⟩ [] [ite (ca "=" [sy "i", ca "vector-length" [sy "x"]]) (pr (.bool true)) (ite (ca "equal?" [ca "vector-ref" [sy "x", sy "i"], ca "vector-ref" [sy "y", sy "i"]]) (ca "vector-equal-from?" [sy "x", sy "y", ca "+" [sy "i", pr (.int 1)]]) (pr (.bool false)))]) b :=
  libProc_of_index (i := 29) rfl b

theorem libProc_list_pred (b : Nat) : libProc "list?" b =
    .closure (.mk ⟨["x"], none⟩ [] [ite (ca "eq?" [sy "x", q0]) (pr (.bool true)) (ite (ca "pair?" [sy "x"]) (ite (ca "list?" [ca "cdr" [sy "x"]]) (pr (.bool true)) (pr (.bool false))) (pr (.bool false)))]) b :=
  libProc_of_index (i := 30) rfl b

/- from here on `libProc name b` is only ever rewritten with the lemmas above: unfolding it would
re-run the transformer -/
attribute [irreducible] libProc

/-! ## 2. stores: appended frames, lookups, the frame of a procedure call -/

end Ruschm.ListLib
namespace Ruschm.Store
open Ruschm.Eval

theorem Ext.refl (σ : Store) : σ.Ext σ :=
  ⟨Nat.le_refl _, fun _ _ => rfl, rfl, rfl, rfl, rfl, Nat.le_refl _⟩

theorem Ext.trans {σ₁ σ₂ σ₃ : Store} (h₁ : σ₁.Ext σ₂) (h₂ : σ₂.Ext σ₃) : σ₁.Ext σ₃ where
  size := Nat.le_trans h₁.size h₂.size
  frames i hi := (h₂.frames i (Nat.lt_of_lt_of_le hi h₁.size)).trans (h₁.frames i hi)
  vecs := h₂.vecs.trans h₁.vecs
  out := h₂.out.trans h₁.out
  ticks := h₂.ticks.trans h₁.ticks
  depth := h₂.depth.trans h₁.depth
  maxDepth := Nat.le_trans h₁.maxDepth h₂.maxDepth

theorem FramesExt.refl (σ : Store) : σ.FramesExt σ := ⟨Nat.le_refl _, fun _ _ => rfl⟩

theorem FramesExt.trans {σ₁ σ₂ σ₃ : Store} (h₁ : σ₁.FramesExt σ₂) (h₂ : σ₂.FramesExt σ₃) : σ₁.FramesExt σ₃ where
  size := Nat.le_trans h₁.size h₂.size
  frames i hi := (h₂.frames i (Nat.lt_of_lt_of_le hi h₁.size)).trans (h₁.frames i hi)

theorem Ext.framesExt {σ σ' : Store} (h : σ.Ext σ') : σ.FramesExt σ' := ⟨h.size, h.frames⟩

theorem FramesExt.of_frames_eq {σ σ' : Store} (h : σ'.frames = σ.frames) : σ.FramesExt σ' :=
  ⟨by rw [h]; exact Nat.le_refl _, fun _ _ => by rw [h]⟩

theorem framesExt_enter (σ : Store) : σ.FramesExt (enter σ) := .of_frames_eq rfl
theorem framesExt_leave (σ : Store) : σ.FramesExt (leave σ) := .of_frames_eq rfl

/-- an activation that only appends frames, seen from outside -/
theorem Ext.of_activation {σ σ' : Store} (h : (enter σ).Ext σ') : σ.Ext (leave σ') where
  size := h.size
  frames := h.frames
  vecs := h.vecs
  out := h.out
  ticks := h.ticks
  depth := by
    have := h.depth
    simp only [enter, leave] at this ⊢
    omega
  maxDepth := by
    have := h.maxDepth
    simp only [enter, leave] at this ⊢
    omega

theorem Ext.dExt {σ σ' : Store} (h : σ.Ext σ') : σ.DExt σ' := ⟨h.size, h.frames, h.vecs, h.out, h.ticks⟩
theorem DExt.refl (σ : Store) : σ.DExt σ := ⟨Nat.le_refl _, fun _ _ => rfl, rfl, rfl, rfl⟩
theorem DExt.trans {σ₁ σ₂ σ₃ : Store} (h₁ : σ₁.DExt σ₂) (h₂ : σ₂.DExt σ₃) : σ₁.DExt σ₃ where
  size := Nat.le_trans h₁.size h₂.size
  frames i hi := (h₂.frames i (Nat.lt_of_lt_of_le hi h₁.size)).trans (h₁.frames i hi)
  vecs := h₂.vecs.trans h₁.vecs
  out := h₂.out.trans h₁.out
  ticks := h₂.ticks.trans h₁.ticks
theorem DExt.framesExt {σ σ' : Store} (h : σ.DExt σ') : σ.FramesExt σ' := ⟨h.size, h.frames⟩
theorem dExt_enter (σ : Store) : σ.DExt (enter σ) := ⟨Nat.le_refl _, fun _ _ => rfl, rfl, rfl, rfl⟩
theorem dExt_leave (σ : Store) : σ.DExt (leave σ) := ⟨Nat.le_refl _, fun _ _ => rfl, rfl, rfl, rfl⟩

theorem Keeps.of_framesExt {σ σ' : Store} (h : σ.FramesExt σ') (b N : Nat) : σ.Keeps b N σ' :=
  ⟨h.size, fun i hi _ => h.frames i hi⟩
theorem Keeps.trans {b N : Nat} {σ₁ σ₂ σ₃ : Store} (h₁ : σ₁.Keeps b N σ₂) (h₂ : σ₂.Keeps b N σ₃) : σ₁.Keeps b N σ₃ where
  size := Nat.le_trans h₁.size h₂.size
  frames i hi hc := (h₂.frames i (Nat.lt_of_lt_of_le hi h₁.size) hc).trans (h₁.frames i hi hc)
end Ruschm.Store
namespace Ruschm.ListLib
open Ruschm Ruschm.Eval Ruschm.ListSpec Ruschm.Store

/-! ### lookups -/

theorem lookupAux_congr {σ σ' : Store} (k : String) :
    ∀ (n ρ : Nat), (∀ i, i ≤ ρ → σ'.frames[i]? = σ.frames[i]?) → σ'.lookupAux n ρ k = σ.lookupAux n ρ k
  | 0, _, _ => rfl
  | n + 1, ρ, h => by
    simp only [lookupAux, h ρ (Nat.le_refl _)]
    cases σ.frames[ρ]? with
    | none => rfl
    | some f =>
      simp only
      cases f.defs.lookup k with
      | some v => rfl
      | none =>
        simp only
        cases f.parent with
        | none => rfl
        | some p =>
          simp only
          split
          · rename_i hp
            exact lookupAux_congr k n p fun i hi => h i (by omega)
          · rfl

theorem lookupAux_fuel (σ : Store) (k : String) :
    ∀ (n m ρ : Nat), ρ < n → ρ < m → σ.lookupAux n ρ k = σ.lookupAux m ρ k
  | 0, _, _, h, _ => by omega
  | _, 0, _, _, h => by omega
  | n + 1, m + 1, ρ, hn, hm => by
    simp only [lookupAux]
    cases σ.frames[ρ]? with
    | none => rfl
    | some f =>
      simp only
      cases f.defs.lookup k with
      | some v => rfl
      | none =>
        simp only
        cases f.parent with
        | none => rfl
        | some p =>
          simp only
          split
          · rename_i hp
            exact lookupAux_fuel σ k n m p (by omega) (by omega)
          · rfl

/-- one step of `lookup`: the frame's own binding, else the parent's view -/
theorem lookup_of_frame {σ : Store} {ρ : Nat} {f : Frame} (hf : σ.frames[ρ]? = some f) (k : String) :
    σ.lookup ρ k =
      match f.defs.lookup k with
      | some v => some v
      | none =>
        match f.parent with
        | some p => if p < ρ then σ.lookup p k else none
        | none => none := by
  show σ.lookupAux (ρ + 1) ρ k = _
  rw [lookupAux]; simp only [hf]
  cases f.defs.lookup k with
  | some v => rfl
  | none =>
    simp only
    cases f.parent with
    | none => rfl
    | some p =>
      simp only
      split
      · rename_i hp
        exact lookupAux_fuel σ k _ _ p hp (by omega)
      · rfl

/-- appended frames do not change what an existing frame sees -/
theorem lookup_of_framesExt {σ σ' : Store} (h : σ.FramesExt σ') {ρ : Nat} (hρ : ρ < σ.frames.size) (k : String) :
    σ'.lookup ρ k = σ.lookup ρ k :=
  lookupAux_congr k _ ρ fun i hi => h.frames i (by omega)

/-! ### `define`, `newFrame` -/

theorem define_frames_getElem? (σ : Store) (ρ : Nat) (k : String) (v : Value) (i : Nat) :
    (σ.define ρ k v).frames[i]? =
      if i = ρ then (σ.frames[i]?).map (fun f => { f with defs := defsInsert f.defs k v })
      else σ.frames[i]? := by
  unfold define
  split
  · simp only [Array.getElem?_modify]
    by_cases h : ρ = i
    · subst h; simp
    · simp [h, Ne.symm h]
  · rename_i h
    by_cases hi : i = ρ
    · subst hi
      have : σ.frames[i]? = none := by simp; omega
      simp [this]
    · simp [hi]

@[simp] theorem define_frames_size (σ : Store) (ρ k v) : (σ.define ρ k v).frames.size = σ.frames.size := by
  unfold define; split <;> simp
@[simp] theorem define_vecs (σ : Store) (ρ k v) : (σ.define ρ k v).vecs = σ.vecs := by
  unfold define; split <;> rfl
@[simp] theorem define_out (σ : Store) (ρ k v) : (σ.define ρ k v).out = σ.out := by
  unfold define; split <;> rfl
@[simp] theorem define_ticks (σ : Store) (ρ k v) : (σ.define ρ k v).ticks = σ.ticks := by
  unfold define; split <;> rfl
@[simp] theorem define_depth (σ : Store) (ρ k v) : (σ.define ρ k v).depth = σ.depth := by
  unfold define; split <;> rfl
@[simp] theorem define_maxDepth (σ : Store) (ρ k v) : (σ.define ρ k v).maxDepth = σ.maxDepth := by
  unfold define; split <;> rfl

/-- a `define` in frame `ρ` is invisible to everything but frame `ρ` -/
theorem define_other (σ : Store) (ρ k v) (i : Nat) (h : i ≠ ρ) : (σ.define ρ k v).frames[i]? = σ.frames[i]? := by
  rw [define_frames_getElem?]; simp [h]

/-- the bindings `apply_scheme_procedure` makes in the fresh frame: the fixed parameters in order,
then the rest parameter bound to the list of the remaining arguments -/
def paramDefs (formals : Formals) (args : List Value) : List (String × Value) :=
  let d := (formals.fixed.zip args).foldl (fun d p => defsInsert d p.1 p.2) []
  match formals.rest with
  | some r => defsInsert d r (Value.ofList (args.drop formals.fixed.length))
  | none => d

/-- the store in which the body of a procedure runs: a fresh frame under the closure's frame with
the parameters bound -/
def callFrame (σ : Store) (cenv : Nat) (formals : Formals) (args : List Value) : Store :=
  match formals.rest with
  | some r => (bindFixed (σ.newFrame (some cenv)).2 σ.frames.size formals.fixed args).2.define σ.frames.size r
      (Value.ofList (args.drop formals.fixed.length))
  | none => (bindFixed (σ.newFrame (some cenv)).2 σ.frames.size formals.fixed args).2

theorem bindFixed_ok : ∀ (names : List String) (args : List Value) (σ : Store) (ρ : Nat),
    names.length ≤ args.length →
    bindFixed σ ρ names args = (.ok (args.drop names.length), (bindFixed σ ρ names args).2)
  | [], args, σ, ρ, _ => by simp [bindFixed]
  | _ :: _, [], σ, ρ, h => by simp at h
  | n :: ns, a :: as, σ, ρ, h => by
    rw [bindFixed]
    simpa using bindFixed_ok ns as (σ.define ρ n a) ρ (by simpa using h)

/-- what `bindFixed` does to the store: the frame `ρ` gets the bindings, nothing else changes -/
theorem bindFixed_store : ∀ (names : List String) (args : List Value) (σ : Store) (ρ : Nat),
    let σ' := (bindFixed σ ρ names args).2
    σ'.vecs = σ.vecs ∧ σ'.out = σ.out ∧ σ'.ticks = σ.ticks ∧ σ'.depth = σ.depth ∧
    σ'.maxDepth = σ.maxDepth ∧ σ'.frames.size = σ.frames.size ∧
    (∀ i, i ≠ ρ → σ'.frames[i]? = σ.frames[i]?) ∧
    σ'.frames[ρ]? = (σ.frames[ρ]?).map fun f =>
      { f with defs := (names.zip args).foldl (fun d p => defsInsert d p.1 p.2) f.defs }
  | [], _, σ, ρ => by
    rw [bindFixed]; simp
  | _ :: _, [], σ, ρ => by
    rw [bindFixed]; simp
  | n :: ns, a :: as, σ, ρ => by
    rw [bindFixed]
    have ih := bindFixed_store ns as (σ.define ρ n a) ρ
    simp only [define_vecs, define_out, define_ticks, define_depth,
      define_maxDepth, define_frames_size] at ih
    obtain ⟨h1, h2, h3, h4, h5, h6, h7, h8⟩ := ih
    refine ⟨h1, h2, h3, h4, h5, h6, fun i hi => ?_, ?_⟩
    · rw [h7 i hi, define_other _ _ _ _ _ hi]
    · rw [h8, define_frames_getElem?]
      simp only [if_true, List.zip_cons_cons, List.foldl_cons]
      cases σ.frames[ρ]? <;> simp

@[simp] theorem newFrame_frames (σ : Store) (p) :
    (σ.newFrame p).2.frames = σ.frames.push { parent := p, defs := [] } := rfl
@[simp] theorem newFrame_vecs (σ : Store) (p) : (σ.newFrame p).2.vecs = σ.vecs := rfl
@[simp] theorem newFrame_out (σ : Store) (p) : (σ.newFrame p).2.out = σ.out := rfl
@[simp] theorem newFrame_ticks (σ : Store) (p) : (σ.newFrame p).2.ticks = σ.ticks := rfl
@[simp] theorem newFrame_depth (σ : Store) (p) : (σ.newFrame p).2.depth = σ.depth := rfl
@[simp] theorem newFrame_maxDepth (σ : Store) (p) : (σ.newFrame p).2.maxDepth = σ.maxDepth := rfl

theorem callFrame_spec (σ : Store) (cenv : Nat) (formals : Formals) (args : List Value) :
    σ.Ext (callFrame σ cenv formals args) ∧
    (callFrame σ cenv formals args).frames.size = σ.frames.size + 1 ∧
    (callFrame σ cenv formals args).frames[σ.frames.size]? =
      some { parent := some cenv, defs := paramDefs formals args } := by
  have hb := bindFixed_store formals.fixed args (σ.newFrame (some cenv)).2 σ.frames.size
  simp only [newFrame_frames, newFrame_vecs, newFrame_out, newFrame_ticks, newFrame_depth,
    newFrame_maxDepth, Array.size_push, Array.getElem?_push_size, Option.map_some] at hb
  obtain ⟨h1, h2, h3, h4, h5, h6, h7, h8⟩ := hb
  have hold : ∀ i, i < σ.frames.size →
      (bindFixed (σ.newFrame (some cenv)).2 σ.frames.size formals.fixed args).2.frames[i]? = σ.frames[i]? := by
    intro i hi
    rw [h7 i (by omega), Array.getElem?_push_lt hi]
    simp [hi]
  unfold callFrame paramDefs
  cases formals.rest with
  | none =>
    simp only
    exact ⟨⟨by omega, hold, h1, h2, h3, h4, by omega⟩, h6, h8⟩
  | some r =>
    simp only [define_frames_size]
    refine ⟨⟨by simp only [define_frames_size]; omega, fun i hi => ?_, by simpa using h1,
      by simpa using h2, by simpa using h3, by simpa using h4, by simp only [define_maxDepth]; omega⟩, h6, ?_⟩
    · rw [define_other _ _ _ _ _ (by omega)]; exact hold i hi
    · rw [define_frames_getElem?]
      simp only [if_true, h8, Option.map_some]

theorem callFrame_ext (σ : Store) (cenv : Nat) (formals : Formals) (args : List Value) :
    σ.Ext (callFrame σ cenv formals args) := (callFrame_spec σ cenv formals args).1

/-- in the frame of a call, a name is a parameter or what the closure's frame sees -/
theorem callFrame_lookup (σ : Store) {cenv : Nat} (hc : cenv < σ.frames.size) (formals : Formals)
    (args : List Value) (y : String) :
    (callFrame σ cenv formals args).lookup σ.frames.size y =
      match (paramDefs formals args).lookup y with
      | some v => some v
      | none => σ.lookup cenv y := by
  obtain ⟨hext, _, hf⟩ := callFrame_spec σ cenv formals args
  rw [lookup_of_frame hf]
  cases (paramDefs formals args).lookup y with
  | some v => rfl
  | none => simp only [hc, if_true]; exact lookup_of_framesExt hext.framesExt hc y

/-! ## 3. the library frame -/

/-- Frame `b` of store `σ` is an instance of `(scheme base)`: a root frame in which every name
defined in the `begin` body of `base.sld` is bound to the closure of its generated lambda over `b`
itself, and every native of `(ruschm base)` (`car cdr cons pair? eqv? eq? apply = > - …`) is
bound to the corresponding builtin. -/
structure LibFrame (σ : Store) (b : Nat) : Prop where
  frame : ∃ f, σ.frames[b]? = some f ∧ f.parent = none ∧
    (∀ n ∈ baseDefs.map (·.1), f.defs.lookup n = some (libProc n b)) ∧
    (∀ bi ∈ Builtin.baseList, f.defs.lookup bi.name = some (.builtin bi))

theorem lookup_cons_ite (y k : String) (v : Value) (as : List (String × Value)) :
    List.lookup y ((k, v) :: as) = if y = k then some v else List.lookup y as := by
  rw [List.lookup_cons]
  by_cases h : y = k
  · subst h; simp
  · have : (y == k) = false := by simpa using h
    simp [this, h]

theorem lookup_defsInsert (d : List (String × Value)) (k : String) (v : Value) (y : String) :
    (defsInsert d k v).lookup y = if y = k then some v else d.lookup y := by
  induction d with
  | nil => simp [defsInsert, lookup_cons_ite]
  | cons p rest ih =>
    obtain ⟨k', v'⟩ := p
    simp only [defsInsert]
    by_cases hk : k' = k
    · subst hk
      by_cases hy : y = k' <;> simp [lookup_cons_ite, hy]
    · simp only [hk, if_false, lookup_cons_ite, ih]
      by_cases hy : y = k'
      · subst hy; simp [hk]
      · simp [hy]

theorem getElem?_lt {α} {xs : Array α} {i : Nat} {a : α} (h : xs[i]? = some a) : i < xs.size := by
  rcases Nat.lt_or_ge i xs.size with h' | h'
  · exact h'
  · have : xs[i]? = none := by simp; omega
    simp [this] at h

theorem LibFrame.lt {σ b} (h : LibFrame σ b) : b < σ.frames.size := by
  obtain ⟨f, hf, _⟩ := h.frame
  exact getElem?_lt hf

/-- (4) the predicate only reads frame `b`: any store change that keeps frame `b` keeps it … -/
theorem LibFrame.of_frame_eq {σ σ' b} (h : LibFrame σ b) (hb : σ'.frames[b]? = σ.frames[b]?) : LibFrame σ' b :=
  ⟨by rw [hb]; exact h.frame⟩

/-- … in particular appending frames, allocating or mutating vectors, output, and `define`/`set!`
in any other frame. -/
theorem LibFrame.ext {σ σ' b} (h : LibFrame σ b) (he : σ.FramesExt σ') : LibFrame σ' b :=
  h.of_frame_eq (he.frames b h.lt)

theorem LibFrame.define_other {σ b} (h : LibFrame σ b) {ρ : Nat} (hρ : ρ ≠ b) (k : String) (v : Value) :
    LibFrame (σ.define ρ k v) b :=
  h.of_frame_eq (ListLib.define_other σ ρ k v b (Ne.symm hρ))

/-- … and even a `define` in frame `b` itself of a name the library does not define -/
theorem LibFrame.define_fresh {σ b} (h : LibFrame σ b) {k : String} (hk : k ∉ baseDefs.map (·.1))
    (hk' : k ∉ Builtin.baseList.map Builtin.name) (v : Value) : LibFrame (σ.define b k v) b := by
  obtain ⟨f, hf, hp, h1, h2⟩ := h.frame
  refine ⟨⟨{ f with defs := defsInsert f.defs k v }, ?_, hp, fun n hn => ?_, fun bi hbi => ?_⟩⟩
  · rw [define_frames_getElem?, hf]; simp
  · have : n ≠ k := fun e => hk (e ▸ hn)
    simp only [lookup_defsInsert, this, if_false]; exact h1 n hn
  · have : bi.name ≠ k := fun e => hk' (e ▸ List.mem_map.mpr ⟨bi, hbi, rfl⟩)
    simp only [lookup_defsInsert, this, if_false]; exact h2 bi hbi

theorem LibFrame.lookup_proc {σ b} (h : LibFrame σ b) {i : Nat} {n : String} {e : Expr}
    (hi : expectedDefs[i]? = some (n, e)) : σ.lookup b n = some (libProc n b) := by
  obtain ⟨f, hf, _, h1, _⟩ := h.frame
  rw [lookup_of_frame hf, h1 n]
  rw [baseDefs_eq]
  exact List.mem_map.mpr ⟨(n, e), List.mem_of_getElem? hi, rfl⟩

theorem LibFrame.lookup_builtin {σ b} (h : LibFrame σ b) (bi : Builtin) (hbi : bi ∈ Builtin.baseList) :
    σ.lookup b bi.name = some (.builtin bi) := by
  obtain ⟨f, hf, _, _, h2⟩ := h.frame
  rw [lookup_of_frame hf, h2 bi hbi]

/-- what the body of a library procedure (or of a thunk inside it) sees from its frame `ρ`: the
bindings `bs` (its parameters), and behind them the library frame -/
structure Scope (b ρ : Nat) (bs : List (String × Value)) (σ : Store) : Prop where
  lib : LibFrame σ b
  lt : ρ < σ.frames.size
  sees : ∀ y, σ.lookup ρ y = match bs.lookup y with | some v => some v | none => σ.lookup b y

theorem Scope.ext {b ρ bs σ σ'} (h : Scope b ρ bs σ) (he : σ.FramesExt σ') : Scope b ρ bs σ' where
  lib := h.lib.ext he
  lt := Nat.lt_of_lt_of_le h.lt he.size
  sees y := by rw [lookup_of_framesExt he h.lt, lookup_of_framesExt he h.lib.lt]; exact h.sees y

theorem Scope.enter {b ρ bs σ} (h : Scope b ρ bs σ) : Scope b ρ bs (enter σ) := h.ext (Store.framesExt_enter σ)

theorem Scope.var {b ρ bs σ} (h : Scope b ρ bs σ) {y v} (hy : bs.lookup y = some v) : σ.lookup ρ y = some v := by
  rw [h.sees, hy]

theorem Scope.proc {b ρ bs σ} (h : Scope b ρ bs σ) (i : Nat) {n : String} {e : Expr}
    (hi : expectedDefs[i]? = some (n, e)) (hy : bs.lookup n = none) : σ.lookup ρ n = some (libProc n b) := by
  rw [h.sees, hy]; exact h.lib.lookup_proc hi

theorem Scope.builtin {b ρ bs σ} (h : Scope b ρ bs σ) (bi : Builtin) (hbi : bi ∈ Builtin.baseList)
    (hy : bs.lookup bi.name = none) : σ.lookup ρ bi.name = some (.builtin bi) := by
  rw [h.sees, hy]; exact h.lib.lookup_builtin bi hbi

/-- the scope of a procedure of the library at the start of its body -/
theorem Scope.of_call {σ b} (h : LibFrame σ b) (formals : Formals) (args : List Value) :
    Scope b σ.frames.size (paramDefs formals args) (callFrame σ b formals args) where
  lib := h.ext (callFrame_ext σ b formals args).framesExt
  lt := by rw [(callFrame_spec σ b formals args).2.1]; omega
  sees y := by
    rw [callFrame_lookup σ h.lt]
    cases (paramDefs formals args).lookup y with
    | some v => rfl
    | none => exact (lookup_of_framesExt (callFrame_ext σ b formals args).framesExt h.lt y).symm

/-- a parameterless procedure made in frame `ρ` (a `cond` clause body) sees what `ρ` sees -/
theorem Scope.of_thunk {b ρ bs σ} (h : Scope b ρ bs σ) :
    Scope b σ.frames.size bs (callFrame σ ρ ⟨[], none⟩ []) where
  lib := h.lib.ext (callFrame_ext σ ρ _ _).framesExt
  lt := by rw [(callFrame_spec σ ρ _ _).2.1]; omega
  sees y := by
    have he := (callFrame_ext σ ρ ⟨[], none⟩ []).framesExt
    rw [callFrame_lookup σ h.lt, lookup_of_framesExt he h.lib.lt]
    exact h.sees y

/-! ## 4. the trampoline, seen from a procedure body -/

/-- the loop's `eval_procedure_call` of a pending tail call `(f . targs)` of frame `tenv`, and the
rest of the loop: operator, operands, procedure test, next iteration -/
def TrampCall (σ : Store) (tenv : Nat) (f : Expr) (targs : List Expr) (env : Nat)
    (r : Except SErr Value) (σ' : Store) : Prop :=
  (∃ er, Evals σ tenv f (.error er) σ' ∧ r = .error er) ∨
  (∃ fv σ₁, Evals σ tenv f (.ok fv) σ₁ ∧
    ((∃ er, EvalsArgs σ₁ tenv targs (.error er) σ' ∧ r = .error er) ∨
     (∃ vs σ₂, EvalsArgs σ₁ tenv targs (.ok vs) σ₂ ∧
        ((procArity fv = none ∧ r = .error (.nonProcedure, f.loc) ∧ σ' = σ₂) ∨
         ((procArity fv).isSome ∧ Applies σ₂ fv vs env r σ')))))

/-- the rest of an activation whose body has reached the tail expression `e` of frame `ρ`: the
outcome of the loop is `r` -/
def TailRuns (σ : Store) (ρ : Nat) (e : Expr) (env : Nat) (r : Except SErr Value) (σ' : Store) : Prop :=
  (∃ er, EvalsTail σ ρ e (.error er) σ' ∧ r = .error er) ∨
  (∃ v, EvalsTail σ ρ e (.ok (.value v)) σ' ∧ r = .ok v) ∨
  (∃ f targs tenv σ₁, EvalsTail σ ρ e (.ok (.tailCall f targs tenv)) σ₁ ∧ TrampCall σ₁ tenv f targs env r σ')

theorem arityOk_le {fixed : Nat} {variadic : Bool} {n : Nat} (h : arityOk fixed variadic n = true) : fixed ≤ n := by
  unfold arityOk at h
  by_cases hlt : n < fixed
  · simp [hlt] at h
  · omega

/-- a procedure without internal definitions and with a one-expression body: its frame, then the
body as a tail expression -/
theorem AppliesScheme.simple {σ formals e cenv args r σ'} (hlen : formals.fixed.length ≤ args.length)
    (h : EvalsTail (callFrame σ cenv formals args) σ.frames.size e r σ') :
    AppliesScheme σ (.mk formals [] [e]) cenv args r σ' := by
  refine AppliesScheme.intro_ok (restArgs := args.drop formals.fixed.length)
    (σ₁ := (bindFixed (σ.newFrame (some cenv)).2 σ.frames.size formals.fixed args).2)
    (σ₂ := callFrame σ cenv formals args) ?_ ?_ ?_
  · exact bindFixed_ok formals.fixed args _ _ hlen
  · exact EvalsDefs.nil
  · exact EvalsBody.last h

theorem Applies.closure_simple {σ formals e cenv args env r σ'}
    (ha : arityOk formals.fixed.length formals.rest.isSome args.length = true)
    (h : TailRuns (callFrame σ cenv formals args) σ.frames.size e env r σ') :
    Applies σ (.closure (.mk formals [] [e]) cenv) args env r σ' := by
  have hlen := arityOk_le ha
  rcases h with ⟨er, h, rfl⟩ | ⟨v, h, rfl⟩ | ⟨f, targs, tenv, σ₁, h, ht⟩
  · exact Applies.closure_err ha (AppliesScheme.simple hlen h)
  · exact Applies.closure_value ha (AppliesScheme.simple hlen h)
  · have hs := AppliesScheme.simple hlen h
    rcases ht with ⟨er, hf, rfl⟩ | ⟨fv, σ₂, hf, ⟨er, hargs, rfl⟩ | ⟨vs, σ₃, hargs, ⟨hp, rfl, rfl⟩ | ⟨hp, hl⟩⟩⟩
    · exact Applies.closure_tail_op_err ha hs hf
    · exact Applies.closure_tail_arg_err ha hs hf hargs
    · exact Applies.closure_tail_nonproc ha hs hf hargs hp
    · exact Applies.closure_tail ha hs hf hargs hp hl

theorem TailRuns.call {σ ρ f args l env r σ'} (h : TrampCall σ ρ f args env r σ') :
    TailRuns σ ρ (.call f args l) env r σ' :=
  .inr (.inr ⟨f, args, ρ, σ, EvalsTail.call, h⟩)

theorem TailRuns.value {σ ρ e env v σ'} (hcall : ∀ f as l, e ≠ .call f as l) (hcond : ∀ t c a l, e ≠ .cond t c a l)
    (h : Evals σ ρ e (.ok v) σ') : TailRuns σ ρ e env (.ok v) σ' :=
  .inr (.inl ⟨v, EvalsTail.other hcall hcond h, rfl⟩)

theorem TailRuns.err {σ ρ e env er σ'} (hcall : ∀ f as l, e ≠ .call f as l) (hcond : ∀ t c a l, e ≠ .cond t c a l)
    (h : Evals σ ρ e (.error er) σ') : TailRuns σ ρ e env (.error er) σ' :=
  .inl ⟨er, EvalsTail.other_err hcall hcond h, rfl⟩

theorem TailRuns.cond_err {σ ρ t c a l env er σ₁} (ht : Evals σ ρ t (.error er) σ₁) :
    TailRuns σ ρ (.cond t c a l) env (.error er) σ₁ :=
  .inl ⟨er, EvalsTail.cond_err ht, rfl⟩

theorem TailRuns.cond_true {σ ρ t c a l env tv σ₁ r σ'} (ht : Evals σ ρ t (.ok tv) σ₁) (htv : tv.truthy = true)
    (hc : TailRuns σ₁ ρ c env r σ') : TailRuns σ ρ (.cond t c a l) env r σ' := by
  rcases hc with ⟨er, h, rfl⟩ | ⟨v, h, rfl⟩ | ⟨f, targs, tenv, σ₂, h, hr⟩
  · exact .inl ⟨er, EvalsTail.cond_true ht htv h, rfl⟩
  · exact .inr (.inl ⟨v, EvalsTail.cond_true ht htv h, rfl⟩)
  · exact .inr (.inr ⟨f, targs, tenv, σ₂, EvalsTail.cond_true ht htv h, hr⟩)

theorem TailRuns.cond_false {σ ρ t c alt l env tv σ₁ r σ'} (ht : Evals σ ρ t (.ok tv) σ₁) (htv : tv.truthy = false)
    (hc : TailRuns σ₁ ρ alt env r σ') : TailRuns σ ρ (.cond t c (some alt) l) env r σ' := by
  rcases hc with ⟨er, h, rfl⟩ | ⟨v, h, rfl⟩ | ⟨f, targs, tenv, σ₂, h, hr⟩
  · exact .inl ⟨er, EvalsTail.cond_false ht htv h, rfl⟩
  · exact .inr (.inl ⟨v, EvalsTail.cond_false ht htv h, rfl⟩)
  · exact .inr (.inr ⟨f, targs, tenv, σ₂, EvalsTail.cond_false ht htv h, hr⟩)

theorem TailRuns.cond_void {σ ρ t c l env tv σ₁} (ht : Evals σ ρ t (.ok tv) σ₁) (htv : tv.truthy = false) :
    TailRuns σ ρ (.cond t c none l) env (.ok .void) σ₁ :=
  .inr (.inl ⟨.void, EvalsTail.cond_void ht htv, rfl⟩)

/-- a call of a `cond` clause body `((lambda () e))` in tail position: the body runs in a fresh
frame under `ρ`, in the same activation -/
theorem TailRuns.thunk {σ ρ e env r σ'}
    (h : TailRuns (callFrame σ ρ ⟨[], none⟩ []) σ.frames.size e env r σ') :
    TailRuns σ ρ (thunk e) env r σ' :=
  TailRuns.call (.inr ⟨_, σ, Evals.lambda, .inr ⟨[], σ, EvalsArgs.nil, .inr ⟨rfl,
    Applies.closure_simple (by rfl) h⟩⟩⟩)

/-- a non-tail call: the operator, the operands, then one activation of the loop -/
theorem Evals.call_loop {σ ρ f args l fv σ₁ vs σ₂ r σ'} (hf : Evals σ ρ f (.ok fv) σ₁)
    (ha : EvalsArgs σ₁ ρ args (.ok vs) σ₂) (hp : (procArity fv).isSome)
    (hap : Applies (enter σ₂) fv vs ρ r σ') : Evals σ ρ (.call f args l) r (leave σ') :=
  Evals.call hf ha hp (AppliesProc.of_loop hap)

/-! ## 5. running library code symbolically: store-polymorphic rules

All the first-order procedures of the library only READ the store — its vectors `V`, and only
`equal?` does — and all they do to it is append frames. `PEval V b ρ bs e r` says so for an
expression of a procedure body: in EVERY store whose vectors are `V` and in which frame `ρ` sees
the bindings `bs` in front of the library frame `b`, `e` evaluates to `r` (a value or an error)
and the store is extended. -/

def EvalsE (σ : Store) (ρ : Nat) (e : Expr) (r : Except SErr Value) : Prop :=
  ∃ σ', Evals σ ρ e r σ' ∧ σ.Ext σ'
def EvalsArgsE (σ : Store) (ρ : Nat) (es : List Expr) (r : Except SErr (List Value)) : Prop :=
  ∃ σ', EvalsArgs σ ρ es r σ' ∧ σ.Ext σ'
def AppliesE (σ : Store) (p : Value) (args : List Value) (env : Nat) (r : Except SErr Value) : Prop :=
  ∃ σ', Applies σ p args env r σ' ∧ σ.Ext σ'
def TailRunsE (σ : Store) (ρ : Nat) (e : Expr) (env : Nat) (r : Except SErr Value) : Prop :=
  ∃ σ', TailRuns σ ρ e env r σ' ∧ σ.Ext σ'

def PEval (V : Array VecCell) (b ρ : Nat) (bs : List (String × Value)) (e : Expr) (r : Except SErr Value) : Prop :=
  ∀ σ, Scope b ρ bs σ → σ.vecs = V → EvalsE σ ρ e r
def PArgs (V : Array VecCell) (b ρ : Nat) (bs : List (String × Value)) (es : List Expr)
    (r : Except SErr (List Value)) : Prop :=
  ∀ σ, Scope b ρ bs σ → σ.vecs = V → EvalsArgsE σ ρ es r
def PTail (V : Array VecCell) (b ρ : Nat) (bs : List (String × Value)) (e : Expr) (r : Except SErr Value) : Prop :=
  ∀ σ env, Scope b ρ bs σ → σ.vecs = V → TailRunsE σ ρ e env r
/-- `p` applied to `args` yields `r` and only appends frames, in every store that has the
library frame `b` and the vectors `V`, whoever the caller is -/
def PApp (V : Array VecCell) (b : Nat) (p : Value) (args : List Value) (r : Except SErr Value) : Prop :=
  ∀ σ env, LibFrame σ b → σ.vecs = V → AppliesE σ p args env r

/-- the outcome of evaluating an operand list: the first error, else all the values -/
def consR : Except SErr Value → Except SErr (List Value) → Except SErr (List Value)
  | .error e, _ => .error e
  | .ok _, .error e => .error e
  | .ok v, .ok vs => .ok (v :: vs)

section rules
variable {V : Array VecCell} {b ρ : Nat} {bs : List (String × Value)}

theorem PEval.congr {e r r'} (h : PEval V b ρ bs e r) (hr : r = r') : PEval V b ρ bs e r' := hr ▸ h
theorem PArgs.congr {es r r'} (h : PArgs V b ρ bs es r) (hr : r = r') : PArgs V b ρ bs es r' := hr ▸ h
theorem PTail.congr {e r r'} (h : PTail V b ρ bs e r) (hr : r = r') : PTail V b ρ bs e r' := hr ▸ h
theorem PApp.congr {p args r r'} (h : PApp V b p args r) (hr : r = r') : PApp V b p args r' := hr ▸ h

theorem PEval.var {y l v} (hy : bs.lookup y = some v) : PEval V b ρ bs (.sym y l) (.ok v) :=
  fun σ h _ => ⟨σ, Evals.sym (h.var hy), .refl σ⟩

theorem PEval.prim {p l v} (hp : evalPrim p = .ok v) : PEval V b ρ bs (.prim p l) (.ok v) :=
  fun σ _ _ => ⟨σ, Evals.prim hp, .refl σ⟩

/-- `'()` -/
theorem PEval.nil {l l'} : PEval V b ρ bs (.quote (.nil l') l) (.ok .nil) :=
  fun σ _ _ => ⟨σ, Evals.quote (by rw [readLiteral]) (by simp), .refl σ⟩

theorem PArgs.nil : PArgs V b ρ bs [] (.ok []) := fun σ _ _ => ⟨σ, EvalsArgs.nil, .refl σ⟩

theorem PArgs.cons {a as ra ras} (ha : PEval V b ρ bs a ra) (has : PArgs V b ρ bs as ras) :
    PArgs V b ρ bs (a :: as) (consR ra ras) := by
  intro σ h hv
  obtain ⟨σ₁, h₁, e₁⟩ := ha σ h hv
  cases ra with
  | error er => exact ⟨σ₁, EvalsArgs.cons_err h₁, e₁⟩
  | ok v =>
    obtain ⟨σ₂, h₂, e₂⟩ := has σ₁ (h.ext e₁.framesExt) (e₁.vecs.trans hv)
    cases ras with
    | error er => exact ⟨σ₂, EvalsArgs.cons_tail_err h₁ h₂, e₁.trans e₂⟩
    | ok vs => exact ⟨σ₂, EvalsArgs.cons h₁ h₂, e₁.trans e₂⟩

/-- a call, not in tail position, of the procedure a name is bound to -/
theorem PEval.call {f l args l' fv ras} {k : List Value → Except SErr Value}
    (hf : ∀ σ, Scope b ρ bs σ → σ.lookup ρ f = some fv) (hp : (procArity fv).isSome)
    (ha : PArgs V b ρ bs args ras) (hk : ∀ vs, ras = .ok vs → PApp V b fv vs (k vs)) :
    PEval V b ρ bs (.call (.sym f l) args l') (ras.bind k) := by
  intro σ h hv
  obtain ⟨σ₂, h₂, e₂⟩ := ha σ h hv
  cases ras with
  | error er => exact ⟨σ₂, Evals.call_arg_err (Evals.sym (hf σ h)) h₂ hp, e₂⟩
  | ok vs =>
    obtain ⟨σ₃, h₃, e₃⟩ := hk vs rfl (enter σ₂) ρ ((h.ext e₂.framesExt).enter).lib (e₂.vecs.trans hv)
    exact ⟨leave σ₃, Evals.call_loop (Evals.sym (hf σ h)) h₂ hp h₃, e₂.trans (.of_activation e₃)⟩

/-- the same call in tail position: it is the next iteration of the activation's loop -/
theorem PTail.call {f l args l' fv ras} {k : List Value → Except SErr Value}
    (hf : ∀ σ, Scope b ρ bs σ → σ.lookup ρ f = some fv) (hp : (procArity fv).isSome)
    (ha : PArgs V b ρ bs args ras) (hk : ∀ vs, ras = .ok vs → PApp V b fv vs (k vs)) :
    PTail V b ρ bs (.call (.sym f l) args l') (ras.bind k) := by
  intro σ env h hv
  obtain ⟨σ₂, h₂, e₂⟩ := ha σ h hv
  cases ras with
  | error er =>
    exact ⟨σ₂, TailRuns.call (.inr ⟨fv, σ, Evals.sym (hf σ h), .inl ⟨er, h₂, rfl⟩⟩), e₂⟩
  | ok vs =>
    obtain ⟨σ₃, h₃, e₃⟩ := hk vs rfl σ₂ env (h.ext e₂.framesExt).lib (e₂.vecs.trans hv)
    exact ⟨σ₃, TailRuns.call (.inr ⟨fv, σ, Evals.sym (hf σ h), .inr ⟨vs, σ₂, h₂, .inr ⟨hp, h₃⟩⟩⟩), e₂.trans e₃⟩

theorem PTail.value {e r} (hcall : ∀ f as l, e ≠ .call f as l) (hcond : ∀ t c a l, e ≠ .cond t c a l)
    (he : PEval V b ρ bs e r) : PTail V b ρ bs e r := by
  intro σ env h hv
  obtain ⟨σ₁, h₁, e₁⟩ := he σ h hv
  cases r with
  | error er => exact ⟨σ₁, TailRuns.err hcall hcond h₁, e₁⟩
  | ok v => exact ⟨σ₁, TailRuns.value hcall hcond h₁, e₁⟩

theorem PTail.cond {t c a l rt r} (ht : PEval V b ρ bs t rt)
    (hc : ∀ tv, rt = .ok tv → tv.truthy = true → PTail V b ρ bs c r)
    (ha : ∀ tv, rt = .ok tv → tv.truthy = false → PTail V b ρ bs a r)
    (he : ∀ er, rt = .error er → r = .error er) : PTail V b ρ bs (.cond t c (some a) l) r := by
  intro σ env h hv
  obtain ⟨σ₁, h₁, e₁⟩ := ht σ h hv
  cases rt with
  | error er => exact ⟨σ₁, he er rfl ▸ TailRuns.cond_err h₁, e₁⟩
  | ok tv =>
    cases htv : tv.truthy with
    | true =>
      obtain ⟨σ₂, h₂, e₂⟩ := hc tv rfl htv σ₁ env (h.ext e₁.framesExt) (e₁.vecs.trans hv)
      exact ⟨σ₂, TailRuns.cond_true h₁ htv h₂, e₁.trans e₂⟩
    | false =>
      obtain ⟨σ₂, h₂, e₂⟩ := ha tv rfl htv σ₁ env (h.ext e₁.framesExt) (e₁.vecs.trans hv)
      exact ⟨σ₂, TailRuns.cond_false h₁ htv h₂, e₁.trans e₂⟩

/-- a `cond` clause body `((lambda () e))` in tail position runs `e` in a frame that sees the same
bindings -/
theorem PTail.thunk {e r} (h : ∀ ρ', PTail V b ρ' bs e r) : PTail V b ρ bs (thunk e) r := by
  intro σ env hs hv
  obtain ⟨σ₁, h₁, e₁⟩ := h σ.frames.size _ env hs.of_thunk ((callFrame_ext σ ρ _ _).vecs.trans hv)
  exact ⟨σ₁, TailRuns.thunk h₁, (callFrame_ext σ ρ _ _).trans e₁⟩

/-- a procedure of the library: its body, run as a tail expression in the frame of the call -/
theorem PApp.closure {formals e args r}
    (ha : arityOk formals.fixed.length formals.rest.isSome args.length = true)
    (h : ∀ ρ, PTail V b ρ (paramDefs formals args) e r) :
    PApp V b (.closure (.mk formals [] [e]) b) args r := by
  intro σ env hl hv
  obtain ⟨σ₁, h₁, e₁⟩ := h σ.frames.size _ env (Scope.of_call hl formals args)
    ((callFrame_ext σ b _ _).vecs.trans hv)
  exact ⟨σ₁, Applies.closure_simple ha h₁, (callFrame_ext σ b _ _).trans e₁⟩

/-- a native procedure that does not change the store (it may read the vectors) -/
theorem PApp.builtin {bi args r} (hb : bi ≠ .apply)
    (ha : arityOk bi.arity.1 bi.arity.2 args.length = true)
    (h : ∀ σ, σ.vecs = V → Prim.applyPure σ bi args = (r, σ))
    (hr : NotFuel r) : PApp V b (.builtin bi) args r :=
  fun σ _ _ hv => ⟨σ, Applies.builtin hb ha (h σ hv) hr, .refl σ⟩

/-! ### one and two operands -/

theorem PEval.call1 {f l a l' fv ra} {k : Value → Except SErr Value}
    (hf : ∀ σ, Scope b ρ bs σ → σ.lookup ρ f = some fv) (hp : (procArity fv).isSome)
    (ha : PEval V b ρ bs a ra) (hk : ∀ v, ra = .ok v → PApp V b fv [v] (k v)) :
    PEval V b ρ bs (.call (.sym f l) [a] l') (ra.bind k) := by
  refine (PEval.call (k := fun vs => match vs with | [v] => k v | _ => .error (.other, none)) hf hp
    (PArgs.cons ha PArgs.nil) ?_).congr ?_
  · intro vs hvs
    cases ra with
    | error er => cases hvs
    | ok v => cases hvs; exact hk v rfl
  · cases ra <;> rfl

theorem PEval.call2 {f l a₁ a₂ l' fv r₁ r₂} {k : Value → Value → Except SErr Value}
    (hf : ∀ σ, Scope b ρ bs σ → σ.lookup ρ f = some fv) (hp : (procArity fv).isSome)
    (h₁ : PEval V b ρ bs a₁ r₁) (h₂ : PEval V b ρ bs a₂ r₂)
    (hk : ∀ v₁ v₂, r₁ = .ok v₁ → r₂ = .ok v₂ → PApp V b fv [v₁, v₂] (k v₁ v₂)) :
    PEval V b ρ bs (.call (.sym f l) [a₁, a₂] l') (r₁.bind fun v₁ => r₂.bind fun v₂ => k v₁ v₂) := by
  refine (PEval.call (k := fun vs => match vs with | [v₁, v₂] => k v₁ v₂ | _ => .error (.other, none)) hf hp
    (PArgs.cons h₁ (PArgs.cons h₂ PArgs.nil)) ?_).congr ?_
  · intro vs hvs
    cases r₁ with
    | error er => cases hvs
    | ok v₁ =>
      cases r₂ with
      | error er => cases hvs
      | ok v₂ => cases hvs; exact hk v₁ v₂ rfl rfl
  · cases r₁ <;> cases r₂ <;> rfl

theorem PTail.call1 {f l a l' fv ra} {k : Value → Except SErr Value}
    (hf : ∀ σ, Scope b ρ bs σ → σ.lookup ρ f = some fv) (hp : (procArity fv).isSome)
    (ha : PEval V b ρ bs a ra) (hk : ∀ v, ra = .ok v → PApp V b fv [v] (k v)) :
    PTail V b ρ bs (.call (.sym f l) [a] l') (ra.bind k) := by
  refine (PTail.call (k := fun vs => match vs with | [v] => k v | _ => .error (.other, none)) hf hp
    (PArgs.cons ha PArgs.nil) ?_).congr ?_
  · intro vs hvs
    cases ra with
    | error er => cases hvs
    | ok v => cases hvs; exact hk v rfl
  · cases ra <;> rfl

theorem PTail.call2 {f l a₁ a₂ l' fv r₁ r₂} {k : Value → Value → Except SErr Value}
    (hf : ∀ σ, Scope b ρ bs σ → σ.lookup ρ f = some fv) (hp : (procArity fv).isSome)
    (h₁ : PEval V b ρ bs a₁ r₁) (h₂ : PEval V b ρ bs a₂ r₂)
    (hk : ∀ v₁ v₂, r₁ = .ok v₁ → r₂ = .ok v₂ → PApp V b fv [v₁, v₂] (k v₁ v₂)) :
    PTail V b ρ bs (.call (.sym f l) [a₁, a₂] l') (r₁.bind fun v₁ => r₂.bind fun v₂ => k v₁ v₂) := by
  refine (PTail.call (k := fun vs => match vs with | [v₁, v₂] => k v₁ v₂ | _ => .error (.other, none)) hf hp
    (PArgs.cons h₁ (PArgs.cons h₂ PArgs.nil)) ?_).congr ?_
  · intro vs hvs
    cases r₁ with
    | error er => cases hvs
    | ok v₁ =>
      cases r₂ with
      | error er => cases hvs
      | ok v₂ => cases hvs; exact hk v₁ v₂ rfl rfl
  · cases r₁ <;> cases r₂ <;> rfl

end rules

/-! ## 6. the natives the library is built on -/

theorem notFuel_typeErr {α} : NotFuel (.error typeErr : Except SErr α) := NotFuel.error_of (by simp)

theorem notFuel_carS (v : Value) : NotFuel (carS v) := by
  cases v <;> first | exact NotFuel.ok _ | exact notFuel_typeErr
theorem notFuel_cdrS (v : Value) : NotFuel (cdrS v) := by
  cases v <;> first | exact NotFuel.ok _ | exact notFuel_typeErr

theorem applyPure_car (σ : Store) (v : Value) : Prim.applyPure σ .car [v] = (carS v, σ) := by
  cases v <;> rfl
theorem applyPure_cdr (σ : Store) (v : Value) : Prim.applyPure σ .cdr [v] = (cdrS v, σ) := by
  cases v <;> rfl
theorem applyPure_cons (σ : Store) (a d : Value) : Prim.applyPure σ .cons [a, d] = (.ok (.pair a d), σ) := rfl
theorem applyPure_isPair (σ : Store) (v : Value) : Prim.applyPure σ .isPair [v] = (.ok (.bool (isPair v)), σ) := by
  cases v <;> rfl
theorem applyPure_eqv (σ : Store) (a c : Value) : Prim.applyPure σ .eqv [a, c] = (.ok (.bool (Prim.eqv a c)), σ) := rfl
theorem applyPure_eq (σ : Store) (a c : Value) : Prim.applyPure σ .eq [a, c] = (.ok (.bool (Prim.eqv a c)), σ) := rfl
theorem applyPure_not (σ : Store) (v : Value) : Prim.applyPure σ .not [v] = (.ok (.bool (!v.truthy)), σ) := by
  cases v with
  | bool x => cases x <;> rfl
  | _ => rfl

section
variable {V : Array VecCell} {b : Nat}
theorem PApp.car {v} : PApp V b (.builtin .car) [v] (carS v) :=
  PApp.builtin (by decide) (by rfl) (fun σ _ => applyPure_car σ v) (notFuel_carS v)
theorem PApp.cdr {v} : PApp V b (.builtin .cdr) [v] (cdrS v) :=
  PApp.builtin (by decide) (by rfl) (fun σ _ => applyPure_cdr σ v) (notFuel_cdrS v)
theorem PApp.cons {a d} : PApp V b (.builtin .cons) [a, d] (.ok (.pair a d)) :=
  PApp.builtin (by decide) (by rfl) (fun σ _ => applyPure_cons σ a d) (by simp)
theorem PApp.isPair {v} : PApp V b (.builtin .isPair) [v] (.ok (.bool (isPair v))) :=
  PApp.builtin (by decide) (by rfl) (fun σ _ => applyPure_isPair σ v) (by simp)
theorem PApp.eqv {a c} : PApp V b (.builtin .eqv) [a, c] (.ok (.bool (Prim.eqv a c))) :=
  PApp.builtin (by decide) (by rfl) (fun σ _ => applyPure_eqv σ a c) (by simp)
theorem PApp.eq {a c} : PApp V b (.builtin .eq) [a, c] (.ok (.bool (Prim.eqv a c))) :=
  PApp.builtin (by decide) (by rfl) (fun σ _ => applyPure_eq σ a c) (by simp)
theorem PApp.not {v} : PApp V b (.builtin .not) [v] (.ok (.bool (!v.truthy))) :=
  PApp.builtin (by decide) (by rfl) (fun σ _ => applyPure_not σ v) (by simp)

variable {ρ : Nat} {bs : List (String × Value)}
/-- the operator of a call is a native name not shadowed by a parameter -/
theorem lkB (bi : Builtin) (hbi : bi ∈ Builtin.baseList := by decide) (hy : bs.lookup bi.name = none := by rfl) :
    ∀ σ, Scope b ρ bs σ → σ.lookup ρ bi.name = some (.builtin bi) := fun _ h => h.builtin bi hbi hy
/-- the operator of a call is a procedure of the library not shadowed by a parameter -/
theorem lkP (i : Nat) {n : String} {e : Expr} (hi : expectedDefs[i]? = some (n, e) := by rfl)
    (hy : bs.lookup n = none := by rfl) :
    ∀ σ, Scope b ρ bs σ → σ.lookup ρ n = some (libProc n b) := fun _ h => h.proc i hi hy
end

theorem procArity_libProc {n : String} {b : Nat} {i : Nat} {lam : Lambda}
    (hi : expectedDefs[i]? = some (n, .lambda lam none)) : (procArity (libProc n b)).isSome := by
  rw [libProc_of_index hi]; rfl

/-! ### integer arithmetic of the index-driven procedures -/

theorem exactRatio_one {n : Int} (h : fitsI32 n = true) : Num.exactRatio n 1 = .ok (.int n) := by
  have h1 : fitsI32 1 = true := by decide
  simp [Num.exactRatio, h, h1]

theorem applyPure_numEq_int (σ : Store) (a c : Int) :
    Prim.applyPure σ .numEq [.num (.int a), .num (.int c)] = (.ok (.bool (a == c)), σ) := by
  simp only [Prim.applyPure, Prim.cmpNum, Prim.expectNumber, Prim.cmpNum.go, Num.eq, Num.upcast, bind, Except.bind]
  by_cases h : (a == c) = true <;> simp [h, Prim.lift, Prim.ok]

theorem applyPure_gt_int (σ : Store) (a c : Int) :
    Prim.applyPure σ .gt [.num (.int a), .num (.int c)] = (.ok (.bool (decide (a > c))), σ) := by
  simp only [Prim.applyPure, Prim.cmpNum, Prim.expectNumber, Prim.cmpNum.go, Num.gt, Num.upcast, bind, Except.bind]
  by_cases h : a > c <;> simp [h, Prim.lift, Prim.ok]

theorem applyPure_sub_int (σ : Store) (a c : Int) (h : fitsI32 (a - c) = true) :
    Prim.applyPure σ .sub [.num (.int a), .num (.int c)] = (.ok (.num (.int (a - c))), σ) := by
  simp only [Prim.applyPure, Prim.subDiv, Prim.expectNumber, Num.sub, Num.upcast, bind, Except.bind,
    exactRatio_one h, Prim.foldNum, List.foldlM, pure, Except.pure, Prim.lift]
  rfl

section
variable {V : Array VecCell} {b : Nat}
theorem PApp.numEq_int {a c : Int} :
    PApp V b (.builtin .numEq) [.num (.int a), .num (.int c)] (.ok (.bool (a == c))) :=
  PApp.builtin (by decide) (by rfl) (fun σ _ => applyPure_numEq_int σ a c) (by simp)
theorem PApp.gt_int {a c : Int} :
    PApp V b (.builtin .gt) [.num (.int a), .num (.int c)] (.ok (.bool (decide (a > c)))) :=
  PApp.builtin (by decide) (by rfl) (fun σ _ => applyPure_gt_int σ a c) (by simp)
theorem PApp.sub_int {a c : Int} (h : fitsI32 (a - c) = true) :
    PApp V b (.builtin .sub) [.num (.int a), .num (.int c)] (.ok (.num (.int (a - c)))) :=
  PApp.builtin (by decide) (by rfl) (fun σ _ => applyPure_sub_int σ a c h) (by simp)
end

/-! ### the vector natives `equal?` reads the store with -/

theorem applyPure_isVector (σ : Store) (v : Value) : Prim.applyPure σ .isVector [v] = (.ok (.bool (isVec v)), σ) := by
  cases v <;> rfl

theorem applyPure_vectorLength (σ : Store) {id : Nat} {cell : VecCell} (h : σ.vecs[id]? = some cell) :
    Prim.applyPure σ .vectorLength [.vec id] = (.ok (.num (.int cell.items.length)), σ) := by
  simp only [Prim.applyPure, h]; rfl

theorem applyPure_vectorRef (σ : Store) {id : Nat} {cell : VecCell} (h : σ.vecs[id]? = some cell) {k : Nat}
    {x : Value} (hx : cell.items[k]? = some x) :
    Prim.applyPure σ .vectorRef [.vec id, .num (.int k)] = (.ok x, σ) := by
  have : ¬ ((k : Int) < 0) := by omega
  simp only [Prim.applyPure, h, this, if_false, Int.toNat_natCast, hx]; rfl

theorem applyPure_add_int (σ : Store) (a c : Int) (ha : fitsI32 a = true) (h : fitsI32 (a + c) = true) :
    Prim.applyPure σ .add [.num (.int a), .num (.int c)] = (.ok (.num (.int (a + c))), σ) := by
  simp only [Prim.applyPure, Prim.foldNum, List.foldlM, Prim.expectNumber, Num.add, Num.upcast, bind, Except.bind,
    Int.zero_add, exactRatio_one ha, exactRatio_one h, pure, Except.pure, Prim.lift]
  rfl

section
variable {V : Array VecCell} {b : Nat}
theorem PApp.isVector {v} : PApp V b (.builtin .isVector) [v] (.ok (.bool (isVec v))) :=
  PApp.builtin (by decide) (by rfl) (fun σ _ => applyPure_isVector σ v) (by simp)
theorem PApp.vectorLength {id : Nat} {cell : VecCell} (h : V[id]? = some cell) :
    PApp V b (.builtin .vectorLength) [.vec id] (.ok (.num (.int cell.items.length))) :=
  PApp.builtin (by decide) (by rfl) (fun σ hv => applyPure_vectorLength σ (hv ▸ h)) (by simp)
theorem PApp.vectorRef {id : Nat} {cell : VecCell} (h : V[id]? = some cell) {k : Nat} {x : Value}
    (hx : cell.items[k]? = some x) : PApp V b (.builtin .vectorRef) [.vec id, .num (.int k)] (.ok x) :=
  PApp.builtin (by decide) (by rfl) (fun σ hv => applyPure_vectorRef σ (hv ▸ h) hx) (by simp)
theorem PApp.add_int {a c : Int} (ha : fitsI32 a = true) (h : fitsI32 (a + c) = true) :
    PApp V b (.builtin .add) [.num (.int a), .num (.int c)] (.ok (.num (.int (a + c)))) :=
  PApp.builtin (by decide) (by rfl) (fun σ _ => applyPure_add_int σ a c ha h) (by simp)
end

theorem eqv_nil (x : Value) : Prim.eqv x .nil = isNil x := by cases x <;> rfl
theorem eqv_nil_left (x : Value) : Prim.eqv .nil x = isNil x := by cases x <;> rfl

/-! ## 7. the procedures, one by one (`PApp` form; property C11 restates them) -/

section procs
variable {V : Array VecCell} (b : Nat)

theorem papp_caar (x : Value) : PApp V b (libProc "caar" b) [x] (caarS x) := by
  rw [libProc_caar]
  refine PApp.closure (by rfl) fun ρ => ?_
  exact PTail.call1 (lkB .car) (by rfl) (PEval.call1 (lkB .car) (by rfl) (PEval.var (by rfl)) fun _ _ => PApp.car) fun _ _ => PApp.car

theorem papp_cadr (x : Value) : PApp V b (libProc "cadr" b) [x] (cadrS x) := by
  rw [libProc_cadr]
  refine PApp.closure (by rfl) fun ρ => ?_
  exact PTail.call1 (lkB .car) (by rfl) (PEval.call1 (lkB .cdr) (by rfl) (PEval.var (by rfl)) fun _ _ => PApp.cdr) fun _ _ => PApp.car

theorem papp_cdar (x : Value) : PApp V b (libProc "cdar" b) [x] (cdarS x) := by
  rw [libProc_cdar]
  refine PApp.closure (by rfl) fun ρ => ?_
  exact PTail.call1 (lkB .cdr) (by rfl) (PEval.call1 (lkB .car) (by rfl) (PEval.var (by rfl)) fun _ _ => PApp.car) fun _ _ => PApp.cdr

theorem papp_cddr (x : Value) : PApp V b (libProc "cddr" b) [x] (cddrS x) := by
  rw [libProc_cddr]
  refine PApp.closure (by rfl) fun ρ => ?_
  exact PTail.call1 (lkB .cdr) (by rfl) (PEval.call1 (lkB .cdr) (by rfl) (PEval.var (by rfl)) fun _ _ => PApp.cdr) fun _ _ => PApp.cdr

theorem papp_caaar (x : Value) : PApp V b (libProc "caaar" b) [x] (caaarS x) := by
  rw [libProc_caaar]
  refine PApp.closure (by rfl) fun ρ => ?_
  exact PTail.call1 (lkB .car) (by rfl) (PEval.call1 (lkB .car) (by rfl) (PEval.call1 (lkB .car) (by rfl) (PEval.var (by rfl)) fun _ _ => PApp.car) fun _ _ => PApp.car) fun _ _ => PApp.car

theorem papp_caadr (x : Value) : PApp V b (libProc "caadr" b) [x] (caadrS x) := by
  rw [libProc_caadr]
  refine PApp.closure (by rfl) fun ρ => ?_
  exact PTail.call1 (lkB .car) (by rfl) (PEval.call1 (lkB .car) (by rfl) (PEval.call1 (lkB .cdr) (by rfl) (PEval.var (by rfl)) fun _ _ => PApp.cdr) fun _ _ => PApp.car) fun _ _ => PApp.car

theorem papp_cadar (x : Value) : PApp V b (libProc "cadar" b) [x] (cadarS x) := by
  rw [libProc_cadar]
  refine PApp.closure (by rfl) fun ρ => ?_
  exact PTail.call1 (lkB .car) (by rfl) (PEval.call1 (lkB .cdr) (by rfl) (PEval.call1 (lkB .car) (by rfl) (PEval.var (by rfl)) fun _ _ => PApp.car) fun _ _ => PApp.cdr) fun _ _ => PApp.car

theorem papp_caddr (x : Value) : PApp V b (libProc "caddr" b) [x] (caddrS x) := by
  rw [libProc_caddr]
  refine PApp.closure (by rfl) fun ρ => ?_
  exact PTail.call1 (lkB .car) (by rfl) (PEval.call1 (lkB .cdr) (by rfl) (PEval.call1 (lkB .cdr) (by rfl) (PEval.var (by rfl)) fun _ _ => PApp.cdr) fun _ _ => PApp.cdr) fun _ _ => PApp.car

theorem papp_cdaar (x : Value) : PApp V b (libProc "cdaar" b) [x] (cdaarS x) := by
  rw [libProc_cdaar]
  refine PApp.closure (by rfl) fun ρ => ?_
  exact PTail.call1 (lkB .cdr) (by rfl) (PEval.call1 (lkB .car) (by rfl) (PEval.call1 (lkB .car) (by rfl) (PEval.var (by rfl)) fun _ _ => PApp.car) fun _ _ => PApp.car) fun _ _ => PApp.cdr

theorem papp_cdadr (x : Value) : PApp V b (libProc "cdadr" b) [x] (cdadrS x) := by
  rw [libProc_cdadr]
  refine PApp.closure (by rfl) fun ρ => ?_
  exact PTail.call1 (lkB .cdr) (by rfl) (PEval.call1 (lkB .car) (by rfl) (PEval.call1 (lkB .cdr) (by rfl) (PEval.var (by rfl)) fun _ _ => PApp.cdr) fun _ _ => PApp.car) fun _ _ => PApp.cdr

theorem papp_cddar (x : Value) : PApp V b (libProc "cddar" b) [x] (cddarS x) := by
  rw [libProc_cddar]
  refine PApp.closure (by rfl) fun ρ => ?_
  exact PTail.call1 (lkB .cdr) (by rfl) (PEval.call1 (lkB .cdr) (by rfl) (PEval.call1 (lkB .car) (by rfl) (PEval.var (by rfl)) fun _ _ => PApp.car) fun _ _ => PApp.cdr) fun _ _ => PApp.cdr

theorem papp_cdddr (x : Value) : PApp V b (libProc "cdddr" b) [x] (cdddrS x) := by
  rw [libProc_cdddr]
  refine PApp.closure (by rfl) fun ρ => ?_
  exact PTail.call1 (lkB .cdr) (by rfl) (PEval.call1 (lkB .cdr) (by rfl) (PEval.call1 (lkB .cdr) (by rfl) (PEval.var (by rfl)) fun _ _ => PApp.cdr) fun _ _ => PApp.cdr) fun _ _ => PApp.cdr

/-- `(define (list . x) x)` -/
theorem papp_list (args : List Value) : PApp V b (libProc "list" b) args (.ok (Value.ofList args)) := by
  rw [libProc_list]
  refine PApp.closure (by simp [arityOk]) fun ρ => ?_
  exact PTail.value (by intros; simp) (by intros; simp) (PEval.var (by rfl))

/-- `(define (null? x) (eqv? x '()))` -/
theorem papp_null (x : Value) : PApp V b (libProc "null?" b) [x] (.ok (.bool (isNil x))) := by
  rw [libProc_null_pred]
  refine PApp.closure (by rfl) fun ρ => ?_
  refine (PTail.call2 (k := fun v₁ v₂ => .ok (.bool (Prim.eqv v₁ v₂))) (lkB .eqv) (by rfl)
    (PEval.var (by rfl)) PEval.nil fun _ _ _ _ => PApp.eqv).congr ?_
  simp [Except.bind, eqv_nil]

theorem fits_of_le {k : Nat} (h : (k : Int) ≤ 2147483647) : fitsI32 ((k : Int)) = true := by
  simp [fitsI32]; omega

/-- `(list-tail x k)`, by induction on the index -/
theorem papp_list_tail (k : Nat) : ∀ (x : Value), (k : Int) ≤ 2147483647 →
    PApp V b (libProc "list-tail" b) [x, .num (.int k)] (listTailS x k) := by
  induction k with
  | zero =>
    intro x _
    rw [libProc_list_tail]
    refine PApp.closure (by rfl) fun ρ => ?_
    refine PTail.cond (rt := .ok (.bool true))
      (PEval.call2 (k := fun _ _ => .ok (.bool true)) (lkB .numEq) (by rfl) (PEval.var (by rfl)) (PEval.prim (by rfl))
        fun v₁ v₂ h₁ h₂ => by cases h₁; cases h₂; exact PApp.numEq_int)
      (fun tv h _ => ?_) (fun tv h ht => by cases h; cases ht) (fun er h => by cases h)
    exact PTail.value (by intros; simp) (by intros; simp) (PEval.var (by rfl))
  | succ k ih =>
    intro x hk
    rw [libProc_list_tail]
    refine PApp.closure (by rfl) fun ρ => ?_
    refine PTail.cond (rt := .ok (.bool false))
      (PEval.call2 (k := fun _ _ => .ok (.bool false)) (lkB .numEq) (by rfl) (PEval.var (by rfl)) (PEval.prim (by rfl))
        fun v₁ v₂ h₁ h₂ => by
          cases h₁; cases h₂
          refine PApp.numEq_int.congr ?_
          have : (((k + 1 : Nat) : Int) == 0) = false := by simp; omega
          rw [this])
      (fun tv h ht => by cases h; cases ht) (fun tv h _ => ?_) (fun er h => by cases h)
    refine (PTail.call2 (k := fun v₁ _ => listTailS v₁ k) (lkP 21) (procArity_libProc (i := 21) rfl)
      (PEval.call1 (lkB .cdr) (by rfl) (PEval.var (by rfl)) fun _ _ => PApp.cdr)
      (PEval.call2 (k := fun _ _ => .ok (.num (.int k))) (lkB .sub) (by rfl) (PEval.var (by rfl)) (PEval.prim (by rfl))
        fun v₁ v₂ h₁ h₂ => by
          cases h₁; cases h₂
          refine (PApp.sub_int (a := ((k + 1 : Nat) : Int)) (c := 1) ?_).congr ?_
          · simp [fitsI32]; omega
          · simp)
      fun v₁ v₂ _ h₂ => by cases h₂; exact ih v₁ (by omega)).congr ?_
    cases x <;> rfl

/-- `(list-ref x k)` = `(car (list-tail x k))` -/
theorem papp_list_ref (k : Nat) (x : Value) (hk : (k : Int) ≤ 2147483647) :
    PApp V b (libProc "list-ref" b) [x, .num (.int k)] (listRefS x k) := by
  rw [libProc_list_ref]
  refine PApp.closure (by rfl) fun ρ => ?_
  exact PTail.call1 (lkB .car) (by rfl)
    (PEval.call2 (k := fun v₁ _ => listTailS v₁ k) (lkP 21) (procArity_libProc (i := 21) rfl)
      (PEval.var (by rfl)) (PEval.var (by rfl)) fun v₁ v₂ h₁ h₂ => by
        cases h₁; cases h₂; exact papp_list_tail b k _ hk)
    fun _ _ => PApp.car

end procs
@[simp] theorem truthy_bool (c : Bool) : (Value.bool c).truthy = c := by cases c <;> rfl

section procs2
variable {V : Array VecCell} (b : Nat)

/-- `(last-pair x)` -/
theorem papp_last_pair (x : Value) : PApp V b (libProc "last-pair" b) [x] (lastPairS x) := by
  have test : ∀ (x : Value) ρ, PEval V b ρ (paramDefs ⟨["x"], none⟩ [x]) (ca "pair?" [ca "cdr" [sy "x"]])
      ((cdrS x).bind fun v => .ok (.bool (isPair v))) := fun x ρ =>
    PEval.call1 (k := fun v => .ok (.bool (isPair v))) (lkB .isPair) (by rfl)
      (PEval.call1 (lkB .cdr) (by rfl) (PEval.var (by rfl)) fun _ _ => PApp.cdr) fun _ _ => PApp.isPair
  have nonpair : ∀ x, isPair x = false → PApp V b (libProc "last-pair" b) [x] (.error typeErr) := by
    intro x hx
    have hc : cdrS x = .error typeErr := by cases x <;> first | rfl | simp [isPair] at hx
    rw [libProc_last_pair]
    refine PApp.closure (by rfl) fun ρ => ?_
    refine PTail.cond (rt := .error typeErr) ((test x ρ).congr (by rw [hc]; rfl))
      (fun tv h => by cases h) (fun tv h => by cases h) (fun er h => by cases h; rfl)
  induction x with
  | pair a d _ ihd =>
    rw [libProc_last_pair]
    refine PApp.closure (by rfl) fun ρ => ?_
    refine PTail.cond (rt := .ok (.bool (isPair d))) (test (.pair a d) ρ)
      (fun tv h ht => ?_) (fun tv h ht => ?_) (fun er h => by cases h)
    · cases h
      refine PTail.congr (PTail.call1 (k := lastPairS) (lkP 23) (procArity_libProc (i := 23) rfl)
        (PEval.call1 (lkB .cdr) (by rfl) (PEval.var (by rfl)) fun _ _ => PApp.cdr)
        fun v hv => by cases hv; exact ihd) ?_
      cases d <;> first | rfl | simp [isPair, Value.truthy] at ht
    · cases h
      refine PTail.congr (PTail.value (by intros; simp) (by intros; simp) (PEval.var (by rfl))) ?_
      cases d <;> first | rfl | simp [isPair, Value.truthy] at ht
  | _ => exact nonpair _ rfl

/-- `(list? x)` -/
theorem papp_list_pred (x : Value) : PApp V b (libProc "list?" b) [x] (.ok (.bool (isProperList x))) := by
  have test1 : ∀ (x : Value) ρ, PEval V b ρ (paramDefs ⟨["x"], none⟩ [x]) (ca "eq?" [sy "x", q0]) (.ok (.bool (isNil x))) := by
    intro x ρ
    refine (PEval.call2 (k := fun v₁ v₂ => .ok (.bool (Prim.eqv v₁ v₂))) (lkB .eq) (by rfl)
      (PEval.var (by rfl)) PEval.nil fun _ _ _ _ => PApp.eq).congr ?_
    simp [Except.bind, eqv_nil]
  have test2 : ∀ (x : Value) ρ, PEval V b ρ (paramDefs ⟨["x"], none⟩ [x]) (ca "pair?" [sy "x"]) (.ok (.bool (isPair x))) := by
    intro x ρ
    exact PEval.call1 (k := fun v => .ok (.bool (isPair v))) (lkB .isPair) (by rfl) (PEval.var (by rfl)) fun _ _ => PApp.isPair
  have lit : ∀ (x : Value) ρ (c : Bool), PTail V b ρ (paramDefs ⟨["x"], none⟩ [x]) (pr (.bool c)) (.ok (.bool c)) :=
    fun x ρ c => PTail.value (by intros; simp) (by intros; simp) (PEval.prim (by rfl))
  have other : ∀ x, isPair x = false → isNil x = false → PApp V b (libProc "list?" b) [x] (.ok (.bool false)) := by
    intro x hp hn
    rw [libProc_list_pred]
    refine PApp.closure (by rfl) fun ρ => ?_
    refine PTail.cond (test1 x ρ) (fun tv h ht => by cases h; simp [hn, Value.truthy] at ht) (fun tv h _ => ?_)
      (fun er h => by cases h)
    refine PTail.cond (test2 x ρ) (fun tv h ht => by cases h; simp [hp, Value.truthy] at ht) (fun tv h _ => ?_)
      (fun er h => by cases h)
    exact lit x ρ false
  induction x with
  | nil =>
    rw [libProc_list_pred]
    refine PApp.closure (by rfl) fun ρ => ?_
    refine PTail.cond (test1 .nil ρ) (fun tv h _ => ?_) (fun tv h ht => by cases h; simp [isNil, Value.truthy] at ht)
      (fun er h => by cases h)
    exact lit _ ρ true
  | pair a d _ ihd =>
    rw [libProc_list_pred]
    refine PApp.closure (by rfl) fun ρ => ?_
    refine PTail.cond (test1 (.pair a d) ρ) (fun tv h ht => by cases h; simp [isNil, Value.truthy] at ht) (fun tv h _ => ?_)
      (fun er h => by cases h)
    refine PTail.cond (test2 (.pair a d) ρ) (fun tv h _ => ?_) (fun tv h ht => by cases h; simp [isPair, Value.truthy] at ht)
      (fun er h => by cases h)
    have test3 : PEval V b ρ (paramDefs ⟨["x"], none⟩ [.pair a d]) (ca "list?" [ca "cdr" [sy "x"]])
        (.ok (.bool (isProperList d))) :=
      PEval.congr (PEval.call1 (k := fun v => .ok (.bool (isProperList v))) (lkP 30) (procArity_libProc (i := 30) rfl)
        (PEval.call1 (lkB .cdr) (by rfl) (PEval.var (by rfl)) fun _ _ => PApp.cdr)
        fun v hv => by cases hv; exact ihd) rfl
    refine PTail.cond test3 (fun tv h ht => ?_) (fun tv h ht => ?_) (fun er h => by cases h)
    · cases h
      refine PTail.congr (lit _ ρ true) ?_
      rw [truthy_bool] at ht
      simp [isProperList, ht]
    · cases h
      refine PTail.congr (lit _ ρ false) ?_
      rw [truthy_bool] at ht
      simp [isProperList, ht]
  | _ => exact other _ rfl rfl

end procs2
section procs3
variable {V : Array VecCell} (b : Nat)

/-- `(memq obj lst)` -/
theorem papp_memq (obj lst : Value) : PApp V b (libProc "memq" b) [obj, lst] (memS obj lst) := by
  have test1 : ∀ (lst : Value) ρ, PEval V b ρ (paramDefs ⟨["obj", "lst"], none⟩ [obj, lst]) (ca "null?" [sy "lst"])
      (.ok (.bool (isNil lst))) := fun lst ρ =>
    PEval.call1 (k := fun v => .ok (.bool (isNil v))) (lkP 14) (procArity_libProc (i := 14) rfl)
      (PEval.var (by rfl)) fun v _ => papp_null b v
  have test2 : ∀ (lst : Value) ρ, PEval V b ρ (paramDefs ⟨["obj", "lst"], none⟩ [obj, lst])
      (ca "eq?" [sy "obj", ca "car" [sy "lst"]]) ((carS lst).bind fun a => .ok (.bool (Prim.eqv obj a))) := fun lst ρ =>
    PEval.congr (PEval.call2 (k := fun v₁ v₂ => .ok (.bool (Prim.eqv v₁ v₂))) (lkB .eq) (by rfl) (PEval.var (by rfl))
      (PEval.call1 (lkB .car) (by rfl) (PEval.var (by rfl)) fun _ _ => PApp.car) fun _ _ _ _ => PApp.eq) rfl
  have other : ∀ lst, isPair lst = false → isNil lst = false → PApp V b (libProc "memq" b) [obj, lst] (.error typeErr) := by
    intro lst hp hn
    have hc : carS lst = .error typeErr := by cases lst <;> first | rfl | simp [isPair] at hp
    rw [libProc_memq]
    refine PApp.closure (by rfl) fun ρ => ?_
    refine PTail.cond (test1 lst ρ) (fun tv h ht => by cases h; simp [hn] at ht) (fun tv h _ => ?_)
      (fun er h => by cases h)
    refine PTail.cond (rt := .error typeErr) ((test2 lst ρ).congr (by rw [hc]; rfl))
      (fun tv h => by cases h) (fun tv h => by cases h) (fun er h => by cases h; rfl)
  induction lst with
  | nil =>
    rw [libProc_memq]
    refine PApp.closure (by rfl) fun ρ => ?_
    refine PTail.cond (test1 .nil ρ) (fun tv h _ => ?_) (fun tv h ht => by cases h; simp [isNil] at ht)
      (fun er h => by cases h)
    exact PTail.thunk fun ρ' => PTail.value (by intros; simp) (by intros; simp) (PEval.prim (by rfl))
  | pair a d _ ihd =>
    rw [libProc_memq]
    refine PApp.closure (by rfl) fun ρ => ?_
    refine PTail.cond (test1 (.pair a d) ρ) (fun tv h ht => by cases h; simp [isNil] at ht) (fun tv h _ => ?_)
      (fun er h => by cases h)
    refine PTail.cond (rt := .ok (.bool (Prim.eqv obj a))) (test2 (.pair a d) ρ) (fun tv h ht => ?_) (fun tv h ht => ?_)
      (fun er h => by cases h)
    · cases h
      rw [truthy_bool] at ht
      refine PTail.congr (PTail.thunk fun ρ' => PTail.value (by intros; simp) (by intros; simp) (PEval.var (by rfl))) ?_
      simp [memS, ht]
    · cases h
      rw [truthy_bool] at ht
      refine PTail.congr (PTail.thunk fun ρ' => PTail.call2 (k := fun v₁ v₂ => memS v₁ v₂) (lkP 26)
        (procArity_libProc (i := 26) rfl) (PEval.var (by rfl))
        (PEval.call1 (lkB .cdr) (by rfl) (PEval.var (by rfl)) fun _ _ => PApp.cdr)
        fun v₁ v₂ h₁ h₂ => by cases h₁; cases h₂; exact ihd) ?_
      simp [memS, ht, cdrS, Except.bind]
  | _ => exact other _ rfl rfl

/-- `(memv obj lst)` -/
theorem papp_memv (obj lst : Value) : PApp V b (libProc "memv" b) [obj, lst] (memS obj lst) := by
  have test1 : ∀ (lst : Value) ρ, PEval V b ρ (paramDefs ⟨["obj", "lst"], none⟩ [obj, lst]) (ca "null?" [sy "lst"])
      (.ok (.bool (isNil lst))) := fun lst ρ =>
    PEval.call1 (k := fun v => .ok (.bool (isNil v))) (lkP 14) (procArity_libProc (i := 14) rfl)
      (PEval.var (by rfl)) fun v _ => papp_null b v
  have test2 : ∀ (lst : Value) ρ, PEval V b ρ (paramDefs ⟨["obj", "lst"], none⟩ [obj, lst])
      (ca "eqv?" [sy "obj", ca "car" [sy "lst"]]) ((carS lst).bind fun a => .ok (.bool (Prim.eqv obj a))) := fun lst ρ =>
    PEval.congr (PEval.call2 (k := fun v₁ v₂ => .ok (.bool (Prim.eqv v₁ v₂))) (lkB .eqv) (by rfl) (PEval.var (by rfl))
      (PEval.call1 (lkB .car) (by rfl) (PEval.var (by rfl)) fun _ _ => PApp.car) fun _ _ _ _ => PApp.eqv) rfl
  have other : ∀ lst, isPair lst = false → isNil lst = false → PApp V b (libProc "memv" b) [obj, lst] (.error typeErr) := by
    intro lst hp hn
    have hc : carS lst = .error typeErr := by cases lst <;> first | rfl | simp [isPair] at hp
    rw [libProc_memv]
    refine PApp.closure (by rfl) fun ρ => ?_
    refine PTail.cond (test1 lst ρ) (fun tv h ht => by cases h; simp [hn] at ht) (fun tv h _ => ?_)
      (fun er h => by cases h)
    refine PTail.cond (rt := .error typeErr) ((test2 lst ρ).congr (by rw [hc]; rfl))
      (fun tv h => by cases h) (fun tv h => by cases h) (fun er h => by cases h; rfl)
  induction lst with
  | nil =>
    rw [libProc_memv]
    refine PApp.closure (by rfl) fun ρ => ?_
    refine PTail.cond (test1 .nil ρ) (fun tv h _ => ?_) (fun tv h ht => by cases h; simp [isNil] at ht)
      (fun er h => by cases h)
    exact PTail.thunk fun ρ' => PTail.value (by intros; simp) (by intros; simp) (PEval.prim (by rfl))
  | pair a d _ ihd =>
    rw [libProc_memv]
    refine PApp.closure (by rfl) fun ρ => ?_
    refine PTail.cond (test1 (.pair a d) ρ) (fun tv h ht => by cases h; simp [isNil] at ht) (fun tv h _ => ?_)
      (fun er h => by cases h)
    refine PTail.cond (rt := .ok (.bool (Prim.eqv obj a))) (test2 (.pair a d) ρ) (fun tv h ht => ?_) (fun tv h ht => ?_)
      (fun er h => by cases h)
    · cases h
      rw [truthy_bool] at ht
      refine PTail.congr (PTail.thunk fun ρ' => PTail.value (by intros; simp) (by intros; simp) (PEval.var (by rfl))) ?_
      simp [memS, ht]
    · cases h
      rw [truthy_bool] at ht
      refine PTail.congr (PTail.thunk fun ρ' => PTail.call2 (k := fun v₁ v₂ => memS v₁ v₂) (lkP 27)
        (procArity_libProc (i := 27) rfl) (PEval.var (by rfl))
        (PEval.call1 (lkB .cdr) (by rfl) (PEval.var (by rfl)) fun _ _ => PApp.cdr)
        fun v₁ v₂ h₁ h₂ => by cases h₁; cases h₂; exact ihd) ?_
      simp [memS, ht, cdrS, Except.bind]
  | _ => exact other _ rfl rfl


/-! ### `equal?` and its helper `vector-equal-from?` -/

section equal
variable (σ₀ : Store)

/-- `(vector-equal-from? x y i)` given `equal?` on the items (at depth `n`): the items from index `i` on -/
theorem papp_vector_equal_from (n : Nat)
    (ih : ∀ x y r, equalS σ₀ n x y = some r → PApp σ₀.vecs b (libProc "equal?" b) [x, y] (.ok (.bool r)))
    {id id' : Nat} {c c' : VecCell} (hc : σ₀.vecs[id]? = some c) (hc' : σ₀.vecs[id']? = some c')
    (hlen : c.items.length = c'.items.length) (hfit : (c.items.length : Int) ≤ 2147483647) :
    ∀ (k i : Nat), i + k = c.items.length → ∀ r, allEqS (equalS σ₀ n) (c.items.drop i) (c'.items.drop i) = some r →
    PApp σ₀.vecs b (libProc "vector-equal-from?" b) [.vec id, .vec id', .num (.int i)] (.ok (.bool r)) := by
  have test : ∀ (i : Nat) ρ, PEval σ₀.vecs b ρ (paramDefs ⟨["x", "y", "i"], none⟩ [.vec id, .vec id', .num (.int i)])
      (ca "=" [sy "i", ca "vector-length" [sy "x"]]) (.ok (.bool ((i : Int) == (c.items.length : Int)))) := fun i ρ =>
    PEval.congr (PEval.call2 (k := fun _ _ => .ok (.bool ((i : Int) == (c.items.length : Int)))) (lkB .numEq) (by rfl)
      (PEval.var (by rfl))
      (PEval.call1 (k := fun _ => .ok (.num (.int c.items.length))) (lkB .vectorLength) (by rfl) (PEval.var (by rfl))
        fun v hv => by cases hv; exact PApp.vectorLength hc)
      fun v₁ v₂ h₁ h₂ => by cases h₁; cases h₂; exact PApp.numEq_int) rfl
  have lit : ∀ (i : Nat) ρ (q : Bool), PTail σ₀.vecs b ρ (paramDefs ⟨["x", "y", "i"], none⟩ [.vec id, .vec id', .num (.int i)])
      (pr (.bool q)) (.ok (.bool q)) :=
    fun i ρ q => PTail.value (by intros; simp) (by intros; simp) (PEval.prim (by rfl))
  intro k
  induction k with
  | zero =>
    intro i hi r hr
    have hi' : i = c.items.length := by omega
    subst hi'
    rw [List.drop_length] at hr
    simp only [allEqS] at hr
    cases hr
    rw [libProc_vector_equal_from]
    refine PApp.closure (by rfl) fun ρ => ?_
    refine PTail.cond (test _ ρ) (fun tv h _ => ?_) (fun tv h ht => by cases h; simp at ht) (fun er h => by cases h)
    exact lit _ ρ true
  | succ k ihk =>
    intro i hi r hr
    have hlt : i < c.items.length := by omega
    have hlt' : i < c'.items.length := by omega
    have hd : c.items.drop i = c.items[i] :: c.items.drop (i + 1) := by simp
    have hd' : c'.items.drop i = c'.items[i] :: c'.items.drop (i + 1) := by simp
    rw [hd, hd'] at hr
    simp only [allEqS] at hr
    rw [libProc_vector_equal_from]
    refine PApp.closure (by rfl) fun ρ => ?_
    refine PTail.cond (test i ρ) (fun tv h ht => ?_) (fun tv h _ => ?_) (fun er h => by cases h)
    · cases h
      rw [truthy_bool] at ht
      have : (i : Int) = c.items.length := by simpa using ht
      omega
    · cases hr₁ : equalS σ₀ n c.items[i] c'.items[i] with
      | none => rw [hr₁] at hr; cases hr
      | some r₁ =>
        rw [hr₁] at hr
        have test2 : PEval σ₀.vecs b ρ (paramDefs ⟨["x", "y", "i"], none⟩ [.vec id, .vec id', .num (.int i)])
            (ca "equal?" [ca "vector-ref" [sy "x", sy "i"], ca "vector-ref" [sy "y", sy "i"]]) (.ok (.bool r₁)) :=
          PEval.congr (PEval.call2 (k := fun _ _ => .ok (.bool r₁)) (lkP 28) (procArity_libProc (i := 28) rfl)
            (PEval.call2 (k := fun _ _ => .ok c.items[i]) (lkB .vectorRef) (by rfl) (PEval.var (by rfl)) (PEval.var (by rfl))
              fun v₁ v₂ h₁ h₂ => by cases h₁; cases h₂; exact PApp.vectorRef hc (by simp [hlt]))
            (PEval.call2 (k := fun _ _ => .ok c'.items[i]) (lkB .vectorRef) (by rfl) (PEval.var (by rfl)) (PEval.var (by rfl))
              fun v₁ v₂ h₁ h₂ => by cases h₁; cases h₂; exact PApp.vectorRef hc' (by simp [hlt']))
            fun v₁ v₂ h₁ h₂ => by cases h₁; cases h₂; exact ih _ _ _ hr₁) rfl
        refine PTail.cond test2 (fun tv h ht => ?_) (fun tv h ht => ?_) (fun er h => by cases h)
        · cases h
          rw [truthy_bool] at ht
          subst ht
          simp only at hr
          refine PTail.congr (PTail.call (k := fun _ => .ok (.bool r)) (lkP 29) (procArity_libProc (i := 29) rfl)
            (PArgs.cons (PEval.var (by rfl)) (PArgs.cons (PEval.var (by rfl))
              (PArgs.cons (PEval.call2 (k := fun _ _ => .ok (.num (.int ((i + 1 : Nat) : Int)))) (lkB .add) (by rfl)
                (PEval.var (by rfl)) (PEval.prim (by rfl)) fun v₁ v₂ h₁ h₂ => by
                  cases h₁; cases h₂
                  refine (PApp.add_int (a := (i : Int)) (c := 1) ?_ ?_).congr (by simp)
                  · simp [fitsI32]; omega
                  · simp [fitsI32]; omega) PArgs.nil)))
            fun vs hvs => by
              cases hvs
              exact ihk (i + 1) (by omega) r hr) rfl
        · cases h
          rw [truthy_bool] at ht
          subst ht
          simp only at hr
          cases hr
          exact lit i ρ false

/-- `(equal? x y)`, by induction on the depth bound of the comparison -/
theorem papp_equal (hfit : ∀ (i : Nat) (c : VecCell), σ₀.vecs[i]? = some c → (c.items.length : Int) ≤ 2147483647) (n : Nat) :
    ∀ (x y : Value) (r : Bool), equalS σ₀ n x y = some r →
    PApp σ₀.vecs b (libProc "equal?" b) [x, y] (.ok (.bool r)) := by
  have testx : ∀ (x y : Value) ρ, PEval σ₀.vecs b ρ (paramDefs ⟨["x", "y"], none⟩ [x, y]) (ca "pair?" [sy "x"])
      (.ok (.bool (isPair x))) := fun x y ρ =>
    PEval.call1 (k := fun v => .ok (.bool (isPair v))) (lkB .isPair) (by rfl) (PEval.var (by rfl)) fun _ _ => PApp.isPair
  have testy : ∀ (x y : Value) ρ, PEval σ₀.vecs b ρ (paramDefs ⟨["x", "y"], none⟩ [x, y]) (ca "pair?" [sy "y"])
      (.ok (.bool (isPair y))) := fun x y ρ =>
    PEval.call1 (k := fun v => .ok (.bool (isPair v))) (lkB .isPair) (by rfl) (PEval.var (by rfl)) fun _ _ => PApp.isPair
  have vecx : ∀ (x y : Value) ρ, PEval σ₀.vecs b ρ (paramDefs ⟨["x", "y"], none⟩ [x, y]) (ca "vector?" [sy "x"])
      (.ok (.bool (isVec x))) := fun x y ρ =>
    PEval.call1 (k := fun v => .ok (.bool (isVec v))) (lkB .isVector) (by rfl) (PEval.var (by rfl)) fun _ _ => PApp.isVector
  have vecy : ∀ (x y : Value) ρ, PEval σ₀.vecs b ρ (paramDefs ⟨["x", "y"], none⟩ [x, y]) (ca "vector?" [sy "y"])
      (.ok (.bool (isVec y))) := fun x y ρ =>
    PEval.call1 (k := fun v => .ok (.bool (isVec v))) (lkB .isVector) (by rfl) (PEval.var (by rfl)) fun _ _ => PApp.isVector
  have lit : ∀ (x y : Value) ρ (c : Bool), PTail σ₀.vecs b ρ (paramDefs ⟨["x", "y"], none⟩ [x, y]) (pr (.bool c))
      (.ok (.bool c)) :=
    fun x y ρ c => PTail.value (by intros; simp) (by intros; simp) (PEval.prim (by rfl))
  -- neither a pair nor a vector: `eqv?` (unless `y` is a pair)
  have atom : ∀ x y, isPair x = false → isVec x = false →
      PApp σ₀.vecs b (libProc "equal?" b) [x, y] (.ok (.bool (!isPair y && Prim.eqv x y))) := by
    intro x y hx hvx
    rw [libProc_equal_pred]
    refine PApp.closure (by rfl) fun ρ => ?_
    refine PTail.cond (testx x y ρ) (fun tv h ht => by cases h; simp [hx] at ht) (fun tv h _ => ?_) (fun er h => by cases h)
    refine PTail.cond (vecx x y ρ) (fun tv h ht => by cases h; simp [hvx] at ht) (fun tv h _ => ?_) (fun er h => by cases h)
    have testn : PEval σ₀.vecs b ρ (paramDefs ⟨["x", "y"], none⟩ [x, y]) (ca "not" [ca "pair?" [sy "y"]])
        (.ok (.bool (!isPair y))) :=
      PEval.congr (PEval.call1 (k := fun v => .ok (.bool (!v.truthy))) (lkB .not) (by rfl) (testy x y ρ)
        fun _ _ => PApp.not) (by simp [Except.bind])
    refine PTail.cond testn (fun tv h ht => ?_) (fun tv h ht => ?_) (fun er h => by cases h)
    · cases h
      rw [truthy_bool] at ht
      refine PTail.congr (PTail.call2 (k := fun v₁ v₂ => .ok (.bool (Prim.eqv v₁ v₂))) (lkB .eqv) (by rfl)
        (PEval.var (by rfl)) (PEval.var (by rfl)) fun _ _ _ _ => PApp.eqv) ?_
      simp [ht, Except.bind]
    · cases h
      rw [truthy_bool] at ht
      refine PTail.congr (lit x y ρ false) ?_
      simp [ht]
  induction n with
  | zero => intro x y r h; simp [equalS] at h
  | succ n ih =>
    intro x y r h
    cases x with
    | pair a d =>
      rw [libProc_equal_pred]
      refine PApp.closure (by rfl) fun ρ => ?_
      refine PTail.cond (testx (.pair a d) y ρ) (fun tv h' _ => ?_) (fun tv h' ht => by cases h'; simp [isPair] at ht)
        (fun er h' => by cases h')
      refine PTail.cond (testy (.pair a d) y ρ) (fun tv h' ht => ?_) (fun tv h' ht => ?_) (fun er h' => by cases h')
      · cases h'
        rw [truthy_bool] at ht
        cases y with
        | pair a' d' =>
          simp only [equalS] at h
          cases hr₁ : equalS σ₀ n a a' with
          | none => rw [hr₁] at h; cases h
          | some r₁ =>
            rw [hr₁] at h
            have testc : PEval σ₀.vecs b ρ (paramDefs ⟨["x", "y"], none⟩ [.pair a d, .pair a' d'])
                (ca "equal?" [ca "car" [sy "x"], ca "car" [sy "y"]]) (.ok (.bool r₁)) :=
              PEval.congr (PEval.call2 (k := fun _ _ => .ok (.bool r₁)) (lkP 28) (procArity_libProc (i := 28) rfl)
                (PEval.call1 (lkB .car) (by rfl) (PEval.var (by rfl)) fun _ _ => PApp.car)
                (PEval.call1 (lkB .car) (by rfl) (PEval.var (by rfl)) fun _ _ => PApp.car)
                fun v₁ v₂ h₁ h₂ => by cases h₁; cases h₂; exact ih _ _ _ hr₁) rfl
            refine PTail.cond testc (fun tv h' ht => ?_) (fun tv h' ht => ?_) (fun er h' => by cases h')
            · cases h'
              rw [truthy_bool] at ht
              subst ht
              simp only at h
              exact PTail.congr (PTail.call2 (k := fun _ _ => .ok (.bool r)) (lkP 28) (procArity_libProc (i := 28) rfl)
                (PEval.call1 (lkB .cdr) (by rfl) (PEval.var (by rfl)) fun _ _ => PApp.cdr)
                (PEval.call1 (lkB .cdr) (by rfl) (PEval.var (by rfl)) fun _ _ => PApp.cdr)
                fun v₁ v₂ h₁ h₂ => by cases h₁; cases h₂; exact ih _ _ _ h) rfl
            · cases h'
              rw [truthy_bool] at ht
              subst ht
              simp only at h
              cases h
              exact lit _ _ ρ false
        | _ => simp [isPair] at ht
      · cases h'
        rw [truthy_bool] at ht
        have : r = false := by
          cases y <;> first | (simp only [equalS] at h; cases h; rfl) | (simp [isPair] at ht)
        subst this
        exact lit _ _ ρ false
    | vec i =>
      rw [libProc_equal_pred]
      refine PApp.closure (by rfl) fun ρ => ?_
      refine PTail.cond (testx (.vec i) y ρ) (fun tv h' ht => by cases h'; simp [isPair] at ht) (fun tv h' _ => ?_)
        (fun er h' => by cases h')
      refine PTail.cond (vecx (.vec i) y ρ) (fun tv h' _ => ?_) (fun tv h' ht => by cases h'; simp [isVec] at ht)
        (fun er h' => by cases h')
      refine PTail.cond (vecy (.vec i) y ρ) (fun tv h' ht => ?_) (fun tv h' ht => ?_) (fun er h' => by cases h')
      · cases h'
        rw [truthy_bool] at ht
        cases y with
        | vec j =>
          simp only [equalS] at h
          cases hc : σ₀.vecs[i]? with
          | none => rw [hc] at h; simp at h
          | some c =>
            cases hc' : σ₀.vecs[j]? with
            | none => rw [hc, hc'] at h; simp at h
            | some c' =>
              rw [hc, hc'] at h
              simp only at h
              have testl : PEval σ₀.vecs b ρ (paramDefs ⟨["x", "y"], none⟩ [.vec i, .vec j])
                  (ca "=" [ca "vector-length" [sy "x"], ca "vector-length" [sy "y"]])
                  (.ok (.bool ((c.items.length : Int) == (c'.items.length : Int)))) :=
                PEval.congr (PEval.call2 (k := fun _ _ => .ok (.bool ((c.items.length : Int) == (c'.items.length : Int))))
                  (lkB .numEq) (by rfl)
                  (PEval.call1 (k := fun _ => .ok (.num (.int c.items.length))) (lkB .vectorLength) (by rfl)
                    (PEval.var (by rfl)) fun v hv => by cases hv; exact PApp.vectorLength hc)
                  (PEval.call1 (k := fun _ => .ok (.num (.int c'.items.length))) (lkB .vectorLength) (by rfl)
                    (PEval.var (by rfl)) fun v hv => by cases hv; exact PApp.vectorLength hc')
                  fun v₁ v₂ h₁ h₂ => by cases h₁; cases h₂; exact PApp.numEq_int) rfl
              refine PTail.cond testl (fun tv h' ht' => ?_) (fun tv h' ht' => ?_) (fun er h' => by cases h')
              · cases h'
                rw [truthy_bool] at ht'
                have hl : c.items.length = c'.items.length := by
                  have : (c.items.length : Int) = c'.items.length := by simpa using ht'
                  omega
                rw [if_pos hl] at h
                exact PTail.congr (PTail.call (k := fun _ => .ok (.bool r)) (lkP 29) (procArity_libProc (i := 29) rfl)
                  (PArgs.cons (PEval.var (by rfl)) (PArgs.cons (PEval.var (by rfl))
                    (PArgs.cons (PEval.prim (by rfl)) PArgs.nil)))
                  fun vs hvs => by
                    cases hvs
                    exact papp_vector_equal_from b σ₀ n ih hc hc' hl (hfit i c hc) c.items.length 0 (by omega) r
                      (by simpa using h)) rfl
              · cases h'
                rw [truthy_bool] at ht'
                have hl : c.items.length ≠ c'.items.length := by
                  intro e
                  rw [e] at ht'
                  simp at ht'
                rw [if_neg hl] at h
                cases h
                exact lit _ _ ρ false
        | _ => simp [isVec] at ht
      · cases h'
        rw [truthy_bool] at ht
        have : r = false := by
          cases y <;> first | (simp only [equalS] at h; cases h; rfl) | (simp [isVec] at ht)
        subst this
        exact lit _ _ ρ false
    | _ =>
      simp only [equalS] at h
      cases h
      exact atom _ y rfl rfl

end equal

theorem replicate_toNat_succ {k : Int} (hk : 0 < k) (fill : Value) :
    makeListS k fill = .pair fill (makeListS (k - 1) fill) := by
  have h : k.toNat = (k - 1).toNat + 1 := by omega
  unfold makeListS; rw [h, List.replicate_succ]; rfl

/-- `(make-list k fill)` -/
theorem papp_make_list (fill : Value) (n : Nat) : ∀ (k : Int), k.toNat = n → k ≤ 2147483647 →
    PApp V b (libProc "make-list" b) [.num (.int k), fill] (.ok (makeListS k fill)) := by
  have test : ∀ (k : Int) ρ, PEval V b ρ (paramDefs ⟨["k", "fill"], none⟩ [.num (.int k), fill])
      (ca ">" [sy "k", pr (.int 0)]) (.ok (.bool (decide (k > 0)))) := fun k ρ =>
    PEval.congr (PEval.call2 (k := fun _ _ => .ok (.bool (decide (k > 0)))) (lkB .gt) (by rfl) (PEval.var (by rfl))
      (PEval.prim (by rfl)) fun v₁ v₂ h₁ h₂ => by cases h₁; cases h₂; exact PApp.gt_int) rfl
  induction n with
  | zero =>
    intro k hk _
    have hk0 : k ≤ 0 := by omega
    rw [libProc_make_list]
    refine PApp.closure (by rfl) fun ρ => ?_
    refine PTail.cond (test k ρ) (fun tv h ht => ?_) (fun tv h _ => ?_) (fun er h => by cases h)
    · cases h
      rw [truthy_bool] at ht
      have : k > 0 := by simpa using ht
      omega
    · refine PTail.congr (PTail.value (by intros; simp) (by intros; simp) PEval.nil) ?_
      rw [makeListS_nonpos k fill hk0]
  | succ n ih =>
    intro k hk hle
    have hpos : 0 < k := by omega
    rw [libProc_make_list]
    refine PApp.closure (by rfl) fun ρ => ?_
    refine PTail.cond (test k ρ) (fun tv h _ => ?_) (fun tv h ht => ?_) (fun er h => by cases h)
    · refine PTail.congr (PTail.call2 (k := fun v₁ v₂ => .ok (.pair v₁ v₂)) (lkB .cons) (by rfl) (PEval.var (by rfl))
        (PEval.call2 (k := fun _ v₂ => .ok (makeListS (k - 1) v₂)) (lkP 13) (procArity_libProc (i := 13) rfl)
          (PEval.call2 (k := fun _ _ => .ok (.num (.int (k - 1)))) (lkB .sub) (by rfl) (PEval.var (by rfl))
            (PEval.prim (by rfl)) fun v₁ v₂ h₁ h₂ => by
              cases h₁; cases h₂
              exact PApp.sub_int (by simp [fitsI32]; omega))
          (PEval.var (by rfl))
          fun v₁ v₂ h₁ h₂ => by cases h₁; cases h₂; exact ih (k - 1) (by omega) (by omega))
        fun _ _ _ _ => PApp.cons) ?_
      rw [replicate_toNat_succ hpos]; rfl
    · cases h
      rw [truthy_bool] at ht
      have : ¬ k > 0 := by simpa using ht
      omega

end procs3

/-! ## `append` -/

section append
variable {V : Array VecCell} {b ρ : Nat} {bs : List (String × Value)}

/-- a name of the library as an operand -/
theorem PEval.sym {y l v} (hf : ∀ σ, Scope b ρ bs σ → σ.lookup ρ y = some v) : PEval V b ρ bs (.sym y l) (.ok v) :=
  fun σ h _ => ⟨σ, Evals.sym (hf σ h), .refl σ⟩

theorem PEval.call3 {f l a₁ a₂ a₃ l' fv r₁ r₂ r₃} {k : Value → Value → Value → Except SErr Value}
    (hf : ∀ σ, Scope b ρ bs σ → σ.lookup ρ f = some fv) (hp : (procArity fv).isSome)
    (h₁ : PEval V b ρ bs a₁ r₁) (h₂ : PEval V b ρ bs a₂ r₂) (h₃ : PEval V b ρ bs a₃ r₃)
    (hk : ∀ v₁ v₂ v₃, r₁ = .ok v₁ → r₂ = .ok v₂ → r₃ = .ok v₃ → PApp V b fv [v₁, v₂, v₃] (k v₁ v₂ v₃)) :
    PEval V b ρ bs (.call (.sym f l) [a₁, a₂, a₃] l')
      (r₁.bind fun v₁ => r₂.bind fun v₂ => r₃.bind fun v₃ => k v₁ v₂ v₃) := by
  refine (PEval.call (k := fun vs => match vs with | [v₁, v₂, v₃] => k v₁ v₂ v₃ | _ => .error (.other, none)) hf hp
    (PArgs.cons h₁ (PArgs.cons h₂ (PArgs.cons h₃ PArgs.nil))) ?_).congr ?_
  · intro vs hvs
    cases r₁ with
    | error er => cases hvs
    | ok v₁ =>
      cases r₂ with
      | error er => cases hvs
      | ok v₂ =>
        cases r₃ with
        | error er => cases hvs
        | ok v₃ => cases hvs; exact hk v₁ v₂ v₃ rfl rfl rfl
  · cases r₁ <;> cases r₂ <;> cases r₃ <;> rfl

theorem elems_ofList (xs : List Value) : (Value.ofList xs).elems = xs := by
  induction xs <;> simp_all [Value.ofList, Value.elems]

theorem spreadApply_ofList {f : Value} (hf : (procArity f).isSome) (init xs : List Value) :
    spreadApply (f :: (init ++ [Value.ofList xs])) = .ok (f, init ++ xs) := by
  obtain ⟨a, ha⟩ := Option.isSome_iff_exists.mp hf
  simp only [spreadApply, ha, List.getLast?_append, List.getLast?_singleton, List.dropLast_concat]
  cases xs <;> simp [Value.ofList, Value.elems, elems_ofList]

/-- `(apply f a … lst)` with a proper list `lst` -/
theorem PApp.apply {f : Value} {init xs : List Value} {r} (hf : (procArity f).isSome)
    (h : PApp V b f (init ++ xs) r) : PApp V b (.builtin .apply) (f :: (init ++ [Value.ofList xs])) r := by
  intro σ env hl hv
  obtain ⟨σ', h', e⟩ := h σ env hl hv
  exact ⟨σ', Applies.apply (by simp) (spreadApply_ofList hf init xs) h', e⟩

theorem PApp.apply1 {f : Value} {xs : List Value} {r} (hf : (procArity f).isSome)
    (h : PApp V b f xs r) : PApp V b (.builtin .apply) [f, Value.ofList xs] r :=
  PApp.apply (init := []) hf h
theorem PApp.apply2 {f a : Value} {xs : List Value} {r} (hf : (procArity f).isSome)
    (h : PApp V b f (a :: xs) r) : PApp V b (.builtin .apply) [f, a, Value.ofList xs] r :=
  PApp.apply (init := [a]) hf h

end append

section procs4
variable {V : Array VecCell} (b : Nat)

theorem papp_append_nil : PApp V b (libProc "append" b) [] (.ok .nil) := by
  rw [libProc_append]
  refine PApp.closure (by rfl) fun ρ => ?_
  have test1 : PEval V b ρ (paramDefs ⟨[], some "lsts"⟩ []) (ca "null?" [sy "lsts"]) (.ok (.bool true)) :=
    PEval.congr (PEval.call1 (k := fun v => .ok (.bool (isNil v))) (lkP 14) (procArity_libProc (i := 14) rfl)
      (PEval.var (by rfl)) fun v _ => papp_null b v) rfl
  refine PTail.cond test1 (fun tv h _ => ?_) (fun tv h ht => by cases h; simp at ht) (fun er h => by cases h)
  exact PTail.thunk fun ρ' => PTail.value (by intros; simp) (by intros; simp) PEval.nil

/-- `(append l …)`, by induction on the arguments and, inside, on the first one -/
theorem papp_append (rest : List Value) : ∀ l : Value, PApp V b (libProc "append" b) (l :: rest) (appendE (l :: rest)) := by
  have hclo : (procArity (libProc "append" b)).isSome := procArity_libProc (i := 15) rfl
  have test1 : ∀ (args : List Value) ρ, PEval V b ρ (paramDefs ⟨[], some "lsts"⟩ args) (ca "null?" [sy "lsts"])
      (.ok (.bool (isNil (Value.ofList args)))) := fun args ρ =>
    PEval.congr (PEval.call1 (k := fun v => .ok (.bool (isNil v))) (lkP 14) (procArity_libProc (i := 14) rfl)
      (PEval.var (by rfl)) fun v _ => papp_null b v) rfl
  have vcdr : ∀ (l : Value) (rest : List Value) ρ, PEval V b ρ (paramDefs ⟨[], some "lsts"⟩ (l :: rest))
      (ca "cdr" [sy "lsts"]) (.ok (Value.ofList rest)) := fun l rest ρ =>
    PEval.congr (PEval.call1 (lkB .cdr) (by rfl) (PEval.var (by rfl)) fun _ _ => PApp.cdr) rfl
  have vcar : ∀ (l : Value) (rest : List Value) ρ, PEval V b ρ (paramDefs ⟨[], some "lsts"⟩ (l :: rest))
      (ca "car" [sy "lsts"]) (.ok l) := fun l rest ρ =>
    PEval.congr (PEval.call1 (lkB .car) (by rfl) (PEval.var (by rfl)) fun _ _ => PApp.car) rfl
  have test2 : ∀ (l : Value) (rest : List Value) ρ, PEval V b ρ (paramDefs ⟨[], some "lsts"⟩ (l :: rest))
      (ca "null?" [ca "cdr" [sy "lsts"]]) (.ok (.bool (isNil (Value.ofList rest)))) := fun l rest ρ =>
    PEval.congr (PEval.call1 (k := fun v => .ok (.bool (isNil v))) (lkP 14) (procArity_libProc (i := 14) rfl)
      (vcdr l rest ρ) fun v _ => papp_null b v) rfl
  have test3 : ∀ (l : Value) (rest : List Value) ρ, PEval V b ρ (paramDefs ⟨[], some "lsts"⟩ (l :: rest))
      (ca "null?" [ca "car" [sy "lsts"]]) (.ok (.bool (isNil l))) := fun l rest ρ =>
    PEval.congr (PEval.call1 (k := fun v => .ok (.bool (isNil v))) (lkP 14) (procArity_libProc (i := 14) rfl)
      (vcar l rest ρ) fun v _ => papp_null b v) rfl
  induction rest with
  | nil =>
    intro l
    rw [libProc_append]
    refine PApp.closure (by rfl) fun ρ => ?_
    refine PTail.cond (test1 [l] ρ) (fun tv h ht => by cases h; simp [Value.ofList, isNil] at ht) (fun tv h _ => ?_)
      (fun er h => by cases h)
    refine PTail.cond (test2 l [] ρ) (fun tv h _ => ?_) (fun tv h ht => by cases h; simp [Value.ofList, isNil] at ht)
      (fun er h => by cases h)
    exact PTail.thunk fun ρ' => PTail.congr (PTail.call1 (lkB .car) (by rfl) (PEval.var (by rfl)) fun _ _ => PApp.car) rfl
  | cons r rs ih =>
    -- the part of the body common to all shapes of `l`
    have body : ∀ (l : Value) (res : Except SErr Value),
        (∀ ρ, isNil l = true → PTail V b ρ (paramDefs ⟨[], some "lsts"⟩ (l :: r :: rs))
          (ca "apply" [sy "append", ca "cdr" [sy "lsts"]]) res) →
        (∀ ρ, isNil l = false → PTail V b ρ (paramDefs ⟨[], some "lsts"⟩ (l :: r :: rs))
          (ca "cons" [ca "caar" [sy "lsts"], ca "apply" [sy "append", ca "cdar" [sy "lsts"], ca "cdr" [sy "lsts"]]]) res) →
        PApp V b (libProc "append" b) (l :: r :: rs) res := by
      intro l res h1 h2
      rw [libProc_append]
      refine PApp.closure (by rfl) fun ρ => ?_
      refine PTail.cond (test1 (l :: r :: rs) ρ) (fun tv h ht => by cases h; simp [Value.ofList, isNil] at ht)
        (fun tv h _ => ?_) (fun er h => by cases h)
      refine PTail.cond (test2 l (r :: rs) ρ) (fun tv h ht => by cases h; simp [Value.ofList, isNil] at ht)
        (fun tv h _ => ?_) (fun er h => by cases h)
      refine PTail.cond (test3 l (r :: rs) ρ) (fun tv h ht => ?_) (fun tv h ht => ?_) (fun er h => by cases h)
      · cases h; rw [truthy_bool] at ht
        exact PTail.thunk fun ρ' => h1 ρ' ht
      · cases h; rw [truthy_bool] at ht
        exact PTail.thunk fun ρ' => h2 ρ' ht
    have vcaar : ∀ (l : Value) ρ, PEval V b ρ (paramDefs ⟨[], some "lsts"⟩ (l :: r :: rs))
        (ca "caar" [sy "lsts"]) (carS l) := fun l ρ =>
      PEval.congr (PEval.call1 (k := caarS) (lkP 0) (procArity_libProc (i := 0) rfl) (PEval.var (by rfl))
        fun v _ => papp_caar b v) rfl
    have vcdar : ∀ (l : Value) ρ, PEval V b ρ (paramDefs ⟨[], some "lsts"⟩ (l :: r :: rs))
        (ca "cdar" [sy "lsts"]) (cdrS l) := fun l ρ =>
      PEval.congr (PEval.call1 (k := cdarS) (lkP 2) (procArity_libProc (i := 2) rfl) (PEval.var (by rfl))
        fun v _ => papp_cdar b v) rfl
    intro l
    induction l with
    | nil =>
      refine body .nil _ (fun ρ _ => ?_) (fun ρ h => by simp [isNil] at h)
      exact PTail.congr (PTail.call2 (k := fun _ _ => appendE (r :: rs)) (lkB .apply) (by rfl) (PEval.sym (lkP 15))
        (vcdr .nil (r :: rs) ρ) fun v₁ v₂ h₁ h₂ => by
          cases h₁; cases h₂
          exact PApp.apply1 hclo (ih r)) rfl
    | pair a d _ ihd =>
      refine body (.pair a d) _ (fun ρ h => by simp [isNil] at h) (fun ρ _ => ?_)
      refine PTail.congr (PTail.call2 (k := fun v₁ v₂ => .ok (.pair v₁ v₂)) (lkB .cons) (by rfl) (vcaar _ ρ)
        (PEval.call3 (k := fun _ _ _ => appendE (d :: r :: rs)) (lkB .apply) (by rfl) (PEval.sym (lkP 15))
          (vcdar _ ρ) (vcdr _ (r :: rs) ρ) fun v₁ v₂ v₃ h₁ h₂ h₃ => by
            cases h₁; cases h₂; cases h₃
            exact PApp.apply2 hclo ihd)
        fun _ _ _ _ => PApp.cons) ?_
      show (appendE (d :: r :: rs)).bind _ = (prependS d (appendE (r :: rs))).map _
      simp only [appendE]
      cases prependS d (appendE (r :: rs)) <;> rfl
    | _ =>
      refine body _ (.error typeErr) (fun ρ h => by simp [isNil] at h) (fun ρ _ => ?_)
      exact PTail.congr (PTail.call2 (k := fun v₁ v₂ => .ok (.pair v₁ v₂)) (lkB .cons) (by rfl) (vcaar _ ρ)
        (PEval.call3 (k := fun _ _ _ => .error typeErr) (lkB .apply) (by rfl) (PEval.sym (lkP 15))
          (vcdar _ ρ) (vcdr _ (r :: rs) ρ) fun v₁ v₂ v₃ h₁ h₂ h₃ => by cases h₂)
        fun _ _ _ _ => PApp.cons) rfl

end procs4

/-! ## 9. procedure arguments: what the higher-order procedures need -/

/-- the caller's frame is never looked at by the loop -/
theorem applyLoop_env : ∀ (n : Nat) (σ : Store) (p : Value) (args : List Value) (env env' : Nat),
    applyLoop n σ p args env = applyLoop n σ p args env'
  | 0, _, _, _, _, _ => by simp only [applyLoop]
  | n + 1, σ, p, args, env, env' => by
    have ih := fun σ p args => applyLoop_env n σ p args env env'
    unfold applyLoop
    simp only [ih]

theorem Applies.env_irrel {σ p args env r σ'} (h : Applies σ p args env r σ') (env' : Nat) :
    Applies σ p args env' r σ' := by
  obtain ⟨hr, N, h⟩ := h.out
  exact ⟨hr, N, fun n hn => by
    show applyLoop n σ p args env' = _
    rw [applyLoop_env n σ p args env' env]; exact h n hn⟩

theorem LibFrame.keep {σ σ' : Store} {b N : Nat} (h : LibFrame σ b) (hk : σ.Keeps b N σ') : LibFrame σ' b :=
  h.of_frame_eq (hk.frames b h.lt (.inl rfl))

/-- What a higher-order library procedure, entered when the store had `N` frames, needs from its
procedure argument `f` on the argument lists in `dom`: in every store that satisfies the caller's
invariant `K` — an invariant that the library's own steps (appending frames) cannot break — `f`
can be applied, the application has an outcome (a value or an error: it terminates), it keeps the
library frame and the frames allocated since the library procedure was entered (it cannot reach
them), and after a normal return the invariant holds again. -/
structure ProcArg (b N : Nat) (K : Store → Prop) (f : Value) (dom : List Value → Prop) : Prop where
  proc : (procArity f).isSome
  stable : ∀ σ σ', K σ → σ.DExt σ' → K σ'
  app : ∀ σ args, K σ → N ≤ σ.frames.size → dom args →
    ∃ r σ', (∀ env, Applies σ f args env r σ') ∧ σ.Keeps b N σ' ∧ (∀ v, r = .ok v → K σ')

theorem ProcArg.mono {b N N' K f dom dom'} (h : ProcArg b N K f dom) (hN : N ≤ N')
    (hd : ∀ args, dom' args → dom args) : ProcArg b N' K f dom' where
  proc := h.proc
  stable := h.stable
  app σ args hK hs hdom := by
    obtain ⟨r, σ', ha, hk, hK'⟩ := h.app σ args hK (Nat.le_trans hN hs) (hd args hdom)
    exact ⟨r, σ', ha, ⟨hk.size, fun i hi hc => hk.frames i hi (hc.imp id fun h => Nat.le_trans hN h)⟩, hK'⟩

/-- a native procedure that does not touch the frames is a good procedure argument wherever it
has an outcome -/
theorem ProcArg.builtin {b N : Nat} {bi : Builtin} {dom : List Value → Prop} (hb : bi ≠ .apply)
    (ha : ∀ args, dom args → arityOk bi.arity.1 bi.arity.2 args.length = true)
    (hr : ∀ σ args, dom args → NotFuel (Prim.applyPure σ bi args).1)
    (hf : ∀ σ args, (Prim.applyPure σ bi args).2.frames = σ.frames) :
    ProcArg b N (fun _ => True) (.builtin bi) dom where
  proc := rfl
  stable _ _ _ _ := trivial
  app σ args _ _ hd :=
    ⟨(Prim.applyPure σ bi args).1, (Prim.applyPure σ bi args).2,
      fun _ => Applies.builtin hb (ha args hd) rfl (hr σ args hd),
      ⟨by rw [hf]; exact Nat.le_refl _, fun i _ _ => by rw [hf]⟩, fun _ _ => trivial⟩

/-- the frame of a call of a library procedure, described by its contents (so that the
description survives any store change that keeps frames `b` and `ρ`) -/
structure InCall (b ρ : Nat) (bs : List (String × Value)) (σ : Store) : Prop where
  lib : LibFrame σ b
  lt : b < ρ
  frame : σ.frames[ρ]? = some { parent := some b, defs := bs }

theorem InCall.scope {b ρ bs σ} (h : InCall b ρ bs σ) : Scope b ρ bs σ where
  lib := h.lib
  lt := getElem?_lt h.frame
  sees y := by
    rw [lookup_of_frame h.frame]
    simp only [h.lt, if_true]

theorem InCall.of_call {σ b} (h : LibFrame σ b) (formals : Formals) (args : List Value) :
    InCall b σ.frames.size (paramDefs formals args) (callFrame σ b formals args) where
  lib := h.ext (callFrame_ext σ b formals args).framesExt
  lt := h.lt
  frame := (callFrame_spec σ b formals args).2.2

theorem InCall.keep {b ρ bs σ σ' N} (h : InCall b ρ bs σ) (hk : σ.Keeps b N σ') (hN : N ≤ ρ) : InCall b ρ bs σ' where
  lib := h.lib.keep hk
  lt := h.lt
  frame := by rw [hk.frames ρ (getElem?_lt h.frame) (.inr hN)]; exact h.frame

theorem InCall.ext {b ρ bs σ σ'} (h : InCall b ρ bs σ) (he : σ.FramesExt σ') : InCall b ρ bs σ' :=
  h.keep (Keeps.of_framesExt he b 0) (Nat.zero_le _)

/-- the frame of a parameterless procedure made inside such a call -/
structure InThunk (b ρ ρ' : Nat) (bs : List (String × Value)) (σ : Store) : Prop where
  call : InCall b ρ bs σ
  lt : ρ < ρ'
  frame : σ.frames[ρ']? = some { parent := some ρ, defs := [] }

theorem InThunk.scope {b ρ ρ' bs σ} (h : InThunk b ρ ρ' bs σ) : Scope b ρ' bs σ where
  lib := h.call.lib
  lt := getElem?_lt h.frame
  sees y := by
    rw [lookup_of_frame h.frame]
    simp only [List.lookup_nil, h.lt, if_true]
    exact h.call.scope.sees y

theorem InThunk.of_call {b ρ bs σ} (h : InCall b ρ bs σ) :
    InThunk b ρ σ.frames.size bs (callFrame σ ρ ⟨[], none⟩ []) where
  call := h.ext (callFrame_ext σ ρ _ _).framesExt
  lt := getElem?_lt h.frame
  frame := (callFrame_spec σ ρ ⟨[], none⟩ []).2.2

theorem InThunk.keep {b ρ ρ' bs σ σ' N} (h : InThunk b ρ ρ' bs σ) (hk : σ.Keeps b N σ') (hN : N ≤ ρ) :
    InThunk b ρ ρ' bs σ' where
  call := h.call.keep hk hN
  lt := h.lt
  frame := by rw [hk.frames ρ' (getElem?_lt h.frame) (.inr (by have := h.lt; omega))]; exact h.frame

/-- a body of two expressions: the first for effect, the second as the tail expression -/
theorem Applies.closure_body2 {σ formals e₁ e₂ cenv args env v σ₁ r σ'}
    (ha : arityOk formals.fixed.length formals.rest.isSome args.length = true)
    (h₁ : Evals (callFrame σ cenv formals args) σ.frames.size e₁ (.ok v) σ₁)
    (h₂ : TailRuns σ₁ σ.frames.size e₂ env r σ') :
    Applies σ (.closure (.mk formals [] [e₁, e₂]) cenv) args env r σ' := by
  have hlen := arityOk_le ha
  have hs : ∀ {rt σ₂}, EvalsTail σ₁ σ.frames.size e₂ rt σ₂ →
      AppliesScheme σ (.mk formals [] [e₁, e₂]) cenv args rt σ₂ := by
    intro rt σ₂ ht
    refine AppliesScheme.intro_ok (restArgs := args.drop formals.fixed.length)
      (σ₁ := (bindFixed (σ.newFrame (some cenv)).2 σ.frames.size formals.fixed args).2)
      (σ₂ := callFrame σ cenv formals args) ?_ ?_ ?_
    · exact bindFixed_ok formals.fixed args _ _ hlen
    · exact EvalsDefs.nil
    · exact EvalsBody.cons h₁ (EvalsBody.last ht)
  rcases h₂ with ⟨er, h, rfl⟩ | ⟨v, h, rfl⟩ | ⟨f, targs, tenv, σ₂, h, ht⟩
  · exact Applies.closure_err ha (hs h)
  · exact Applies.closure_value ha (hs h)
  · rcases ht with ⟨er, hf, rfl⟩ | ⟨fv, σ₃, hf, ⟨er, hargs, rfl⟩ | ⟨vs, σ₄, hargs, ⟨hp, rfl, rfl⟩ | ⟨hp, hl⟩⟩⟩
    · exact Applies.closure_tail_op_err ha (hs h) hf
    · exact Applies.closure_tail_arg_err ha (hs h) hf hargs
    · exact Applies.closure_tail_nonproc ha (hs h) hf hargs hp
    · exact Applies.closure_tail ha (hs h) hf hargs hp hl

theorem Applies.closure_body2_err {σ formals e₁ e₂ cenv args env er σ₁}
    (ha : arityOk formals.fixed.length formals.rest.isSome args.length = true)
    (h₁ : Evals (callFrame σ cenv formals args) σ.frames.size e₁ (.error er) σ₁) :
    Applies σ (.closure (.mk formals [] [e₁, e₂]) cenv) args env (.error er) σ₁ := by
  have hlen := arityOk_le ha
  refine Applies.closure_err ha (AppliesScheme.intro_ok (restArgs := args.drop formals.fixed.length)
      (σ₁ := (bindFixed (σ.newFrame (some cenv)).2 σ.frames.size formals.fixed args).2)
      (σ₂ := callFrame σ cenv formals args) ?_ ?_ ?_)
  · exact bindFixed_ok formals.fixed args _ _ hlen
  · exact EvalsDefs.nil
  · exact EvalsBody.cons_err h₁

/-! ## 10. `map` -/

/-- the applications of the procedure argument `f` (whoever the caller) -/
abbrev AppOf (f : Value) : Store → List Value → Except SErr Value → Store → Prop :=
  fun σ args r σ' => ∀ env, Applies σ f args env r σ'

section traces
variable {app : Store → List Value → Except SErr Value → Store → Prop} {ext : Store → Store → Prop}
  (tr : ∀ {a b c}, ext a b → ext b c → ext a c)
include tr

theorem MapM.ext_left {σ₀ σ xs r σ'} (he : ext σ₀ σ) (h : MapM app ext σ xs r σ') : MapM app ext σ₀ xs r σ' := by
  cases h with
  | nil e => exact .nil (tr he e)
  | cons_err e h e' => exact .cons_err (tr he e) h e'
  | cons e h hr e' => exact .cons (tr he e) h hr e'

theorem MapM.ext_right {σ xs r σ' σ''} (h : MapM app ext σ xs r σ') (he : ext σ' σ'') : MapM app ext σ xs r σ'' := by
  cases h with
  | nil e => exact .nil (tr e he)
  | cons_err e h e' => exact .cons_err e h (tr e' he)
  | cons e h hr e' => exact .cons e h hr (tr e' he)

theorem FoldLM.ext_left {σ₀ σ acc xs r σ'} (he : ext σ₀ σ) (h : FoldLM app ext σ acc xs r σ') :
    FoldLM app ext σ₀ acc xs r σ' := by
  cases h with
  | nil e => exact .nil (tr he e)
  | cons_err e h e' => exact .cons_err (tr he e) h e'
  | cons e h hr e' => exact .cons (tr he e) h hr e'

theorem FoldLM.ext_right {σ acc xs r σ' σ''} (h : FoldLM app ext σ acc xs r σ') (he : ext σ' σ'') :
    FoldLM app ext σ acc xs r σ'' := by
  cases h with
  | nil e => exact .nil (tr e he)
  | cons_err e h e' => exact .cons_err e h (tr e' he)
  | cons e h hr e' => exact .cons e h hr (tr e' he)

end traces

section hmap
variable {b N : Nat} {K : Store → Prop} {f : Value}

theorem map_run (t : Value) (ht : isPair t = false) : ∀ (xs : List Value) (σ : Store), LibFrame σ b → K σ →
    N ≤ σ.frames.size → ProcArg b N K f (fun args => ∃ x ∈ xs, args = [x]) → ∀ env,
    ∃ r σ', Applies σ (libProc "map" b) [f, withTail xs t] env (r.map (withTail · t)) σ' ∧
      MapM (AppOf f) Store.DExt σ xs r σ' ∧ (∀ vs, r = .ok vs → K σ') := by
  have test : ∀ V (l : Value) ρ, PEval V b ρ (paramDefs ⟨["proc", "list"], none⟩ [f, l]) (ca "pair?" [sy "list"])
      (.ok (.bool (isPair l))) := fun V l ρ =>
    PEval.congr (PEval.call1 (k := fun v => .ok (.bool (isPair v))) (lkB .isPair) (by rfl) (PEval.var (by rfl))
      fun _ _ => PApp.isPair) rfl
  intro xs
  induction xs with
  | nil =>
    intro σ hl hK hN hf env
    have hc := InCall.of_call hl ⟨["proc", "list"], none⟩ [f, t]
    obtain ⟨σ₂, h₂, e₂⟩ := test _ t _ _ hc.scope rfl
    have hc₂ := hc.ext e₂.framesExt
    refine ⟨.ok [], σ₂, ?_, .nil ((callFrame_ext ..).dExt.trans (e₂.dExt)), fun _ _ =>
      hf.stable _ _ hK ((callFrame_ext ..).dExt.trans (e₂.dExt))⟩
    rw [libProc_map]
    refine Applies.closure_simple (by rfl) (TailRuns.cond_false h₂ (by simp [ht]) ?_)
    exact TailRuns.value (by intros; simp) (by intros; simp) (Evals.sym (hc₂.scope.var (by rfl)))
  | cons x xs ih =>
    intro σ hl hK hN hf env
    have hc := InCall.of_call hl ⟨["proc", "list"], none⟩ [f, .pair x (withTail xs t)]
    have e₁ := callFrame_ext σ b ⟨["proc", "list"], none⟩ [f, .pair x (withTail xs t)]
    obtain ⟨σ₂, h₂, e₂⟩ := test _ (.pair x (withTail xs t)) _ _ hc.scope rfl
    have hc₂ := hc.ext e₂.framesExt
    -- the operand of `proc`
    have hcar : ∀ V, PArgs V b σ.frames.size (paramDefs ⟨["proc", "list"], none⟩ [f, .pair x (withTail xs t)])
        [ca "car" [sy "list"]] (.ok [x]) := fun V =>
      PArgs.congr (PArgs.cons (PEval.call1 (lkB .car) (by rfl) (PEval.var (by rfl)) fun _ _ => PApp.car) PArgs.nil) rfl
    obtain ⟨σ₃, h₃, e₃⟩ := hcar _ _ hc₂.scope rfl
    have d₃ : σ.DExt (enter σ₃) :=
      (((e₁.dExt).trans (e₂.dExt)).trans (e₃.dExt)).trans (dExt_enter σ₃)
    obtain ⟨r₁, σ₄, happ, hkeep, hK₄⟩ := hf.app (enter σ₃) [x] (hf.stable _ _ hK d₃)
      (Nat.le_trans hN d₃.size) ⟨x, by simp, rfl⟩
    have harg1 : Evals σ₂ σ.frames.size (ca "proc" [ca "car" [sy "list"]]) r₁ (leave σ₄) :=
      Evals.call_loop (Evals.sym (hc₂.scope.var (by rfl))) h₃ hf.proc (happ _)
    have hcons : Evals σ₂ σ.frames.size (sy "cons") (.ok (.builtin .cons)) σ₂ :=
      Evals.sym (hc₂.scope.builtin .cons (by decide) (by rfl))
    rw [libProc_map]
    cases r₁ with
    | error er =>
      refine ⟨.error er, leave σ₄, ?_, .cons_err d₃ happ (dExt_leave σ₄), fun _ h => by cases h⟩
      refine Applies.closure_simple (by rfl) (TailRuns.cond_true h₂ (by simp [isPair]) (TailRuns.call ?_))
      exact .inr ⟨_, _, hcons, .inl ⟨er, EvalsArgs.cons_err harg1, rfl⟩⟩
    | ok v =>
      have hc₄ : InCall b σ.frames.size _ (leave σ₄) :=
        (((hc₂.ext e₃.framesExt).ext (Store.framesExt_enter σ₃)).keep hkeep
          (Nat.le_trans hN (Nat.le_refl _))).ext (Store.framesExt_leave σ₄)
      have hK₄' : K (leave σ₄) := hf.stable _ _ (hK₄ v rfl) (dExt_leave σ₄)
      -- the operands of the recursive call
      have hrec : ∀ V, PArgs V b σ.frames.size (paramDefs ⟨["proc", "list"], none⟩ [f, .pair x (withTail xs t)])
          [sy "proc", ca "cdr" [sy "list"]] (.ok [f, withTail xs t]) := fun V =>
        PArgs.congr (PArgs.cons (PEval.var (by rfl))
          (PArgs.cons (PEval.call1 (lkB .cdr) (by rfl) (PEval.var (by rfl)) fun _ _ => PApp.cdr) PArgs.nil)) rfl
      obtain ⟨σ₅, h₅, e₅⟩ := hrec _ _ hc₄.scope rfl
      have d₅ : (leave σ₄).DExt (enter σ₅) := (e₅.dExt).trans (dExt_enter σ₅)
      have hN₅ : N ≤ (enter σ₅).frames.size :=
        Nat.le_trans (Nat.le_trans (Nat.le_trans hN d₃.size) hkeep.size) d₅.size
      obtain ⟨r₂, σ₆, happ₂, htr₂, hK₆⟩ := ih (enter σ₅) (hc₄.lib.ext d₅.framesExt)
        (hf.stable _ _ hK₄' d₅) hN₅
        (hf.mono (Nat.le_refl _) fun args ⟨y, hy, e⟩ => ⟨y, List.mem_cons_of_mem _ hy, e⟩) σ.frames.size
      have harg2 : Evals (leave σ₄) σ.frames.size (ca "map" [sy "proc", ca "cdr" [sy "list"]])
          (r₂.map (withTail · t)) (leave σ₆) :=
        Evals.call_loop (Evals.sym (hc₄.scope.proc 16 (by rfl) (by rfl))) h₅ (procArity_libProc (i := 16) rfl)
          (libProc_map b ▸ happ₂)
      have htr : MapM (AppOf f) Store.DExt σ₄ xs r₂ (leave σ₆) :=
        MapM.ext_left @Store.DExt.trans ((dExt_leave σ₄).trans d₅) (MapM.ext_right @Store.DExt.trans htr₂ (dExt_leave σ₆))
      refine ⟨r₂.map (v :: ·), leave σ₆, ?_, .cons d₃ happ htr (Store.DExt.refl _), fun vs h => ?_⟩
      · refine Applies.closure_simple (by rfl) (TailRuns.cond_true h₂ (by simp [isPair]) (TailRuns.call ?_))
        cases r₂ with
        | error er =>
          exact .inr ⟨_, _, hcons, .inl ⟨er, EvalsArgs.cons_tail_err harg1 (EvalsArgs.cons_err harg2), rfl⟩⟩
        | ok vs =>
          refine .inr ⟨_, _, hcons, .inr ⟨_, _, EvalsArgs.cons harg1 (EvalsArgs.cons harg2 EvalsArgs.nil),
            .inr ⟨rfl, ?_⟩⟩⟩
          exact Applies.builtin (by decide) (by rfl) (applyPure_cons _ _ _) (NotFuel.ok _)
      · cases r₂ with
        | error er => cases h
        | ok vs' => exact hf.stable _ _ (hK₆ vs' rfl) (dExt_leave σ₆)

end hmap

/-! ## 11. `for-each`, `fold-left`, `fold-right` -/

section hfor
variable {b N : Nat} {K : Store → Prop} {f : Value}

theorem for_each_run (t : Value) (ht : isPair t = false) : ∀ (xs : List Value) (σ : Store), LibFrame σ b → K σ →
    N ≤ σ.frames.size → ProcArg b N K f (fun args => ∃ x ∈ xs, args = [x]) → ∀ env,
    ∃ r σ', Applies σ (libProc "for-each" b) [f, withTail xs t] env (r.map fun _ => Value.void) σ' ∧
      MapM (AppOf f) Store.DExt σ xs r σ' ∧ (∀ vs, r = .ok vs → K σ') := by
  have test : ∀ V (l : Value) ρ, PEval V b ρ (paramDefs ⟨["proc", "list"], none⟩ [f, l]) (ca "pair?" [sy "list"])
      (.ok (.bool (isPair l))) := fun V l ρ =>
    PEval.congr (PEval.call1 (k := fun v => .ok (.bool (isPair v))) (lkB .isPair) (by rfl) (PEval.var (by rfl))
      fun _ _ => PApp.isPair) rfl
  intro xs
  induction xs with
  | nil =>
    intro σ hl hK hN hf env
    have hc := InCall.of_call hl ⟨["proc", "list"], none⟩ [f, t]
    obtain ⟨σ₂, h₂, e₂⟩ := test _ t _ _ hc.scope rfl
    refine ⟨.ok [], σ₂, ?_, .nil ((callFrame_ext ..).dExt.trans e₂.dExt), fun _ _ =>
      hf.stable _ _ hK ((callFrame_ext ..).dExt.trans e₂.dExt)⟩
    rw [libProc_for_each]
    exact Applies.closure_simple (by rfl) (TailRuns.cond_void h₂ (by simp [ht]))
  | cons x xs ih =>
    intro σ hl hK hN hf env
    have hc := InCall.of_call hl ⟨["proc", "list"], none⟩ [f, .pair x (withTail xs t)]
    have e₁ := callFrame_ext σ b ⟨["proc", "list"], none⟩ [f, .pair x (withTail xs t)]
    obtain ⟨σ₂, h₂, e₂⟩ := test _ (.pair x (withTail xs t)) _ _ hc.scope rfl
    have hc₂ := hc.ext e₂.framesExt
    -- the body of the `lambda ()` runs in a fresh frame under the frame of the call
    have ht₂ := InThunk.of_call hc₂
    have e₂' := callFrame_ext σ₂ σ.frames.size ⟨[], none⟩ []
    have hcar : ∀ V, PArgs V b σ₂.frames.size (paramDefs ⟨["proc", "list"], none⟩ [f, .pair x (withTail xs t)])
        [ca "car" [sy "list"]] (.ok [x]) := fun V =>
      PArgs.congr (PArgs.cons (PEval.call1 (lkB .car) (by rfl) (PEval.var (by rfl)) fun _ _ => PApp.car) PArgs.nil) rfl
    obtain ⟨σ₃, h₃, e₃⟩ := hcar _ _ ht₂.scope rfl
    have d₃ : σ.DExt (enter σ₃) :=
      (((e₁.dExt.trans e₂.dExt).trans e₂'.dExt).trans e₃.dExt).trans (Store.dExt_enter σ₃)
    have hNρ : N ≤ σ.frames.size := hN
    obtain ⟨r₁, σ₄, happ, hkeep, hK₄⟩ := hf.app (enter σ₃) [x] (hf.stable _ _ hK d₃)
      (Nat.le_trans hN d₃.size) ⟨x, by simp, rfl⟩
    have harg1 : Evals (callFrame σ₂ σ.frames.size ⟨[], none⟩ []) σ₂.frames.size (ca "proc" [ca "car" [sy "list"]])
        r₁ (leave σ₄) :=
      Evals.call_loop (Evals.sym (ht₂.scope.var (by rfl))) h₃ hf.proc (happ _)
    rw [libProc_for_each]
    cases r₁ with
    | error er =>
      refine ⟨.error er, leave σ₄, ?_, .cons_err d₃ happ (Store.dExt_leave σ₄), fun _ h => by cases h⟩
      refine Applies.closure_simple (by rfl) (TailRuns.cond_true h₂ (by simp [isPair]) (TailRuns.call ?_))
      exact .inr ⟨_, _, Evals.lambda, .inr ⟨[], _, EvalsArgs.nil, .inr ⟨rfl,
        Applies.closure_body2_err (by rfl) harg1⟩⟩⟩
    | ok v =>
      have ht₄ : InThunk b σ.frames.size σ₂.frames.size _ (leave σ₄) :=
        ((((ht₂.keep (Store.Keeps.of_framesExt e₃.framesExt b N) hNρ).keep
          (Store.Keeps.of_framesExt (Store.framesExt_enter σ₃) b N) hNρ).keep hkeep hNρ).keep
          (Store.Keeps.of_framesExt (Store.framesExt_leave σ₄) b N) hNρ)
      have hK₄' : K (leave σ₄) := hf.stable _ _ (hK₄ v rfl) (Store.dExt_leave σ₄)
      have hrec : ∀ V, PArgs V b σ₂.frames.size (paramDefs ⟨["proc", "list"], none⟩ [f, .pair x (withTail xs t)])
          [sy "proc", ca "cdr" [sy "list"]] (.ok [f, withTail xs t]) := fun V =>
        PArgs.congr (PArgs.cons (PEval.var (by rfl))
          (PArgs.cons (PEval.call1 (lkB .cdr) (by rfl) (PEval.var (by rfl)) fun _ _ => PApp.cdr) PArgs.nil)) rfl
      obtain ⟨σ₅, h₅, e₅⟩ := hrec _ _ ht₄.scope rfl
      have hN₅ : N ≤ σ₅.frames.size :=
        Nat.le_trans (Nat.le_trans (Nat.le_trans hN d₃.size) hkeep.size) e₅.size
      obtain ⟨r₂, σ₆, happ₂, htr₂, hK₆⟩ := ih σ₅ (ht₄.call.lib.ext e₅.framesExt)
        (hf.stable _ _ hK₄' e₅.dExt) hN₅
        (hf.mono (Nat.le_refl _) fun args ⟨y, hy, e⟩ => ⟨y, List.mem_cons_of_mem _ hy, e⟩) env
      have htr : MapM (AppOf f) Store.DExt σ₄ xs r₂ σ₆ :=
        MapM.ext_left @Store.DExt.trans ((Store.dExt_leave σ₄).trans e₅.dExt) htr₂
      refine ⟨r₂.map (v :: ·), σ₆, ?_, .cons d₃ happ htr (Store.DExt.refl _), fun vs h => ?_⟩
      · have hres : (r₂.map (v :: ·)).map (fun _ => Value.void) = r₂.map fun _ => Value.void := by
          cases r₂ <;> rfl
        rw [hres]
        refine Applies.closure_simple (by rfl) (TailRuns.cond_true h₂ (by simp [isPair]) (TailRuns.call ?_))
        refine .inr ⟨_, _, Evals.lambda, .inr ⟨[], _, EvalsArgs.nil, .inr ⟨rfl,
          Applies.closure_body2 (by rfl) harg1 (TailRuns.call ?_)⟩⟩⟩
        exact .inr ⟨_, _, Evals.sym (ht₄.scope.proc 18 (by rfl) (by rfl)), .inr ⟨_, _, h₅,
          .inr ⟨procArity_libProc (i := 18) rfl, libProc_for_each b ▸ happ₂⟩⟩⟩
      · cases r₂ with
        | error er => cases h
        | ok vs' => exact hK₆ vs' rfl

end hfor

section hfold
variable {b N : Nat} {K : Store → Prop} {f : Value}

/-- how a left fold ends on the final tail `t` of its list: with the accumulator on `()`, with the
`car` error on anything else -/
def foldEnd (t : Value) (acc : Value) : Except SErr Value :=
  if isNil t then .ok acc else .error typeErr

theorem fold_left_run (t : Value) (ht : isPair t = false) : ∀ (xs : List Value) (σ : Store) (acc : Value),
    LibFrame σ b → K σ → N ≤ σ.frames.size →
    ProcArg b N K f (fun args => ∃ x ∈ xs, ∃ a, args = [x, a]) → ∀ env,
    ∃ r σ', Applies σ (libProc "fold-left" b) [f, acc, withTail xs t] env (r.bind (foldEnd t)) σ' ∧
      FoldLM (AppOf f) Store.DExt σ acc xs r σ' ∧ (∀ v, r = .ok v → K σ') := by
  have test : ∀ V (acc l : Value) ρ, PEval V b ρ (paramDefs ⟨["f", "init", "seq"], none⟩ [f, acc, l])
      (ca "null?" [sy "seq"]) (.ok (.bool (isNil l))) := fun V acc l ρ =>
    PEval.congr (PEval.call1 (k := fun v => .ok (.bool (isNil v))) (lkP 14) (procArity_libProc (i := 14) rfl)
      (PEval.var (by rfl)) fun v _ => papp_null b v) rfl
  intro xs
  induction xs with
  | nil =>
    intro σ acc hl hK hN hf env
    have hc := InCall.of_call hl ⟨["f", "init", "seq"], none⟩ [f, acc, t]
    obtain ⟨σ₂, h₂, e₂⟩ := test _ acc t _ _ hc.scope rfl
    have hc₂ := hc.ext e₂.framesExt
    rw [libProc_fold_left]
    cases hn : isNil t with
    | true =>
      refine ⟨.ok acc, σ₂, ?_, .nil ((callFrame_ext ..).dExt.trans e₂.dExt), fun _ _ =>
        hf.stable _ _ hK ((callFrame_ext ..).dExt.trans e₂.dExt)⟩
      have : (Except.ok acc : Except SErr Value).bind (foldEnd t) = .ok acc := by simp [Except.bind, foldEnd, hn]
      rw [this]
      refine Applies.closure_simple (by rfl) (TailRuns.cond_true h₂ (by simp [hn]) ?_)
      exact TailRuns.value (by intros; simp) (by intros; simp) (Evals.sym (hc₂.scope.var (by rfl)))
    | false =>
      -- the improper tail: `(car seq)` fails among the operands of the recursive call
      have hcar : ∀ V, PEval V b σ.frames.size (paramDefs ⟨["f", "init", "seq"], none⟩ [f, acc, t])
          (ca "car" [sy "seq"]) (.error typeErr) := fun V =>
        PEval.congr (PEval.call1 (lkB .car) (by rfl) (PEval.var (by rfl)) fun _ _ => PApp.car)
          (by cases t <;> first | rfl | simp [isPair] at ht)
      obtain ⟨σ₃, h₃, e₃⟩ := hcar _ _ hc₂.scope rfl
      have d₃ : σ.DExt σ₃ := ((callFrame_ext ..).dExt.trans e₂.dExt).trans e₃.dExt
      refine ⟨.ok acc, σ₃, ?_, .nil d₃, fun _ _ => hf.stable _ _ hK d₃⟩
      have : (Except.ok acc : Except SErr Value).bind (foldEnd t) = .error typeErr := by
        simp [Except.bind, foldEnd, hn]
      rw [this]
      refine Applies.closure_simple (by rfl) (TailRuns.cond_false h₂ (by simp [hn]) (TailRuns.call ?_))
      refine .inr ⟨_, _, Evals.sym (hc₂.scope.proc 19 (by rfl) (by rfl)), .inl ⟨_, ?_, rfl⟩⟩
      refine EvalsArgs.cons_tail_err (Evals.sym (hc₂.scope.var (by rfl))) (EvalsArgs.cons_err ?_)
      exact Evals.call_arg_err (Evals.sym (hc₂.scope.var (by rfl))) (EvalsArgs.cons_err h₃) hf.proc
  | cons x xs ih =>
    intro σ acc hl hK hN hf env
    have hc := InCall.of_call hl ⟨["f", "init", "seq"], none⟩ [f, acc, .pair x (withTail xs t)]
    have e₁ := callFrame_ext σ b ⟨["f", "init", "seq"], none⟩ [f, acc, .pair x (withTail xs t)]
    obtain ⟨σ₂, h₂, e₂⟩ := test _ acc (.pair x (withTail xs t)) _ _ hc.scope rfl
    have hc₂ := hc.ext e₂.framesExt
    have hops : ∀ V, PArgs V b σ.frames.size (paramDefs ⟨["f", "init", "seq"], none⟩ [f, acc, .pair x (withTail xs t)])
        [ca "car" [sy "seq"], sy "init"] (.ok [x, acc]) := fun V =>
      PArgs.congr (PArgs.cons (PEval.call1 (lkB .car) (by rfl) (PEval.var (by rfl)) fun _ _ => PApp.car)
        (PArgs.cons (PEval.var (by rfl)) PArgs.nil)) rfl
    obtain ⟨σ₃, h₃, e₃⟩ := hops _ _ hc₂.scope rfl
    have d₃ : σ.DExt (enter σ₃) := ((e₁.dExt.trans e₂.dExt).trans e₃.dExt).trans (Store.dExt_enter σ₃)
    obtain ⟨r₁, σ₄, happ, hkeep, hK₄⟩ := hf.app (enter σ₃) [x, acc] (hf.stable _ _ hK d₃)
      (Nat.le_trans hN d₃.size) ⟨x, by simp, acc, rfl⟩
    have harg : Evals σ₂ σ.frames.size (ca "f" [ca "car" [sy "seq"], sy "init"]) r₁ (leave σ₄) :=
      Evals.call_loop (Evals.sym (hc₂.scope.var (by rfl))) h₃ hf.proc (happ _)
    have hop : Evals σ₂ σ.frames.size (sy "fold-left") (.ok (libProc "fold-left" b)) σ₂ :=
      Evals.sym (hc₂.scope.proc 19 (by rfl) (by rfl))
    have hf₂ : Evals σ₂ σ.frames.size (sy "f") (.ok f) σ₂ := Evals.sym (hc₂.scope.var (by rfl))
    rw [libProc_fold_left]
    cases r₁ with
    | error er =>
      refine ⟨.error er, leave σ₄, ?_, .cons_err d₃ happ (Store.dExt_leave σ₄), fun _ h => by cases h⟩
      refine Applies.closure_simple (by rfl) (TailRuns.cond_false h₂ (by simp [isNil]) (TailRuns.call ?_))
      exact .inr ⟨_, _, hop, .inl ⟨er, EvalsArgs.cons_tail_err hf₂ (EvalsArgs.cons_err harg), rfl⟩⟩
    | ok v =>
      have hc₄ : InCall b σ.frames.size _ (leave σ₄) :=
        (((hc₂.ext e₃.framesExt).ext (Store.framesExt_enter σ₃)).keep hkeep
          (Nat.le_trans hN (Nat.le_refl _))).ext (Store.framesExt_leave σ₄)
      have hK₄' : K (leave σ₄) := hf.stable _ _ (hK₄ v rfl) (Store.dExt_leave σ₄)
      have hcdr : ∀ V, PArgs V b σ.frames.size (paramDefs ⟨["f", "init", "seq"], none⟩ [f, acc, .pair x (withTail xs t)])
          [ca "cdr" [sy "seq"]] (.ok [withTail xs t]) := fun V =>
        PArgs.congr (PArgs.cons (PEval.call1 (lkB .cdr) (by rfl) (PEval.var (by rfl)) fun _ _ => PApp.cdr)
          PArgs.nil) rfl
      obtain ⟨σ₅, h₅, e₅⟩ := hcdr _ _ hc₄.scope rfl
      have hN₅ : N ≤ σ₅.frames.size :=
        Nat.le_trans (Nat.le_trans (Nat.le_trans hN d₃.size) hkeep.size) e₅.size
      obtain ⟨r₂, σ₆, happ₂, htr₂, hK₆⟩ := ih σ₅ v (hc₄.lib.ext e₅.framesExt)
        (hf.stable _ _ hK₄' e₅.dExt) hN₅
        (hf.mono (Nat.le_refl _) fun args ⟨y, hy, e⟩ => ⟨y, List.mem_cons_of_mem _ hy, e⟩) env
      have htr : FoldLM (AppOf f) Store.DExt σ₄ v xs r₂ σ₆ :=
        FoldLM.ext_left @Store.DExt.trans ((Store.dExt_leave σ₄).trans e₅.dExt) htr₂
      refine ⟨r₂, σ₆, ?_, .cons d₃ happ htr (Store.DExt.refl _), hK₆⟩
      refine Applies.closure_simple (by rfl) (TailRuns.cond_false h₂ (by simp [isNil]) (TailRuns.call ?_))
      exact .inr ⟨_, _, hop, .inr ⟨_, _, EvalsArgs.cons hf₂ (EvalsArgs.cons harg h₅),
        .inr ⟨procArity_libProc (i := 19) rfl, libProc_fold_left b ▸ happ₂⟩⟩⟩

theorem fold_right_run : ∀ (xs : List Value) (σ : Store) (init : Value),
    LibFrame σ b → K σ → N ≤ σ.frames.size →
    ProcArg b N K f (fun args => ∃ x ∈ xs, ∃ a, args = [x, a]) → ∀ env,
    ∃ r σ', Applies σ (libProc "fold-right" b) [f, init, Value.ofList xs] env r σ' ∧
      FoldRM (AppOf f) Store.DExt σ init xs r σ' ∧ (∀ v, r = .ok v → K σ') ∧ σ.frames.size ≤ σ'.frames.size := by
  have test : ∀ V (init l : Value) ρ, PEval V b ρ (paramDefs ⟨["f", "init", "seq"], none⟩ [f, init, l])
      (ca "null?" [sy "seq"]) (.ok (.bool (isNil l))) := fun V init l ρ =>
    PEval.congr (PEval.call1 (k := fun v => .ok (.bool (isNil v))) (lkP 14) (procArity_libProc (i := 14) rfl)
      (PEval.var (by rfl)) fun v _ => papp_null b v) rfl
  intro xs
  induction xs with
  | nil =>
    intro σ init hl hK hN hf env
    have hc := InCall.of_call hl ⟨["f", "init", "seq"], none⟩ [f, init, .nil]
    obtain ⟨σ₂, h₂, e₂⟩ := test _ init .nil _ _ hc.scope rfl
    have hc₂ := hc.ext e₂.framesExt
    rw [libProc_fold_right]
    refine ⟨.ok init, σ₂, ?_, .nil ((callFrame_ext ..).dExt.trans e₂.dExt), fun _ _ =>
      hf.stable _ _ hK ((callFrame_ext ..).dExt.trans e₂.dExt), ((callFrame_ext ..).dExt.trans e₂.dExt).size⟩
    refine Applies.closure_simple (by rfl) (TailRuns.cond_true h₂ (by simp [isNil]) ?_)
    exact TailRuns.value (by intros; simp) (by intros; simp) (Evals.sym (hc₂.scope.var (by rfl)))
  | cons x xs ih =>
    intro σ init hl hK hN hf env
    have hc := InCall.of_call hl ⟨["f", "init", "seq"], none⟩ [f, init, Value.ofList (x :: xs)]
    have e₁ := callFrame_ext σ b ⟨["f", "init", "seq"], none⟩ [f, init, Value.ofList (x :: xs)]
    obtain ⟨σ₂, h₂, e₂⟩ := test _ init (Value.ofList (x :: xs)) _ _ hc.scope rfl
    have hc₂ := hc.ext e₂.framesExt
    have hcar : ∀ V, PEval V b σ.frames.size (paramDefs ⟨["f", "init", "seq"], none⟩ [f, init, Value.ofList (x :: xs)])
        (ca "car" [sy "seq"]) (.ok x) := fun V =>
      PEval.congr (PEval.call1 (lkB .car) (by rfl) (PEval.var (by rfl)) fun _ _ => PApp.car) rfl
    obtain ⟨σ₂', h₂', e₂'⟩ := hcar _ _ hc₂.scope rfl
    have hc₂' := hc₂.ext e₂'.framesExt
    have hrec : ∀ V, PArgs V b σ.frames.size (paramDefs ⟨["f", "init", "seq"], none⟩ [f, init, Value.ofList (x :: xs)])
        [sy "f", sy "init", ca "cdr" [sy "seq"]] (.ok [f, init, Value.ofList xs]) := fun V =>
      PArgs.congr (PArgs.cons (PEval.var (by rfl)) (PArgs.cons (PEval.var (by rfl))
        (PArgs.cons (PEval.call1 (lkB .cdr) (by rfl) (PEval.var (by rfl)) fun _ _ => PApp.cdr) PArgs.nil))) rfl
    obtain ⟨σ₃, h₃, e₃⟩ := hrec _ _ hc₂'.scope rfl
    have d₃ : σ.DExt (enter σ₃) :=
      (((e₁.dExt.trans e₂.dExt).trans e₂'.dExt).trans e₃.dExt).trans (Store.dExt_enter σ₃)
    obtain ⟨r₂, σ₄, happ₂, htr₂, hK₄, hsz₄⟩ := ih (enter σ₃) init (hc₂'.lib.ext (e₃.framesExt.trans (Store.framesExt_enter σ₃)))
      (hf.stable _ _ hK d₃) (Nat.le_trans hN d₃.size)
      (hf.mono (Nat.le_refl _) fun args ⟨y, hy, e⟩ => ⟨y, List.mem_cons_of_mem _ hy, e⟩) σ.frames.size
    have harg2 : Evals σ₂' σ.frames.size (ca "fold-right" [sy "f", sy "init", ca "cdr" [sy "seq"]]) r₂ (leave σ₄) :=
      Evals.call_loop (Evals.sym (hc₂'.scope.proc 20 (by rfl) (by rfl))) h₃ (procArity_libProc (i := 20) rfl)
        (libProc_fold_right b ▸ happ₂)
    have hop : Evals σ₂ σ.frames.size (sy "f") (.ok f) σ₂ := Evals.sym (hc₂.scope.var (by rfl))
    rw [libProc_fold_right]
    cases r₂ with
    | error er =>
      refine ⟨.error er, leave σ₄, ?_, .cons_err d₃ htr₂ (Store.dExt_leave σ₄), fun _ h => (by cases h),
        Nat.le_trans d₃.size hsz₄⟩
      refine Applies.closure_simple (by rfl) (TailRuns.cond_false h₂ (by simp [Value.ofList, isNil]) (TailRuns.call ?_))
      exact .inr ⟨_, _, hop, .inl ⟨er, EvalsArgs.cons_tail_err h₂' (EvalsArgs.cons_err harg2), rfl⟩⟩
    | ok acc =>
      have hK₄' : K (leave σ₄) := hf.stable _ _ (hK₄ acc rfl) (Store.dExt_leave σ₄)
      have hN₄ : N ≤ (leave σ₄).frames.size := Nat.le_trans (Nat.le_trans hN d₃.size) hsz₄
      obtain ⟨r, σ', happ, hkeep, hK'⟩ := hf.app (leave σ₄) [x, acc] hK₄' hN₄ ⟨x, by simp, acc, rfl⟩
      refine ⟨r, σ', ?_, .cons d₃ htr₂ (Store.dExt_leave σ₄) happ, hK',
        Nat.le_trans (Nat.le_trans d₃.size hsz₄) hkeep.size⟩
      refine Applies.closure_simple (by rfl) (TailRuns.cond_false h₂ (by simp [Value.ofList, isNil]) (TailRuns.call ?_))
      exact .inr ⟨_, _, hop, .inr ⟨_, _, EvalsArgs.cons h₂' (EvalsArgs.cons harg2 EvalsArgs.nil),
        .inr ⟨hf.proc, happ env⟩⟩⟩

end hfold

/-! ## 12. observing the order of the applications: the host procedure `tick` -/

/-- the store after `(tick x)`: the canonical text of `x` is pushed on the trace -/
def tickStore (σ : Store) (x : Value) : Store := { σ with ticks := Prim.canon σ 100000 x :: σ.ticks }

theorem applies_tick (σ : Store) (x : Value) (env : Nat) :
    Applies σ (.builtin .tick) [x] env (.ok x) (tickStore σ x) :=
  Applies.builtin (by decide) (by rfl) rfl (by simp)

/-- `tick` is a good procedure argument in every store (it only writes the trace) -/
theorem procArg_tick (b N : Nat) (dom : List Value → Prop) (hd : ∀ args, dom args → args.length = 1) :
    ProcArg b N (fun _ => True) (.builtin .tick) dom where
  proc := rfl
  stable _ _ _ _ := trivial
  app σ args _ _ hdom := by
    obtain ⟨x, rfl⟩ : ∃ x, args = [x] := by
      match args, hd args hdom with
      | [x], _ => exact ⟨x, rfl⟩
    exact ⟨.ok x, tickStore σ x, fun env => applies_tick σ x env, ⟨Nat.le_refl _, fun _ _ _ => rfl⟩, fun _ _ => trivial⟩

theorem canon_vecs {σ τ : Store} (h : σ.vecs = τ.vecs) (n : Nat) (v : Value) : Prim.canon σ n v = Prim.canon τ n v :=
  (canon_congr h n v).1

/-- a `map`/`for-each` traversal with `tick`: every element is returned unchanged and its text is
pushed on the trace, first element first (the trace is most-recent-first) -/
theorem mapM_tick {σ : Store} {xs : List Value} {r σ'} (h : MapM (AppOf (.builtin .tick)) Store.DExt σ xs r σ') :
    r = .ok xs ∧ σ'.ticks = (xs.map (Prim.canon σ 100000)).reverse ++ σ.ticks ∧ σ'.vecs = σ.vecs := by
  induction h with
  | nil e => exact ⟨rfl, by simpa using e.ticks, e.vecs⟩
  | @cons_err σ σ₁ σ₂ σ' x xs er e₁ happ e₂ =>
    have := (Applies.unique (happ 0) (applies_tick σ₁ x 0)).1
    cases this
  | @cons σ σ₁ σ₂ σ₃ σ' x xs v r e₁ happ _ e₂ ih =>
    obtain ⟨hv, hσ⟩ := Applies.unique (happ 0) (applies_tick σ₁ x 0)
    cases hv; subst hσ
    obtain ⟨rfl, ht, hvecs⟩ := ih
    refine ⟨rfl, ?_, ?_⟩
    · rw [e₂.ticks, ht]
      have hc : ∀ y, Prim.canon (tickStore σ₁ x) 100000 y = Prim.canon σ 100000 y := fun y =>
        canon_vecs (show (tickStore σ₁ x).vecs = σ.vecs from e₁.vecs) _ _
      have hx : Prim.canon σ₁ 100000 x = Prim.canon σ 100000 x := canon_vecs e₁.vecs _ _
      have hfun : Prim.canon (tickStore σ₁ x) 100000 = Prim.canon σ 100000 := funext hc
      rw [hfun]
      simp only [tickStore, hx, e₁.ticks, List.map_cons, List.reverse_cons, List.append_assoc,
        List.singleton_append]
    · rw [e₂.vecs, hvecs]; exact e₁.vecs

/-! ## 14. pure procedure arguments -/

section pureArg
variable {b : Nat}

/-- a procedure that is pure on `dom` (it yields `g args` and only appends frames, wherever the
library frame is) is a good procedure argument, with the library frame itself as the invariant -/
theorem ProcArg.of_papp {N : Nat} {f : Value} {dom : List Value → Prop} {g : List Value → Except SErr Value}
    (hp : (procArity f).isSome) (h : ∀ V args, dom args → PApp V b f args (g args)) :
    ProcArg b N (fun σ => LibFrame σ b) f dom where
  proc := hp
  stable _ _ hK he := hK.ext he.framesExt
  app σ args hK _ hd := by
    have h0 := h σ.vecs args hd σ 0 hK rfl
    obtain ⟨σ', h', e⟩ := h0
    refine ⟨g args, σ', fun env => Applies.env_irrel h' env, Store.Keeps.of_framesExt e.framesExt b N,
      fun _ _ => hK.ext e.framesExt⟩

/-- with a pure procedure argument the traversal of `map` computes `List.mapM` and only appends
frames -/
theorem mapM_of_papp {f : Value} {g : Value → Except SErr Value} (h : ∀ V x, PApp V b f [x] (g x))
    {σ : Store} {xs : List Value} {r σ'} (htr : MapM (AppOf f) Store.DExt σ xs r σ') (hl : LibFrame σ b) :
    r = xs.mapM g ∧ σ.DExt σ' := by
  induction htr with
  | nil e => exact ⟨rfl, e⟩
  | @cons_err σ σ₁ σ₂ σ' x xs er e₁ happ e₂ =>
    obtain ⟨σ₂', h', e'⟩ := h σ₁.vecs x σ₁ 0 (hl.ext e₁.framesExt) rfl
    obtain ⟨hr, hσ⟩ := Applies.unique (happ 0) h'
    subst hσ
    refine ⟨?_, (e₁.trans e'.dExt).trans e₂⟩
    simp only [List.mapM_cons, ← hr, bind, Except.bind]
  | @cons σ σ₁ σ₂ σ₃ σ' x xs v r e₁ happ _ e₂ ih =>
    obtain ⟨σ₂', h', e'⟩ := h σ₁.vecs x σ₁ 0 (hl.ext e₁.framesExt) rfl
    obtain ⟨hr, hσ⟩ := Applies.unique (happ 0) h'
    subst hσ
    obtain ⟨rfl, e₃⟩ := ih ((hl.ext e₁.framesExt).ext e'.framesExt)
    refine ⟨?_, ((e₁.trans e'.dExt).trans e₃).trans e₂⟩
    simp only [List.mapM_cons, ← hr, bind, Except.bind]
    cases List.mapM g xs <;> rfl

/-- `cons` is a procedure argument of the folds in every store -/
theorem procArg_cons (b N : Nat) (dom : List Value → Prop) (hd : ∀ args, dom args → args.length = 2) :
    ProcArg b N (fun _ => True) (.builtin .cons) dom :=
  ProcArg.builtin (by decide) (fun args h => by rw [hd args h]; rfl)
    (fun σ args h => by
      match args, hd args h with
      | [a, d], _ => simp [Prim.applyPure, Prim.ok])
    (fun σ args => by
      match args with
      | [] | [_] => rfl
      | _ :: _ :: _ => rfl)

end pureArg

/-! ## 8. a store with the library frame -/

/-- the bindings of an instance of `(scheme base)` in frame `b`: the natives imported from
`(ruschm base)` in registration order, then the definitions of the `begin` body in order -/
def libDefs (b : Nat) : List (String × Value) :=
  Interp.nativeBase ++ baseDefs.map fun p => (p.1, libProc p.1 b)

theorem lookup_of_mem_nodup {β} : ∀ {l : List (String × β)} {n : String} {e : β},
    (l.map (·.1)).Nodup → (n, e) ∈ l → l.lookup n = some e := by
  intro l n e hnd hm
  obtain ⟨i, hi, h⟩ := List.getElem_of_mem hm
  exact lookup_of_getElem? hnd (by rw [List.getElem?_eq_getElem hi, h])

theorem libDefs_keys_nodup (b : Nat) : ((libDefs b).map (·.1)).Nodup := by
  have h1 : (Interp.nativeBase.map (·.1)).Nodup := by decide
  have h2 : (Interp.nativeBase.map (·.1)) = Builtin.baseList.map Builtin.name := by
    simp [Interp.nativeBase, Function.comp_def]
  simp only [libDefs, List.map_append, List.map_map, Function.comp_def]
  refine List.nodup_append.mpr ⟨h1, baseDefs_shape.2.1, ?_⟩
  intro a ha c hc hac
  subst hac
  exact baseDefs_shape.2.2 a hc (h2 ▸ ha)

/-- a root frame with exactly the library's bindings is a library frame -/
theorem LibFrame.of_defs {σ : Store} {b : Nat} (h : σ.frames[b]? = some { parent := none, defs := libDefs b }) :
    LibFrame σ b := by
  refine ⟨⟨_, h, rfl, fun n hn => ?_, fun bi hbi => ?_⟩⟩
  · apply lookup_of_mem_nodup (libDefs_keys_nodup b)
    obtain ⟨p, hp, rfl⟩ := List.mem_map.mp hn
    exact List.mem_append_right _ (List.mem_map.mpr ⟨p, hp, rfl⟩)
  · apply lookup_of_mem_nodup (libDefs_keys_nodup b)
    exact List.mem_append_left _ (List.mem_map.mpr ⟨bi, hbi, rfl⟩)

/-- the smallest store with a library frame -/
def libStore : Store := { frames := #[{ parent := none, defs := libDefs 0 }] }

theorem libFrame_libStore : LibFrame libStore 0 := LibFrame.of_defs rfl

/-! ## 13. `evalLibraryDef` on the generated declarations builds a library frame

(3) of the set-up, stated SYMBOLICALLY for `Interp.evalLibraryDef` (the function `getLibrary` runs
on the `Factory.ast` that `factoryOfText` makes of `base.sld`): for EVERY interpreter state in
which `(ruschm base)` is the registered native library and is not yet instantiated or being
loaded, instantiating `libDecls` succeeds and the fresh root frame satisfies `LibFrame`. The
closed computation `Interp.withStdlib` (which also lexes and parses the text in the kernel) is not
evaluated. -/

section instantiate
open Interp

/-- the lambdas of the definitions of `base.sld` -/
def expectedLams : List (String × Lambda) :=
  expectedDefs.filterMap fun p => match p.2 with | .lambda lam _ => some (p.1, lam) | _ => none

theorem expectedDefs_lams : expectedDefs = expectedLams.map fun p => (p.1, .lambda p.2 none) := by rfl

theorem libDefs_eq (b : Nat) : libDefs b = nativeBase ++ expectedLams.map fun p => (p.1, .closure p.2 b) := by
  unfold libDefs
  rw [baseDefs_eq]
  congr 1
  conv => lhs; rw [expectedDefs_lams]
  rw [List.map_map]
  apply List.map_congr_left
  intro p hp
  obtain ⟨i, hi, h⟩ := List.getElem_of_mem hp
  have : expectedDefs[i]? = some (p.1, .lambda p.2 none) := by
    rw [expectedDefs_lams, List.getElem?_map, List.getElem?_eq_getElem hi, h]; rfl
  simp only [Function.comp]
  rw [libProc_of_index this]

/-- a run of `define`s in frame `ρ`: the frame gets the bindings, nothing else changes -/
theorem foldl_define_store (ρ : Nat) : ∀ (l : List (String × Value)) (σ : Store),
    let σ' := l.foldl (fun σ p => σ.define ρ p.1 p.2) σ
    σ'.vecs = σ.vecs ∧ σ'.out = σ.out ∧ σ'.ticks = σ.ticks ∧ σ'.depth = σ.depth ∧
    σ'.maxDepth = σ.maxDepth ∧ σ'.frames.size = σ.frames.size ∧
    (∀ i, i ≠ ρ → σ'.frames[i]? = σ.frames[i]?) ∧
    σ'.frames[ρ]? = (σ.frames[ρ]?).map fun f =>
      { f with defs := l.foldl (fun d p => Store.defsInsert d p.1 p.2) f.defs }
  | [], σ => by simp
  | p :: l, σ => by
    have ih := foldl_define_store ρ l (σ.define ρ p.1 p.2)
    simp only [define_vecs, define_out, define_ticks, define_depth, define_maxDepth, define_frames_size] at ih
    obtain ⟨h1, h2, h3, h4, h5, h6, h7, h8⟩ := ih
    refine ⟨h1, h2, h3, h4, h5, h6, fun i hi => ?_, ?_⟩
    · rw [List.foldl_cons, h7 i hi, define_other _ _ _ _ _ hi]
    · rw [List.foldl_cons, h8, define_frames_getElem?]
      simp only [if_true, List.foldl_cons]
      cases σ.frames[ρ]? <;> simp

theorem defsInsert_fresh : ∀ (d : List (String × Value)) (k : String) (v : Value), k ∉ d.map (·.1) →
    Store.defsInsert d k v = d ++ [(k, v)]
  | [], k, v, _ => rfl
  | (k', v') :: d, k, v, h => by
    simp only [List.map_cons, List.mem_cons, not_or] at h
    simp only [Store.defsInsert, Ne.symm h.1, if_false, List.cons_append]
    rw [defsInsert_fresh d k v h.2]

/-- inserting bindings with fresh, distinct names appends them in order -/
theorem foldl_defsInsert_fresh : ∀ (l acc : List (String × Value)), ((acc ++ l).map (·.1)).Nodup →
    l.foldl (fun d p => Store.defsInsert d p.1 p.2) acc = acc ++ l
  | [], acc, _ => by simp
  | p :: l, acc, h => by
    have hp : p.1 ∉ acc.map (·.1) := by
      simp only [List.map_append, List.map_cons] at h
      have := (List.nodup_append.mp h).2.2
      intro hm
      exact this _ hm _ (List.mem_cons_self) rfl
    rw [List.foldl_cons, defsInsert_fresh acc p.1 p.2 hp]
    have : acc ++ [(p.1, p.2)] ++ l = acc ++ p :: l := by simp
    rw [foldl_defsInsert_fresh l (acc ++ [(p.1, p.2)]) (by rw [this]; exact h), this]

/-- the statements of the `begin` body: each `define` of a `lambda` binds its closure -/
theorem evalStatements_lams (ρ : Nat) : ∀ (lams : List (String × Lambda)) (fuel : Nat) (st : State),
    lams.length + 2 ≤ fuel →
    evalStatements fuel st ρ (lams.map fun p => .definition (.mk p.1 (.lambda p.2 none) none)) =
      (.ok (), { st with
        store := List.foldl (fun σ p => σ.define ρ p.1 p.2) st.store (lams.map fun p => (p.1, Value.closure p.2 ρ)) })
  | [], fuel, st, h => by
    obtain ⟨k, rfl⟩ : ∃ k, fuel = k + 1 := ⟨fuel - 1, by omega⟩
    simp [evalStatements]
  | p :: lams, fuel, st, h => by
    obtain ⟨k, rfl⟩ : ∃ k, fuel = k + 2 := ⟨fuel - 2, by simp at h; omega⟩
    simp only [List.map_cons, evalStatements, evalExprOrDef, evalExpr, List.foldl_cons]
    rw [evalStatements_lams ρ lams (k + 1) _ (by simp at h; omega)]

theorem assocInsert_fresh {α} : ∀ (d : List (String × α)) (k : String) (v : α), k ∉ d.map (·.1) →
    assocInsert d k v = d ++ [(k, v)]
  | [], k, v, _ => rfl
  | (k', v') :: d, k, v, h => by
    simp only [List.map_cons, List.mem_cons, not_or] at h
    simp only [assocInsert, Ne.symm h.1, if_false, List.cons_append]
    rw [assocInsert_fresh d k v h.2]

theorem lookup_none_of_not_mem {α} : ∀ (d : List (String × α)) (k : String), k ∉ d.map (·.1) → d.lookup k = none
  | [], _, _ => rfl
  | (k', v') :: d, k, h => by
    simp only [List.map_cons, List.mem_cons, not_or] at h
    have : (k == k') = false := by simpa using h.1
    rw [List.lookup, this]
    exact lookup_none_of_not_mem d k h.2

/-- merging import bindings with fresh, distinct names: no conflict test is reached -/
theorem foldlM_merge_fresh {α} {F : List (String × α) → String × α → Except SErr (List (String × α))}
    (hF : ∀ a p, a.lookup p.1 = none → F a p = .ok (assocInsert a p.1 p.2)) :
    ∀ (l acc : List (String × α)), ((acc ++ l).map (·.1)).Nodup → l.foldlM F acc = .ok (acc ++ l)
  | [], acc, _ => by simp [pure, Except.pure]
  | p :: l, acc, h => by
    have hp : p.1 ∉ acc.map (·.1) := by
      simp only [List.map_append, List.map_cons] at h
      have := (List.nodup_append.mp h).2.2
      intro hm
      exact this _ hm _ (List.mem_cons_self) rfl
    have e : acc ++ [(p.1, p.2)] ++ l = acc ++ p :: l := by simp
    rw [List.foldlM_cons, hF acc p (lookup_none_of_not_mem acc p.1 hp), assocInsert_fresh acc p.1 p.2 hp]
    simp only [bind, Except.bind]
    rw [foldlM_merge_fresh hF l (acc ++ [(p.1, p.2)]) (by rw [e]; exact h), e]

/-- `(import (ruschm base))` from the registered native factory: the natives are defined in `ρ` -/
theorem evalImport_ruschmBase (st : State) (ρ : Nat) (fuel : Nat) (hfuel : 4 ≤ fuel)
    (h₁ : libLookup st.instances libRuschmBase = none)
    (h₂ : libLookup st.factories libRuschmBase = some (.native nativeBase))
    (h₃ : st.inProgress.contains libRuschmBase = false) :
    (evalImport fuel st [.direct libRuschmBase none] ρ).1 = .ok () ∧
      (evalImport fuel st [.direct libRuschmBase none] ρ).2.store =
        nativeBase.foldl (fun σ p => σ.define ρ p.1 p.2) st.store := by
  obtain ⟨k, rfl⟩ : ∃ k, fuel = k + 4 := ⟨fuel - 4, by omega⟩
  simp only [evalImport, evalImportSets, evalImportSet, h₃, getLibrary, h₁, h₂, Bool.false_eq_true, if_false]
  -- merging the natives into the (empty) import map: the names are distinct, no conflict test is reached
  generalize hfold : List.foldlM (m := Except SErr) (s := List (String × Value)) _ [] nativeBase = res
  have hres : res = .ok nativeBase := by
    rw [← hfold]
    exact foldlM_merge_fresh (fun a p h => by simp only [h]) nativeBase [] (by decide)
  subst hres
  simp only [and_self]

theorem foldlM_error_elim {α β} {F : β → α → Except SErr β} : ∀ {xs : List α} {acc : β} {e : SErr},
    xs.foldlM F acc = .error e → ∃ acc', ∃ x ∈ xs, ∃ e', F acc' x = .error e'
  | [], acc, e, h => by simp [pure, Except.pure] at h
  | x :: xs, acc, e, h => by
    simp only [List.foldlM_cons, bind, Except.bind] at h
    cases hF : F acc x with
    | error e' => exact ⟨acc, x, List.mem_cons_self, e', hF⟩
    | ok acc₁ =>
      rw [hF] at h
      obtain ⟨acc', y, hy, e', he⟩ := foldlM_error_elim h
      exact ⟨acc', y, List.mem_cons_of_mem _ hy, e', he⟩

theorem exportNames_bound : ∀ n ∈ exportNames,
    n ∈ Builtin.baseList.map Builtin.name ∨ n ∈ expectedDefs.map (·.1) := by
  have h : (exportNames.all fun n =>
      (Builtin.baseList.map Builtin.name).contains n || (expectedDefs.map (·.1)).contains n) = true := by rfl
  intro n hn
  have := List.all_eq_true.mp h n hn
  simpa using this

/-- the three declarations of `base.sld` run in frame `ρ`: the natives, then the closures -/
theorem evalLibDecls_base (st : State) (ρ : Nat) (fuel : Nat) (hfuel : 39 ≤ fuel)
    (h₁ : libLookup st.instances libRuschmBase = none)
    (h₂ : libLookup st.factories libRuschmBase = some (.native nativeBase))
    (h₃ : st.inProgress.contains libRuschmBase = false) :
    ∃ st', evalLibDecls fuel st ρ expectedDecls [] = (.ok (exportNames.map (ExportSpec.direct · none)), st') ∧
      st'.store = List.foldl (fun σ p => σ.define ρ p.1 p.2) st.store
        (nativeBase ++ expectedLams.map fun p => (p.1, Value.closure p.2 ρ)) := by
  obtain ⟨k, rfl⟩ : ∃ k, fuel = k + 39 := ⟨fuel - 39, by omega⟩
  obtain ⟨hi₁, hs₁⟩ := evalImport_ruschmBase st ρ (k + 38) (by omega) h₁ h₂ h₃
  simp only [expectedDecls, evalLibDecls]
  generalize evalImport (k + 38) st [.direct libRuschmBase none] ρ = res at hi₁ hs₁
  obtain ⟨r₁, st₁⟩ := res
  simp only at hi₁ hs₁
  subst hi₁
  simp only [List.nil_append]
  rw [expectedDefs_lams, List.map_map]
  have hst := evalStatements_lams ρ expectedLams (k + 36) st₁ (by
    have : expectedLams.length = 31 := by rfl
    omega)
  simp only [Function.comp_def] at hst ⊢
  rw [hst]
  exact ⟨_, rfl, by rw [hs₁, List.foldl_append]⟩

/-- (3) instantiating the generated declarations of `(scheme base)` builds a library frame: the
fresh root frame `st.store.frames.size` holds exactly `libDefs`, every export is found in it,
and nothing else in the store changes -/
theorem libFrame_of_evalLibraryDef (st : State) (fuel : Nat) (hfuel : 40 ≤ fuel)
    (h₁ : libLookup st.instances libRuschmBase = none)
    (h₂ : libLookup st.factories libRuschmBase = some (.native nativeBase))
    (h₃ : st.inProgress.contains libRuschmBase = false) :
    ∃ exports st', evalLibraryDef fuel st libDecls = (.ok exports, st') ∧
      LibFrame st'.store st.store.frames.size ∧
      st'.store.frames[st.store.frames.size]? = some { parent := none, defs := libDefs st.store.frames.size } ∧
      st.store.Ext st'.store := by
  obtain ⟨k, rfl⟩ : ∃ k, fuel = k + 40 := ⟨fuel - 40, by omega⟩
  obtain ⟨st', hd, hs'⟩ := evalLibDecls_base { st with store := (st.store.newFrame none).2 }
    (st.store.newFrame none).1 (k + 39) (by omega) h₁ h₂ h₃
  rw [libDecls_eq]
  simp only [evalLibraryDef]
  rw [hd]
  simp only
  -- the store after the natives and the definitions
  have hfold := foldl_define_store st.store.frames.size
    (nativeBase ++ expectedLams.map fun p => (p.1, Value.closure p.2 st.store.frames.size)) (st.store.newFrame none).2
  simp only [newFrame_frames, newFrame_vecs, newFrame_out, newFrame_ticks, newFrame_depth, newFrame_maxDepth,
    Array.size_push, Array.getElem?_push_size, Option.map_some] at hfold
  obtain ⟨f1, f2, f3, f4, f5, f6, f7, f8⟩ := hfold
  have hnd := libDefs_keys_nodup st.store.frames.size
  rw [libDefs_eq] at hnd
  have hdefs := foldl_defsInsert_fresh
    (nativeBase ++ expectedLams.map fun p => (p.1, Value.closure p.2 st.store.frames.size)) [] (by simpa using hnd)
  rw [List.nil_append] at hdefs
  rw [hdefs] at f8
  have hs'' : st'.store = List.foldl (fun σ p => σ.define st.store.frames.size p.1 p.2) (st.store.newFrame none).2
      (nativeBase ++ expectedLams.map fun p => (p.1, Value.closure p.2 st.store.frames.size)) := hs'
  have hframe : st'.store.frames[st.store.frames.size]? =
      some { parent := none, defs := libDefs st.store.frames.size } := by
    rw [hs'', libDefs_eq]; exact f8
  have hlib := LibFrame.of_defs hframe
  have hbound : ∀ n ∈ exportNames, ∃ v, st'.store.lookup st.store.frames.size n = some v := fun n hn => by
    rcases exportNames_bound n hn with hb | hd
    · obtain ⟨bi, hbi, rfl⟩ := List.mem_map.mp hb
      exact ⟨_, hlib.lookup_builtin bi hbi⟩
    · obtain ⟨p, hp, rfl⟩ := List.mem_map.mp hd
      obtain ⟨i, hi, h⟩ := List.getElem_of_mem hp
      exact ⟨_, hlib.lookup_proc (i := i) (e := p.2) (by rw [List.getElem?_eq_getElem hi, h])⟩
  have hext : st.store.Ext st'.store := by
    rw [hs'']
    exact ⟨by omega, fun i hi => by rw [f7 i (by omega), Array.getElem?_push_lt hi]; simp [hi],
      f1, f2, f3, f4, by omega⟩
  generalize hres : List.foldlM (m := Except SErr) (s := List (String × Value)) _ _ _ = res
  cases res with
  | ok l => exact ⟨l, st', rfl, hlib, hframe, hext⟩
  | error e =>
    exfalso
    obtain ⟨acc', x, hx, e', he⟩ := foldlM_error_elim hres
    obtain ⟨n, hn, rfl⟩ := List.mem_map.mp hx
    obtain ⟨v, hv⟩ := hbound n hn
    simp [Store.newFrame, hv] at he

end instantiate

end Ruschm.ListLib

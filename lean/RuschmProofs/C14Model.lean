/-
Property C14, model level — what `Interp.getLibrary`, `Interp.evalImportSet(s)`, `Interp.evalImport`
of the MODEL of the interpreter do to the factory table, the instance cache and the file lookup.

`RuschmProofs/C14.lean` proves the loader properties on an abstract dependency graph; the theorems
here are about the model of the Rust code itself, and pin the facts that seeded faults showed
users rely on:

* a failed load never evicts or changes a registered factory (`factories_monotone`);
* a library FILE only ever registers a factory under the name that was asked for, made from the
  file of THAT name, and that file really contains a `define-library` of that name
  (`new_factories_only_requested_names`, `wrong_name_file_not_found`);
* the instance cache only receives the results of successful instantiations
  (`instances_only_from_successful_loads`);
* for libraries that consist of imports only, the model's `getLibrary` has the outcome the
  abstract loader computes on the described graph (`refines_abstract_loader_partial`).

Vocabulary (in `RuschmProofs/LibModelLemmas.lean`): `factoryFor st m` — the factory `get_library`
would use for `m` (registered, else from the file `libPath m`); `declImports decls` — the
libraries named by the import declarations of a definition; `Requested st r n` — `n` is `r` or a
transitive import of `r` through those definitions; `Scanned t s env` / `DefinesLibrary t n decls`
— the text `t` has a top-level `define-library` form named `n` with declarations `decls`.
-/
import RuschmProofs.LibRefine

namespace Ruschm.C14Model
open Ruschm Ruschm.Interp

/-! ## a concrete interpreter state for the examples -/

def libA : LibName := [.ident "a"]
def libB : LibName := [.ident "b"]
def libC : LibName := [.ident "c"]
def libD : LibName := [.ident "d"]
def libE : LibName := [.ident "e"]

/-- `(a)` is registered source importing `(b)` (native), then `(c)` whose file is unreadable;
`d.sld` is an empty file; `(e)` has neither factory nor file -/
def demo : State :=
  { store := Store.root
    factories := [(libA, .ast [.importDecl [.direct libB none, .direct libC none], .export []]),
                  (libB, .native [("x", .num (.int 1))])]
    files := [("c.sld", .unreadable), ("d.sld", .text "")] }

/-! ## 1. no eviction -/

/-- Whatever the outcome (ok or any error, any fuel) of `getLibrary`, of an import set, of an import
declaration or of a top-level form: every factory present before is present after, with the same
content; the files are the same; and the in-progress list is restored. -/
theorem factories_monotone (fuel : Nat) (st : State) :
    (∀ name loc, let st' := (getLibrary fuel st name loc).2
      (∀ n f, libLookup st.factories n = some f → libLookup st'.factories n = some f) ∧
      st'.files = st.files ∧ st'.inProgress = st.inProgress) ∧
    (∀ s, let st' := (evalImportSet fuel st s).2
      (∀ n f, libLookup st.factories n = some f → libLookup st'.factories n = some f) ∧
      st'.files = st.files ∧ st'.inProgress = st.inProgress) ∧
    (∀ sets ρ, let st' := (evalImport fuel st sets ρ).2
      (∀ n f, libLookup st.factories n = some f → libLookup st'.factories n = some f) ∧
      st'.files = st.files ∧ st'.inProgress = st.inProgress) ∧
    (∀ stmt, let st' := (evalAst fuel st stmt).2
      (∀ n f, libLookup st.factories n = some f → libLookup st'.factories n = some f) ∧
      st'.files = st.files ∧ st'.inProgress = st.inProgress) := by
  have I := invAt storeRel_true fuel
  refine ⟨fun name loc => ?_, fun s => ?_, fun sets ρ => ?_, fun stmt => ?_⟩
  · have i := I.getLibrary (st := st) (name := name) (loc := loc) (r := _) (st' := _) rfl
    exact ⟨i.factories, i.files, i.inProgress⟩
  · have i := I.importSet (st := st) (s := s) (r := _) (st' := _) rfl
    exact ⟨i.factories, i.files, i.inProgress⟩
  · have i := I.import_ (st := st) (sets := sets) (ρ := ρ) (r := _) (st' := _) rfl
    exact ⟨i.factories, i.files, i.inProgress⟩
  · obtain ⟨st1, h1, i⟩ := evalAst_inv storeRel_true (fuel := fuel) (st := st) (s := stmt) (r := _) (st' := _) rfl
    rcases h1 with rfl | rfl
    · exact ⟨i.factories, i.files, i.inProgress⟩
    · exact ⟨i.factories, i.files, i.inProgress⟩

/-- loading `(a)` fails with an io error inside `(c)`; the registered source of `(a)` is still there -/
example : (getLibrary 9 demo libA none).1 = .error (.io, none) ∧
    libLookup (getLibrary 9 demo libA none).2.factories libA =
      some (.ast [.importDecl [.direct libB none, .direct libC none], .export []]) := by
  refine ⟨?_, ((factories_monotone 9 demo).1 libA none).1 libA _ (by simp [demo, libLookup])⟩
  rw [getLibrary_succ_eq]
  simp [demo, libLookup, libA, libB, libC, findFactory, instantiate, newLibrary, cacheInstance,
    evalLibraryDef, evalLibDecls, evalImport, evalImportSets, evalImportSet, getLibrary, Store.newFrame,
    Store.root, libInsert, libPath, fileKey, LibElem.toString, List.lookup, assocInsert]

/-! ## 2. which factories a load may add -/

/-- A factory that is present after `getLibrary` (any outcome, any fuel) but was not present
before is keyed by a name `n` that was REQUESTED — the root `name` or a transitive import of it —
whose file `libPath n` exists as a text `t`; its content is `factoryOfText n t`, i.e. the AST of a
`define-library` form of `t` whose own name IS the key `n`. The same for an import declaration,
with the libraries its sets name as roots. (So a file can never plant a definition under another
name, and nothing is registered for a name nobody asked for.) -/
theorem new_factories_only_requested_names (fuel : Nat) (st : State) :
    (∀ name loc n f, libLookup (getLibrary fuel st name loc).2.factories n = some f →
      libLookup st.factories n = none →
      Requested st name n ∧ ∃ t decls, st.files.lookup (fileKey st.dir (libPath n)) = some (.text t) ∧
        factoryOfText n t = .ok f ∧ f = .ast decls ∧ DefinesLibrary t n decls) ∧
    (∀ sets ρ n f, libLookup (evalImport fuel st sets ρ).2.factories n = some f →
      libLookup st.factories n = none →
      (∃ s ∈ sets, Requested st (S.leaf s) n) ∧ ∃ t decls, st.files.lookup (fileKey st.dir (libPath n)) = some (.text t) ∧
        factoryOfText n t = .ok f ∧ f = .ast decls ∧ DefinesLibrary t n decls) := by
  have I := stepAt fuel
  constructor
  · intro name loc n f h1 h2
    have s := I.getLibrary (st := st) (name := name) (loc := loc) (r := _) (st' := _) rfl
    obtain ⟨⟨r, hr, hq⟩, t, ht, hf⟩ := s.newFac n f h1 h2
    obtain ⟨decls, hd, hdef⟩ := factoryOfText_ok hf
    simp only [List.mem_singleton] at hr
    subst hr
    exact ⟨hq, t, decls, ht, hf, hd, hdef⟩
  · intro sets ρ n f h1 h2
    have s := I.import_ (st := st) (sets := sets) (ρ := ρ) (r := _) (st' := _) rfl
    obtain ⟨⟨r, hr, hq⟩, t, ht, hf⟩ := s.newFac n f h1 h2
    obtain ⟨decls, hd, hdef⟩ := factoryOfText_ok hf
    obtain ⟨s', hs', rfl⟩ := List.mem_map.1 hr
    exact ⟨⟨s', hs', hq⟩, t, decls, ht, hf, hd, hdef⟩

/-- a file `d.sld` whose text gives the factory `(define-library (d))`: loading `(d)` registers
exactly that factory, under `(d)` -/
example (t : String) (ht : factoryOfText libD t = .ok (.ast [])) :
    let st : State := { demo with files := [("d.sld", .text t)] }
    libLookup (getLibrary 3 st libD none).2.factories libD = some (.ast []) ∧
    Requested st libD libD ∧ ∃ t' decls, st.files.lookup (fileKey st.dir (libPath libD)) = some (.text t') ∧
      DefinesLibrary t' libD decls := by
  intro st
  have ht' : factoryOfText [LibElem.ident "d"] t = .ok (.ast []) := ht
  have hnew : libLookup (getLibrary 3 st libD none).2.factories libD = some (.ast []) := by
    rw [getLibrary_succ_eq]
    simp [st, demo, libLookup, libA, libB, libD, findFactory, instantiate, newLibrary, cacheInstance,
      evalLibraryDef, evalLibDecls, Store.newFrame, libInsert, libPath, fileKey, LibElem.toString, List.lookup, ht', pure, Except.pure]
  obtain ⟨hq, t', decls, h1, -, -, h2⟩ := (new_factories_only_requested_names 3 st).1 libD none libD _ hnew
    (by simp [st, demo, libLookup, libA, libB, libD])
  exact ⟨hnew, hq, t', decls, h1, h2⟩

/-- If the file found for `n` does not contain a `define-library` named `n` (it defines a library
of another name, or none), `getLibrary` and the import fail and the STATE IS UNCHANGED: no factory
appears, for `n` or for the other name, and no instance. The error is the one `factoryOfText`
reports — `libNotFound` when the text was read to its end, as `from_char_stream` does. -/
theorem wrong_name_file_not_found (fuel : Nat) (st : State) (n : LibName) (loc : Loc) (t : String)
    (hi : libLookup st.instances n = none) (hf : libLookup st.factories n = none)
    (hfile : st.files.lookup (fileKey st.dir (libPath n)) = some (.text t))
    (hwrong : ¬ ∃ decls, DefinesLibrary t n decls) :
    (∃ e, factoryOfText n t = .error e ∧ getLibrary (fuel + 1) st n loc = (.error e, st) ∧
      (n ∉ st.inProgress → evalImportSet (fuel + 2) st (.direct n loc) = (.error e, st))) ∧
    (factoryOfText n t = .error (.libNotFound, none) →
      getLibrary (fuel + 1) st n loc = (.error (.libNotFound, none), st)) := by
  have herr : ∃ e, factoryOfText n t = .error e := by
    cases h : factoryOfText n t with
    | error e => exact ⟨e, rfl⟩
    | ok f =>
      obtain ⟨decls, -, hd⟩ := factoryOfText_ok h
      exact absurd ⟨decls, hd⟩ hwrong
  obtain ⟨e, he⟩ := herr
  refine ⟨⟨e, he, getLibrary_file_error hi hf hfile he, fun hip => ?_⟩,
    fun h => getLibrary_file_error hi hf hfile h⟩
  rw [evalImportSet_direct_eq hip,
    getLibrary_file_error (st := { st with inProgress := n :: st.inProgress }) hi hf hfile he]

/-- `d.sld` is an empty file: it defines no library `(d)`; importing `(d)` is `libNotFound` and
nothing is registered -/
example : getLibrary 5 demo libD none = (.error (.libNotFound, none), demo) := by
  exact (wrong_name_file_not_found 4 demo libD none ""
    (by simp [demo, libLookup]) (by simp [demo, libLookup, libA, libB, libD])
    (by simp [demo, libPath, fileKey, libD, LibElem.toString, List.lookup])
    (not_definesLibrary_empty libD)).2 (factoryOfText_empty libD)

/-! ## 3. which instances a load may add -/

/-- An instance that is present after `getLibrary` (any outcome, any fuel) but was not present
before belongs to a requested name `n` whose instantiation SUCCEEDED during the call: it is the
export list `d` returned by `newLibrary` (native: the factory's list; source: `evalLibraryDef`)
applied to the factory `get_library` uses for `n`. The same for an import declaration. -/
theorem instances_only_from_successful_loads (fuel : Nat) (st : State) :
    (∀ name loc n d, libLookup (getLibrary fuel st name loc).2.instances n = some d →
      libLookup st.instances n = none →
      Requested st name n ∧ ∃ k sa sb f, factoryFor st n = some f ∧ newLibrary k sa f = (.ok d, sb)) ∧
    (∀ sets ρ n d, libLookup (evalImport fuel st sets ρ).2.instances n = some d →
      libLookup st.instances n = none →
      (∃ s ∈ sets, Requested st (S.leaf s) n) ∧
        ∃ k sa sb f, factoryFor st n = some f ∧ newLibrary k sa f = (.ok d, sb)) := by
  have I := stepAt fuel
  constructor
  · intro name loc n d h1 h2
    have s := I.getLibrary (st := st) (name := name) (loc := loc) (r := _) (st' := _) rfl
    obtain ⟨⟨r, hr, hq⟩, x⟩ := s.newInst n d h1 h2
    simp only [List.mem_singleton] at hr
    subst hr
    exact ⟨hq, x⟩
  · intro sets ρ n d h1 h2
    have s := I.import_ (st := st) (sets := sets) (ρ := ρ) (r := _) (st' := _) rfl
    obtain ⟨⟨r, hr, hq⟩, x⟩ := s.newInst n d h1 h2
    obtain ⟨s', hs', rfl⟩ := List.mem_map.1 hr
    exact ⟨⟨s', hs', hq⟩, x⟩

/-- loading `(a)` fails (io error in `(c)`), but `(b)`, imported first, was instantiated: it is
requested by `(a)` and its instance is what its native factory returns; `(a)` itself and `(c)`
have no instance -/
example : libLookup (getLibrary 9 demo libA none).2.instances libB = some [("x", .num (.int 1))] ∧
    libLookup (getLibrary 9 demo libA none).2.instances libA = none ∧
    libLookup (getLibrary 9 demo libA none).2.instances libC = none ∧
    Requested demo libA libB := by
  have h : (getLibrary 9 demo libA none).2.instances = [(libB, [("x", .num (.int 1))])] := by
    rw [getLibrary_succ_eq]
    simp [demo, libLookup, libA, libB, libC, findFactory, instantiate, newLibrary, cacheInstance,
      evalLibraryDef, evalLibDecls, evalImport, evalImportSets, evalImportSet, getLibrary, Store.newFrame,
      Store.root, libInsert, libPath, fileKey, LibElem.toString, List.lookup, assocInsert]
  have hb : libLookup (getLibrary 9 demo libA none).2.instances libB = some [("x", .num (.int 1))] := by
    rw [h]; simp [libLookup]
  refine ⟨hb, by rw [h]; simp [libLookup, libA, libB], by rw [h]; simp [libLookup, libC, libB], ?_⟩
  exact ((instances_only_from_successful_loads 9 demo).1 libA none libB _ hb (by simp [demo, libLookup])).1

/-! ## 4. the model refines the abstract loader (partial) -/

/-
The full statement one would like:

  for every registry / file system describing a dependency graph `g` — each node a healthy
  library, a library whose body faults, a missing one, a file defining another name, a broken
  text, an unreadable file — `getLibrary` on the model returns the kind of outcome `Loader.load`
  returns on `g`.

What is proved below (`refines_abstract_loader_partial`) is this statement for the import path
`evalImportSet (.direct ..)` (= `Loader.load`: in-progress test, then `get_library`) and for
graphs described by libraries of a FIXED SHAPE (`Interp.Describes`):

  * healthy node `x` with dependencies `d₁ … dₙ`:  `(define-library (x) (import (d₁) … (dₙ)) (export))`
  * faulting node:  `(define-library (x) (import (d₁) … (dₙ)) (begin (1)))`  — the body calls a
    non-procedure, after all imports;
  * missing: neither factory nor file;  unreadable: no factory, an unreadable file;
  * malformed / wrong name: no factory, a file whose text `factoryOfText` rejects (broken text, or
    no `define-library` of that name: the outcome then is `factoryOfText`'s error, `libNotFound`
    for a wrong name).

Source libraries may be registered or come from files (`factoryFor`). What is missing for the
full statement: (a) healthy libraries with arbitrary bodies and non-empty export lists — their
success depends on evaluating the body, and two dependencies exporting one name with different
values now make the import fail with `.other`, an outcome the abstract loader does not have;
(b) bodies that fault BETWEEN two import declarations (the abstract `faulty` node faults after all
its dependencies); (c) `getLibrary` called directly rather than through an import: it does not
mark its own name in progress, so a cycle through the root is not reported as `cyclic` at the
root but one level further down.
-/

/-- For a registry and file system that describe the graph `g` (`Corr`: node kinds as above, the
instantiated libraries are the cached nodes, the in-progress lists agree), the model's import of
the library of node `x`, with fuel `fa * (D + 10)` or more (`D` bounds the number of dependencies
of a node), has the outcome the abstract loader has with fuel `fa` — `ok` ↦ `.ok []`, `cyclic` ↦
`.cyclic`, `notFound` ↦ `.libNotFound`, `io` ↦ `.io`, `fault` ↦ `.nonProcedure`, `syntax` ↦ the
error of the malformed file — and the resulting states correspond again (so the theorem applies
to the next import: histories). With `fa = |g| + 1` the abstract loader never runs out of fuel. -/
theorem refines_abstract_loader_partial (g : Loader.Graph) (nm : Loader.Name → LibName) (D : Nat)
    (hD : ∀ x, (g.node x).deps.length ≤ D) (ls : Loader.LState) (st : State) (hc : Corr g nm ls st)
    (x : Loader.Name) (loc : Loc) :
    (∀ fa m, fa * (D + 10) ≤ m → (Loader.load fa g ls x).1 ≠ .fuel →
      ∃ r st', evalImportSet m st (.direct (nm x) loc) = (r, st') ∧
        Match g nm st.files st.dir (Loader.load fa g ls x).1 r ∧ Corr g nm (Loader.load fa g ls x).2 st' ∧
        st'.files = st.files ∧ st'.dir = st.dir) ∧
    (∀ m, (g.length + 1) * (D + 10) ≤ m →
      ∃ r st', evalImportSet m st (.direct (nm x) loc) = (r, st') ∧
        Match g nm st.files st.dir (Loader.load (g.length + 1) g ls x).1 r ∧
        Corr g nm (Loader.load (g.length + 1) g ls x).2 st') := by
  have main : ∀ fa m, fa * (D + 10) ≤ m → (Loader.load fa g ls x).1 ≠ .fuel →
      ∃ r st', evalImportSet m st (.direct (nm x) loc) = (r, st') ∧
        Match g nm st.files st.dir (Loader.load fa g ls x).1 r ∧ Corr g nm (Loader.load fa g ls x).2 st' ∧
        st'.files = st.files ∧ st'.dir = st.dir := by
    intro fa m hm hne
    rw [Loader.load_eq_dfs'] at hne ⊢
    exact simAt hD fa m hm ls.cache ls.inProgress st x loc hc ⟨rfl, rfl⟩ hne
  refine ⟨main, fun m hm => ?_⟩
  have hne : (Loader.load (g.length + 1) g ls x).1 ≠ .fuel := by
    rw [Loader.load_eq_dfs']
    exact Loader.dfs_ne_fuel g _ _ _ x (by have := Loader.free_le g ls.inProgress; omega)
  obtain ⟨r, st', h1, h2, h3, -⟩ := main (g.length + 1) m hm hne
  exact ⟨r, st', h1, h2, h3⟩

/-- the graph: 0 imports 1 and 2, 1 imports 2, the body of 2 faults; everything else is missing -/
def demoGraph : Loader.Graph := [(0, .healthy [1, 2]), (1, .healthy [2]), (2, .faulty [])]
def demoNm (x : Loader.Name) : LibName := [.int x]

/-- its registry: three registered sources of the fixed shape -/
def demoRegistry : State :=
  { store := Store.root
    factories := [(demoNm 0, .ast (healthyDecls demoNm [1, 2])), (demoNm 1, .ast (healthyDecls demoNm [2])),
                  (demoNm 2, .ast (faultyDecls demoNm []))] }

example : ∃ st', evalImportSet 60 demoRegistry (.direct (demoNm 0) none) = (.error (.nonProcedure, none), st') := by
  have hdesc : Describes demoGraph demoNm demoRegistry := by
    refine ⟨fun x y h => by simpa [demoNm] using h, ?_, ?_, ?_, ?_, ?_⟩
    · intro x deps hx
      match x with
      | 0 => simp [demoGraph, Loader.Graph.node] at hx; subst hx
             simp [factoryFor, demoRegistry, libLookup, demoNm]
      | 1 => simp [demoGraph, Loader.Graph.node, List.lookup] at hx; subst hx
             simp [factoryFor, demoRegistry, libLookup, demoNm]
      | 2 => simp [demoGraph, Loader.Graph.node, List.lookup] at hx
      | n + 3 => simp [demoGraph, Loader.Graph.node, List.lookup] at hx
    · intro x deps hx
      match x with
      | 0 => simp [demoGraph, Loader.Graph.node] at hx
      | 1 => simp [demoGraph, Loader.Graph.node, List.lookup] at hx
      | 2 => simp [demoGraph, Loader.Graph.node, List.lookup] at hx; subst hx
             simp [factoryFor, demoRegistry, libLookup, demoNm]
      | n + 3 => simp [demoGraph, Loader.Graph.node, List.lookup] at hx
    · intro x hx
      match x with
      | 0 => simp [demoGraph, Loader.Graph.node] at hx
      | 1 => simp [demoGraph, Loader.Graph.node, List.lookup] at hx
      | 2 => simp [demoGraph, Loader.Graph.node, List.lookup] at hx
      | n + 3 => simp [demoRegistry, libLookup, demoNm]
    · intro x hx
      match x with
      | 0 => simp [demoGraph, Loader.Graph.node] at hx
      | 1 => simp [demoGraph, Loader.Graph.node, List.lookup] at hx
      | 2 => simp [demoGraph, Loader.Graph.node, List.lookup] at hx
      | n + 3 => simp [demoGraph, Loader.Graph.node, List.lookup] at hx
    · intro x hx
      match x with
      | 0 => simp [demoGraph, Loader.Graph.node] at hx
      | 1 => simp [demoGraph, Loader.Graph.node, List.lookup] at hx
      | 2 => simp [demoGraph, Loader.Graph.node, List.lookup] at hx
      | n + 3 => simp [demoGraph, Loader.Graph.node, List.lookup] at hx
  have hcorr : Corr demoGraph demoNm {} demoRegistry :=
    ⟨hdesc, fun x => by simp [demoRegistry, libLookup], fun x d h => by simp [demoRegistry, libLookup] at h,
      by simp [demoRegistry]⟩
  have hD : ∀ x, (demoGraph.node x).deps.length ≤ 2 := by
    intro x
    match x with
    | 0 => decide
    | 1 => decide
    | 2 => decide
    | n + 3 => simp [demoGraph, Loader.Graph.node, List.lookup, Loader.Node.deps]
  obtain ⟨r, st', h1, h2, -⟩ := (refines_abstract_loader_partial demoGraph demoNm 2 hD {} demoRegistry hcorr 0
    none).2 60 (by decide)
  have ho : (Loader.load (demoGraph.length + 1) demoGraph {} 0).1 = .fault := by decide
  rw [ho] at h2
  obtain ⟨e, rfl, he⟩ := h2
  simp only [MatchErr] at he
  subst he
  exact ⟨st', h1⟩

end Ruschm.C14Model

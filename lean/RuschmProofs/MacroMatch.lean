/-
Helper lemmas for C04 (2): the model matcher refines the declarative matcher `specMatch` on the
supported class of patterns.
-/
import RuschmProofs.MacroLemmas

namespace Ruschm.Macro
open Ruschm

/-! ## Structural induction on patterns (the type is nested through `List`) -/

theorem Pat.ind {P : Pat → Prop} {Q : List Pat → Prop}
    (underscore : P .underscore) (ellipsis : P .ellipsis)
    (pair : ∀ a d, P a → P d → P (.pair a d)) (nil : P .nil)
    (vec : ∀ xs, Q xs → P (.vec xs)) (ident : ∀ s, P (.ident s)) (prim : ∀ p, P (.prim p))
    (lnil : Q []) (lcons : ∀ x xs, P x → Q xs → Q (x :: xs)) :
    (∀ p, P p) ∧ (∀ ps, Q ps) :=
  ⟨fun p => Pat.rec (motive_1 := P) (motive_2 := Q) underscore ellipsis pair nil vec ident prim
      lnil lcons p,
   fun ps => Pat.rec_1 (motive_1 := P) (motive_2 := Q) underscore ellipsis pair nil vec ident prim
      lnil lcons ps⟩

/-! ## Spines of supported list patterns -/

theorem properElems_eq_spine (d : Datum) :
    properElems d = match d.spine.2 with | none => some d.spine.1 | some _ => none := by
  fun_induction Datum.spine d with
  | case1 a d l xs t h ih =>
    simp only [h] at ih
    simp only [properElems, ih]
    cases t <;> rfl
  | case2 => rfl
  | case3 d h1 h2 => cases d <;> simp_all [properElems]

theorem Pat.isEllTail_iff {p : Pat} : p.isEllTail = true ↔ p = .pair .ellipsis .nil := by
  unfold Pat.isEllTail; split <;> simp_all

theorem Pat.isEllOnly_iff {ps : List Pat} : Pat.isEllOnly ps = true ↔ ps = [.ellipsis] := by
  unfold Pat.isEllOnly; split <;> simp_all

theorem Pat.okTail_listy {lits p} (h : Pat.okTail lits p = true) : p.isListy = true := by
  cases p <;> simp_all [Pat.okTail, Pat.isListy]

theorem Pat.ok_okTail {lits p} (h : Pat.ok lits p = true) (hl : p.isListy = true) :
    Pat.okTail lits p = true := by
  cases p <;> simp_all [Pat.okTail, Pat.ok, Pat.isListy]

theorem Pat.ok_not_ellipsis {lits p} (h : Pat.ok lits p = true) : p.isEllipsis = false := by
  cases p <;> simp_all [Pat.ok, Pat.isEllipsis]

/-- a supported list pattern is a proper list of supported elements -/
theorem Pat.okTail_spine {lits} (p : Pat) (h : Pat.okTail lits p = true) :
    p.spine.2 = none ∧ Pat.okList lits p.spine.1 = true ∧
      Pat.isEllOnly p.spine.1 = p.isEllTail := by
  fun_induction Pat.spine p with
  | case1 a d xs t hs ih =>
    simp only [Pat.okTail] at h
    by_cases he : d.isEllTail = true
    · have := Pat.isEllTail_iff.1 he
      subst this
      simp [Pat.spine] at hs
      obtain ⟨rfl, rfl⟩ := hs
      simp [he] at h
      have := Pat.ok_not_ellipsis h.1.1
      cases a <;> simp_all [Pat.okList, Pat.isEllOnly, Pat.isEllTail, Pat.isEllipsis]
    · simp only [he, Bool.false_eq_true, if_false, Bool.and_eq_true] at h
      have ih' := ih h.2
      simp only [hs] at ih'
      obtain ⟨rfl, h2, h3⟩ := ih'
      refine ⟨rfl, ?_, ?_⟩
      · simp only [Pat.okList]
        rw [h3]; simp [he, h.1, h2]
      · have := Pat.ok_not_ellipsis h.1
        cases a <;> simp_all [Pat.isEllOnly, Pat.isEllTail, Pat.isEllipsis]
  | case2 => simp [Pat.okList, Pat.isEllOnly, Pat.isEllTail]
  | case3 p h1 h2 => cases p <;> simp_all [Pat.okTail]

/-- the cons-wise matching of a supported list pattern is the element-wise matching of its
elements against the elements of a proper list -/
theorem specMatch_listy {lits} (p : Pat) (h : Pat.okTail lits p = true) (d : Datum) :
    specMatch lits p d =
      match d.spine.2 with
      | none => specMatchList lits p.spine.1 d.spine.1
      | some _ => none := by
  fun_induction Pat.spine p generalizing d with
  | case1 a r xs t hs ih =>
    have hsp := Pat.okTail_spine (lits := lits) r
    simp only [Pat.okTail] at h
    by_cases he : r.isEllTail = true
    · have := Pat.isEllTail_iff.1 he
      subst this
      simp [Pat.spine] at hs
      obtain ⟨rfl, rfl⟩ := hs
      simp only [specMatch, he, if_true, specMatchList, Pat.isEllOnly, properElems_eq_spine]
      cases d.spine.2 <;> rfl
    · simp only [he, Bool.false_eq_true, if_false, Bool.and_eq_true] at h
      obtain ⟨-, -, h3⟩ := hsp h.2
      simp only [hs] at h3
      simp only [specMatch, he, Bool.false_eq_true, if_false, specMatchList, h3]
      cases d with
      | pair x y l =>
        simp only [ih h.2 y, hs, Datum.spine]
        cases y.spine.2 <;> simp
      | nil l => simp [Datum.spine]
      | prim q l => simp [Datum.spine]
      | sym q l => simp [Datum.spine]
      | vec q l => simp [Datum.spine]
  | case2 =>
    cases d <;> simp [specMatch, Datum.spine, specMatchList]
    rename_i x y l
    cases y.spine.2 <;> rfl
  | case3 p h1 h2 => cases p <;> simp_all [Pat.okTail]

/-! ## Shape of the bindings the declarative matcher yields -/

def Bindings.NonEmpty (β : Bindings) : Prop := ∀ e ∈ β, e.2 ≠ []
def Bindings.Single (β : Bindings) : Prop := ∀ e ∈ β, ∃ m, e.2 = [m]

theorem Bindings.Single.nonEmpty {β : Bindings} (h : β.Single) : β.NonEmpty := by
  intro e he; obtain ⟨m, hm⟩ := h e he; simp [hm]

theorem mapOpt_cons_some {α β : Type} {f : α → Option β} {x xs ys} :
    mapOpt f (x :: xs) = some ys ↔ ∃ y ys', f x = some y ∧ mapOpt f xs = some ys' ∧ ys = y :: ys' := by
  simp only [mapOpt]
  cases f x <;> cases mapOpt f xs <;> simp [eq_comm]

theorem mapOpt_cons_none {α β : Type} {f : α → Option β} {x xs} :
    mapOpt f (x :: xs) = none ↔ f x = none ∨ mapOpt f xs = none := by
  simp only [mapOpt]
  cases f x <;> cases mapOpt f xs <;> simp

@[simp] theorem zipB_keys {β β' : Bindings} : (zipB β β').map Prod.fst = β.map Prod.fst := by
  simp [zipB, Function.comp_def]

theorem foldl_zipB_keys {β : Bindings} {βs : List Bindings} :
    (βs.foldl zipB β).map Prod.fst = β.map Prod.fst := by
  induction βs generalizing β with
  | nil => rfl
  | cons b bs ih => simp [ih]

theorem zipB_nonEmpty {β β' : Bindings} (h : β.NonEmpty) : (zipB β β').NonEmpty := by
  intro e he
  simp only [zipB, List.mem_map] at he
  obtain ⟨e', he', rfl⟩ := he
  have := h e' he'
  simp [this]

theorem foldl_zipB_nonEmpty {β : Bindings} {βs : List Bindings} (h : β.NonEmpty) :
    (βs.foldl zipB β).NonEmpty := by
  induction βs generalizing β with
  | nil => exact h
  | cons b bs ih => exact ih (zipB_nonEmpty h)

theorem specRun_some {m : Datum → Option Bindings} {ds β} (h : specRun m (some ds) = some β) :
    ∃ d1 ds' β1 βs, ds = d1 :: ds' ∧ m d1 = some β1 ∧ mapOpt m ds' = some βs ∧
      β = βs.foldl zipB β1 := by
  simp only [specRun, Option.bind_eq_some_iff] at h
  obtain ⟨bs, h1, h2⟩ := h
  cases ds with
  | nil => simp [mapOpt] at h1; subst h1; simp [combine] at h2
  | cons d1 ds' =>
    obtain ⟨y, ys', hy, hys, rfl⟩ := mapOpt_cons_some.1 h1
    simp only [combine, Option.some.injEq] at h2
    exact ⟨d1, ds', y, ys', rfl, hy, hys, h2.symm⟩

theorem specMatch_shape_aux (lits : List String) :
    (∀ p, ∀ d β, specMatch lits p d = some β →
      β.map Prod.fst = p.vars lits ∧ β.NonEmpty ∧ (p.ellFree = true → β.Single)) ∧
    (∀ ps, ∀ ds β, specMatchList lits ps ds = some β →
      β.map Prod.fst = Pat.varsList lits ps ∧ β.NonEmpty ∧
        (Pat.ellFreeList ps = true → β.Single)) := by
  have hnil : ∀ {c : Prop}, (([] : Bindings).map Prod.fst = []) ∧ Bindings.NonEmpty [] ∧
      (c → Bindings.Single []) :=
    ⟨rfl, (by intro e h; cases h), (by intro _ e h; cases h)⟩
  have happ : ∀ {β₁ β₂ : Bindings} {v1 v2 : List String} {c1 c2 : Prop},
      (β₁.map Prod.fst = v1 ∧ β₁.NonEmpty ∧ (c1 → β₁.Single)) →
      (β₂.map Prod.fst = v2 ∧ β₂.NonEmpty ∧ (c2 → β₂.Single)) →
      ((β₁ ++ β₂).map Prod.fst = v1 ++ v2 ∧ (β₁ ++ β₂).NonEmpty ∧
        (c1 ∧ c2 → (β₁ ++ β₂).Single)) := by
    intro β₁ β₂ v1 v2 c1 c2 ⟨a1, a2, a3⟩ ⟨b1, b2, b3⟩
    refine ⟨by simp [a1, b1], ?_, ?_⟩
    · intro e he
      rcases List.mem_append.1 he with h | h
      · exact a2 e h
      · exact b2 e h
    · intro ⟨h1, h2⟩ e he
      rcases List.mem_append.1 he with h | h
      · exact a3 h1 e h
      · exact b3 h2 e h
  have hrun : ∀ {a : Pat} {ds β},
      (∀ d β, specMatch lits a d = some β →
        β.map Prod.fst = a.vars lits ∧ β.NonEmpty ∧ (a.ellFree = true → β.Single)) →
      specRun (specMatch lits a) (some ds) = some β →
      β.map Prod.fst = a.vars lits ∧ β.NonEmpty := by
    intro a ds β iha h
    obtain ⟨d1, ds', β1, βs, rfl, h1, -, rfl⟩ := specRun_some h
    obtain ⟨k1, k2, -⟩ := iha _ _ h1
    exact ⟨by rw [foldl_zipB_keys, k1], foldl_zipB_nonEmpty k2⟩
  apply Pat.ind
  · intro d β h; simp [specMatch] at h; subst h; simpa [Pat.vars] using hnil
  · intro d β h; simp [specMatch] at h
  · intro a r iha ihr d β h
    simp only [specMatch] at h
    by_cases he : r.isEllTail = true
    · have := Pat.isEllTail_iff.1 he
      subst this
      simp only [he, if_true] at h
      rw [properElems_eq_spine] at h
      cases hd : d.spine.2 with
      | some _ => simp [hd, specRun] at h
      | none =>
        simp only [hd] at h
        obtain ⟨k1, k2⟩ := hrun iha h
        exact ⟨by simpa [Pat.vars] using k1, k2, by simp [Pat.ellFree]⟩
    · simp only [he, Bool.false_eq_true, if_false] at h
      cases d <;> simp at h
      rename_i x y l
      cases h1 : specMatch lits a x <;> cases h2 : specMatch lits r y <;> simp [h1, h2] at h
      subst h
      have := happ (iha _ _ h1) (ihr _ _ h2)
      simpa [Pat.vars, Pat.ellFree] using this
  · intro d β h; cases d <;> simp [specMatch] at h; subst h; simpa [Pat.vars] using hnil
  · intro xs ih d β h
    cases d <;> simp [specMatch] at h
    simpa [Pat.vars, Pat.ellFree] using ih _ _ h
  · intro v d β h
    simp only [specMatch] at h
    cases hv : lits.contains v
    · simp only [hv, Bool.false_eq_true, if_false, Option.some.injEq] at h; subst h
      simp only [Pat.vars, hv]
      refine ⟨by simp, ?_, fun _ => ?_⟩
      · intro e he; simp at he; subst he; simp
      · intro e he; simp at he; subst he; exact ⟨d, rfl⟩
    · simp only [hv, if_true] at h
      have : β = [] := by
        cases d <;> simp at h
        exact h.2
      subst this
      simp only [Pat.vars, hv, if_true]
      exact hnil
  · intro q d β h
    have : β = [] := by
      cases d <;> simp [specMatch] at h
      exact h.2
    subst this
    simpa [Pat.vars] using hnil
  · intro ds β h
    cases ds <;> simp [specMatchList] at h
    subst h; simpa [Pat.varsList] using hnil
  · intro p ps ihp ihps ds β h
    simp only [specMatchList] at h
    by_cases he : Pat.isEllOnly ps = true
    · have := Pat.isEllOnly_iff.1 he
      subst this
      simp only [he, if_true] at h
      obtain ⟨k1, k2⟩ := hrun ihp h
      exact ⟨by simpa [Pat.varsList, Pat.vars] using k1, k2, by simp [Pat.ellFreeList, Pat.ellFree]⟩
    · simp only [he, Bool.false_eq_true, if_false] at h
      cases ds <;> simp at h
      rename_i x y
      cases h1 : specMatch lits p x <;> cases h2 : specMatchList lits ps y <;> simp [h1, h2] at h
      subst h
      have := happ (ihp _ _ h1) (ihps _ _ h2)
      simpa [Pat.varsList, Pat.ellFreeList] using this

theorem specMatch_keys {lits p d β} (h : specMatch lits p d = some β) :
    β.map Prod.fst = p.vars lits := ((specMatch_shape_aux lits).1 p d β h).1

theorem specMatch_nonEmpty {lits p d β} (h : specMatch lits p d = some β) : β.NonEmpty :=
  ((specMatch_shape_aux lits).1 p d β h).2.1

theorem specMatch_single {lits p d β} (h : specMatch lits p d = some β)
    (he : p.ellFree = true) : β.Single := ((specMatch_shape_aux lits).1 p d β h).2.2 he

theorem specMatchList_keys {lits ps ds β} (h : specMatchList lits ps ds = some β) :
    β.map Prod.fst = Pat.varsList lits ps := ((specMatch_shape_aux lits).2 ps ds β h).1

theorem specMatchList_nonEmpty {lits ps ds β} (h : specMatchList lits ps ds = some β) :
    β.NonEmpty := ((specMatch_shape_aux lits).2 ps ds β h).2.1

/-! ## Tables: fresh inserts append, pushes extend the item sequences -/

@[simp] theorem Bindings.toSubst_nil : Bindings.toSubst [] = [] := rfl

@[simp] theorem Bindings.toSubst_append {β₁ β₂ : Bindings} :
    Bindings.toSubst (β₁ ++ β₂) = β₁.toSubst ++ β₂.toSubst := by simp [Bindings.toSubst]

@[simp] theorem Bindings.keys_toSubst {β : Bindings} :
    Subst.keys β.toSubst = β.map Prod.fst := by
  simp [Subst.keys, Bindings.toSubst, Function.comp_def]

theorem Bindings.toBindings_toSubst {β : Bindings} (h : β.NonEmpty) :
    β.toSubst.toBindings = β := by
  simp only [Subst.toBindings, Bindings.toSubst, List.map_map]
  conv => rhs; rw [← List.map_id β]
  apply List.map_congr_left
  intro e he
  have := h e he
  obtain ⟨v, ms⟩ := e
  cases ms with
  | nil => exact absurd rfl this
  | cons m ms => rfl

theorem Subst.insert_fresh {σ : Subst} {v x} (h : v ∉ Subst.keys σ) :
    σ.insert v x = σ ++ [(v, x)] := by
  induction σ with
  | nil => rfl
  | cons e σ ih =>
    obtain ⟨k, y⟩ := e
    simp only [Subst.keys_cons, List.mem_cons, not_or] at h
    simp only [Subst.insert]
    rw [if_neg (fun hk => h.1 hk.symm), ih h.2]
    rfl

/-- one more item for the variable `v` -/
def Subst.pushed (A : Subst) (v : String) (m : Datum) : Subst :=
  A.map fun e => if e.1 = v then (e.1, e.2.1, e.2.2 ++ [m]) else e

@[simp] theorem Subst.keys_pushed {A : Subst} {v m} : Subst.keys (A.pushed v m) = Subst.keys A := by
  simp only [Subst.keys, Subst.pushed, List.map_map]
  congr 1; funext e; simp only [Function.comp]; split <;> rfl

theorem Subst.push?_pushed {A : Subst} {v m} (hv : v ∈ Subst.keys A) (hn : (Subst.keys A).Nodup) :
    A.push? v m = some (A.pushed v m) := by
  induction A with
  | nil => simp at hv
  | cons e A ih =>
    obtain ⟨k, f, more⟩ := e
    simp only [Subst.keys_cons, List.nodup_cons] at hn
    simp only [Subst.push?, Subst.pushed, List.map_cons]
    by_cases hk : k = v
    · subst hk
      simp only [if_true, Option.some.injEq, List.cons.injEq, true_and]
      conv => lhs; rw [← List.map_id A]
      apply List.map_congr_left -- entries with another key are unchanged
      intro e he
      have : e.1 ≠ k := by
        intro h; apply hn.1; rw [← h]; exact List.mem_map_of_mem (f := (·.1)) he
      simp [this]
    · simp only [hk, if_false]
      simp only [Subst.keys_cons, List.mem_cons] at hv
      have hv' : v ∈ Subst.keys A := by
        rcases hv with h | h
        · exact absurd h.symm hk
        · exact h
      rw [ih hv' hn.2]
      rfl

theorem Subst.push?_append {σ0 A : Subst} {v m} (h0 : v ∉ Subst.keys σ0) :
    (σ0 ++ A).push? v m = (A.push? v m).map (σ0 ++ ·) := by
  induction σ0 with
  | nil => cases h : A.push? v m <;> simp [h]
  | cons e σ0 ih =>
    obtain ⟨k, f, more⟩ := e
    simp only [Subst.keys_cons, List.mem_cons, not_or] at h0
    simp only [List.cons_append, Subst.push?]
    rw [if_neg (fun hk => h0.1 hk.symm), ih h0.2]
    cases A.push? v m <;> rfl

/-- the further items the inner table `τ` holds for the variable `k` -/
def Subst.collect (τ : Subst) (k : String) : List Datum :=
  τ.filterMap fun e => if e.1 = k then some e.2.1 else none

theorem pushAll_append {τ σ0 A : Subst}
    (hsub : ∀ k ∈ Subst.keys τ, k ∈ Subst.keys A) (hn : (Subst.keys A).Nodup)
    (hdis : ∀ k ∈ Subst.keys A, k ∉ Subst.keys σ0) :
    pushAll τ (σ0 ++ A) =
      some (σ0 ++ A.map fun e => (e.1, e.2.1, e.2.2 ++ τ.collect e.1)) := by
  induction τ generalizing A with
  | nil => simp [pushAll_nil, Subst.collect]
  | cons e τ ih =>
    obtain ⟨v, m, r⟩ := e
    have hv : v ∈ Subst.keys A := hsub v (by simp)
    rw [pushAll_cons, Subst.push?_append (hdis v hv), Subst.push?_pushed hv hn]
    simp only [Option.map_some, Option.bind_some]
    rw [ih (A := A.pushed v m)]
    · simp only [Subst.pushed, List.map_map, Option.some.injEq, List.append_cancel_left_eq]
      apply List.map_congr_left
      intro e he
      simp only [Function.comp, Subst.collect, List.filterMap_cons]
      by_cases hk : e.1 = v
      · simp [hk]
      · have : ¬ v = e.1 := fun h => hk h.symm
        simp [hk, this]
    · intro k hk; rw [Subst.keys_pushed]; exact hsub k (by simp [hk])
    · rw [Subst.keys_pushed]; exact hn
    · intro k hk; rw [Subst.keys_pushed] at hk; exact hdis k hk

theorem Subst.collect_cons {v m r} {τ : Subst} {k} :
    Subst.collect ((v, m, r) :: τ) k = if v = k then m :: Subst.collect τ k else Subst.collect τ k := by
  simp only [Subst.collect, List.filterMap_cons]
  by_cases h : v = k <;> simp [h]

theorem Subst.collect_fresh {τ : Subst} {k} (h : k ∉ Subst.keys τ) : Subst.collect τ k = [] := by
  induction τ with
  | nil => rfl
  | cons e τ ih =>
    obtain ⟨v, m, r⟩ := e
    simp only [Subst.keys_cons, List.mem_cons, not_or] at h
    rw [Subst.collect_cons, if_neg (fun hv => h.1 hv.symm), ih h.2]

theorem Subst.collect_toSubst {β : Bindings} (hs : β.Single) (hn : (β.map Prod.fst).Nodup) (k) :
    Subst.collect β.toSubst k = (β.lookup k).getD [] := by
  induction β with
  | nil => rfl
  | cons e β ih =>
    obtain ⟨v, ms⟩ := e
    obtain ⟨m, hm⟩ := hs (v, ms) (by simp)
    simp only at hm; subst hm
    simp only [List.map_cons, List.nodup_cons] at hn
    have ih' := ih (fun e he => hs e (by simp [he])) hn.2
    have hts : Bindings.toSubst ((v, [m]) :: β) = (v, m, []) :: Bindings.toSubst β := rfl
    rw [hts, Subst.collect_cons, List.lookup_cons]
    by_cases hk : v = k
    · subst hk
      have h1 : (v == v) = true := by simp
      rw [if_pos rfl, Subst.collect_fresh (by simpa using hn.1), h1]
      rfl
    · have : (k == v) = false := by simp [beq_eq_false_iff_ne, Ne.symm hk]
      rw [if_neg hk, this]
      exact ih'

/-- **the push loop**: pushing the (single) matches of one more item extends every item sequence
of the run by that item's match -/
theorem pushAll_toSubst {σ0 : Subst} {acc β' : Bindings}
    (hs : β'.Single) (hn' : (β'.map Prod.fst).Nodup) (hne : acc.NonEmpty)
    (hkeys : β'.map Prod.fst = acc.map Prod.fst)
    (hdis : ∀ k ∈ acc.map Prod.fst, k ∉ Subst.keys σ0) :
    pushAll β'.toSubst (σ0 ++ acc.toSubst) = some (σ0 ++ (zipB acc β').toSubst) := by
  rw [pushAll_append]
  · simp only [Option.some.injEq, List.append_cancel_left_eq]
    simp only [Subst.collect_toSubst hs hn']
    simp only [Bindings.toSubst, zipB, List.map_map]
    apply List.map_congr_left
    intro e he
    have hne' := hne e he
    obtain ⟨k, ms⟩ := e
    cases ms with
    | nil => exact absurd rfl hne'
    | cons m ms => rfl
  · simp [hkeys]
  · simpa [← hkeys] using hn'
  · simpa using hdis

/-! ## The refinement: model matcher ⊑ declarative matcher -/

/-- the model's result `r` agrees with the expected outcome `o` (`some σ'`: success with table
`σ'`; `none`: failure, whatever the table), unless the fuel ran out -/
def Agrees (r : Except SErr (Bool × Subst)) (o : Option Subst) : Prop :=
  r = .error (.fuel, none) ∨
    match o with
    | some σ' => r = .ok (true, σ')
    | none => ∃ σ', r = .ok (false, σ')

theorem Agrees.fuel {o} : Agrees (.error (.fuel, none)) o := .inl rfl
theorem Agrees.ofSome {σ'} : Agrees (.ok (true, σ')) (some σ') := .inr rfl
theorem Agrees.ofNone {σ'} : Agrees (.ok (false, σ')) none := .inr ⟨σ', rfl⟩

theorem Agrees.cases {r o} (h : Agrees r o) :
    r = .error (.fuel, none) ∨ (∃ σ', o = some σ' ∧ r = .ok (true, σ')) ∨
      (o = none ∧ ∃ σ', r = .ok (false, σ')) := by
  rcases h with h | h
  · exact .inl h
  · cases o with
    | some σ' => exact .inr (.inl ⟨σ', rfl, h⟩)
    | none => exact .inr (.inr ⟨rfl, h⟩)

theorem Datum.spine_atom {d : Datum} (h : d.isListy = false) : d.spine = ([], some d) := by
  cases d <;> simp_all [Datum.isListy, Datum.spine]

theorem nextMM_not_lit {lits p} (h : p.isLit lits = false) : nextMM lits p = some p := by
  cases p <;> simp_all [nextMM, Pat.isLit]

theorem specRun_cons_some {m : Datum → Option Bindings} {d ds β} (h : m d = some β) :
    specRun m (some (d :: ds)) = (mapOpt m ds).map (fun βs => βs.foldl zipB β) := by
  simp only [specRun, mapOpt, h]
  cases mapOpt m ds <;> simp [combine]

theorem specRun_cons_none {m : Datum → Option Bindings} {d ds} (h : m d = none) :
    specRun m (some (d :: ds)) = none := by
  simp [specRun, mapOpt, h]

theorem match_spec_aux (lits : List String) : ∀ n,
    (∀ p d σ, Pat.ok lits p = true → (p.vars lits).Nodup → (∀ v ∈ p.vars lits, v ∉ Subst.keys σ) →
      Agrees (matchDatum n lits p d σ) ((specMatch lits p d).map (σ ++ ·.toSubst))) ∧
    (∀ ps ds mm σ, Pat.okList lits ps = true → (Pat.varsList lits ps).Nodup →
      (∀ v ∈ Pat.varsList lits ps, v ∉ Subst.keys σ) →
      Agrees (matchStream n lits ps ds mm σ) ((specMatchList lits ps ds).map (σ ++ ·.toSubst))) ∧
    (∀ q ds σ0 (acc : Bindings), Pat.ok lits q = true → q.ellFree = true → (q.vars lits).Nodup →
      acc.map Prod.fst = q.vars lits → acc.NonEmpty → (∀ v ∈ q.vars lits, v ∉ Subst.keys σ0) →
      Agrees (matchStream n lits [.ellipsis] ds (some q) (σ0 ++ acc.toSubst))
        ((mapOpt (specMatch lits q) ds).map (fun βs => σ0 ++ (βs.foldl zipB acc).toSubst))) := by
  intro n
  induction n with
  | zero => exact ⟨fun _ _ _ _ _ _ => by simp [Agrees], fun _ _ _ _ _ _ _ => by simp [Agrees],
      fun _ _ _ _ _ _ _ _ _ _ => by simp [Agrees]⟩
  | succ n ih =>
    obtain ⟨ihD, ihS, ihR⟩ := ih
    refine ⟨?_, ?_, ?_⟩
    · -- matchDatum
      intro p d σ hok hnd hdis
      cases hl : p.isListy
      · cases p <;> simp [Pat.isListy] at hl
        · -- underscore
          simp only [matchDatum_underscore, specMatch, Option.map_some, Bindings.toSubst_nil,
            List.append_nil]
          exact Agrees.ofSome
        · simp [Pat.ok] at hok
        · -- vector
          rename_i ps
          rw [matchDatum_vec]
          cases d <;> simp only [specMatch, Option.map_none] <;> try exact Agrees.ofNone
          exact ihS _ _ _ _ (by simpa [Pat.ok] using hok) (by simpa [Pat.vars] using hnd)
            (by simpa [Pat.vars] using hdis)
        · -- identifier
          rename_i v
          cases hv : lits.contains v
          · rw [matchDatum_var hv, Subst.insert_fresh (hdis v (by simp only [Pat.vars, hv, Bool.false_eq_true, if_false, List.mem_singleton]))]
            simp only [specMatch, hv, Bool.false_eq_true, if_false, Option.map_some]
            exact Agrees.ofSome
          · rw [matchDatum_lit hv]
            simp only [specMatch, hv, if_true]
            cases d <;> simp only [Option.map_none] <;> try exact Agrees.ofNone
            rename_i s l
            by_cases hs : s = v
            · simp only [hs, beq_self_eq_true, if_true, Option.map_some, Bindings.toSubst_nil,
                List.append_nil]
              exact Agrees.ofSome
            · have : (s == v) = false := by simp [hs]
              simp only [this, hs, if_false, Option.map_none]
              exact Agrees.ofNone
        · -- literal datum
          rename_i a
          rw [matchDatum_prim]
          simp only [specMatch]
          cases d <;> simp only [Option.map_none] <;> try exact Agrees.ofNone
          rename_i b l
          by_cases hs : a = b
          · simp only [hs, beq_self_eq_true, if_true, Option.map_some, Bindings.toSubst_nil,
              List.append_nil]
            exact Agrees.ofSome
          · have : (a == b) = false := by simp [hs]
            simp only [this, hs, if_false, Option.map_none]
            exact Agrees.ofNone
      · -- list pattern
        have hT := Pat.ok_okTail hok hl
        obtain ⟨hs2, hs1, -⟩ := Pat.okTail_spine p hT
        have hv := Pat.vars_spine lits p
        simp only [hs2, List.append_nil] at hv
        rw [specMatch_listy p hT]
        cases hd : d.isListy
        · rw [matchDatum_listy_atom hl hd, Datum.spine_atom hd]
          exact Agrees.ofNone
        · rw [matchDatum_listy hl hd, hs2]
          have := ihS p.spine.1 d.spine.1 none σ hs1 (hv ▸ hnd) (hv ▸ hdis)
          rcases this.cases with h | ⟨σ', h1, h2⟩ | ⟨h1, σ', h2⟩
          · rw [h]; exact Agrees.fuel
          · rw [h2]
            cases hdt : d.spine.2 with
            | none => simp only [h1]; exact Agrees.ofSome
            | some t => exact Agrees.ofNone
          · rw [h2]
            cases hdt : d.spine.2 with
            | none => simp only [h1]; exact Agrees.ofNone
            | some t => exact Agrees.ofNone
    · -- matchStream on the elements of a supported list or vector pattern
      intro ps ds mm σ hok hnd hdis
      cases ps with
      | nil =>
        cases ds with
        | nil =>
          simp only [matchStream_nil_nil, specMatchList, Option.map_some, Bindings.toSubst_nil,
            List.append_nil]
          exact Agrees.ofSome
        | cons d ds => simp only [matchStream_nil_cons, specMatchList]; exact Agrees.ofNone
      | cons p ps' =>
        simp only [Pat.okList] at hok
        simp only [Pat.varsList] at hnd hdis
        by_cases he : Pat.isEllOnly ps' = true
        · -- `p ...`
          have := Pat.isEllOnly_iff.1 he
          subst this
          simp only [he, if_true, Bool.and_eq_true, Bool.not_eq_true'] at hok
          obtain ⟨⟨hpok, hpef⟩, hplit⟩ := hok
          have hp := Pat.ok_not_ellipsis hpok
          have hvl : p.vars lits ++ Pat.varsList lits [Pat.ellipsis] = p.vars lits := by
            simp [Pat.varsList, Pat.vars]
          rw [hvl] at hnd hdis
          simp only [specMatchList, he, if_true]
          cases ds with
          | nil =>
            rw [matchStream_cons_nil_ne hp]
            simp only [specRun, mapOpt, combine, Option.bind_some, Option.map_none]
            exact Agrees.ofNone
          | cons d ds' =>
            rw [matchStream_step_ne hp]
            rcases (ihD p d σ hpok hnd hdis).cases with h | ⟨σ', h1, h2⟩ | ⟨h1, σ', h2⟩
            · rw [h]; exact Agrees.fuel
            · rw [h2]
              simp only [Option.map_eq_some_iff] at h1
              obtain ⟨β, hβ, rfl⟩ := h1
              simp only [nextMM_not_lit hplit, specRun_cons_some hβ, Option.map_map]
              exact ihR p ds' σ β hpok hpef hnd (specMatch_keys hβ) (specMatch_nonEmpty hβ) hdis
            · rw [h2]
              simp only [Option.map_eq_none_iff] at h1
              simp only [specRun_cons_none h1, Option.map_none]
              exact Agrees.ofNone
        · -- a plain element
          simp only [he, Bool.false_eq_true, if_false, Bool.and_eq_true] at hok
          obtain ⟨hpok, hpsok⟩ := hok
          have hp := Pat.ok_not_ellipsis hpok
          simp only [specMatchList, he, Bool.false_eq_true, if_false]
          cases ds with
          | nil =>
            rw [matchStream_cons_nil_ne hp]
            exact Agrees.ofNone
          | cons d ds' =>
            rw [matchStream_step_ne hp]
            rw [List.nodup_append] at hnd
            obtain ⟨hnd1, hnd2, hnd3⟩ := hnd
            rcases (ihD p d σ hpok hnd1 (fun v hv => hdis v (by simp [hv]))).cases with
              h | ⟨σ', h1, h2⟩ | ⟨h1, σ', h2⟩
            · rw [h]; exact Agrees.fuel
            · rw [h2]
              simp only [Option.map_eq_some_iff] at h1
              obtain ⟨β, hβ, rfl⟩ := h1
              simp only [hβ]
              have := ihS ps' ds' (nextMM lits p) (σ ++ β.toSubst) hpsok hnd2 (by
                intro v hv
                simp only [Subst.keys_append, Bindings.keys_toSubst, specMatch_keys hβ,
                  List.mem_append, not_or]
                exact ⟨hdis v (by simp [hv]), fun h => hnd3 v h v hv rfl⟩)
              cases hps : specMatchList lits ps' ds' with
              | none => simpa [hps] using this
              | some β₂ => simpa [hps, List.append_assoc] using this
            · rw [h2]
              simp only [Option.map_eq_none_iff] at h1
              simp only [h1, Option.map_none]
              exact Agrees.ofNone
    · -- the run under an ellipsis
      intro q ds σ0 acc hq hef hnd hkeys hne hdis
      cases ds with
      | nil =>
        rw [matchStream_ell_nil_some]
        cases n with
        | zero => rw [matchStream_zero]; exact Agrees.fuel
        | succ m =>
          simp only [matchStream_nil_nil, mapOpt, Option.map_some, List.foldl_nil]
          exact Agrees.ofSome
      | cons d ds' =>
        cases n with
        | zero => rw [matchStream_ell_one]; exact Agrees.fuel
        | succ m =>
          rw [matchStream_step_ell]
          rcases (ihD q d [] hq hnd (fun v _ => by simp)).cases with
            h | ⟨σ', h1, h2⟩ | ⟨h1, σ', h2⟩
          · rw [h]; exact Agrees.fuel
          · rw [h2]
            simp only [Option.map_eq_some_iff, List.nil_append] at h1
            obtain ⟨β, hβ, rfl⟩ := h1
            have hkβ := specMatch_keys hβ
            simp only []
            rw [pushAll_toSubst (specMatch_single hβ hef) (hkβ ▸ hnd) hne (hkβ.trans hkeys.symm)
              (hkeys ▸ hdis)]
            simp only []
            have := ihR q ds' σ0 (zipB acc β) hq hef hnd (by simpa using hkeys)
              (zipB_nonEmpty hne) hdis
            have hmo : mapOpt (specMatch lits q) (d :: ds') =
                (mapOpt (specMatch lits q) ds').map (β :: ·) := by
              simp only [mapOpt, hβ]; cases mapOpt (specMatch lits q) ds' <;> rfl
            rw [hmo]
            rcases this.cases with h | ⟨σ', h1, h2⟩ | ⟨h1, σ', h2⟩
            · rw [h]; exact Agrees.fuel
            · rw [h2]
              simp only [Option.map_eq_some_iff] at h1
              obtain ⟨βs, hβs, rfl⟩ := h1
              simp only [hβs, Option.map_some, List.foldl_cons]
              exact Agrees.ofSome
            · rw [h2]
              simp only [Option.map_eq_none_iff] at h1
              simp only [h1, Option.map_none]
              cases ds' with
              | nil => simp [mapOpt] at h1
              | cons d' ds'' => simp only [matchStream_nil_cons]; exact Agrees.ofNone
          · rw [h2]
            simp only [Option.map_eq_none_iff] at h1
            simp only [mapOpt, h1, Option.map_none]
            exact Agrees.ofNone

/-- **the model matcher refines the declarative matcher** on supported patterns, starting from
the empty table, for all literals and all data, with fuel `≥ p.size + d.size` -/
theorem matchDatum_eq_spec {lits n p d} (hs : Supported lits p = true) (hf : matchBound p d ≤ n) :
    match specMatch lits p d with
    | some β => matchDatum n lits p d [] = .ok (true, β.toSubst)
    | none => ∃ σ', matchDatum n lits p d [] = .ok (false, σ') := by
  simp only [Supported, Bool.and_eq_true, decide_eq_true_eq] at hs
  have := (match_spec_aux lits n).1 p d [] hs.1 hs.2 (fun v _ => by simp)
  rcases this with h | h
  · exact absurd h (matchDatum_fuel hf)
  · cases hsp : specMatch lits p d with
    | none => simpa [hsp] using h
    | some β => simpa [hsp] using h

/-! ## Lists of patterns -/

@[simp] theorem Pat.spine_ofList (ps : List Pat) : (Pat.ofList ps).spine = (ps, none) := by
  induction ps with
  | nil => rfl
  | cons p ps ih => simp [Pat.ofList, Pat.spine, ih]

theorem Pat.isListy_ofList (ps : List Pat) : (Pat.ofList ps).isListy = true := by
  cases ps <;> rfl

/-- a supported list pattern against any datum: its elements against the elements of a proper
list -/
theorem specMatch_ofList {lits ps} (h : Pat.ok lits (Pat.ofList ps) = true) (d : Datum) :
    specMatch lits (Pat.ofList ps) d =
      match properElems d with
      | some ds => specMatchList lits ps ds
      | none => none := by
  rw [specMatch_listy _ (Pat.ok_okTail h (Pat.isListy_ofList ps)), properElems_eq_spine]
  cases d.spine.2 <;> simp

theorem specMatchList_elementwise {lits ps} (h : ∀ p ∈ ps, p.isEllipsis = false) (ds : List Datum) :
    specMatchList lits ps ds = elementwise (specMatch lits) ps ds := by
  induction ps generalizing ds with
  | nil => cases ds <;> rfl
  | cons p ps ih =>
    have he : Pat.isEllOnly ps = false := by
      cases hps : Pat.isEllOnly ps
      · rfl
      · have := Pat.isEllOnly_iff.1 hps
        subst this
        have := h .ellipsis (by simp)
        simp [Pat.isEllipsis] at this
    simp only [specMatchList, he, Bool.false_eq_true, if_false]
    cases ds with
    | nil => rfl
    | cons d ds => simp only [elementwise, ih (fun p hp => h p (by simp [hp]))]

/-! small data for the non-vacuity examples -/
namespace Ex
def num (n : Int) : Datum := .prim (.int n) none
def sy (s : String) : Datum := .sym s none
def lst (xs : List Datum) : Datum := Datum.ofList none xs
/-- a list pattern -/
abbrev plist : List Pat → Pat := Pat.ofList
end Ex

end Ruschm.Macro

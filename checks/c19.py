"""C19 — interpreter instances are isolated from one another (partial: the absence of shared Rust
globals is an INVENTORY, not a theorem).
Theorems: lean/RuschmProofs/C19.lean about RuschmModel/Front.lean (`World`): a step on instance i
changes no component of instance j, every interleaving gives B the results B gets alone, creating
an instance always succeeds. Tie: (1) inventory of process/thread-global state in /repo/src
(static, thread_local!, lazy_static!, OnceCell, atomics, locks) compared with the committed
inventory/globals.json — a new global re-opens the obligation; (2) random program pairs with
colliding names, macro definitions (incl. redefinitions of bundled forms), imports and failing
operations, interleaved over two instances ON ONE THREAD with instance creation at random points,
real interpreter vs model. Oracle on the implementation alone: each instance's results equal the
results of its program run alone on a fresh thread."""
import json, os, random, subprocess, sys
from . import common as C, proggen as P, progrun as R

PROP = "C19"
MODULES = ["RuschmProofs.C19"]
MACROS = [
    "(define-syntax cond (syntax-rules () ((cond x ...) 'hijacked)))",
    "(define-syntax let (syntax-rules () ((let x ...) 'hijacked-let)))",
    "(define-syntax my-m (syntax-rules () ((my-m a) (+ a 1))))",
    "(define-syntax my-m (syntax-rules () ((my-m a) (* a 100))))",
    "(define-syntax and (syntax-rules () ((and x ...) 0)))",
    "(define-syntax begin (syntax-rules () ((begin x ...) 'no-begin)))",
    # pattern variables named like the identifiers the bundled templates introduce; uses below that match NO rule after
    # having bound some of them
    "(define-syntax sw (syntax-rules () ((sw x temp) (+ x temp))))",
    "(define-syntax pk (syntax-rules () ((pk atom-key x temp) (list atom-key x temp)) ((pk (x)) x)))",
    # definitions with an ellipsis, with a CUSTOM ellipsis identifier (accepted and REJECTED ones: the keyword position spelled
    # `_` is rejected by this implementation), and other rejected definitions: a definition that fails leaves nothing behind
    "(define-syntax my-list (syntax-rules () ((my-list a ...) (list a ...))))",
    "(define-syntax cl (syntax-rules ::: () ((cl a :::) (list a :::))))",
    "(define-syntax cl2 (syntax-rules ::: () ((_ a :::) (list a :::))))",
    "(define-syntax cl3 (syntax-rules dots (k) ((_ a dots) 1)))",
    "(define-syntax bad1 (syntax-rules () ((_ a ...) (list a ...))))",
    "(define-syntax bad2 (syntax-rules () ((bad2 a) (5 ...))))",
    "(define-syntax bad3 (syntax-rules ::: () ((bad3 a) (a . :::)) 7))",
    # a define-syntax that is the WHOLE EXPANSION of a bundled derived form (the single operand of and / or, a lone cond test, the
    # body of begin / when): the keyword belongs to the instance that evaluated the form, like any other
    "(or (define-syntax twice (syntax-rules () ((twice q) 'hijacked))))",
    "(and (define-syntax f (syntax-rules () ((f) 'hijacked-f))))",
    "(cond ((define-syntax shared (syntax-rules () ((shared) 'hijacked-shared)))))",
    "(begin (define-syntax my-m (syntax-rules () ((my-m a) 'begin-made))))",
    "(when #t (define-syntax twice (syntax-rules () ((twice q) 'when-made))))",
    "(and (define-syntax cond (syntax-rules ())))",
]
USES = ["(cond (#f 1) (else 2))", "(let ((q 1)) (+ q 1))", "(my-m 5)", "(and 1 2)", "(begin 1 2)", "(or #f 3)", "(case 1 ((1) 'one) (else 'other))",
        "(when #t 1 2)", "(map (lambda (q) (* q q)) '(1 2 3))", "(append '(1) '(2))",
        "(sw 5)", "(sw 1 2)", "(sw 7 8 9)", "(pk 1 2)", "(pk (3))", "(pk 4 5 6)", "(my-m)", "(my-m 1 2)",
        "(my-list 1 2 3)", "(my-list)", "(cl 1 2)", "(cl2 1)", "(my-list 4)", "(cl 1 2 3)",
        "(or #f 3)", "(cond (#f 1) (2 => (lambda (v) (* v 10))))", "(case (+ 1 0) ((1) 'one) (else 'other))", "(or #f #f 4)"]
OTHER = ["#!fold-case", "(define Foo 11)", "Foo", "(eqv? 'Abc 'abc)", "(define foo 22)", "(list 'X 'x)", "#!no-fold-case", "(display #!fold-case 1)",
         "(define (twice q) (* 2 q))", "(twice 21)", "(twice 4)", "(define shared 1)", "(set! shared (+ shared 1))", "shared", "(define (f) 'mine)", "(f)", "(car '())", "(undefined-zz)",
         "(import (scheme base))", "(import (nonexistent lib))", "(define car cdr)", "(car '(1 2))", "(set! undefined-yy 1)",
         "(define v (vector 1 2))", "(vector-set! v 0 'x)", "v", "(1 2", "(define-syntax broken (syntax-rules", ")"]


def lib_episode(rng):
    """a library of the SAME NAME in every program, with its own body and export list: registered on the program's own
    instance, imported first (import declarations precede other forms), used later"""
    k = rng.randrange(1, 100)
    if rng.random() < 0.5:
        src = "(define-library (shlib) (import (scheme base)) (export shval) (begin (define (shval) %d)))" % k
        uses = ["(shval)", "(shval)", "(twice 1)"]
    else:
        src = ("(define-library (shlib) (import (scheme base)) (export shval twice) (begin (define n %d) (define (shval) (set! n (+ n 1)) n) "
               "(define (twice q) (* 2 q))))" % k)
        uses = ["(shval)", "(twice 4)", "(shval)"]
    if rng.random() < 0.4:
        # a library body that defines MACROS named like procedures other programs define and call (f, shared, my-m, twice):
        # a macro of a library body is private to that body
        nm = rng.choice(["f", "shared", "car", "v", "my-m"])
        src = ("(define-library (shlib) (import (scheme base)) (export shval twice) (begin (define-syntax %s (syntax-rules () ((%s a) (* a 100)))) "
               "(define (shval) (%s %d)) (define (twice q) (* 2 q))))" % (nm, nm, nm, k))
        uses = ["(shval)", "(twice 4)", "(shval)"]
    return [("R", "shlib", src), "(import (scheme base) (shlib))"], uses


def gen_prog(rng):
    n = rng.randrange(4, 12)
    out = []
    if rng.random() < 0.35:
        head, uses = lib_episode(rng)
        body = gen_prog_body(rng, n)
        for u in uses:
            body.insert(rng.randrange(len(body) + 1), u)
        return head + body
    return gen_prog_body(rng, n)


def fields_alone(prog):
    return ["std"] + [("R%s=%s" % (x[1], x[2])) if isinstance(x, tuple) else ">" + x for x in prog]


def gen_prog_body(rng, n):
    out = []
    for _ in range(n):
        r = rng.random()
        if r < 0.25: out.append(rng.choice(MACROS))
        elif r < 0.6: out.append(rng.choice(USES))
        elif r < 0.9: out.append(rng.choice(OTHER))
        else:
            g = P.Gen(rng, ticks=False, max_depth=3)
            out += g.toplevel(1)
    return out


def run(rep, tier, rng):
    # (1) inventory
    inv = json.loads(subprocess.run([sys.executable, os.path.join(C.ROOT, "tools", "inventory.py")], stdout=subprocess.PIPE, text=True).stdout)
    want = json.load(open(os.path.join(C.ROOT, "inventory", "globals.json")))
    key = lambda e: (e["file"], e["construct"], e["decl"])
    new = [e for e in inv if key(e) not in {key(w) for w in want}]
    rep.extra["globals_inventory"] = inv
    if new:
        rep.violation({"broken": "inventory of global state: /repo/src has process- or thread-global state that "
                                 "inventory/globals.json does not list, so 'instances share nothing' is no longer shown",
                       "new_globals": new}, no_input=True)
    # (2) interleavings
    n = 200 if tier == "quick" else 5000
    cases, meta = [], {}
    for i in range(n):
        a, b = gen_prog(rng), gen_prog(rng)
        steps, ia, ib = [], 0, 0
        order = []
        while ia < len(a) or ib < len(b):
            if rng.random() < 0.08:
                steps.append("new"); order.append(("new", None)); continue
            if ib >= len(b) or (ia < len(a) and rng.random() < 0.5):
                inst, prog, idx = 0, a, ia; ia += 1
            else:
                inst, prog, idx = 1, b, ib; ib += 1
            item = prog[idx]
            if isinstance(item, tuple):
                steps.append("R%d:%s=%s" % (inst, item[1], item[2])); order.append(("reg", None))
            else:
                # the index of this form among the FORMS of its program (registrations give no result when run alone)
                steps.append("%d:%s" % (inst, item)); order.append((inst, len([x for x in prog[:idx] if not isinstance(x, tuple)])))
        cases.append(("w%d" % i, "world", steps))
        cases.append(("a%d" % i, "libs", fields_alone(a)))
        cases.append(("b%d" % i, "libs", fields_alone(b)))
        meta[i] = (a, b, steps, order)
    # long histories: one instance fails many hundred times (errors inside procedures, at every depth of the call chain, wrong
    # argument counts, failing operands of tail calls and of apply), then the other instance computes; anything that
    # accumulates per failure on the thread shows up there
    FAILING = [("(define (g) (car '()))", "(g)"), ("(define (g a) a)", "(g)"), ("(define (g n) (if (= n 0) (car '()) (+ 1 (g (- n 1)))))", "(g 25)"),
               ("(define (g) (g (undefined-zz)))", "(g)"), ("(define (g) (apply + 1 (car '())))", "(g)"),
               ("(define (g) (vector-ref (vector) 0))", "(map (lambda (q) (g)) '(1 2 3))")]
    for j, (defn, call) in enumerate(FAILING):
        reps = 1500 if j != 2 else 200
        a = [defn] + [call] * reps
        b = ["(define (count n) (if (= n 0) 0 (+ 1 (count (- n 1)))))", "(count 60)", "(define (sq q) (* q q))", "(sq 7)", "(map sq '(1 2 3))"]
        steps = ["0:" + x for x in a] + ["new"] + ["1:" + x for x in b] + ["2:(+ 1 2)"]
        order = [(0, k) for k in range(len(a))] + [("new", None)] + [(1, k) for k in range(len(b))] + [("skip", None)]
        i = n + j
        cases.append(("w%d" % i, "world", steps))
        cases.append(("a%d" % i, "libs", fields_alone(a[:2])))
        cases.append(("b%d" % i, "libs", fields_alone(b)))
        meta[i] = (a, b, steps, order)
    # an instance that runs PROGRAM FILES (eval_file, as `ruschm FILE` does) next to a library file util.sld, interleaved with an
    # instance that has no program directory and asks for a library of that name: it must get what it gets alone (not found)
    base_i = n + len(FAILING)
    for j in range(4):
        a = ["(import (scheme base) (util))\n(f)", "(import (scheme base))\n(+ 1 2)"][: 1 + j % 2]
        b = ["(import (util))", "(import (scheme base))", "(+ 1 2)"]
        steps, order = [], []
        if j >= 2:
            steps.append("1:" + b[0]); order.append((1, 0))
        for x in a:
            steps.append("E0:" + x); order.append(("skip", None))
        for k, x in enumerate(b):
            if j >= 2 and k == 0:
                continue
            steps.append("1:" + x); order.append((1, k))
        steps.append("new"); order.append(("new", None))
        steps.append("2:(import (util))"); order.append(("skip", None))
        i = base_i + j
        cases.append(("w%d" % i, "world", steps))
        cases.append(("a%d" % i, "libs", ["std"]))
        cases.append(("b%d" % i, "prog", ["std"] + b))
        meta[i] = (a, b, steps, order)
    # two instances each running a PROGRAM FILE next to the same stateful library file (a counter): each has its own instance of it
    base_j = base_i + 4
    for j in range(3):
        a = ["(import (scheme base) (util))\n(f)", "(f)", "(f)"]
        b = ["(import (scheme base) (util))\n(f)", "(f)"]
        steps, order = [], []
        seq = [(0, 0), (1, 0), (0, 1), (1, 1), (0, 2)] if j == 0 else ([(0, 0), (0, 1), (0, 2), (1, 0), (1, 1)] if j == 1 else [(1, 0), (0, 0), (1, 1), (0, 1), (0, 2)])
        for inst, k in seq:
            text = (a if inst == 0 else b)[k]
            if k == 0:
                steps.append("S%d:%s" % (inst, text)); order.append(("counter", (inst, 0)))
            else:
                steps.append("%d:%s" % (inst, text)); order.append(("counter", (inst, k)))
        i = base_j + j
        cases.append(("w%d" % i, "world", steps))
        cases.append(("a%d" % i, "libs", ["std"]))
        cases.append(("b%d" % i, "prog", ["std"]))
        meta[i] = (a, b, steps, order)
    long_n = len(FAILING) + 4 + 3
    impl = C.run_hx(cases)
    # ONE-THREAD SOAK: every program of this run that was evaluated ALONE (its own interpreter, a fresh thread) is evaluated again, all of
    # them one after another on ONE thread of one process - preceded by programs that fail hundreds of times in every way (rejected
    # macro uses, run-time faults below pending calls, rejected definitions, failed imports, reader directives). Each must give exactly
    # what it gave alone: an interpreter instance leaves nothing behind on its thread that a later instance can see
    poison = [("poison0", "prog", ["std", "(define-syntax pk (syntax-rules (k) ((pk k a) 1) ((pk a) 2)))"] + ["(pk 1 2 3)", "(pk)", "(let ((t (pk 1 2))) t)", "(cond)"] * 120),
              ("poison1", "prog", ["std", "(define (bad q) (car q))", "(define (deep n) (if (= n 0) (undefined-zz) (+ 1 (deep (- n 1)))))"] +
               ["(bad 5)", "(deep 3)", "((lambda (a) a))", "(vector-ref (vector) 1)", "(map bad '(1))"] * 260),
              ("poison2", "prog", ["std"] + ["(define-syntax b1 (syntax-rules ::: () ((_ a :::) 1)))", "(import (no such lib))", "#!fold-case", "(or (define-syntax zz1 (syntax-rules ())))",
                                             "(define-syntax when (syntax-rules () ((when a) 'mine)))", "(1 2", ")"] * 40)]
    alone_cases = [c for c in cases if c[0][0] in "ab"]
    soak = C.run_hx_same_thread(poison + alone_cases + poison + alone_cases[:40])
    if soak is None:
        rep.violation({"what": "the harness process died while evaluating, one after another on one thread, programs that each run alone"}, no_input=False)
    else:
        diffs = 0
        for c in alone_cases:
            rep.count()
            if soak.get(c[0]) != impl.get(c[0]) and diffs < 3:
                diffs += 1
                rep.violation({"what": "a program evaluated on its own interpreter gives another result when other interpreter instances ran earlier on the "
                                       "same thread (something an instance evaluated stayed behind in thread-local state)",
                               "program": c[2], "alone_on_a_fresh_thread": impl.get(c[0]), "after_other_instances_on_the_thread": soak.get(c[0])})
        rep.extra["one_thread_soak_programs"] = len(alone_cases)
    model = C.run_driver([c for c in cases if not (c[0][0] == "w" and int(c[0][1:]) >= n)])
    for i in range(n + long_n):
        a, b, steps, order = meta[i]
        w = impl.get("w%d" % i, [])
        rep.count()
        rep.nontrivial(tuple(steps))
        if len(rep.cov["samples"]) < 3:
            rep.sample({"steps": steps[:10], "results": w[:10]})
        alone = {0: impl.get("a%d" % i, []), 1: impl.get("b%d" % i, [])}
        bad = False
        for k, (inst, idx) in enumerate(order):
            got = w[k] if k < len(w) else "?"
            if inst == "reg":
                if got != "reg-ok":
                    rep.violation({"what": "registering a library source on an instance failed", "steps": steps[:k + 1], "result": got})
                    bad = True; break
                continue
            if inst == "skip":
                continue
            if inst == "counter":
                # the idx-th call of this instance's OWN copy of the library's counter
                if got != "V i:%d" % (idx[1] + 1):
                    rep.violation({"what": "what one interpreter instance evaluated changed the result of another instance (two instances running program "
                                           "files next to one stateful library file share its state)", "steps": steps[:k + 1], "instance": idx[0],
                                   "expected": "V i:%d" % (idx[1] + 1), "got": got})
                    bad = True; break
                continue
            if inst == "new":
                if got != "new-ok":
                    rep.violation({"what": "creating a new interpreter instance failed", "steps": steps[:k + 1], "result": got})
                    bad = True; break
                continue
            if i >= n and inst == 0:
                idx = min(idx, 1)       # the long history repeats one failing call: every repetition fails like the first
            want_r = alone[inst][idx] if idx < len(alone[inst]) else "?"
            if got != want_r:
                rep.violation({"what": "what one interpreter instance evaluated changed the result of another instance",
                               "steps": steps[:k + 1], "instance": inst, "form": steps[k][2:],
                               "interleaved": got, "alone": want_r})
                bad = True; break
        if bad:
            continue
        if i >= n:
            continue                    # the long histories are run on the real code only
        mw = model.get("w%d" % i, [])
        if [R.norm_result(x) for x in mw] != [R.norm_result(x) for x in w] and not any("FUEL" in x for x in mw):
            rep.violation({"broken": "correspondence Front.worldStep <-> two Interpreter instances", "steps": steps,
                           "implementation": w, "model": mw}, no_input=True)


def main(tier, seed):
    rep = C.Report(PROP, tier, seed)
    rng = random.Random(seed)
    rep.cov["rule"] = ("inventory of global state in /repo/src; random pairs of programs (macro definitions incl. redefinitions of "
                       "bundled forms, uses of derived forms and library procedures, colliding definitions and assignments, imports, a library of "
                       "the same name registered with different bodies on each instance, "
                       "failing and unparsable forms) interleaved at random over two instances on one thread, with creation of "
                       "further instances at random points; plus six long histories in which one instance fails 200-1500 times before the "
                       "other computes, and four in which one instance runs program FILES next to a library file while another asks for a "
                       "library of that name; plus a one-thread soak (every program that ran alone, again, all on ONE thread after hundreds of failures of every kind); distinct = distinct step sequences")
    rep.assumptions = ["that the Rust code has no other channel between instances than the inventoried globals is an inventory (grep "
                       "over non-test source), not a theorem"]
    ok = C.standard_proof_phase(rep, MODULES, directed_search=lambda r: run(r, tier, rng))
    if ok:
        run(rep, tier, rng)
    return rep.finish("cd lean && lake build RuschmProofs.C19 && lake env lean <#print axioms of every theorem in RuschmProofs/C19.lean>")

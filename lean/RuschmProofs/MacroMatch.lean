/-
Helper lemmas for C04 (2): the model matcher refines the declarative matcher `specMatch` on the
supported class of patterns.
-/
import RuschmProofs.MacroLemmas

namespace Ruschm.Macro
open Ruschm

/-! ## Structural induction on patterns (the type is nested through `List`) -/

theorem Pat.ind {P : Pat → Prop} {Q : List Pat → Prop}
    (underscore : P .underscore) (ellipsis : P .ellipsis)
    (pair : ∀ a d, P a → P d → P (.pair a d)) (nil : P .nil)
    (vec : ∀ xs, Q xs → P (.vec xs)) (ident : ∀ s, P (.ident s)) (prim : ∀ p, P (.prim p))
    (lnil : Q []) (lcons : ∀ x xs, P x → Q xs → Q (x :: xs)) :
    (∀ p, P p) ∧ (∀ ps, Q ps) :=
  ⟨fun p => Pat.rec (motive_1 := P) (motive_2 := Q) underscore ellipsis pair nil vec ident prim
      lnil lcons p,
   fun ps => Pat.rec_1 (motive_1 := P) (motive_2 := Q) underscore ellipsis pair nil vec ident prim
      lnil lcons ps⟩

/-! ## Spines of supported list patterns -/

theorem properElems_eq_spine (d : Datum) :
    properElems d = match d.spine.2 with | none => some d.spine.1 | some _ => none := by
  fun_induction Datum.spine d with
  | case1 a d l xs t h ih =>
    simp only [h] at ih
    simp only [properElems, ih]
    cases t <;> rfl
  | case2 => rfl
  | case3 d h1 h2 => cases d <;> simp_all [properElems]

theorem Pat.isEllTail_iff {p : Pat} : p.isEllTail = true ↔ p = .pair .ellipsis .nil := by
  unfold Pat.isEllTail; split <;> simp_all

theorem Pat.isEllOnly_iff {ps : List Pat} : Pat.isEllOnly ps = true ↔ ps = [.ellipsis] := by
  unfold Pat.isEllOnly; split <;> simp_all

theorem Pat.okTail_listy {lits p} (h : Pat.okTail lits p = true) : p.isListy = true := by
  cases p <;> simp_all [Pat.okTail, Pat.isListy]

theorem Pat.ok_okTail {lits p} (h : Pat.ok lits p = true) (hl : p.isListy = true) :
    Pat.okTail lits p = true := by
  cases p <;> simp_all [Pat.okTail, Pat.ok, Pat.isListy]

theorem Pat.ok_not_ellipsis {lits p} (h : Pat.ok lits p = true) : p.isEllipsis = false := by
  cases p <;> simp_all [Pat.ok, Pat.isEllipsis]

/-- a supported list pattern is a proper list of supported elements -/
theorem Pat.okTail_spine {lits} (p : Pat) (h : Pat.okTail lits p = true) :
    p.spine.2 = none ∧ Pat.okList lits p.spine.1 = true ∧
      Pat.isEllOnly p.spine.1 = p.isEllTail := by
  fun_induction Pat.spine p with
  | case1 a d xs t hs ih =>
    simp only [Pat.okTail] at h
    by_cases he : d.isEllTail = true
    · have := Pat.isEllTail_iff.1 he
      subst this
      simp [Pat.spine] at hs
      obtain ⟨rfl, rfl⟩ := hs
      simp [he] at h
      have := Pat.ok_not_ellipsis h.1.1
      cases a <;> simp_all [Pat.okList, Pat.isEllOnly, Pat.isEllTail, Pat.isEllipsis]
    · simp only [he, Bool.false_eq_true, if_false, Bool.and_eq_true] at h
      have ih' := ih h.2
      simp only [hs] at ih'
      obtain ⟨rfl, h2, h3⟩ := ih'
      refine ⟨rfl, ?_, ?_⟩
      · simp only [Pat.okList]
        rw [h3]; simp [he, h.1, h2]
      · have := Pat.ok_not_ellipsis h.1
        cases a <;> simp_all [Pat.isEllOnly, Pat.isEllTail, Pat.isEllipsis]
  | case2 => simp [Pat.okList, Pat.isEllOnly, Pat.isEllTail]
  | case3 p h1 h2 => cases p <;> simp_all [Pat.okTail]

/-- the cons-wise matching of a supported list pattern is the element-wise matching of its
elements against the elements of a proper list -/
theorem specMatch_listy {lits} (p : Pat) (h : Pat.okTail lits p = true) (d : Datum) :
    specMatch lits p d =
      match d.spine.2 with
      | none => specMatchList lits p.spine.1 d.spine.1
      | some _ => none := by
  fun_induction Pat.spine p generalizing d with
  | case1 a r xs t hs ih =>
    have hsp := Pat.okTail_spine (lits := lits) r
    simp only [Pat.okTail] at h
    by_cases he : r.isEllTail = true
    · have := Pat.isEllTail_iff.1 he
      subst this
      simp [Pat.spine] at hs
      obtain ⟨rfl, rfl⟩ := hs
      simp only [specMatch, he, if_true, specMatchList, Pat.isEllOnly, properElems_eq_spine]
      cases d.spine.2 <;> rfl
    · simp only [he, Bool.false_eq_true, if_false, Bool.and_eq_true] at h
      obtain ⟨-, -, h3⟩ := hsp h.2
      simp only [hs] at h3
      simp only [specMatch, he, Bool.false_eq_true, if_false, specMatchList, h3]
      cases d with
      | pair x y l =>
        simp only [ih h.2 y, hs, Datum.spine]
        cases y.spine.2 <;> simp
      | nil l => simp [Datum.spine]
      | prim q l => simp [Datum.spine]
      | sym q l => simp [Datum.spine]
      | vec q l => simp [Datum.spine]
  | case2 =>
    cases d <;> simp [specMatch, Datum.spine, specMatchList]
    rename_i x y l
    cases y.spine.2 <;> rfl
  | case3 p h1 h2 => cases p <;> simp_all [Pat.okTail]

/-! ## Shape of the bindings the declarative matcher yields -/

def Bindings.NonEmpty (β : Bindings) : Prop := ∀ e ∈ β, e.2 ≠ []
def Bindings.Single (β : Bindings) : Prop := ∀ e ∈ β, ∃ m, e.2 = [m]

theorem Bindings.Single.nonEmpty {β : Bindings} (h : β.Single) : β.NonEmpty := by
  intro e he; obtain ⟨m, hm⟩ := h e he; simp [hm]

theorem mapOpt_cons_some {α β : Type} {f : α → Option β} {x xs ys} :
    mapOpt f (x :: xs) = some ys ↔ ∃ y ys', f x = some y ∧ mapOpt f xs = some ys' ∧ ys = y :: ys' := by
  simp only [mapOpt]
  cases f x <;> cases mapOpt f xs <;> simp [eq_comm]

theorem mapOpt_cons_none {α β : Type} {f : α → Option β} {x xs} :
    mapOpt f (x :: xs) = none ↔ f x = none ∨ mapOpt f xs = none := by
  simp only [mapOpt]
  cases f x <;> cases mapOpt f xs <;> simp

@[simp] theorem zipB_keys {β β' : Bindings} : (zipB β β').map Prod.fst = β.map Prod.fst := by
  simp [zipB, Function.comp_def]

theorem foldl_zipB_keys {β : Bindings} {βs : List Bindings} :
    (βs.foldl zipB β).map Prod.fst = β.map Prod.fst := by
  induction βs generalizing β with
  | nil => rfl
  | cons b bs ih => simp [ih]

theorem zipB_nonEmpty {β β' : Bindings} (h : β.NonEmpty) : (zipB β β').NonEmpty := by
  intro e he
  simp only [zipB, List.mem_map] at he
  obtain ⟨e', he', rfl⟩ := he
  have := h e' he'
  simp [this]

theorem foldl_zipB_nonEmpty {β : Bindings} {βs : List Bindings} (h : β.NonEmpty) :
    (βs.foldl zipB β).NonEmpty := by
  induction βs generalizing β with
  | nil => exact h
  | cons b bs ih => exact ih (zipB_nonEmpty h)

theorem specRun_some {m : Datum → Option Bindings} {ds β} (h : specRun m (some ds) = some β) :
    ∃ d1 ds' β1 βs, ds = d1 :: ds' ∧ m d1 = some β1 ∧ mapOpt m ds' = some βs ∧
      β = βs.foldl zipB β1 := by
  simp only [specRun, Option.bind_eq_some_iff] at h
  obtain ⟨bs, h1, h2⟩ := h
  cases ds with
  | nil => simp [mapOpt] at h1; subst h1; simp [combine] at h2
  | cons d1 ds' =>
    obtain ⟨y, ys', hy, hys, rfl⟩ := mapOpt_cons_some.1 h1
    simp only [combine, Option.some.injEq] at h2
    exact ⟨d1, ds', y, ys', rfl, hy, hys, h2.symm⟩

theorem specMatch_shape_aux (lits : List String) :
    (∀ p, ∀ d β, specMatch lits p d = some β →
      β.map Prod.fst = p.vars lits ∧ β.NonEmpty ∧ (p.ellFree = true → β.Single)) ∧
    (∀ ps, ∀ ds β, specMatchList lits ps ds = some β →
      β.map Prod.fst = Pat.varsList lits ps ∧ β.NonEmpty ∧
        (Pat.ellFreeList ps = true → β.Single)) := by
  have hnil : ∀ {c : Prop}, (([] : Bindings).map Prod.fst = []) ∧ Bindings.NonEmpty [] ∧
      (c → Bindings.Single []) :=
    ⟨rfl, (by intro e h; cases h), (by intro _ e h; cases h)⟩
  have happ : ∀ {β₁ β₂ : Bindings} {v1 v2 : List String} {c1 c2 : Prop},
      (β₁.map Prod.fst = v1 ∧ β₁.NonEmpty ∧ (c1 → β₁.Single)) →
      (β₂.map Prod.fst = v2 ∧ β₂.NonEmpty ∧ (c2 → β₂.Single)) →
      ((β₁ ++ β₂).map Prod.fst = v1 ++ v2 ∧ (β₁ ++ β₂).NonEmpty ∧
        (c1 ∧ c2 → (β₁ ++ β₂).Single)) := by
    intro β₁ β₂ v1 v2 c1 c2 ⟨a1, a2, a3⟩ ⟨b1, b2, b3⟩
    refine ⟨by simp [a1, b1], ?_, ?_⟩
    · intro e he
      rcases List.mem_append.1 he with h | h
      · exact a2 e h
      · exact b2 e h
    · intro ⟨h1, h2⟩ e he
      rcases List.mem_append.1 he with h | h
      · exact a3 h1 e h
      · exact b3 h2 e h
  have hrun : ∀ {a : Pat} {ds β},
      (∀ d β, specMatch lits a d = some β →
        β.map Prod.fst = a.vars lits ∧ β.NonEmpty ∧ (a.ellFree = true → β.Single)) →
      specRun (specMatch lits a) (some ds) = some β →
      β.map Prod.fst = a.vars lits ∧ β.NonEmpty := by
    intro a ds β iha h
    obtain ⟨d1, ds', β1, βs, rfl, h1, -, rfl⟩ := specRun_some h
    obtain ⟨k1, k2, -⟩ := iha _ _ h1
    exact ⟨by rw [foldl_zipB_keys, k1], foldl_zipB_nonEmpty k2⟩
  apply Pat.ind
  · intro d β h; simp [specMatch] at h; subst h; simpa [Pat.vars] using hnil
  · intro d β h; simp [specMatch] at h
  · intro a r iha ihr d β h
    simp only [specMatch] at h
    by_cases he : r.isEllTail = true
    · have := Pat.isEllTail_iff.1 he
      subst this
      simp only [he, if_true] at h
      rw [properElems_eq_spine] at h
      cases hd : d.spine.2 with
      | some _ => simp [hd, specRun] at h
      | none =>
        simp only [hd] at h
        obtain ⟨k1, k2⟩ := hrun iha h
        exact ⟨by simpa [Pat.vars] using k1, k2, by simp [Pat.ellFree]⟩
    · simp only [he, Bool.false_eq_true, if_false] at h
      cases d <;> simp at h
      rename_i x y l
      cases h1 : specMatch lits a x <;> cases h2 : specMatch lits r y <;> simp [h1, h2] at h
      subst h
      have := happ (iha _ _ h1) (ihr _ _ h2)
      simpa [Pat.vars, Pat.ellFree] using this
  · intro d β h; cases d <;> simp [specMatch] at h; subst h; simpa [Pat.vars] using hnil
  · intro xs ih d β h
    cases d <;> simp [specMatch] at h
    simpa [Pat.vars, Pat.ellFree] using ih _ _ h
  · intro v d β h
    simp only [specMatch] at h
    cases hv : lits.contains v
    · simp only [hv, Bool.false_eq_true, if_false, Option.some.injEq] at h; subst h
      simp only [Pat.vars, hv]
      refine ⟨by simp, ?_, fun _ => ?_⟩
      · intro e he; simp at he; subst he; simp
      · intro e he; simp at he; subst he; exact ⟨d, rfl⟩
    · simp only [hv, if_true] at h
      have : β = [] := by
        cases d <;> simp at h
        exact h.2
      subst this
      simp only [Pat.vars, hv, if_true]
      exact hnil
  · intro q d β h
    have : β = [] := by
      cases d <;> simp [specMatch] at h
      exact h.2
    subst this
    simpa [Pat.vars] using hnil
  · intro ds β h
    cases ds <;> simp [specMatchList] at h
    subst h; simpa [Pat.varsList] using hnil
  · intro p ps ihp ihps ds β h
    simp only [specMatchList] at h
    by_cases he : Pat.isEllOnly ps = true
    · have := Pat.isEllOnly_iff.1 he
      subst this
      simp only [he, if_true] at h
      obtain ⟨k1, k2⟩ := hrun ihp h
      exact ⟨by simpa [Pat.varsList, Pat.vars] using k1, k2, by simp [Pat.ellFreeList, Pat.ellFree]⟩
    · simp only [he, Bool.false_eq_true, if_false] at h
      cases ds <;> simp at h
      rename_i x y
      cases h1 : specMatch lits p x <;> cases h2 : specMatchList lits ps y <;> simp [h1, h2] at h
      subst h
      have := happ (ihp _ _ h1) (ihps _ _ h2)
      simpa [Pat.varsList, Pat.ellFreeList] using this

theorem specMatch_keys {lits p d β} (h : specMatch lits p d = some β) :
    β.map Prod.fst = p.vars lits := ((specMatch_shape_aux lits).1 p d β h).1

theorem specMatch_nonEmpty {lits p d β} (h : specMatch lits p d = some β) : β.NonEmpty :=
  ((specMatch_shape_aux lits).1 p d β h).2.1

theorem specMatch_single {lits p d β} (h : specMatch lits p d = some β)
    (he : p.ellFree = true) : β.Single := ((specMatch_shape_aux lits).1 p d β h).2.2 he

theorem specMatchList_keys {lits ps ds β} (h : specMatchList lits ps ds = some β) :
    β.map Prod.fst = Pat.varsList lits ps := ((specMatch_shape_aux lits).2 ps ds β h).1

theorem specMatchList_nonEmpty {lits ps ds β} (h : specMatchList lits ps ds = some β) :
    β.NonEmpty := ((specMatch_shape_aux lits).2 ps ds β h).2.1

/-! ## Tables: fresh inserts append, pushes extend the item sequences -/

@[simp] theorem Bindings.toSubst_nil : Bindings.toSubst [] = [] := rfl

@[simp] theorem Bindings.toSubst_append {β₁ β₂ : Bindings} :
    Bindings.toSubst (β₁ ++ β₂) = β₁.toSubst ++ β₂.toSubst := by simp [Bindings.toSubst]

@[simp] theorem Bindings.keys_toSubst {β : Bindings} :
    Subst.keys β.toSubst = β.map Prod.fst := by
  simp [Subst.keys, Bindings.toSubst, Function.comp_def]

theorem Bindings.toBindings_toSubst {β : Bindings} (h : β.NonEmpty) :
    β.toSubst.toBindings = β := by
  induction β with
  | nil => rfl
  | cons e β ih =>
    obtain ⟨v, ms⟩ := e
    have h1 : ms ≠ [] := h (v, ms) (by simp)
    have h2 : Bindings.NonEmpty β := fun e he => h e (by simp [he])
    have := ih h2
    simp only [Subst.toBindings, Bindings.toSubst] at this ⊢
    cases ms with
    | nil => exact absurd rfl h1
    | cons m ms => simp [this]

theorem Subst.insert_fresh {σ : Subst} {v x} (h : v ∉ Subst.keys σ) :
    σ.insert v x = σ ++ [(v, x)] := by
  induction σ with
  | nil => rfl
  | cons e σ ih =>
    obtain ⟨k, y⟩ := e
    simp only [Subst.keys_cons, List.mem_cons, not_or] at h
    simp only [Subst.insert]
    rw [if_neg (fun hk => h.1 hk.symm), ih h.2]
    rfl

/-- one more item for the variable `v` -/
def Subst.pushed (A : Subst) (v : String) (m : Datum) : Subst :=
  A.map fun e => if e.1 = v then (e.1, e.2.1, e.2.2 ++ [m]) else e

@[simp] theorem Subst.keys_pushed {A : Subst} {v m} : Subst.keys (A.pushed v m) = Subst.keys A := by
  simp only [Subst.keys, Subst.pushed, List.map_map]
  congr 1; funext e; simp only [Function.comp]; split <;> rfl

theorem Subst.push?_pushed {A : Subst} {v m} (hv : v ∈ Subst.keys A) (hn : (Subst.keys A).Nodup) :
    A.push? v m = some (A.pushed v m) := by
  induction A with
  | nil => simp at hv
  | cons e A ih =>
    obtain ⟨k, f, more⟩ := e
    simp only [Subst.keys_cons, List.nodup_cons] at hn
    simp only [Subst.push?, Subst.pushed, List.map_cons]
    by_cases hk : k = v
    · subst hk
      simp only [if_true, Option.some.injEq, List.cons.injEq, true_and]
      symm
      rw [List.map_eq_self_iff] -- entries with another key are unchanged
      intro e he
      have : e.1 ≠ k := by
        intro h; apply hn.1; rw [← h]; exact List.mem_map_of_mem (f := (·.1)) he
      simp [this]
    · simp only [hk, if_false]
      simp only [Subst.keys_cons, List.mem_cons] at hv
      have hv' : v ∈ Subst.keys A := by
        rcases hv with h | h
        · exact absurd h.symm hk
        · exact h
      rw [ih hv' hn.2]
      rfl

theorem Subst.push?_append {σ0 A : Subst} {v m} (h0 : v ∉ Subst.keys σ0) :
    (σ0 ++ A).push? v m = (A.push? v m).map (σ0 ++ ·) := by
  induction σ0 with
  | nil => cases A.push? v m <;> rfl
  | cons e σ0 ih =>
    obtain ⟨k, f, more⟩ := e
    simp only [Subst.keys_cons, List.mem_cons, not_or] at h0
    simp only [List.cons_append, Subst.push?]
    rw [if_neg (fun hk => h0.1 hk.symm), ih h0.2]
    cases A.push? v m <;> rfl

/-- the further items the inner table `τ` holds for the variable `k` -/
def Subst.collect (τ : Subst) (k : String) : List Datum :=
  τ.filterMap fun e => if e.1 = k then some e.2.1 else none

theorem pushAll_append {τ σ0 A : Subst}
    (hsub : ∀ k ∈ Subst.keys τ, k ∈ Subst.keys A) (hn : (Subst.keys A).Nodup)
    (hdis : ∀ k ∈ Subst.keys A, k ∉ Subst.keys σ0) :
    pushAll τ (σ0 ++ A) =
      some (σ0 ++ A.map fun e => (e.1, e.2.1, e.2.2 ++ τ.collect e.1)) := by
  induction τ generalizing A with
  | nil => simp [pushAll_nil, Subst.collect]
  | cons e τ ih =>
    obtain ⟨v, m, r⟩ := e
    have hv : v ∈ Subst.keys A := hsub v (by simp)
    rw [pushAll_cons, Subst.push?_append (hdis v hv), Subst.push?_pushed hv hn]
    simp only [Option.map_some, Option.bind_some]
    rw [ih (A := A.pushed v m)]
    · simp only [Subst.pushed, List.map_map, Option.some.injEq, List.append_cancel_left_eq]
      apply List.map_congr_left
      intro e he
      simp only [Function.comp, Subst.collect, List.filterMap_cons]
      by_cases hk : e.1 = v
      · simp [hk]
      · have : ¬ v = e.1 := fun h => hk h.symm
        simp [hk, this]
    · intro k hk; rw [Subst.keys_pushed]; exact hsub k (by simp [hk])
    · rw [Subst.keys_pushed]; exact hn
    · intro k hk; rw [Subst.keys_pushed] at hk; exact hdis k hk

theorem Subst.collect_toSubst {β : Bindings} (hs : β.Single) (hn : (β.map Prod.fst).Nodup) (k) :
    Subst.collect β.toSubst k = (β.lookup k).getD [] := by
  induction β with
  | nil => rfl
  | cons e β ih =>
    obtain ⟨v, ms⟩ := e
    obtain ⟨m, hm⟩ := hs (v, ms) (by simp)
    simp only at hm; subst hm
    simp only [List.map_cons, List.nodup_cons] at hn
    have ih' := ih (fun e he => hs e (by simp [he])) hn.2
    simp only [Bindings.toSubst, Subst.collect, List.map_cons, List.filterMap_cons,
      List.lookup_cons] at ih' ⊢
    by_cases hk : v = k
    · subst hk
      have : (v == v) = true := by simp
      simp only [if_true, List.headD_cons, this]
      -- no further entry for `v`
      have hnone : List.filterMap (fun (e : String × Datum × List Datum) =>
          if e.1 = v then some e.2.1 else none)
          (List.map (fun (x : String × List Datum) => (x.1, x.2.headD (Datum.nil none), x.2.tail)) β) = [] := by
        rw [List.filterMap_eq_nil_iff]
        intro e he
        simp only [List.mem_map] at he
        obtain ⟨e', he', rfl⟩ := he
        have : e'.1 ≠ v := fun h => hn.1 (h ▸ List.mem_map_of_mem (f := Prod.fst) he')
        simp [this]
      simp [hnone]
    · have : (k == v) = false := by simp [beq_eq_false_iff_ne, Ne.symm hk]
      simp only [hk, if_false, this]
      exact ih'

/-- **the push loop**: pushing the (single) matches of one more item extends every item sequence
of the run by that item's match -/
theorem pushAll_toSubst {σ0 : Subst} {acc β' : Bindings}
    (hs : β'.Single) (hn' : (β'.map Prod.fst).Nodup) (hne : acc.NonEmpty)
    (hkeys : β'.map Prod.fst = acc.map Prod.fst)
    (hdis : ∀ k ∈ acc.map Prod.fst, k ∉ Subst.keys σ0) :
    pushAll β'.toSubst (σ0 ++ acc.toSubst) = some (σ0 ++ (zipB acc β').toSubst) := by
  rw [pushAll_append]
  · simp only [Option.some.injEq, List.append_cancel_left_eq]
    simp only [Bindings.toSubst, zipB, List.map_map]
    apply List.map_congr_left
    intro e he
    have hne' := hne e he
    simp only [Function.comp, Subst.collect_toSubst hs hn']
    cases hms : e.2 with
    | nil => exact absurd hms hne'
    | cons m ms => simp [Bindings.toSubst]
  · simp [hkeys]
  · simpa [← hkeys] using hn'
  · simpa using hdis

end Ruschm.Macro

/-
Specification vocabulary for property C03 (bindings, closures, vectors as objects with identity).

The model's `Store` (`RuschmModel/Value.lean`) is an array of numbered frames (parent link +
association list of definitions) and an array of numbered vector cells (mutability flag + items).
This file adds the *spec-side* reading of that data:

* `Value.frameIds` / `Value.vecIds` / `valueIds`: the frame ids and cell ids a value mentions
  (closure environments, vector references, recursively through pairs);
* `Value.Below nf nv`, `Value.AllocIn σ`: every mentioned id is allocated;
* `Store.binding σ r x`, `Store.cell σ i`: the store as two finite maps
  (frame × name ⇀ value, cell id ⇀ cell);
* `Store.chain σ ρ`: the frames from `ρ` up its parents — the lexical scope of `ρ`;
* `Store.definesAt σ r x`: frame `r` has a definition of `x`;
* `Store.WF`: parents are older frames, all stored values mention allocated ids only;
* `Store.Grows σ σ'`: the "only ever appends" preorder (sizes, parent links, defined names,
  cell shapes and immutable cells are preserved);
* `Store.SameExceptBinding`, `Store.SameExceptCell`: "differs exactly at".
-/
import RuschmModel.Eval

namespace Ruschm

/-! ## ids mentioned by a value -/

namespace Value

/-- frame ids a value mentions: the environments of the closures in it -/
def frameIds : Value → List Nat
  | .closure _ env => [env]
  | .pair a d => frameIds a ++ frameIds d
  | _ => []

/-- vector-cell ids a value mentions -/
def vecIds : Value → List Nat
  | .vec id => [id]
  | .pair a d => vecIds a ++ vecIds d
  | _ => []

/-- every frame id mentioned is `< nf`, every cell id mentioned is `< nv` -/
def Below (nf nv : Nat) (v : Value) : Prop :=
  (∀ i ∈ v.frameIds, i < nf) ∧ (∀ i ∈ v.vecIds, i < nv)

end Value

/-- all ids a value mentions: (frame ids, vector-cell ids) -/
def valueIds (v : Value) : List Nat × List Nat := (v.frameIds, v.vecIds)

namespace Store

/-- every id mentioned by `v` is allocated in `σ` -/
def AllocIn (σ : Store) (v : Value) : Prop := v.Below σ.frames.size σ.vecs.size

/-- the store's bindings as a finite map: the value frame `r` holds for name `x` -/
def binding (σ : Store) (r : Nat) (x : String) : Option Value :=
  match σ.frames[r]? with
  | some f => f.defs.lookup x
  | none => none

/-- frame `r` exists and has a definition of `x` -/
def definesAt (σ : Store) (r : Nat) (x : String) : Bool := (σ.binding r x).isSome

/-- the parent link of frame `r` (`none`: no such frame, or a root) -/
def parentOf (σ : Store) (r : Nat) : Option Nat :=
  match σ.frames[r]? with
  | some f => f.parent
  | none => none

/-- the store's vectors as a finite map -/
def cell (σ : Store) (i : Nat) : Option VecCell := σ.vecs[i]?

/-- the frames from `ρ` up its parent links (with the same guards as `lookupAux`) -/
def chainAux (σ : Store) : Nat → Nat → List Nat
  | 0, _ => []
  | fuel + 1, ρ =>
    match σ.frames[ρ]? with
    | none => []
    | some f =>
      ρ :: (match f.parent with
            | some p => if p < ρ then chainAux σ fuel p else []
            | none => [])

/-- the lexical scope of frame `ρ`: `ρ`, its parent, its parent's parent, … -/
def chain (σ : Store) (ρ : Nat) : List Nat := chainAux σ (ρ + 1) ρ

/-- The store invariant: parents are strictly older frames; every value stored in a frame or in
a vector cell mentions allocated frames and cells only. -/
structure WF (σ : Store) : Prop where
  parent_lt : ∀ (i : Nat) (f : Frame), σ.frames[i]? = some f → ∀ p, f.parent = some p → p < i
  frame_vals : ∀ (i : Nat) (f : Frame), σ.frames[i]? = some f → ∀ kv ∈ f.defs, σ.AllocIn kv.2
  vec_vals : ∀ (i : Nat) (c : VecCell), σ.vecs[i]? = some c → ∀ v ∈ c.items, σ.AllocIn v

/-- `σ'` is `σ` after some evaluation: frames and cells were only appended or updated in place.
Sizes never decrease; an existing frame keeps its parent and its defined names (it may gain
names); an existing cell keeps its mutability flag and its length, an immutable cell its
contents. -/
structure Grows (σ σ' : Store) : Prop where
  frames_size : σ.frames.size ≤ σ'.frames.size
  vecs_size : σ.vecs.size ≤ σ'.vecs.size
  frame : ∀ (i : Nat) (f : Frame), σ.frames[i]? = some f → ∃ f' : Frame, σ'.frames[i]? = some f' ∧ f'.parent = f.parent ∧
    ∀ k, (f.defs.lookup k).isSome → (f'.defs.lookup k).isSome
  cell : ∀ (i : Nat) (c : VecCell), σ.vecs[i]? = some c → ∃ c' : VecCell, σ'.vecs[i]? = some c' ∧ c'.mutable = c.mutable ∧
    c'.items.length = c.items.length ∧ (c.mutable = false → c' = c)

/-- `σ'` differs from `σ` at most in the value frame `r` holds for `x`: every other frame, the
parent of `r`, every other name of `r`, all vectors, output, ticks and depth are the same. -/
structure SameExceptBinding (σ σ' : Store) (r : Nat) (x : String) : Prop where
  vecs : σ'.vecs = σ.vecs
  out : σ'.out = σ.out
  ticks : σ'.ticks = σ.ticks
  depth : σ'.depth = σ.depth
  maxDepth : σ'.maxDepth = σ.maxDepth
  frames_size : σ'.frames.size = σ.frames.size
  other_frames : ∀ i, i ≠ r → σ'.frames[i]? = σ.frames[i]?
  parent : σ'.parentOf r = σ.parentOf r
  other_names : ∀ y, y ≠ x → σ'.binding r y = σ.binding r y

/-- `σ'` differs from `σ` at most in the items of cell `id`. -/
structure SameExceptCell (σ σ' : Store) (id : Nat) : Prop where
  frames : σ'.frames = σ.frames
  out : σ'.out = σ.out
  ticks : σ'.ticks = σ.ticks
  depth : σ'.depth = σ.depth
  maxDepth : σ'.maxDepth = σ.maxDepth
  vecs_size : σ'.vecs.size = σ.vecs.size
  other_cells : ∀ j, j ≠ id → σ'.vecs[j]? = σ.vecs[j]?
  flag : (σ'.vecs[id]?).map (·.mutable) = (σ.vecs[id]?).map (·.mutable)

/-- the initial store of an interpreter: one root frame, no vectors -/
def root : Store := { frames := #[{ parent := none, defs := [] }] }

/-- demo store. Frame 0 (root): `x ↦ 1`, `v ↦ #0`; frame 1 (child of 0): `x ↦ 2`,
`f ↦ closure over frame 0`; frame 2 (child of 0): `l ↦ (#0 . #1)`; frame 3 (child of 1).
Cell #0: mutable `[1, 2]`; cell #1: immutable `[#0]`. -/
def demo : Store where
  frames := #[
    { parent := none, defs := [("x", .num (.int 1)), ("v", .vec 0)] },
    { parent := some 0, defs := [("x", .num (.int 2)),
        ("f", .closure (.mk ⟨["a"], none⟩ [] [.sym "x" none]) 0)] },
    { parent := some 0, defs := [("l", .pair (.vec 0) (.vec 1))] },
    { parent := some 1, defs := [] }]
  vecs := #[{ mutable := true, items := [.num (.int 1), .num (.int 2)] },
            { mutable := false, items := [.vec 0] }]

end Store

/-! ## outcomes of evaluator steps -/

namespace Eval

/-- ids of a tail result: a value, or the environment of a pending tail call -/
def TailRes.AllocIn (σ : Store) : TailRes → Prop
  | .value v => σ.AllocIn v
  | .tailCall _ _ env => env < σ.frames.size

end Eval

end Ruschm

/-
C03, main theorem: every history of store operations shows the same on the model's `Store`
(`RuschmModel/Value.lean`, vector primitives of `RuschmModel/Prim.lean`) as on the abstract store
of `RuschmSpec/AbsStore.lean`.
-/
import RuschmSpec.AbsStore
import RuschmProofs.StoreLemmas

namespace Ruschm.C03More

open Ruschm.AbsStore

/-! ## the history run on the model -/

/-- outcome of a native procedure as an observation -/
def outOfRes : Except SErr Value → Out
  | .ok v => .val v
  | .error (e, _) => .err e

/-- an operand, evaluated on the model's store -/
def evalSrcM (σ : Store) (outs : List Out) : Src → Except Out Value
  | .const v => .ok v
  | .var ρ x =>
    match σ.lookup ρ x with
    | some v => .ok v
    | none => .error (.err .unbound)
  | .res k => resValue outs k

def evalSrcsM (σ : Store) (outs : List Out) : List Src → Except Out (List Value)
  | [] => .ok []
  | a :: as =>
    match evalSrcM σ outs a with
    | .error o => .error o
    | .ok v =>
      match evalSrcsM σ outs as with
      | .error o => .error o
      | .ok vs => .ok (v :: vs)

/-- one operation on the model: `Store.newFrame`, `Store.define`, `Store.set`, `Store.lookup`,
`Store.allocVec`, and the native procedures `vector`, `make-vector`, `vector-ref`, `vector-set!`
through `Prim.applyPure` -/
def stepM (σ : Store) (outs : List Out) : Op → Out × Store
  | .newFrame p =>
    let (id, σ') := σ.newFrame p
    (.frame id, σ')
  | .callFrame f =>
    match evalSrcM σ outs f with
    | .error o => (o, σ)
    | .ok (.closure _ env) =>
      let (id, σ') := σ.newFrame (some env)
      (.frame id, σ')
    | .ok _ => (.err .nonProcedure, σ)
  | .define ρ x e =>
    match evalSrcM σ outs e with
    | .error o => (o, σ)
    | .ok v => (.done, σ.define ρ x v)
  | .assign ρ x e =>
    match evalSrcM σ outs e with
    | .error o => (o, σ)
    | .ok v =>
      match σ.set ρ x v with
      | (true, σ') => (.done, σ')
      | (false, σ') => (.err .unbound, σ')
  | .lookup ρ x =>
    match σ.lookup ρ x with
    | some v => (.val v, σ)
    | none => (.err .unbound, σ)
  | .allocVec m items =>
    match evalSrcsM σ outs items with
    | .error o => (o, σ)
    | .ok vs =>
      if m then
        let (r, σ') := Prim.applyPure σ .vector vs
        (outOfRes r, σ')
      else
        let (v, σ') := σ.allocVec false vs
        (.val v, σ')
  | .makeVector k fill =>
    match evalSrcM σ outs k with
    | .error o => (o, σ)
    | .ok kv =>
      match evalSrcM σ outs fill with
      | .error o => (o, σ)
      | .ok fv =>
        let (r, σ') := Prim.applyPure σ .makeVector [kv, fv]
        (outOfRes r, σ')
  | .vecRef v k =>
    match evalSrcM σ outs v with
    | .error o => (o, σ)
    | .ok vv =>
      match evalSrcM σ outs k with
      | .error o => (o, σ)
      | .ok kv =>
        let (r, σ') := Prim.applyPure σ .vectorRef [vv, kv]
        (outOfRes r, σ')
  | .vecSet v k obj =>
    match evalSrcM σ outs v with
    | .error o => (o, σ)
    | .ok vv =>
      match evalSrcM σ outs k with
      | .error o => (o, σ)
      | .ok kv =>
        match evalSrcM σ outs obj with
        | .error o => (o, σ)
        | .ok ov =>
          match Prim.applyPure σ .vectorSet [vv, kv, ov] with
          | (.ok _, σ') => (.done, σ')
          | (.error (e, _), σ') => (.err e, σ')

/-- run a history on the model from a store -/
def runFromM (σ : Store) (outs : List Out) : List Op → List Out × Store
  | [] => (outs, σ)
  | op :: ops => runFromM (stepM σ outs op).2 (outs ++ [(stepM σ outs op).1]) ops

/-- a history run by a fresh interpreter (`Store.root`: the global frame, no vectors) -/
def runModel (ops : List Op) : List Out × Store := runFromM Store.root [] ops

/-! ## the abstraction relation -/

/-- `Abs σ s`: the abstract state `s` is a reading of the model's store `σ`.
Scope ids are frame ids and object ids are cell ids; the scopes around a scope are the frame's
parent chain; what frame `r` holds for `x` is the value of the binding scope `r` names `x`;
different (frame, name) pairs have different bindings, all of them below the counter. -/
structure Abs (σ : Store) (s : State) : Prop where
  size : s.scopes.length = σ.frames.size
  chain : ∀ ρ, scopeChain s ρ = σ.chain ρ
  binding : ∀ r x, σ.binding r x = ((ownNames s r).lookup x).map s.vals
  fresh : ∀ r x b, (ownNames s r).lookup x = some b → b < s.nextB
  inj : ∀ r x r' x' b, (ownNames s r).lookup x = some b → (ownNames s r').lookup x' = some b →
    r = r' ∧ x = x'
  vecs : ∀ i, s.vecs i = (σ.vecs[i]?).map (fun c => (c.mutable, c.items))
  nextV : s.nextV = σ.vecs.size


/-! ## list facts -/

private theorem lookup_flatMap {α : Type} (f : α → Env) (x : String) : ∀ l : List α,
    (l.flatMap f).lookup x =
      (l.find? (fun r => ((f r).lookup x).isSome)).bind (fun r => (f r).lookup x)
  | [] => by simp
  | a :: l => by
    rw [List.flatMap_cons, List.lookup_append, List.find?_cons, lookup_flatMap f x l]
    cases h : (f a).lookup x <;> simp [h]

/-! ## reading names through `Abs` -/

private theorem ownNames_some_lt {s : State} {r : Nat} {x : String} {b : BId}
    (h : (ownNames s r).lookup x = some b) : r < s.scopes.length := by
  unfold ownNames at h
  cases hs : s.scopes[r]? with
  | none => simp [hs] at h
  | some sc =>
    rcases Nat.lt_or_ge r s.scopes.length with h' | h'
    · exact h'
    · have : s.scopes[r]? = none := by simp; omega
      simp [this] at hs

private theorem definesAt_eq {σ : Store} {s : State} (a : Abs σ s) (r : Nat) (x : String) :
    σ.definesAt r x = ((ownNames s r).lookup x).isSome := by
  unfold Store.definesAt
  rw [a.binding]
  cases (ownNames s r).lookup x <;> rfl

/-- the binding id the abstract environment of `ρ` gives for `x` is the one the frame picked by
`resolve` names -/
private theorem env_lookup {σ : Store} {s : State} (a : Abs σ s) (ρ : Nat) (x : String) :
    (env s ρ).lookup x = (σ.resolve ρ x).bind (fun r => (ownNames s r).lookup x) := by
  unfold env
  rw [lookup_flatMap, a.chain, Store.resolve_eq_find]
  have : (fun r => ((ownNames s r).lookup x).isSome) = (fun r => σ.definesAt r x) := by
    funext r; exact (definesAt_eq a r x).symm
  rw [this]

private theorem lookup_map {σ : Store} {s : State} (a : Abs σ s) (ρ : Nat) (x : String) :
    σ.lookup ρ x = ((env s ρ).lookup x).map s.vals := by
  rw [Store.lookup_eq_bind, env_lookup a]
  cases σ.resolve ρ x with
  | none => rfl
  | some r => simp [a.binding]


/-! ## `define` and `set!` -/

private theorem lookup_cons_ite' {β : Type} (y k : String) (b : β) (as : List (String × β)) :
    List.lookup y ((k, b) :: as) = if y = k then some b else List.lookup y as := by
  rw [List.lookup_cons]
  by_cases h : y = k
  · subst h; simp
  · have : (y == k) = false := by simpa using h
    simp [this, h]

/-- overwriting the value of the binding that frame `r` has for `x` -/
private theorem abs_update {σ : Store} {s : State} (a : Abs σ s) {r : Nat} {x : String} {b : BId}
    (hb : (ownNames s r).lookup x = some b) (v : Value) :
    Abs (σ.define r x v) { s with vals := upd s.vals b v } := by
  have hr : r < σ.frames.size := a.size ▸ ownNames_some_lt hb
  refine ⟨?_, ?_, ?_, a.fresh, a.inj, ?_, ?_⟩
  · simpa using a.size
  · intro ρ; rw [Store.chain_define]; exact a.chain ρ
  · intro r' y
    rw [Store.binding_define]
    show _ = ((ownNames s r').lookup y).map (upd s.vals b v)
    by_cases hc : r' = r ∧ y = x
    · obtain ⟨rfl, rfl⟩ := hc
      simp [hr, hb, upd]
    · have hc' : ¬ (r' = r ∧ y = x ∧ r < σ.frames.size) := fun h => hc ⟨h.1, h.2.1⟩
      rw [if_neg hc', a.binding]
      cases hl : (ownNames s r').lookup y with
      | none => rfl
      | some b' =>
        have : b' ≠ b := by
          rintro rfl
          exact hc (a.inj _ _ _ _ _ hl hb)
        simp [upd, this]
  · intro i; rw [Store.define_vecs]; exact a.vecs i
  · rw [Store.define_vecs]; exact a.nextV

/-- the state after `define` of a name the scope did not have -/
private def defineNew (s : State) (r : Nat) (sc : Scope) (x : String) (v : Value) : State :=
  { s with vals := upd s.vals s.nextB v, nextB := s.nextB + 1,
           scopes := s.scopes.set r { sc with names := (x, s.nextB) :: sc.names } }

private theorem ownNames_defineNew {s : State} {r : Nat} {sc : Scope} (hs : s.scopes[r]? = some sc)
    (x : String) (v : Value) (r' : Nat) (y : String) :
    (ownNames (defineNew s r sc x v) r').lookup y =
      if r' = r ∧ y = x then some s.nextB else (ownNames s r').lookup y := by
  have hlt : r < s.scopes.length := by
    rcases Nat.lt_or_ge r s.scopes.length with h | h
    · exact h
    · have : s.scopes[r]? = none := by simp; omega
      simp [this] at hs
  unfold ownNames defineNew
  simp only [List.getElem?_set]
  by_cases hr : r = r'
  · subst hr
    simp only [hlt, if_true, hs, lookup_cons_ite', true_and]
  · have : ¬ (r' = r ∧ y = x) := fun h => hr h.1.symm
    simp [hr, this]

private theorem scopeChain_defineNew {s : State} {r : Nat} {sc : Scope} (hs : s.scopes[r]? = some sc)
    (x : String) (v : Value) (ρ : Nat) :
    scopeChain (defineNew s r sc x v) ρ = scopeChain s ρ := by
  have hlt : r < s.scopes.length := by
    rcases Nat.lt_or_ge r s.scopes.length with h | h
    · exact h
    · have : s.scopes[r]? = none := by simp; omega
      simp [this] at hs
  unfold scopeChain defineNew
  simp only [List.getElem?_set]
  by_cases hr : r = ρ
  · subst hr; simp only [hlt, if_true, hs]
  · simp [hr]

private theorem abs_defineNew {σ : Store} {s : State} (a : Abs σ s) {r : Nat} {sc : Scope}
    (hs : s.scopes[r]? = some sc) {x : String} (hx : (ownNames s r).lookup x = none) (v : Value) :
    Abs (σ.define r x v) (defineNew s r sc x v) := by
  have hlt : r < s.scopes.length := by
    rcases Nat.lt_or_ge r s.scopes.length with h | h
    · exact h
    · have : s.scopes[r]? = none := by simp; omega
      simp [this] at hs
  have hr : r < σ.frames.size := a.size ▸ hlt
  refine ⟨?_, ?_, ?_, ?_, ?_, ?_, ?_⟩
  · simpa [defineNew] using a.size
  · intro ρ; rw [Store.chain_define, scopeChain_defineNew hs]; exact a.chain ρ
  · intro r' y
    rw [Store.binding_define, ownNames_defineNew hs]
    show _ = Option.map (upd s.vals s.nextB v) _
    by_cases hc : r' = r ∧ y = x
    · obtain ⟨rfl, rfl⟩ := hc
      simp [hr, upd]
    · have hc' : ¬ (r' = r ∧ y = x ∧ r < σ.frames.size) := fun h => hc ⟨h.1, h.2.1⟩
      rw [if_neg hc', if_neg hc, a.binding]
      cases hl : (ownNames s r').lookup y with
      | none => rfl
      | some b' =>
        have : b' ≠ s.nextB := Nat.ne_of_lt (a.fresh _ _ _ hl)
        simp [upd, this]
  · intro r' y b hb
    rw [ownNames_defineNew hs] at hb
    show b < s.nextB + 1
    split at hb
    · cases hb; exact Nat.lt_succ_self _
    · exact Nat.lt_succ_of_lt (a.fresh _ _ _ hb)
  · intro r₁ x₁ r₂ x₂ b h₁ h₂
    rw [ownNames_defineNew hs] at h₁ h₂
    split at h₁ <;> split at h₂
    · rename_i c₁ c₂; exact ⟨c₁.1.trans c₂.1.symm, c₁.2.trans c₂.2.symm⟩
    · cases h₁; exact absurd (a.fresh _ _ _ h₂) (Nat.lt_irrefl _)
    · cases h₂; exact absurd (a.fresh _ _ _ h₁) (Nat.lt_irrefl _)
    · exact a.inj _ _ _ _ _ h₁ h₂
  · intro i; rw [Store.define_vecs]; exact a.vecs i
  · rw [Store.define_vecs]; exact a.nextV

/-- **`define` refines**: `Store.define` in frame `ρ` is the spec's `define` in scope `ρ` -/
theorem define_refines {σ : Store} {s : State} (a : Abs σ s) (ρ : Nat) (x : String) (v : Value) :
    Abs (σ.define ρ x v) (AbsStore.define s ρ x v) := by
  unfold AbsStore.define
  cases hs : s.scopes[ρ]? with
  | none =>
    show Abs _ s
    have : ¬ ρ < σ.frames.size := by
      rw [← a.size]; intro h
      have : s.scopes[ρ]? = some s.scopes[ρ] := by simp [h]
      simp [this] at hs
    rw [Store.define_of_not_lt _ _ _ this]; exact a
  | some sc =>
    have hn : ownNames s ρ = sc.names := by simp [ownNames, hs]
    simp only
    cases hl : sc.names.lookup x with
    | some b => exact abs_update a (by rw [hn]; exact hl) v
    | none => exact abs_defineNew a hs (by rw [hn]; exact hl) v

/-- **variable reference refines**: `Store.lookup` from frame `ρ` gives the value the spec's
`lookup` gives, and is `none` exactly when the spec says `unbound` -/
theorem lookup_refines {σ : Store} {s : State} (a : Abs σ s) (ρ : Nat) (x : String) :
    AbsStore.lookup s ρ x = match σ.lookup ρ x with
      | some v => .ok v
      | none => .error .unbound := by
  unfold AbsStore.lookup
  rw [lookup_map a]
  cases (env s ρ).lookup x <;> rfl

/-- **`set!` refines**: `Store.set` from frame `ρ` succeeds exactly when the spec's `assign`
does (otherwise: `unbound`, nothing changed on either side), and the resulting stores are related -/
theorem assign_refines {σ : Store} {s : State} (a : Abs σ s) (ρ : Nat) (x : String) (v : Value) :
    ((σ.set ρ x v).1 = true ↔ (AbsStore.assign s ρ x v).1 = .ok ()) ∧
    ((σ.set ρ x v).1 = false ↔ (AbsStore.assign s ρ x v).1 = .error .unbound) ∧
    Abs (σ.set ρ x v).2 (AbsStore.assign s ρ x v).2 := by
  unfold AbsStore.assign
  rw [Store.set_eq, env_lookup a]
  cases hr : σ.resolve ρ x with
  | none => simp [a]
  | some r =>
    have hd := (Store.resolve_some hr).1
    rw [definesAt_eq a] at hd
    cases hl : (ownNames s r).lookup x with
    | none => simp [hl] at hd
    | some b =>
      simp only [Option.bind_some, hl]
      exact ⟨by simp, by simp, abs_update a hl v⟩


/-! ## `newFrame` -/

private theorem chainAux_fuel (σ : Store) : ∀ fuel fuel' ρ, ρ < fuel → ρ < fuel' →
    σ.chainAux fuel ρ = σ.chainAux fuel' ρ
  | 0, _, _, h, _ => absurd h (Nat.not_lt_zero _)
  | _ + 1, 0, _, _, h => absurd h (Nat.not_lt_zero _)
  | f + 1, f' + 1, ρ, h, h' => by
    simp only [Store.chainAux]
    cases σ.frames[ρ]? with
    | none => rfl
    | some fr =>
      simp only
      cases fr.parent with
      | none => rfl
      | some p =>
        simp only
        split
        · rw [chainAux_fuel σ f f' p (by omega) (by omega)]
        · rfl

private theorem chainAux_newFrame_old (σ : Store) (p : Option Nat) : ∀ fuel ρ, ρ < σ.frames.size →
    (σ.newFrame p).2.chainAux fuel ρ = σ.chainAux fuel ρ
  | 0, _, _ => rfl
  | fuel + 1, ρ, h => by
    simp only [Store.chainAux]
    have : (σ.newFrame p).2.frames[ρ]? = σ.frames[ρ]? := by
      simp [Store.newFrame, Array.getElem?_push, Nat.ne_of_lt h]
    rw [this]
    cases σ.frames[ρ]? with
    | none => rfl
    | some fr =>
      simp only
      cases fr.parent with
      | none => rfl
      | some q =>
        simp only
        split
        · rw [chainAux_newFrame_old σ p fuel q (by omega)]
        · rfl

private theorem chain_of_not_lt (σ : Store) {ρ : Nat} (h : ¬ ρ < σ.frames.size) : σ.chain ρ = [] := by
  have : σ.frames[ρ]? = none := by simp; omega
  simp [Store.chain, Store.chainAux, this]

/-- the lexical chains after `newFrame`: old frames keep theirs, the new frame is in front of its
parent's chain -/
private theorem chain_newFrame (σ : Store) (p : Option Nat) (ρ : Nat) :
    (σ.newFrame p).2.chain ρ =
      if ρ = σ.frames.size then
        ρ :: (match p with
              | some q => σ.chain q
              | none => [])
      else σ.chain ρ := by
  by_cases hρ : ρ = σ.frames.size
  · subst hρ
    rw [if_pos rfl]
    have : (σ.newFrame p).2.frames[σ.frames.size]? = some { parent := p, defs := [] } := by
      simp [Store.newFrame]
    unfold Store.chain
    rw [Store.chainAux, this]
    cases p with
    | none => rfl
    | some q =>
      simp only
      by_cases hq : q < σ.frames.size
      · rw [if_pos hq, chainAux_newFrame_old σ _ _ _ hq,
          chainAux_fuel σ σ.frames.size (q + 1) q hq (Nat.lt_succ_self _)]
      · rw [if_neg hq]
        have := chain_of_not_lt σ hq
        unfold Store.chain at this
        rw [this]
  · rw [if_neg hρ]
    by_cases hlt : ρ < σ.frames.size
    · exact chainAux_newFrame_old σ p _ _ hlt
    · rw [chain_of_not_lt σ hlt]
      apply chain_of_not_lt
      simp [Store.newFrame]; omega

private theorem binding_newFrame (σ : Store) (p : Option Nat) (r : Nat) (x : String) :
    (σ.newFrame p).2.binding r x = σ.binding r x := by
  unfold Store.binding
  simp only [Store.newFrame, Array.getElem?_push]
  by_cases h : r = σ.frames.size
  · subst h; simp
  · rw [if_neg h]

private theorem ownNames_extend (s : State) (p : Option Nat) (r : Nat) :
    ownNames (extend s p).2 r = ownNames s r := by
  unfold ownNames extend
  simp only [List.getElem?_append]
  by_cases h : r < s.scopes.length
  · rw [if_pos h]
  · rw [if_neg h]
    have : s.scopes[r]? = none := by simp; omega
    rw [this]
    cases h' : r - s.scopes.length with
    | zero => simp
    | succ n => simp

private theorem scopeChain_extend (s : State) (p : Option Nat) (ρ : Nat) :
    scopeChain (extend s p).2 ρ =
      if ρ = s.scopes.length then
        ρ :: (match p with
              | some q => scopeChain s q
              | none => [])
      else scopeChain s ρ := by
  unfold scopeChain extend
  simp only [List.getElem?_append]
  by_cases hρ : ρ = s.scopes.length
  · subst hρ; simp; cases p <;> rfl
  · rw [if_neg hρ]
    by_cases h : ρ < s.scopes.length
    · rw [if_pos h]
    · rw [if_neg h]
      have : s.scopes[ρ]? = none := by simp; omega
      rw [this]
      cases h' : ρ - s.scopes.length with
      | zero => omega
      | succ n => simp

/-- **`newFrame` refines**: `Store.newFrame` gives the id the spec's `extend` gives (the number
of frames so far - a frame nobody has yet), and the resulting stores are related -/
theorem newFrame_refines {σ : Store} {s : State} (a : Abs σ s) (p : Option Nat) :
    (σ.newFrame p).1 = (extend s p).1 ∧ Abs (σ.newFrame p).2 (extend s p).2 := by
  refine ⟨a.size.symm, ?_, ?_, ?_, ?_, ?_, a.vecs, a.nextV⟩
  · simp [extend, Store.newFrame, a.size]
  · intro ρ
    rw [chain_newFrame, scopeChain_extend, a.size, a.chain]
    cases p with
    | none => rfl
    | some q => simp only [a.chain]
  · intro r x
    rw [binding_newFrame, ownNames_extend]; exact a.binding r x
  · intro r x b h
    rw [ownNames_extend] at h; exact a.fresh r x b h
  · intro r x r' x' b h h'
    rw [ownNames_extend] at h h'; exact a.inj r x r' x' b h h'


/-! ## vectors -/

/-- a change of the vector part only -/
private theorem abs_vecs {σ σ' : Store} {s : State} (a : Abs σ s) (hf : σ'.frames = σ.frames)
    (vecs' : OId → Option (Bool × List Value)) (nextV' : Nat)
    (hv : ∀ i, vecs' i = (σ'.vecs[i]?).map (fun c => (c.mutable, c.items)))
    (hn : nextV' = σ'.vecs.size) :
    Abs σ' { s with vecs := vecs', nextV := nextV' } := by
  refine ⟨?_, ?_, ?_, a.fresh, a.inj, hv, hn⟩
  · rw [hf]; exact a.size
  · intro ρ
    rw [Store.chain_congr (σ := σ) (σ' := σ') (by intro i; rw [hf])]
    exact a.chain ρ
  · intro r x
    have : σ'.binding r x = σ.binding r x := by unfold Store.binding; rw [hf]
    rw [this]; exact a.binding r x

/-- **allocation refines**: `Store.allocVec` returns a reference to the object id the spec's
`allocVec` returns (the number of vectors so far - an id nobody has yet) -/
theorem allocVec_refines {σ : Store} {s : State} (a : Abs σ s) (m : Bool) (items : List Value) :
    (σ.allocVec m items).1 = .vec (AbsStore.allocVec s m items).1 ∧
    Abs (σ.allocVec m items).2 (AbsStore.allocVec s m items).2 := by
  refine ⟨by simp [AbsStore.allocVec, a.nextV], ?_⟩
  refine abs_vecs (σ' := (σ.allocVec m items).2) a rfl _ _ ?_ ?_
  · intro i
    simp only [Store.allocVec, Array.getElem?_push, upd, a.nextV]
    split
    · rfl
    · exact a.vecs i
  · simp [Store.allocVec, a.nextV]

private theorem vectorRef_type {σ : Store} {v k : Value}
    (h : ∀ id n, v = .vec id → k = .num (.int n) → False) :
    Prim.applyPure σ .vectorRef [v, k] = (.error (.type, none), σ) := by
  simp only [Prim.applyPure]
  split
  · split
    · exact absurd rfl (fun e => h _ _ rfl e)
    · rfl
  · rfl

private theorem vectorSet_type {σ : Store} {v k obj : Value}
    (h : ∀ id n, v = .vec id → k = .num (.int n) → False) :
    Prim.applyPure σ .vectorSet [v, k, obj] = (.error (.type, none), σ) := by
  simp only [Prim.applyPure]
  split
  · split
    · exact absurd rfl (fun e => h _ _ rfl e)
    · rfl
  · rfl

/-- **`vector-ref` refines**: the native procedure, on any two operands, yields what the spec's
`vecRefV` yields (item, `type`, `vectorIndex`, or the dangling-reference panic) and leaves the
store alone -/
theorem vecRef_refines {σ : Store} {s : State} (a : Abs σ s) (v k : Value) :
    Prim.applyPure σ .vectorRef [v, k] =
      ((match vecRefV s v k with
        | .ok x => .ok x
        | .error e => .error (e, none) : Except SErr Value), σ) := by
  by_cases h : ∃ id n, v = .vec id ∧ k = .num (.int n)
  · obtain ⟨id, n, rfl, rfl⟩ := h
    show _ = ((match vecRef s id n with
        | .ok x => .ok x
        | .error e => .error (e, none) : Except SErr Value), σ)
    unfold vecRef
    rw [a.vecs]
    cases hc : σ.vecs[id]? with
    | none => simp [Prim.applyPure, hc, Prim.err, dangling]
    | some cell =>
      rw [Prim.vectorRef_outcome hc]
      simp only [Option.map_some]
      split
      · rfl
      · cases cell.items[n.toNat]? <;> rfl
  · have h' : ∀ id n, v = .vec id → k = .num (.int n) → False := fun id n e₁ e₂ => h ⟨id, n, e₁, e₂⟩
    have e₂ : vecRefV s v k = .error .type := by
      unfold vecRefV
      split
      · exact absurd rfl (fun e => h' _ _ rfl e)
      · rfl
    rw [vectorRef_type h', e₂]

/-- **`vector-set!` refines**: the native procedure, on any three operands, yields what the spec's
`vecSetV` yields - `immutable` on an immutable object, `vectorIndex`, `type`, the dangling panic,
all with nothing changed - and on success the resulting stores are related -/
theorem vecSet_refines {σ : Store} {s : State} (a : Abs σ s) (v k obj : Value) :
    (Prim.applyPure σ .vectorSet [v, k, obj]).1 =
      (match (vecSetV s v k obj).1 with
        | .ok _ => .ok .void
        | .error e => .error (e, none)) ∧
    Abs (Prim.applyPure σ .vectorSet [v, k, obj]).2 (vecSetV s v k obj).2 := by
  by_cases h : ∃ id n, v = .vec id ∧ k = .num (.int n)
  · obtain ⟨id, n, rfl, rfl⟩ := h
    show _ = (match (vecSet s id n obj).1 with
        | .ok _ => .ok .void
        | .error e => .error (e, none) : Except SErr Value) ∧ Abs _ (vecSet s id n obj).2
    unfold vecSet
    rw [a.vecs]
    cases hc : σ.vecs[id]? with
    | none => simp [Prim.applyPure, hc, Prim.err, dangling, a]
    | some cell =>
      rw [Prim.vectorSet_outcome hc]
      simp only [Option.map_some]
      split
      · exact ⟨rfl, a⟩
      · split
        · exact ⟨rfl, a⟩
        · refine ⟨rfl, ?_⟩
          refine abs_vecs (σ' := Prim.vsetStore σ id cell n.toNat obj) a rfl _ _ ?_ ?_
          · intro j
            rw [Prim.vsetStore_vecs_getElem?]
            simp only [upd]
            by_cases hj : id = j
            · subst hj
              simp [Store.getElem?_some_lt hc]
            · have : ¬ j = id := fun e => hj e.symm
              simp [hj, this, a.vecs]
          · rw [(Prim.sameExceptCell_vsetStore hc _ _).vecs_size]; exact a.nextV
  · have h' : ∀ id n, v = .vec id → k = .num (.int n) → False := fun id n e₁ e₂ => h ⟨id, n, e₁, e₂⟩
    have e₂ : vecSetV s v k obj = (.error .type, s) := by
      unfold vecSetV
      split
      · exact absurd rfl (fun e => h' _ _ rfl e)
      · rfl
    rw [vectorSet_type h', e₂]
    exact ⟨rfl, a⟩

/-- **`make-vector` refines** (any two operands): `type` for a length that is not an exact
integer, `negativeLength`, or a reference to a fresh mutable object whose every slot is `fill` -/
theorem makeVector_refines {σ : Store} {s : State} (a : Abs σ s) (k fill : Value) :
    (Prim.applyPure σ .makeVector [k, fill]).1 =
      (match (makeVectorV s k fill).1 with
        | .ok id => .ok (.vec id)
        | .error e => .error (e, none)) ∧
    Abs (Prim.applyPure σ .makeVector [k, fill]).2 (makeVectorV s k fill).2 := by
  by_cases h : ∃ n, k = .num (.int n)
  · obtain ⟨n, rfl⟩ := h
    simp only [Prim.applyPure, makeVectorV]
    by_cases hn : n < 0
    · simp only [hn, if_true]; exact ⟨rfl, a⟩
    · simp only [hn, if_false]
      have := allocVec_refines a true (List.replicate n.toNat fill)
      refine ⟨?_, this.2⟩
      simp [Prim.ok, AbsStore.allocVec, a.nextV]
  · have h' : ∀ n, k = .num (.int n) → False := fun n e => h ⟨n, e⟩
    have e₁ : Prim.applyPure σ .makeVector [k, fill] = (.error (.type, none), σ) := by
      simp only [Prim.applyPure]
      first
        | rfl
        | (split
           · exact absurd rfl (h' _)
           · rfl)
    have e₂ : makeVectorV s k fill = (.error .type, s) := by
      unfold makeVectorV
      split
      · exact absurd rfl (h' _)
      · rfl
    rw [e₁, e₂]; exact ⟨rfl, a⟩


/-! ## one operation, then histories -/

private theorem evalSrc_refines {σ : Store} {s : State} (a : Abs σ s) (outs : List Out) (e : Src) :
    evalSrcM σ outs e = evalSrc s outs e := by
  cases e with
  | const v => rfl
  | res k => rfl
  | var ρ x =>
    simp only [evalSrcM, evalSrc, lookup_refines a]
    cases σ.lookup ρ x <;> rfl

private theorem evalSrcs_refines {σ : Store} {s : State} (a : Abs σ s) (outs : List Out) :
    ∀ es : List Src, evalSrcsM σ outs es = evalSrcs s outs es
  | [] => rfl
  | e :: es => by
    simp only [evalSrcsM, evalSrcs, evalSrc_refines a, evalSrcs_refines a outs es]
    rfl

/-- **one operation refines**: from related states, every operation shows the same on the model
as on the spec, and leaves related states -/
theorem step_refines {σ : Store} {s : State} (a : Abs σ s) (outs : List Out) (op : Op) :
    (stepM σ outs op).1 = (step s outs op).1 ∧ Abs (stepM σ outs op).2 (step s outs op).2 := by
  cases op with
  | newFrame p =>
    have := newFrame_refines a p
    refine ⟨?_, this.2⟩
    show Out.frame (σ.newFrame p).1 = Out.frame (extend s p).1
    rw [this.1]
  | callFrame f =>
    simp only [stepM, step, evalSrc_refines a]
    cases evalSrc s outs f with
    | error o => exact ⟨rfl, a⟩
    | ok v =>
      cases v with
      | closure lam scope =>
        have := newFrame_refines a (some scope)
        refine ⟨?_, this.2⟩
        show Out.frame (σ.newFrame (some scope)).1 = Out.frame (extend s (some scope)).1
        rw [this.1]
      | _ => exact ⟨rfl, a⟩
  | define ρ x e =>
    simp only [stepM, step, evalSrc_refines a]
    cases evalSrc s outs e with
    | error o => exact ⟨rfl, a⟩
    | ok v => exact ⟨rfl, define_refines a ρ x v⟩
  | assign ρ x e =>
    simp only [stepM, step, evalSrc_refines a]
    cases evalSrc s outs e with
    | error o => exact ⟨rfl, a⟩
    | ok v =>
      have := assign_refines a ρ x v
      rcases hm : σ.set ρ x v with ⟨b, σ'⟩
      rcases hs : AbsStore.assign s ρ x v with ⟨r, s'⟩
      rw [hm, hs] at this
      simp only [hm, hs]
      cases b with
      | true =>
        have hr : r = .ok () := this.1.1 rfl
        subst hr
        exact ⟨rfl, this.2.2⟩
      | false =>
        have hr : r = .error .unbound := this.2.1.1 rfl
        subst hr
        exact ⟨rfl, this.2.2⟩
  | lookup ρ x =>
    simp only [stepM, step, lookup_refines a]
    cases σ.lookup ρ x <;> exact ⟨rfl, a⟩
  | allocVec m items =>
    simp only [stepM, step, evalSrcs_refines a]
    cases evalSrcs s outs items with
    | error o => exact ⟨rfl, a⟩
    | ok vs =>
      have := allocVec_refines a m vs
      cases m with
      | true =>
        refine ⟨?_, this.2⟩
        show Out.val (σ.allocVec true vs).1 = Out.val (.vec (AbsStore.allocVec s true vs).1)
        rw [this.1]
      | false =>
        refine ⟨?_, this.2⟩
        show Out.val (σ.allocVec false vs).1 = Out.val (.vec (AbsStore.allocVec s false vs).1)
        rw [this.1]
  | makeVector k fill =>
    simp only [stepM, step, evalSrc_refines a]
    cases evalSrc s outs k with
    | error o => exact ⟨rfl, a⟩
    | ok kv =>
      cases evalSrc s outs fill with
      | error o => exact ⟨rfl, a⟩
      | ok fv =>
        have := makeVector_refines a kv fv
        rcases hm : Prim.applyPure σ .makeVector [kv, fv] with ⟨r, σ'⟩
        rcases hs : makeVectorV s kv fv with ⟨r', s'⟩
        rw [hm, hs] at this
        simp only [hm, hs]
        obtain ⟨h₁, h₂⟩ := this
        simp only at h₁ h₂
        subst h₁
        cases r' <;> exact ⟨rfl, h₂⟩
  | vecRef v k =>
    simp only [stepM, step, evalSrc_refines a]
    cases evalSrc s outs v with
    | error o => exact ⟨rfl, a⟩
    | ok vv =>
      cases evalSrc s outs k with
      | error o => exact ⟨rfl, a⟩
      | ok kv =>
        simp only [vecRef_refines a vv kv]
        cases vecRefV s vv kv <;> exact ⟨rfl, a⟩
  | vecSet v k obj =>
    simp only [stepM, step, evalSrc_refines a]
    cases evalSrc s outs v with
    | error o => exact ⟨rfl, a⟩
    | ok vv =>
      cases evalSrc s outs k with
      | error o => exact ⟨rfl, a⟩
      | ok kv =>
        cases evalSrc s outs obj with
        | error o => exact ⟨rfl, a⟩
        | ok ov =>
          have := vecSet_refines a vv kv ov
          rcases hm : Prim.applyPure σ .vectorSet [vv, kv, ov] with ⟨r, σ'⟩
          rcases hs : vecSetV s vv kv ov with ⟨r', s'⟩
          rw [hm, hs] at this
          simp only [hm, hs]
          obtain ⟨h₁, h₂⟩ := this
          simp only at h₁ h₂
          subst h₁
          cases r' <;> exact ⟨rfl, h₂⟩

/-- the fresh interpreter: the root store is read as the initial abstract state -/
theorem abs_init : Abs Store.root init := by
  refine ⟨rfl, ?_, ?_, ?_, ?_, ?_, rfl⟩
  · intro ρ
    cases ρ with
    | zero => rfl
    | succ n => simp [scopeChain, init, Store.chain, Store.chainAux, Store.root]
  · intro r x
    cases r with
    | zero => rfl
    | succ n => simp [ownNames, init, Store.binding, Store.root]
  · intro r x b h
    cases r <;> simp [ownNames, init] at h
  · intro r x r' x' b h
    cases r <;> simp [ownNames, init] at h
  · intro i; simp [init, Store.root]

/-- histories from related states -/
theorem runFrom_refines : ∀ (ops : List Op) {σ : Store} {s : State} (_ : Abs σ s) (outs : List Out),
    (runFromM σ outs ops).1 = (runFrom s outs ops).1 ∧
    Abs (runFromM σ outs ops).2 (runFrom s outs ops).2
  | [], _, _, a, _ => ⟨rfl, a⟩
  | op :: ops, σ, s, a, outs => by
    have h := step_refines a outs op
    simp only [runFromM, runFrom]
    rw [h.1]
    exact runFrom_refines ops h.2 _

/-- **Main theorem of C03.** For EVERY history of operations - new frames and call frames,
definitions, assignments, variable probes through any frame, vector creations (mutable, literal,
`make-vector`), `vector-set!` and `vector-ref` probes through any alias (a constant reference, a
variable of any frame, an earlier result such as an item read out of another vector) - a fresh
interpreter store of the model shows, operation by operation, exactly what the abstract store
shows: values, frame ids, and the errors `unbound`, `immutable`, `vectorIndex`, `type`,
`negativeLength`, `nonProcedure`. -/
theorem history_refines_store_spec (ops : List Op) :
    observe (runModel ops) = observe (runSpec ops) :=
  (runFrom_refines ops abs_init []).1

/-- … and after every history the model's store is still read as the abstract state the spec
reached (so the agreement continues whatever comes next). -/
theorem history_preserves_abs (ops : List Op) : Abs (runModel ops).2 (runSpec ops).2 :=
  (runFrom_refines ops abs_init []).2


/-! ## the hypotheses of the per-operation lemmas are satisfiable

`Abs σ s` holds of the fresh interpreter (`abs_init`) and of the states after any history
(`history_preserves_abs`); here after a history with two frames, a shadowed name and two vectors. -/

/-- a small history used to instantiate the lemmas above -/
def demoOps : List Op :=
  [ .define 0 "x" (.const (.sym "a")),
    .newFrame (some 0),
    .define 1 "x" (.const (.sym "b")),
    .allocVec true [.const .nil, .var 1 "x"],
    .define 0 "v" (.res 3),
    .allocVec false [.res 3] ]

example : Abs (runModel demoOps).2 (runSpec demoOps).2 := history_preserves_abs demoOps

example : Abs ((runModel demoOps).2.define 1 "y" .nil) (AbsStore.define (runSpec demoOps).2 1 "y" .nil) :=
  define_refines (history_preserves_abs demoOps) 1 "y" .nil

example : AbsStore.lookup (runSpec demoOps).2 1 "x" = .ok (.sym "b") ∧
    (runModel demoOps).2.lookup 1 "x" = some (.sym "b") :=
  ⟨by simp [demoOps, runSpec, runFrom, step, evalSrc, evalSrcs, resValue, AbsStore.lookup,
      AbsStore.define, extend, env, scopeChain, ownNames, init, upd, List.lookup, AbsStore.allocVec],
   rfl⟩

example : ((runModel demoOps).2.set 1 "x" .nil).1 = true ∧
    (AbsStore.assign (runSpec demoOps).2 1 "x" .nil).1 = .ok () :=
  ⟨rfl, ((assign_refines (history_preserves_abs demoOps) 1 "x" .nil).1).1 rfl⟩

example : ((runModel demoOps).2.newFrame (some 1)).1 = 2 ∧
    Abs ((runModel demoOps).2.newFrame (some 1)).2 (extend (runSpec demoOps).2 (some 1)).2 :=
  ⟨rfl, (newFrame_refines (history_preserves_abs demoOps) (some 1)).2⟩

example : Abs ((runModel demoOps).2.allocVec true [.nil]).2 (AbsStore.allocVec (runSpec demoOps).2 true [.nil]).2 :=
  (allocVec_refines (history_preserves_abs demoOps) true [.nil]).2

example : Prim.applyPure (runModel demoOps).2 .vectorRef [.vec 0, .num (.int 1)] =
    (.ok (.sym "b"), (runModel demoOps).2) := rfl

example : (Prim.applyPure (runModel demoOps).2 .vectorSet [.vec 1, .num (.int 0), .nil]).1 =
    .error (.immutable, none) := rfl

example : Abs (Prim.applyPure (runModel demoOps).2 .vectorSet [.vec 0, .num (.int 0), .void]).2
    (vecSetV (runSpec demoOps).2 (.vec 0) (.num (.int 0)) .void).2 :=
  (vecSet_refines (history_preserves_abs demoOps) _ _ _).2

example : Abs (Prim.applyPure (runModel demoOps).2 .makeVector [.num (.int 2), .vec 0]).2
    (makeVectorV (runSpec demoOps).2 (.num (.int 2)) (.vec 0)).2 :=
  (makeVector_refines (history_preserves_abs demoOps) _ _).2

example : (stepM (runModel demoOps).2 (runModel demoOps).1 (.lookup 1 "v")).1 =
    (step (runSpec demoOps).2 (runModel demoOps).1 (.lookup 1 "v")).1 :=
  (step_refines (history_preserves_abs demoOps) _ _).1

example : (runFromM (runModel demoOps).2 [] [.lookup 1 "v"]).1 =
    (runFrom (runSpec demoOps).2 [] [.lookup 1 "v"]).1 :=
  (runFrom_refines _ (history_preserves_abs demoOps) []).1

/-! ## consequences, read off the abstract store

Each scenario is a history run on the MODEL; its observation is obtained by rewriting with
`history_refines_store_spec` and evaluating the abstract store. Values are arbitrary. -/

/-- an exact-integer operand -/
def int (n : Int) : Src := .const (.num (.int n))

/-- evaluate a closed history on the abstract store -/
local macro "spec_eval" : tactic =>
  `(tactic| simp [observe, runSpec, runFrom, step, evalSrc, evalSrcs, resValue, AbsStore.lookup,
      AbsStore.assign, AbsStore.define, extend, env, scopeChain, ownNames, init, upd, List.lookup,
      AbsStore.allocVec, vecRefV, vecSetV, makeVectorV, vecRef, vecSet, dangling, int, List.replicate])

/-- **Two closures sharing one frame see each other's assignment.** Frame 1 (made inside the
global frame) defines `n`; two closures over frame 1 are stored in the globals `inc` and `get`.
A call of `inc` (frame 2, inside frame 1) does `(set! n w)`; a later call of `get` (frame 3, a
different frame inside frame 1) then reads `n` as `w`, as does frame 1 itself; the global frame
never had an `n`. -/
theorem closures_sharing_a_frame (v w : Value) (l₁ l₂ : Lambda) :
    observe (runModel
      [ .newFrame (some 0),
        .define 1 "n" (.const v),
        .define 0 "inc" (.const (.closure l₁ 1)),
        .define 0 "get" (.const (.closure l₂ 1)),
        .callFrame (.var 0 "inc"),
        .assign 2 "n" (.const w),
        .callFrame (.var 0 "get"),
        .lookup 3 "n",
        .lookup 1 "n",
        .lookup 0 "n" ])
    = [.frame 1, .done, .done, .done, .frame 2, .done, .frame 3, .val w, .val w, .err .unbound] := by
  rw [history_refines_store_spec]; spec_eval

/-- **A shadowing inner definition hides the outer binding from assignment.** The global frame and
frame 1 both define `x`; `(set! x w)` from frame 2 (inside frame 1) changes frame 1's `x` only:
the global frame and a sibling frame 3 still read the global value `v₀`. A second `define` of `x`
in frame 1 re-uses frame 1's binding (frame 2 sees it), again leaving the global `x` alone. -/
theorem shadowing_hides_outer_binding (v₀ v₁ w u : Value) :
    observe (runModel
      [ .define 0 "x" (.const v₀),
        .newFrame (some 0),
        .define 1 "x" (.const v₁),
        .newFrame (some 1),
        .lookup 2 "x",
        .assign 2 "x" (.const w),
        .lookup 0 "x",
        .lookup 1 "x",
        .lookup 2 "x",
        .newFrame (some 0),
        .lookup 3 "x",
        .define 1 "x" (.const u),
        .lookup 2 "x",
        .lookup 0 "x",
        .assign 3 "y" (.const u) ])
    = [.done, .frame 1, .done, .frame 2, .val v₁, .done, .val v₀, .val w, .val w, .frame 3, .val v₀,
       .done, .val u, .val v₀, .err .unbound] := by
  rw [history_refines_store_spec]; spec_eval

/-- **Two names and two containers holding one vector see each other's `vector-set!`.** Vector #0 is
bound to `v`, then to `w` (in another frame) by copying the VALUE of `v`; it is also stored as an
item of vector #1 and as the fill of `(make-vector 2 v)` = vector #2. A `vector-set!` through `w`
is read back through `v`, through the item taken out of #1, and through both slots of #2; a
`vector-set!` through a slot of #2 is read back through `v`. A second vector with equal
contents (#3) is a different object and is not affected. -/
theorem vector_aliases (a b c d : Value) :
    observe (runModel
      [ .allocVec true [.const a, .const b],          -- 0: #0
        .define 0 "v" (.res 0),
        .newFrame (some 0),                            -- 2: frame 1
        .define 1 "w" (.var 1 "v"),
        .allocVec true [.var 0 "v"],                   -- 4: #1 = #(#0)
        .makeVector (int 2) (.var 0 "v"),              -- 5: #2 = #(#0 #0)
        .allocVec true [.const a, .const b],           -- 6: #3, equal contents
        .vecSet (.var 1 "w") (int 1) (.const c),       -- 7
        .vecRef (.var 0 "v") (int 1),                  -- 8: c
        .vecRef (.res 4) (int 0),                      -- 9: #0
        .vecRef (.res 9) (int 1),                      -- 10: c
        .vecRef (.res 5) (int 1),                      -- 11: #0
        .vecSet (.res 11) (int 0) (.const d),          -- 12
        .vecRef (.var 0 "v") (int 0),                  -- 13: d
        .vecRef (.res 5) (int 0),                      -- 14: #0
        .vecRef (.res 14) (int 0),                     -- 15: d
        .vecRef (.res 6) (int 0),                      -- 16: a
        .vecRef (.res 6) (int 1) ])                    -- 17: b
    = [.val (.vec 0), .done, .frame 1, .done, .val (.vec 1), .val (.vec 2), .val (.vec 3), .done,
       .val c, .val (.vec 0), .val c, .val (.vec 0), .done, .val d, .val (.vec 0), .val d,
       .val a, .val b] := by
  rw [history_refines_store_spec]; spec_eval

/-- **`vector-set!` on an immutable (literal) vector is the `immutable` error and changes
nothing**, through a name as well as through the reference itself, and whatever the index
(the mutability check comes before the range check); reads still work and give the old items.
The other vector errors for comparison: index out of range or negative, operands of the wrong
type, a reference to a vector that was never made (impossible in the Rust code; a panic in the
model), a negative length. -/
theorem literal_vector_is_immutable (a b c : Value) :
    observe (runModel
      [ .allocVec false [.const a, .const b],          -- 0: literal #0
        .define 0 "lit" (.res 0),
        .vecSet (.var 0 "lit") (int 0) (.const c),     -- immutable
        .vecSet (.res 0) (int 7) (.const c),           -- immutable (not vectorIndex)
        .vecRef (.var 0 "lit") (int 0),                -- a
        .vecRef (.var 0 "lit") (int 1),                -- b
        .allocVec true [.var 0 "lit"],                 -- 6: mutable #1 holding the literal
        .vecRef (.res 6) (int 0),                      -- 7: #0
        .vecSet (.res 7) (int 0) (.const c),           -- immutable, through the container
        .vecSet (.res 6) (int 0) (.const c),           -- the container itself is mutable
        .vecRef (.res 6) (int 0),                      -- c
        .vecRef (.res 0) (int 0),                      -- a: the literal is unchanged
        .vecSet (.res 6) (int 1) (.const c),           -- vectorIndex
        .vecRef (.res 6) (int (-1)),                   -- vectorIndex
        .vecRef (.const (.sym "v")) (int 0),           -- type: not a vector
        .vecSet (.res 6) (.const (.sym "k")) (.const c), -- type: not an exact integer
        .vecRef (.const (.vec 9)) (int 0),             -- a reference nobody made: dangling
        .makeVector (int (-1)) (.const a) ])           -- negativeLength
    = [.val (.vec 0), .done, .err .immutable, .err .immutable, .val a, .val b, .val (.vec 1),
       .val (.vec 0), .err .immutable, .done, .val c, .val a, .err .vectorIndex, .err .vectorIndex,
       .err .type, .err .type, .err (.panic "dangling vector"), .err .negativeLength] := by
  rw [history_refines_store_spec]; spec_eval


/-! ## a fresh frame per `newFrame`, for every history -/

/-- the frame ids a list of observations shows, in order -/
def frameIds (outs : List Out) : List Nat :=
  outs.filterMap (fun o => match o with
    | .frame id => some id
    | _ => none)

private theorem define_scopes_length (s : State) (ρ : Nat) (x : String) (v : Value) :
    (AbsStore.define s ρ x v).scopes.length = s.scopes.length := by
  unfold AbsStore.define
  split
  · rfl
  · split
    · rfl
    · simp

private theorem assign_scopes (s : State) (ρ : Nat) (x : String) (v : Value) :
    (AbsStore.assign s ρ x v).2.scopes = s.scopes := by
  unfold AbsStore.assign; split <;> rfl

private theorem makeVectorV_scopes (s : State) (k fill : Value) :
    (makeVectorV s k fill).2.scopes = s.scopes := by
  unfold makeVectorV
  split
  · split <;> rfl
  · rfl

private theorem vecSetV_scopes (s : State) (v k obj : Value) : (vecSetV s v k obj).2.scopes = s.scopes := by
  unfold vecSetV
  split
  · unfold vecSet
    split
    · rfl
    · split
      · rfl
      · split <;> rfl
  · rfl

/-- an operation of the spec either shows no frame and keeps the number of scopes, or shows the
number of scopes so far as the new frame's id and adds one scope -/
private theorem step_frames (s : State) (outs : List Out) (op : Op) :
    ((step s outs op).2.scopes.length = s.scopes.length ∧ ∀ id, (step s outs op).1 ≠ .frame id) ∨
    ((step s outs op).1 = .frame s.scopes.length ∧
      (step s outs op).2.scopes.length = s.scopes.length + 1) := by
  have evalSrc_noframe : ∀ (e : Src) (o : Out), evalSrc s outs e = .error o → ∀ id, o ≠ .frame id := by
    intro e o h id
    cases e with
    | const v => simp [evalSrc] at h
    | var ρ x =>
      simp only [evalSrc] at h
      split at h
      · cases h
      · cases h; simp
    | res k =>
      simp only [evalSrc, resValue] at h
      split at h
      · cases h
      · cases h; simp
  have evalSrcs_noframe : ∀ (es : List Src) (o : Out), evalSrcs s outs es = .error o →
      ∀ id, o ≠ .frame id := by
    intro es
    induction es with
    | nil => intro o h; simp [evalSrcs] at h
    | cons e es ih =>
      intro o h
      simp only [evalSrcs] at h
      split at h
      · rename_i o' he; cases h; exact evalSrc_noframe e _ he
      · split at h
        · rename_i o' hes; cases h; exact ih _ hes
        · cases h
  cases op with
  | newFrame p => right; exact ⟨rfl, by simp [step, extend]⟩
  | callFrame f =>
    simp only [step]
    split
    · rename_i o h; left; exact ⟨rfl, evalSrc_noframe f o h⟩
    · right; exact ⟨rfl, by simp [extend]⟩
    · left; exact ⟨rfl, by simp⟩
  | define ρ x e =>
    simp only [step]
    split
    · rename_i o h; left; exact ⟨rfl, evalSrc_noframe e o h⟩
    · left; exact ⟨define_scopes_length .., by simp⟩
  | assign ρ x e =>
    simp only [step]
    split
    · rename_i o h; left; exact ⟨rfl, evalSrc_noframe e o h⟩
    · split
      · rename_i h; left; refine ⟨?_, by simp⟩
        have e := congrArg (fun p => p.2.scopes.length) h
        simp only [assign_scopes] at e; exact e.symm
      · rename_i h; left; refine ⟨?_, by simp⟩
        have e := congrArg (fun p => p.2.scopes.length) h
        simp only [assign_scopes] at e; exact e.symm
  | lookup ρ x =>
    simp only [step]
    split <;> (left; exact ⟨rfl, by simp⟩)
  | allocVec m items =>
    simp only [step]
    split
    · rename_i o h; left; exact ⟨rfl, evalSrcs_noframe items o h⟩
    · left; exact ⟨rfl, by simp [AbsStore.allocVec]⟩
  | makeVector k fill =>
    simp only [step]
    split
    · rename_i o h; left; exact ⟨rfl, evalSrc_noframe k o h⟩
    · split
      · rename_i o h; left; exact ⟨rfl, evalSrc_noframe fill o h⟩
      · split
        · rename_i h; left; refine ⟨?_, by simp⟩
          have e := congrArg (fun p => p.2.scopes.length) h
          simp only [makeVectorV_scopes] at e; exact e.symm
        · rename_i h; left; refine ⟨?_, by simp⟩
          have e := congrArg (fun p => p.2.scopes.length) h
          simp only [makeVectorV_scopes] at e; exact e.symm
  | vecRef v k =>
    simp only [step]
    split
    · rename_i o h; left; exact ⟨rfl, evalSrc_noframe v o h⟩
    · split
      · rename_i o h; left; exact ⟨rfl, evalSrc_noframe k o h⟩
      · split <;> (left; exact ⟨rfl, by simp⟩)
  | vecSet v k obj =>
    simp only [step]
    split
    · rename_i o h; left; exact ⟨rfl, evalSrc_noframe v o h⟩
    · split
      · rename_i o h; left; exact ⟨rfl, evalSrc_noframe k o h⟩
      · split
        · rename_i o h; left; exact ⟨rfl, evalSrc_noframe obj o h⟩
        · split
          · rename_i h; left; refine ⟨?_, by simp⟩
            have e := congrArg (fun p => p.2.scopes.length) h
            simp only [vecSetV_scopes] at e; exact e.symm
          · rename_i h; left; refine ⟨?_, by simp⟩
            have e := congrArg (fun p => p.2.scopes.length) h
            simp only [vecSetV_scopes] at e; exact e.symm


private theorem frameIds_snoc_other (outs : List Out) (o : Out) (h : ∀ id, o ≠ .frame id) :
    frameIds (outs ++ [o]) = frameIds outs := by
  cases o with
  | frame id => exact absurd rfl (h id)
  | _ => simp [frameIds, List.filterMap_append]

private theorem frameIds_snoc_frame (outs : List Out) (id : Nat) :
    frameIds (outs ++ [.frame id]) = frameIds outs ++ [id] := by
  simp [frameIds, List.filterMap_append]

private theorem runFrom_frames : ∀ (ops : List Op) (s : State) (outs : List Out),
    0 < s.scopes.length → (∀ id ∈ frameIds outs, 0 < id ∧ id < s.scopes.length) →
    (frameIds outs).Pairwise (· < ·) →
    (∀ id ∈ frameIds (runFrom s outs ops).1, 0 < id ∧ id < (runFrom s outs ops).2.scopes.length) ∧
    (frameIds (runFrom s outs ops).1).Pairwise (· < ·)
  | [], _, _, _, h1, h2 => ⟨h1, h2⟩
  | op :: ops, s, outs, h0, h1, h2 => by
    simp only [runFrom]
    rcases step_frames s outs op with ⟨hl, hn⟩ | ⟨hf, hl⟩
    · have e := frameIds_snoc_other outs _ hn
      apply runFrom_frames ops
      · rw [hl]; exact h0
      · rw [e, hl]; exact h1
      · rw [e]; exact h2
    · have e : frameIds (outs ++ [(step s outs op).1]) = frameIds outs ++ [s.scopes.length] := by
        rw [hf]; exact frameIds_snoc_frame outs _
      apply runFrom_frames ops
      · omega
      · rw [e, hl]
        intro id hid
        simp only [List.mem_append, List.mem_singleton] at hid
        rcases hid with h | rfl
        · have := h1 id h; omega
        · omega
      · rw [e, List.pairwise_append]
        refine ⟨h2, by simp, ?_⟩
        intro a ha b hb
        simp only [List.mem_singleton] at hb
        subst hb
        exact (h1 a ha).2

/-- **A fresh frame per `newFrame`, in every history.** The frame ids a history shows (one per
`newFrame` and per `callFrame` of a closure) are strictly increasing - so no two of them are
equal -, none is the global frame 0, and all are frames of the model's final store. -/
theorem fresh_frame_per_newFrame (ops : List Op) :
    (frameIds (observe (runModel ops))).Pairwise (· < ·) ∧
    ∀ id ∈ frameIds (observe (runModel ops)), 0 < id ∧ id < (runModel ops).2.frames.size := by
  rw [history_refines_store_spec, ← (history_preserves_abs ops).size]
  have := runFrom_frames ops init [] (by simp [init]) (by simp [frameIds]) (by simp [frameIds])
  exact ⟨this.2, this.1⟩

private theorem runFromM_append : ∀ (ops : List Op) (σ : Store) (outs : List Out) (ops' : List Op),
    runFromM σ outs (ops ++ ops') = runFromM (runFromM σ outs ops).2 (runFromM σ outs ops).1 ops'
  | [], _, _, _ => rfl
  | op :: ops, σ, outs, ops' => by
    simp only [List.cons_append, runFromM]
    exact runFromM_append ops _ _ ops'

/-- a history followed by one more operation -/
theorem runModel_snoc (ops : List Op) (op : Op) :
    runModel (ops ++ [op]) =
      ((runModel ops).1 ++ [(stepM (runModel ops).2 (runModel ops).1 op).1],
       (stepM (runModel ops).2 (runModel ops).1 op).2) := by
  unfold runModel
  rw [runFromM_append]
  rfl

/-- … and the `newFrame` that follows ANY history shows a frame (it cannot fail) whose id no earlier
operation of the history has shown. -/
theorem newFrame_after_history (ops : List Op) (p : Option Nat) :
    observe (runModel (ops ++ [.newFrame p])) =
      observe (runModel ops) ++ [.frame (runModel ops).2.frames.size] ∧
    (runModel ops).2.frames.size ∉ frameIds (observe (runModel ops)) := by
  refine ⟨by rw [runModel_snoc]; rfl, fun h => ?_⟩
  exact Nat.lt_irrefl _ ((fresh_frame_per_newFrame ops).2 _ h).2

example : frameIds (observe (runModel [.newFrame none, .lookup 0 "x", .newFrame (some 1),
    .callFrame (.const (.closure default 0))])) = [1, 2, 3] := by
  rw [history_refines_store_spec]; spec_eval; simp [frameIds]

/-! ## a failed `vector-set!` changes nothing, after every history -/

private theorem stepM_vecSet_err {σ : Store} {outs : List Out} {v k obj : Src} {e : Err}
    (h : (stepM σ outs (.vecSet v k obj)).1 = .err e) : (stepM σ outs (.vecSet v k obj)).2 = σ := by
  simp only [stepM] at h ⊢
  cases hv : evalSrcM σ outs v with
  | error o => rfl
  | ok vv =>
    simp only [hv] at h ⊢
    cases hk : evalSrcM σ outs k with
    | error o => rfl
    | ok kv =>
      simp only [hk] at h ⊢
      cases ho : evalSrcM σ outs obj with
      | error o => rfl
      | ok ov =>
        simp only [ho] at h ⊢
        rcases hp : Prim.applyPure σ .vectorSet [vv, kv, ov] with ⟨r, σ'⟩
        simp only [hp] at h ⊢
        rcases Prim.applyPure_vectorSet_shape hp with ⟨rfl, _⟩ | ⟨_, _, _, _, _, _, _, _, _, _, hr, _⟩
        · cases r with
          | ok _ => rfl
          | error e' => rfl
        · subst hr
          simp at h

/-- **A rejected `vector-set!` changes nothing.** After any history, a `vector-set!` (operands of
any kind) that shows an error - `immutable` for a literal vector, `vectorIndex`, `type`, an
unbound operand - leaves the model's whole store exactly as it was. -/
theorem failed_vector_set_changes_nothing (ops : List Op) (v k obj : Src) (e : Err)
    (h : observe (runModel (ops ++ [.vecSet v k obj])) = observe (runModel ops) ++ [.err e]) :
    (runModel (ops ++ [.vecSet v k obj])).2 = (runModel ops).2 := by
  rw [runModel_snoc] at h ⊢
  simp only [observe, List.append_cancel_left_eq, List.cons.injEq, and_true] at h
  exact stepM_vecSet_err h

/-- the hypothesis holds for the literal vector of `literal_vector_is_immutable` -/
example (a c : Value) :
    observe (runModel ([.allocVec false [.const a]] ++ [.vecSet (.res 0) (int 0) (.const c)])) =
      observe (runModel [.allocVec false [.const a]]) ++ [.err .immutable] := by
  rw [history_refines_store_spec, history_refines_store_spec]; spec_eval

end Ruschm.C03More

/-
Helper definitions and lemmas for `RuschmProofs/C15More.lean` (property C15 at the level of program
TEXT): the EXTENT of the i-th top-level form of `programText sts layout`, and the facts that tie the
positions the lexer gives to the tokens (`FrontSpec.locate`, `all_render_located`) and the reader
gives to the data (`C15.reader_locs_from_tokens`) to these extents.

The text-level vocabulary — `runStmts`, `printStmt`, `okStmt`, `formsToks`, `formsText`, `programToks`,
`programText`, `PrintsAs`, `ReadsAs`, `CoreShape`, `astInner`, `astPost` — is THE ONE of
`ProgramTextLemmas.lean` (namespace `Ruschm.ProgramText`, opened here), i.e. the one `C17More.lean`
speaks about.

Vocabulary defined here:
* `posLt` / `posLe`  — the order of positions in a text: by line, then by column;
* `textThrough ts l` — the text `a₀ t₁ a₁ … tₙ` up to and including the last token of `ts` (the
                       prefix of `Text.interleave ts l` that ends with the last token);
* `extent sts layout i` — the pair (position at which the first token of form `i` starts, cursor
                       after its last token), both as `Text.advs` of a prefix of the program text;
* `Within ext l`     — `ext.1 < l ≤ ext.2`: `l` is the cursor after a non-empty piece of the form;
* `NoLib st.rlocs`  — (`LibNamePosLemmas.lean`) the state holds no position in the role of a library name.
-/
import RuschmProofs.C15
import RuschmProofs.ProgramTextLemmas
import RuschmProofs.LibNamePosLemmas

set_option linter.unusedSimpArgs false
set_option linter.unusedVariables false

namespace Ruschm.TextExtent
open Ruschm Ruschm.Interp Ruschm.Front Ruschm.FrontSpec Ruschm.Xform Ruschm.CoreSyntax Ruschm.Text
open Ruschm.Lex (adv)
open Ruschm.ProgramText
open Ruschm.LibNamePos (NoLib evalAst_noLib noLib_nil)

/-! # positions and extents -/

/-! ## the order of positions -/

/-- `a` is before `b` in a text: on an earlier line, or on the same line in an earlier column -/
def posLt (a b : Pos) : Prop := a.1 < b.1 ∨ (a.1 = b.1 ∧ a.2 < b.2)

/-- `a` is before `b` or at `b` -/
def posLe (a b : Pos) : Prop := a.1 < b.1 ∨ (a.1 = b.1 ∧ a.2 ≤ b.2)

instance (a b : Pos) : Decidable (posLt a b) := by unfold posLt; infer_instance
instance (a b : Pos) : Decidable (posLe a b) := by unfold posLe; infer_instance

theorem posLe_refl (a : Pos) : posLe a a := Or.inr ⟨rfl, Nat.le_refl _⟩
theorem posLt_le {a b : Pos} (h : posLt a b) : posLe a b := by
  unfold posLt at h; unfold posLe; omega
theorem posLe_trans {a b c : Pos} (h1 : posLe a b) (h2 : posLe b c) : posLe a c := by
  unfold posLe at *; omega
theorem posLt_of_lt_le {a b c : Pos} (h1 : posLt a b) (h2 : posLe b c) : posLt a c := by
  unfold posLe posLt at *; omega
theorem posLt_of_le_lt {a b c : Pos} (h1 : posLe a b) (h2 : posLt b c) : posLt a c := by
  unfold posLe posLt at *; omega
theorem posLt_irrefl_of_le {a b : Pos} (h1 : posLt a b) (h2 : posLe b a) : False := by
  unfold posLe posLt at *; omega

theorem adv_lt (c : Char) (p : Pos) : posLt p (adv c p) := by
  unfold adv posLt
  by_cases h : c = '\n' <;> simp [h]

theorem advs_le : ∀ (cs : List Char) (p : Pos), posLe p (advs cs p)
  | [], p => posLe_refl p
  | c :: cs, p => posLe_trans (posLt_le (adv_lt c p)) (advs_le cs (adv c p))

theorem advs_lt : ∀ (cs : List Char) (p : Pos), cs ≠ [] → posLt p (advs cs p)
  | [], _, h => absurd rfl h
  | c :: cs, p, _ => posLt_of_lt_le (adv_lt c p) (advs_le cs (adv c p))

/-- the cursor after a prefix is at or before the cursor after the whole -/
theorem advs_prefix_le {pre full : List Char} (h : pre <+: full) (p : Pos) :
    posLe (advs pre p) (advs full p) := by
  obtain ⟨r, rfl⟩ := h
  rw [advs_append]
  exact advs_le r _

/-! ## the text up to a token -/

/-- `a₀ t₁ a₁ t₂ … tₙ`: the text of the tokens `ts` with the separators of `l` before each of them,
up to and including the last token (no separator after it) -/
def textThrough : List Token → List (List Char) → List Char
  | [], _ => []
  | t :: ts, l => l.headD [] ++ (renderTok t ++ textThrough ts l.tail)

theorem textThrough_append : ∀ (a b : List Token) (l : List (List Char)),
    textThrough (a ++ b) l = textThrough a l ++ textThrough b (l.drop a.length)
  | [], b, l => rfl
  | t :: a, b, l => by
    simp only [List.cons_append, textThrough, List.length_cons, textThrough_append a b l.tail,
      List.append_assoc]
    cases l <;> simp

theorem interleave_append : ∀ (a b : List Token) (l : List (List Char)),
    interleave (a ++ b) l = textThrough a l ++ interleave b (l.drop a.length)
  | [], b, l => rfl
  | t :: a, b, l => by
    simp only [List.cons_append, interleave, textThrough, List.length_cons, interleave_append a b l.tail,
      List.append_assoc]
    cases l <;> simp

theorem textThrough_prefix (ts : List Token) (l : List (List Char)) :
    textThrough ts l <+: interleave ts l := by
  have := interleave_append ts [] l
  rw [List.append_nil] at this
  rw [this]
  exact List.prefix_append _ _

theorem locate_append : ∀ (a b : List Token) (l : List (List Char)) (p : Pos),
    locate (a ++ b) l p = locate a l p ++ locate b (l.drop a.length) (advs (textThrough a l) p)
  | [], b, l, p => rfl
  | t :: a, b, l, p => by
    simp only [List.cons_append, locate, textThrough, List.length_cons, locate_append a b l.tail, advs_append]
    cases l <;> simp

theorem locate_toks : ∀ (ts : List Token) (l : List (List Char)) (p : Pos),
    (locate ts l p).map (·.tok) = ts
  | [], _, _ => rfl
  | t :: ts, l, p => by simp [locate, locate_toks ts]

theorem locate_length (ts : List Token) (l : List (List Char)) (p : Pos) :
    (locate ts l p).length = ts.length := by
  rw [← List.length_map (f := (·.tok)), locate_toks]

/-- every token written from the cursor `p` is located after `p` plus the first separator, and at or
before the cursor after the last token -/
theorem locate_within : ∀ (ts : List Token) (l : List (List Char)) (p : Pos),
    (∀ t ∈ ts, SupportedTok t) →
    ∀ x ∈ tokLocs (locate ts l p), posLt (advs (l.headD []) p) x ∧ posLe x (advs (textThrough ts l) p)
  | [], _, _, _, x, hx => by simp [locate, tokLocs] at hx
  | t :: ts, l, p, hs, x, hx => by
    have hpos : renderTok t ≠ [] := by
      have := renderTok_length_pos t (hs t (by simp))
      intro h; rw [h] at this; simp at this
    simp only [locate, tokLocs, List.flatMap_cons, Option.toList_some, List.mem_append,
      List.mem_singleton] at hx
    simp only [textThrough, advs_append]
    rcases hx with rfl | hx
    · exact ⟨advs_lt _ _ hpos, advs_le _ _⟩
    · have ih := locate_within ts l.tail (advs (renderTok t) (advs (l.headD []) p))
        (fun t' ht' => hs t' (by simp [ht'])) x hx
      refine ⟨?_, ih.2⟩
      exact posLt_of_lt_le (advs_lt _ _ hpos) (posLe_trans (advs_le _ _) (posLt_le ih.1))

/-! ## the tokens of a program, form by form -/

theorem toksL_append : ∀ (a b : List Syn), Syn.toksL (a ++ b) = Syn.toksL a ++ Syn.toksL b
  | [], b => rfl
  | x :: a, b => by simp [Syn.toksL, toksL_append a b]

theorem formsToks_append (a b : List Datum) : formsToks (a ++ b) = formsToks a ++ formsToks b := by
  simp [formsToks, toksL_append]

theorem programToks_append (a b : List Statement) :
    programToks (a ++ b) = programToks a ++ programToks b := by
  simp [programToks, formsToks_append]

/-- the tokens of one form -/
def stmtToks (s : Statement) : List Token := (Syn.ofDatum (printStmt s)).toks

theorem programToks_cons (s : Statement) (ss : List Statement) :
    programToks (s :: ss) = stmtToks s ++ programToks ss := by
  simp [programToks, formsToks, Syn.toksL, stmtToks]

theorem programToks_nil : programToks [] = [] := rfl

/-! ## extents -/

/-- THE EXTENT of the `i`-th top-level form (0-based) of `programText sts layout`: the position
`Text.advs` assigns (from line 1, column 1) to the place where its first token starts — the cursor
after the text of the earlier forms and the separator before that token — and the cursor after its
last token. Both are cursors after a prefix of the program text. -/
def extent (sts : List Statement) (layout : List (List Char)) (i : Nat) : Pos × Pos :=
  (advs (textThrough (programToks (sts.take i)) layout ++ layout.getD (programToks (sts.take i)).length [])
      (1, 1),
   advs (textThrough (programToks (sts.take (i + 1))) layout) (1, 1))

/-- `l` lies within the extent: strictly after the start of the first token, at or before the cursor
after the last token. (The positions the interpreter reports are cursors AFTER a token; the cursor
after the first token of the form is already strictly behind the form's start.) -/
def Within (ext : Pos × Pos) (l : Pos) : Prop := posLt ext.1 l ∧ posLe l ext.2

instance (ext : Pos × Pos) (l : Pos) : Decidable (Within ext l) := by unfold Within; infer_instance

theorem headD_drop (l : List (List Char)) (n : Nat) : (l.drop n).headD [] = l.getD n [] := by
  induction l generalizing n with
  | nil => simp
  | cons a l ih =>
    cases n with
    | zero => simp
    | succ n => simpa using ih n

/-- the extent of form `|pre|` of `pre ++ s :: post`, in terms of the cursor where `pre` ends -/
theorem extent_at (pre post : List Statement) (s : Statement) (layout : List (List Char)) :
    extent (pre ++ s :: post) layout pre.length =
      (advs ((layout.drop (programToks pre).length).headD []) (advs (textThrough (programToks pre) layout) (1, 1)),
       advs (textThrough (stmtToks s) (layout.drop (programToks pre).length))
         (advs (textThrough (programToks pre) layout) (1, 1))) := by
  have h1 : (pre ++ s :: post).take pre.length = pre := by simp
  have h2 : (pre ++ s :: post).take (pre.length + 1) = pre ++ [s] := by
    rw [List.take_length_add_append]; simp
  unfold extent
  rw [h1, h2, programToks_append, programToks_cons, programToks_nil, List.append_nil,
    textThrough_append, advs_append, advs_append, headD_drop]

/-- the extent of an earlier form does not depend on what follows -/
theorem extent_prefix (pre rest : List Statement) (layout : List (List Char)) (j : Nat) (hj : j < pre.length) :
    extent (pre ++ rest) layout j = extent pre layout j := by
  have h1 : (pre ++ rest).take j = pre.take j := List.take_append_of_le_length (by omega)
  have h2 : (pre ++ rest).take (j + 1) = pre.take (j + 1) := List.take_append_of_le_length (by omega)
  unfold extent
  rw [h1, h2]

/-- every token position of the text of `sts` lies within the extent of one of its forms -/
theorem locate_in_some_extent (layout : List (List Char)) : ∀ (sts : List Statement),
    (∀ t ∈ programToks sts, SupportedTok t) →
    ∀ x ∈ tokLocs (locate (programToks sts) layout (1, 1)), ∃ j, j < sts.length ∧ Within (extent sts layout j) x := by
  intro sts
  generalize hn : sts.length = n
  induction n generalizing sts with
  | zero =>
    intro _ x hx
    have : sts = [] := List.eq_nil_of_length_eq_zero hn
    subst this
    simp [programToks_nil, locate, tokLocs] at hx
  | succ n ih =>
    intro hs x hx
    have hne : sts ≠ [] := by intro h; subst h; simp at hn
    obtain ⟨pre, s, rfl⟩ : ∃ pre s, sts = pre ++ [s] :=
      ⟨sts.dropLast, sts.getLast hne, (List.dropLast_concat_getLast hne).symm⟩
    have hlen : pre.length = n := by simp at hn; exact hn
    rw [programToks_append, programToks_cons, programToks_nil, List.append_nil] at hs hx
    rw [locate_append, ReadLoc.tokLocs_append, List.mem_append] at hx
    rcases hx with hx | hx
    · obtain ⟨j, hj, hw⟩ := ih pre hlen (fun t ht => hs t (List.mem_append_left _ ht)) x hx
      exact ⟨j, by omega, by rw [extent_prefix pre [s] layout j (by omega)]; exact hw⟩
    · refine ⟨pre.length, by omega, ?_⟩
      rw [extent_at pre [] s layout]
      exact locate_within _ _ _ (fun t ht => hs t (List.mem_append_right _ ht)) x hx

/-! ## the order of the extents -/

theorem programToks_supported (sts : List Statement) (hsup : ∀ s ∈ sts, SupportedD (printStmt s)) :
    ∀ t ∈ programToks sts, SupportedTok t := by
  have hsup' : ∀ p ∈ sts.map printStmt, SupportedD p := by
    intro p hp'
    obtain ⟨s, hs, rfl⟩ := List.mem_map.1 hp'
    exact hsup s hs
  exact toksL_supported _ (supportedL_ofDatums _ hsup')

theorem stmtToks_ne_nil (s : Statement) : stmtToks s ≠ [] := by
  intro h
  have := need_le (Syn.ofDatum (printStmt s))
  unfold stmtToks at h
  rw [h] at this
  simp at this

theorem split_at (sts : List Statement) (i : Nat) (hi : i < sts.length) :
    ∃ pre s post, sts = pre ++ s :: post ∧ pre.length = i :=
  ⟨sts.take i, sts[i], sts.drop (i + 1), by simp, by simp; omega⟩

theorem programToks_take_prefix (sts : List Statement) {i j : Nat} (h : i ≤ j) :
    programToks (sts.take i) <+: programToks (sts.take j) := by
  obtain ⟨r, hr⟩ := List.take_prefix_take_left (l := sts) h
  rw [← hr, programToks_append]
  exact List.prefix_append _ _

theorem textThrough_mono {a b : List Token} (h : a <+: b) (l : List (List Char)) :
    textThrough a l <+: textThrough b l := by
  obtain ⟨r, rfl⟩ := h
  rw [textThrough_append]
  exact List.prefix_append _ _

theorem extent_start_lt_end (sts : List Statement) (layout : List (List Char)) (i : Nat) (hi : i < sts.length)
    (hsup : ∀ s ∈ sts, SupportedD (printStmt s)) :
    posLt (extent sts layout i).1 (extent sts layout i).2 := by
  obtain ⟨pre, s, post, rfl, rfl⟩ := split_at sts i hi
  have htoks := programToks_supported _ hsup
  rw [programToks_append, programToks_cons] at htoks
  rw [extent_at]
  simp only
  have hne := stmtToks_ne_nil s
  cases hst : stmtToks s with
  | nil => exact absurd hst hne
  | cons t ts =>
    have ht : SupportedTok t := htoks t (by rw [hst]; simp)
    have hpos : renderTok t ≠ [] := by
      have := renderTok_length_pos t ht
      intro h; rw [h] at this; simp at this
    simp only [textThrough, advs_append]
    exact posLt_of_lt_le (advs_lt _ _ hpos) (advs_le _ _)

theorem extent_end_le_text (sts : List Statement) (layout : List (List Char)) (i : Nat) :
    posLe (extent sts layout i).2 (advs (programText sts layout) (1, 1)) := by
  unfold extent
  simp only
  apply advs_prefix_le
  have h1 : programToks (sts.take (i + 1)) <+: programToks sts := by
    have := programToks_take_prefix sts (i := i + 1) (j := max (i + 1) sts.length) (Nat.le_max_left _ _)
    rw [List.take_of_length_le (Nat.le_max_right _ _)] at this
    exact this
  exact (textThrough_mono h1 layout).trans (textThrough_prefix _ _)

theorem extent_end_le_start (sts : List Statement) (layout : List (List Char)) {i j : Nat} (h : i < j) :
    posLe (extent sts layout i).2 (extent sts layout j).1 := by
  unfold extent
  simp only
  rw [advs_append]
  exact posLe_trans (advs_prefix_le (textThrough_mono (programToks_take_prefix sts h) layout) _) (advs_le _ _)

/-! ## the reader on a located token stream -/

theorem locate_loc : ∀ (ts : List Token) (l : List (List Char)) (p : Pos), ∀ t ∈ locate ts l p, t.loc ≠ none
  | [], _, _, t, ht => by simp [locate] at ht
  | t0 :: ts, l, p, t, ht => by
    simp only [locate, List.mem_cons] at ht
    rcases ht with rfl | ht
    · simp
    · exact locate_loc ts _ _ t ht

/-- `FormsIn xs lay p ds`: the data `ds` are the written forms `xs`, read from their tokens written
from the cursor `p` with the separators `lay`: each datum is the one written (up to locations), carries
a position at every element, and every position in it is the position of one of ITS OWN tokens -/
def FormsIn : List Syn → List (List Char) → Pos → List Datum → Prop
  | [], _, _, [] => True
  | x :: xs, lay, p, d :: ds =>
    (d.strip = x.denote ∧ d.HL ∧ ∀ l ∈ locs d, l ∈ tokLocs (locate x.toks lay p)) ∧
    FormsIn xs (lay.drop x.toks.length) (advs (textThrough x.toks lay) p) ds
  | _, _, _, _ => False

theorem allAux_located (xs : List Syn) (hxs : Syn.SupportedL xs) :
    ∀ (fuel : Nat) (lay : List (List Char)) (p : Pos) (s : Read.PState) (acc : List Datum), xs.length < fuel →
      s.toks = locate (Syn.toksL xs) lay p → s.lexErr = none →
      ∃ ds, Read.allAux fuel s acc = (acc.reverse ++ ds, none) ∧ FormsIn xs lay p ds := by
  induction xs with
  | nil =>
    intro fuel lay p s acc hf hs he
    obtain ⟨f, rfl⟩ : ∃ f, fuel = f + 1 := ⟨fuel - 1, by omega⟩
    simp only [Syn.toksL, locate] at hs
    obtain ⟨s', h⟩ := nextDatum_end s hs he
    exact ⟨[], by simp [Read.allAux, h], trivial⟩
  | cons x xs ih =>
    intro fuel lay p s acc hf hs he
    obtain ⟨f, rfl⟩ : ∃ f, fuel = f + 1 := ⟨fuel - 1, by omega⟩
    simp only [Syn.SupportedL] at hxs
    simp only [Syn.toksL] at hs
    rw [locate_append] at hs
    obtain ⟨d, s', g1, g2, g3, g4⟩ := nextDatum_spec x hxs.1 s _ _ (locate_toks x.toks lay p) hs
    have hloc : ∀ t ∈ s.toks, t.loc ≠ none := by
      intro t ht
      rw [hs, List.mem_append] at ht
      rcases ht with ht | ht
      · exact locate_loc _ _ _ t ht
      · exact locate_loc _ _ _ t ht
    have hHL := (C15.reader_data_located g1 hloc).1
    obtain ⟨used, hu, hd⟩ := C15.reader_locs_from_tokens g1
    rw [g3, hs] at hu
    have hused : used = locate x.toks lay p := (List.append_cancel_right hu).symm
    subst hused
    obtain ⟨ds, k1, k2⟩ := ih hxs.2 f _ _ s' (d :: acc) (by simp at hf; omega) g3 (by rw [g4, he])
    refine ⟨d :: ds, ?_, ⟨g2, hHL, fun l hl => hd d rfl l hl⟩, k2⟩
    simp [Read.allAux, g1, k1]

theorem FormsIn_length : ∀ (xs : List Syn) (lay : List (List Char)) (p : Pos) (ds : List Datum),
    FormsIn xs lay p ds → ds.length = xs.length
  | [], _, _, [], _ => rfl
  | x :: xs, lay, p, d :: ds, h => by simp [FormsIn_length xs _ _ ds h.2]
  | [], _, _, _ :: _, h => h.elim
  | _ :: _, _, _, [], h => h.elim

theorem FormsIn_append : ∀ (xs₁ xs₂ : List Syn) (lay : List (List Char)) (p : Pos) (ds : List Datum),
    FormsIn (xs₁ ++ xs₂) lay p ds →
    ∃ ds₁ ds₂, ds = ds₁ ++ ds₂ ∧ ds₁.length = xs₁.length ∧ FormsIn xs₁ lay p ds₁ ∧
      FormsIn xs₂ (lay.drop (Syn.toksL xs₁).length) (advs (textThrough (Syn.toksL xs₁) lay) p) ds₂
  | [], xs₂, lay, p, ds, h => ⟨[], ds, rfl, rfl, trivial, by simpa [Syn.toksL, textThrough] using h⟩
  | x :: xs₁, xs₂, lay, p, d :: ds, h => by
    obtain ⟨h1, h2⟩ := h
    obtain ⟨ds₁, ds₂, rfl, hl, k1, k2⟩ := FormsIn_append xs₁ xs₂ _ _ ds h2
    refine ⟨d :: ds₁, ds₂, rfl, by simp [hl], ⟨h1, k1⟩, ?_⟩
    simp only [Syn.toksL, List.length_append, textThrough_append, advs_append]
    rw [List.drop_drop] at k2
    exact k2
  | _ :: _, _, _, _, [], h => h.elim

/-- every position in the data read lies at one of the tokens of the forms -/
theorem FormsIn_locs : ∀ (xs : List Syn) (lay : List (List Char)) (p : Pos) (ds : List Datum),
    FormsIn xs lay p ds → ∀ d ∈ ds, ∀ l ∈ locs d, l ∈ tokLocs (locate (Syn.toksL xs) lay p)
  | [], _, _, [], _, d, hd, _, _ => by simp at hd
  | x :: xs, lay, p, d0 :: ds, h, d, hd, l, hl => by
    simp only [Syn.toksL, locate_append, ReadLoc.tokLocs_append, List.mem_append]
    rcases List.mem_cons.1 hd with rfl | hd
    · exact Or.inl (h.1.2.2 l hl)
    · exact Or.inr (FormsIn_locs xs _ _ ds h.2 d hd l hl)
  | [], _, _, _ :: _, h, _, _, _, _ => h.elim
  | _ :: _, _, _, [], h, _, _, _, _ => h.elim

/-- THE FORMS OF A PROGRAM TEXT WITH THEIR POSITIONS: under a valid layout the reader finds, without
error, one datum for each form; each is the datum written (up to locations), located at every element,
with every position at one of its own tokens -/
theorem formsOf_located (ps : List Datum) (layout : List (List Char))
    (hsup : ∀ p ∈ ps, SupportedD p) (hl : ValidLayout (formsToks ps) layout) :
    (formsOf (formsText ps layout)).2 = none ∧
      FormsIn (ps.map Syn.ofDatum) layout (1, 1) (formsOf (formsText ps layout)).1 := by
  have hxs := supportedL_ofDatums ps hsup
  have hlex := all_render_located (formsToks ps) layout (toksL_supported _ hxs) hl
  have hlen := length_le_toksL (ps.map Syn.ofDatum)
  obtain ⟨ds, k1, k2⟩ := allAux_located (ps.map Syn.ofDatum) hxs
    ((locate (formsToks ps) layout (1, 1)).length + 1) layout (1, 1)
    { toks := locate (formsToks ps) layout (1, 1), lexErr := none } []
    (by rw [locate_length]; unfold formsToks; omega) rfl rfl
  have : formsOf (formsText ps layout) = (ds, none) := by
    unfold formsOf formsText Read.all Read.ofText
    rw [hlex]
    simpa using k1
  rw [this]
  exact ⟨rfl, k2⟩

/-! ## evaluation, form by form, with the positions tracked -/

/-- after `eval_ast` on the statement made from `d` — success or failure — the state holds positions
of `T` (where they were before) and of `d` only -/
theorem evalAst_state_locs {T : List Pos} {fuel₀ fuel : Nat} {d : Datum} {env env' : Xform.SynEnv}
    {s : Statement} {st st' : State} {r : Except SErr (Option Value)}
    (hx : Xform.toStatement fuel₀ d env = (.ok s, env')) (hst : LocsIn T st)
    (h : evalAst fuel st s = (r, st')) : LocsIn (T ++ locs d) st' := by
  have hs : unrole s.rlocs ⊆ locs d := C15.xform_locs hx
  have hsub : unrole (st.rlocs ++ s.rlocs) ⊆ T ++ locs d := by
    rw [unrole_append]
    exact List.append_subset.2 ⟨fun l hl => List.mem_append_left _ (hst l hl),
      fun l hl => List.mem_append_right _ (hs hl)⟩
  have i := InterpLoc.evalAst_in (T := st.rlocs ++ s.rlocs) InterpLoc.factoryOfText_clean h
    (InterpLoc.stIn_iff.2 (List.subset_append_left _ _)) (List.subset_append_right _ _)
  exact fun l hl => hsub (unrole_subset (InterpLoc.stIn_iff.1 i.1) hl)

theorem readsAs_append (syn : SynEnv) : ∀ (d₁ d₂ : List Datum) (s₁ s₂ : List Statement),
    d₁.length = s₁.length → ReadsAs syn (d₁ ++ d₂) (s₁ ++ s₂) → ReadsAs syn d₁ s₁ ∧ ReadsAs syn d₂ s₂
  | [], d₂, [], s₂, _, h => ⟨trivial, h⟩
  | d :: d₁, d₂, s :: s₁, s₂, hl, h => by
    obtain ⟨h1, h2⟩ := h
    obtain ⟨k1, k2⟩ := readsAs_append syn d₁ d₂ s₁ s₂ (by simpa using hl) h2
    exact ⟨⟨h1, k1⟩, k2⟩
  | [], _, _ :: _, _, hl, _ => by simp at hl
  | _ :: _, _, [], _, hl, _ => by simp at hl

/-- THE SUCCESSFUL PREFIX: forms `dpre` that read as the statements `pre`, run from a state `st` that
is `st₀` up to locations, succeed when `pre` succeeds from `st₀`; the state reached is the one `pre`
reaches up to locations, has the same syntax environment, and holds positions of `T` (those `st` held)
and of the data `dpre` only — and none in the role of a library name, if `st` held none -/
theorem runForms_prefix (fuel : Nat) : ∀ (dpre : List Datum) (pre : List Statement) (st₀ st : State)
    (last₀ last v : Option Value) (st₁ : State) (T : List Pos),
    ReadsAs st.syn dpre pre → st.unloc = st₀.unloc → LocsIn T st → NoLib st.rlocs →
    runStmts fuel st₀ pre last₀ = (.ok v, st₁) →
    ∃ v' st₁', runForms fuel st dpre last = (.ok v', st₁') ∧ st₁'.unloc = st₁.unloc ∧ st₁'.syn = st.syn ∧
      LocsIn (T ++ dpre.flatMap (fun d => locs d)) st₁' ∧ NoLib st₁'.rlocs
  | [], [], st₀, st, last₀, last, v, st₁, T, _, hu, hT, hN, hrun => by
    simp only [runStmts, Prod.mk.injEq, Except.ok.injEq] at hrun
    obtain ⟨-, rfl⟩ := hrun
    exact ⟨last, st, rfl, hu, rfl, by simpa using hT, hN⟩
  | d :: ds, s :: ss, st₀, st, last₀, last, v, st₁, T, hr, hu, hT, hN, hrun => by
    obtain ⟨⟨s', h1, h2⟩, hrest⟩ := hr
    rw [runStmts] at hrun
    cases hx0 : evalAst fuel st₀ s with
    | mk r0 st₀' =>
      rw [hx0] at hrun
      cases r0 with
      | error e0 => simp at hrun
      | ok v0 =>
        simp only at hrun
        rcases IU_eq_cases (evalAst_unloc_congr fuel h2 hu) with
          ⟨e₁, e₂, s₁, s₂, k1, k2, k3, k4⟩ | ⟨a, b, s₁, s₂, k1, k2, k3, k4⟩
        · rw [hx0] at k2; cases k2
        · rw [hx0] at k2
          cases k2
          have hsyn : s₁.syn = st.syn := (evalAst_out k1).2.1
          have hloc := evalAst_state_locs h1 hT k1
          obtain ⟨v', st₁', g1, g2, g3, g4, g5⟩ := runForms_prefix fuel ds ss st₀' s₁ v0 a v st₁ (T ++ locs d)
            (hsyn ▸ hrest) k4 hloc (evalAst_noLib k1 hN) hrun
          refine ⟨v', st₁', ?_, g2, g3.trans hsyn, ?_, g5⟩
          · simp only [runForms, evalForm_of_reads h1, k1, g1]
          · simpa [List.flatMap_cons, List.append_assoc] using g4
  | [], _ :: _, _, _, _, _, _, _, _, h, _, _, _, _ => h.elim
  | _ :: _, [], _, _, _, _, _, _, _, h, _, _, _, _ => h.elim

/-- THE FAILING FORM.  Forms `dpre ++ d :: dpost` that read as `pre ++ s :: post`, run from a state
without positions: when `pre` succeeds (leaving `st₁`) and `s` fails in `st₁` with kind `e`, the run of
the forms is the failure, with kind `e` and at a position `l` (there is one: `d` is located), of the
statement `s'` made from `d` (`s` up to locations) in a state `st₁'` (`st₁` up to locations) that holds
positions of the EARLIER data `dpre` only, none of them in the role of a library name. -/
theorem runForms_fails_at (fuel : Nat) (dpre dpost : List Datum) (d : Datum) (pre post : List Statement)
    (s : Statement) (st st₁ st₂ : State) (v : Option Value) (e : Err) (loc : Loc)
    (hst : locs st = []) (hlen : dpre.length = pre.length)
    (hr : ReadsAs st.syn (dpre ++ d :: dpost) (pre ++ s :: post)) (hHL : d.HL)
    (hpre : runStmts fuel st pre none = (.ok v, st₁)) (hfail : evalAst fuel st₁ s = (.error (e, loc), st₂)) :
    ∃ s' st₁' l st₂', toStatement (xformFuel d) d st.syn = (.ok s', st.syn) ∧ s'.unloc = s.unloc ∧
      st₁'.unloc = st₁.unloc ∧ LocsIn (dpre.flatMap (fun d => locs d)) st₁' ∧
      evalAst fuel st₁' s' = (.error (e, some l), st₂') ∧ st₂'.unloc = st₂.unloc ∧
      runForms fuel st (dpre ++ d :: dpost) none = (.error (e, some l), st₂') ∧ NoLib st₁'.rlocs := by
  obtain ⟨hr1, hr2⟩ := readsAs_append st.syn dpre (d :: dpost) pre (s :: post) hlen hr
  have hT : LocsIn [] st := by intro l hl; rw [hst] at hl; exact hl
  have hN : NoLib st.rlocs := by
    have : st.rlocs = [] := unrole_eq_nil (by
      intro l hl
      have : l ∈ locs st := hl
      rw [hst] at this
      exact this)
    rw [this]; exact noLib_nil
  obtain ⟨v', st₁', g1, g2, g3, g4, g5⟩ := runForms_prefix fuel dpre pre st st none none v st₁ [] hr1 rfl hT hN hpre
  rw [List.nil_append] at g4
  obtain ⟨⟨s', h1, h2⟩, -⟩ := hr2
  have h1' : toStatement (xformFuel d) d st₁'.syn = (.ok s', st₁'.syn) := by rw [g3]; exact h1
  rcases IU_eq_cases (evalAst_unloc_congr fuel h2 g2) with
    ⟨e₁, e₂, s₁, s₂, k1, k2, k3, k4⟩ | ⟨a, b, s₁, s₂, k1, k2, k3, k4⟩
  · rw [hfail] at k2
    cases k2
    obtain ⟨k, loc'⟩ := e₁
    simp only [SErr.unloc, Prod.mk.injEq, and_true] at k3
    subst k3
    have hsl : s'.loc ≠ none := C15.stmt_located h1 hHL
    have hne := HLoc.evalAst_located k1 hsl
    obtain ⟨l, rfl⟩ : ∃ l, loc' = some l := by
      cases loc' with
      | none => exact absurd rfl hne
      | some l => exact ⟨l, rfl⟩
    refine ⟨s', st₁', l, s₁, h1, h2, g2, g4, k1, k4, ?_, g5⟩
    rw [runForms_append, g1]
    simp only [runForms, evalForm_of_reads h1', k1]
  · rw [hfail] at k2; cases k2

/-- where the position of a failing statement lies: in its own datum; or — only for the kinds unbound,
non-procedure, cyclic import, missing library — among the positions `T` the state held; or the error
arose while reading a library source -/
theorem fail_position_cases {T : List Pos} {fuel₀ fuel : Nat} {d : Datum} {env env' : Xform.SynEnv}
    {s : Statement} {st st' : State} {k : Err} {l : Pos}
    (hx : Xform.toStatement fuel₀ d env = (.ok s, env')) (hst : LocsIn T st)
    (h : evalAst fuel st s = (.error (k, some l), st')) :
    l ∈ locs d ∨ ((k = .unbound ∨ k = .nonProcedure ∨ k = .cyclic ∨ k = .libNotFound) ∧ l ∈ T) ∨
      C15.LibReadErr (k, some l) := by
  by_cases hin : l ∈ locs d
  · exact Or.inl hin
  · rcases (C15.error_loc_in_failing_form hx hst h).1 l rfl with h' | h' | h'
    · exact absurd h' hin
    · rcases C15.outside_form_only_unbound_nonproc hx h hin with hk | hk | hk | hk | hk
      · exact Or.inr (Or.inl ⟨Or.inl hk, h'⟩)
      · exact Or.inr (Or.inl ⟨Or.inr (Or.inl hk), h'⟩)
      · exact Or.inr (Or.inl ⟨Or.inr (Or.inr (Or.inl hk)), h'⟩)
      · exact Or.inr (Or.inl ⟨Or.inr (Or.inr (Or.inr hk)), h'⟩)
      · exact Or.inr (Or.inr hk)
    · exact Or.inr (Or.inr h')

/-! ## a whole program text -/

/-- the positions the lexer gives to the tokens of the form that follows `pre` -/
def formTokLocs (pre : List Statement) (s : Statement) (layout : List (List Char)) : List Pos :=
  tokLocs (locate (stmtToks s) (layout.drop (programToks pre).length)
    (advs (textThrough (programToks pre) layout) (1, 1)))

theorem formTokLocs_within (pre post : List Statement) (s : Statement) (layout : List (List Char))
    (hs : ∀ t ∈ stmtToks s, SupportedTok t) :
    ∀ l ∈ formTokLocs pre s layout, Within (extent (pre ++ s :: post) layout pre.length) l := by
  intro l hl
  rw [extent_at]
  exact locate_within _ _ _ hs l hl

/-- THE TEXT-LEVEL COMPOSITION used by `C15More`: the run of the text of `pre ++ s :: post`, when `pre`
succeeds and `s` fails with kind `e`, IS the failure — kind `e`, a position `l` — of a statement `s'`
(`s` up to locations) made from a datum `d` whose positions are positions of the tokens of form `|pre|`,
in a state `st₁'` (`st₁` up to locations) whose positions are positions of tokens of the earlier forms, none
of them in the role of a library name -/
theorem text_fails_at (fuel : Nat) (st st₁ st₂ : State) (pre post : List Statement) (s : Statement)
    (v : Option Value) (e : Err) (loc : Loc) (layout : List (List Char))
    (hst : locs st = [])
    (hok : ∀ s' ∈ pre ++ s :: post, okStmt (C01More.macroOf st.syn) s')
    (hsup : ∀ s' ∈ pre ++ s :: post, SupportedD (printStmt s'))
    (hl : ValidLayout (programToks (pre ++ s :: post)) layout)
    (hpre : runStmts fuel st pre none = (.ok v, st₁)) (hfail : evalAst fuel st₁ s = (.error (e, loc), st₂)) :
    ∃ d s' st₁' l st₂', evalText fuel st (programText (pre ++ s :: post) layout) = (.error (e, some l), st₂') ∧
      st₂'.unloc = st₂.unloc ∧
      toStatement (xformFuel d) d st.syn = (.ok s', st.syn) ∧ s'.unloc = s.unloc ∧ d.HL ∧
      st₁'.unloc = st₁.unloc ∧ evalAst fuel st₁' s' = (.error (e, some l), st₂') ∧
      (∀ q ∈ locs d, q ∈ formTokLocs pre s layout) ∧
      (∀ q ∈ locs st₁', q ∈ tokLocs (locate (programToks pre) layout (1, 1))) ∧
      NoLib st₁'.rlocs := by
  have hp := printsAs_printStmt st.syn _ hok
  have hsup' : ∀ p ∈ (pre ++ s :: post).map printStmt, SupportedD p := by
    intro p hp'
    obtain ⟨s', hs', rfl⟩ := List.mem_map.1 hp'
    exact hsup s' hs'
  obtain ⟨herr, hreads⟩ := formsText_readsAs st.syn _ _ layout hp hsup' hl
  obtain ⟨-, hforms⟩ := formsOf_located _ layout hsup' hl
  have hsplit : ((pre ++ s :: post).map printStmt).map Syn.ofDatum =
      (pre.map printStmt).map Syn.ofDatum ++
        Syn.ofDatum (printStmt s) :: (post.map printStmt).map Syn.ofDatum := by simp
  rw [hsplit] at hforms
  obtain ⟨dpre, ds₂, hds, hlen, hf1, hf2⟩ := FormsIn_append _ _ _ _ _ hforms
  match ds₂, hf2 with
  | d :: dpost, hf2 =>
    obtain ⟨⟨-, hHL, hdl⟩, -⟩ := hf2
    have hlen' : dpre.length = pre.length := by simpa using hlen
    change ReadsAs st.syn (formsOf (programText (pre ++ s :: post) layout)).1 _ at hreads
    change (formsOf (programText (pre ++ s :: post) layout)).2 = none at herr
    change (formsOf (programText (pre ++ s :: post) layout)).1 = _ at hds
    rw [hds] at hreads
    obtain ⟨s', st₁', l, st₂', g1, g2, g3, g4, g5, g6, g7, g8⟩ :=
      runForms_fails_at fuel dpre dpost d pre post s st st₁ st₂ v e loc hst hlen' hreads hHL hpre hfail
    refine ⟨d, s', st₁', l, st₂', ?_, g6, g1, g2, hHL, g3, g5, hdl, ?_, g8⟩
    · rw [evalText_eq_runText]
      unfold runText
      rw [hds, g7]
    · intro q hq
      obtain ⟨d', hd', hl'⟩ := List.mem_flatMap.1 (g4 q hq)
      exact FormsIn_locs _ _ _ _ hf1 d' hd' q hl'

/-- … with the position classified by extents -/
theorem text_fails_located (fuel : Nat) (st st₁ st₂ : State) (pre post : List Statement) (s : Statement)
    (v : Option Value) (e : Err) (loc : Loc) (layout : List (List Char))
    (hst : locs st = [])
    (hok : ∀ s' ∈ pre ++ s :: post, okStmt (C01More.macroOf st.syn) s')
    (hsup : ∀ s' ∈ pre ++ s :: post, SupportedD (printStmt s'))
    (hl : ValidLayout (programToks (pre ++ s :: post)) layout)
    (hpre : runStmts fuel st pre none = (.ok v, st₁)) (hfail : evalAst fuel st₁ s = (.error (e, loc), st₂)) :
    ∃ l st₂', evalText fuel st (programText (pre ++ s :: post) layout) = (.error (e, some l), st₂') ∧
      st₂'.unloc = st₂.unloc ∧
      (Within (extent (pre ++ s :: post) layout pre.length) l ∨
        ((e = .unbound ∨ e = .nonProcedure ∨ e = .cyclic ∨ e = .libNotFound) ∧
          ∃ j, j < pre.length ∧ Within (extent (pre ++ s :: post) layout j) l) ∨
        C15.LibReadErr (e, some l)) := by
  obtain ⟨d, s', st₁', l, st₂', g1, g2, g3, g4, g5, g6, g7, g8, g9, -⟩ :=
    text_fails_at fuel st st₁ st₂ pre post s v e loc layout hst hok hsup hl hpre hfail
  have htoks := programToks_supported _ hsup
  rw [programToks_append, programToks_cons] at htoks
  refine ⟨l, st₂', g1, g2, ?_⟩
  rcases fail_position_cases (T := locs st₁') g3 (fun q hq => hq) g7 with h | ⟨hk, h⟩ | h
  · exact Or.inl (formTokLocs_within pre post s layout
      (fun t ht => htoks t (List.mem_append_right _ (List.mem_append_left _ ht))) l (g8 l h))
  · right; left
    refine ⟨hk, ?_⟩
    obtain ⟨j, hj, hw⟩ := locate_in_some_extent layout pre
      (fun t ht => htoks t (List.mem_append_left _ ht)) l (g9 l h)
    exact ⟨j, hj, by rw [extent_prefix pre (s :: post) layout j hj]; exact hw⟩
  · exact Or.inr (Or.inr h)

/-! ## a failing expression or definition; a bare identifier -/

/-- a located error of `eval_expression_or_definition` on an expression or a definition is an unbound
variable or a non-procedure -/
theorem evalExprOrDef_core_kind {fuel : Nat} {st0 st1 : State} {ρ : Nat} {s : Statement} {k : Err} {l : Pos}
    (hs : CoreShape s) (h : evalExprOrDef fuel st0 s ρ = (.error (k, some l), st1)) :
    k = .unbound ∨ k = .nonProcedure := by
  cases s with
  | expr ex =>
    simp only [evalExprOrDef] at h
    cases hx : Eval.evalExpr fuel st0.store ρ ex with
    | mk r σ =>
      rw [hx] at h
      cases r with
      | ok v => simp at h
      | error er =>
        simp only [Prod.mk.injEq, Except.error.injEq] at h
        obtain ⟨rfl, -⟩ := h
        exact C15.located_only_unbound_nonproc hx
  | definition df =>
    obtain ⟨name, ex, dl⟩ := df
    simp only [evalExprOrDef] at h
    cases hx : Eval.evalExpr fuel st0.store ρ ex with
    | mk r σ =>
      rw [hx] at h
      cases r with
      | ok v => simp at h
      | error er =>
        simp only [Prod.mk.injEq, Except.error.injEq] at h
        obtain ⟨rfl, -⟩ := h
        exact C15.located_only_unbound_nonproc hx
  | importDecl _ _ => exact hs.elim
  | syntaxDef _ _ _ => exact hs.elim
  | libraryDef _ _ _ => exact hs.elim

/-- `eval_ast` on an expression or a definition: a reported position is the statement's own position, or
the error is an unbound variable or a non-procedure -/
theorem evalAst_core_kind {fuel : Nat} {st st' : State} {s : Statement} {k : Err} {l : Pos}
    (hs : CoreShape s) (h : evalAst fuel st s = (.error (k, some l), st')) :
    s.loc = some l ∨ k = .unbound ∨ k = .nonProcedure := by
  rw [evalAst_eq] at h
  obtain ⟨st0, -, hin⟩ := astInner_core fuel st s hs
  rw [hin] at h
  cases hx : evalExprOrDef fuel st0 s st.env with
  | mk r st1 =>
    rw [hx] at h
    cases r with
    | ok v => simp [astPost] at h
    | error er =>
      obtain ⟨k0, l0⟩ := er
      simp only [astPost, Prod.mk.injEq, Except.error.injEq] at h
      obtain ⟨⟨rfl, hl⟩, -⟩ := h
      cases l0 with
      | none => left; simpa using hl
      | some l1 =>
        right
        simp only [Option.orElse_some, Option.some.injEq] at hl
        subst hl
        exact evalExprOrDef_core_kind hs hx

/-- `eval_ast` on a bare identifier that is unbound: the unbound-variable error, at the identifier's own
position -/
theorem evalAst_unbound_sym (n : Nat) (st : State) (x : String) (loc : Loc)
    (h : st.store.lookup st.env x = none) :
    ∃ st', evalAst (n + 1) st (.expr (.sym x loc)) = (.error (.unbound, loc), st') := by
  have key : (evalAst (n + 1) st (.expr (.sym x loc))).1 = .error (.unbound, loc) := by
    unfold evalAst
    by_cases hi : st.importEnd = true
    · simp only [hi, Bool.not_true, Bool.false_eq_true, if_false, evalExprOrDef, C15.unbound_at_the_symbol h,
        Statement.loc, Expr.loc]
      cases loc <;> rfl
    · simp only [hi, Bool.not_false, if_true, evalExprOrDef, C15.unbound_at_the_symbol h,
        Statement.loc, Expr.loc]
      cases loc <;> rfl
  exact ⟨_, Prod.ext key rfl⟩

theorem stmtToks_sym (x : String) (loc : Loc) : stmtToks (.expr (.sym x loc)) = [.ident x] := rfl

theorem lookup_none_of_unloc {st st' : State} (hu : st'.unloc = st.unloc) {x : String}
    (h : st.store.lookup st.env x = none) : st'.store.lookup st'.env x = none := by
  have h1 : st'.store.unloc = st.store.unloc := by
    have := congrArg (fun s : State => s.store) hu
    simpa using this
  have h2 : st'.env = st.env := by
    have := congrArg (fun s : State => s.env) hu
    simpa using this
  have h3 := Store.unloc_lookup st'.store st'.env x
  rw [h1, h2, Store.unloc_lookup, h] at h3
  cases hx : st'.store.lookup st'.env x with
  | none => rfl
  | some v => rw [h2] at hx; rw [hx] at h3; simp at h3

end Ruschm.TextExtent

/-
Concrete inputs for the non-vacuity examples of `C06.lean` and `C18Bracket.lean`.
-/
import RuschmProofs.TextLemmas
namespace Ruschm.Text.Samples
open Ruschm Ruschm.Lex Ruschm.Text

/-- `( a . "x)" ) ' -5` -/
def toksA : List Token :=
  [.lparen, .ident "a", .period, .prim (.str "x)"), .rparen, .quote, .prim (.int (-5))]

theorem toksA_supported : ∀ t ∈ toksA, SupportedTok t := by
  intro t ht
  simp only [toksA, List.mem_cons, List.not_mem_nil, or_false] at ht
  rcases ht with rfl | rfl | rfl | rfl | rfl | rfl | rfl
  · trivial
  · exact Or.inl (by decide)
  · trivial
  · trivial
  · trivial
  · trivial
  · show fitsI32 (-5) = true; decide

/-- two quite different ways of writing the same seven tokens -/
def layoutA : List (List Char) :=
  [" ".toList, [], " ;c\n".toList, [' '], [], ['\t'], [], "; end".toList]
def layoutB : List (List Char) := [[], ['\n'], [' '], [' '], [], [], [], []]


/-- `(a (b . "s") #(1 'c) . d)` -/
def synA : Syn :=
  .dotted [.atom (.ident "a"), .dotted [.atom (.ident "b")] (.atom (.prim (.str "s"))),
    .vec [.atom (.prim (.int 1)), .quote (.atom (.ident "c"))]] (.atom (.ident "d"))

theorem synA_supported : synA.Supported := by
  simp only [synA, Syn.Supported, Syn.SupportedL, Syn.isAtomTok, SupportedTok, and_true,
    true_and, ne_eq, reduceCtorEq, not_false_eq_true, List.cons_ne_self]
  exact ⟨⟨Or.inl (by decide), Or.inl (by decide), by decide, Or.inl (by decide)⟩,
    Or.inl (by decide)⟩

def synLayout : List (List Char) :=
  [[], [], [' '], [], " ;the cdr\n".toList, [' '], [], [' '], [], [' '], [], [], [' '], [' '], [],
    ['\n']]


/-- `( f #\\( "a)" |b)| #( 1` -/
def toksB : List Token :=
  [.lparen, .ident "f", .prim (.chr '('), .prim (.str "a)"), .ident "b)", .vecIntro,
    .prim (.int 1)]

def layoutToksB : List (List Char) :=
  [[], [], [' '], [' '], [' '], " ;)\n".toList, [], []]

theorem toksB_supported : ∀ t ∈ toksB, SupportedTok t := by
  intro t ht
  simp only [toksB, List.mem_cons, List.not_mem_nil, or_false] at ht
  rcases ht with rfl | rfl | rfl | rfl | rfl | rfl | rfl
  · trivial
  · exact Or.inl (by decide)
  · trivial
  · trivial
  · exact Or.inr (by decide)
  · trivial
  · show fitsI32 1 = true; decide


end Ruschm.Text.Samples

/-
Helper lemmas for `RuschmProofs/C14Model.lean`: what `Interp.getLibrary` and the import functions
of the MODEL do to the factory table and to the instance cache.
-/
import RuschmProofs.LibLemmas

namespace Ruschm
namespace Interp

/-! ## vocabulary -/

/-- the libraries the import declarations of a library definition name -/
def declImports : List LibDecl → List LibName
  | [] => []
  | .importDecl sets :: ds => sets.map S.leaf ++ declImports ds
  | _ :: ds => declImports ds

/-- the factory `get_library` would use for `m`: the registered one, else the one made from the
text of the file `libPath m` -/
def factoryFor (st : State) (m : LibName) : Option Factory :=
  match libLookup st.factories m with
  | some f => some f
  | none =>
    match st.files.lookup (fileKey st.dir (libPath m)) with
    | some (.text t) =>
      match factoryOfText m t with
      | .ok f => some f
      | .error _ => none
    | _ => none

/-- `n` is the root `r` or a transitive import of it: reachable through the import declarations
of the definitions `get_library` would find -/
inductive Requested (st : State) : LibName → LibName → Prop where
  | root (n : LibName) : Requested st n n
  | step {m k n : LibName} {decls : List LibDecl} : factoryFor st m = some (.ast decls) →
      k ∈ declImports decls → Requested st k n → Requested st m n

/-- what a call with the root names `roots` does to factories and instances -/
structure Step (st st' : State) (roots : List LibName) : Prop where
  base : Inv (fun _ _ => True) st st'
  newFac : ∀ n f, libLookup st'.factories n = some f → libLookup st.factories n = none →
    (∃ r ∈ roots, Requested st r n) ∧
      ∃ t, st.files.lookup (fileKey st.dir (libPath n)) = some (.text t) ∧ factoryOfText n t = .ok f
  newInst : ∀ n d, libLookup st'.instances n = some d → libLookup st.instances n = none →
    (∃ r ∈ roots, Requested st r n) ∧
      ∃ k sa sb f, factoryFor st n = some f ∧ newLibrary k sa f = (.ok d, sb)

theorem Step.factoryFor_eq {st st' : State} {roots} (h : Step st st' roots) (m : LibName) :
    factoryFor st' m = factoryFor st m := by
  unfold factoryFor
  rw [h.base.files, h.base.dir]
  cases h1 : libLookup st.factories m with
  | some f => rw [h.base.factories m f h1]
  | none =>
    cases h2 : libLookup st'.factories m with
    | none => rfl
    | some f =>
      obtain ⟨-, t, ht, hf⟩ := h.newFac m f h2 h1
      simp only [ht, hf]

theorem Requested.congr {st st' : State} (h : ∀ m, factoryFor st' m = factoryFor st m) {r n : LibName}
    (hr : Requested st' r n) : Requested st r n := by
  induction hr with
  | root n => exact .root n
  | step hf hk _ ih => exact .step (by rw [← h]; exact hf) hk ih

theorem Requested.trans {st : State} {a b c : LibName} (h1 : Requested st a b) (h2 : Requested st b c) :
    Requested st a c := by
  induction h1 with
  | root => exact h2
  | step hf hk _ ih => exact .step hf hk (ih h2)

theorem Step.refl (st : State) (roots : List LibName) : Step st st roots :=
  ⟨Inv.refl storeRel_true st, fun n f h1 h2 => (by rw [h2] at h1; cases h1),
   fun n d h1 h2 => (by rw [h2] at h1; cases h1)⟩

theorem Step.mono {st st' : State} {roots roots' : List LibName} (h : Step st st' roots)
    (hsub : ∀ r ∈ roots, r ∈ roots') : Step st st' roots' :=
  ⟨h.base,
   fun n f h1 h2 => let ⟨⟨r, hr, hq⟩, x⟩ := h.newFac n f h1 h2; ⟨⟨r, hsub r hr, hq⟩, x⟩,
   fun n d h1 h2 => let ⟨⟨r, hr, hq⟩, x⟩ := h.newInst n d h1 h2; ⟨⟨r, hsub r hr, hq⟩, x⟩⟩

theorem Step.trans {a b c : State} {roots : List LibName} (h1 : Step a b roots) (h2 : Step b c roots) :
    Step a c roots := by
  have hff := h1.factoryFor_eq
  refine ⟨Inv.trans storeRel_true h1.base h2.base, ?_, ?_⟩
  · intro n f hc ha
    cases hb : libLookup b.factories n with
    | some f' =>
      have := h2.base.factories n f' hb
      rw [this] at hc; cases hc
      exact h1.newFac n f hb ha
    | none =>
      obtain ⟨⟨r, hr, hq⟩, t, ht, hf⟩ := h2.newFac n f hc hb
      exact ⟨⟨r, hr, hq.congr hff⟩, t, by rw [← h1.base.files, ← h1.base.dir]; exact ht, hf⟩
  · intro n d hc ha
    cases hb : libLookup b.instances n with
    | some d' =>
      have := h2.base.instances n d' hb
      rw [this] at hc; cases hc
      exact h1.newInst n d hb ha
    | none =>
      obtain ⟨⟨r, hr, hq⟩, k, sa, sb, f, hf, hn⟩ := h2.newInst n d hc hb
      exact ⟨⟨r, hr, hq.congr hff⟩, k, sa, sb, f, by rw [← hff]; exact hf, hn⟩

/-- a step that only touches the store (or nothing relevant) -/
theorem Step.of_inv_same {st st' : State} (roots : List LibName) (h : Inv (fun _ _ => True) st st')
    (hf : st'.factories = st.factories) (hi : st'.instances = st.instances) : Step st st' roots :=
  ⟨h, fun n f h1 h2 => (by rw [hf, h2] at h1; cases h1),
   fun n d h1 h2 => (by rw [hi, h2] at h1; cases h1)⟩

theorem factoryFor_congr {a a' : State} (fa : a'.factories = a.factories) (fl : a'.files = a.files)
    (dr : a'.dir = a.dir) (m : LibName) : factoryFor a' m = factoryFor a m := by
  unfold factoryFor; rw [fa, fl, dr]

theorem Step.transport {a b a' b' : State} {roots : List LibName} (h : Step a b roots)
    (hi : Inv (fun _ _ => True) a' b') (fa : a'.factories = a.factories)
    (ia : a'.instances = a.instances) (fla : a'.files = a.files) (fb : b'.factories = b.factories)
    (ib : b'.instances = b.instances) (dra : a'.dir = a.dir := by rfl) : Step a' b' roots := by
  have hff := factoryFor_congr fa fla dra
  refine ⟨hi, ?_, ?_⟩
  · intro n f h1 h2
    rw [fb] at h1; rw [fa] at h2
    obtain ⟨⟨r, hr, hq⟩, t, ht, hf⟩ := h.newFac n f h1 h2
    exact ⟨⟨r, hr, Requested.congr (st := a') (st' := a) (fun m => (hff m).symm) hq⟩, t, by rw [fla, dra]; exact ht, hf⟩
  · intro n d h1 h2
    rw [ib] at h1; rw [ia] at h2
    obtain ⟨⟨r, hr, hq⟩, k, sa, sb, f, hf, hn⟩ := h.newInst n d h1 h2
    exact ⟨⟨r, hr, Requested.congr (st := a') (st' := a) (fun m => (hff m).symm) hq⟩, k, sa, sb, f,
      by rw [hff]; exact hf, hn⟩

theorem Step.lift_roots {a b : State} {roots : List LibName} {root : LibName} (h : Step a b roots)
    (hr : ∀ r ∈ roots, Requested a root r) : Step a b [root] :=
  ⟨h.base,
   fun n f h1 h2 => let ⟨⟨r, hm, hq⟩, x⟩ := h.newFac n f h1 h2; ⟨⟨root, by simp, (hr r hm).trans hq⟩, x⟩,
   fun n d h1 h2 => let ⟨⟨r, hm, hq⟩, x⟩ := h.newInst n d h1 h2; ⟨⟨root, by simp, (hr r hm).trans hq⟩, x⟩⟩

/-- the invariant for all functions of the mutual block at one amount of fuel -/
structure StepAt (fuel : Nat) : Prop where
  importSet : ∀ {st s r st'}, evalImportSet fuel st s = (r, st') → Step st st' [S.leaf s]
  getLibrary : ∀ {st name loc r st'}, getLibrary fuel st name loc = (r, st') → Step st st' [name]
  import_ : ∀ {st sets ρ r st'}, evalImport fuel st sets ρ = (r, st') → Step st st' (sets.map S.leaf)
  importSets : ∀ {st sets acc r st'}, evalImportSets fuel st sets acc = (r, st') →
    Step st st' (sets.map S.leaf)
  libraryDef : ∀ {st decls r st'}, evalLibraryDef fuel st decls = (r, st') → Step st st' (declImports decls)
  libDecls : ∀ {st ρ decls acc r st'}, evalLibDecls fuel st ρ decls acc = (r, st') →
    Step st st' (declImports decls)
  statements : ∀ {st ρ ss r st'}, evalStatements fuel st ρ ss = (r, st') → Step st st' []

theorem stepAt_zero : StepAt 0 := by
  constructor <;> intros <;> rename_i h
  · rw [evalImportSet] at h; cases h; exact Step.refl _ _
  · rw [Interp.getLibrary] at h; cases h; exact Step.refl _ _
  · rw [evalImport] at h; cases h; exact Step.refl _ _
  · rw [evalImportSets] at h; cases h; exact Step.refl _ _
  · rw [evalLibraryDef] at h; cases h; exact Step.refl _ _
  · rw [evalLibDecls] at h; cases h; exact Step.refl _ _
  · rw [evalStatements] at h; cases h; exact Step.refl _ _

theorem step_importSet_succ {fuel} (ih : StepAt fuel) {st s r st'}
    (h : evalImportSet (fuel + 1) st s = (r, st')) : Step st st' [S.leaf s] := by
  have hinv := (invAt storeRel_true (fuel + 1)).importSet h
  cases s with
  | direct name loc =>
    rw [evalImportSet] at h
    split at h
    · cases h; exact Step.refl _ _
    · cases h
      have i := ih.getLibrary (st := { st with inProgress := name :: st.inProgress }) (name := name)
        (loc := loc) (r := _) (st' := _) rfl
      exact i.transport hinv rfl rfl rfl rfl rfl
  | only sub ids =>
    rw [evalImportSet] at h
    split at h <;> rename_i he <;> cases h <;> exact (ih.importSet he : Step _ _ [S.leaf sub])
  | except sub ids =>
    rw [evalImportSet] at h
    split at h <;> rename_i he <;> cases h <;> exact (ih.importSet he : Step _ _ [S.leaf sub])
  | «prefix» sub p =>
    rw [evalImportSet] at h
    split at h <;> rename_i he <;> cases h <;> exact (ih.importSet he : Step _ _ [S.leaf sub])
  | rename sub pairs =>
    rw [evalImportSet] at h
    split at h <;> rename_i he <;> cases h <;> exact (ih.importSet he : Step _ _ [S.leaf sub])

theorem findFactory_step {st name loc r st'} (hnone : libLookup st.instances name = none)
    (h : findFactory st name loc = (r, st')) :
    Step st st' [name] ∧ libLookup st'.instances name = none ∧
      (∀ f, r = .ok f → factoryFor st' name = some f) ∧
      (∀ e, r = .error e → st' = st) := by
  have hinv := (findFactory_inv storeRel_true hnone h).1
  unfold findFactory at h
  split at h
  · rename_i f hf
    cases h
    exact ⟨Step.refl _ _, hnone, fun f' e => (by cases e; simp [factoryFor, hf]), fun e h => (by cases h)⟩
  · rename_i hf
    split at h
    · cases h; exact ⟨Step.refl _ _, hnone, fun f' e => (by cases e), fun _ _ => rfl⟩
    · cases h; exact ⟨Step.refl _ _, hnone, fun f' e => (by cases e), fun _ _ => rfl⟩
    · rename_i t ht
      split at h
      · rename_i f hft
        cases h
        refine ⟨⟨hinv, ?_, ?_⟩, hnone, ?_, fun e h => (by cases h)⟩
        · intro n f' h1 h2
          by_cases hn : n = name
          · subst hn
            simp only [libLookup_libInsert_self, Option.some.injEq] at h1
            subst h1
            exact ⟨⟨n, by simp, .root n⟩, t, ht, hft⟩
          · simp only [libLookup_libInsert_ne _ _ hn] at h1
            rw [h2] at h1; cases h1
        · intro n d h1 h2
          simp only at h1
          rw [h2] at h1; cases h1
        · intro f' e
          cases e
          simp [factoryFor, libLookup_libInsert_self]
      · cases h; exact ⟨Step.refl _ _, hnone, fun f' e => (by cases e), fun _ _ => rfl⟩

theorem newLibrary_step {fuel} (ih : StepAt fuel) (st : State) (f : Factory) (name : LibName)
    (hf : factoryFor st name = some f) : Step st (newLibrary fuel st f).2 [name] := by
  unfold newLibrary
  cases f with
  | native defs => exact Step.refl _ _
  | ast decls =>
    have h := ih.libraryDef (st := st) (decls := decls) (r := _) (st' := _) rfl
    exact h.lift_roots (fun r hr => .step hf hr (.root r))

theorem cacheInstance_step {fuel : Nat} {st : State} {f : Factory} {name : LibName} {r st'}
    (hnone : libLookup st.instances name = none) (hf : factoryFor st name = some f)
    (hs : Step st (newLibrary fuel st f).2 [name])
    (h : cacheInstance name (newLibrary fuel st f) = (r, st')) : Step st st' [name] := by
  have hinv := cacheInstance_inv (R := fun _ _ => True) hnone hs.base h
  unfold cacheInstance at h
  split at h
  · rename_i defs hok
    cases h
    refine ⟨hinv, hs.newFac, ?_⟩
    intro n d h1 h2
    by_cases hn : n = name
    · subst hn
      simp only [libLookup_libInsert_self, Option.some.injEq] at h1
      subst h1
      exact ⟨⟨n, by simp, .root n⟩, fuel, st, (newLibrary fuel st f).2, f, hf, Prod.ext hok rfl⟩
    · simp only [libLookup_libInsert_ne _ _ hn] at h1
      exact hs.newInst n d h1 h2
  · cases h; exact hs

theorem step_getLibrary_succ {fuel} (ih : StepAt fuel) {st name loc r st'}
    (h : Interp.getLibrary (fuel + 1) st name loc = (r, st')) : Step st st' [name] := by
  rw [getLibrary_succ_eq] at h
  split at h
  · cases h; exact Step.refl _ _
  · rename_i hnone
    split at h
    · rename_i hff; cases h; exact (findFactory_step hnone hff).1
    · rename_i f st1 hff
      obtain ⟨s1, hn1, hfac, -⟩ := findFactory_step hnone hff
      have hf := hfac f rfl
      exact s1.trans (cacheInstance_step hn1 hf (newLibrary_step ih st1 f name hf) h)

theorem step_import_succ {fuel} (ih : StepAt fuel) {st sets ρ r st'}
    (h : evalImport (fuel + 1) st sets ρ = (r, st')) : Step st st' (sets.map S.leaf) := by
  have hinv := (invAt storeRel_true (fuel + 1)).import_ h
  rw [evalImport] at h
  split at h <;> rename_i he <;> cases h
  · exact ih.importSets he
  · exact (ih.importSets he).transport hinv rfl rfl rfl rfl rfl

theorem step_importSets_succ {fuel} (ih : StepAt fuel) {st sets acc r st'}
    (h : evalImportSets (fuel + 1) st sets acc = (r, st')) : Step st st' (sets.map S.leaf) := by
  cases sets with
  | nil => rw [evalImportSets] at h; cases h; exact Step.refl _ _
  | cons s rest =>
    rw [evalImportSets] at h
    have m1 : ∀ {a b}, Step a b [S.leaf s] → Step a b ((s :: rest).map S.leaf) :=
      fun hs => hs.mono (by simp)
    have m2 : ∀ {a b}, Step a b (rest.map S.leaf) → Step a b ((s :: rest).map S.leaf) :=
      fun hs => hs.mono (fun r hr => by simp only [List.map_cons, List.mem_cons]; exact .inr hr)
    split at h <;> rename_i he
    · cases h; exact m1 (ih.importSet he)
    · split at h
      · cases h; exact m1 (ih.importSet he)
      · exact (m1 (ih.importSet he)).trans (m2 (ih.importSets h))

theorem step_libraryDef_succ {fuel} (ih : StepAt fuel) {st decls r st'}
    (h : evalLibraryDef (fuel + 1) st decls = (r, st')) : Step st st' (declImports decls) := by
  have hinv := (invAt storeRel_true (fuel + 1)).libraryDef h
  rw [evalLibraryDef] at h
  simp only [Store.newFrame] at h
  split at h <;> rename_i he <;> cases h <;>
    exact (ih.libDecls he).transport hinv rfl rfl rfl rfl rfl

theorem step_libDecls_succ {fuel} (ih : StepAt fuel) {st ρ decls acc r st'}
    (h : evalLibDecls (fuel + 1) st ρ decls acc = (r, st')) : Step st st' (declImports decls) := by
  cases decls with
  | nil => rw [evalLibDecls] at h; cases h; exact Step.refl _ _
  | cons d ds =>
    cases d with
    | importDecl sets =>
      rw [evalLibDecls] at h
      have m1 : ∀ {a b}, Step a b (sets.map S.leaf) → Step a b (declImports (.importDecl sets :: ds)) :=
        fun hs => hs.mono (fun r hr => by simp only [declImports, List.mem_append]; exact .inl hr)
      have m2 : ∀ {a b}, Step a b (declImports ds) → Step a b (declImports (.importDecl sets :: ds)) :=
        fun hs => hs.mono (fun r hr => by simp only [declImports, List.mem_append]; exact .inr hr)
      split at h <;> rename_i he
      · cases h; exact m1 (ih.import_ he)
      · exact (m1 (ih.import_ he)).trans (m2 (ih.libDecls h))
    | «export» specs =>
      rw [evalLibDecls] at h
      exact (ih.libDecls h : Step _ _ (declImports ds))
    | begin_ body =>
      rw [evalLibDecls] at h
      split at h <;> rename_i he
      · cases h; exact (ih.statements he).mono (by simp)
      · exact ((ih.statements he).mono (by simp)).trans (ih.libDecls h : Step _ _ (declImports ds))

theorem evalExprOrDef_step {fuel st s ρ r st'} (h : evalExprOrDef fuel st s ρ = (r, st')) :
    Step st st' [] := by
  have hinv := evalExprOrDef_inv storeRel_true h
  unfold evalExprOrDef at h
  split at h
  · split at h <;> cases h <;> exact Step.of_inv_same _ hinv rfl rfl
  · split at h <;> cases h <;> exact Step.of_inv_same _ hinv rfl rfl
  · cases h; exact Step.of_inv_same _ hinv rfl rfl
  · cases h; exact Step.refl _ _

theorem step_statements_succ {fuel} (ih : StepAt fuel) {st ρ ss r st'}
    (h : evalStatements (fuel + 1) st ρ ss = (r, st')) : Step st st' [] := by
  cases ss with
  | nil => rw [evalStatements] at h; cases h; exact Step.refl _ _
  | cons s rest =>
    rw [evalStatements] at h
    split at h <;> rename_i he
    · cases h; exact evalExprOrDef_step he
    · exact (evalExprOrDef_step he).trans (ih.statements h)

theorem stepAt : ∀ fuel, StepAt fuel
  | 0 => stepAt_zero
  | fuel + 1 =>
    have ih := stepAt fuel
    ⟨step_importSet_succ ih, step_getLibrary_succ ih, step_import_succ ih, step_importSets_succ ih,
     step_libraryDef_succ ih, step_libDecls_succ ih, step_statements_succ ih⟩

/-! ## what a factory made from a text is -/

/-- the reader state `factoryOfText` starts from -/
def scanStart (t : String) : Read.PState :=
  let s := Read.ofText t.toList
  { s with toks := s.toks.map (fun tk => { tk with loc := none }) }

/-- the reader states and syntax scopes `factoryOfText` goes through on the text `t`: the start,
and the state after each top-level form that was read and transformed successfully -/
inductive Scanned (t : String) : Read.PState → Xform.SynEnv → Prop where
  | start : Scanned t (scanStart t) [[], grammarScope]
  | next {s env d s' stmt env'} : Scanned t s env → Read.nextDatum s = .ok (some d, s') →
      Xform.toStatement (Xform.xformFuel d.strip) d.strip env = (.ok stmt, env') → Scanned t s' env'

/-- the text `t` contains a top-level form that is a `define-library` named `n` with the
declarations `decls` -/
def DefinesLibrary (t : String) (n : LibName) (decls : List LibDecl) : Prop :=
  ∃ s env d s' loc env', Scanned t s env ∧ Read.nextDatum s = .ok (some d, s') ∧
    Xform.toStatement (Xform.xformFuel d.strip) d.strip env = (.ok (.libraryDef n decls loc), env')

theorem factoryOfText_go_ok (t : String) (name : LibName) : ∀ (k : Nat) (s : Read.PState) (env : Xform.SynEnv)
    (f : Factory), Scanned t s env → factoryOfText.go name k s env = .ok f →
    ∃ decls, f = .ast decls ∧ DefinesLibrary t name decls := by
  intro k
  induction k with
  | zero => intro s env f _ h; rw [factoryOfText.go] at h; cases h
  | succ k ih =>
    intro s env f hs h
    rw [factoryOfText.go] at h
    split at h
    · cases h
    · cases h
    · rename_i d s' hnd
      simp only at h
      split at h
      · cases h
      · rename_i n decls loc env' hts
        split at h
        · rename_i hn
          cases h
          exact ⟨decls, rfl, s, env, d, s', loc, env', hs, hnd, hn ▸ hts⟩
        · exact ih s' env' f (.next hs hnd hts) h
      · rename_i stmt env' _ hts
        exact ih s' env' f (.next hs hnd hts) h

/-- a factory made from a text is the AST of a `define-library` OF THAT NAME in the text -/
theorem factoryOfText_ok {name : LibName} {t : String} {f : Factory} (h : factoryOfText name t = .ok f) :
    ∃ decls, f = .ast decls ∧ DefinesLibrary t name decls := by
  unfold factoryOfText at h
  exact factoryOfText_go_ok t name _ _ _ f .start h

/-- an empty file defines no library: `from_char_stream` reports `LibraryNotFound` -/
theorem factoryOfText_empty (n : LibName) : factoryOfText n "" = .error (.libNotFound, none) := by
  have hs : Lex.skipAtmosphere false [] (1, 1) = ([], (1, 1)) := by
    rw [Lex.skipAtmosphere]
  have h0 : Lex.all [] = ([], none) := by
    simp [Lex.all, Lex.allAux, Lex.next, hs, Lex.token]
  have h1 : "".toList = [] := rfl
  unfold factoryOfText
  simp only [h1, Read.ofText, h0, List.map_nil, List.length_nil]
  rw [factoryOfText.go]
  simp [Read.nextDatum, Read.advance, bind, Except.bind, Read.currentDatum, Read.fuelFor]

theorem scanStart_empty_next : ∃ s', Read.nextDatum (scanStart "") = .ok (none, s') := by
  have hs : Lex.skipAtmosphere false [] (1, 1) = ([], (1, 1)) := by
    rw [Lex.skipAtmosphere]
  have h0 : Lex.all [] = ([], none) := by
    simp [Lex.all, Lex.allAux, Lex.next, hs, Lex.token]
  have h1 : "".toList = [] := rfl
  simp [scanStart, h1, Read.ofText, h0, Read.nextDatum, Read.advance, bind, Except.bind,
    Read.currentDatum, Read.fuelFor]

theorem not_definesLibrary_empty (n : LibName) : ¬ ∃ decls, DefinesLibrary "" n decls := by
  have key : ∀ s env, Scanned "" s env → s = scanStart "" := by
    intro s env h
    induction h with
    | start => rfl
    | next _ hnd _ ih =>
      subst ih
      obtain ⟨s', hs'⟩ := scanStart_empty_next
      rw [hs'] at hnd; cases hnd
  rintro ⟨decls, s, env, d, s', loc, env', hs, hnd, -⟩
  have := key s env hs
  subst this
  obtain ⟨s'', hs''⟩ := scanStart_empty_next
  rw [hs''] at hnd; cases hnd

/-- a file that cannot give a factory: the error, and the state untouched -/
theorem getLibrary_file_error {fuel : Nat} {st : State} {n : LibName} {loc : Loc} {t : String} {e : SErr}
    (hi : libLookup st.instances n = none) (hf : libLookup st.factories n = none)
    (hfile : st.files.lookup (fileKey st.dir (libPath n)) = some (.text t)) (he : factoryOfText n t = .error e) :
    Interp.getLibrary (fuel + 1) st n loc = (.error e, st) := by
  rw [getLibrary_succ_eq, hi]
  simp [findFactory, hf, hfile, he]

theorem evalImportSet_direct_eq {fuel : Nat} {st : State} {n : LibName} {loc : Loc} (hip : n ∉ st.inProgress) :
    evalImportSet (fuel + 1) st (.direct n loc) =
      ((Interp.getLibrary fuel { st with inProgress := n :: st.inProgress } n loc).1,
       { (Interp.getLibrary fuel { st with inProgress := n :: st.inProgress } n loc).2 with
          inProgress := st.inProgress }) := by
  rw [evalImportSet]
  have : st.inProgress.contains n = false := by simpa using hip
  simp only [this]
  have hinv := (invAt storeRel_true fuel).getLibrary
    (st := { st with inProgress := n :: st.inProgress }) (name := n) (loc := loc) (r := _) (st' := _) rfl
  simp [hinv.inProgress]

end Interp
end Ruschm

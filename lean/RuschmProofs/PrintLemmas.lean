/-
Helper lemmas for property C16 (`display` output reads back): the printer's layout, the text of a
datum, `Prim.display` on readable values, `Eval.readLiteral` on their data, structural equality.
-/
import RuschmSpec.Print
import RuschmProofs.ReadLemmas

namespace Ruschm.Print
open Ruschm Ruschm.Text Ruschm.Lex

/-! ## the printer's layout -/

theorem interleave_lay (o : Bool) (ts : List Token) : interleave ts (lay o ts) = layText o ts := by
  induction ts generalizing o with
  | nil => rfl
  | cons t ts ih => simp [interleave, lay, layText, ih]

theorem layText_append (o : Bool) (xs ys : List Token) (t : Token) :
    layText o (xs ++ t :: ys)
      = layText o xs ++ layText ((xs.getLast?.map opens).getD o) (t :: ys) := by
  induction xs generalizing o with
  | nil => simp [layText]
  | cons x xs ih =>
    simp only [List.cons_append, layText, ih, List.append_assoc]
    cases xs <;> simp [List.getLast?]

/-- tokens of the cdr chain of a list, up to and including the closing parenthesis -/
def tailToks (d : Datum) : List Token :=
  Syn.toksL (Syn.ofTail d).1 ++ Text.tailToks (Syn.ofTail d).2

theorem toks_ofDatum_pair (a d : Datum) (l : Loc) :
    (Syn.ofDatum (.pair a d l)).toks = .lparen :: ((Syn.ofDatum a).toks ++ tailToks d) := by
  simp only [Syn.ofDatum, tailToks]
  split <;> rename_i h <;> simp [Syn.toks, Syn.toksL, h, Text.tailToks]

theorem tailToks_pair (a d : Datum) (l : Loc) :
    tailToks (.pair a d l) = (Syn.ofDatum a).toks ++ tailToks d := by
  simp [tailToks, Syn.ofTail, Syn.toksL]

theorem tailToks_nil (l : Loc) : tailToks (.nil l) = [.rparen] := by
  simp [tailToks, Syn.ofTail, Syn.toksL, Text.tailToks]

theorem tailToks_prim (p : Prim) (l : Loc) :
    tailToks (.prim p l) = [.period, .prim p, .rparen] := by
  simp [tailToks, Syn.ofTail, Syn.toksL, Text.tailToks, Syn.toks]

theorem tailToks_sym (s : String) (l : Loc) :
    tailToks (.sym s l) = [.period, .ident s, .rparen] := by
  simp [tailToks, Syn.ofTail, Syn.toksL, Text.tailToks, Syn.toks]

theorem tailToks_vec (xs : List Datum) (l : Loc) :
    tailToks (.vec xs l)
      = .period :: .vecIntro :: (Syn.toksL (Syn.ofDatums xs) ++ [.rparen, .rparen]) := by
  simp [tailToks, Syn.ofTail, Syn.toksL, Text.tailToks, Syn.toks]

/-- the separator the printer puts before a datum -/
def pre (o : Bool) : List Char := if o then [] else [' ']

mutual
theorem layText_datum : (d : Datum) → (o : Bool) → (more : List Token) →
    layText o ((Syn.ofDatum d).toks ++ more) = pre o ++ (showDatum d ++ layText false more)
  | .prim p _, o, more => by
    cases o <;> simp [Syn.ofDatum, Syn.toks, layText, sep, pre, showDatum, opens]
  | .sym s _, o, more => by
    cases o <;> simp [Syn.ofDatum, Syn.toks, layText, sep, pre, showDatum, opens]
  | .nil _, o, more => by
    cases o <;> simp [Syn.ofDatum, Syn.toks, Syn.toksL, layText, sep, pre, showDatum, opens,
      renderTok]
  | .vec xs _, o, more => by
    have h := layText_items xs more
    simp only [Syn.ofDatum, Syn.toks, List.cons_append, List.append_assoc, List.nil_append,
      layText, opens, h, showDatum]
    cases o <;> simp [sep, pre, renderTok]
  | .pair a d l, o, more => by
    rw [toks_ofDatum_pair]
    have h1 := layText_datum a true (tailToks d ++ more)
    have h2 := layText_tail d more
    simp only [List.cons_append, List.append_assoc, layText, opens, h1, h2, showDatum]
    cases o <;> simp [sep, pre, renderTok]
theorem layText_tail : (d : Datum) → (more : List Token) →
    layText false (tailToks d ++ more) = showTail d ++ (')' :: layText false more)
  | .nil _, more => by simp [tailToks_nil, layText, sep, showTail, renderTok, opens]
  | .pair a d l, more => by
    rw [tailToks_pair]
    have h1 := layText_datum a false (tailToks d ++ more)
    have h2 := layText_tail d more
    simp [List.append_assoc, h1, h2, showTail, pre]
  | .prim p _, more => by
    simp [tailToks_prim, layText, sep, showTail, renderTok, opens]
  | .sym s _, more => by
    simp [tailToks_sym, layText, sep, showTail, renderTok, opens]
  | .vec xs _, more => by
    have h := layText_items xs (.rparen :: more)
    simp only [tailToks_vec, List.cons_append, List.append_assoc, List.nil_append, layText, opens,
      h, showTail]
    simp [sep, renderTok]
/-- vector items and the closing parenthesis, after `#(` -/
theorem layText_items : (xs : List Datum) → (more : List Token) →
    layText true (Syn.toksL (Syn.ofDatums xs) ++ .rparen :: more)
      = showItems xs ++ (')' :: layText false more)
  | [], more => by simp [Syn.ofDatums, Syn.toksL, layText, sep, showItems, renderTok, opens]
  | x :: xs, more => by
    have h1 := layText_datum x true (Syn.toksL (Syn.ofDatums xs) ++ .rparen :: more)
    have h2 := layText_rest xs more
    simp [Syn.ofDatums, Syn.toksL, List.append_assoc, h1, h2, showItems, pre]
theorem layText_rest : (xs : List Datum) → (more : List Token) →
    layText false (Syn.toksL (Syn.ofDatums xs) ++ .rparen :: more)
      = showRest xs ++ (')' :: layText false more)
  | [], more => by simp [Syn.ofDatums, Syn.toksL, layText, sep, showRest, renderTok, opens]
  | x :: xs, more => by
    have h1 := layText_datum x false (Syn.toksL (Syn.ofDatums xs) ++ .rparen :: more)
    have h2 := layText_rest xs more
    simp [Syn.ofDatums, Syn.toksL, List.append_assoc, h1, h2, showRest, pre]
end

/-- the text of a datum under the printer's layout is `showDatum` -/
theorem renderDatum_printerLayout (d : Datum) : renderDatum d (printerLayout d) = showDatum d := by
  have h := layText_datum d true []
  simp only [List.append_nil, pre, layText] at h
  simp [renderDatum, Syn.render, printerLayout, interleave_lay, h]

theorem followOK_rparen (t : Token) (h : t ≠ .unquote) (rest : List Char) :
    followOK t (')' :: rest) = true := by
  cases t <;> simp_all [followOK, startsDelim, isDelimiter]

theorem followOK_opens (t : Token) (h : opens t = true) (rest : List Char) :
    followOK t rest = true := by
  cases t <;> simp_all [followOK, opens, selfDelimiting]

theorem validGaps_lay (ts : List Token) (o : Bool) (h : ∀ t ∈ ts, t ≠ .unquote) :
    ValidGaps ts (lay o ts) := by
  induction ts generalizing o with
  | nil => simp [lay, ValidGaps, isTrail]
  | cons t ts ih =>
    simp only [lay, ValidGaps]
    refine ⟨?_, ?_, ih _ (fun x hx => h x (by simp [hx]))⟩
    · unfold sep; split <;> simp [isAtmos, isWs]
    · cases ts with
      | nil => simpa [lay, gapOK] using h t (by simp)
      | cons t2 ts' =>
        simp only [lay, List.headD_cons, gapOK, List.head?_cons]
        by_cases ho : opens t = true
        · simp [followOK_opens t ho]
        · by_cases hr : t2 = .rparen
          · subst hr; simp [renderTok, followOK_rparen t (h t (by simp))]
          · simp [sep, ho, hr]

end Ruschm.Print
